#!/usr/bin/env python3
"""Regenerates DESIGN.md section 12 (seeded changes and which checks catch them) from seeded/*/meta.json."""
import json, os, re
V = os.path.dirname(os.path.abspath(__file__))
rows = []
for d in sorted(os.listdir(os.path.join(V, "seeded"))):
    mp = os.path.join(V, "seeded", d, "meta.json")
    if not os.path.exists(mp):
        continue
    m = json.load(open(mp))
    how = []
    for c, r in (m.get("checks") or {}).items():
        if r.get("exit") == 1 and r.get("violation"):
            kind = r.get("kind") or ""
            what = (r.get("oracle") or "").replace("|", "/")
            how.append("`%s`: %s (%s)" % (c, "failing input" if kind == "failing-input" else "no-failing-input-found", what[:80]))
        else:
            how.append("`%s`: **missed**" % c)
    title = (m.get("title") or "").replace("|", "/")
    needs = (m.get("needs") or "").replace("|", "/").replace("\n", " ")
    if len(needs) > 220:
        needs = needs[:217] + "…"
    rows.append("| `%s` | %s | %s | %s |" % (d, title, needs, "; ".join(how)))
sec = ["## 12. Seeded changes and which checks catch them", "",
       "Each row is a change to inbucket written by an independent sub-agent that was given only the text of one property and a",
       "scratch worktree (nothing from `/verif`): it still compiles, still passes the 315 existing tests, and breaks the property only on",
       "a specific input / history / schedule.  `seedck.py` re-confirmed every claim in its own scratch worktree (build, whole suite,",
       "demonstration fails with the change and passes without), then applied the patch to `/repo`, ran the quick check(s) and undid it.",
       "Patches, demonstrations and the full record are in `seeded/<id>/`.  “failing input” = the check reported a concrete replay on the",
       "implementation; “no-failing-input-found” = only a proof obligation or a correspondence broke.", "",
       "| seeded change | what it does | what it needs to manifest | result of `./check` (quick tier) |", "|---|---|---|---|"] + rows + [""]
p = os.path.join(V, "DESIGN.md")
s = open(p).read()
body = "\n".join(sec)
if "## 12. Seeded changes" in s:
    i = s.index("## 12. Seeded changes")
    j = s.index("---------------------------------------------------------------------------------------------------", i) if "-----" in s[i:] else s.index("## Appendix A", i)
    s = s[:i] + body + "\n" + s[j:]
else:
    i = s.index("## Appendix A")
    k = s.rfind("---------------------------------------------------------------------------------------------------", 0, i)
    s = s[:k] + "---------------------------------------------------------------------------------------------------\n\n" + body + "\n" + s[k:]
open(p, "w").write(s)
print(len(rows), "rows")
