#!/bin/sh
# merge3.sh <agent> <base-commit> <file>...: three-way merge of a builder's version of files that changed here too since the builder's copy was taken
a="$1"; base="$2"; shift 2
for f in "$@"; do
  git show "$base:$f" > /tmp/merge3.base 2>/dev/null || : > /tmp/merge3.base
  if cmp -s /tmp/merge3.base "/tmp/ag/$a/verif/$f"; then echo "$f: builder did not change it"; continue; fi
  if git merge-file -p "$f" /tmp/merge3.base "/tmp/ag/$a/verif/$f" > /tmp/merge3.out; then cp /tmp/merge3.out "$f"; echo "$f: merged"; else cp /tmp/merge3.out "$f"; echo "$f: CONFLICTS"; fi
done
