#!/usr/bin/env python3
"""mergemeta.py <agent> <base-commit> <Cnn>: JSON-aware three-way merge of meta/Cnn.json (lists: union; strings: the builder's addition appended)"""
import json, subprocess, sys
a, base, c = sys.argv[1:4]
f = "meta/%s.json" % c
B = json.loads(subprocess.check_output(["git", "show", "%s:%s" % (base, f)], text=True))
O = json.loads(subprocess.check_output(["git", "show", "HEAD:%s" % f], text=True))
T = json.load(open("/tmp/ag/%s/verif/%s" % (a, f)))
def merge(b, o, t):
    if isinstance(t, dict):
        r = dict(o) if isinstance(o, dict) else {}
        for k in t:
            r[k] = merge((b or {}).get(k) if isinstance(b, dict) else None, r.get(k), t[k])
        return r
    if isinstance(t, list):
        r = list(o or [])
        for x in t:
            if x not in r and x not in (b or []):
                r.append(x)
        return r
    if isinstance(t, str):
        if t == b or o is None: return o if o is not None else t
        if o == b: return t
        if b and t.startswith(b): return o + t[len(b):]
        return o + " || " + t
    return t if o == b or o is None else o
json.dump(merge(B, O, T), open(f, "w"), indent=1)
print("merged", f)
