#!/bin/bash
# for every seeded / harmless patch touching pkg/extension: Lua.lean of the old extractor vs the new one
cd /tmp/ag/t1lua
for d in verif/seeded/* verif/harmless/*; do
  grep -q "pkg/extension/" $d/patch.diff 2>/dev/null || continue
  git -C repo reset -q --hard; git -C repo clean -fdq
  git -C repo apply /tmp/ag/t1lua/$d/patch.diff 2>/dev/null || git -C repo apply --3way /tmp/ag/t1lua/$d/patch.diff >/dev/null 2>&1 || { echo "$(basename $d) APPLY-FAILED"; git -C repo reset -q --hard; continue; }
  rm -rf work/o1 work/o2; mkdir -p work/o1 work/o2
  work/extract-old -repo /tmp/ag/t1lua/repo -out work/o1 >/dev/null 2>&1
  work/extract -repo /tmp/ag/t1lua/repo -out work/o2 >/dev/null 2>&1
  a=$(diff -q work/base/Lua.lean work/o1/Lua.lean >/dev/null && echo same || echo CHANGED)
  b=$(diff -q work/base/Lua.lean work/o2/Lua.lean >/dev/null && echo same || echo CHANGED)
  c=$(diff -rq work/o1 work/o2 >/dev/null && echo identical || echo DIFFER)
  echo "$(basename $d) old:$a new:$b old-vs-new:$c"
done
git -C repo reset -q --hard; git -C repo clean -fdq
