#!/usr/bin/env python3
# runs the extractor on variants of the detach code and prints afterHandlersDetach
import subprocess, re, sys, os
REPO='/tmp/ag/t1lua/repo'; F=REPO+'/pkg/extension/luahost/lua.go'
orig=subprocess.check_output(['git','-C',REPO,'show','HEAD:pkg/extension/luahost/lua.go']).decode()
a=orig.index('func detachAddresses'); b=orig.index('func (h *Host) handleBeforeMailFromAccepted')
LISTENER='''
func (h *Host) handleAfter%(N)s(msg event.MessageMetadata) {
	logger, ls, ib, ok := h.prepareInbucketFuncCall("after.x")
	if !ok {
		return
	}
	defer h.pool.putState(ls)
%(PRE)s
	logger.Debug().Msgf("Calling Lua function with %%+v", msg)
	if err := ls.CallByParam(
		lua.P{Fn: ib.After.%(N)s, NRet: 0, Protect: true},
		wrapMessageMetadata(ls, %(ARG)s),
	); err != nil {
		logger.Error().Err(err).Msg("Failed to call Lua function")
	}
%(POST)s
}
'''
def listeners(pre='\tdetachAddresses(&msg)', arg='&msg', post=''):
    return ''.join(LISTENER%dict(N=n,PRE=pre,ARG=arg,POST=post) for n in ('MessageDeleted','MessageStored'))
FROM='''	if msg.From != nil {
		from := *msg.From
		msg.From = &from
	}
'''
def helper(body, extra=''):
    return 'func detachAddresses(msg *event.MessageMetadata) {\n'+body+'}\n'+extra
V={}
V['P0-original']=(helper(FROM+'''	to := append(msg.To[:0:0], msg.To...)
	for i, addr := range to {
		if addr != nil {
			addrCopy := *addr
			to[i] = &addrCopy
		}
	}
	msg.To = to
'''),listeners())
V['P1-make-copy-indexloop']=(helper(FROM+'''	to := make([]*mail.Address, len(msg.To))
	copy(to, msg.To)
	for i := range to {
		if to[i] != nil {
			c := *to[i]
			to[i] = &c
		}
	}
	msg.To = to
'''),listeners())
V['P2-make0-append-else-nil']=(helper(FROM+'''	n := len(msg.To)
	to := make([]*mail.Address, 0, n)
	for _, a := range msg.To {
		if a == nil {
			to = append(to, nil)
			continue
		}
		c := *a
		to = append(to, &c)
	}
	msg.To = to
'''),listeners())
V['P3-composite-literal']=(helper('''	if f := msg.From; f != nil {
		msg.From = &mail.Address{Name: f.Name, Address: f.Address}
	}
	to := slices.Clone(msg.To)
	for i, a := range msg.To {
		if a != nil {
			to[i] = &mail.Address{Address: a.Address, Name: a.Name}
		}
	}
	msg.To = to
'''),listeners())
V['P4-in-place-on-own-struct']=(helper(FROM+'''	msg.To = slices.Clone(msg.To)
	for i, a := range msg.To {
		if a == nil {
			continue
		}
		c := *a
		msg.To[i] = &c
	}
'''),listeners())
V['P5-inline-in-listeners-through-pointer']=('',listeners(pre='''	m := &msg
	if m.From != nil {
		c := *m.From
		m.From = &c
	}
	to := append([]*mail.Address(nil), m.To...)
	for i := 0; i != len(to); i += 1 {
		if p := to[i]; p != nil {
			c := *p
			to[i] = &c
		}
	}
	(*m).To = to''', arg='m'))
V['P6-new-and-star-assign']=(helper('''	if msg.From != nil {
		n := new(mail.Address)
		*n = *msg.From
		msg.From = n
	}
	var to []*mail.Address
	for _, a := range msg.To {
		var c *mail.Address
		if a != nil {
			c = new(mail.Address)
			*c = *a
		}
		to = append(to, c)
	}
	msg.To = to
'''),listeners())
V['P7-len-guard-and-switch']=(helper('''	switch {
	case msg.From != nil:
		c := *msg.From
		msg.From = &c
	}
	if len(msg.To) > 0 {
		to := make([]*mail.Address, len(msg.To))
		for i := range msg.To {
			to[i] = cloneAddress(msg.To[i])
		}
		msg.To = to
	}
''','''
func cloneAddress(a *mail.Address) *mail.Address {
	if a != nil {
		c := *a
		return &c
	}
	return nil
}
'''),listeners())
V['P8-helper-returns-struct']=('''func detached(m event.MessageMetadata) event.MessageMetadata {
	if m.From != nil {
		c := *m.From
		m.From = &c
	}
	to := slices.Clone(m.To)
	for i := range to {
		if to[i] == nil {
			continue
		}
		c := *to[i]
		to[i] = &c
	}
	m.To = to
	return m
}
''',listeners(pre='\tmsg = detached(msg)'))
V['P9-wrap-in-own-statement-and-local-copy']=(helper(FROM+'''	to := slices.Clone(msg.To)
	for i, a := range to {
		if a != nil {
			c := *a
			to[i] = &c
		}
	}
	msg.To = to
'''),''.join(LISTENER%dict(N=n,PRE='\tlocal := msg\n\tdetachAddresses(&local)\n\tud := wrapMessageMetadata(ls, &local)',ARG='&local',POST='\t_ = ud') for n in ('MessageDeleted','MessageStored')))
V['P10-fieldwise-copy']=(helper('''	if msg.From != nil {
		var c mail.Address
		c.Name = msg.From.Name
		c.Address = msg.From.Address
		msg.From = &c
	}
	to := slices.Clone(msg.To)
	for i, a := range to {
		if a != nil {
			c := &mail.Address{}
			c.Address, c.Name = a.Address, a.Name
			to[i] = c
		}
	}
	msg.To = to
'''),listeners())
# ---- negatives
CL='''	to := slices.Clone(msg.To)
	for i, a := range to {
		if a != nil {
			c := *a
			to[i] = &c
		}
	}
	msg.To = to
'''
V['N1-only-from']=(helper(FROM),listeners())
V['N2-no-clone-writes-event-slice']=(helper(FROM+'''	to := msg.To
	for i, a := range to {
		if a != nil {
			c := *a
			to[i] = &c
		}
	}
	msg.To = to
'''),listeners())
V['N3-clone-but-same-pointers']=(helper(FROM+'''	to := slices.Clone(msg.To)
	for i, a := range to {
		to[i] = a
	}
	msg.To = to
'''),listeners())
V['N3b-clone-no-loop']=(helper(FROM+'''	msg.To = slices.Clone(msg.To)
'''),listeners())
V['N4-to-not-assigned']=(helper(FROM+CL.replace('\tmsg.To = to\n','\t_ = to\n')),listeners())
V['N5-under-a-flag']=(helper('''	if detachFlag {
'''+FROM+CL+'''	}
''','var detachFlag = true\n'),listeners())
V['N6-after-the-call']=(helper(FROM+CL),listeners(pre='',post='\tdetachAddresses(&msg)'))
V['N7-loop-skips-first']=(helper(FROM+'''	to := slices.Clone(msg.To)
	for i := 1; i < len(to); i++ {
		if to[i] != nil {
			c := *to[i]
			to[i] = &c
		}
	}
	msg.To = to
'''),listeners())
V['N7b-loop-bound-minus-one']=(helper(FROM+'''	to := slices.Clone(msg.To)
	for i := 0; i < len(to)-1; i++ {
		if to[i] != nil {
			c := *to[i]
			to[i] = &c
		}
	}
	msg.To = to
'''),listeners())
V['N8-identity-clone-helper']=(helper('''	msg.From = cloneAddress(msg.From)
	to := slices.Clone(msg.To)
	for i := range to {
		to[i] = cloneAddress(to[i])
	}
	msg.To = to
''','''
func cloneAddress(a *mail.Address) *mail.Address {
	if a == nil {
		return nil
	}
	return a
}
'''),listeners())
V['N9-copy-modified']=(helper('''	if msg.From != nil {
		c := *msg.From
		c.Name = "x"
		msg.From = &c
	}
'''+CL),listeners())
V['N10-from-is-copy-of-to-element']=(helper(CL+'''	for _, a := range msg.To {
		_ = a
	}
	if msg.From != nil {
		c := *msg.To[0]
		msg.From = &c
	}
'''),listeners())
V['N11-break-after-first']=(helper(FROM+'''	to := slices.Clone(msg.To)
	for i, a := range to {
		if a != nil {
			c := *a
			to[i] = &c
		}
		break
	}
	msg.To = to
'''),listeners())
V['N12-append-into-same-array']=(helper(FROM+'''	to := append(msg.To[:0], msg.To...)
	for i, a := range to {
		if a != nil {
			c := *a
			to[i] = &c
		}
	}
	msg.To = to
'''),listeners())
V['N13-nil-guard-inverted']=(helper(FROM+'''	to := slices.Clone(msg.To)
	for i, a := range to {
		if a == nil {
			continue
		}
		if len(a.Name) > 3 {
			continue
		}
		c := *a
		to[i] = &c
	}
	msg.To = to
'''),listeners())
V['N14-append-skips-nil']=(helper(FROM+'''	to := make([]*mail.Address, 0, len(msg.To))
	for _, a := range msg.To {
		if a != nil {
			c := *a
			to = append(to, &c)
		}
	}
	msg.To = to
'''),listeners())
V['N15-one-listener-only']=(helper(FROM+CL),LISTENER%dict(N='MessageDeleted',PRE='\tdetachAddresses(&msg)',ARG='&msg',POST='')+LISTENER%dict(N='MessageStored',PRE='',ARG='&msg',POST=''))
V['N16-copies-wrong-struct']=(helper(FROM+CL),listeners(pre='\tother := msg\n\tdetachAddresses(&other)'))
V['N17-from-dropped']=(helper('\tmsg.From = nil\n'+CL),listeners())
V['N18-goroutine']=(helper(FROM+CL),listeners(pre='\tgo detachAddresses(&msg)'))
V['N19-writes-shared-address']=(helper('\tif msg.From != nil {\n\t\tmsg.From.Name = "x"\n\t}\n'+FROM+CL),listeners())
V['N20-copy-of-from-stored-in-to']=(helper(FROM+'''	to := slices.Clone(msg.To)
	for i := range to {
		to[i] = msg.From
	}
	msg.To = to
'''),listeners())
only=sys.argv[1:]
for k,(h,l) in V.items():
    if only and not any(k.startswith(o) for o in only): continue
    src=orig[:a]+h+l+'\n'+orig[b:]
    if 'slices.' in src and '"slices"' not in src: src=src.replace('\t"os"\n','\t"os"\n\t"slices"\n',1)
    if 'mail.' in src and '"net/mail"' not in src: src=src.replace('\t"os"\n','\t"net/mail"\n\t"os"\n',1)
    open(F,'w').write(src)
    r=subprocess.run(['go','build','./pkg/extension/luahost/'],cwd=REPO,capture_output=True,text=True,env=dict(os.environ,GOFLAGS='-mod=mod',GOPROXY='off',GOSUMDB='off',GOTOOLCHAIN='local'))
    comp='compiles' if r.returncode==0 else 'DOES-NOT-COMPILE '+r.stderr[:300]
    out='/tmp/ag/t1lua/work/variants/'+k
    os.makedirs(out,exist_ok=True)
    subprocess.run(['/tmp/ag/t1lua/work/extract','-repo',REPO,'-out',out],capture_output=True)
    m=re.search(r'def afterHandlersDetach .*:= (.*)',open(out+'/Lua.lean').read())
    # any other fact changed?
    d=subprocess.run(['diff','/tmp/ag/t1lua/work/base/Lua.lean',out+'/Lua.lean'],capture_output=True,text=True).stdout
    others=len([x for x in d.split('\n') if x.startswith('>') and 'afterHandlersDetach' not in x])
    print('%-42s %s  [%s; other changed lines: %d]'%(k,m.group(1),comp,others))
subprocess.run(['git','-C',REPO,'reset','-q','--hard'])
