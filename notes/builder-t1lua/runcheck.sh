#!/bin/bash
# usage: runcheck.sh <label> [patch-dir | revert:<commit> | none]   -> runs ./check C17 with the change applied, logs to work/check-<label>.log
L=$1; W=$2
cd /tmp/ag/t1lua
git -C repo reset -q --hard; git -C repo clean -fdq
case "$W" in
  none|"") ;;
  revert:*) git -C repo revert --no-commit ${W#revert:} >/dev/null 2>&1 || { echo "$L REVERT-FAILED"; exit 2; } ;;
  *) git -C repo apply /tmp/ag/t1lua/verif/$W/patch.diff 2>/dev/null || git -C repo apply --3way /tmp/ag/t1lua/verif/$W/patch.diff >/dev/null 2>&1 || { echo "$L APPLY-FAILED"; git -C repo reset -q --hard; exit 2; } ;;
esac
cd verif
VERIF_REPO=/tmp/ag/t1lua/repo timeout 2400 ./check C17 > /tmp/ag/t1lua/work/check-$L.log 2>&1
rc=$?
cd ..
git -C repo reset -q --hard; git -C repo clean -fdq
echo "$L exit=$rc  $(grep -c VIOLATION work/check-$L.log) VIOLATION line(s)  | $(grep -m1 -o 'Ibx/Tie/[A-Za-z]*.lean:[0-9]*:[0-9]*' work/check-$L.log | sort -u | tr '\n' ' ') | $(tail -1 work/check-$L.log | cut -c1-160)"
