#!/bin/bash
# usage: ex.sh <outdir>   builds the extractor and runs it on the repo worktree
set -e
cd /tmp/ag/t1lua/verif/harness
export GOFLAGS=-mod=mod GOPROXY=off GOSUMDB=off GOTOOLCHAIN=local
timeout 600 go build -tags verif -o /tmp/ag/t1lua/work/extract ./cmd/extract
rm -rf "$1"; mkdir -p "$1"
timeout 300 /tmp/ag/t1lua/work/extract -repo /tmp/ag/t1lua/repo -out "$1" >/dev/null
