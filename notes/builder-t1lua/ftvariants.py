#!/usr/bin/env python3
import subprocess, re, sys, os
REPO='/tmp/ag/t1lua/repo'; F=REPO+'/pkg/extension/luahost/bind_inbucket.go'
orig=subprocess.check_output(['git','-C',REPO,'show','HEAD:pkg/extension/luahost/bind_inbucket.go']).decode()
def fn(name): 
    a=orig.index('func '+name+'('); b=orig.index('\n}\n',a)+3
    return a,b
V={}
V['FT1-getter-if-chain']={'inbucketAfterIndex':'''func inbucketAfterIndex(ls *lua.LState) int {
	after := checkInbucketAfter(ls, 1)
	field := ls.CheckString(2)
	if field == "message_deleted" {
		ls.Push(funcOrNil(after.MessageDeleted))
		return 1
	}
	if "message_stored" != field {
		ls.Push(lua.LNil)
		return 1
	}
	ls.Push(funcOrNil(after.MessageStored))
	return 1
}
'''}
V['FT2-setter-select-place-then-store']={'inbucketAfterNewIndex':'''func inbucketAfterNewIndex(ls *lua.LState) int {
	m := checkInbucketAfter(ls, 1)
	index := ls.CheckString(2)
	var slot **lua.LFunction
	switch index {
	case "message_deleted":
		slot = &m.MessageDeleted
	case "message_stored":
		slot = &m.MessageStored
	}
	if slot == nil {
		ls.RaiseError("invalid inbucket.after index %q", index)
		return 0
	}
	*slot = ls.CheckFunction(3)
	return 0
}
'''}
V['FT3-getter-select-with-helper']={'inbucketAfterIndex':'''func inbucketAfterIndex(ls *lua.LState) int {
	after := checkInbucketAfter(ls, 1)
	ls.Push(funcOrNil(afterField(after, ls.CheckString(2))))
	return 1
}

func afterField(after *InbucketAfterFuncs, field string) *lua.LFunction {
	switch field {
	case "message_deleted":
		return after.MessageDeleted
	case "message_stored":
		return after.MessageStored
	}
	return nil
}
'''}
V['FN1-checkfunction-before-the-guard']={'inbucketAfterNewIndex':'''func inbucketAfterNewIndex(ls *lua.LState) int {
	m := checkInbucketAfter(ls, 1)
	index := ls.CheckString(2)
	fn := ls.CheckFunction(3)
	switch index {
	case "message_deleted":
		m.MessageDeleted = fn
	case "message_stored":
		m.MessageStored = fn
	default:
		ls.RaiseError("invalid inbucket.after index %q", index)
	}
	return 0
}
'''}
V['FN2-getter-fields-swapped']={'inbucketAfterIndex':'''func inbucketAfterIndex(ls *lua.LState) int {
	after := checkInbucketAfter(ls, 1)
	field := ls.CheckString(2)
	var fn *lua.LFunction
	switch field {
	case "message_deleted":
		fn = after.MessageStored
	case "message_stored":
		fn = after.MessageDeleted
	}
	ls.Push(funcOrNil(fn))
	return 1
}
'''}
V['FN3-getter-default-selects-a-field']={'inbucketAfterIndex':'''func inbucketAfterIndex(ls *lua.LState) int {
	after := checkInbucketAfter(ls, 1)
	field := ls.CheckString(2)
	fn := after.MessageStored
	switch field {
	case "message_deleted":
		fn = after.MessageDeleted
	case "message_stored":
	}
	ls.Push(funcOrNil(fn))
	return 1
}
'''}
V['FN4-setter-no-check']={'inbucketAfterNewIndex':'''func inbucketAfterNewIndex(ls *lua.LState) int {
	m := checkInbucketAfter(ls, 1)
	index := ls.CheckString(2)
	if index != "message_deleted" && index != "message_stored" {
		ls.RaiseError("invalid inbucket.after index %q", index)
		return 0
	}
	fn, _ := ls.Get(3).(*lua.LFunction)
	if index == "message_deleted" {
		m.MessageDeleted = fn
	} else {
		m.MessageStored = fn
	}
	return 0
}
'''}
V['FN5-select-then-push-without-funcOrNil']={'inbucketAfterIndex':'''func inbucketAfterIndex(ls *lua.LState) int {
	after := checkInbucketAfter(ls, 1)
	field := ls.CheckString(2)
	var fn *lua.LFunction
	switch field {
	case "message_deleted":
		fn = after.MessageDeleted
	case "message_stored":
		fn = after.MessageStored
	}
	ls.Push(fn)
	return 1
}
'''}
V['FN6-funcOrNil-returns-the-nil-pointer']={'funcOrNil':'''func funcOrNil(f *lua.LFunction) lua.LValue {
	return f
}
''','inbucketAfterIndex':'''func inbucketAfterIndex(ls *lua.LState) int {
	after := checkInbucketAfter(ls, 1)
	field := ls.CheckString(2)
	var fn *lua.LFunction
	switch field {
	case "message_deleted":
		fn = after.MessageDeleted
	case "message_stored":
		fn = after.MessageStored
	}
	ls.Push(funcOrNil(fn))
	return 1
}
'''}
only=sys.argv[1:]
for k,reps in V.items():
    if only and not any(k.startswith(o) for o in only): continue
    src=orig
    for name,text in reps.items():
        a=src.index('func '+name+'('); b=src.index('\n}\n',a)+3
        src=src[:a]+text+src[b:]
    open(F,'w').write(src)
    r=subprocess.run(['go','build','./pkg/extension/luahost/'],cwd=REPO,capture_output=True,text=True,env=dict(os.environ,GOFLAGS='-mod=mod',GOPROXY='off',GOSUMDB='off',GOTOOLCHAIN='local'))
    comp='compiles' if r.returncode==0 else 'DOES-NOT-COMPILE '+r.stderr[:300]
    out='/tmp/ag/t1lua/work/variants/'+k
    os.makedirs(out,exist_ok=True)
    subprocess.run(['/tmp/ag/t1lua/work/extract','-repo',REPO,'-out',out],capture_output=True)
    d=subprocess.run(['diff','-r','/tmp/ag/t1lua/work/base',out],capture_output=True,text=True).stdout
    print('=== %s [%s] %s'%(k,comp,'FACTS UNCHANGED' if not d else 'facts changed:'))
    print('\n'.join(x[:230] for x in d.split('\n')[:14]))
subprocess.run(['git','-C',REPO,'reset','-q','--hard'])
