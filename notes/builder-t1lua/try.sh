#!/bin/bash
# usage: try.sh <patchdir-name under harmless|seeded>  -> diff of all Gen files vs base
cd /tmp/ag/t1lua
git -C repo reset -q --hard && git -C repo clean -fdq
git -C repo apply /tmp/ag/t1lua/verif/$1/patch.diff || { echo APPLY-FAILED; exit 2; }
out=/tmp/ag/t1lua/work/out-$(basename $1)
work/ex.sh $out
git -C repo reset -q --hard && git -C repo clean -fdq
diff -r work/base $out
