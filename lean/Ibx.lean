import Ibx.Bytes
