import Ibx.Bytes
import Ibx.Gen.Entry
import Ibx.Tie.Entry
import Ibx.Props.C06Entry
