import Driver.Proto
import Ibx.Model.Lin
/-
  mode "lin": one recorded concurrent history per line, answered by the Wing–Gong checker of Ibx/Model/Lin.lean.

    lin cap=<n> <op> <op> …        ->  linearizable <i,j,…>  |  not-linearizable prefix=<i,j,…> stuck=<i:want:spec;…>

  <op> fields are '/'-separated (box names in hex, `-` = empty name; inv/resp = global counter values):
    a/<box>/<tok>/<size>/<rid|->/<inv>/<resp>      AddMessage returned a (real numeric id rid | opaque id)
    g/<box>/<tok>/<inv>/<resp>/<n|f0|f1>           GetMessage: notExist | found (seen flag)
    t/<box>/<inv>/<resp>/<n|tok>                   GetMessage "latest"
    l/<box>/<inv>/<resp>/<tok,tok,…|->             GetMessages (tokens, oldest first)
    s/<box>/<tok>/<inv>/<resp>/<o|n>               MarkSeen
    r/<box>/<tok>/<inv>/<resp>/<o|n>               RemoveMessage
    p/<box>/<inv>/<resp>                           PurgeMessages
    b/<box>/<tok>                                  optional background eviction (size enforcer)
-/
namespace Driver.ConcMode
open Ibx Ibx.Model.Lin Driver

def parseRes2 (s : String) : Option Res :=
  if s == "o" then some .ok else if s == "n" then some .notExist else none

def parseOp (t : String) : Option Ev :=
  match t.splitOn "/" with
  | ["a", b, tok, size, rid, inv, resp] => do
    let b ← Bytes.ofHex b
    let rid ← if rid == "-" then some none else rid.toNat?.map some
    pure { call := .add b (← tok.toNat?) (← size.toNat?) rid, res := .ok, inv := ← inv.toNat?, resp := ← resp.toNat? }
  | ["g", b, tok, inv, resp, r] => do
    let b ← Bytes.ofHex b
    let tok ← tok.toNat?
    let res ← if r == "n" then some Res.notExist else if r == "f0" then some (.found tok false)
              else if r == "f1" then some (.found tok true) else none
    pure { call := .get b tok, res := res, inv := ← inv.toNat?, resp := ← resp.toNat? }
  | ["t", b, inv, resp, r] => do
    let b ← Bytes.ofHex b
    let res ← if r == "n" then some Res.notExist else r.toNat?.map (fun t => Res.found t false)
    pure { call := .latest b, res := res, inv := ← inv.toNat?, resp := ← resp.toNat? }
  | ["l", b, inv, resp, r] => do
    let b ← Bytes.ofHex b
    pure { call := .list b, res := .toks (← natList r), inv := ← inv.toNat?, resp := ← resp.toNat? }
  | ["s", b, tok, inv, resp, r] => do
    let b ← Bytes.ofHex b
    pure { call := .seen b (← tok.toNat?), res := ← parseRes2 r, inv := ← inv.toNat?, resp := ← resp.toNat? }
  | ["r", b, tok, inv, resp, r] => do
    let b ← Bytes.ofHex b
    pure { call := .remove b (← tok.toNat?), res := ← parseRes2 r, inv := ← inv.toNat?, resp := ← resp.toNat? }
  | ["p", b, inv, resp] => do
    let b ← Bytes.ofHex b
    pure { call := .purge b, res := .ok, inv := ← inv.toNat?, resp := ← resp.toNat? }
  | ["b", b, tok] => do
    let b ← Bytes.ofHex b
    pure { call := .bg b (← tok.toNat?), res := .ok, inv := 0, resp := 0 }
  | _ => none

def showNats (l : List Nat) : String := if l.isEmpty then "-" else ",".intercalate (l.map toString)

def showRes : Res → String
  | .ok => "o"
  | .notExist => "n"
  | .found t s => s!"f{if s then 1 else 0}.{t}"
  | .toks l => "[" ++ showNats l ++ "]"

/-- why the search is stuck after its longest prefix: every candidate with the recorded and the spec result -/
def stuck (c : Spec.Store.Cfg) (h : Array Ev) (best : List Nat) : String :=
  match replay c h Spec.Store.empty best with
  | none => "?"
  | some s =>
    let rem := (List.range h.size).filter (fun i => !best.contains i)
    let cands := rem.filter (fun i => minimal h rem i && !h[i]!.optional)
    ";".intercalate (cands.map (fun i =>
      let spec := match apply c s h[i]!.call with
        | some (_, r) => showRes r
        | none => "inapplicable"
      s!"{i}:{showRes h[i]!.res}:{spec}"))

def handle (toks : List String) : String :=
  let (ps, kv) := splitKV toks
  match ps with
  | "lin" :: ops =>
    match (kv.get? "cap") >>= String.toNat?, ops.mapM parseOp with
    | some cap, some evs =>
      let h := evs.toArray
      let c : Spec.Store.Cfg := { cap := cap, limit := 0 }
      let v := check c h
      match v.order with
      | some o => "linearizable " ++ showNats o
      | none => s!"not-linearizable prefix={showNats v.best} stuck={stuck c h v.best}"
    | _, _ => "bad-op"
  | _ => "bad-op"

def step (_ : Unit) (toks : List String) : Unit × String := ((), handle toks)

end Driver.ConcMode
