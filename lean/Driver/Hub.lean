import Driver.Proto
import Ibx.Model.Hub
/- mode "hub": the msghub model with scripted listeners (protocol in harness/cmd/drive/c15.go). -/
namespace Driver.HubMode
open Driver Ibx.Spec.HubLog Ibx.Model.Hub

structure St where
  n : Nat := 0
  hub : Hub := init 0 (fun _ => { accepts := fun _ => true, answer := fun _ => .ok })
  ops : List Op := []     -- reversed

def showMsg (m : Msg) : String := s!"{m.mailbox}:{m.id}:{m.tag}"

def showEv : Ev → String
  | .stored m => "s:" ++ showMsg m
  | .deleted mb id => s!"d:{mb}:{id}"

def joinOr (l : List String) : String := if l.isEmpty then "_" else ",".intercalate l

def mkAccepts (mb : Option Nat) (del : Bool) : Ev → Bool
  | .stored m => match mb with | some k => m.mailbox == k | none => true
  | .deleted k _ => del && (match mb with | some k' => k == k' | none => true)

def optNat (s : String) : Option (Option Nat) :=
  if s == "-" then some none else s.toNat?.map some

def apply (st : St) (op : Op) : St × String :=
  ({ st with hub := step st.hub op, ops := op :: st.ops }, "ok")

def handler (st : St) (toks : List String) : St × String :=
  let (ps, kv) := splitKV toks
  match ps with
  | ["new"] =>
    match (kv.get? "n") >>= String.toNat? with
    | some n => ({ n := n, hub := init n (fun _ => { accepts := fun _ => true, answer := fun _ => .ok }), ops := [] }, "ok")
    | none => (st, "bad-op")
  | ["listener", l] =>
    match l.toNat?, (kv.get? "mb") >>= optNat, (kv.get? "del") >>= boolOf, (kv.get? "fail") >>= optNat with
    | some l, some mb, some del, some fail =>
      let ans : Nat → Resp := match fail with
        | some k => fun n => if n + 1 ≥ k then .err else .ok
        | none => fun _ => .ok
      ({ st with hub := { st.hub with ls := upd st.hub.ls l { accepts := mkAccepts mb del, answer := ans } } }, "ok")
    | _, _, _, _ => (st, "bad-op")
  | ["dispatch", k, i, t] =>
    match k.toNat?, i.toNat?, t.toNat? with
    | some k, some i, some t => apply st (.dispatch ⟨k, i, t⟩)
    | _, _, _ => (st, "bad-op")
  | ["delete", k, i] =>
    match k.toNat?, i.toNat? with
    | some k, some i => apply st (.delete k i)
    | _, _ => (st, "bad-op")
  | ["add", l] => match l.toNat? with | some l => apply st (.add l) | none => (st, "bad-op")
  | ["remove", l] => match l.toNat? with | some l => apply st (.remove l) | none => (st, "bad-op")
  | ["got", l] =>
    match l.toNat? with
    | some l => let s := st.hub.ls l; (st, s!"c={s.calls} {joinOr (s.got.map showEv)}")
    | none => (st, "bad-op")
  | ["regs"] => (st, joinOr (st.hub.regs.map toString))
  | ["hist"] => (st, joinOr ((ringDo st.hub.ring).map showMsg))
  | ["spechist"] => (st, joinOr ((history st.n st.ops.reverse).map showMsg))
  | _ => (st, "bad-op")

def main : IO Unit := runLoop handler {}

end Driver.HubMode
