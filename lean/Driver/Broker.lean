import Driver.Proto
import Ibx.Model.Broker
/- mode `broker`: the synchronous registry (s.*) and the per-listener FIFO of the async broker (a.*). -/
namespace Driver
open Ibx.Model.Broker

structure BrokerSt where
  reg : Registry Nat Nat := []
  q : St := St.init

def showNats (l : List Nat) : String :=
  if l.isEmpty then "-" else ",".intercalate (l.map toString)

def showAsync (s : St) : String :=
  let cur := match s.running with | [e] => toString e | [] => "-" | _ => "overlap"
  s!"cur={cur} started={showNats s.started} done={showNats s.done} dropped={showNats s.dropped}"

/--
  s.reset | s.add <name> <lid> <m> <k> (listener answers lid when event % m = k; m = 0: never) | s.remove <name>
  s.emit <e>  ->  r=<lid|-> called=<names|_>
  a.reset | a.emit <e> | a.release | a.remove  ->  cur=<e|-> started=… done=… dropped=…
-/
def brokerStep (st : BrokerSt) (toks : List String) : BrokerSt × String :=
  match toks with
  | ["s.reset"] => ({ st with reg := [] }, "ok")
  | ["s.add", name, lid, m, k] =>
    match lid.toNat?, m.toNat?, k.toNat? with
    | some lid, some m, some k =>
      ({ st with reg := addListener st.reg name (fun e => if m ≠ 0 ∧ e % m = k then some lid else none) }, "ok")
    | _, _, _ => (st, "bad-op")
  | ["s.remove", name] => ({ st with reg := removeListener st.reg name }, "ok")
  | ["s.emit", e] =>
    match e.toNat? with
    | some e =>
      let r := match emit st.reg e with | some l => toString l | none => "-"
      let c := called st.reg e
      (st, s!"r={r} called={if c.isEmpty then "_" else ",".intercalate c}")
    | none => (st, "bad-op")
  | ["a.reset"] => ({ st with q := St.init }, "ok")
  | ["a.emit", e] =>
    match e.toNat? with
    | some e => let q := act st.q (.emit e); ({ st with q := q }, showAsync q)
    | none => (st, "bad-op")
  | ["a.release"] => let q := act st.q .release; ({ st with q := q }, showAsync q)
  | ["a.remove"] => let q := act st.q .remove; ({ st with q := q }, showAsync q)
  | _ => (st, "bad-op")

end Driver
