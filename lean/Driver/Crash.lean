import Driver.Proto
import Ibx.Model.FsSteps
import Ibx.Model.FsCodec
import Ibx.Model.FsFault
import Ibx.Model.ConcFileOps
/-
  mode "crash": the step-program model of the file store (Ibx/Model/FsSteps.lean) with the concrete codec.

    cfg cap=<n> variant=<safe|orig>            reset (empty file system, no mailboxes known)
    box <hexname> l1=<n> l2=<n>                declare a mailbox and its directory placement
    prog <op>                                  -> the macro trace of `program op s` (one token per OS call as the hooks see it)
    crash <op> at=<j> [cut=<n>] [sub=<m>]      -> views of ALL declared mailboxes in the state where the first j macro
                                                  tokens have completed; cut=n: the write at token j got n bytes out;
                                                  sub=m: RemoveAll at token j has removed m entries
    do <op>                                    run the complete operation -> views
    views                                      -> views
    fault <op> refuse=<k,k,…|_> [dry=1] [noread=1]   (noread=1: the mailbox's index file, if there is one, cannot be opened — `opFR`)
                                               run the operation with the hook calls k (0-based, in the order the code announces them
                                               to the verif step hook) REFUSED, following the code's error paths (Ibx/Model/FsFault.lean);
                                               the state becomes what the failed operation leaves (dry=1: the state is kept) ->
                                               `res=<ok|err|notExist> events=<id,…|_> trace=<hook,…|_> dir=<0|1> orphans=<raw:id,…,tmp|_> <views>`
    serial <op> | serial get <box> <id> | serial list <box>
                                               one operation of the one-mailbox interleaving model (Ibx/Model/ConcFileOps.lean) run ALONE, from start
                                               to end (`seqStep`, the sequential meaning the serialisability theorem of Props/C16File.lean refers to);
                                               the harness feeds the operations of a concurrent run in the order they got the mailbox lock ->
                                               `res=<ok|notExist|err|id:<n>|ent:<id>|ents:<id,…|_>> events=<id,…|_> <views>`
  <op> ::= add <box> <id> <src> from= to= subj= date= | seen <box> <id> | rm <box> <id> | purge <box>
  A view line: `<hexbox>=[id/seen/size/from/to,to/subj/date/content|...]` per declared mailbox (content `!` = no raw), `ERR` = unreadable.
-/
namespace Driver.CrashMode
open Ibx Ibx.Model.FsSteps Driver
open Ibx.Spec.Store (Meta)
open Ibx.Model.FileStore (FEnt)

structure St where
  cap : Nat
  variant : Variant
  fs : FS
  boxes : List (Bytes × Nat × Nat)      -- name, l1, l2 in declaration order

def init : St := { cap := 0, variant := Variant.safe, fs := FS.init, boxes := [] }

def C : Codec := Ibx.Model.FsCodec.lp

def layout (s : St) : Layout :=
  { names := s.boxes.map (·.1),
    l1 := fun b => match s.boxes.find? (·.1 == b) with | some x => x.2.1 | none => 0,
    l2 := fun b => match s.boxes.find? (·.1 == b) with | some x => x.2.2 | none => 0 }

def encEnt (p : FEnt × Option Bytes) : String :=
  let e := p.1
  s!"{e.id}/{if e.seen then 1 else 0}/{e.size}/{Bytes.toHex e.hdr.sender}/" ++ ",".intercalate (e.hdr.rcpts.map Bytes.toHex) ++
  s!"/{Bytes.toHex e.hdr.subject}/{e.hdr.date}/" ++ (match p.2 with | some c => Bytes.toHex c | none => "!")

def encView (v : Option View) : String :=
  match v with
  | none => "ERR"
  | some l => "[" ++ "|".intercalate (l.map encEnt) ++ "]"

def views (s : St) (fs : FS) : String :=
  " ".intercalate (s.boxes.map fun x => Bytes.toHex x.1 ++ "=" ++ encView (view C fs x.1))

/-- macro tokens with the index of the step each one starts at -/
def tokens : List FsStep → Nat → Bool → List (String × Nat) → List (String × Nat)
  | [], _, _, acc => acc.reverse
  | st :: l, i, inRm, acc =>
    match st with
    | .mkdirAll => tokens l (i + 1) false (("mkdirall", i) :: acc)
    | .createRaw id => tokens l (i + 1) false ((s!"write-raw:{id}", i + 1) :: (s!"create-raw:{id}", i) :: acc)
    | .appendRaw _ _ => tokens l (i + 1) false acc
    | .closeRaw id => tokens l (i + 1) false ((s!"close-raw:{id}", i) :: acc)
    | .createTmp => tokens l (i + 1) false (("write-tmp", i + 1) :: ("create-tmp", i) :: acc)
    | .appendTmp _ => tokens l (i + 1) false acc
    | .closeTmp => tokens l (i + 1) false (("close-tmp", i) :: acc)
    | .renameTmp => tokens l (i + 1) false (("rename", i) :: acc)
    | .createIndex => tokens l (i + 1) false (("write-index", i + 1) :: ("create-index", i) :: acc)
    | .appendIndex _ => tokens l (i + 1) false acc
    | .closeIndex => tokens l (i + 1) false (("close-index", i) :: acc)
    | .unlinkIndex => tokens l (i + 1) false (("unlink-index", i) :: acc)
    | .unlinkRaw id => tokens l (i + 1) false ((s!"unlink-raw:{id}", i) :: acc)
    | .rmEntry _ => tokens l (i + 1) true (if inRm then acc else ("removeall", i) :: acc)
    | .rmdir => tokens l (i + 1) false (if inRm then acc else ("removeall", i) :: acc)
    | .rmdirParent lv => tokens l (i + 1) false ((s!"rmdir-parent:{lv}", i) :: acc)

def parseMeta (kv : KV) : Option Meta := do
  let f ← (kv.get? "from") >>= Bytes.ofHex
  let t ← (kv.get? "to") >>= hexList
  let sj ← (kv.get? "subj") >>= Bytes.ofHex
  let d ← (kv.get? "date") >>= String.toInt?
  pure { sender := f, rcpts := t, subject := sj, date := d }

def parseOp (ps : List String) (kv : KV) : Option Op :=
  match ps with
  | ["add", b, i, src] => do
    let b ← Bytes.ofHex b
    let i ← i.toNat?
    let src ← Bytes.ofHex src
    let m ← parseMeta kv
    pure (.add b i m src)
  | ["seen", b, i] => do pure (.seen (← Bytes.ofHex b) (← i.toNat?))
  | ["rm", b, i] => do pure (.remove (← Bytes.ofHex b) (← i.toNat?))
  | ["purge", b] => do pure (.purge (← Bytes.ofHex b))
  | _ => none

def prog (s : St) (op : Op) : List FsStep := program C s.variant Chooser.whole (layout s) s.cap op s.fs

def crashState (s : St) (op : Op) (at_ : Nat) (cut sub : Option Nat) : FS :=
  let p := prog s op
  let toks := tokens p 0 false []
  match toks[at_]? with
  | none => run op.box s.fs p
  | some (name, k) =>
    let fs := runPrefix k op.box p s.fs
    match cut, sub with
    | some n, _ =>
      if name.startsWith "write-raw" then
        match op with
        | .add b id _ src => apply b fs (.appendRaw id (src.take n))
        | _ => fs
      else if name == "write-tmp" then apply op.box fs (.appendTmp (List.replicate n 0))
      else if name == "write-index" then
        -- the ORIGINAL variant: the live index holds the first n bytes of the new encoding
        match p[k]? with
        | some (.appendIndex c) => apply op.box fs (.appendIndex (c.take n))
        | _ => fs
      else fs
    | none, some m =>
      if name == "removeall" then
        -- m further unlinkat's of this RemoveAll, never past its rmdir
        let grp := ((p.drop k).takeWhile fun st => match st with | .rmEntry _ => true | _ => false).length
        runPrefix (k + Nat.min m grp) op.box p s.fs
      else fs
    | none, none => fs

def natList (t : String) : Option (List Nat) :=
  if t == "_" || t == "-" then some [] else (t.splitOn ",").mapM String.toNat?

def csv (l : List String) : String := if l.isEmpty then "_" else ",".intercalate l

/-- the `fault` command: the fault model's outcome of one operation -/
def faultAnswer (s : St) (op : Op) (ks : List Nat) (noread : Bool := false) : St × String :=
  let o := Ibx.Model.FsFault.opFR C (layout s) s.cap (Ibx.Model.FsFault.refuse ks) noread op s.fs
  let d := o.fs.dirs op.box
  let orph := ((Ibx.Model.FsFault.orphanRaws C d).mergeSort (· ≤ ·)).map (fun i => s!"raw:{i}") ++ (if Ibx.Model.FsFault.hasTmp d then ["tmp"] else [])
  ({ s with fs := o.fs },
   s!"res={o.res.name} events={csv (o.events.map toString)} trace={csv (o.trace.map (·.name))} dir={if d.isSome then 1 else 0} orphans={csv orph} " ++
   views s o.fs)

/-- the `serial` command -/
def serialAnswer (s : St) (b : Bytes) (op : Ibx.Model.ConcFileOps.COp) : St × String :=
  let c : Ibx.Model.ConcFileOps.Cfg :=
    { C := C, ch := Chooser.whole, par := parentSteps (layout s) s.fs b, b := b, cap := s.cap, scope := .wholeOp }
  let d := s.fs.dirs b
  let L := Ibx.Model.ConcFileOps.loadW c d op
  let q := Ibx.Model.ConcFileOps.seqStep c (d, []) op
  let fs := setDir s.fs b q.1
  let res := match L.res with
    | .ok => "ok" | .notExist => "notExist" | .err => "err"
    | .id i => s!"id:{i}" | .ent e => s!"ent:{e.id}" | .ents l => "ents:" ++ csv (l.map (fun (e : FEnt) => toString e.id))
  ({ s with fs := fs }, s!"res={res} events={csv (q.2.map toString)} " ++ views s fs)

def parseCOp (ps : List String) (kv : KV) : Option (Bytes × Ibx.Model.ConcFileOps.COp) :=
  match ps with
  | ["get", b, i] => do pure (← Bytes.ofHex b, .get (← i.toNat?))
  | ["list", b] => do pure (← Bytes.ofHex b, .list)
  | _ =>
    match parseOp ps kv with
    | some (.add b i m src) => some (b, .add i m src)
    | some (.seen b i) => some (b, .seen i)
    | some (.remove b i) => some (b, .remove i)
    | some (.purge b) => some (b, .purge)
    | none => none

def step (s : St) (toks : List String) : St × String :=
  let (ps, kv) := splitKV toks
  match ps with
  | "serial" :: rest =>
    match parseCOp rest kv with
    | some (b, op) => serialAnswer s b op
    | none => (s, "bad-op")
  | ["cfg"] =>
    match (kv.get? "cap") >>= String.toNat?, kv.get? "variant" with
    | some c, some "safe" => ({ init with cap := c, variant := Variant.safe }, "ok")
    | some c, some "orig" => ({ init with cap := c, variant := Variant.original }, "ok")
    | _, _ => (s, "bad-op")
  | ["box", b] =>
    match Bytes.ofHex b, (kv.get? "l1") >>= String.toNat?, (kv.get? "l2") >>= String.toNat? with
    | some b, some x, some y => ({ s with boxes := s.boxes ++ [(b, x, y)] }, "ok")
    | _, _, _ => (s, "bad-op")
  | ["views"] => (s, views s s.fs)
  | "prog" :: rest =>
    match parseOp rest kv with
    | some op => (s, "trace:" ++ " ".intercalate ((tokens (prog s op) 0 false []).map (·.1)))
    | none => (s, "bad-op")
  | "crash" :: rest =>
    match parseOp rest kv, (kv.get? "at") >>= String.toNat? with
    | some op, some a =>
      (s, views s (crashState s op a ((kv.get? "cut") >>= String.toNat?) ((kv.get? "sub") >>= String.toNat?)))
    | _, _ => (s, "bad-op")
  | "fault" :: rest =>
    match parseOp rest kv, (kv.get? "refuse") >>= natList with
    | some op, some ks =>
      let a := faultAnswer s op ks (kv.get? "noread" == some "1")
      if kv.get? "dry" == some "1" then (s, a.2) else a
    | _, _ => (s, "bad-op")
  | "do" :: rest =>
    match parseOp rest kv with
    | some op =>
      let fs := run op.box s.fs (prog s op)
      ({ s with fs := fs }, views s fs)
    | none => (s, "bad-op")
  | _ => (s, "bad-op")

end Driver.CrashMode
