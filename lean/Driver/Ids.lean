import Driver.Proto
import Ibx.Model.FileIds
/-
  mode "ids": the file store's id generator and the re-draw loop of newMessage (Ibx/Model/FileIds.lean).
    newid srch=<l|b> idx=<sec:ctr,…|-> g=<sec:ctr> env=<adv:skip,…|->
        the loop on the loaded index `idx` (listing order), generator state `g`, the environment of draws 0, 1, …
        (missing ticks: clock stays, nobody else draws)          → id=<sec:ctr> draws=<n> gen=<sec:ctr> | diverges
    has srch=<l|b> idx=<…> id=<sec:ctr>                          → t | f
    deliver srch=<l|b> idx=<…> g=<sec:ctr> env=<…>
        one AddMessage (no cap) to a mailbox whose messages have the ids `idx` and bodies 0, 1, 2, …; new body = len(idx):
        which body every listed id reads back afterwards          → id=<sec:ctr> draws=<n> reads=<sec:ctr>=<body>,…
-/
namespace Driver.IdsMode
open Ibx Ibx.Model.FileIds Driver

def pair (s : String) : Option (Nat × Nat) :=
  match s.splitOn ":" with
  | [a, b] => do pure (← a.toNat?, ← b.toNat?)
  | _ => none

def pairs (s : String) : Option (List (Nat × Nat)) :=
  if s == "-" || s == "" then some [] else (s.splitOn ",").mapM pair

def srchOf (s : String) : Option Search :=
  if s == "l" then some .linearScan else if s == "b" then some .binarySearchAssumingSorted else none

def envOf (l : List (Nat × Nat)) : Nat → Tick := fun k =>
  match l[k]? with
  | some (a, s) => { adv := a, skip := s }
  | none => { adv := 0, skip := 0 }

def showId (i : Id) : String := s!"{i.sec}:{i.ctr}"

def fuel : Nat := 20002

def handle (ps : List String) (kv : KV) : Option String :=
  match ps with
  | ["newid"] => do
    let srch ← srchOf (← kv.get? "srch")
    let idx ← pairs (← kv.get? "idx")
    let g ← pair (← kv.get? "g")
    let env ← pairs (← kv.get? "env")
    match newIdWithin srch (idx.map fun p => ⟨p.1, p.2⟩) ⟨g.1, g.2⟩ (envOf env) fuel 0 with
    | some d => pure s!"id={showId d.id} draws={d.draws} gen={d.gen.sec}:{d.gen.ctr}"
    | none => pure "diverges"
  | ["has"] => do
    let srch ← srchOf (← kv.get? "srch")
    let idx ← pairs (← kv.get? "idx")
    let i ← pair (← kv.get? "id")
    pure (showB (hasID srch (idx.map fun p => ⟨p.1, p.2⟩) ⟨i.1, i.2⟩))
  | ["deliver"] => do
    let srch ← srchOf (← kv.get? "srch")
    let idx ← pairs (← kv.get? "idx")
    let g ← pair (← kv.get? "g")
    let env ← pairs (← kv.get? "env")
    let ids : List Id := idx.map fun p => ⟨p.1, p.2⟩
    -- the mailbox: message j has id idx[j] and body [j]; built with addWith (a listed id overwrites, as os.Create does)
    let box : Bytes := [98]
    let c : Spec.Store.Cfg := { cap := 0, limit := 0 }
    let f0 := (List.range ids.length).foldl (fun (f : Model.FileStore.FS) j =>
      (addWith c f box default [j] (fun _ => ((ids[j]?).getD ⟨0, 0⟩).toNat)).1) Model.FileStore.empty
    match newIdWithin srch (idsOf (loadedAfterCap c f0 box)) ⟨g.1, g.2⟩ (envOf env) fuel 0 with
    | none => pure "diverges"
    | some d =>
      let f1 := (addWith c f0 box default [ids.length] (fun _ => d.id.toNat)).1
      let reads := (Model.FileStore.readIndex f1 box).map fun e =>
        let body := match Model.FileStore.rawOf f1 box e.id with
          | some [j] => toString j
          | _ => "?"
        s!"{showId (Id.ofNat e.id)}={body}"
      pure s!"id={showId d.id} draws={d.draws} reads={",".intercalate reads}"
  | _ => none

def step (_ : Unit) (toks : List String) : Unit × String :=
  let (ps, kv) := splitKV toks
  ((), (handle ps kv).getD "bad-op")

end Driver.IdsMode
