import Driver.Proto
import Ibx.Model.WsWire
/- mode "wswire": one WebSocket listener down to the wire (Model.WsWire); the harness is the scheduler
   (protocol in harness/cmd/drive/c15_wire.go).  Every state change goes through `Model.WsWire.act`, whose results
   are steps of the relation the theorems of Props/C15Wire quantify over (Lemmas.WsWire.act_sound). -/
namespace Driver.WsWireMode
open Driver Ibx.Spec.HubLog Ibx.Model.WsListener Ibx.Model.WsWire

structure St where
  v : WsWriter := .onePerFrame
  f : Filter := ⟨none, true⟩
  cap : Nat := 100
  w : WSt := {}

def showEv : Ev → String
  | .stored m => s!"s:{m.mailbox}:{m.id}"
  | .deleted mb id => s!"d:{mb}:{id}"

def nameOf (w : WSt) (i : Nat) : String :=
  match w.accepted[i]? with
  | some e => showEv e
  | none => s!"?{i}"

def joinOr (sep : String) (l : List String) : String := if l.isEmpty then "_" else sep.intercalate l

def showFrame (w : WSt) : Frame → String
  | .text evs => "t:" ++ joinOr "+" (evs.map (nameOf w))
  | .ping => "p"
  | .close => "c"

def showPc : Pc → String
  | .run => "run" | .closeSel => "closeSel" | .closeRm => "closeRm" | .closeCh => "closeCh" | .exited => "exited"

def showStage : Stage → String
  | .select => "select" | .got => "got" | .batch m => s!"batch{m}"

def variantOf (s : String) : Option WsWriter :=
  if s == "one" then some .onePerFrame
  else match s.splitOn ":" with
    | ["batch", k] => k.toNat?.map .batching
    | _ => none

def optNat (s : String) : Option (Option Nat) :=
  if s == "-" then some none else s.toNat?.map some

def doAct (st : St) (a : Act) : St × String :=
  match act st.v st.f st.cap st.w a with
  | some w' => ({ st with w := w' }, "ok")
  | none => (st, "none")

/-- the writer goes on as far as it can without anybody else moving, preferring the queue over `done`:
    finish the iteration in hand, take the next event, … until the queue is empty (fuel = a bound on the steps) -/
def pump (st : St) : Nat → St
  | 0 => st
  | fuel + 1 =>
    let a : Act := if st.w.stage = .select then .take else .write
    match act st.v st.f st.cap st.w a with
    | some w' => pump { st with w := w' } fuel
    | none => st

def handler (st : St) (toks : List String) : St × String :=
  let (ps, kv) := splitKV toks
  match ps with
  | ["new"] =>
    match (kv.get? "v") >>= String.toNat?, (kv.get? "mb") >>= optNat, (kv.get? "cap") >>= String.toNat?,
          (kv.get? "var") >>= variantOf with
    | some ver, some mb, some cap, some var =>
      ({ v := var, f := ⟨mb, ver != 1⟩, cap := cap, w := {} }, "ok")
    | _, _, _, _ => (st, "bad-op")
  | ["offer", kind, mb, id] =>
    match mb.toNat?, id.toNat?, (kv.get? "pd").getD "0" |> boolOf with
    | some mb, some id, some pd =>
      let e : Option Ev := if kind == "s" then some (.stored ⟨mb, id, 0⟩) else if kind == "d" then some (.deleted mb id) else none
      match e with
      | none => (st, "bad-op")
      | some e =>
        match act st.v st.f st.cap st.w (.offer e pd) with
        | none => (st, "unreg")
        | some w' =>
          let out :=
            if w'.accepted.length = st.w.accepted.length then "skip"
            else if w'.s.buf.length = st.w.s.buf.length + 1 then "queued"
            else if st.w.s.done then "closed" else "slow"
          ({ st with w := w' }, out)
    | _, _, _ => (st, "bad-op")
  | ["take"] => doAct st .take
  | ["write"] => doAct st .write
  | ["pump"] =>
    let st' := pump st (4 * (st.w.s.buf.length + 2) + 8)
    (st', s!"{st'.w.wire.length - st.w.wire.length}")
  | ["failwrite"] => doAct st .writeFail
  | ["done"] => match (kv.get? "ok").getD "1" |> boolOf with | some ok => doAct st (.done ok) | none => (st, "bad-op")
  | ["tick"] => doAct st .tick
  | ["ping"] => match (kv.get? "ok").getD "1" |> boolOf with | some ok => doAct st (.ping ok) | none => (st, "bad-op")
  | ["readerfail"] => doAct st .readerFail
  | ["close", r] => match boolOf r with | some r => doAct st (.close r) | none => (st, "bad-op")
  | ["hubrm"] => doAct st .hubRm
  | ["frames"] => (st, joinOr "|" (st.w.wire.map (showFrame st.w)))
  | ["sees"] => (st, joinOr "," ((clientSees st.w.wire).map (nameOf st.w)))
  | ["state"] =>
    let s := st.w.s
    (st, s!"reg={showB s.registered} done={showB s.done} buf={s.buf.length} hold={st.w.hold.length} writer={showPc s.writer} reader={showPc s.reader} stage={showStage st.w.stage} delivered={s.delivered.length} next={s.next} rmq={s.rmQueued} failed={showB st.w.writeFailed} unwritten={st.w.unwritten.length}")
  | _ => (st, "bad-op")

def main : IO Unit := runLoop handler {}

end Driver.WsWireMode
