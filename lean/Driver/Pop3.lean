import Driver.Proto
import Ibx.Model.Pop3
/-
  mode "pop3": one POP3 session of Ibx.Model.Pop3 at a time.
    new [tls=<0|1>] [force=<0|1>] [same=1] -> ok                    (fresh session; the store table is kept empty.  tls / force: config.POP3.TLSEnabled /
                                                                     ForceTLS of the server.  same=1: the session runs on the SAME server process as the
                                                                     previous one — with `tlsState` per server (Model.Pop3.sourceScope) it finds the flag that one left)
    store <boxhex> <msgs>                -> ok                      (msgs = `_` | idhex:size:srchex,… : what GetMessages(box) returns from now on)
    line <hex> [send=0]                  -> ok ph=<A|T|Q> u=<userhex> cls=<+|-> p=<hexlist> [m=<hexlist>] rm=<hexlist>  | panic | badstate | ended
    end <eof|readerr>                    -> end=<…> n=<#replies incl. greeting> rm=<hexlist> ph=<…>   (re-runs `session` over the recorded events)
    end <timeout|neterr>                 -> the same plus bye=<hex of the exact last line | ->                        (C13End: `sessionX`)
    unsent                               -> ok      (C13End: the reply to the last `line` could not be written; same as having sent it with send=0)
    fault <idhex> <none|open|read:K>     -> ok      (C13End: Source() of that message fails / its reader fails after K bytes; `line` then
                                                     adds ft=<dot|doterr|err> fl=<hexlist> when the reply is a fault reply)
    wire pre=<hex> bufn=<n> inner=<hex|none> [term=<eof|readerr>]
                                         -> end=<…> n=<#replies incl. greeting> seq=<one of + - per reply, S for the accepted STLS> rm=<hexlist> ph=<…> tl=<0|1>
                                            (C13Tls: `sessionWire` from the state `new` set up, against the current store table; the TLS library is
                                             instantiated as: the handshake succeeds iff no stray byte reaches tls.Server before it)
  `line` answers carry tl=<0|1> (tlsState != nil afterwards); the accepted STLS is `cls=+ p=_ stls=1`.
-/
namespace Driver.Pop3
open Ibx Ibx.Model.Pop3 Driver

structure DSt where
  st : St := St.init
  cfg : Cfg := {}
  srv : Bool := false          -- the server's tlsState is non-nil when this session starts
  table : List (Bytes × List Msg) := []
  evs : List Ev := []          -- reversed
  faults : List (Bytes × SrcFault) := []
  ended : Bool := false

def storeFn (table : List (Bytes × List Msg)) : Bytes → List Msg :=
  fun u => ((table.find? (·.1 == u)).map (·.2)).getD []

def parseMsg (s : String) : Option Msg :=
  match s.splitOn ":" with
  | [i, z, b] => do
    let i ← Bytes.ofHex i
    let z ← z.toNat?
    let b ← Bytes.ofHex b
    pure { id := i, size := z, src := b }
  | _ => none

def parseMsgs (s : String) : Option (List Msg) :=
  if s == "_" || s == "" then some [] else (s.splitOn ",").mapM parseMsg

def hexL (l : List Bytes) : String :=
  if l.isEmpty then "_" else ",".intercalate (l.map Bytes.toHex)

def dec (n : Nat) : Bytes := Bytes.ofString (toString n)
def decI (n : Int) : Bytes := Bytes.ofString (toString n)

def phaseS : Phase → String
  | .auth => "A" | .trans => "T" | .quit => "Q"

def entryLine (n : Nat) (v : Bytes) : Bytes := dec n ++ [32] ++ v

/-- class, payload tokens as printed, lines of a multi-line reply (without the final ".") -/
def renderReply : Reply → String
  | .err => "cls=- p=_"
  | .ok => "cls=+ p=_"
  | .okLogin c => s!"cls=+ p={hexL [decI c]}"
  | .okStat c z => s!"cls=+ p={hexL [dec c, dec z]}"
  | .okListOne n z => s!"cls=+ p={hexL [decI n, dec z]}"
  | .okUidlOne n i => s!"cls=+ p={hexL [decI n, i]}"
  | .okList c es => s!"cls=+ p={hexL [decI c]} m={hexL (es.map fun e => entryLine e.1 (dec e.2))}"
  | .okUidl c es => s!"cls=+ p={hexL [decI c]} m={hexL (es.map fun e => entryLine e.1 e.2)}"
  | .okDele n => s!"cls=+ p={hexL [decI n]}"
  | .okRetr z ls => s!"cls=+ p={hexL [dec z]} m={hexL ls}"
  | .okTop ls => s!"cls=+ p=_ m={hexL ls}"
  | .capa ls => s!"cls=+ p=_ m={hexL ls}"
  | .stlsBegin => "cls=+ p=_ stls=1"

def endS : End → String
  | .quit => "quit" | .eof => "eof" | .readError => "readerr" | .sendError => "senderr"
  | .panic => "panic" | .badState => "badstate" | .tlsFail => "tlsfail"

def clsChar : Reply → String
  | .err => "-" | .stlsBegin => "S" | _ => "+"

def faultFn (t : List (Bytes × SrcFault)) : Bytes → SrcFault :=
  fun i => ((t.find? (·.1 == i)).map (·.2)).getD .none

def parseFault (s : String) : Option SrcFault :=
  if s == "none" then some .none
  else if s == "open" then some .openFails
  else match s.splitOn ":" with
    | ["read", k] => k.toNat?.map .readFails
    | _ => none

def tailS : Tail → String
  | .dot => "dot" | .dotErr => "doterr" | .err => "err"

def handle (d : DSt) (toks : List String) : DSt × String :=
  let (ps, kv) := splitKV toks
  match ps with
  | ["new"] =>
    let c : Cfg := { tlsEnabled := kv.get? "tls" == some "1", forceTLS := kv.get? "force" == some "1", scope := sourceScope }
    let srv := if kv.get? "same" == some "1" then serverTlsAfter d.cfg d.srv d.st else false
    ({ st := St.start c srv, cfg := c, srv := srv }, "ok")
  | ["wire"] =>
    match (kv.get? "pre") >>= Bytes.ofHex, (kv.get? "bufn") >>= String.toNat?, kv.get? "inner" with
    | some pre, some bufn, some innerS =>
      let inner? : Option (Option Bytes) := if innerS == "none" then some none else (Bytes.ofHex innerS).map some
      match inner? with
      | none => (d, "bad-op")
      | some inner =>
        let term : Term := if kv.get? "term" == some "readerr" then .readError else .eof
        let w : Wire := { pre := pre, buffered := bufn, tlsOpen := fun raw => if raw.isEmpty then inner else none }
        let tr := sessionWire d.cfg d.srv term (storeFn d.table) w
        (d, s!"end={endS tr.ending} n={tr.replies.length} seq={String.join (tr.replies.map clsChar)} rm={hexL tr.removed} ph={phaseS tr.final.phase} tl={if tr.final.tls then 1 else 0}")
    | _, _, _ => (d, "bad-op")
  | ["store", box, msgs] =>
    match Bytes.ofHex box, parseMsgs msgs with
    | some b, some ms => ({ d with table := (b, ms) :: d.table.filter (·.1 != b) }, "ok")
    | _, _ => (d, "bad-op")
  | ["unsent"] =>
    -- the reply to the line just processed could not be written: the loop ends after it
    match d.evs with
    | ev :: rest => ({ d with evs := { ev with sendOk := false } :: rest, ended := true }, "ok")
    | [] => (d, "bad-op")
  | ["fault", i, f] =>
    match Bytes.ofHex i, parseFault f with
    | some i, some f => ({ d with faults := (i, f) :: d.faults.filter (·.1 != i) }, "ok")
    | _, _ => (d, "bad-op")
  | ["line", h] =>
    match Bytes.ofHex h with
    | none => (d, "bad-op")
    | some l =>
      if d.ended || d.st.phase == .quit then (d, "ended")
      else
        let sendOk := kv.get? "send" != some "0"
        let store := storeFn d.table
        let ev : Ev := { store := store, line := l, sendOk := sendOk }
        match step store d.st l with
        | .panic => ({ d with ended := true, evs := ev :: d.evs }, "panic")
        | .badState => ({ d with ended := true, evs := ev :: d.evs }, "badstate")
        | .ok s' r rm =>
          let fs := match (stepF (faultFn d.faults) store d.st l).fault with
            | none => ""
            | some fr => s!" ft={tailS fr.tail} fl={hexL fr.lines}"
          ({ d with st := s', evs := ev :: d.evs, ended := !sendOk },
           s!"ok ph={phaseS s'.phase} u={Bytes.toHex s'.user} {renderReply r} rm={hexL rm} tl={if s'.tls then 1 else 0}" ++ fs)
  | ["end", t] =>
    let term? : Option Term := if t == "eof" then some .eof else if t == "readerr" then some .readError else none
    match term? with
    | none =>
      let tx? : Option TermX := if t == "timeout" then some .timeout else if t == "neterr" then some .neterr else none
      match tx? with
      | none => (d, "bad-op")
      | some tx =>
        let x := sessionX tx (faultFn d.faults) d.evs.reverse
        let bye := match x.bye with | none => "-" | some b => Bytes.toHex (byeText b)
        (d, s!"end={endS x.base.ending} n={x.base.replies.length} rm={hexL x.base.removed} ph={phaseS x.base.final.phase} bye={bye}")
    | some term =>
      let tr := sessionTls d.cfg d.srv term d.evs.reverse
      (d, s!"end={endS tr.ending} n={tr.replies.length} rm={hexL tr.removed} ph={phaseS tr.final.phase}")
  | _ => (d, "bad-op")

def main : IO Unit := runLoop handle {}

end Driver.Pop3
