import Driver.Proto
import Driver.Smtp
import Ibx.Model.SmtpConc
/-
  mode "smtpconc": the composed model Ibx.Model.SmtpConc — any number of SMTP sessions and other clients around one
  Spec.Store, one event per line, every event executed by `Sess.exec1 (prog env)` (the function the theorems of
  Props/C19Smtp.lean and Props/C03Conc.lean are about).
    new <the environment fields of mode smtp's `run`: naming= da= … fail=> cap=N [limit=N] [variant=source|greet|always]
                                                -> ok              empty store, no clients; `variant` other than source runs the
                                                                   session loop that consults the cancel flag (Model.SmtpConc.progC)
    open budget=<n|-> inp=<hex>                 -> ok i=<k>        a connection is accepted and greeted (the 220 is its first reply);
                                                                   its client sends `inp`;  oracle-missing … when a MAIL line of `inp`
                                                                   has no entry in the `re` / `args` tables
    client                                      -> ok i=<k>        another client (not an SMTP session) connects
    step <k>                                    -> <events | -> over=<why|-> st=<STATE>
                                                                   session k does one iteration of its command loop: the replies
                                                                   sent and copies stored (as in mode smtp: r250 r250x4 S<boxhex> F)
    call <k> add <boxhex> <srchex>              -> id=<n>          client k makes one store call
    call <k> rm <boxhex> <n>                    -> ok | notExist       (n = the per-mailbox delivery counter of Spec.Store)
    call <k> purge <boxhex>                     -> ok
    cancel | close                              -> ok              the shutdown events
    box <boxhex>                                -> <n,n,… | _>     the ids in the mailbox, in listing order
    dump                                        -> the mailboxes sorted by name: <boxhex>:[<subjhex>/<fromhex>/<tohexlist>/<srchex>|…]&…
    flags                                       -> c=<0|1> l=<0|1>
-/
namespace Driver.SmtpConcMode
open Ibx Ibx.Spec.Store Ibx.Model Ibx.Model.SmtpConc Ibx.Model.Shutdown Driver

structure DSt where
  env : Option SmtpConc.Env := none
  kv : KV := []
  variant : Variant := .source
  w : World := { cancelled := false, closed := false, store := Spec.Store.empty, threads := [] }

def init : DSt := {}

def exec1 (d : DSt) (e : SmtpConc.Env) (w : World) (ev : Sess.Ev) : World :=
  match d.variant with
  | .source => Sess.exec1 (prog e) w ev
  | v => Sess.exec1 (progC v e w.cancelled) w ev

/-- client `k` does the unit `x` now: what it newly put out -/
def doUnit (d : DSt) (e : SmtpConc.Env) (k : Nat) (x : In) : Option (DSt × Thread × List SmtpConc.Out) :=
  match d.w.threads[k]? with
  | none => none
  | some t =>
    let w1 : World := { d.w with threads := d.w.threads.set k { t with input := [x] } }
    let w2 := exec1 d e w1 (.sess k)
    match w2.threads[k]? with
    | none => none
    | some t2 => some ({ d with w := w2 }, t2, t2.replies.drop t.replies.length)

def encMsg (m : Msg) : String :=
  s!"{Bytes.toHex m.hdr.subject}/{Bytes.toHex m.hdr.sender}/" ++ ",".intercalate (m.hdr.rcpts.map Bytes.toHex) ++
  s!"/{Bytes.toHex m.source}"

def dump (s : Store) : String :=
  let boxes := Driver.StoreMode.sortBoxes ((Spec.Store.boxNames s.msgs).map (Spec.Store.listing s))
  "&".intercalate (boxes.map (fun l =>
    (match l with | m :: _ => Bytes.toHex m.box | [] => "") ++ ":[" ++ "|".intercalate (l.map encMsg) ++ "]"))

def step (d : DSt) (toks : List String) : DSt × String :=
  let (ps, kv) := splitKV toks
  match ps, d.env with
  | ["new"], _ =>
    match Driver.SmtpMode.mkEnv kv, (kv.get? "cap") >>= String.toNat? with
    | some e, some cap =>
      let limit := ((kv.get? "limit") >>= String.toNat?).getD 0
      let v := match kv.get? "variant" with
        | some "greet" => Variant.refuseInGreet
        | some "always" => Variant.refuseAlways
        | _ => Variant.source
      ({ env := some { smtp := e, store := { cap := cap, limit := limit } }, kv := kv, variant := v }, "ok")
    | _, _ => (d, "bad-op")
  | ["open"], some e =>
    match (kv.get? "inp") >>= Bytes.ofHex with
    | none => (d, "bad-op")
    | some inp =>
      match Driver.SmtpMode.coverage d.kv inp with
      | some m => (d, m)
      | none =>
        let budget := (kv.get? "budget") >>= String.toNat?
        let k := d.w.threads.length
        ({ d with w := { d.w with threads := d.w.threads ++ [newClient e budget inp 0] } }, s!"ok i={k}")
  | ["client"], some _ =>
    let k := d.w.threads.length
    ({ d with w := { d.w with threads := d.w.threads ++ [otherClient []] } }, s!"ok i={k}")
  | ["cancel"], some e => ({ d with w := exec1 d e d.w .cancel }, "ok")
  | ["close"], some e => ({ d with w := exec1 d e d.w .closeL }, "ok")
  | ["flags"], _ => (d, s!"c={if d.w.cancelled then 1 else 0} l={if d.w.closed then 1 else 0}")
  | ["box", b], _ =>
    match Bytes.ofHex b with
    | none => (d, "bad-op")
    | some box =>
      let l := (listing d.w.store box).map (fun m => toString m.id)
      (d, if l.isEmpty then "_" else ",".intercalate l)
  | ["dump"], _ => (d, dump d.w.store)
  | ["step", k], some e =>
    match k.toNat? with
    | none => (d, "bad-op")
    | some k =>
      match doUnit d e k .tick with
      | none => (d, "bad-op")
      | some (d', t2, outs) =>
        let evs := evsOf outs
        let shown := if evs.isEmpty then "-" else " ".intercalate (evs.map Driver.SmtpMode.showEv)
        let over := match t2.st.over with | some en => Driver.SmtpMode.showEnd en | none => "-"
        (d', s!"{shown} over={over} st={Driver.SmtpMode.showSt t2.st.sess.st}")
  | ["call", k, "add", b, srcH], some e =>
    match k.toNat?, Bytes.ofHex b, Bytes.ofHex srcH with
    | some k, some box, some src =>
      match doUnit d e k (.call (.add box default src)) with
      | some (d', _, [.answer (.id n)]) => (d', s!"id={n}")
      | _ => (d, "bad-op")
    | _, _, _ => (d, "bad-op")
  | ["call", k, "rm", b, n], some e =>
    match k.toNat?, Bytes.ofHex b, n.toNat? with
    | some k, some box, some n =>
      match doUnit d e k (.call (.remove box n)) with
      | some (d', _, [.answer .ok]) => (d', "ok")
      | some (d', _, [.answer .notExist]) => (d', "notExist")
      | _ => (d, "bad-op")
    | _, _, _ => (d, "bad-op")
  | ["call", k, "purge", b], some e =>
    match k.toNat?, Bytes.ofHex b with
    | some k, some box =>
      match doUnit d e k (.call (.purge box)) with
      | some (d', _, [.answer .ok]) => (d', "ok")
      | _ => (d, "bad-op")
    | _, _ => (d, "bad-op")
  | _, _ => (d, "bad-op")

end Driver.SmtpConcMode
