import Driver.Proto
import Driver.Store
import Ibx.Model.Retention
/-
  mode "ret": the retention scanner model over the abstract store.
    reset                                   empty store (cap 0, limit 0)
    add/rm/purge/seen …                     store operations (same syntax as mode "store"); answer = outcome
    dump                                    boxes:<all mailboxes, sorted by name>
    scan cutoff=<int>                       doScan                → ev=<b/i,…>
    scanover cutoff=<int> names=<hexlist>   doScanOver names      → ev=<b/i,…>   (mailboxes in the order the code visited them)
    cutoff now=<int> period=<int>           cutoffOf
    start period=<int> cancel=<poll|-> nows=<int,…>   the scans `Start` kicks off → scans=<cutoff,…>
    ibegin cutoff=<int> timer=<t|f> names=<hexlist>   begin an interleaved scan on the current store
    iclient <store op>                      a client operation between two steps of the scan
    icancel                                 ctx cancelled
    istep coin=<t|f>                        scanner runs to its next observable action:
                                              snap:<list> | rm:<b>/<i>:<ok|notExist> | cont | abort | done:<t|f>
    iend                                    phase=… snaps= calls= misses= ev=…  (store of the scan becomes the current store)
-/
namespace Driver.RetMode
open Ibx Ibx.Spec.Store Ibx.Model.Retention Driver

structure St where
  store : Store
  scan : Option Model.Retention.St
  cutoff : Int
  timer : Bool

def cfg : Cfg := { cap := 0, limit := 0 }
def init : St := { store := Spec.Store.empty, scan := none, cutoff := 0, timer := false }

def encEv (ev : List Ev) : String := ",".intercalate (ev.map (fun e => s!"{Bytes.toHex e.1}/{e.2}"))

def encOutcome (o : Out) : String :=
  match o with
  | .id i => s!"id:{i}"
  | .ok => "ok"
  | .notExist => "notExist"
  | .msg m => s!"msg:{StoreMode.encMsg m}"
  | .msgs l => s!"msgs:{StoreMode.encList l}"
  | .boxes l => "boxes:" ++ "&".intercalate ((StoreMode.sortBoxes l).map StoreMode.encList)

def parseOp (ps : List String) (kv : KV) : Option Op :=
  match ps with
  | ["add", b, src] => do
    let b ← Bytes.ofHex b
    let src ← Bytes.ofHex src
    let m ← StoreMode.parseMeta kv
    pure (.add b m src)
  | ["rm", b, i] => do pure (.remove (← Bytes.ofHex b) (← i.toNat?))
  | ["seen", b, i] => do pure (.seen (← Bytes.ofHex b) (← i.toNat?))
  | ["get", b, i] => do pure (.get (← Bytes.ofHex b) (← i.toNat?))
  | ["purge", b] => do pure (.purge (← Bytes.ofHex b))
  | ["list", b] => do pure (.list (← Bytes.ofHex b))
  | ["visit"] => some .visit
  | _ => none

def intList (s : String) : Option (List Int) :=
  if s == "-" || s == "" then some [] else (s.splitOn ",").mapM String.toInt?

/-- run scanner steps up to and including its next observable action -/
def istep (c : Cfg) (cutoff : Int) (timer coin : Bool) : Nat → Model.Retention.St → Model.Retention.St × String
  | 0, st => (st, "fuel")
  | fuel + 1, st =>
    let st' := scanStep c cutoff timer coin st
    match st.phase with
    | .visit [] => (st', "done:f")
    | .visit (_ :: _) =>
      match st'.phase with
      | .sweep p _ => (st', s!"snap:{StoreMode.encList p}")
      | _ => (st', "bad-phase")
    | .sweep [] _ => istep c cutoff timer coin fuel st'       -- end of the snapshot: go on to the select
    | .sweep (m :: _) _ =>
      if expired cutoff m then
        let res := if st'.misses > st.misses then "notExist" else "ok"
        (st', s!"rm:{Bytes.toHex m.box}/{m.id}:{res}")
      else istep c cutoff timer coin fuel st'
    | .check _ =>
      match st'.phase with
      | .done _ => (st', "abort")
      | _ => (st', "cont")
    | .done a => (st', s!"done:{showB a}")

def phaseTag : Phase → String
  | .visit _ => "visit"
  | .sweep _ _ => "sweep"
  | .check _ => "check"
  | .done a => s!"done:{showB a}"

def step (s : St) (toks : List String) : St × String :=
  let (ps, kv) := splitKV toks
  match ps with
  | ["reset"] => (init, "ok")
  | ["dump"] => (s, encOutcome (Spec.Store.step cfg s.store .visit).2.1)
  | ["scan"] =>
    match (kv.get? "cutoff") >>= String.toInt? with
    | some k => let r := doScan cfg k s.store; ({ s with store := r.1 }, s!"ev={encEv r.2}")
    | none => (s, "bad-op")
  | ["scanover"] =>
    match (kv.get? "cutoff") >>= String.toInt?, (kv.get? "names") >>= hexList with
    | some k, some names => let r := doScanOver cfg k names s.store; ({ s with store := r.1 }, s!"ev={encEv r.2}")
    | _, _ => (s, "bad-op")
  | ["cutoff"] =>
    match (kv.get? "now") >>= String.toInt?, (kv.get? "period") >>= String.toInt? with
    | some n, some p => (s, s!"cutoff={cutoffOf n p}")
    | _, _ => (s, "bad-op")
  | ["start"] =>
    match (kv.get? "period") >>= String.toInt?, (kv.get? "nows") >>= intList, kv.get? "cancel" with
    | some p, some nows, some cs =>
      let cancelled : Nat → Bool := match cs.toNat? with | some k => fun q => decide (q ≥ k) | none => fun _ => false
      let scans := start p cancelled (nows.map (fun n => { mustWait := true, now := n }))
      (s, "scans=" ++ ",".intercalate (scans.map toString))
    | _, _, _ => (s, "bad-op")
  | ["ibegin"] =>
    match (kv.get? "cutoff") >>= String.toInt?, (kv.get? "timer") >>= boolOf, (kv.get? "names") >>= hexList with
    | some k, some t, some names => ({ s with scan := some (Model.Retention.init s.store names), cutoff := k, timer := t }, "ok")
    | _, _, _ => (s, "bad-op")
  | "iclient" :: rest =>
    match s.scan, parseOp rest kv with
    | some st, some op =>
      let r := Spec.Store.step cfg st.store op
      ({ s with scan := some (act cfg s.cutoff s.timer st (.client op)) }, encOutcome r.2.1)
    | _, _ => (s, "bad-op")
  | ["icancel"] =>
    match s.scan with
    | some st => ({ s with scan := some (act cfg s.cutoff s.timer st .cancel) }, "ok")
    | none => (s, "bad-op")
  | ["istep"] =>
    match s.scan, (kv.get? "coin") >>= boolOf with
    | some st, some coin =>
      let fuel := (match st.phase with | .sweep p _ => p.length | _ => 0) + 4
      let (st', out) := istep cfg s.cutoff s.timer coin fuel st
      ({ s with scan := some st' }, out)
    | _, _ => (s, "bad-op")
  | ["iend"] =>
    match s.scan with
    | some st =>
      ({ s with store := st.store, scan := none },
       s!"phase={phaseTag st.phase} snaps={st.snaps} calls={st.calls} misses={st.misses} ev={encEv st.events}")
    | none => (s, "bad-op")
  | _ =>
    match parseOp ps kv with
    | some op => let r := Spec.Store.step cfg s.store op; ({ s with store := r.1 }, encOutcome r.2.1)
    | none => (s, "bad-op")

end Driver.RetMode
