import Driver.Proto
import Driver.Pure
import Driver.Store
import Ibx.Model.Smtp
import Ibx.Model.MailArgs
/-
  mode "smtp": one whole connection per line.
    run naming=.. da=.. acc=.. rej=.. ds=.. sto=.. dis=.. ro=.. maxrcpt=N maxbytes=N cap=N domain=<hex> rhost=<hex> ts=<hex>
        ip=<tbl> re=<tbl> args=<tbl> hdr=<tbl> hookmail=<tbl> hookrcpt=<tbl> hookstored=<tbl> fail=<hexlist> budget=<n|-> inp=<hex>
        [rend=<eof|timeout|neterr>] [stall=<n>]      (C03End: how the input ends; a stall >= Timeout after n bytes; adds `bye=<hex|->`)
        [tls=<0|1>] [force=<0|1>]                    (config.TLSEnabled as NewServer leaves it / config.ForceTLS; `inp` is the
                                                      command stream: what the client sent in the clear followed by what it sent inside TLS)
        `re=` / `args=` are OPTIONAL oracle tables (answers of Go's regexp engine for the MAIL arguments of the input); when a
        field is absent the model computes the expression itself (Ibx.Model.MailArgs.mailRe / parseArgs) — the harness
        no longer ships them, the tie of the two recognisers is harness/cmd/drive/c06_args.go.
    wire <same fields, `pre=<hex>` instead of `inp`> bufn=<n> inner=<hex|none>
        (C03Tls: `runWire`.  pre = the bytes sent in the clear; bufn = how many bytes behind the accepted STARTTLS line the old
         reader had buffered; inner = what the client sends inside TLS after a successful handshake, `none` = it never completes
         one.  The TLS library is instantiated as: the handshake succeeds iff no stray byte reaches tls.Server before it.)
  answer: the reply / store events in order, `end=<why> st=<state>`, and `dump=` the mailboxes after folding the stored
  copies into Spec.Store (cap applied).  Oracle tables: entries separated by ';', fields by '~'.
-/
namespace Driver.SmtpMode
open Ibx Ibx.Model Ibx.Model.Smtp Driver

def table (s : String) : List (List String) :=
  if s == "-" || s == "" then [] else (s.splitOn ";").map (·.splitOn "~")

def lookup (t : List (List String)) (key : String) : Option (List String) :=
  (t.find? (fun r => r.head? == some key)).map (·.drop 1)

def parseAction (s : String) : Option Action :=
  match s with | "allow" => some .allow | "deny" => some .deny | "defer" => some .defer | _ => none

def parseHook (r : List String) : Option HookAns :=
  match r with
  | [a, code, msg] => do
    let a ← parseAction a; let c ← code.toNat?; let m ← Bytes.ofHex msg
    pure { action := a, code := c, msg := m }
  | _ => none

def optHex (s : String) : Option (Option Bytes) :=
  if s == "none" then some none else (Bytes.ofHex s).map some

def hexListOpt (s : String) : Option (Option (List Bytes)) :=
  if s == "err" then some none else (hexList s).map some

def parsePairs (s : String) : Option (List (Bytes × Bytes)) :=
  if s == "_" then some []
  else (s.splitOn ",").mapM (fun p =>
    match p.splitOn ":" with
    | [k, v] => do let k ← Bytes.ofHex k; let v ← Bytes.ofHex v; pure (k, v)
    | _ => none)

def missingHdr : HdrInfo := { sender := none, rcpts := none, subject := Bytes.ofString "ORACLE-MISSING" }

def mkEnv (kv : KV) : Option Env := do
  let naming ← (kv.get? "naming") >>= namingOf
  let pol ← parseCfg kv
  let maxRcpt ← (kv.get? "maxrcpt") >>= String.toInt?
  let maxBytes ← (kv.get? "maxbytes") >>= String.toInt?
  let domain ← (kv.get? "domain") >>= Bytes.ofHex
  let rhost ← (kv.get? "rhost") >>= Bytes.ofHex
  let ts ← (kv.get? "ts") >>= Bytes.ofHex
  let ipF ← ipOfToken ((kv.get? "ip").getD "-")
  let reT := table ((kv.get? "re").getD "-")
  let argsT := table ((kv.get? "args").getD "-")
  let hdrT := table ((kv.get? "hdr").getD "-")
  let hmT := table ((kv.get? "hookmail").getD "-")
  let hrT := table ((kv.get? "hookrcpt").getD "-")
  let hsT := table ((kv.get? "hookstored").getD "-")
  let fail ← hexList ((kv.get? "fail").getD "_")
  pure {
    naming := naming, pol := Policy.process pol, maxRcpt := maxRcpt, maxBytes := maxBytes, domain := domain,
    remoteHost := rhost, tstamp := ts, ip := ipF,
    mailRe :=
      if (kv.get? "re").isNone then MailArgs.mailRe
      else fun arg =>
        match lookup reT (Bytes.toHex arg) with
        | some ["1", a, p] => (match Bytes.ofHex a, Bytes.ofHex p with | some a, some p => some (a, p) | _, _ => none)
        | _ => none,
    parseArgs :=
      if (kv.get? "args").isNone then MailArgs.parseArgs
      else fun params =>
        match lookup argsT (Bytes.toHex params) with
        | some [ps] => if ps == "none" then none else parsePairs ps
        | _ => none,
    hdr := fun block =>
      match lookup hdrT (Bytes.toHex block) with
      | some ["err"] => none
      | some [f, t, sj] =>
        (match optHex f, hexListOpt t, Bytes.ofHex sj with
         | some f, some t, some sj => some { sender := f, rcpts := t, subject := sj }
         | _, _, _ => some missingHdr)
      | _ => some missingHdr,
    hookMail := fun a => (lookup hmT (Bytes.toHex a)) >>= parseHook,
    hookRcpt := fun _ tos => match tos.getLast? with
      | some a => (lookup hrT (Bytes.toHex a)) >>= parseHook
      | none => none,
    hookStored := fun ib =>
      match lookup hsT (Bytes.toHex ib.subject) with
      | some [mbs, f, t, sj] =>
        (match hexList mbs, Bytes.ofHex f, hexList t, Bytes.ofHex sj with
         | some mbs, some f, some t, some sj => some { mailboxes := mbs, sender := f, rcpts := t, subject := sj }
         | _, _, _, _ => none)
      | _ => none,
    storeFails := fun mb => fail.contains mb,
    tlsEnabled := kv.get? "tls" == some "1",
    forceTLS := kv.get? "force" == some "1" }

/-- every MAIL argument of the input must have an `re` entry (and its params an `args` entry) -/
def linesOf (inp : Bytes) : Nat → List Bytes
  | 0 => []
  | fuel + 1 => match Line.readLine inp with
    | none => []
    | some (l, rest) => l :: linesOf rest fuel

def coverage (kv : KV) (inp : Bytes) : Option String :=
  if (kv.get? "re").isNone then none else     -- no oracle tables: the model computes the expressions itself
  let reT := table ((kv.get? "re").getD "-")
  let argsT := table ((kv.get? "args").getD "-")
  let bad := (linesOf inp (inp.length + 1)).filterMap (fun l =>
    match parseCmd l with
    | .cmd name arg =>
      if name == Bytes.ofString "MAIL" then
        match lookup reT (Bytes.toHex arg) with
        | none => some s!"oracle-missing re {Bytes.toHex arg}"
        | some ["1", _, p] =>
          if p == "-" then none
          else if (kv.get? "args").isNone then none
          else (match lookup argsT p with | none => some s!"oracle-missing args {p}" | some _ => none)
        | some _ => none
      else none
    | _ => none)
  bad.head?

def showSt : St → String
  | .greet => "GREET" | .ready => "READY" | .login => "LOGIN" | .password => "PASSWORD"
  | .mail => "MAIL" | .data => "DATA" | .quit => "QUIT"

def showEnd : End → String
  | .eof => "eof" | .quit => "quit" | .sendError => "sendError" | .dataCut => "dataCut" | .outOfFuel => "outOfFuel"
  | .tlsFail => "tlsFail"

def showEv : Ev → String
  | .reply codes => match codes with
    | [c] => s!"r{c}"
    | c :: _ => s!"r{c}x{codes.length}"
    | [] => "r?"
  | .hookReply c _ => s!"r{c}"
  | .stored s => s!"S{Bytes.toHex s.mailbox}"
  | .deliverFailed => "F"

def parseReadEnd (s : String) : Option ReadEnd :=
  match s with | "eof" => some .eof | "timeout" => some .timeout | "neterr" => some .neterr | _ => none

/-- the exact last reply line, in hex (`-` = none) -/
def showBye : Option Bye → String
  | none => "-"
  | some b => Bytes.toHex (byeText b)

def foldStore (cap : Nat) (evs : List Ev) : Spec.Store.Store :=
  evs.foldl (fun st ev =>
    match ev with
    | .stored s => (Spec.Store.step { cap := cap, limit := 0 } st (.add s.mailbox s.hdr s.source)).1
    | _ => st) Spec.Store.empty

def dump (s : Spec.Store.Store) : String :=
  let boxes := (Spec.Store.boxNames s.msgs).map (Spec.Store.listing s)
  "&".intercalate ((Driver.StoreMode.sortBoxes boxes).map Driver.StoreMode.encList)

def hookTexts (evs : List Ev) : String :=
  ",".intercalate (evs.filterMap (fun e => match e with | .hookReply c m => some s!"{c}:{Bytes.toHex m}" | _ => none))

def step (_ : Unit) (toks : List String) : Unit × String :=
  let (ps, kv) := splitKV toks
  match ps with
  | ["run"] =>
    match mkEnv kv, (kv.get? "inp") >>= Bytes.ofHex, (kv.get? "cap") >>= String.toNat? with
    | some e, some inp, some cap =>
      match coverage kv inp with
      | some m => ((), m)
      | none =>
        let budget := (kv.get? "budget") >>= String.toNat?
        match kv.get? "rend", kv.get? "stall" with
        | none, none =>
          let (evs, s, en) := run e budget inp
          ((), " ".intercalate (evs.map showEv) ++ s!" end={showEnd en} st={showSt s.st} tlsact={if s.tls then 1 else 0} hooks={hookTexts evs} dump={dump (foldStore cap evs)}")
        | rend, stall =>
          -- the input ends by `rend` (eof | timeout | neterr); `stall=<n>`: the client is silent for >= Timeout after n bytes
          match parseReadEnd (rend.getD "eof") with
          | none => ((), "bad-op")
          | some k =>
            let r := match stall >>= String.toNat? with
              | some n => runStall e budget (inp.take n) (inp.drop n) k
              | none => runEnd e budget inp k
            ((), " ".intercalate (r.evs.map showEv) ++ s!" end={showEnd r.how} st={showSt r.sess.st} bye={showBye r.bye} hooks={hookTexts r.evs} dump={dump (foldStore cap r.evs)}")
    | _, _, _ => ((), "bad-op")
  | ["wire"] =>
    match mkEnv kv, (kv.get? "pre") >>= Bytes.ofHex, (kv.get? "cap") >>= String.toNat?, (kv.get? "bufn") >>= String.toNat?,
          (kv.get? "inner") >>= optHex with
    | some e, some pre, some cap, some bufn, some inner =>
      match coverage kv (pre ++ inner.getD []) with
      | some m => ((), m)
      | none =>
        let budget := (kv.get? "budget") >>= String.toNat?
        let w : Wire := { pre := pre, buffered := bufn, tlsOpen := fun raw => if raw.isEmpty then inner else none }
        let (evs, s, en) := runWire e budget w
        ((), " ".intercalate (evs.map showEv) ++ s!" end={showEnd en} st={showSt s.st} tlsact={if s.tls then 1 else 0} hooks={hookTexts evs} dump={dump (foldStore cap evs)}")
    | _, _, _, _, _ => ((), "bad-op")
  | _ => ((), "bad-op")

end Driver.SmtpMode
