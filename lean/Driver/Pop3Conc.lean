import Driver.Proto
import Driver.Pop3
import Driver.Sys
import Ibx.Model.Pop3Conc
/-
  mode "popconc": the composed model Ibx.Model.Pop3Conc — any number of POP3 sessions and other clients around one
  Spec.Store, one event per line, every event executed by `Sess.exec1 (prog env)` (the function the theorems of
  Props/C19Pop.lean and Props/C13Conc.lean are about).
    new [loop=<goeson|stop>] [cap=N] [limit=N]  -> ok              empty store, no clients; `loop` defaults to the variant of the source
                                                                   (Model.Pop3Conc.sourceDelLoop)
    open                                        -> ok i=<k>        a client connects (fresh session, TLS off); k = its index
    line <k> <hex> [send=0]                     -> ok ph=<A|T|Q> u=<userhex> <reply as in mode pop3: cls= p= [m=]> rm=<id:1|id:0,… | _>
                                                 | crashed | idle  client k's session reads this line (`idle`: its loop has ended, the
                                                                   line is never read); rm = the RemoveMessage calls it made, in order,
                                                                   with 1 = returned nil, 0 = failed
    call <k> add <boxhex> <srchex>              -> id=<n>          client k (anything that is not a POP3 session) makes one store call
    call <k> rm <boxhex> <n>                    -> ok | notExist
    call <k> purge <boxhex>                     -> ok
    cancel | close                              -> ok              the shutdown events (listener.Close needs cancel first, as in the model)
    box <boxhex>                                -> <n,n,… | _>     the ids in the mailbox, in listing order
    flags                                       -> c=<0|1> l=<0|1>
  Ids are the per-mailbox delivery counters of Spec.Store printed in decimal (Driver.SysMode.ids).
-/
namespace Driver.Pop3ConcMode
open Ibx Ibx.Spec.Store Ibx.Model Ibx.Model.Pop3Conc Ibx.Model.Shutdown Driver

structure DSt where
  env : Env := { store := { cap := 0, limit := 0 }, ids := Driver.SysMode.ids }
  w : World := { cancelled := false, closed := false, store := Spec.Store.empty, threads := [] }

def init : DSt := {}

def renderCalls (outs : List Pop3Conc.Out) : String :=
  let l := outs.filterMap (fun o => match o with
    | .removeCall id ok => some (String.fromUTF8! ⟨(id.map (·.toUInt8)).toArray⟩ ++ (if ok then ":1" else ":0"))
    | _ => none)
  if l.isEmpty then "_" else ",".intercalate l

/-- client `k` does the unit `x` now: what it newly put out -/
def doUnit (d : DSt) (k : Nat) (x : In) : Option (DSt × Thread × List Pop3Conc.Out) :=
  match d.w.threads[k]? with
  | none => none
  | some t =>
    let w1 : World := { d.w with threads := d.w.threads.set k { t with input := [x] } }
    let w2 := Sess.exec1 (prog d.env) w1 (.sess k)
    match w2.threads[k]? with
    | none => none
    | some t2 => some ({ d with w := w2 }, t2, t2.replies.drop t.replies.length)

def step (d : DSt) (toks : List String) : DSt × String :=
  let (ps, kv) := splitKV toks
  match ps with
  | ["new"] =>
    let loop := match kv.get? "loop" with
      | some "stop" => DelLoop.stopsAtFirstFailure
      | some "goeson" => DelLoop.goesOn
      | _ => sourceDelLoop
    let cap := ((kv.get? "cap") >>= String.toNat?).getD 0
    let limit := ((kv.get? "limit") >>= String.toNat?).getD 0
    ({ env := { store := { cap := cap, limit := limit }, ids := Driver.SysMode.ids, loop := loop } }, "ok")
  | ["open"] =>
    let k := d.w.threads.length
    ({ d with w := { d.w with threads := d.w.threads ++ [newClient {} false []] } }, s!"ok i={k}")
  | ["cancel"] => ({ d with w := Sess.exec1 (prog d.env) d.w .cancel }, "ok")
  | ["close"] => ({ d with w := Sess.exec1 (prog d.env) d.w .closeL }, "ok")
  | ["flags"] => (d, s!"c={if d.w.cancelled then 1 else 0} l={if d.w.closed then 1 else 0}")
  | ["box", b] =>
    match Bytes.ofHex b with
    | none => (d, "bad-op")
    | some box =>
      let l := (listing d.w.store box).map (fun m => toString m.id)
      (d, if l.isEmpty then "_" else ",".intercalate l)
  | ["line", k, h] =>
    match k.toNat?, Bytes.ofHex h with
    | some k, some l =>
      let sendOk := kv.get? "send" != some "0"
      match doUnit d k (.line l sendOk) with
      | none => (d, "bad-op")
      | some (d', t2, outs) =>
        match outs with
        | [] => (d', "idle")
        | .crashed :: _ => (d', "crashed")
        | .reply r :: rest =>
          (d', s!"ok ph={Driver.Pop3.phaseS t2.st.st.phase} u={Bytes.toHex t2.st.st.user} {Driver.Pop3.renderReply r} rm={renderCalls rest}")
        | _ => (d', "bad-op")
    | _, _ => (d, "bad-op")
  | ["call", k, "add", b, srcH] =>
    match k.toNat?, Bytes.ofHex b, Bytes.ofHex srcH with
    | some k, some box, some src =>
      match doUnit d k (.call (.add box default src)) with
      | some (d', _, [.answer (.id n)]) => (d', s!"id={n}")
      | _ => (d, "bad-op")
    | _, _, _ => (d, "bad-op")
  | ["call", k, "rm", b, n] =>
    match k.toNat?, Bytes.ofHex b, n.toNat? with
    | some k, some box, some n =>
      match doUnit d k (.call (.remove box n)) with
      | some (d', _, [.answer .ok]) => (d', "ok")
      | some (d', _, [.answer .notExist]) => (d', "notExist")
      | _ => (d, "bad-op")
    | _, _, _ => (d, "bad-op")
  | ["call", k, "purge", b] =>
    match k.toNat?, Bytes.ofHex b with
    | some k, some box =>
      match doUnit d k (.call (.purge box)) with
      | some (d', _, [.answer .ok]) => (d', "ok")
      | _ => (d, "bad-op")
    | _, _ => (d, "bad-op")
  | _ => (d, "bad-op")

end Driver.Pop3ConcMode
