import Driver.Proto
import Driver.Smtp
import Ibx.Model.LuaGlue
import Ibx.Model.Pool
import Ibx.Model.LuaAfter
/-
  mode "lua":
    run <all fields of mode "smtp" except the hook tables> lmail=<h> lrcpt=<h> lstored=<h>
        one connection against a server whose only extension is the luahost of a script of the handler grammar.
        <h> = `undef` (handler not defined) | `-` (defined, empty table) | entries `key~term…` separated by ';'
        SMTP terms:   allow | allowargs | defer | deny~code~msg | deny0 | deny1~code | deny2~code~msg | g~<garbage> | f~<failure>
        stored terms: fresh~mbs~from~to~subj | inplace~mbs~from~to~subj   (a field `*` = not assigned) | g~… | f~…
        answer: as mode "smtp".
    pool <op> …     one schedule of the state pool from the empty pool:  g<t>:<d>  u<t>:<d>  p<t> (putClear;putAppend)  l<t>  f
        answer: per op  g<sid>/<depth>/<poolLen> | u | p<poolLen> | l | f<poolLen> | x (not enabled);  then pool=<sids,top first> closed=<sids>
    after v=<detached|shared> slots=<stored><deleted> heap=<name~address;…> ev=<mailbox~id~frm~to~date~subject~size> prog=<op;…>
        ONE call of an after-handler (Model.LuaAfter.afterCall).  frm = `n` | ref; to = `_` | `n`/ref joined by ','.
        ops:    g~<t>~<field>  ga~<addr>~<field>  sl~<key>  s~<t>~<field>~<val>  sa~<addr>~<field>~<val>  r  q        (t = m | f)
        addr:   F<t>  T<t><i>  N<name>/<address>
        val:    nil  b0  b1  i<n>  s<hex>  a<addr>  S<t>  fn  t<item,…>       item: a<addr> i<n> s<hex> b0 b1 S<t> tb
        answer: obs=<nil | s<hex> | i<int> | u | t<n> | f, …> st=<ok|err> from=<name>/<address>|nil to=<…,…> (the EVENT's objects afterwards)
-/
namespace Driver.LuaMode
open Ibx Ibx.Model Ibx.Model.Smtp Ibx.Model.LuaGlue Driver Driver.SmtpMode

def garbageOf : String → Option Garbage
  | "retNil" => some .retNil | "noReturn" => some .noReturn | "number" => some .number | "string" => some .string
  | "table" => some .table | "retTrue" => some .retTrue | "retFalse" => some .retFalse | "function" => some .function
  | "wrongUserdata" => some .wrongUserdata | "nilThenAnswer" => some .nilThenAnswer | "scribbleNil" => some .scribbleNil
  | _ => none

def failureOf : String → Option Failure
  | "raise" => some .raise | "raiseTable" => some .raiseTable | "raiseNil" => some .raiseNil | "runtime" => some .runtime
  | "badArg" => some .badArg | "recurse" => some .recurse | "scribbleRaise" => some .scribbleRaise
  | _ => none

def smtpTermOf : List String → Option SmtpTerm
  | ["allow"] => some .allow
  | ["allowargs"] => some .allowArgs
  | ["defer"] => some .defer_
  | ["deny", c, m] => do let c ← c.toNat?; let m ← Bytes.ofHex m; pure (.deny c m)
  | ["deny0"] => some .denyDefault
  | ["deny1", c] => do let c ← c.toNat?; pure (.denyCode c)
  | ["deny2", c, m] => do let c ← c.toNat?; let m ← Bytes.ofHex m; pure (.denyThenAllow c m)
  | ["g", g] => (garbageOf g).map .garbage
  | ["f", f] => (failureOf f).map .fail
  | _ => none

def optField {α : Type} (p : String → Option α) (s : String) : Option (Option α) :=
  if s == "*" then some none else (p s).map some

def rewriteOf (mbs f t sj : String) : Option Rewrite := do
  let mbs ← optField hexList mbs
  let f ← optField Bytes.ofHex f
  let t ← optField hexList t
  let sj ← optField Bytes.ofHex sj
  pure { mailboxes := mbs, sender := f, rcpts := t, subject := sj }

def storedTermOf : List String → Option StoredTerm
  | ["fresh", mbs, f, t, sj] => (rewriteOf mbs f t sj).map .fresh
  | ["inplace", mbs, f, t, sj] => (rewriteOf mbs f t sj).map .inPlace
  | ["g", g] => (garbageOf g).map .garbage
  | ["f", f] => (failureOf f).map .fail
  | _ => none

/-- `none` = malformed; `some none` = handler not defined -/
def handlerOf {T : Type} (p : List String → Option T) (s : String) : Option (Option (Handler T)) :=
  if s == "undef" then some none
  else (table s).mapM (fun r =>
    match r with
    | k :: rest => do let k ← Bytes.ofHex k; let t ← p rest; pure (k, t)
    | [] => none) |>.map some

def scriptOf (kv : KV) : Option Script := do
  let m ← handlerOf smtpTermOf ((kv.get? "lmail").getD "undef")
  let r ← handlerOf smtpTermOf ((kv.get? "lrcpt").getD "undef")
  let s ← handlerOf storedTermOf ((kv.get? "lstored").getD "undef")
  pure { mail := m, rcpt := r, stored := s }

def runOp (kv : KV) : String :=
  match mkEnv kv, scriptOf kv, (kv.get? "inp") >>= Bytes.ofHex, (kv.get? "cap") >>= String.toNat? with
  | some e0, some sc, some inp, some cap =>
    match coverage kv inp with
    | some m => m
    | none =>
      let e := luaEnv e0 sc
      let budget := (kv.get? "budget") >>= String.toNat?
      let (evs, s, en) := run e budget inp
      " ".intercalate (evs.map showEv) ++ s!" end={showEnd en} st={showSt s.st} hooks={hookTexts evs} dump={dump (foldStore cap evs)}"
  | _, _, _, _ => "bad-op"

/-! pool schedules -/
open Ibx.Model.Pool in
def poolOp (st : Pool.St) (tok : String) : Pool.St × String :=
  let bad := (st, "x")
  let two (s : String) : Option (Nat × Nat) :=
    match s.splitOn ":" with
    | [a, b] => do let a ← a.toNat?; let b ← b.toNat?; pure (a, b)
    | _ => none
  match tok.toList with
  | 'g' :: r =>
    match two (String.ofList r) with
    | some (t, d) =>
      match Pool.step st (.get t d) with
      | some st' => (match st'.pc t with
        | .holding s => (st', s!"g{s}/{st'.depth s}/{st'.pool.length}")
        | _ => (st', "g?"))
      | none => bad
    | none => bad
  | 'u' :: r =>
    match two (String.ofList r) with
    | some (t, d) => (match Pool.step st (.use t d) with | some st' => (st', "u") | none => bad)
    | none => bad
  | 'p' :: r =>
    match (String.ofList r).toNat? with
    | some t =>
      match Pool.step st (.putClear t) with
      | some st1 => (match Pool.step st1 (.putAppend t) with | some st2 => (st2, s!"p{st2.pool.length}") | none => bad)
      | none => bad
    | none => bad
  | 'l' :: r =>
    match (String.ofList r).toNat? with
    | some t => (match Pool.step st (.leak t) with | some st' => (st', "l") | none => bad)
    | none => bad
  | ['f'] => (match Pool.step st .flush with | some st' => (st', s!"f{st'.pool.length}") | none => bad)
  | _ => bad

def natsStr (l : List Nat) : String := if l.isEmpty then "-" else ",".intercalate (l.map toString)

def poolRun (ops : List String) : String :=
  let (st, outs) := ops.foldl (fun (acc : Pool.St × List String) tok =>
    let (st', o) := poolOp acc.1 tok
    (st', o :: acc.2)) (Pool.init, [])
  let closed := (List.range st.next).filter (fun s => st.closed s)
  " ".intercalate outs.reverse ++ s!" pool={natsStr st.pool} closed={natsStr closed}"

/-! one call of an after-handler -/
namespace After
open Ibx.Model.LuaAfter

def tgtOf : Char → Option Tgt
  | 'm' => some .msg
  | 'f' => some .fresh
  | _ => none

def addrExprOf (s : String) : Option AddrExpr :=
  match s.toList with
  | 'F' :: [t] => (tgtOf t).map .frm
  | 'T' :: t :: i => do let t ← tgtOf t; let i ← (String.ofList i).toNat?; pure (.to t i)
  | 'N' :: r =>
    match (String.ofList r).splitOn "/" with
    | [n, a] => do let n ← Bytes.ofHex n; let a ← Bytes.ofHex a; pure (.new n a)
    | _ => none
  | _ => none

def itemOf (s : String) : Option Item :=
  match s.toList with
  | ['t', 'b'] => some .tbl
  | ['b', '0'] => some (.bool false)
  | ['b', '1'] => some (.bool true)
  | 'a' :: r => (addrExprOf (String.ofList r)).map .addr
  | 'i' :: r => ((String.ofList r).toNat?).map .int
  | 's' :: r => (Bytes.ofHex (String.ofList r)).map .str
  | 'S' :: [t] => (tgtOf t).map .self
  | _ => none

def valOf (s : String) : Option Val :=
  match s.toList with
  | ['n', 'i', 'l'] => some .nil
  | ['f', 'n'] => some .func
  | ['b', '0'] => some (.bool false)
  | ['b', '1'] => some (.bool true)
  | 'a' :: r => (addrExprOf (String.ofList r)).map .addr
  | 'i' :: r => ((String.ofList r).toNat?).map .int
  | 's' :: r => (Bytes.ofHex (String.ofList r)).map .str
  | 'S' :: [t] => (tgtOf t).map .self
  | 't' :: r => if r.isEmpty then some (.tbl []) else ((String.ofList r).splitOn ",").mapM itemOf |>.map .tbl
  | _ => none

def tgtS (s : String) : Option Tgt := match s.toList with | [c] => tgtOf c | _ => none

def opOf : List String → Option Op
  | ["g", t, f] => do let t ← tgtS t; let f ← Bytes.ofHex f; pure (.get t f)
  | ["ga", a, f] => do let a ← addrExprOf a; let f ← Bytes.ofHex f; pure (.getAddr a f)
  | ["sl", k] => (Bytes.ofHex k).map .slot
  | ["s", t, f, v] => do let t ← tgtS t; let f ← Bytes.ofHex f; let v ← valOf v; pure (.set t f v)
  | ["sa", a, f, v] => do let a ← addrExprOf a; let f ← Bytes.ofHex f; let v ← valOf v; pure (.setAddr a f v)
  | ["r"] => some .raise
  | ["q"] => some .ret
  | _ => none

def refOf (s : String) : Option (Option Ref) := if s == "n" then some none else s.toNat?.map some

def metaOf : List String → Option Meta
  | [mb, id, frm, to, date, subj, size] => do
    let mb ← Bytes.ofHex mb; let id ← Bytes.ofHex id; let frm ← refOf frm
    let to ← if to == "_" then some [] else (to.splitOn ",").mapM refOf
    let date ← date.toInt?; let subj ← Bytes.ofHex subj; let size ← size.toInt?
    pure { mailbox := mb, id := id, frm := frm, to := to, date := date, subject := subj, size := size }
  | _ => none

def heapOf (s : String) : Option Heap :=
  (table s).mapM (fun r => match r with
    | [n, a] => do let n ← Bytes.ofHex n; let a ← Bytes.ofHex a; pure (⟨n, a⟩ : Addr)
    | _ => none)

def showObs : Obs → String
  | .nil => "nil"
  | .str s => "s" ++ Bytes.toHex s
  | .int n => s!"i{n}"
  | .addr => "u"
  | .tbl n => s!"t{n}"
  | .func => "f"

def showAddr : Option Addr → String
  | none => "nil"
  | some a => Bytes.toHex a.name ++ "/" ++ Bytes.toHex a.address

def joinOr (l : List String) : String := if l.isEmpty then "_" else ",".intercalate l

def runOp (kv : KV) : String :=
  let sh := AddrSharing.ofString ((kv.get? "v").getD "?")
  match (kv.get? "heap") >>= heapOf, ((kv.get? "ev").map (·.splitOn "~")) >>= metaOf,
        ((kv.get? "prog").map table) >>= (·.mapM opOf), (kv.get? "slots").map String.toList with
  | some h, some ev, some p, some [s1, s2] =>
    if sh = .unknown then "bad-op" else
    let env : LuaAfter.Env := { stored := s1 == '1', deleted := s2 == '1' }
    let (h', c) := afterCall sh env p h ev
    let v := view h' ev
    s!"obs={joinOr (c.obs.map showObs)} st={match c.status with | .ok => "ok" | .error => "err"} from={showAddr v.frm} to={joinOr (v.to.map showAddr)}"
  | _, _, _, _ => "bad-op"

end After

def step (_ : Unit) (toks : List String) : Unit × String :=
  match toks with
  | "pool" :: ops => ((), poolRun ops)
  | "after" :: rest => ((), After.runOp (splitKV rest).2)
  | _ =>
    let (ps, kv) := splitKV toks
    match ps with
    | ["run"] => ((), runOp kv)
    | _ => ((), "bad-op")

end Driver.LuaMode
