import Driver.Proto
import Driver.Smtp
import Ibx.Model.LuaGlue
import Ibx.Model.Pool
/-
  mode "lua":
    run <all fields of mode "smtp" except the hook tables> lmail=<h> lrcpt=<h> lstored=<h>
        one connection against a server whose only extension is the luahost of a script of the handler grammar.
        <h> = `undef` (handler not defined) | `-` (defined, empty table) | entries `key~term…` separated by ';'
        SMTP terms:   allow | allowargs | defer | deny~code~msg | deny0 | deny1~code | deny2~code~msg | g~<garbage> | f~<failure>
        stored terms: fresh~mbs~from~to~subj | inplace~mbs~from~to~subj   (a field `*` = not assigned) | g~… | f~…
        answer: as mode "smtp".
    pool <op> …     one schedule of the state pool from the empty pool:  g<t>:<d>  u<t>:<d>  p<t> (putClear;putAppend)  l<t>  f
        answer: per op  g<sid>/<depth>/<poolLen> | u | p<poolLen> | l | f<poolLen> | x (not enabled);  then pool=<sids,top first> closed=<sids>
-/
namespace Driver.LuaMode
open Ibx Ibx.Model Ibx.Model.Smtp Ibx.Model.LuaGlue Driver Driver.SmtpMode

def garbageOf : String → Option Garbage
  | "retNil" => some .retNil | "noReturn" => some .noReturn | "number" => some .number | "string" => some .string
  | "table" => some .table | "retTrue" => some .retTrue | "retFalse" => some .retFalse | "function" => some .function
  | "wrongUserdata" => some .wrongUserdata | "nilThenAnswer" => some .nilThenAnswer | "scribbleNil" => some .scribbleNil
  | _ => none

def failureOf : String → Option Failure
  | "raise" => some .raise | "raiseTable" => some .raiseTable | "raiseNil" => some .raiseNil | "runtime" => some .runtime
  | "badArg" => some .badArg | "recurse" => some .recurse | "scribbleRaise" => some .scribbleRaise
  | _ => none

def smtpTermOf : List String → Option SmtpTerm
  | ["allow"] => some .allow
  | ["allowargs"] => some .allowArgs
  | ["defer"] => some .defer_
  | ["deny", c, m] => do let c ← c.toNat?; let m ← Bytes.ofHex m; pure (.deny c m)
  | ["deny0"] => some .denyDefault
  | ["deny1", c] => do let c ← c.toNat?; pure (.denyCode c)
  | ["deny2", c, m] => do let c ← c.toNat?; let m ← Bytes.ofHex m; pure (.denyThenAllow c m)
  | ["g", g] => (garbageOf g).map .garbage
  | ["f", f] => (failureOf f).map .fail
  | _ => none

def optField {α : Type} (p : String → Option α) (s : String) : Option (Option α) :=
  if s == "*" then some none else (p s).map some

def rewriteOf (mbs f t sj : String) : Option Rewrite := do
  let mbs ← optField hexList mbs
  let f ← optField Bytes.ofHex f
  let t ← optField hexList t
  let sj ← optField Bytes.ofHex sj
  pure { mailboxes := mbs, sender := f, rcpts := t, subject := sj }

def storedTermOf : List String → Option StoredTerm
  | ["fresh", mbs, f, t, sj] => (rewriteOf mbs f t sj).map .fresh
  | ["inplace", mbs, f, t, sj] => (rewriteOf mbs f t sj).map .inPlace
  | ["g", g] => (garbageOf g).map .garbage
  | ["f", f] => (failureOf f).map .fail
  | _ => none

/-- `none` = malformed; `some none` = handler not defined -/
def handlerOf {T : Type} (p : List String → Option T) (s : String) : Option (Option (Handler T)) :=
  if s == "undef" then some none
  else (table s).mapM (fun r =>
    match r with
    | k :: rest => do let k ← Bytes.ofHex k; let t ← p rest; pure (k, t)
    | [] => none) |>.map some

def scriptOf (kv : KV) : Option Script := do
  let m ← handlerOf smtpTermOf ((kv.get? "lmail").getD "undef")
  let r ← handlerOf smtpTermOf ((kv.get? "lrcpt").getD "undef")
  let s ← handlerOf storedTermOf ((kv.get? "lstored").getD "undef")
  pure { mail := m, rcpt := r, stored := s }

def runOp (kv : KV) : String :=
  match mkEnv kv, scriptOf kv, (kv.get? "inp") >>= Bytes.ofHex, (kv.get? "cap") >>= String.toNat? with
  | some e0, some sc, some inp, some cap =>
    match coverage kv inp with
    | some m => m
    | none =>
      let e := luaEnv e0 sc
      let budget := (kv.get? "budget") >>= String.toNat?
      let (evs, s, en) := run e budget inp
      " ".intercalate (evs.map showEv) ++ s!" end={showEnd en} st={showSt s.st} hooks={hookTexts evs} dump={dump (foldStore cap evs)}"
  | _, _, _, _ => "bad-op"

/-! pool schedules -/
open Ibx.Model.Pool in
def poolOp (st : Pool.St) (tok : String) : Pool.St × String :=
  let bad := (st, "x")
  let two (s : String) : Option (Nat × Nat) :=
    match s.splitOn ":" with
    | [a, b] => do let a ← a.toNat?; let b ← b.toNat?; pure (a, b)
    | _ => none
  match tok.toList with
  | 'g' :: r =>
    match two (String.ofList r) with
    | some (t, d) =>
      match Pool.step st (.get t d) with
      | some st' => (match st'.pc t with
        | .holding s => (st', s!"g{s}/{st'.depth s}/{st'.pool.length}")
        | _ => (st', "g?"))
      | none => bad
    | none => bad
  | 'u' :: r =>
    match two (String.ofList r) with
    | some (t, d) => (match Pool.step st (.use t d) with | some st' => (st', "u") | none => bad)
    | none => bad
  | 'p' :: r =>
    match (String.ofList r).toNat? with
    | some t =>
      match Pool.step st (.putClear t) with
      | some st1 => (match Pool.step st1 (.putAppend t) with | some st2 => (st2, s!"p{st2.pool.length}") | none => bad)
      | none => bad
    | none => bad
  | 'l' :: r =>
    match (String.ofList r).toNat? with
    | some t => (match Pool.step st (.leak t) with | some st' => (st', "l") | none => bad)
    | none => bad
  | ['f'] => (match Pool.step st .flush with | some st' => (st', s!"f{st'.pool.length}") | none => bad)
  | _ => bad

def natsStr (l : List Nat) : String := if l.isEmpty then "-" else ",".intercalate (l.map toString)

def poolRun (ops : List String) : String :=
  let (st, outs) := ops.foldl (fun (acc : Pool.St × List String) tok =>
    let (st', o) := poolOp acc.1 tok
    (st', o :: acc.2)) (Pool.init, [])
  let closed := (List.range st.next).filter (fun s => st.closed s)
  " ".intercalate outs.reverse ++ s!" pool={natsStr st.pool} closed={natsStr closed}"

def step (_ : Unit) (toks : List String) : Unit × String :=
  match toks with
  | "pool" :: ops => ((), poolRun ops)
  | _ =>
    let (ps, kv) := splitKV toks
    match ps with
    | ["run"] => ((), runOp kv)
    | _ => ((), "bad-op")

end Driver.LuaMode
