import Ibx.Bytes
/- Line-protocol helpers for the model driver. -/
namespace Driver
open Ibx

abbrev KV := List (String × String)

def splitKV (toks : List String) : List String × KV :=
  toks.foldr (fun t (ps, kvs) =>
    match t.splitOn "=" with
    | [k, v] => (ps, (k, v) :: kvs)
    | _ => (t :: ps, kvs)) ([], [])

def KV.get? (kv : KV) (k : String) : Option String := (kv.find? (·.1 == k)).map (·.2)

def hexList (s : String) : Option (List Bytes) :=
  if s == "" || s == "_" then some []
  else (s.splitOn ",").mapM Bytes.ofHex

def natList (s : String) : Option (List Nat) :=
  if s == "-" || s == "" then some []
  else (s.splitOn ",").mapM String.toNat?

def boolOf (s : String) : Option Bool :=
  if s == "1" || s == "t" then some true else if s == "0" || s == "f" then some false else none

def showB (b : Bool) : String := if b then "t" else "f"

end Driver

namespace Driver

def tokens (line : String) : List String :=
  (line.trimAscii.toString.splitOn " ").filter (· ≠ "")

/-- generic line loop over a model state: one line in, one line out (flushed) -/
partial def runLoop {σ : Type} (step : σ → List String → σ × String) (s : σ) : IO Unit := do
  let hin ← IO.getStdin
  let hout ← IO.getStdout
  let rec go (s : σ) : IO Unit := do
    let line ← hin.getLine
    if line.isEmpty then return ()
    let (s', out) := step s (tokens line)
    hout.putStrLn out
    hout.flush
    go s'
  go s

end Driver
