import Driver.Proto
import Ibx.Spec.Store
import Ibx.Model.Mem
import Ibx.Model.FileStore
/-
  mode "store": the abstract spec, the memory-store model and the file-store model run in lockstep on the
  same operation lines; every answer line is `spec=<out> mem=<out> file=<out>` (the file model ignores the
  byte limit, which only the memory store implements).
-/
namespace Driver.StoreMode
open Ibx Ibx.Spec.Store Driver

structure St where
  cfg : Cfg
  spec : Store
  specF : Store           -- spec run with limit = 0 (what the file store is compared with)
  mem : Model.Mem.Mem
  file : Model.FileStore.FS

def init : St :=
  { cfg := { cap := 0, limit := 0 }, spec := Spec.Store.empty, specF := Spec.Store.empty,
    mem := Model.Mem.empty, file := Model.FileStore.empty }

def encMsg (m : Msg) : String :=
  s!"{Bytes.toHex m.box}/{m.id}/{if m.seen then 1 else 0}/{m.source.length}/{Bytes.toHex m.hdr.sender}/" ++
  ",".intercalate (m.hdr.rcpts.map Bytes.toHex) ++ s!"/{Bytes.toHex m.hdr.subject}/{m.hdr.date}/{Bytes.toHex m.source}"

def encList (l : List Msg) : String := "[" ++ "|".intercalate (l.map encMsg) ++ "]"

/-- insertion sort of boxes by (hex of) name, so `visit` is canonical -/
def sortBoxes (l : List (List Msg)) : List (List Msg) :=
  let key (x : List Msg) : String := match x with | m :: _ => Bytes.toHex m.box | [] => ""
  l.foldl (fun acc x =>
    let (a, b) := acc.span (fun y => key y < key x)
    a ++ [x] ++ b) []

def encOut (o : Out) (ev : List Ev) : String :=
  let body := match o with
    | .id i => s!"id:{i}"
    | .msg m => s!"msg:{encMsg m}"
    | .msgs l => s!"msgs:{encList l}"
    | .boxes l => "boxes:" ++ "&".intercalate ((sortBoxes l).map encList)
    | .ok => "ok"
    | .notExist => "notExist"
  body ++ ";ev:" ++ ",".intercalate (ev.map (fun e => s!"{Bytes.toHex e.1}/{e.2}"))

def runOp (s : St) (op : Op) : St × String :=
  let (sp, o1, e1) := Spec.Store.step s.cfg s.spec op
  let (sf, o0, e0) := Spec.Store.step { s.cfg with limit := 0 } s.specF op
  let (m, o2, e2) := Model.Mem.step s.cfg s.mem op
  let (f, o3, e3) := Model.FileStore.step s.cfg s.file op
  ({ s with spec := sp, specF := sf, mem := m, file := f },
   s!"spec={encOut o1 e1} mem={encOut o2 e2} specF={encOut o0 e0} file={encOut o3 e3}")

def parseMeta (kv : KV) : Option Meta := do
  let f ← (kv.get? "from") >>= Bytes.ofHex
  let t ← (kv.get? "to") >>= hexList
  let sj ← (kv.get? "subj") >>= Bytes.ofHex
  let d ← (kv.get? "date") >>= String.toInt?
  pure { sender := f, rcpts := t, subject := sj, date := d }

def step (s : St) (toks : List String) : St × String :=
  let (ps, kv) := splitKV toks
  match ps with
  | ["cfg"] =>
    match (kv.get? "cap") >>= String.toNat?, (kv.get? "limit") >>= String.toNat? with
    | some c, some l => ({ init with cfg := { cap := c, limit := l } }, "ok")
    | _, _ => (s, "bad-op")
  | ["add", b, src] =>
    match Bytes.ofHex b, Bytes.ofHex src, parseMeta kv with
    | some b, some src, some m => runOp s (.add b m src)
    | _, _, _ => (s, "bad-op")
  | ["get", b, i] =>
    match Bytes.ofHex b, i.toNat? with
    | some b, some i => runOp s (.get b i)
    | _, _ => (s, "bad-op")
  | ["latest", b] =>
    match Bytes.ofHex b with | some b => runOp s (.latest b) | none => (s, "bad-op")
  | ["list", b] =>
    match Bytes.ofHex b with | some b => runOp s (.list b) | none => (s, "bad-op")
  | ["seen", b, i] =>
    match Bytes.ofHex b, i.toNat? with
    | some b, some i => runOp s (.seen b i)
    | _, _ => (s, "bad-op")
  | ["rm", b, i] =>
    match Bytes.ofHex b, i.toNat? with
    | some b, some i => runOp s (.remove b i)
    | _, _ => (s, "bad-op")
  | ["purge", b] =>
    match Bytes.ofHex b with | some b => runOp s (.purge b) | none => (s, "bad-op")
  | ["visit"] => runOp s .visit
  | ["visitk", k] =>
    -- a visitor that stops the walk at the k-th non-empty mailbox: how many non-empty mailboxes it is shown (the walk order is the back-end's own)
    match k.toNat? with
    | some k =>
      let shown (o : Out) : String := match o with | .boxes l => s!"shown:{(l.take k).length}" | _ => "bad"
      let (_, o1, _) := Spec.Store.step s.cfg s.spec .visit
      let (_, o0, _) := Spec.Store.step { s.cfg with limit := 0 } s.specF .visit
      let (_, o2, _) := Model.Mem.step s.cfg s.mem .visit
      let (_, o3, _) := Model.FileStore.step s.cfg s.file .visit
      (s, s!"spec={shown o1};ev: mem={shown o2};ev: specF={shown o0};ev: file={shown o3};ev:")
    | none => (s, "bad-op")
  | ["reopen"] => ({ s with file := Model.FileStore.reopen s.file }, "ok")
  | _ => (s, "bad-op")

end Driver.StoreMode
