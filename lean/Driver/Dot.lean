import Driver.Proto
import Ibx.Model.Dot
import Ibx.Model.Line
import Ibx.Model.Pop3Send
/- Mode "dot": stateless handlers for the C02 models (dot reader, line reader, scanner, POP3 send/receive, trace lines). -/
namespace Driver.Dot
open Ibx Ibx.Model Driver

def showPair (o : Option (Bytes × Bytes)) : String :=
  match o with
  | some (a, b) => s!"ok {Bytes.toHex a} {Bytes.toHex b}"
  | none => "eof"

def showList (l : List Bytes) : String :=
  if l.isEmpty then "_" else ",".intercalate (l.map Bytes.toHex)

def hx (kv : KV) (k : String) : Option Bytes := (kv.get? k) >>= Bytes.ofHex

def handler (toks : List String) : Option String :=
  let (ps, kv) := splitKV toks
  match ps with
  | ["dot.decode", w] => do
    let w ← Bytes.ofHex w
    pure (showPair (Dot.dotDecode w))
  | ["line.read", w] => do
    let w ← Bytes.ofHex w
    pure (showPair (Line.readLine w))
  | ["scan.lines", s] => do
    let s ← Bytes.ofHex s
    match (kv.get? "lim") with
    | none => pure s!"ok {showList (Pop3Send.scanLines s)}"
    | some l => do
      let lim ← l.toNat?
      let r := Pop3Send.scanLim lim s
      pure s!"{if r.2 then "ok" else "toolong"} {showList r.1}"
  | ["pop3.send", s] => do
    let s ← Bytes.ofHex s
    match (kv.get? "size") with
    | none => pure (Bytes.toHex (Pop3Send.pop3Send s))
    | some l => do
      let size ← l.toNat?
      pure (Bytes.toHex (Pop3Send.sendMessage size s))
  | ["pop3.top", s, n] => do
    let s ← Bytes.ofHex s
    let n ← n.toNat?
    pure (Bytes.toHex (Pop3Send.pop3Top s n))
  | ["pop3.client", w] => do
    let w ← Bytes.ofHex w
    pure (showPair (Pop3Send.pop3ClientDecode w))
  | ["crlf", s] => do
    let s ← Bytes.ofHex s
    pure (Bytes.toHex (Pop3Send.crlf s))
  | ["lfnorm", s] => do
    let s ← Bytes.ofHex s
    pure (Bytes.toHex (Spec.Unstuff.joinLF (Pop3Send.scanLines s)))
  | ["data.encode", s] => do
    let s ← Bytes.ofHex s
    pure (Bytes.toHex (Spec.Unstuff.dataEncodeLines (Pop3Send.scanLines s)))
  | ["trace"] => do
    let f ← hx kv "from"; let mb ← hx kv "mb"; let helo ← hx kv "helo"; let host ← hx kv "host"
    let dom ← hx kv "dom"; let ts ← hx kv "ts"
    pure (Bytes.toHex (Pop3Send.traceHeaders f mb (Pop3Send.recvdHeader helo host dom) ts))
  /- the whole path: wire text of the DATA phase → (stored source, unread rest) -/
  | ["deliver", w] => do
    let w ← Bytes.ofHex w
    let f ← hx kv "from"; let mb ← hx kv "mb"; let helo ← hx kv "helo"; let host ← hx kv "host"
    let dom ← hx kv "dom"; let ts ← hx kv "ts"
    match Dot.dotDecode w with
    | none => pure "eof"
    | some (blk, rest) =>
      let src := Pop3Send.storedSource f mb (Pop3Send.recvdHeader helo host dom) ts blk
      pure s!"ok {Bytes.toHex src} {Bytes.toHex rest} {Pop3Send.storeSize src}"
  | _ => none

def step (_ : Unit) (toks : List String) : Unit × String := ((), (handler toks).getD "bad-op")

end Driver.Dot
