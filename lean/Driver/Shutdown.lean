import Driver.Proto
import Ibx.Model.Shutdown
/-
  ibxdrv shutdown — replay of observed event orders against the accept/WaitGroup/Drain model.

    drain <wgAdd>[+serve] <event>*   (+serve: the accept loop is counted in the WaitGroup)
                                   →  ok <bits>            one bit per `q`: 1 = counter is zero (Drain can return / has returned)
                                     not-enabled <i> <event>   event i (0-based) is not an enabled step of the model
  events:  acc (accept [Add] go enter)   end (conn.Close, Done [Done])   cancel   close   fail (Accept fails, serve returns)
           q   raw:accept raw:add raw:spawn raw:enter raw:closeS raw:done2 raw:done1 raw:drain
-/
namespace Driver
open Ibx.Model.Shutdown Ibx.Model.Shutdown.Drain

def shutLabels (c : Cfg) : String → Option (List Label)
  | "acc" => some (accMacro c)
  | "end" => some (endMacro c)
  | "cancel" => some [.cancel]
  | "close" => some [.closeL]
  | "fail" => some [.acceptFail]
  | "raw:accept" => some [.accept]
  | "raw:add" => some [.accAdd]
  | "raw:spawn" => some [.spawn]
  | "raw:enter" => some [.enter]
  | "raw:closeS" => some [.closeS]
  | "raw:done2" => some [.done2]
  | "raw:done1" => some [.done1]
  | "raw:drain" => some [.drain]
  | _ => none

def shutRun (c : Cfg) : St → Nat → String → List String → String
  | _, _, bits, [] => "ok " ++ (if bits.isEmpty then "-" else bits)
  | s, i, bits, e :: es =>
    if e = "q" then shutRun c s (i + 1) (bits ++ (if s.wg = 0 then "1" else "0")) es
    else match shutLabels c e with
      | none => "bad-op"
      | some ls => match applyAll c s ls with
        | none => s!"not-enabled {i} {e}"
        | some s' => shutRun c s' (i + 1) bits es

def shutdownHandler (toks : List String) : String :=
  match toks with
  | "drain" :: mode :: evs =>
    let (m, sc) := match mode.splitOn "+" with
      | [m, "serve"] => (m, true)
      | _ => (mode, false)
    match WgAdd.parse m with
    | none => "bad-op"
    | some w => let c : Cfg := ⟨w, sc⟩; shutRun c (init c) 0 "" evs
  | _ => "bad-op"

end Driver
