import Driver.Proto
import Ibx.Model.Css
import Ibx.Model.TextHtml
/-
  Mode "san" (stateless): the C18 models.
    css <toks>            -> <hex>        sanitizeStyle over the token list      toks = code:hexval,…  | _
    css.ok <toks>         -> t|f          declsOK (every declaration starts with an allow-listed property)
    css.allowed <hex>     -> t|f          allowedIdent
    esc <hex>             -> <hex>        html.EscapeString
    unesc5 <hex>          -> <hex>
    linkable <hex>        -> t|f
    t2h <hex> <spans>     -> ok <hex> | bad-spans      TextToHTML;  spans = s:e,…  | _   (offsets in the ESCAPED text)
-/
namespace Driver
open Ibx Ibx.Model

def parseTok (s : String) : Option Css.Token :=
  match s.splitOn ":" with
  | [c, v] => do
    let n ← c.toNat?
    let ty ← Css.TT.ofCode n
    let b ← Bytes.ofHex v
    pure ⟨ty, b⟩
  | _ => none

def parseToks (s : String) : Option (List Css.Token) :=
  if s == "_" || s == "" then some [] else (s.splitOn ",").mapM parseTok

def parseSpan (s : String) : Option (Nat × Nat) :=
  match s.splitOn ":" with
  | [a, b] => do let a ← a.toNat?; let b ← b.toNat?; pure (a, b)
  | _ => none

def parseSpans (s : String) : Option (List (Nat × Nat)) :=
  if s == "_" || s == "" then some [] else (s.splitOn ",").mapM parseSpan

/-- the oracle field is well formed: ascending, non-empty, in range, no CR / LF inside a match -/
def spansFine (e : Bytes) (spans : List (Nat × Nat)) : Bool :=
  TextHtml.spansOK e.length 0 spans &&
  spans.all (fun (s, t) => ((e.drop s).take (t - s)).all (fun c => c != 10 && c != 13))

def sanHandler (toks : List String) : Option String :=
  match toks with
  | ["css", ts] =>
    match parseToks ts with
    | some ts => some (Bytes.toHex (Css.sanitizeStyleTR ts))
    | none => some "bad-op"
  | ["css.ok", ts] =>
    match parseToks ts with
    | some ts => some (showB (Css.declsOK false ts))
    | none => some "bad-op"
  | ["css.allowed", v] =>
    match Bytes.ofHex v with
    | some v => some (showB (Css.allowedIdent v))
    | none => some "bad-op"
  | ["esc", t] =>
    match Bytes.ofHex t with
    | some t => some (Bytes.toHex (TextHtml.escape t))
    | none => some "bad-op"
  | ["unesc5", t] =>
    match Bytes.ofHex t with
    | some t => some (Bytes.toHex (TextHtml.unescape5 t))
    | none => some "bad-op"
  | ["linkable", u] =>
    match Bytes.ofHex u with
    | some u => some (showB (TextHtml.linkable u))
    | none => some "bad-op"
  | ["t2h", t, sp] =>
    match Bytes.ofHex t, parseSpans sp with
    | some t, some sp =>
      if spansFine (TextHtml.escape t) sp then some ("ok " ++ Bytes.toHex (TextHtml.textToHTMLTR t sp))
      else some "bad-spans"
    | _, _ => some "bad-op"
  | _ => none

end Driver
