import Driver.Pure
import Driver.Store
import Driver.Smtp
import Driver.Pop3
import Driver.San
import Driver.Broker
import Driver.Hub
import Driver.WsWire
import Driver.Shutdown
import Driver.Dot
import Driver.Crash
import Driver.Conc
import Driver.Lua
import Driver.Retention
import Driver.Rest
import Driver.SanFilter
import Driver.Sys
import Driver.Pop3Conc
import Driver.Ids
import Driver.SmtpConc
open Driver

/-
  ibxdrv [mode]   — one model area per mode, each with its own state; one line in, one line out.
  Modes are registered here (one line each).
-/
def main (args : List String) : IO UInt32 := do
  match args with
  | [] | ["pure"] => runLoop (fun (_ : Unit) toks => ((), (pureHandler toks).getD "bad-op")) ()
  | ["store"] => runLoop Driver.StoreMode.step Driver.StoreMode.init
  | ["smtp"] => runLoop Driver.SmtpMode.step ()
  | ["pop3"] => Driver.Pop3.main
  | ["san"] => runLoop (fun (_ : Unit) toks => ((), (sanHandler toks).getD "bad-op")) ()
  | ["broker"] => runLoop brokerStep {}
  | ["hub"] => Driver.HubMode.main
  | ["wswire"] => Driver.WsWireMode.main
  | ["shutdown"] => runLoop (fun (_ : Unit) toks => ((), shutdownHandler toks)) ()
  | ["dot"] => runLoop Driver.Dot.step ()
  | ["crash"] => runLoop Driver.CrashMode.step Driver.CrashMode.init
  | ["lin"] => runLoop Driver.ConcMode.step ()
  | ["lua"] => runLoop Driver.LuaMode.step ()
  | ["ret"] => runLoop Driver.RetMode.step Driver.RetMode.init
  | ["rest"] => runLoop Driver.RestMode.step Driver.RestMode.init
  | ["sys"] => runLoop Driver.SysMode.step Driver.SysMode.init
  | ["popconc"] => runLoop Driver.Pop3ConcMode.step Driver.Pop3ConcMode.init
  | ["ids"] => runLoop Driver.IdsMode.step ()
  | ["smtpconc"] => runLoop Driver.SmtpConcMode.step Driver.SmtpConcMode.init
  | ["sanf"] => runLoop (fun (_ : Unit) toks => ((), Driver.SanFilter.handler toks)) ()
  | _ => IO.eprintln s!"unknown mode {args}"; return 2
  return 0
