import Driver.Pure
open Driver

/-- one line in, one line out -/
def step (line : String) : String :=
  let toks := (line.trimAscii.toString.splitOn " ").filter (· ≠ "")
  match pureHandler toks with
  | some out => out
  | none => "bad-op"

partial def loop (hin hout : IO.FS.Stream) : IO Unit := do
  let line ← hin.getLine
  if line.isEmpty then return ()
  hout.putStrLn (step line)
  hout.flush
  loop hin hout

def main (_args : List String) : IO UInt32 := do
  let hin ← IO.getStdin
  let hout ← IO.getStdout
  loop hin hout
  hout.flush
  return 0
