import Ibx.Bytes
open Ibx

def main (args : List String) : IO UInt32 := do
  IO.println s!"ibxdrv {args}"
  return 0
