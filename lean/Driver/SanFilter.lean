import Driver.Proto
import Ibx.Model.StyleFilter
import Ibx.Model.TagRead
/-
  Mode "sanf" (stateless): the style-tag filter of html.go over the x/net/html token stream.
    filt <toks> <scans>   -> ok <hex> | err | no-scan
        toks  = `_` | token,token,…
          token = t:<raw> | e:<raw> | c:<raw> | d:<raw>          text / end tag / comment / doctype
                | s:<raw>:<name>:<attrs> | x:<raw>:<name>:<attrs>  start tag / self-closing tag
                | E:<0|1>:<raw>                                   ErrorToken (1 = io.EOF)
          attrs = `_` | key.val;key.val;…                          (hex, `-` = empty)
        scans = `_` | <value>=<csstoks>/<value>=<csstoks>/…         the CSS scanner's answer for every attribute value
          csstoks = `_` | code.hex+code.hex+…
        `no-scan` : a style attribute's value has no entry in <scans> (harness error, shows as a divergence)
    stylekey <hex>        -> t|f          isStyleKey
    xesc <hex>            -> <hex>        x/net/html EscapeString
    rdtag <hex>           -> ok <0|1> <name> <attrs> <rest> | err     TagRead.readTag on the bytes after `<`
                             (name and keys ASCII-lower-cased as TagName / TagAttr do; values as raw spans)
-/
namespace Driver
open Ibx Ibx.Model Ibx.Model.StyleFilter

namespace SanFilter

def parseAttr (s : String) : Option Attr :=
  match s.splitOn "." with
  | [k, v] => do let k ← Bytes.ofHex k; let v ← Bytes.ofHex v; pure (k, v)
  | _ => none

def parseAttrs (s : String) : Option (List Attr) :=
  if s == "_" || s == "" then some [] else (s.splitOn ";").mapM parseAttr

def parseTok (s : String) : Option Tok :=
  match s.splitOn ":" with
  | ["t", r] => (Bytes.ofHex r).map .text
  | ["e", r] => (Bytes.ofHex r).map .endTag
  | ["c", r] => (Bytes.ofHex r).map .comment
  | ["d", r] => (Bytes.ofHex r).map .doctype
  | ["s", r, n, a] => do pure (.startTag false (← Bytes.ofHex r) (← Bytes.ofHex n) (← parseAttrs a))
  | ["x", r, n, a] => do pure (.startTag true (← Bytes.ofHex r) (← Bytes.ofHex n) (← parseAttrs a))
  | ["E", e, r] => do pure (.error (← boolOf e) (← Bytes.ofHex r))
  | _ => none

def parseToks (s : String) : Option (List Tok) :=
  if s == "_" || s == "" then some [] else (s.splitOn ",").mapM parseTok

def parseCssTok (s : String) : Option Css.Token :=
  match s.splitOn "." with
  | [c, v] => do
    let n ← c.toNat?
    let ty ← Css.TT.ofCode n
    let b ← Bytes.ofHex v
    pure ⟨ty, b⟩
  | _ => none

def parseCssToks (s : String) : Option (List Css.Token) :=
  if s == "_" || s == "" then some [] else (s.splitOn "+").mapM parseCssTok

def parseScan (s : String) : Option (Bytes × List Css.Token) :=
  match s.splitOn "=" with
  | [v, t] => do pure (← Bytes.ofHex v, ← parseCssToks t)
  | _ => none

def parseScans (s : String) : Option (List (Bytes × List Css.Token)) :=
  if s == "_" || s == "" then some [] else (s.splitOn "/").mapM parseScan

/-- every value of a style attribute of the stream has an entry in the table -/
def covered (tab : List (Bytes × List Css.Token)) (ts : List Tok) : Bool :=
  ts.all fun
    | .startTag _ _ _ attrs => attrs.all fun a => !isStyleKey a.1 || (tab.lookup a.2).isSome
    | _ => true

def handler (toks : List String) : String :=
  match toks with
  | ["filt", ts, sc] =>
    match parseToks ts, parseScans sc with
    | some ts, some tab =>
      if !covered tab ts then "no-scan"
      else match filterTR (fun v => (tab.lookup v).getD []) ts with
        | some o => "ok " ++ Bytes.toHex o
        | none => "err"
    | _, _ => "bad-op"
  | ["stylekey", k] =>
    match Bytes.ofHex k with
    | some k => showB (isStyleKey k)
    | none => "bad-op"
  | ["rdtag", b] =>
    match Bytes.ofHex b with
    | some b =>
      match TagRead.readTag b with
      | some (n, as, sc, rest) =>
        let a := if as.isEmpty then "_" else ";".intercalate (as.map fun kv => Bytes.toHex (Bytes.lower kv.1) ++ "." ++ Bytes.toHex kv.2)
        "ok " ++ (if sc then "1" else "0") ++ " " ++ Bytes.toHex (Bytes.lower n) ++ " " ++ a ++ " " ++ Bytes.toHex rest
      | none => "err"
    | none => "bad-op"
  | ["xesc", v] =>
    match Bytes.ofHex v with
    | some v => Bytes.toHex (escape v)
    | none => "bad-op"
  | _ => "bad-op"

end SanFilter
end Driver
