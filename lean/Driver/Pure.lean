import Driver.Proto
import Ibx.Model.Wild
import Ibx.Model.Addr
import Ibx.Model.Policy
import Ibx.Model.ParseIP
import Ibx.Model.MailArgs
/- Stateless handlers: wild, glob, addr.*, policy, parseip, mailre, parseargs. -/
namespace Driver
open Ibx Ibx.Model

/-- every string the address model may hand to `net.ParseIP` while processing `a` -/
def ipInner (d : Bytes) : Option Bytes :=
  if d.length ≥ 4 && d.head? == some 91 && d.getLast? == some 93 then
    let inner := (d.drop 1).dropLast
    some (if Addr.ipv6Tag.isPrefixOf (d.drop 1) then inner.drop 5 else inner)
  else none

def suffixesAfterAt : Bytes → List Bytes
  | [] => []
  | c :: rest => if c == 64 then rest :: suffixesAfterAt rest else suffixesAfterAt rest

def ipQueries (a : Bytes) : List Bytes :=
  (a :: suffixesAfterAt a).filterMap ipInner

def parseIpTable (s : String) : Option (List (Bytes × Bool)) :=
  if s == "-" || s == "" then some []
  else (s.splitOn ",").mapM (fun e =>
    match e.splitOn ":" with
    | [h, b] => do let h ← Bytes.ofHex h; let b ← boolOf b; pure (h, b)
    | _ => none)

def ipFun (tbl : List (Bytes × Bool)) (s : Bytes) : Bool :=
  match tbl.find? (·.1 == s) with
  | some (_, b) => b
  | none => false

def namingOf (s : String) : Option Addr.Naming :=
  match s with
  | "local" => some .localN | "full" => some .fullN | "domain" => some .domainN | _ => none

def showOpt (o : Option Bytes) : String :=
  match o with | some b => s!"ok {Bytes.toHex b}" | none => "err"

def showOpt2 (o : Option (Bytes × Bytes)) : String :=
  match o with | some (a, b) => s!"ok {Bytes.toHex a} {Bytes.toHex b}" | none => "err"

/-- `k:v,k:v` in hex (`_` = no pair) -/
def showPairs (ps : List (Bytes × Bytes)) : String :=
  if ps.isEmpty then "_" else ",".intercalate (ps.map fun p => s!"{Bytes.toHex p.1}:{Bytes.toHex p.2}")

def parseCfg (kv : KV) : Option Policy.Cfg := do
  let da ← (kv.get? "da") >>= boolOf
  let ds ← (kv.get? "ds") >>= boolOf
  let acc ← (kv.get? "acc") >>= hexList
  let rej ← (kv.get? "rej") >>= hexList
  let sto ← (kv.get? "sto") >>= hexList
  let dis ← (kv.get? "dis") >>= hexList
  let ro ← (kv.get? "ro") >>= hexList
  pure { defaultAccept := da, acceptDomains := acc, rejectDomains := rej, defaultStore := ds,
         storeDomains := sto, discardDomains := dis, rejectOrigin := ro }

/-- answer of the `net.ParseIP` model for one string: `0`, or `1` and the 16 bytes -/
def showParseIP (s : Bytes) : String :=
  match ParseIP.parseIPv s with
  | some b => s!"1{Bytes.toHex b}"
  | none => "0"

/-- the `ip=` field of a request: `model` = `net.ParseIP` is the model `ParseIP.parseIP` (tied to the real function
    by the parseip leg of C04 / C05); a table = the caller ships Go's answers -/
def ipOfToken (s : String) : Option (Bytes → Bool) :=
  if s == "model" then some ParseIP.parseIP else (parseIpTable s).map ipFun

/-- `ip=model`: `net.ParseIP` is the model `ParseIP.parseIP`; `ip=<table>`: the caller ships Go's answers -/
def withIp (kv : KV) (a : Bytes) (k : (Bytes → Bool) → String) : String :=
  if kv.get? "ip" == some "model" then k ParseIP.parseIP else
  match parseIpTable ((kv.get? "ip").getD "-") with
  | none => "bad-op"
  | some tbl =>
    if (ipQueries a).all (fun q => tbl.any (·.1 == q)) then k (ipFun tbl) else "oracle-missing"

def pureHandler (toks : List String) : Option String :=
  let (ps, kv) := splitKV toks
  match ps with
  | ["wild", p, s] =>
    match natList p, natList s with
    | some p, some s => some (showB (Wild.matchDP p s))
    | _, _ => some "bad-op"
  | ["glob", p, s] =>
    match natList p, natList s with
    | some p, some s => some (showB (Spec.glob p s))
    | _, _ => some "bad-op"
  | ["addr.parse", a] =>
    match Bytes.ofHex a with
    | some a => some (showOpt2 (Addr.parseEmailAddress a))
    | none => some "bad-op"
  | ["addr.name", a] =>
    match Bytes.ofHex a with
    | some a => some (showOpt (Addr.parseMailboxName a))
    | none => some "bad-op"
  | ["addr.dom", d] =>
    match Bytes.ofHex d with
    | some d => some (withIp kv d fun ip => showB (Addr.validateDomainPart ip d))
    | none => some "bad-op"
  | ["addr.extract", m, a] =>
    match namingOf m, Bytes.ofHex a with
    | some m, some a => some (withIp kv a fun ip => showOpt (Addr.extractMailbox ip m a))
    | _, _ => some "bad-op"
  | ["addr.rcpt", m, a] =>
    match namingOf m, Bytes.ofHex a with
    | some m, some a => some (withIp kv a fun ip =>
        match Addr.newRecipient ip m a with
        | some r => s!"ok {Bytes.toHex r.localPart} {Bytes.toHex r.domain} {Bytes.toHex r.mailbox}"
        | none => "err")
    | _, _ => some "bad-op"
  | ["addr.origin", a] =>
    match Bytes.ofHex a with
    | some a => some (withIp kv a fun ip => showOpt2 (Addr.parseOrigin ip a))
    | none => some "bad-op"
  | ["parseip", h] =>
    match Bytes.ofHex h with
    | some s => some (showParseIP s)
    | none => some "bad-op"
  | ["parseips", hs] =>
    match hexList hs with
    | some ss => some (",".intercalate (ss.map showParseIP))
    | none => some "bad-op"
  | ["mailre", a] =>       -- fromRegex.FindStringSubmatch: `ok <m[1]> <m[2]>` or `err` (nil)
    match Bytes.ofHex a with
    | some a => some (showOpt2 (MailArgs.mailRe a))
    | none => some "bad-op"
  | ["parseargs", a] =>    -- ` (\w+)=(\w+|<>)` FindAllStringSubmatch: `some k:v,…` in order, keys as written, or `none`
    match Bytes.ofHex a with
    | some a => some (match MailArgs.parseArgs a with | some ps => s!"some {showPairs ps}" | none => "none")
    | none => some "bad-op"
  | ["policy", which, d] =>
    match parseCfg kv, Bytes.ofHex d with
    | some c, some d =>
      let c := Policy.process c
      match which with
      | "accept" => some (showB (Policy.shouldAccept c d))
      | "store" => some (showB (Policy.shouldStore c d))
      | "origin" => some (showB (Policy.shouldAcceptOrigin c d))
      | _ => some "bad-op"
    | _, _ => some "bad-op"
  | _ => none

end Driver
