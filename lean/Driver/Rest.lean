import Driver.Proto
import Driver.Pure
import Driver.Store
import Ibx.Model.Rest
import Ibx.Model.RestFault
import Ibx.Model.RestIds
import Ibx.Model.ClientJoin
/-
  mode "rest": the REST / web-UI handler model over the abstract store (contract "missing ⇒ ErrNotExist"), and the
  client-URL / router model.

    reset naming=<local|full|domain>                                   -> ok
    add <box> <src> from=<hex> to=<hexlist> subj=<hex> date=<int>      -> id:<n>
    req <RouteName> <name> <n<k>|latest|junk> body=<absent|true|false> num=<k|bad> natt=<k> ip=<tbl>
                                                                       -> <200|404|500|panic> <payload>
    dump                                                               -> boxes in name order
    route <GET|DELETE|PATCH|OTHER> <wire> base=<hexlist>               -> hit <RouteName> <vars> | notfound | redirect | badreq
    client <list|get|seen|source|delete|purge> <name> <id> base=<hexlist>  -> wire <hex> | clienterr
    qesc <hex> | pesc <hex>                                            -> <hex>
    reqs <RouteName> <name> <idstring> lk=<s|d> strs=<hexlist> body= num= natt= ip=
                                                                       -> as req; the id is the request STRING, `strs` the id
                                                                          strings of the addressed mailbox by message number
                                                                          (lk=s: lookup by string, lk=d: by decimal value)
    clientv <q|j> <op> <name> <id> base=<hexlist>                      -> wire <hex>    (q: QueryEscape client, j: path.Join client)
    routev <q|j> <op> <name> <id> base=<hexlist>                       -> as route
-/
namespace Driver.RestMode
open Ibx Ibx.Spec.Store Ibx.Model Ibx.Model.Rest Ibx.Model.ClientUrl Driver

structure St where
  naming : Addr.Naming
  store : Store

def init : St := { naming := .localN, store := Spec.Store.empty }

def handlerOf (s : String) : Option Handler :=
  match s with
  | "MailboxListV1" => some .listV1 | "MailboxPurgeV1" => some .purgeV1 | "MailboxShowV1" => some .showV1
  | "MailboxMarkSeenV1" => some .seenV1 | "MailboxDeleteV1" => some .deleteV1 | "MailboxSourceV1" => some .sourceV1
  | "MailboxMessage" => some .wMessage | "MailboxHTML" => some .wHtml | "MailboxSource" => some .wSource
  | "MailboxViewAttach" => some .wAttach | "MonitorAllMessagesV1" => some .monAllV1
  | "MonitorMailboxMessagesV1" => some .monBoxV1 | "MonitorAllMessagesV2" => some .monAllV2
  | "MonitorMailboxMessagesV2" => some .monBoxV2 | "RootGreeting" => some .greeting | "RootStatus" => some .status
  | _ => none

def handlerName : Handler → String
  | .listV1 => "MailboxListV1" | .purgeV1 => "MailboxPurgeV1" | .showV1 => "MailboxShowV1"
  | .seenV1 => "MailboxMarkSeenV1" | .deleteV1 => "MailboxDeleteV1" | .sourceV1 => "MailboxSourceV1"
  | .wMessage => "MailboxMessage" | .wHtml => "MailboxHTML" | .wSource => "MailboxSource"
  | .wAttach => "MailboxViewAttach" | .monAllV1 => "MonitorAllMessagesV1" | .monBoxV1 => "MonitorMailboxMessagesV1"
  | .monAllV2 => "MonitorAllMessagesV2" | .monBoxV2 => "MonitorMailboxMessagesV2"
  | .greeting => "RootGreeting" | .status => "RootStatus"

def encMeta (m : Msg) : String :=
  s!"{m.id}/{if m.seen then 1 else 0}/{m.source.length}/{Bytes.toHex m.hdr.sender}/" ++
  (if m.hdr.rcpts.isEmpty then "_" else ",".intercalate (m.hdr.rcpts.map Bytes.toHex)) ++
  s!"/{Bytes.toHex m.hdr.subject}/{m.hdr.date}"

def encPayload : Payload → String
  | .none => "-"
  | .okStr => "OK"
  | .listing box l => s!"list:{Bytes.toHex box}:[" ++ "|".intercalate (l.map encMeta) ++ "]"
  | .message box m => s!"msg:{Bytes.toHex box}:{encMeta m}"
  | .source b => s!"src:{Bytes.toHex b}"
  | .html m => s!"html:{m.id}"
  | .attach m n => s!"att:{m.id}:{n}"

def encStatus : Status → String
  | .ok => "200" | .notFound => "404" | .error => "500" | .panic => "panic"

def idTok (s : String) : Option IdArg :=
  if s == "latest" then some .latest
  else if s == "junk" then some .junk
  else if s.startsWith "n" then (s.drop 1).toNat?.map .num
  else none

def bodyTok (s : String) : Option Body :=
  match s with
  | "absent" => some .absent | "true" => some .seenTrue | "false" => some .seenFalse | _ => none

def numTok (s : String) : Option NumArg :=
  if s == "bad" then some .bad else s.toNat?.map .ok

def methodTok (s : String) : Method :=
  match s with
  | "GET" => .get | "DELETE" => .delete | "PATCH" => .patch | _ => .other

def opTok (s : String) : Option ClientOp :=
  match s with
  | "list" => some .list | "get" => some .get | "seen" => some .markSeen | "source" => some .source
  | "delete" => some .delete | "purge" => some .purge | _ => none

def encRoute : RouteRes → String
  | .badRequest => "badreq"
  | .redirect => "redirect"
  | .notFound => "notfound"
  | .hit h vs => s!"hit {handlerName h} " ++ (if vs.isEmpty then "_" else ",".intercalate (vs.map Bytes.toHex))

/-- boxes sorted by hex name, each `hex:[metas]` -/
def dump (s : Store) : String :=
  let names := (boxNames s.msgs).map Bytes.toHex
  let sorted := names.foldl (fun acc x => let (a, b) := acc.span (fun y => y < x); a ++ [x] ++ b) []
  "boxes:" ++ "&".intercalate (sorted.map (fun hx =>
    match Bytes.ofHex hx with
    | some b => hx ++ ":[" ++ "|".intercalate ((listing s b).map encMeta) ++ "]"
    | none => hx))

def callTok (s : String) : Option RestFault.Call :=
  match s with
  | "gms" => some .getMessages | "gm" => some .getMessage | "so" => some .sourceOpen | "sr" => some .sourceRead
  | "ms" => some .markSeen | "rm" => some .removeMessage | "pm" => some .purgeMessages | _ => none

def callName : RestFault.Call → String
  | .getMessages => "gms" | .getMessage => "gm" | .sourceOpen => "so" | .sourceRead => "sr"
  | .markSeen => "ms" | .removeMessage => "rm" | .purgeMessages => "pm"

def outcomeTok (s : String) : Option RestFault.Outcome :=
  match s with
  | "ok" => some .ok | "ne" => some .notExist | "wne" => some .wrapsNotExist | "io" => some .ioErr | _ => none

/-- `gm:io,sr:ne` → the table; `-` = no fault -/
def faultTable (s : String) : Option (List (RestFault.Call × RestFault.Outcome)) :=
  if s == "-" then some []
  else (s.splitOn ",").mapM (fun t =>
    match t.splitOn ":" with
    | [c, o] => match callTok c, outcomeTok o with | some c, some o => some (c, o) | _, _ => none
    | _ => none)

def faultFun (tbl : List (RestFault.Call × RestFault.Outcome)) (c : RestFault.Call) : RestFault.Outcome :=
  match tbl.find? (·.1 == c) with | some (_, o) => o | none => .ok

def step (s : St) (toks : List String) : St × String :=
  let (ps, kv) := splitKV toks
  match ps with
  | ["reset"] =>
    match (kv.get? "naming") >>= namingOf with
    | some n => ({ naming := n, store := Spec.Store.empty }, "ok")
    | none => (s, "bad-op")
  | ["add", b, src] =>
    match Bytes.ofHex b, Bytes.ofHex src, Driver.StoreMode.parseMeta kv with
    | some b, some src, some m =>
      let (st, o, _) := Spec.Store.step { cap := 0, limit := 0 } s.store (.add b m src)
      ({ s with store := st }, match o with | .id i => s!"id:{i}" | _ => "err")
    | _, _, _ => (s, "bad-op")
  | ["req", h, name, id] =>
    match handlerOf h, Bytes.ofHex name, idTok id, (kv.get? "body") >>= bodyTok, (kv.get? "num") >>= numTok,
          (kv.get? "natt") >>= String.toNat?, parseIpTable ((kv.get? "ip").getD "-") with
    | some h, some name, some id, some body, some num, some natt, some tbl =>
      if (ipQueries name).all (fun q => tbl.any (·.1 == q)) then
        let e : Env := { ip := ipFun tbl, naming := s.naming, contract := .strict }
        let (r, st) := handle e h s.store { name := name, id := id, body := body, num := num, natt := natt }
        ({ s with store := st }, s!"{encStatus r.status} {encPayload r.payload}")
      else (s, "oracle-missing")
    | _, _, _, _, _, _, _ => (s, "bad-op")
  | ["freq", h, name, id] =>
    match handlerOf h, Bytes.ofHex name, idTok id, (kv.get? "body") >>= bodyTok, (kv.get? "num") >>= numTok,
          (kv.get? "natt") >>= String.toNat?, parseIpTable ((kv.get? "ip").getD "-"), (kv.get? "f") >>= faultTable,
          (kv.get? "after") >>= String.toNat?, kv.get? "env" with
    | some h, some name, some id, some body, some num, some natt, some tbl, some ft, some after, some env =>
      if env != "ok" && env != "bad" then (s, "bad-op")
      else if (ipQueries name).all (fun q => tbl.any (·.1 == q)) then
        let e : Env := { ip := ipFun tbl, naming := s.naming, contract := .strict }
        let F : RestFault.Faults := { f := faultFun ft, readAfter := after, envelopeOk := env == "ok" }
        let o := RestFault.handleF e F h s.store { name := name, id := id, body := body, num := num, natt := natt }
        ({ s with store := o.store },
          s!"{encStatus o.resp.status} {encPayload o.resp.payload} torn={if o.torn then 1 else 0} calls=" ++
            (if o.calls.isEmpty then "-" else ",".intercalate (o.calls.map callName)))
      else (s, "oracle-missing")
    | _, _, _, _, _, _, _, _, _, _ => (s, "bad-op")
  | ["dump"] => (s, dump s.store)
  | ["route", m, wire] =>
    match Bytes.ofHex wire, (kv.get? "base") >>= hexList with
    | some wire, some base => (s, encRoute (serverRoute base (methodTok m) wire))
    | _, _ => (s, "bad-op")
  | ["client", op, name, id] =>
    match opTok op, Bytes.ofHex name, Bytes.ofHex id, (kv.get? "base") >>= hexList with
    | some op, some name, some id, some base =>
      (s, match clientWire base op.shape name id with
          | some w => s!"wire {Bytes.toHex w}"
          | none => "clienterr")
    | _, _, _, _ => (s, "bad-op")
  | ["reqs", h, name, id] =>
    match handlerOf h, Bytes.ofHex name, Bytes.ofHex id, (kv.get? "body") >>= bodyTok, (kv.get? "num") >>= numTok,
          (kv.get? "natt") >>= String.toNat?, parseIpTable ((kv.get? "ip").getD "-"), (kv.get? "strs") >>= hexList with
    | some h, some name, some id, some body, some num, some natt, some tbl, some strs =>
      if (ipQueries name).all (fun q => tbl.any (·.1 == q)) then
        let e : Env := { ip := ipFun tbl, naming := s.naming, contract := .strict }
        let lk : RestIds.Lookup := if kv.get? "lk" == some "d" then .byDecimalValue else .byString
        let str : Nat → Bytes := fun n => if n = 0 then [] else (strs[n - 1]?).getD []
        let (r, st) := RestIds.handleS e lk str h s.store { name := name, id := id, body := body, num := num, natt := natt }
        ({ s with store := st }, s!"{encStatus r.status} {encPayload r.payload}")
      else (s, "oracle-missing")
    | _, _, _, _, _, _, _, _ => (s, "bad-op")
  | ["clientv", v, op, name, id] =>
    match opTok op, Bytes.ofHex name, Bytes.ofHex id, (kv.get? "base") >>= hexList with
    | some op, some name, some id, some base =>
      let v : ClientJoin.NameEsc := if v == "j" then .pathJoinRaw else .queryEscape
      (s, s!"wire {Bytes.toHex (ClientJoin.clientWireV v base op.shape name id)}")
    | _, _, _, _ => (s, "bad-op")
  | ["routev", v, op, name, id] =>
    match opTok op, Bytes.ofHex name, Bytes.ofHex id, (kv.get? "base") >>= hexList with
    | some op, some name, some id, some base =>
      let v : ClientJoin.NameEsc := if v == "j" then .pathJoinRaw else .queryEscape
      (s, encRoute (ClientJoin.clientRouteV v base op name id))
    | _, _, _, _ => (s, "bad-op")
  | ["qesc", b] =>
    match Bytes.ofHex b with | some b => (s, Bytes.toHex (queryEscape b)) | none => (s, "bad-op")
  | ["pesc", b] =>
    match Bytes.ofHex b with | some b => (s, Bytes.toHex (pathEscape b)) | none => (s, "bad-op")
  | _ => (s, "bad-op")

end Driver.RestMode
