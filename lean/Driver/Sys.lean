import Driver.Proto
import Driver.Pure
import Driver.Store
import Driver.Smtp
import Driver.Pop3
import Driver.Rest
import Driver.Retention
import Ibx.Model.Sys
/-
  mode "sys": the L2 composition Ibx.Model.Sys (one abstract store + the event log, every component model around it),
  one system operation per line.  The per-component line formats and canonical answers are those of the component
  modes (Driver/Smtp.lean `run`, Driver/Pop3.lean replies, Driver/Rest.lean `req`, Driver/Retention.lean `scan` and
  store operations).

    cfg naming=<local|full|domain> cap=N limit=N maxbytes=N        fresh system (empty store, empty log)          -> ok
    smtp <the key=value fields of mode "smtp" `run`> clock=<int,…>  one whole SMTP connection; `clock` = the dates of
                                                                    the stored copies in order (missing entries: 0)
                                                                    -> <reply / S<box> / F tokens> end= st= hooks= n=<#copies>
    pop3 term=<eof|readerr> lines=<hex,…> [nosend=<k>]              one whole POP3 session (line k's reply cannot be written)
                                                                    -> n=<#replies> end= ph= u=<hex> rm=<hexlist> R <reply> R <reply> …
    rest <RouteName> <name> <n<k>|latest|junk> body= num= natt= ip= one REST / web request                           -> <status> <payload>
    scan cutoff=<int>                                               one retention scan                              -> ev=<box/id,…>
    store <add|rm|seen|get|purge|list|visit …>                      a direct store call (mode "ret" syntax)         -> <outcome>
    dump                                                            -> boxes:<all mailboxes, sorted by name, StoreMode encoding>
    log [from=<k>]                                                  -> n=<length of the log> ev=<s:box/id | d:box/id ,…> (entries k, k+1, …)

  Message ids are the per-mailbox delivery counters of Spec.Store, printed in decimal (POP3 UIDL, REST ids `n<k>`).
-/
namespace Driver.SysMode
open Ibx Ibx.Spec.Store Ibx.Model Ibx.Model.Sys Driver

structure St where
  scfg : Spec.Store.Cfg
  naming : Addr.Naming
  maxBytes : Int
  sys : Model.Sys.State

def init : St := { scfg := { cap := 0, limit := 0 }, naming := .localN, maxBytes := 0, sys := Model.Sys.init }

def decStr (n : Nat) : Bytes := Bytes.ofString (toString n)

/-- canonical decimal only: non-empty, digits, no leading zero (the id "0" is never handed out either) -/
def decOf (b : Bytes) : Option Nat :=
  match b with
  | [] => none
  | c :: _ =>
    if c == 48 then none
    else b.foldl (fun acc d => acc.bind (fun v => if 48 ≤ d ∧ d ≤ 57 then some (v * 10 + (d - 48)) else none)) (some 0)

def ids : Ids := { str := decStr, dec := decOf }

def cfgOf (s : St) (ip : Bytes → Bool) : Model.Sys.Cfg :=
  { store := s.scfg, naming := s.naming, ip := ip, maxBytes := s.maxBytes, contract := .strict, ids := ids }

def intList (t : String) : Option (List Int) :=
  if t == "-" || t == "" then some [] else (t.splitOn ",").mapM String.toInt?

def clockOf (l : List Int) : Nat → Int := fun k => l.getD k 0

def encSysEv : SysEv → String
  | .stored b i => s!"s:{Bytes.toHex b}/{i}"
  | .deleted b i => s!"d:{Bytes.toHex b}/{i}"

def sessionAnswer (t : Pop3.Trace) : String :=
  s!"n={t.replies.length} end={Driver.Pop3.endS t.ending} ph={Driver.Pop3.phaseS t.final.phase} u={Bytes.toHex t.final.user} " ++
  s!"rm={Driver.Pop3.hexL t.removed}" ++ String.join (t.replies.map (fun r => " R " ++ Driver.Pop3.renderReply r))

def step (s : St) (toks : List String) : St × String :=
  let (ps, kv) := splitKV toks
  match ps with
  | ["cfg"] =>
    match (kv.get? "naming") >>= namingOf, (kv.get? "cap") >>= String.toNat?, (kv.get? "limit") >>= String.toNat?,
          (kv.get? "maxbytes") >>= String.toInt? with
    | some n, some c, some l, some mb =>
      ({ scfg := { cap := c, limit := l }, naming := n, maxBytes := mb, sys := Model.Sys.init }, "ok")
    | _, _, _, _ => (s, "bad-op")
  | ["smtp"] =>
    match SmtpMode.mkEnv kv, (kv.get? "inp") >>= Bytes.ofHex, intList ((kv.get? "clock").getD "-") with
    | some e, some inp, some clk =>
      match SmtpMode.coverage kv inp with
      | some m => (s, m)
      | none =>
        let budget := (kv.get? "budget") >>= String.toNat?
        let k := cfgOf s e.ip
        let (evs, ss, en) := Smtp.run (smtpEnv k e) budget inp
        let sys' := Model.Sys.step k s.sys (.smtp e budget (clockOf clk) inp)
        ({ s with sys := sys' },
         " ".intercalate (evs.map SmtpMode.showEv) ++
           s!" end={SmtpMode.showEnd en} st={SmtpMode.showSt ss.st} hooks={SmtpMode.hookTexts evs} n={(copies evs).length}")
    | _, _, _ => (s, "bad-op")
  | ["pop3"] =>
    let term? : Option Pop3.Term := match kv.get? "term" with
      | some "eof" => some .eof | some "readerr" => some .readError | _ => none
    match term?, (kv.get? "lines") >>= hexList with
    | some term, some ls =>
      let nosend := (kv.get? "nosend") >>= String.toNat?
      let lines := ls.zipIdx.map (fun (l, i) => (l, decide (some i ≠ nosend)))
      let k := cfgOf s (fun _ => false)
      let t := popTrace k s.sys.store term lines
      ({ s with sys := Model.Sys.step k s.sys (.pop3 term lines) }, sessionAnswer t)
    | _, _ => (s, "bad-op")
  | ["rest", h, name, id] =>
    match RestMode.handlerOf h, Bytes.ofHex name, RestMode.idTok id, (kv.get? "body") >>= RestMode.bodyTok,
          (kv.get? "num") >>= RestMode.numTok, (kv.get? "natt") >>= String.toNat?, parseIpTable ((kv.get? "ip").getD "-") with
    | some h, some name, some id, some body, some num, some natt, some tbl =>
      if (ipQueries name).all (fun q => tbl.any (·.1 == q)) then
        let k := cfgOf s (ipFun tbl)
        let rq : Rest.Req := { name := name, id := id, body := body, num := num, natt := natt }
        let r := (Rest.handle (restEnv k) h s.sys.store rq).1
        ({ s with sys := Model.Sys.step k s.sys (.rest h rq) },
         s!"{RestMode.encStatus r.status} {RestMode.encPayload r.payload}")
      else (s, "oracle-missing")
    | _, _, _, _, _, _, _ => (s, "bad-op")
  | ["scan"] =>
    match (kv.get? "cutoff") >>= String.toInt? with
    | some c =>
      let k := cfgOf s (fun _ => false)
      let r := Retention.doScan k.store c s.sys.store
      ({ s with sys := Model.Sys.step k s.sys (.scan c) }, s!"ev={RetMode.encEv r.2}")
    | none => (s, "bad-op")
  | "store" :: rest =>
    match RetMode.parseOp rest kv with
    | some op =>
      let k := cfgOf s (fun _ => false)
      let r := Spec.Store.step k.store s.sys.store op
      ({ s with sys := Model.Sys.step k s.sys (.store op) }, RetMode.encOutcome r.2.1)
    | none => (s, "bad-op")
  | ["dump"] => (s, RetMode.encOutcome (Spec.Store.step s.scfg s.sys.store .visit).2.1)
  | ["log"] =>
    let from_ := ((kv.get? "from") >>= String.toNat?).getD 0
    (s, s!"n={s.sys.log.length} ev=" ++ ",".intercalate ((s.sys.log.drop from_).map encSysEv))
  | _ => (s, "bad-op")

end Driver.SysMode
