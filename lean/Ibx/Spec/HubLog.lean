/-
  Spec.HubLog — what a monitor attached to the message hub must see (property C15).

  The hub's queue is a list of operations in FIFO order.  A listener attached at queue position t
  (the `add` operation is the t-th) must receive

      history_t  ++  (every later stored / deleted event passing its filter)

  where history_t = those of the last N dispatched messages before t for which no Delete with their
  (mailbox, id) was queued after them, oldest first.  A deleted message still occupies its slot of the
  window of N (the ring cell is cleared, not reclaimed).
-/
namespace Ibx.Spec.HubLog

/-- event.MessageMetadata as far as the hub looks at it: the key (mailbox, id); `tag` stands for the rest
    of the metadata (from, subject, size …) so that two messages with the same key can still differ -/
structure Msg where
  mailbox : Nat
  id : Nat
  tag : Nat
deriving DecidableEq, Repr

/-- what a listener is told: Receive(msg) or Delete(mailbox, id) -/
inductive Ev where
  | stored (m : Msg)
  | deleted (mailbox id : Nat)
deriving DecidableEq, Repr

/-- the operations queued on the hub actor (Sync is the identity and is left out) -/
inductive Op where
  | dispatch (m : Msg)
  | delete (mailbox id : Nat)
  | add (l : Nat)
  | remove (l : Nat)
deriving DecidableEq, Repr

/-- the event an operation broadcasts, if any -/
def Op.ev : Op → Option Ev
  | .dispatch m => some (.stored m)
  | .delete mb id => some (.deleted mb id)
  | _ => none

def events (ops : List Op) : List Ev := ops.filterMap Op.ev

/-- the last n elements -/
def lastN (n : Nat) (l : List α) : List α := l.drop (l.length - n)

/-- every dispatched message, in order, paired with the operations queued after it -/
def entries : List Op → List (Msg × List Op)
  | [] => []
  | .dispatch m :: rest => (m, rest) :: entries rest
  | _ :: rest => entries rest

/-- `op` is a Delete of m's key -/
def deletes (m : Msg) : Op → Bool
  | .delete mb id => decide (m.mailbox = mb ∧ m.id = id)
  | _ => false

/-- the retained history after `ops`: the last N dispatched, minus those deleted since, oldest first -/
def history (N : Nat) (ops : List Op) : List Msg :=
  ((lastN N (entries ops)).filter (fun e => !(e.2.any (deletes e.1)))).map (·.1)

/-- the store never issues the same (mailbox, id) twice -/
def UniqueKeys (ops : List Op) : Prop :=
  ((entries ops).map (fun e => (e.1.mailbox, e.1.id))).Nodup

instance (ops : List Op) : Decidable (UniqueKeys ops) := by unfold UniqueKeys; infer_instance

/-- what a listener with filter `accepts`, attached after `pre`, has received once `post` was processed -/
def expected (N : Nat) (pre post : List Op) (accepts : Ev → Bool) : List Ev :=
  ((history N pre).map Ev.stored ++ events post).filter accepts

end Ibx.Spec.HubLog
