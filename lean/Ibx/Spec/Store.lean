import Ibx.Bytes
/-
  Spec.Store — the abstract ordered-mailbox model both storage back-ends are proved to refine.
  One global list of live messages in ARRIVAL order; a mailbox is the sub-list with that name
  (so listing is oldest-first by construction, and "oldest in the whole store" is the head).
  Ids are per-mailbox counters that only grow (unique, never reused).
-/
namespace Ibx.Spec.Store
open Ibx

structure Meta where
  sender : Bytes
  rcpts : List Bytes
  subject : Bytes
  date : Int
  deriving DecidableEq, Repr, Inhabited

structure Msg where
  box : Bytes
  id : Nat
  hdr : Meta
  seen : Bool
  source : Bytes
  deriving DecidableEq, Repr, Inhabited

def Msg.size (m : Msg) : Nat := m.source.length

structure Store where
  msgs : List Msg
  next : Bytes → Nat          -- next id of a mailbox is `next b + 1`; 0 for a never-used mailbox

def empty : Store := { msgs := [], next := fun _ => 0 }

/-- configuration: per-mailbox cap and total byte limit; 0 disables either -/
structure Cfg where
  cap : Nat
  limit : Nat
  deriving Repr

inductive Op
  | add (b : Bytes) (hdr : Meta) (src : Bytes)
  | get (b : Bytes) (i : Nat)
  | latest (b : Bytes)
  | list (b : Bytes)
  | seen (b : Bytes) (i : Nat)
  | remove (b : Bytes) (i : Nat)
  | purge (b : Bytes)
  | visit
  deriving Repr

inductive Out
  | id (i : Nat)
  | msg (m : Msg)
  | msgs (l : List Msg)
  | boxes (l : List (List Msg))
  | ok
  | notExist
  deriving DecidableEq, Repr

/-- a `deleted` event -/
abbrev Ev := Bytes × Nat

def inBox (b : Bytes) (m : Msg) : Bool := m.box == b
def isMsg (b : Bytes) (i : Nat) (m : Msg) : Bool := m.box == b && m.id == i

def listing (s : Store) (b : Bytes) : List Msg := s.msgs.filter (inBox b)
def total (l : List Msg) : Nat := (l.map Msg.size).sum

/-- remove the first `k` messages of mailbox `b` (oldest first); returns (remaining, removed) -/
def dropOldest (b : Bytes) : Nat → List Msg → List Msg × List Msg
  | 0, l => (l, [])
  | _, [] => ([], [])
  | k + 1, m :: l =>
    if inBox b m then
      let (r, d) := dropOldest b k l
      (r, m :: d)
    else
      let (r, d) := dropOldest b (k + 1) l
      (m :: r, d)

/-- mailbox cap: evict the oldest messages of `b` while it holds more than `cap` -/
def capEvict (cap : Nat) (b : Bytes) (l : List Msg) : List Msg × List Msg :=
  let n := (l.filter (inBox b)).length
  if cap > 0 ∧ n > cap then dropOldest b (n - cap) l else (l, [])

/-- store byte limit: evict the globally oldest messages while the total exceeds `limit`
    (the shortest prefix of arrival order whose removal restores the bound) -/
def limitEvict (limit : Nat) : List Msg → List Msg × List Msg
  | [] => ([], [])
  | m :: l =>
    if limit > 0 ∧ total (m :: l) > limit then
      let (r, d) := limitEvict limit l
      (r, m :: d)
    else (m :: l, [])

def evOf (m : Msg) : Ev := (m.box, m.id)

/-- names of the non-empty mailboxes in order of their oldest live message -/
def boxNames (l : List Msg) : List Bytes := (l.map (·.box)).eraseDups

def step (c : Cfg) (s : Store) : Op → Store × Out × List Ev
  | .add b hdr src =>
    let i := s.next b + 1
    let m : Msg := { box := b, id := i, hdr := hdr, seen := false, source := src }
    let (l1, d1) := capEvict c.cap b (s.msgs ++ [m])
    let (l2, d2) := limitEvict c.limit l1
    ({ msgs := l2, next := fun x => if x == b then i else s.next x }, .id i, (d1 ++ d2).map evOf)
  | .get b i =>
    match s.msgs.find? (isMsg b i) with
    | some m => (s, .msg m, [])
    | none => (s, .notExist, [])
  | .latest b =>
    match (listing s b).getLast? with
    | some m => (s, .msg m, [])
    | none => (s, .notExist, [])
  | .list b => (s, .msgs (listing s b), [])
  | .seen b i =>
    if s.msgs.any (isMsg b i) then
      ({ s with msgs := s.msgs.map (fun m => if isMsg b i m then { m with seen := true } else m) }, .ok, [])
    else (s, .notExist, [])
  | .remove b i =>
    if s.msgs.any (isMsg b i) then
      ({ s with msgs := s.msgs.filter (fun m => !isMsg b i m) }, .ok, [(b, i)])
    else (s, .notExist, [])
  | .purge b =>
    ({ s with msgs := s.msgs.filter (fun m => !inBox b m) }, .ok, (listing s b).map evOf)
  | .visit => (s, .boxes ((boxNames s.msgs).map (listing s)), [])

/-- `VisitMailboxes` with a visitor that says "stop" (returns `false`) at the `k`-th non-empty mailbox it is shown (`k ≥ 1`): the mailboxes it gets to
    see are the first `k` of the walk and nothing after them. -/
def visitUntil (s : Store) (k : Nat) : List (List Msg) := ((boxNames s.msgs).map (listing s)).take k

/-- run a history; collects outputs and events per operation -/
def run (c : Cfg) : Store → List Op → Store × List (Out × List Ev)
  | s, [] => (s, [])
  | s, op :: ops =>
    let (s1, o, e) := step c s op
    let (s2, r) := run c s1 ops
    (s2, (o, e) :: r)

end Ibx.Spec.Store
