import Ibx.Model.MailArgs
/-
  What the two regular expressions of MAIL parsing mean, as languages (no algorithm):

    fromRegex   (?i)^FROM:\s*<((?:(?:\\>|[^>])+|"[^"]+"@[^>])+)?>( ([\w= ]|=<>)+)?$
    parseArgs    (\w+)=(\w+|<>)

  `Ibx.Model.MailArgs` is the executable recogniser; `Ibx.Props.C06Args` proves that it returns exactly the decomposition
  described here with the longest address (`MailMatch`), resp. the left-to-right non-overlapping pairs (`ArgsDecomp`).
-/
namespace Ibx.Spec.MailArgs
open Ibx Ibx.Bytes Ibx.Model.MailArgs

/-- `(?i)FROM:` — the five bytes, letters in either case -/
def IsFrom (pre : Bytes) : Prop := lower pre = ofAscii "from:"

/-- `\s*` -/
def AllWs (ws : Bytes) : Prop := ∀ c ∈ ws, isWs c = true

/-- group 1, `((?:\\>|[^>])+|"[^"]+"@[^>])*`: a sequence of quoted pairs `\>`, bytes other than '>', and quoted strings
    `"q"@x` (q not empty and without '"' — it MAY contain '>' —, x other than '>') -/
inductive AddrToks : Bytes → Prop
  | nil : AddrToks []
  | esc {g : Bytes} : AddrToks g → AddrToks (92 :: 62 :: g)
  | plain {c : Nat} {g : Bytes} : c ≠ 62 → AddrToks g → AddrToks (c :: g)
  | quoted {q : Bytes} {x : Nat} {g : Bytes} : q ≠ [] → 34 ∉ q → x ≠ 62 → AddrToks g →
      AddrToks (34 :: (q ++ 34 :: 64 :: x :: g))

/-- `([\w= ]|=<>)*` under `(?i)`: word bytes, '=', ' ', the token `=<>`, and the two non-ASCII runes `(?i)\w` matches:
    U+017F (C5 BF) and U+212A (E2 84 AA) -/
inductive ParamToks : Bytes → Prop
  | nil : ParamToks []
  | one {c : Nat} {t : Bytes} : isParam1 c = true → ParamToks t → ParamToks (c :: t)
  | angle {t : Bytes} : ParamToks t → ParamToks (61 :: 60 :: 62 :: t)
  | longS {t : Bytes} : ParamToks t → ParamToks (197 :: 191 :: t)
  | kelvin {t : Bytes} : ParamToks t → ParamToks (226 :: 132 :: 170 :: t)

/-- group 2, `( ([\w= ]|=<>)+)?`: nothing, or a space followed by at least one token -/
def ParamTail (t : Bytes) : Prop := t = [] ∨ ∃ t', t = 32 :: t' ∧ t' ≠ [] ∧ ParamToks t'

/-- `body` (the text behind `FROM:\s*<`) splits into group 1, the closing '>' and group 2 -/
def Valid (body g t : Bytes) : Prop := body = g ++ 62 :: t ∧ AddrToks g ∧ ParamTail t

/-- a way to read `arg` as `FROM:` white space `<` address `>` parameters -/
def Decomp (arg addr params : Bytes) : Prop :=
  ∃ pre ws, arg = pre ++ ws ++ 60 :: (addr ++ 62 :: params) ∧ IsFrom pre ∧ AllWs ws ∧ AddrToks addr ∧ ParamTail params

/-- the submatches the engine reports: a decomposition, and among the decompositions the one with the longest address
    (there can be two: `FROM:<a\> X=<>` is `a\` + ` X=<>` and `a\> X=<` + nothing; leftmost-first prefers `\>`) -/
def MailMatch (arg addr params : Bytes) : Prop :=
  Decomp arg addr params ∧ ∀ addr' params', Decomp arg addr' params' → addr'.length ≤ addr.length

/-- a non-empty run of `\w` bytes -/
def Word1 (w : Bytes) : Prop := w ≠ [] ∧ ∀ c ∈ w, isWord c = true

/-- the text does not begin with a word byte -/
def NoWordAhead (rest : Bytes) : Prop := ∀ c, rest.head? = some c → isWord c = false

/-- a pair occurs at the beginning of `l`: ` key=value…` -/
def PairAt (l : Bytes) : Prop :=
  ∃ k v rest, l = 32 :: (k ++ 61 :: (v ++ rest)) ∧ Word1 k ∧ (Word1 v ∨ v = [60, 62])

/-- a pair occurs somewhere in `l` -/
def PairIn (l : Bytes) : Prop := ∃ pre post, l = pre ++ post ∧ PairAt post

/-- FindAllStringSubmatch: `l` is gap, pair, gap, pair, …, gap — no pair begins inside a gap, a `\w+` value is the whole
    run of word bytes -/
inductive ArgsDecomp : Bytes → List (Bytes × Bytes) → Prop
  | done {g : Bytes} : ¬ PairIn g → ArgsDecomp g []
  | pair {g k v rest : Bytes} {ps : List (Bytes × Bytes)} : ¬ PairIn g → Word1 k →
      ((Word1 v ∧ NoWordAhead rest) ∨ v = [60, 62]) → ArgsDecomp rest ps →
      ArgsDecomp (g ++ 32 :: (k ++ 61 :: (v ++ rest))) ((k, v) :: ps)

end Ibx.Spec.MailArgs
