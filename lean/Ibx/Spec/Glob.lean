/-
  Spec.Glob: the textbook recursive semantics of `*` (any run, possibly empty) and `?` (exactly one).
-/
namespace Ibx.Spec

def star : Nat := 42   -- '*'
def qm   : Nat := 63   -- '?'

/-- `glob p s`: does pattern `p` match the whole of `s`? -/
def glob : List Nat → List Nat → Bool
  | [], [] => true
  | [], _ :: _ => false
  | c :: p, [] => c == star && glob p []
  | c :: p, x :: s =>
    if c == star then glob p (x :: s) || glob (c :: p) s
    else (c == qm || c == x) && glob p s
termination_by p s => p.length + s.length

end Ibx.Spec
