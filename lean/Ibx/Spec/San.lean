import Ibx.Model.TextHtml
/-
  Specification vocabulary for C18 (text side): what "fully escaped", "only the server's own anchors and
  line breaks" and "text content" mean.  Short and readable; nothing here is executed by the driver.
-/
namespace Ibx.Spec.San
open Ibx Ibx.Model.TextHtml

/-- the five entity bodies (after the `&`) html.EscapeString can produce: amp; #39; lt; gt; #34; -/
def entTails : List Bytes :=
  [[97, 109, 112, 59], [35, 51, 57, 59], [108, 116, 59], [103, 116, 59], [35, 51, 52, 59]]

/-- every `&` is the first byte of one of the five entities -/
def ampOK : Bytes → Bool
  | [] => true
  | c :: r => (c != 38 || entTails.any (·.isPrefixOf r)) && ampOK r

/-- a byte that can open / close a tag or an attribute value: `<` `>` `"` `'` -/
def isMarkup (c : Nat) : Bool := c == 60 || c == 62 || c == 34 || c == 39

/-- the pieces of TextToHTML's result: stretches of escaped text, and matched URLs -/
inductive Seg
  | text (b : Bytes)
  | link (u : Bytes)

/-- the bytes of the escaped text a piece stands for -/
def Seg.raw : Seg → Bytes
  | .text b => b
  | .link u => u

/-- what is written for a piece: text with the newline rule applied; of a match `m` the part `u` before a
    trailing unterminated entity goes inside the server's anchor when its scheme is linkable (else unchanged),
    followed by the rest of the match -/
def Seg.render : Seg → Bytes
  | .text b => nl b
  | .link m =>
    let u := (cutMatch m).1
    (if linkable u then aOpen ++ unamp u ++ aMid ++ u ++ aClose else u) ++ (cutMatch m).2

/-- an href the server may write: read up to the first of `: / ? # &` — either none of them occurs, or it is
    `/ ? #` (no scheme: a relative reference), or it is `:` and the text before it lower-cases to one of
    ftp http https mailto.  (`&` first is refused: an entity there could decode to anything in a browser.) -/
def HrefSafe (h : Bytes) : Prop :=
  (cutDelim h).2 = none ∨ (cutDelim h).2 = some 47 ∨ (cutDelim h).2 = some 63 ∨ (cutDelim h).2 = some 35 ∨
  ((cutDelim h).2 = some 58 ∧ ∃ l, Ibx.Model.GoLower.lowerAscii? (cutDelim h).1 = some l ∧ l ∈ schemes)

/-- cutting the escaped text `e` (which starts at offset `pos`) at the spans -/
def segsOf (e : Bytes) (pos : Nat) : List (Nat × Nat) → List Seg
  | [] => [.text e]
  | (s, t) :: more =>
    .text (e.take (s - pos)) :: .link ((e.drop (s - pos)).take (t - s)) :: segsOf (e.drop (t - pos)) t more

/-- well-formed oracle field: spans ascending, non-empty, inside the text, and no CR / LF inside a match
    (urlRE's atoms `[^\s…]`, `\w`, `[a-z0-9…]` match neither; the harness re-checks it on every case) -/
def SpansWF (e : Bytes) (spans : List (Nat × Nat)) : Prop :=
  spansOK e.length 0 spans = true ∧
  ∀ u, Seg.link u ∈ segsOf e 0 spans → ∀ c ∈ u, c ≠ 10 ∧ c ≠ 13

/-- remove tags: everything from a `<` up to and including the next `>` (Bool: inside a tag) -/
def stripTags : Bool → Bytes → Bytes
  | _, [] => []
  | false, c :: r => if c = 60 then stripTags true r else c :: stripTags false r
  | true, c :: r => if c = 62 then stripTags false r else stripTags true r

/-- CRLF, CR, LF -> LF (what remains of the newline rule once the `<br/>` tags are removed) -/
def normNL : Bytes → Bytes
  | 13 :: 10 :: r => 10 :: normNL r
  | 13 :: r => 10 :: normNL r
  | c :: r => c :: normNL r
  | [] => []

end Ibx.Spec.San
