import Ibx.Bytes
/-
  Textbook specification of dot-stuffed transfer (RFC 5321 §4.5.2 for SMTP DATA, RFC 1939 §3 for POP3
  multi-line responses), written over LINES so that it is obviously right:

    wire text  =  line₁ LF line₂ LF … lineₙ LF            (lines never contain LF; a CR before the LF belongs to the line)
    decoded    =  per line: drop one leading '.', drop one trailing CR; re-join with LF
    terminator =  the first line that is exactly "." or ".\r"

  Nothing here is executable on large inputs (plain structural recursion, not tail recursive); the executable
  models live in Ibx/Model/{Dot,Pop3Send}.lean and are proved equal to these definitions in Ibx/Props/C02.lean.
-/
namespace Ibx.Spec.Unstuff
open Ibx

/-- complete lines re-joined: every line followed by LF -/
def joinLF (ls : List Bytes) : Bytes := (ls.map (· ++ [10])).flatten

/-- complete lines re-joined: every line followed by CR LF -/
def joinCRLF (ls : List Bytes) : Bytes := (ls.map (· ++ [13, 10])).flatten

/-- split at LF: `(the complete lines without their LF, the unterminated remainder)` -/
def splitLines : Bytes → List Bytes × Bytes
  | [] => ([], [])
  | c :: rest =>
    if c = 10 then ([] :: (splitLines rest).1, (splitLines rest).2)
    else match splitLines rest with
      | ([], tail) => ([], c :: tail)
      | (l :: ls, tail) => ((c :: l) :: ls, tail)

/-- drop ONE trailing CR -/
def dropCR : Bytes → Bytes
  | [] => []
  | [c] => if c = 13 then [] else [c]
  | c :: d :: rest => c :: dropCR (d :: rest)

/-- drop ONE leading '.' -/
def dropDot : Bytes → Bytes
  | 46 :: rest => rest
  | l => l

def unstuffLine (l : Bytes) : Bytes := dropCR (dropDot l)

/-- the end-of-data line: "." (the LF has been split off), with or without the CR -/
def isTermLine (l : Bytes) : Bool := l == [46] || l == [46, 13]

/-- the decoded text of a wire text that consists of complete lines -/
def unstuffSpec (w : Bytes) : Bytes := joinLF ((splitLines w).1.map unstuffLine)

/-- `w` is a sequence of complete lines (it is empty or ends with LF) none of which is the end-of-data line -/
def terminated (w : Bytes) : Prop :=
  (splitLines w).2 = [] ∧ ∀ l ∈ (splitLines w).1, isTermLine l = false

/-! ### what a client transmits -/

/-- RFC 5321 §4.5.2: a line that starts with '.' gets one more -/
def stuff : Bytes → Bytes
  | 46 :: rest => 46 :: 46 :: rest
  | l => l

/-- a client whose message is a list of lines: every line dot-stuffed and followed by CRLF, then ".CRLF" -/
def dataEncodeLines (ls : List Bytes) : Bytes :=
  (ls.map (fun l => stuff l ++ [13, 10])).flatten ++ [46, 13, 10]

/-- the lines of a text in local form: split at LF, ONE CR before the LF is part of the line ending,
    a non-empty unterminated last line counts as a line (this is also what `bufio.ScanLines` yields) -/
def bodyLines (body : Bytes) : List Bytes :=
  (splitLines body).1.map dropCR ++ (if (splitLines body).2 = [] then [] else [dropCR (splitLines body).2])

/-- a client whose message is a byte string in local form: LF and CRLF both end a line and are transmitted as
    CRLF; a missing final newline is supplied.  (Go's `textproto.DotWriter` does the same except that it sends one
    empty line for the empty body and CR CR CR LF for CR CR LF; the harness runs it as a second client.) -/
def dataEncode (body : Bytes) : Bytes := dataEncodeLines (bodyLines body)

/-- line-ending normalisation to LF: CRLF → LF, a missing final newline is supplied; nothing else changes -/
def lfNorm (body : Bytes) : Bytes := joinLF (bodyLines body)

/-- line-ending normalisation to CRLF: LF and CRLF → CRLF, a missing final newline is supplied -/
def crlfNorm (src : Bytes) : Bytes := joinCRLF (bodyLines src)

/-! ### the standard library's deviation, stated over lines

  `net/textproto`'s dot reader leaves its "beginning of line" state when it reads a bare LF there (an empty line
  ended by LF alone): the NEXT line is then taken literally — its leading dot is kept and it is not recognised
  as the end-of-data line.  `sh` ("shadowed") says whether the previous line was such a bare LF. -/

inductive Out
  | done (decoded : Bytes) (remaining : List Bytes)   -- end-of-data line found; the lines after it are untouched
  | cont (decoded : Bytes) (sh : Bool)                -- all lines consumed, no end-of-data line yet
  deriving DecidableEq, Repr

def Out.prepend (p : Bytes) : Out → Out
  | .done d r => .done (p ++ d) r
  | .cont d sh => .cont (p ++ d) sh

/-- what the standard library's machine computes, line by line -/
def runLines : Bool → List Bytes → Out
  | sh, [] => .cont [] sh
  | false, l :: ls =>
    if isTermLine l then .done [] ls
    else (runLines (l == []) ls).prepend (unstuffLine l ++ [10])
  | true, l :: ls => (runLines false ls).prepend (dropCR l ++ [10])

/-- the exact guard under which the machine equals the textbook rule on lines `ls` followed by the end-of-data
    line: no shadowed line starts with '.', and the end-of-data line itself is not shadowed -/
def quirkFree : Bool → List Bytes → Bool
  | sh, [] => !sh
  | false, l :: ls => quirkFree (l == []) ls
  | true, l :: ls => l.head? != some 46 && quirkFree false ls

end Ibx.Spec.Unstuff
