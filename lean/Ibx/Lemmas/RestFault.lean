import Ibx.Model.RestFault
import Ibx.Props.C14
/-
  Lemmas for Props/C14Fault: the store contract "missing ⇒ ErrNotExist" as an iff; the two fetching methods of
  message.StoreManager under a fault oracle as CASE LISTS (`GetCase`, `ReaderCase`: one constructor per way through the
  Go function, carrying what the oracle said at each call made and the calls made); the flag lemmas of MarkSeen / Remove.
-/
namespace Ibx.Lemmas.RestFault
open Ibx Ibx.Bytes Ibx.Spec.Store Ibx.Model.Addr Ibx.Model.Rest Ibx.Model.RestFault
open Ibx.Model.ClientUrl (Handler)
open Ibx.Props.C14 (Missing)

theorem isNotExist_iff (x : ErrV) : x.isNotExist = true ↔ x = .notExist := by cases x <;> simp [ErrV.isNotExist]

theorem errOf_notExist_iff (o : Outcome) (ho : o ≠ .ok) : errOf o = .notExist ↔ o = .notExist := by
  cases o <;> simp [errOf] at ho ⊢

theorem envelopeReadErr_ne (o : Outcome) : envelopeReadErr o ≠ .notExist := by cases o <;> simp [envelopeReadErr]

theorem find_none_of_any_false (l : List Msg) (p : Msg → Bool) (h : l.any p = false) : l.find? p = none := by
  induction l with
  | nil => rfl
  | cons m rest ih =>
    simp only [List.any_cons, Bool.or_eq_false_iff] at h
    simp [h.1, ih h.2]

theorem any_false_of_find_none (l : List Msg) (p : Msg → Bool) (h : l.find? p = none) : l.any p = false := by
  induction l with
  | nil => rfl
  | cons m rest ih =>
    simp only [List.find?_cons] at h
    split at h
    · simp at h
    · rename_i hp
      simp [hp, ih h]

/-- under the contract "missing ⇒ ErrNotExist" the store answers ErrNotExist exactly for a missing message -/
theorem mgrGet_strict_notExist_iff (s : Store) (box : Bytes) (id : IdArg) :
    mgrGet .strict s box id = .notExist ↔ Missing s box id := by
  cases id with
  | num n =>
    simp only [mgrGet, Missing]
    constructor
    · intro h
      cases hf : s.msgs.find? (isMsg box n) with
      | none => exact any_false_of_find_none _ _ hf
      | some m => simp [hf] at h
    · intro h; simp [find_none_of_any_false _ _ h, miss]
  | latest =>
    simp only [mgrGet, Missing]
    cases hl : listing s box with
    | nil => simp [miss]
    | cons a l =>
      have : (a :: l).getLast? = some ((a :: l).getLast (by simp)) := List.getLast?_eq_some_getLast (by simp)
      simp [this]
  | junk => simp [mgrGet, miss, Missing]

/-- … and otherwise a message -/
theorem mgrGet_strict_cases (s : Store) (box : Bytes) (id : IdArg) :
    (mgrGet .strict s box id = .notExist ∧ Missing s box id) ∨ (∃ m, mgrGet .strict s box id = .found m ∧ ¬ Missing s box id) := by
  by_cases hm : Missing s box id
  · exact Or.inl ⟨(mgrGet_strict_notExist_iff s box id).mpr hm, hm⟩
  · right
    have hne : mgrGet .strict s box id ≠ .notExist := fun h => hm ((mgrGet_strict_notExist_iff s box id).mp h)
    cases id with
    | num n =>
      simp only [mgrGet] at hne ⊢
      cases hf : s.msgs.find? (isMsg box n) with
      | none => simp [hf, miss] at hne
      | some m => exact ⟨m, rfl, hm⟩
    | latest =>
      simp only [mgrGet] at hne ⊢
      cases hf : (listing s box).getLast? with
      | none => simp [hf, miss] at hne
      | some m => exact ⟨m, rfl, hm⟩
    | junk => simp [mgrGet, miss] at hne

theorem mgrGet_strict_ne_nilNil (s : Store) (box : Bytes) (id : IdArg) : mgrGet .strict s box id ≠ .nilNil := by
  rcases mgrGet_strict_cases s box id with ⟨h, _⟩ | ⟨m, h, _⟩ <;> simp [h]

/-- the ways through StoreManager.GetMessage: the result handed to the handler and the store-level calls made -/
inductive GetCase (k : Contract) (F : Faults) (s : Store) (box : Bytes) (id : IdArg) : Fetched → List Call → Prop
  | getFails : F.f .getMessage ≠ .ok → GetCase k F s box id (.err (errOf (F.f .getMessage))) [.getMessage]
  | nilNil : F.f .getMessage = .ok → mgrGet k s box id = .nilNil → GetCase k F s box id .nilNil [.getMessage]
  | missing : F.f .getMessage = .ok → mgrGet k s box id = .notExist → GetCase k F s box id (.err .notExist) [.getMessage]
  | openFails (m : Msg) : F.f .getMessage = .ok → mgrGet k s box id = .found m → F.f .sourceOpen ≠ .ok →
      GetCase k F s box id (.err (errOf (F.f .sourceOpen))) [.getMessage, .sourceOpen]
  | readFails (m : Msg) : F.f .getMessage = .ok → mgrGet k s box id = .found m → F.f .sourceOpen = .ok → F.f .sourceRead ≠ .ok →
      GetCase k F s box id (.err (envelopeReadErr (F.f .sourceRead))) [.getMessage, .sourceOpen, .sourceRead]
  | badMime (m : Msg) : F.f .getMessage = .ok → mgrGet k s box id = .found m → F.f .sourceOpen = .ok → F.f .sourceRead = .ok →
      F.envelopeOk = false → GetCase k F s box id (.err .other) [.getMessage, .sourceOpen, .sourceRead]
  | parsed (m : Msg) : F.f .getMessage = .ok → mgrGet k s box id = .found m → F.f .sourceOpen = .ok → F.f .sourceRead = .ok →
      F.envelopeOk = true → GetCase k F s box id (.msg m) [.getMessage, .sourceOpen, .sourceRead]

theorem mgrGetMessage_case (k : Contract) (F : Faults) (s : Store) (box : Bytes) (id : IdArg) :
    GetCase k F s box id (mgrGetMessage k F s box id).1 (mgrGetMessage k F s box id).2 := by
  unfold mgrGetMessage storeGet
  cases hgm : F.f .getMessage
  case ok =>
    cases hg : mgrGet k s box id with
    | nilNil => exact .nilNil hgm hg
    | notExist => exact .missing hgm hg
    | found m =>
      simp only
      cases hso : F.f .sourceOpen
      case ok =>
        cases hsr : F.f .sourceRead
        case ok =>
          cases henv : F.envelopeOk
          · simpa using GetCase.badMime m hgm hg hso hsr henv
          · simpa using GetCase.parsed m hgm hg hso hsr henv
        all_goals (have := GetCase.readFails m hgm hg hso (by simp [hsr]); simpa [hsr] using this)
      all_goals (have := GetCase.openFails m hgm hg (by simp [hso]); simpa [hso] using this)
  all_goals (have := GetCase.getFails (k := k) (s := s) (box := box) (id := id) (F := F) (by simp [hgm]); simpa [hgm] using this)

/-- the ways through StoreManager.SourceReader -/
inductive ReaderCase (k : Contract) (F : Faults) (s : Store) (box : Bytes) (id : IdArg) : Fetched → List Call → Prop
  | getFails : F.f .getMessage ≠ .ok → ReaderCase k F s box id (.err (errOf (F.f .getMessage))) [.getMessage]
  | nilNil : F.f .getMessage = .ok → mgrGet k s box id = .nilNil → ReaderCase k F s box id .nilNil [.getMessage]
  | missing : F.f .getMessage = .ok → mgrGet k s box id = .notExist → ReaderCase k F s box id (.err .notExist) [.getMessage]
  | openFails (m : Msg) : F.f .getMessage = .ok → mgrGet k s box id = .found m → F.f .sourceOpen ≠ .ok →
      ReaderCase k F s box id (.err (errOf (F.f .sourceOpen))) [.getMessage, .sourceOpen]
  | opened (m : Msg) : F.f .getMessage = .ok → mgrGet k s box id = .found m → F.f .sourceOpen = .ok →
      ReaderCase k F s box id (.msg m) [.getMessage, .sourceOpen]

theorem mgrSourceReader_case (k : Contract) (F : Faults) (s : Store) (box : Bytes) (id : IdArg) :
    ReaderCase k F s box id (mgrSourceReader k F s box id).1 (mgrSourceReader k F s box id).2 := by
  unfold mgrSourceReader storeGet
  cases hgm : F.f .getMessage
  case ok =>
    cases hg : mgrGet k s box id with
    | nilNil => exact .nilNil hgm hg
    | notExist => exact .missing hgm hg
    | found m =>
      simp only
      cases hso : F.f .sourceOpen
      case ok => exact .opened m hgm hg hso
      all_goals (have := ReaderCase.openFails m hgm hg (by simp [hso]); simpa [hso] using this)
  all_goals (have := ReaderCase.getFails (k := k) (s := s) (box := box) (id := id) (F := F) (by simp [hgm]); simpa [hgm] using this)

theorem mgrMarkSeen_flag (k : Contract) (s : Store) (box : Bytes) (id : IdArg)
    (h : (mgrMarkSeen k s box id).2 = true) : (mgrMarkSeen k s box id).1 = s := by
  unfold mgrMarkSeen at h ⊢
  split
  · split
    · rename_i hn ha; simp [hn, ha] at h
    · rfl
  · rfl

theorem mgrRemove_flag (k : Contract) (s : Store) (box : Bytes) (id : IdArg)
    (h : (mgrRemove k s box id).2 = true) : (mgrRemove k s box id).1 = s := by
  unfold mgrRemove at h ⊢
  split
  · split
    · rename_i hn ha; simp [hn, ha] at h
    · rfl
  · rfl

/-- MarkSeen / RemoveMessage of the real store answer ErrNotExist exactly for a missing message (or the literal "latest") -/
theorem mgrMarkSeen_strict_flag_iff (s : Store) (box : Bytes) (id : IdArg) :
    (mgrMarkSeen .strict s box id).2 = true ↔ (Missing s box id ∨ id = .latest) := by
  cases id <;> simp [mgrMarkSeen, mutId, missErr, Missing]
  split <;> simp_all

theorem mgrRemove_strict_flag_iff (s : Store) (box : Bytes) (id : IdArg) :
    (mgrRemove .strict s box id).2 = true ↔ (Missing s box id ∨ id = .latest) := by
  cases id <;> simp [mgrRemove, mutId, missErr, Missing]
  split <;> simp_all

theorem errOf_isNotExist (o : Outcome) (ho : o ≠ .ok) : (errOf o).isNotExist = true ↔ o = .notExist := by
  cases o <;> simp [errOf, ErrV.isNotExist] at ho ⊢

theorem envelopeReadErr_isNotExist (o : Outcome) : (envelopeReadErr o).isNotExist = false := by
  cases o <;> simp [envelopeReadErr, ErrV.isNotExist]

theorem mgrGet_strict_found (s : Store) (box : Bytes) (id : IdArg) (m : Msg) (h : mgrGet .strict s box id = .found m) :
    ¬ Missing s box id := by
  intro hm
  rw [(mgrGet_strict_notExist_iff s box id).mpr hm] at h
  cases h

theorem afterFetch_err (h : Handler) (x : ErrV) (render : Msg → Resp × Bool) :
    afterFetch .asWritten h (.err x) render = (if x.isNotExist then r404 else r500, false) := rfl

/-- a call of StoreManager.GetMessage that fails decides the result: an error, identical to ErrNotExist exactly when the failing
    call said ErrNotExist at a place where the code has a 404 branch -/
theorem GetCase.failing {k : Contract} {F : Faults} {s : Store} {box : Bytes} {id : IdArg} {r : Fetched} {cs : List Call}
    (hc : GetCase k F s box id r cs) (c : Call) (hmem : c ∈ cs) (hf : F.f c ≠ .ok) :
    ∃ x, r = .err x ∧ (x.isNotExist = true ↔ (F.f c = .notExist ∧ has404 c = true)) := by
  cases hc with
  | getFails h0 =>
    simp only [List.mem_singleton] at hmem; subst hmem
    exact ⟨_, rfl, by simp [errOf_isNotExist _ h0, has404]⟩
  | nilNil h0 _ => simp only [List.mem_singleton] at hmem; subst hmem; exact absurd h0 hf
  | missing h0 _ => simp only [List.mem_singleton] at hmem; subst hmem; exact absurd h0 hf
  | openFails m h0 _ h1 =>
    simp only [List.mem_cons, List.not_mem_nil, or_false] at hmem
    rcases hmem with rfl | rfl
    · exact absurd h0 hf
    · exact ⟨_, rfl, by simp [errOf_isNotExist _ h1, has404]⟩
  | readFails m h0 _ h1 h2 =>
    simp only [List.mem_cons, List.not_mem_nil, or_false] at hmem
    rcases hmem with rfl | rfl | rfl
    · exact absurd h0 hf
    · exact absurd h1 hf
    · exact ⟨_, rfl, by simp [envelopeReadErr_isNotExist, has404]⟩
  | badMime m h0 _ h1 h2 _ =>
    simp only [List.mem_cons, List.not_mem_nil, or_false] at hmem
    rcases hmem with rfl | rfl | rfl
    · exact absurd h0 hf
    · exact absurd h1 hf
    · exact absurd h2 hf
  | parsed m h0 _ h1 h2 _ =>
    simp only [List.mem_cons, List.not_mem_nil, or_false] at hmem
    rcases hmem with rfl | rfl | rfl
    · exact absurd h0 hf
    · exact absurd h1 hf
    · exact absurd h2 hf

theorem ReaderCase.failing {k : Contract} {F : Faults} {s : Store} {box : Bytes} {id : IdArg} {r : Fetched} {cs : List Call}
    (hc : ReaderCase k F s box id r cs) (c : Call) (hmem : c ∈ cs) (hf : F.f c ≠ .ok) :
    ∃ x, r = .err x ∧ (x.isNotExist = true ↔ (F.f c = .notExist ∧ has404 c = true)) := by
  cases hc with
  | getFails h0 =>
    simp only [List.mem_singleton] at hmem; subst hmem
    exact ⟨_, rfl, by simp [errOf_isNotExist _ h0, has404]⟩
  | nilNil h0 _ => simp only [List.mem_singleton] at hmem; subst hmem; exact absurd h0 hf
  | missing h0 _ => simp only [List.mem_singleton] at hmem; subst hmem; exact absurd h0 hf
  | openFails m h0 _ h1 =>
    simp only [List.mem_cons, List.not_mem_nil, or_false] at hmem
    rcases hmem with rfl | rfl
    · exact absurd h0 hf
    · exact ⟨_, rfl, by simp [errOf_isNotExist _ h1, has404]⟩
  | opened m h0 _ h1 =>
    simp only [List.mem_cons, List.not_mem_nil, or_false] at hmem
    rcases hmem with rfl | rfl
    · exact absurd h0 hf
    · exact absurd h1 hf

/-- every call but the last succeeded -/
theorem GetCase.prefix_ok {k : Contract} {F : Faults} {s : Store} {box : Bytes} {id : IdArg} {r : Fetched} {cs : List Call}
    (hc : GetCase k F s box id r cs) : ∀ c ∈ cs.dropLast, F.f c = .ok := by
  cases hc <;> simp_all

theorem ReaderCase.prefix_ok {k : Contract} {F : Faults} {s : Store} {box : Bytes} {id : IdArg} {r : Fetched} {cs : List Call}
    (hc : ReaderCase k F s box id r cs) : ∀ c ∈ cs.dropLast, F.f c = .ok := by
  cases hc <;> simp_all

/-- an open reader: both calls succeeded -/
theorem ReaderCase.opened_ok {k : Contract} {F : Faults} {s : Store} {box : Bytes} {id : IdArg} {m : Msg} {cs : List Call}
    (hc : ReaderCase k F s box id (.msg m) cs) :
    cs = [.getMessage, .sourceOpen] ∧ F.f .getMessage = .ok ∧ F.f .sourceOpen = .ok ∧ mgrGet k s box id = .found m := by
  cases hc with
  | opened m h0 hg h1 => exact ⟨rfl, h0, h1, hg⟩

theorem GetCase.parsed_ok {k : Contract} {F : Faults} {s : Store} {box : Bytes} {id : IdArg} {m : Msg} {cs : List Call}
    (hc : GetCase k F s box id (.msg m) cs) :
    cs = [.getMessage, .sourceOpen, .sourceRead] ∧ F.f .getMessage = .ok ∧ F.f .sourceOpen = .ok ∧ F.f .sourceRead = .ok ∧
      F.envelopeOk = true ∧ mgrGet k s box id = .found m := by
  cases hc with
  | parsed m h0 hg h1 h2 h3 => exact ⟨rfl, h0, h1, h2, h3, hg⟩

/-- when a fetch through StoreManager.GetMessage ends in a 404, under the contract "missing ⇒ ErrNotExist" -/
theorem GetCase.notFound_iff {F : Faults} {s : Store} {box : Bytes} {id : IdArg} {r : Fetched} {cs : List Call}
    (hc : GetCase .strict F s box id r cs) (h : Handler) (render : Msg → Resp × Bool)
    (hrd : ∀ m, (render m).1.status ≠ .notFound) :
    (afterFetch .asWritten h r render).1.status = .notFound ↔
      (F.f .getMessage = .notExist ∨ (F.f .getMessage = .ok ∧ (Missing s box id ∨ F.f .sourceOpen = .notExist))) := by
  cases hc with
  | getFails h0 => simp [afterFetch_err, apply_ite Resp.status, r404, r500, errOf_isNotExist _ h0, h0]
  | nilNil h0 hg => exact absurd hg (mgrGet_strict_ne_nilNil s box id)
  | missing h0 hg =>
    have := (mgrGet_strict_notExist_iff s box id).mp hg
    simp [afterFetch_err, r404, ErrV.isNotExist, h0, this]
  | openFails m h0 hg h1 =>
    have := mgrGet_strict_found s box id m hg
    simp [afterFetch_err, apply_ite Resp.status, r404, r500, errOf_isNotExist _ h1, h0, this]
  | readFails m h0 hg h1 h2 =>
    have := mgrGet_strict_found s box id m hg
    simp [afterFetch_err, r500, envelopeReadErr_isNotExist, h0, h1, this]
  | badMime m h0 hg h1 h2 h3 =>
    have := mgrGet_strict_found s box id m hg
    simp [afterFetch_err, r500, ErrV.isNotExist, h0, h1, this]
  | parsed m h0 hg h1 h2 h3 =>
    have := mgrGet_strict_found s box id m hg
    simp [afterFetch, hrd m, h0, h1, this]

theorem ReaderCase.notFound_iff {F : Faults} {s : Store} {box : Bytes} {id : IdArg} {r : Fetched} {cs : List Call}
    (hc : ReaderCase .strict F s box id r cs) (h : Handler) (render : Msg → Resp × Bool)
    (hrd : ∀ m, (render m).1.status ≠ .notFound) :
    (afterFetch .asWritten h r render).1.status = .notFound ↔
      (F.f .getMessage = .notExist ∨ (F.f .getMessage = .ok ∧ (Missing s box id ∨ F.f .sourceOpen = .notExist))) := by
  cases hc with
  | getFails h0 => simp [afterFetch_err, apply_ite Resp.status, r404, r500, errOf_isNotExist _ h0, h0]
  | nilNil h0 hg => exact absurd hg (mgrGet_strict_ne_nilNil s box id)
  | missing h0 hg =>
    have := (mgrGet_strict_notExist_iff s box id).mp hg
    simp [afterFetch_err, r404, ErrV.isNotExist, h0, this]
  | openFails m h0 hg h1 =>
    have := mgrGet_strict_found s box id m hg
    simp [afterFetch_err, apply_ite Resp.status, r404, r500, errOf_isNotExist _ h1, h0, this]
  | opened m h0 hg h1 =>
    have := mgrGet_strict_found s box id m hg
    simp [afterFetch, hrd m, h0, h1, this]

theorem copyOut_status (F : Faults) (m : Msg) : (copyOut F m).1.status = .ok ∨ (copyOut F m).1.status = .error := by
  unfold copyOut
  split
  · simp
  · split <;> simp [r500]

/-- SourceReader hands out an open reader on `m` exactly when both calls succeed and the store holds `m` -/
theorem ReaderCase.msg_iff {k : Contract} {F : Faults} {s : Store} {box : Bytes} {id : IdArg} {r : Fetched} {cs : List Call}
    (hc : ReaderCase k F s box id r cs) (m : Msg) :
    r = .msg m ↔ (F.f .getMessage = .ok ∧ mgrGet k s box id = .found m ∧ F.f .sourceOpen = .ok) := by
  cases hc with
  | getFails h0 => simp [h0]
  | nilNil h0 hg => simp [hg]
  | missing h0 hg => simp [hg]
  | openFails m' h0 hg h1 => simp [h1]
  | opened m' h0 hg h1 => simp [h0, hg, h1]

end Ibx.Lemmas.RestFault
