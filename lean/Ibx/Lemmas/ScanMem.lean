import Ibx.Model.ScanMem
import Ibx.Lemmas.ConcMemDrain
/-
  The retention scanner as a client of the memory store (Ibx/Model/ScanMem.lean): invariants of the store lifted to
  the composed system, the position of the scanner's operation (`Track`), and the continuation lemmas: from every
  reachable state the operations in flight can be completed (`settle`), the scanner's call returns (`complete_op`),
  the callback ends (`finish_sweep`), the scan ends (`finish_visit`, `finish_any`).
-/
namespace Ibx.Model.ScanMem
open Ibx.Model.ConcMem

/-! ### paths -/

theorem Steps.trans {v c e σ σ' σ''} (h1 : Steps v c e σ σ') (h2 : Steps v c e σ' σ'') : Steps v c e σ σ'' := by
  induction h2 with
  | refl => exact h1
  | step _ st ih => exact Steps.step ih st

theorem Steps.one {v c e σ σ'} (st : SStep v c e σ σ') : Steps v c e σ σ' := Steps.step (Steps.refl σ) st

theorem Steps.head {v c e σ σ' σ''} (st : SStep v c e σ σ') (h : Steps v c e σ' σ'') : Steps v c e σ σ'' :=
  (Steps.one st).trans h

theorem Reach.steps {v c e progs σ σ'} (h : Reach v c e progs σ) (p : Steps v c e σ σ') : Reach v c e progs σ' := by
  induction p with
  | refl => exact h
  | step _ st ih => exact Reach.step ih st

/-- the system never un-cancels -/
theorem SStep.cancelled {v c e σ σ'} (st : SStep v c e σ σ') : σ'.cancelled = σ.cancelled := by
  cases st <;> rfl

theorem Steps.cancelled {v c e σ σ'} (p : Steps v c e σ σ') : σ'.cancelled = σ.cancelled := by
  induction p with
  | refl => rfl
  | step _ st ih => rw [st.cancelled, ih]

/-! ### invariants of the store, lifted -/

/-- a predicate on the store's state that every step of the store preserves and that does not look at the programs
    holds of the store component of every reachable state of the composed system -/
theorem mem_invariant {v c e progs} {P : ConcMem.St → Prop} (h0 : ∀ p, P (ConcMem.init p))
    (hs : ∀ s s', Step v c s s' → P s → P s')
    (hi : ∀ (s : ConcMem.St) t l, P s → P { s with prog := upd s.prog t l })
    {σ : St} (h : Reach v c e progs σ) : P σ.mem := by
  induction h with
  | init => exact h0 _
  | cancel _ ih => exact ih
  | step _ st ih =>
    cases st with
    | base st' _ => exact hs _ _ st' ih
    | visitNext b todo _ _ => exact hi _ _ _ ih
    | sweepCall b i p todo _ _ _ => exact hi _ _ _ ih
    | _ => exact ih

theorem lockInv_prog {s : ConcMem.St} (t : Nat) (l : List Op) (h : LockInv s) :
    LockInv { s with prog := upd s.prog t l } :=
  ⟨h.sl_cl, h.sl_enf, h.wl_cl, h.rl_cl, h.wl_enf, h.wt⟩

theorem sound_prog {s : ConcMem.St} (t : Nat) (l : List Op) (h : Sound s) : Sound { s with prog := upd s.prog t l } :=
  ⟨h.np, lockInv_prog t l h.lock, h.shape⟩

theorem reach_sound {v c e progs σ} (hv : v.site = .outsideLock) (hr : v.remove = .goneFlag)
    (h : Reach v c e progs σ) : Sound σ.mem :=
  mem_invariant (P := Sound) sound_init (fun _ _ st q => sound_step hv hr st q) (fun _ t l q => sound_prog t l q) h

/-- a step changes the program counter of at most one thread -/
theorem step_thr_frame {v c s s'} (st : Step v c s s') : ∃ t0, ∀ t, t ≠ t0 → s'.thr t = s.thr t := by
  cases st with
  | start t _ _ _ _ _ | lockS t _ _ _ _ | unlockS t _ _ _ | lockB t _ _ _ _ | crit t _ _ _ | unlockB t _ _ _ _ _
  | sendInc t _ _ _ _ _ _ _ | sendRem t _ _ _ _ _ _ _ | finish t _ _ _ _ | fin t _ _ =>
    exact ⟨t, fun t' h => by simp [critEff, upd, h]⟩
  | evCrit t _ _ _ => exact ⟨0, fun t' _ => by simp [evDelete]⟩
  | _ => exact ⟨0, fun t' _ => rfl⟩

/-- only finitely many threads are inside an operation -/
def FinSupp (s : ConcMem.St) : Prop := ∃ l : List Nat, ∀ t, s.thr t ≠ .idle → t ∈ l

theorem reach_finSupp {v c e progs σ} (h : Reach v c e progs σ) : FinSupp σ.mem := by
  refine mem_invariant (P := FinSupp) (fun _ => ⟨[], fun t ht => by simp [ConcMem.init] at ht⟩) ?_
    (fun _ _ _ q => q) h
  rintro s s' st ⟨l, hl⟩
  obtain ⟨t0, ht0⟩ := step_thr_frame st
  refine ⟨t0 :: l, fun t ht => ?_⟩
  by_cases e : t = t0
  · simp [e]
  · rw [ht0 t e] at ht; exact List.mem_cons_of_mem _ (hl t ht)

/-! ### what a step of the store does to ONE thread -/

/-- the operation a thread is inside -/
def opOf : PC → Option Op
  | .idle => none
  | .lockS o | .unlockS o | .lockB o | .crit o => some o
  | .run o _ _ | .wait o _ _ => some o

theorem opOf_none {pc : PC} : opOf pc = none ↔ pc = .idle := by cases pc <;> simp [opOf]
@[simp] theorem opOf_resume (pc : PC) : opOf (resume pc) = opOf pc := by cases pc <;> rfl

theorem lastRet_snoc (t : Nat) (h : List (Nat × Op × Ret)) (t' : Nat) (o : Op) (r : Ret) :
    lastRet t (h ++ [(t', o, r)]) = if t' = t then some (o, r) else lastRet t h := by
  simp [lastRet, List.foldl_append]

/-- a step of the store, seen from thread `t`: nothing that concerns `t` changes (it moves inside its operation, or
    somebody else moves), or `t` begins its next operation, or `t` completes its operation -/
theorem step_local {v c s s'} (st : Step v c s s') (t : Nat) :
    (opOf (s'.thr t) = opOf (s.thr t) ∧ s'.prog t = s.prog t ∧ lastRet t s'.hist = lastRet t s.hist) ∨
    (∃ o rest, s.thr t = .idle ∧ s.prog t = o :: rest ∧ s'.thr t = .lockS o ∧ s'.prog t = rest ∧ s'.hist = s.hist) ∨
    (∃ o r, s.thr t = .run o [] r ∧ s'.thr t = .idle ∧ s'.prog t = s.prog t ∧ s'.hist = s.hist ++ [(t, o, r)]) := by
  cases st with
  | start t' o rest hp ht hprog =>
    by_cases e : t = t'
    · subst e; exact Or.inr (Or.inl ⟨o, rest, ht, hprog, by simp, by simp, rfl⟩)
    · exact Or.inl ⟨by simp [upd, e], by simp [upd, e], rfl⟩
  | finish t' o r hp ht =>
    by_cases e : t = t'
    · subst e; exact Or.inr (Or.inr ⟨o, r, ht, by simp, rfl, rfl⟩)
    · refine Or.inl ⟨by simp [upd, e], rfl, ?_⟩
      have e' : ¬ t' = t := fun h => e h.symm
      simp [lastRet_snoc, e']
  | lockS t' o hp ht hs | unlockS t' o hp ht | lockB t' o hp ht hc | crit t' o hp ht | unlockB t' o todo r hp ht
  | sendInc t' o k todo r hp ht he | sendRem t' o k todo r hp ht he =>
    by_cases e : t = t'
    · subst e; exact Or.inl ⟨by simp [critEff, ht, opOf], rfl, rfl⟩
    · exact Or.inl ⟨by simp [critEff, upd, e], rfl, rfl⟩
  | fin t' hp he =>
    by_cases e : t = t'
    · subst e; exact Or.inl ⟨by simp, rfl, rfl⟩
    · exact Or.inl ⟨by simp [upd, e], rfl, rfl⟩
  | evCrit t' k hp he => exact Or.inl ⟨by simp [evDelete], by simp [evDelete], by simp [evDelete]⟩
  | _ => exact Or.inl ⟨rfl, rfl, rfl⟩

/-! ### where the scanner's operation is -/

/-- thread `t` is between two operations, with nothing issued -/
def Rest (m : ConcMem.St) (t : Nat) : Prop := m.thr t = .idle ∧ m.prog t = []

/-- operation `o` of thread `t`: issued and not begun, in flight, or completed with its result the last one of `t` -/
def OpSt (m : ConcMem.St) (t : Nat) (o : Op) : Prop :=
  (m.thr t = .idle ∧ m.prog t = [o]) ∨ (m.prog t = [] ∧ opOf (m.thr t) = some o) ∨
  (m.prog t = [] ∧ m.thr t = .idle ∧ ∃ r, lastRet t m.hist = some (o, r))

theorem rest_step {v c s s'} (st : Step v c s s') (t : Nat) (h : Rest s t) : Rest s' t := by
  obtain ⟨h1, h2⟩ := h
  rcases step_local st t with ⟨a, b, _⟩ | ⟨o, rest, _, q, _⟩ | ⟨o, r, q, _⟩
  · exact ⟨opOf_none.mp (by rw [a, h1]; rfl), by rw [b, h2]⟩
  · rw [h2] at q; cases q
  · rw [h1] at q; cases q

theorem opSt_step {v c s s'} (st : Step v c s s') (t : Nat) (o : Op) (h : OpSt s t o) : OpSt s' t o := by
  rcases step_local st t with ⟨a, b, d⟩ | ⟨o', rest, q1, q2, q3, q4, q5⟩ | ⟨o', r, q1, q2, q3, q4⟩
  · rcases h with ⟨h1, h2⟩ | ⟨h1, h2⟩ | ⟨h1, h2, r, h3⟩
    · exact Or.inl ⟨opOf_none.mp (by rw [a, h1]; rfl), by rw [b, h2]⟩
    · exact Or.inr (Or.inl ⟨by rw [b, h1], by rw [a, h2]⟩)
    · exact Or.inr (Or.inr ⟨by rw [b, h1], opOf_none.mp (by rw [a, h2]; rfl), r, by rw [d, h3]⟩)
  · rcases h with ⟨h1, h2⟩ | ⟨h1, h2⟩ | ⟨h1, h2, r, h3⟩
    · rw [q2] at h2
      simp only [List.cons.injEq] at h2
      obtain ⟨rfl, rfl⟩ := h2
      exact Or.inr (Or.inl ⟨q4, by rw [q3]; rfl⟩)
    · rw [q2] at h1; cases h1
    · rw [q2] at h1; cases h1
  · rcases h with ⟨h1, h2⟩ | ⟨h1, h2⟩ | ⟨h1, h2, r', h3⟩
    · rw [q1] at h1; cases h1
    · rw [q1] at h2; simp only [opOf, Option.some.injEq] at h2; subst h2
      exact Or.inr (Or.inr ⟨by rw [q3, h1], q2, r, by rw [q4, lastRet_snoc]; simp⟩)
    · rw [q1] at h2; cases h2

/-- the position of the scanner's thread, phase by phase -/
def Track (e : Env) (σ : St) : Prop :=
  match σ.phase with
  | .listing b _ => OpSt σ.mem e.t0 (.list b)
  | .removing b i _ _ => OpSt σ.mem e.t0 (.remove b i)
  | _ => Rest σ.mem e.t0

theorem reach_track {v c e progs σ} (h : Reach v c e progs σ) : Track e σ := by
  induction h with
  | init => simp [Track, start, Rest, ConcMem.init]
  | cancel _ ih => exact ih
  | @step σ0 σ1 _ st ih =>
    cases st with
    | base st' _ =>
      unfold Track at ih ⊢
      cases hph : σ0.phase <;> simp only [hph] at ih ⊢ <;>
        first | exact rest_step st' _ ih | exact opSt_step st' _ _ ih
    | visitNext b todo hph hr =>
      simp only [Track, hph] at ih
      simp only [Track]
      exact Or.inl ⟨hr.2.1, by simp [issue]⟩
    | sweepCall b i p todo hph hr _ =>
      simp only [Track]
      exact Or.inl ⟨hr.2.1, by simp [issue]⟩
    | lockNames nm hph _ _ => simp only [Track, hph] at ih; exact ih
    | unlockNames nm hph _ => simp only [Track, hph] at ih; exact ih
    | visitEnd hph _ => simp only [Track, hph] at ih; exact ih
    | gotList b todo r hph hr _ => exact ⟨hr.2.1, hr.2.2⟩
    | sweepSkip b i p todo hph _ _ => simp only [Track, hph] at ih; exact ih
    | returned b i p todo hph hr => exact ⟨hr.2.1, hr.2.2⟩
    | sweepEnd b todo hph _ => simp only [Track, hph] at ih; exact ih
    | checkStop todo hph _ _ => simp only [Track, hph] at ih; exact ih
    | checkGo todo hph _ _ => simp only [Track, hph] at ih; exact ih

/-! ### continuations -/

theorem lift_nsteps {v c e} {m m' : ConcMem.St} (p : NSteps v c m m') :
    ∀ σ : St, σ.mem = m → (∀ nm, σ.phase ≠ .names nm) → Steps v c e σ { σ with mem := m' } := by
  induction p with
  | refl s => intro σ hm _; subst hm; exact Steps.refl _
  | head st _ ih =>
    intro σ hm hph
    subst hm
    refine Steps.head (SStep.base st.1 (fun nm h => absurd h (hph nm))) ?_
    exact ih { σ with mem := _ } rfl hph

/-- **settle**: from every reachable state (the scanner not holding the store mutex) the operations in flight —
    the scanner's own included — can be completed by steps of the store alone; no thread begins a new operation -/
theorem settle {v c e progs σ} (hv : v.site = .outsideLock) (hr : v.remove = .goneFlag) (h : Reach v c e progs σ)
    (hph : ∀ nm, σ.phase ≠ .names nm) :
    ∃ m', Steps v c e σ { σ with mem := m' } ∧ Quiet m' ∧ Sound m' ∧ m'.prog = σ.mem.prog := by
  obtain ⟨l, hl⟩ := reach_finSupp h
  obtain ⟨m', p, q, w⟩ := drain (v := v) (c := c) hv hr l σ.mem (reach_sound hv hr h) hl
  exact ⟨m', lift_nsteps p σ rfl hph, q, w, p.prog⟩

/-- **the scanner's call returns**: with operation `o` of the scanner issued, in flight or completed, there is a
    continuation after which the scanner is between operations and `o`'s result is the last one it received -/
theorem complete_op {v c e progs σ} (hv : v.site = .outsideLock) (hr : v.remove = .goneFlag)
    (h : Reach v c e progs σ) (o : Op) (hph : ∀ nm, σ.phase ≠ .names nm)
    (htr : ∀ σ', Reach v c e progs σ' → σ'.phase = σ.phase → OpSt σ'.mem e.t0 o) :
    ∃ m', Steps v c e σ { σ with mem := m' } ∧ atRest e m' ∧ ∃ r, lastRet e.t0 m'.hist = some (o, r) := by
  obtain ⟨m1, p1, q1, w1, g1⟩ := settle hv hr h hph
  have r1 := h.steps p1
  rcases htr _ r1 rfl with ⟨a1, a2⟩ | ⟨a1, a2⟩ | ⟨a1, a2, r, a3⟩
  · -- issued, not begun: begin it, then settle again
    have st : Step v c m1 { m1 with thr := upd m1.thr e.t0 (.lockS o), prog := upd m1.prog e.t0 [] } :=
      Step.start e.t0 o [] w1.np a1 a2
    have s2 : SStep v c e { σ with mem := m1 } { σ with mem := _ } :=
      SStep.base st (fun nm hn => absurd hn (hph nm))
    have r2 := Reach.step r1 s2
    obtain ⟨m3, p3, q3, w3, g3⟩ := settle hv hr r2 hph
    have r3 := r2.steps p3
    have hprog : m3.prog e.t0 = [] := by rw [g3]; simp
    rcases htr _ r3 rfl with ⟨_, b2⟩ | ⟨_, b2⟩ | ⟨_, _, r, b3⟩
    · rw [hprog] at b2; cases b2
    · rw [q3.1 e.t0] at b2; cases b2
    · exact ⟨m3, p1.trans (Steps.head s2 p3), ⟨w3.np, q3.1 _, hprog⟩, r, b3⟩
  · rw [q1.1 e.t0] at a2; cases a2
  · exact ⟨m1, p1, ⟨w1.np, a2, a1⟩, r, a3⟩

/-- **the callback ends**: from the scanner inside the callback of a mailbox there is a continuation to the
    `select` that ends it -/
theorem finish_sweep {v c e progs} (hv : v.site = .outsideLock) (hr : v.remove = .goneFlag) (b : Nat) (todo : List Nat) :
    ∀ (p : List Nat) (σ : St), Reach v c e progs σ → σ.phase = .sweep b p todo →
      ∃ σ', Steps v c e σ σ' ∧ σ'.phase = .check todo := by
  intro p
  induction p with
  | nil =>
    intro σ h hph
    exact ⟨_, Steps.one (SStep.sweepEnd b todo hph (reach_sound hv hr h).np), rfl⟩
  | cons i p ih =>
    intro σ h hph
    by_cases hx : e.date (b, i) < e.cutoff
    · have hn : ∀ nm, σ.phase ≠ .names nm := by intro nm q; rw [hph] at q; cases q
      obtain ⟨m1, p1, q1, w1, g1⟩ := settle hv hr h hn
      have r1 := h.steps p1
      have t1 : Rest m1 e.t0 := by have := reach_track r1; simpa [Track, hph] using this
      have s2 := SStep.sweepCall (v := v) (c := c) (e := e) (σ := { σ with mem := m1 }) b i p todo hph
        ⟨w1.np, t1.1, t1.2⟩ hx
      have r2 := Reach.step r1 s2
      have hn2 : ∀ nm, (Phase.removing b i p todo) ≠ .names nm := by intro nm q; cases q
      obtain ⟨m3, p3, a3, _⟩ := complete_op hv hr r2 (.remove b i) hn2 (fun σ' r' hp' => by
        have := reach_track r'; simpa [Track, hp'] using this)
      have r3 := r2.steps p3
      have s4 := SStep.returned (v := v) (c := c) (e := e) b i p todo
        (σ := { σ with mem := m3, phase := .removing b i p todo, calls := σ.calls ++ [(b, i)] }) rfl a3
      obtain ⟨σ', p5, q5⟩ := ih _ (Reach.step r3 s4) rfl
      exact ⟨σ', p1.trans (Steps.head s2 (p3.trans (Steps.head s4 p5))), q5⟩
    · have s1 := SStep.sweepSkip (v := v) (c := c) (e := e) b i p todo hph (reach_sound hv hr h).np hx
      obtain ⟨σ', p2, q2⟩ := ih _ (Reach.step h s1) rfl
      exact ⟨σ', Steps.head s1 p2, q2⟩

/-- **the scan ends**: from the loop head of VisitMailboxes, whatever is left to visit -/
theorem finish_visit {v c e progs} (hv : v.site = .outsideLock) (hr : v.remove = .goneFlag) :
    ∀ (todo : List Nat) (σ : St), Reach v c e progs σ → σ.phase = .visit todo →
      ∃ σ', Steps v c e σ σ' ∧ ∃ a, σ'.phase = .done a := by
  intro todo
  induction todo with
  | nil =>
    intro σ h hph
    exact ⟨_, Steps.one (SStep.visitEnd hph (reach_sound hv hr h).np), false, rfl⟩
  | cons b todo ih =>
    intro σ h hph
    have hn : ∀ nm, σ.phase ≠ .names nm := by intro nm q; rw [hph] at q; cases q
    obtain ⟨m1, p1, q1, w1, g1⟩ := settle hv hr h hn
    have r1 := h.steps p1
    have t1 : Rest m1 e.t0 := by have := reach_track r1; simpa [Track, hph] using this
    have s2 := SStep.visitNext (v := v) (c := c) (e := e) (σ := { σ with mem := m1 }) b todo hph ⟨w1.np, t1.1, t1.2⟩
    have r2 := Reach.step r1 s2
    have hn2 : ∀ nm, (Phase.listing b todo) ≠ .names nm := by intro nm q; cases q
    obtain ⟨m3, p3, a3, r, l3⟩ := complete_op hv hr r2 (.list b) hn2 (fun σ' r' hp' => by
      have := reach_track r'; simpa [Track, hp'] using this)
    have r3 := r2.steps p3
    have s4 := SStep.gotList (v := v) (c := c) (e := e) (σ := { σ with mem := m3, phase := .listing b todo })
      b todo r rfl a3 l3
    have r4 := Reach.step r3 s4
    obtain ⟨σ5, p5, q5⟩ := finish_sweep hv hr b todo (idsOf r) _ r4 rfl
    have r5 := r4.steps p5
    have hp5 := (reach_sound hv hr r5).np
    cases hc : σ5.cancelled with
    | true =>
      exact ⟨_, p1.trans (Steps.head s2 (p3.trans (Steps.head s4 (p5.trans
        (Steps.one (SStep.checkStop todo q5 hp5 hc)))))), true, rfl⟩
    | false =>
      have s6 := SStep.checkGo (v := v) (c := c) (e := e) todo q5 hp5 (Or.inl hc)
      obtain ⟨σ', p7, q7⟩ := ih _ (Reach.step r5 s6) rfl
      exact ⟨σ', p1.trans (Steps.head s2 (p3.trans (Steps.head s4 (p5.trans (Steps.head s6 p7))))), q7⟩

/-- from the `select` -/
theorem finish_check {v c e progs σ} (hv : v.site = .outsideLock) (hr : v.remove = .goneFlag)
    (h : Reach v c e progs σ) (todo : List Nat) (hph : σ.phase = .check todo) :
    ∃ σ', Steps v c e σ σ' ∧ ∃ a, σ'.phase = .done a := by
  have hp := (reach_sound hv hr h).np
  cases hc : σ.cancelled with
  | true => exact ⟨_, Steps.one (SStep.checkStop todo hph hp hc), true, rfl⟩
  | false =>
    have s1 := SStep.checkGo (v := v) (c := c) (e := e) todo hph hp (Or.inl hc)
    obtain ⟨σ', p2, q2⟩ := finish_visit hv hr todo _ (Reach.step h s1) rfl
    exact ⟨σ', Steps.head s1 p2, q2⟩

/-- **scan_can_finish** (all phases): from every reachable state there is a continuation, made of steps of the system
    only, in which the scan returns.  `nm` is the name list used if the scan has not read the names yet. -/
theorem finish_any {v c e progs σ} (hv : v.site = .outsideLock) (hr : v.remove = .goneFlag)
    (h : Reach v c e progs σ) (nm : List Nat) : ∃ σ', Steps v c e σ σ' ∧ ∃ a, σ'.phase = .done a := by
  cases hph : σ.phase with
  | init =>
    have hn : ∀ nm, σ.phase ≠ .names nm := by intro nm q; rw [hph] at q; cases q
    obtain ⟨m1, p1, q1, w1, g1⟩ := settle hv hr h hn
    have r1 := h.steps p1
    have s2 := SStep.lockNames (v := v) (c := c) (e := e) (σ := { σ with mem := m1 }) nm hph w1.np
      (quiet_locks_free w1 q1).1
    have r2 := Reach.step r1 s2
    have s3 := SStep.unlockNames (v := v) (c := c) (e := e)
      (σ := { σ with mem := m1, phase := .names nm, boxes0 := m1.boxes, names0 := nm }) nm rfl w1.np
    obtain ⟨σ', p4, q4⟩ := finish_visit hv hr nm _ (Reach.step r2 s3) rfl
    exact ⟨σ', p1.trans (Steps.head s2 (Steps.head s3 p4)), q4⟩
  | names nm' =>
    have s1 := SStep.unlockNames (v := v) (c := c) (e := e) nm' hph (reach_sound hv hr h).np
    obtain ⟨σ', p2, q2⟩ := finish_visit hv hr nm' _ (Reach.step h s1) rfl
    exact ⟨σ', Steps.head s1 p2, q2⟩
  | visit todo => exact finish_visit hv hr todo σ h hph
  | listing b todo =>
    have hn : ∀ nm, σ.phase ≠ .names nm := by intro nm q; rw [hph] at q; cases q
    obtain ⟨m1, p1, a1, r, l1⟩ := complete_op hv hr h (.list b) hn (fun σ' r' hp' => by
      have := reach_track r'; simpa [Track, hp', hph] using this)
    have r1 := h.steps p1
    have s2 := SStep.gotList (v := v) (c := c) (e := e) (σ := { σ with mem := m1 }) b todo r hph a1 l1
    have r2 := Reach.step r1 s2
    obtain ⟨σ3, p3, q3⟩ := finish_sweep hv hr b todo (idsOf r) _ r2 rfl
    obtain ⟨σ', p4, q4⟩ := finish_check hv hr (r2.steps p3) todo q3
    exact ⟨σ', p1.trans (Steps.head s2 (p3.trans p4)), q4⟩
  | sweep b p todo =>
    obtain ⟨σ3, p3, q3⟩ := finish_sweep hv hr b todo p σ h hph
    obtain ⟨σ', p4, q4⟩ := finish_check hv hr (h.steps p3) todo q3
    exact ⟨σ', p3.trans p4, q4⟩
  | removing b i p todo =>
    have hn : ∀ nm, σ.phase ≠ .names nm := by intro nm q; rw [hph] at q; cases q
    obtain ⟨m1, p1, a1, _⟩ := complete_op hv hr h (.remove b i) hn (fun σ' r' hp' => by
      have := reach_track r'; simpa [Track, hp', hph] using this)
    have r1 := h.steps p1
    have s2 := SStep.returned (v := v) (c := c) (e := e) (σ := { σ with mem := m1 }) b i p todo hph a1
    have r2 := Reach.step r1 s2
    obtain ⟨σ3, p3, q3⟩ := finish_sweep hv hr b todo p _ r2 rfl
    obtain ⟨σ', p4, q4⟩ := finish_check hv hr (r2.steps p3) todo q3
    exact ⟨σ', p1.trans (Steps.head s2 (p3.trans p4)), q4⟩
  | check todo => exact finish_check hv hr h todo hph
  | done a => exact ⟨σ, Steps.refl σ, a, hph⟩

end Ibx.Model.ScanMem
