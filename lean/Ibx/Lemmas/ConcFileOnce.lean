import Ibx.Lemmas.ConcFile
/- "At most once": VisitMailboxes never invokes the callback twice for the same mailbox directory, whatever the
   mutators do in between (both ENOENT variants). -/
namespace Ibx.Model.ConcFile

theorem nodup_filter' {α} (p : α → Bool) {l : List α} (h : l.Nodup) : (l.filter p).Nodup :=
  List.Pairwise.sublist List.filter_sublist h

theorem nodup_snd_filter (a : Nat) : ∀ {l : List (Nat × Nat)}, l.Nodup →
    ((l.filter (·.1 == a)).map (·.2)).Nodup
  | [], _ => by simp
  | p :: l, h => by
    rw [List.nodup_cons] at h
    have ih := nodup_snd_filter a h.2
    rw [List.filter_cons]
    split
    · rename_i hp
      rw [List.map_cons, List.nodup_cons]
      refine ⟨?_, ih⟩
      intro hm
      simp only [List.mem_map, List.mem_filter] at hm
      obtain ⟨q, ⟨hq, hqa⟩, he⟩ := hm
      have : q = p := by
        obtain ⟨q1, q2⟩ := q
        obtain ⟨p1, p2⟩ := p
        simp at hp hqa he
        simp [hp, hqa, he]
      exact h.1 (this ▸ hq)
    · exact ih

/-- what the visitor still has ahead of it is duplicate free and disjoint from what it has reported -/
def Pend (rep : List (Mb × Bool)) : VPC → Prop
  | .start => rep = []
  | .l1 r1 => r1.Nodup ∧ ∀ x ∈ rep, x.1.d1 ∉ r1
  | .l2 d1 r2 r1 => (d1 :: r1).Nodup ∧ r2.Nodup ∧ ∀ x ∈ rep, x.1.d1 ∉ r1 ∧ (x.1.d1 = d1 → x.1.d2 ∉ r2)
  | .l3 d1 d2 r3 r2 r1 => (d1 :: r1).Nodup ∧ (d2 :: r2).Nodup ∧ r3.Nodup ∧ (∀ m ∈ r3, m.d1 = d1 ∧ m.d2 = d2) ∧
      ∀ x ∈ rep, x.1.d1 ∉ r1 ∧ (x.1.d1 = d1 → x.1.d2 ∉ r2) ∧ x.1 ∉ r3
  | .done => True
  | .failed => True

structure Once (s : St) : Prop where
  nd1 : s.fs.d1s.Nodup
  nd2 : s.fs.d2s.Nodup
  nd3 : s.fs.mbs.Nodup
  rep : (s.reported.map (·.1)).Nodup
  pend : Pend s.reported s.vpc

theorem once_start {fs : Fs} (hwf : fs.WF) : Once (start fs) :=
  ⟨hwf.nd1, hwf.nd2, hwf.nd3, by simp [start], by simp [start, Pend]⟩

theorem pend_onFail {rep v c} (h : Pend rep c) : Pend rep (onFail v c) := by
  cases v
  · simpa only [onFail, if_true] using h
  · simp [onFail, Pend]

theorem once_step {v keep s s'} (st : Step v keep s s') (h : Once s) : Once s' := by
  obtain ⟨n1, n2, n3, hr, hp⟩ := h
  cases st with
  | vRoot hv =>
    rw [hv] at hp; simp only [Pend] at hp
    exact ⟨n1, n2, n3, hr, by simp [Pend, hp, n1]⟩
  | vL1done hv => exact ⟨n1, n2, n3, hr, by simp [Pend]⟩
  | vL1ok a r hv ha =>
    rw [hv] at hp; simp only [Pend] at hp
    refine ⟨n1, n2, n3, hr, ?_⟩
    simp only [Pend]
    refine ⟨hp.1, nodup_snd_filter a n2, fun x hx => ?_⟩
    have := hp.2 x hx
    simp only [List.mem_cons, not_or] at this
    exact ⟨this.2, fun e => absurd e this.1⟩
  | vL1enoent a r hv ha =>
    rw [hv] at hp; simp only [Pend] at hp
    refine ⟨n1, n2, n3, hr, pend_onFail ?_⟩
    simp only [Pend]
    refine ⟨(List.nodup_cons.1 hp.1).2, fun x hx => ?_⟩
    have := hp.2 x hx
    simp only [List.mem_cons, not_or] at this
    exact this.2
  | vL2done d1 r1 hv =>
    rw [hv] at hp; simp only [Pend] at hp
    refine ⟨n1, n2, n3, hr, ?_⟩
    simp only [Pend]
    exact ⟨(List.nodup_cons.1 hp.1).2, fun x hx => (hp.2.2 x hx).1⟩
  | vL2ok d1 b r2 r1 hv hb2 =>
    rw [hv] at hp; simp only [Pend] at hp
    obtain ⟨p1, p2, p3⟩ := hp
    refine ⟨n1, n2, n3, hr, ?_⟩
    simp only [Pend]
    refine ⟨p1, p2, nodup_filter' _ n3, ?_, fun x hx => ?_⟩
    · intro m hm
      simpa [List.mem_filter] using (List.mem_filter.1 hm).2
    · obtain ⟨q1, q2⟩ := p3 x hx
      refine ⟨q1, fun e => ?_, fun hm => ?_⟩
      · have := q2 e
        simp only [List.mem_cons, not_or] at this
        exact this.2
      · have hm' := (List.mem_filter.1 hm).2
        simp only [Bool.and_eq_true, beq_iff_eq] at hm'
        have := q2 hm'.1
        simp only [List.mem_cons, not_or] at this
        exact this.1 hm'.2
  | vL2enoent d1 b r2 r1 hv hb2 =>
    rw [hv] at hp; simp only [Pend] at hp
    obtain ⟨p1, p2, p3⟩ := hp
    refine ⟨n1, n2, n3, hr, pend_onFail ?_⟩
    simp only [Pend]
    refine ⟨p1, (List.nodup_cons.1 p2).2, fun x hx => ?_⟩
    obtain ⟨q1, q2⟩ := p3 x hx
    refine ⟨q1, fun e => ?_⟩
    have := q2 e
    simp only [List.mem_cons, not_or] at this
    exact this.2
  | vL3done d1 d2 r2 r1 hv =>
    rw [hv] at hp; simp only [Pend] at hp
    obtain ⟨p1, p2, _, _, p5⟩ := hp
    refine ⟨n1, n2, n3, hr, ?_⟩
    simp only [Pend]
    exact ⟨p1, (List.nodup_cons.1 p2).2, fun x hx => ⟨(p5 x hx).1, (p5 x hx).2.1⟩⟩
  | vRead d1 d2 m r3 r2 r1 hv hl =>
    rw [hv] at hp; simp only [Pend] at hp
    obtain ⟨p1, p2, p3, p4, p5⟩ := hp
    have hm := p4 m (List.mem_cons_self ..)
    have hnew : m ∉ s.reported.map (·.1) := by
      intro hin
      obtain ⟨x, hx, e⟩ := List.mem_map.1 hin
      have := (p5 x hx).2.2
      rw [e] at this
      exact this (List.mem_cons_self ..)
    refine ⟨n1, n2, n3, ?_, ?_⟩
    · show ((s.reported ++ [(m, decide (m ∈ s.fs.idx))]).map (·.1)).Nodup
      rw [List.map_append, List.nodup_append]
      refine ⟨hr, by simp, ?_⟩
      intro a ha b hb
      simp only [List.map_cons, List.map_nil, List.mem_singleton] at hb
      subst hb
      exact fun e => hnew (e ▸ ha)
    · show Pend (s.reported ++ [(m, decide (m ∈ s.fs.idx))]) (.l3 d1 d2 r3 r2 r1)
      simp only [Pend]
      refine ⟨p1, p2, (List.nodup_cons.1 p3).2, fun m' hm' => p4 m' (List.mem_cons_of_mem _ hm'), ?_⟩
      intro x hx
      rcases List.mem_append.1 hx with hx | hx
      · obtain ⟨q1, q2, q3⟩ := p5 x hx
        exact ⟨q1, q2, fun h' => q3 (List.mem_cons_of_mem _ h')⟩
      · simp only [List.mem_singleton] at hx
        subst hx
        refine ⟨?_, fun _ => ?_, ?_⟩
        · show m.d1 ∉ r1
          rw [hm.1]; exact (List.nodup_cons.1 p1).1
        · show m.d2 ∉ r2
          rw [hm.2]; exact (List.nodup_cons.1 p2).1
        · exact (List.nodup_cons.1 p3).1
  | eLock d hd => exact ⟨n1, n2, n3, hr, hp⟩
  | eUnlock d hd => exact ⟨n1, n2, n3, hr, hp⟩
  | eMkD1 d hd hn => exact ⟨List.nodup_cons.2 ⟨hn, n1⟩, n2, n3, hr, hp⟩
  | eMkD2 d b hd h1' hn => exact ⟨n1, List.nodup_cons.2 ⟨hn, n2⟩, n3, hr, hp⟩
  | eMkMb m' hd hp' hn => exact ⟨n1, n2, List.nodup_cons.2 ⟨hn, n3⟩, hr, hp⟩
  | eWriteIdx m' hd hp' hn => exact ⟨n1, n2, n3, hr, hp⟩
  | eRmIdx m' hd hk' => exact ⟨n1, n2, n3, hr, hp⟩
  | eRmMb m' hd hk' => exact ⟨n1, n2, nodup_filter' _ n3, hr, hp⟩
  | eRmD2 d b hd he => exact ⟨n1, nodup_filter' _ n2, n3, hr, hp⟩
  | eRmD1 d hd he => exact ⟨nodup_filter' _ n1, n2, n3, hr, hp⟩

theorem once_inv {v keep fs s} (hwf : fs.WF) (h : Reach v keep fs s) : Once s := by
  induction h with
  | init => exact once_start hwf
  | step _ st ih => exact once_step st ih

/-- every mailbox directory is reported (callback invoked) at most once, in every reachable state, for both
    variants of the ENOENT handling -/
theorem once_reach {v keep fs s} (hwf : fs.WF) (h : Reach v keep fs s) : (s.reported.map (·.1)).Nodup :=
  (once_inv hwf h).rep

/-- in particular when the walk has finished -/
theorem once_done {v keep fs s} (hwf : fs.WF) (h : Reach v keep fs s) (_ : s.vpc = .done) :
    (s.reported.map (·.1)).Nodup :=
  once_reach hwf h

/-- two callback invocations at different positions are for different mailboxes -/
theorem once_reach_idx {v keep fs s} (hwf : fs.WF) (h : Reach v keep fs s) {i j : Nat}
    (hi : i < s.reported.length) (hj : j < s.reported.length) (hij : i ≠ j) :
    (s.reported[i]).1 ≠ (s.reported[j]).1 := by
  have hnd := List.pairwise_iff_getElem.1 (List.nodup_iff_pairwise_ne.1 (once_reach hwf h))
  intro e
  rcases Nat.lt_or_gt_of_ne hij with hlt | hlt
  · exact hnd i j (by simpa using hi) (by simpa using hj) hlt (by simpa using e)
  · exact hnd j i (by simpa using hj) (by simpa using hi) hlt (by simpa using e.symm)

/-- non-vacuity: a well-formed tree with two mailboxes -/
example : Fs.WF { d1s := [1, 2], d2s := [(1, 10), (2, 20)], mbs := [⟨1, 10, 100⟩, ⟨2, 20, 200⟩],
                  idx := [⟨1, 10, 100⟩, ⟨2, 20, 200⟩] } := by
  constructor <;> decide

end Ibx.Model.ConcFile
