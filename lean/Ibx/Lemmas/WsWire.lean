import Ibx.Model.WsWire
import Ibx.Lemmas.WsListener
/-
  Lemmas.WsWire — the wire model refines Model.WsListener; the inductive invariant of the one-message-per-event
  writer; soundness of the executable scheduler; helpers to build long runs of the batching writer.
-/
namespace Ibx.Lemmas.WsWire
open Ibx.Model.WsListener Ibx.Model.WsWire Ibx.Lemmas.WsListener Ibx.Spec.HubLog

/-! ### refinement: a wire step is a stutter or one step of the fixed listener protocol -/

theorem wstep_base {V : WsWriter} {F : Filter} {cap : Nat} {w w' : WSt} (st : WStep V F cap w w') :
    w'.s = w.s ∨ Step .fixed cap w.s w'.s := by
  cases st with
  | hubSkip => exact .inl rfl
  | nbSend e _ hr hb hc hl => exact .inr (.nbSend rfl hr hb hc hl)
  | nbClosed e _ hr hb hd => exact .inr (.nbClosed rfl hr hb hd)
  | nbSlow e _ hr hb hc hd hl => exact .inr (.nbSlow rfl hr hb hc hd hl)
  | hubRm hb hq => exact .inr (.hubRm hb hq)
  | rFail hr => exact .inr (.rFail hr)
  | cOnce r hp => exact .inr (.cOnce r rfl hp)
  | cRm r hp => exact .inr (.cRm r hp)
  | tick => exact .inl rfl
  | wTake _ hw hb => exact .inr (.wRecv hw hb)
  | wWriteOne => exact .inl rfl
  | wBatch => exact .inl rfl
  | wTakeMore _ hw hb => exact .inr (.wRecv hw hb)
  | wWriteBatch => exact .inl rfl
  | wWriteFail _ hw => exact .inr (.wFail hw)
  | wDone ok _ hw hd => exact .inr (.wSeesDone rfl hw hd)
  | wPing => exact .inl rfl
  | wPingFail _ hw => exact .inr (.wFail hw)

theorem wreach_base {V : WsWriter} {F : Filter} {cap : Nat} {w : WSt} (h : WReach V F cap w) : Reach .fixed cap w.s := by
  induction h with
  | init => exact .init
  | step _ st ih =>
    rcases wstep_base st with e | b
    · rw [e]; exact ih
    · exact .step ih b

/-- the writer goroutine never comes back into its loop -/
theorem writer_gone_stays_gone {cap : Nat} {s s' : St} (st : Step .fixed cap s s') (h : s.writer ≠ .run) :
    s'.writer ≠ .run := by
  cases st <;> simp only [St.setPc, St.push] <;> (try split) <;> simp_all [St.pc, Proto.fixed]

/-! ### lists of frames -/

@[simp] theorem noClose_nil : noClose [] := by simp [noClose]

theorem noClose_append {a b : List Frame} : noClose (a ++ b) ↔ noClose a ∧ noClose b := by
  simp only [noClose, List.mem_append]
  constructor
  · intro h; exact ⟨fun f hf => h f (.inl hf), fun f hf => h f (.inr hf)⟩
  · rintro ⟨h1, h2⟩ f (hf | hf)
    · exact h1 f hf
    · exact h2 f hf

theorem clientSees_append {a : List Frame} (h : noClose a) (b : List Frame) :
    clientSees (a ++ b) = clientSees a ++ clientSees b := by
  induction a with
  | nil => rfl
  | cons f rest ih =>
    have hr : noClose rest := fun g hg => h g (List.mem_cons_of_mem _ hg)
    have hf : f ≠ .close := h f (List.mem_cons_self ..)
    cases f with
    | close => exact absurd rfl hf
    | text evs => simp [clientSees, ih hr]
    | ping => simp [clientSees, ih hr]

theorem noClose_dropLast {a : List Frame} (h : noClose a) : noClose a.dropLast :=
  fun f hf => h f (List.dropLast_subset a hf)

/-- a prefix of 0, 1, 2, … is 0, 1, 2, … -/
theorem prefix_of_range {a b : List Nat} {n : Nat} (h : a ++ b = List.range n) : a = List.range a.length := by
  have h1 : (a ++ b).take a.length = a := by simp
  have hl : a.length ≤ n := by
    have := congrArg List.length h
    simp at this
    omega
  rw [h, List.take_range, Nat.min_eq_left hl] at h1
  exact h1.symm

/-- naming the events 0 … n-1 through the list of accepted events gives its first n elements -/
theorem range_named {α : Type} (l : List α) {n : Nat} (h : n ≤ l.length) :
    (List.range n).map (fun i => l[i]?) = (l.take n).map some := by
  apply List.ext_getElem?
  intro i
  by_cases hi : i < n
  · have hil : i < l.length := by omega
    simp [hi, hil]
  · simp [List.getElem?_take, hi]

/-! ### the inductive invariant of the one-message-per-event writer -/

structure WInv (F : Filter) (cap : Nat) (w : WSt) : Prop where
  base : FixedInv cap w.s
  stageRun : w.stage ≠ .select → w.s.writer = .run
  noBatch : ∀ m, w.stage ≠ .batch m
  holdSel : w.stage = .select → w.hold = []
  holdGot : w.stage = .got → ∃ e, w.hold = [e]
  frames : ∀ f ∈ w.wire, ∀ evs, f = .text evs → ∃ e, evs = [e]
  closeLast : noClose w.wire ∨ (w.s.writer ≠ .run ∧ ∃ pre, w.wire = pre ++ [.close] ∧ noClose pre)
  sees : clientSees w.wire ++ w.hold ++ w.unwritten = w.s.delivered
  onWire : ∀ f ∈ w.wire, ∀ i ∈ f.events, i ∈ w.s.delivered
  unwritten : w.unwritten = [] ∨ (w.s.writer ≠ .run ∧ ∃ e, w.unwritten = [e])
  failed : w.writeFailed = true → w.s.writer ≠ .run
  filt : w.accepted = w.offered.filter F.accepts
  count : w.accepted.length = w.s.next
  sentLe : w.s.delivered.length + w.s.buf.length ≤ w.s.next

theorem winv_init (F : Filter) (cap : Nat) : WInv F cap {} := by
  constructor
  case base => exact fixedInv_init cap
  case closeLast => exact .inl noClose_nil
  case unwritten => exact .inl rfl
  all_goals simp [clientSees]


theorem winv_step {F : Filter} {cap : Nat} {w w' : WSt} (h : WInv F cap w) (st : WStep .onePerFrame F cap w w') :
    WInv F cap w' := by
  have hb' : FixedInv cap w'.s := by
    rcases wstep_base st with e | b
    · rw [e]; exact h.base
    · exact fixedInv_step h.base b
  obtain ⟨h1, h2, h3, h4, h5, h6, h7, h8, h9, h10, h11, h12, h13, h14⟩ := h
  cases st with
  | hubSkip e hr ha =>
    refine ⟨hb', h2, h3, h4, h5, h6, h7, h8, h9, h10, h11, ?_, h13, h14⟩
    simp [List.filter_append, ha, h12]
  | nbSend e ha hr hbk hc hl =>
    refine ⟨hb', h2, h3, h4, h5, h6, h7, h8, h9, h10, h11, ?_, ?_, ?_⟩
    · simp [List.filter_append, ha, h12]
    · simp [St.push, h13]
    · simp only [St.push, List.length_append, List.length_singleton]; omega
  | nbClosed e ha hr hbk hd =>
    refine ⟨hb', h2, h3, h4, h5, h6, h7, h8, h9, h10, h11, ?_, ?_, ?_⟩
    · simp [List.filter_append, ha, h12]
    · simp [h13]
    · simp only []; omega
  | nbSlow e ha hr hbk hc hd hl =>
    refine ⟨hb', h2, h3, h4, h5, h6, h7, h8, h9, h10, h11, ?_, ?_, ?_⟩
    · simp [List.filter_append, ha, h12]
    · simp [h13]
    · simp only []; omega
  | hubRm hbk hq => exact ⟨hb', h2, h3, h4, h5, h6, h7, h8, h9, h10, h11, h12, h13, h14⟩
  | rFail hr => exact ⟨hb', h2, h3, h4, h5, h6, h7, h8, h9, h10, h11, h12, h13, h14⟩
  | cOnce r hp =>
    cases r with
    | true => exact ⟨hb', h2, h3, h4, h5, h6, h7, h8, h9, h10, h11, h12, h13, h14⟩
    | false =>
      have hw : w.s.writer = .closeSel := by simpa [St.pc] using hp
      have hsel : w.stage = .select := Classical.byContradiction fun hn => by rw [h2 hn] at hw; cases hw
      refine ⟨hb', fun hn => absurd hsel hn, h3, h4, h5, h6, ?_, h8, h9, ?_, fun _ => by simp [St.setPc], h12, h13, h14⟩
      · rcases h7 with h7 | ⟨_, h7⟩
        · exact .inl h7
        · exact .inr ⟨by simp [St.setPc], h7⟩
      · rcases h10 with h10 | ⟨_, h10⟩
        · exact .inl h10
        · exact .inr ⟨by simp [St.setPc], h10⟩
  | cRm r hp =>
    cases r with
    | true => exact ⟨hb', h2, h3, h4, h5, h6, h7, h8, h9, h10, h11, h12, h13, h14⟩
    | false =>
      have hw : w.s.writer = .closeRm := by simpa [St.pc] using hp
      have hsel : w.stage = .select := Classical.byContradiction fun hn => by rw [h2 hn] at hw; cases hw
      refine ⟨hb', fun hn => absurd hsel hn, h3, h4, h5, h6, ?_, h8, h9, ?_, fun _ => by simp [St.setPc], h12, h13, h14⟩
      · rcases h7 with h7 | ⟨_, h7⟩
        · exact .inl h7
        · exact .inr ⟨by simp [St.setPc], h7⟩
      · rcases h10 with h10 | ⟨_, h10⟩
        · exact .inl h10
        · exact .inr ⟨by simp [St.setPc], h10⟩
  | tick => exact ⟨hb', h2, h3, h4, h5, h6, h7, h8, h9, h10, h11, h12, h13, h14⟩
  | wTake hs hw hbuf =>
    rename_i e rest
    have hu : w.unwritten = [] := by
      rcases h10 with h10 | ⟨hn, _⟩
      · exact h10
      · exact absurd hw hn
    have hh : w.hold = [] := h4 hs
    refine ⟨hb', fun _ => hw, (fun m => by simp), (fun hn => by cases hn), fun _ => ⟨e, rfl⟩, h6, h7, ?_,
      fun f hf i hi => List.mem_append_left _ (h9 f hf i hi), h10, h11, h12, h13, ?_⟩
    · have := h8
      rw [hu, hh] at this
      simp only [List.append_nil] at this
      simp [hu, this]
    · have hl : w.s.buf.length = rest.length + 1 := by rw [hbuf]; rfl
      simp only [List.length_append, List.length_cons, List.length_nil]
      omega
  | wWriteOne hs hv =>
    have hw : w.s.writer = .run := h2 (by simp [hs])
    obtain ⟨e, he⟩ := h5 hs
    have hnc : noClose w.wire := by
      rcases h7 with h7 | ⟨hn, _⟩
      · exact h7
      · exact absurd hw hn
    refine ⟨hb', fun hn => absurd rfl hn, (fun m => by simp), fun _ => rfl, (fun hn => by cases hn), ?_,
      .inl (noClose_append.2 ⟨hnc, by simp [noClose]⟩), ?_, ?_, h10, h11, h12, h13, h14⟩
    · intro f hf evs hfe
      rcases List.mem_append.1 hf with hf | hf
      · exact h6 f hf evs hfe
      · simp only [List.mem_singleton] at hf
        subst hf
        injection hfe with hfe
        exact ⟨e, hfe ▸ he⟩
    · have := h8
      rw [he] at this
      simp only [he, clientSees_append hnc, clientSees, Frame.decoded, List.append_nil]
      simpa using this
    · intro f hf i hi
      rcases List.mem_append.1 hf with hf | hf
      · exact h9 f hf i hi
      · simp only [List.mem_singleton] at hf
        subst hf
        rw [← h8]
        simp only [Frame.events] at hi
        simp [hi]
  | wBatch hv => cases hv
  | wTakeMore hs => exact absurd hs (h3 _)
  | wWriteBatch hs => exact absurd hs (h3 _)
  | wWriteFail hs hw =>
    have hg : w.stage = .got := by
      cases hst : w.stage with
      | select => exact absurd hst hs
      | got => rfl
      | batch m => exact absurd hst (h3 m)
    obtain ⟨e, he⟩ := h5 hg
    have hu : w.unwritten = [] := by
      rcases h10 with h10 | ⟨hn, _⟩
      · exact h10
      · exact absurd hw hn
    have hnc : noClose w.wire := by
      rcases h7 with h7 | ⟨hn, _⟩
      · exact h7
      · exact absurd hw hn
    refine ⟨hb', fun hn => absurd rfl hn, (fun m => by simp), fun _ => rfl, (fun hn => by cases hn), h6,
      .inl hnc, ?_, h9, .inr ⟨by simp, e, by simp [hu, he]⟩, (fun _ => by simp), h12, h13, h14⟩
    have := h8
    rw [hu] at this ⊢
    simpa using this
  | wDone ok hs hw hd =>
    have hu : w.unwritten = [] := by
      rcases h10 with h10 | ⟨hn, _⟩
      · exact h10
      · exact absurd hw hn
    have hnc : noClose w.wire := by
      rcases h7 with h7 | ⟨hn, _⟩
      · exact h7
      · exact absurd hw hn
    cases ok with
    | false =>
      exact ⟨hb', fun hn => absurd hs hn, h3, h4, h5, h6, .inl hnc, h8, h9, .inl hu, (fun _ => by simp), h12, h13, h14⟩
    | true =>
      refine ⟨hb', fun hn => absurd hs hn, h3, h4, h5, ?_, .inr ⟨by simp, w.wire, rfl, hnc⟩, ?_, ?_, .inl hu,
        (fun _ => by simp), h12, h13, h14⟩
      · intro f hf evs hfe
        simp only [if_true, List.mem_append, List.mem_singleton] at hf
        rcases hf with hf | hf
        · exact h6 f hf evs hfe
        · subst hf
          cases hfe
      · have := h8
        simp only [if_true, clientSees_append hnc, clientSees, List.append_nil]
        exact this
      · intro f hf i hi
        simp only [if_true, List.mem_append, List.mem_singleton] at hf
        rcases hf with hf | hf
        · exact h9 f hf i hi
        · subst hf
          simp [Frame.events] at hi
  | wPing hs hw ht =>
    have hnc : noClose w.wire := by
      rcases h7 with h7 | ⟨hn, _⟩
      · exact h7
      · exact absurd hw hn
    refine ⟨hb', h2, h3, h4, h5, ?_, .inl (noClose_append.2 ⟨hnc, by simp [noClose]⟩), ?_, ?_, h10, h11, h12, h13, h14⟩
    · intro f hf evs hfe
      rcases List.mem_append.1 hf with hf | hf
      · exact h6 f hf evs hfe
      · simp only [List.mem_singleton] at hf
        subst hf
        cases hfe
    · have := h8
      simp only [clientSees_append hnc, clientSees, Frame.decoded, List.append_nil]
      exact this
    · intro f hf i hi
      rcases List.mem_append.1 hf with hf | hf
      · exact h9 f hf i hi
      · simp only [List.mem_singleton] at hf
        subst hf
        simp [Frame.events] at hi
  | wPingFail hs hw ht =>
    have hu : w.unwritten = [] := by
      rcases h10 with h10 | ⟨hn, _⟩
      · exact h10
      · exact absurd hw hn
    have hnc : noClose w.wire := by
      rcases h7 with h7 | ⟨hn, _⟩
      · exact h7
      · exact absurd hw hn
    exact ⟨hb', fun hn => absurd hs hn, h3, h4, h5, h6, .inl hnc, h8, h9, .inl hu, (fun _ => by simp), h12, h13, h14⟩


theorem winv {F : Filter} {cap : Nat} {w : WSt} (h : WReach .onePerFrame F cap w) : WInv F cap w := by
  induction h with
  | init => exact winv_init F cap
  | step _ st ih => exact winv_step ih st

/-! ### whatever the writer variant: inside an iteration the writer goroutine is alive -/

theorem stage_run {V : WsWriter} {F : Filter} {cap : Nat} {w : WSt} (h : WReach V F cap w) :
    w.stage ≠ .select → w.s.writer = .run := by
  induction h with
  | init => intro hn; exact absurd rfl hn
  | step _ st ih =>
    cases st with
    | cOnce r hp =>
      cases r with
      | true => exact ih
      | false =>
        intro hn
        have hw := ih hn
        simp [St.pc, hw] at hp
    | cRm r hp =>
      cases r with
      | true => exact ih
      | false =>
        intro hn
        have hw := ih hn
        simp [St.pc, hw] at hp
    | wTake _ hw => exact fun _ => hw
    | wWriteOne => exact fun hn => absurd rfl hn
    | wTakeMore _ hw => exact fun _ => hw
    | wWriteBatch => exact fun hn => absurd rfl hn
    | wWriteFail => exact fun hn => absurd rfl hn
    | wDone ok hs => exact fun hn => absurd hs hn
    | wPingFail hs => exact fun hn => absurd hs hn
    | wBatch _ hs => exact fun _ => ih (by simp [hs])
    | _ => exact ih

/-- once the writer goroutine has left its loop nothing more is written -/
theorem wire_frozen {V : WsWriter} {F : Filter} {cap : Nat} {w w' : WSt} (h : WReach V F cap w)
    (hw : w.s.writer ≠ .run) (st : WStep V F cap w w') : w'.wire = w.wire := by
  have sr := stage_run h
  cases st with
  | wWriteOne hs => exact absurd (sr (by simp [hs])) hw
  | wWriteBatch hs => exact absurd (sr (by simp [hs])) hw
  | wDone ok _ hr => exact absurd hr hw
  | wPing _ hr => exact absurd hr hw
  | _ => rfl

/-! ### the executable scheduler takes steps of the relation -/

theorem act_sound {V : WsWriter} {F : Filter} {cap : Nat} {w w' : WSt} {a : Act} (h : act V F cap w a = some w') :
    WStep V F cap w w' := by
  cases a with
  | offer e pd =>
    simp only [act] at h
    split at h
    · rename_i h0
      split at h
      · rename_i ha
        split at h
        · rename_i h1; cases h; exact .nbSend e ha h0.1 h0.2 h1.1 h1.2.1
        · split at h
          · rename_i hd; cases h; exact .nbClosed e ha h0.1 h0.2 hd
          · rename_i h1 hd
            split at h
            · rename_i h2; cases h
              exact .nbSlow e ha h0.1 h0.2 h2.1 (by simpa using hd) h2.2
            · cases h
      · rename_i ha; cases h; exact .hubSkip e h0.1 (by simpa using ha)
    · cases h
  | hubRm =>
    simp only [act] at h
    split at h
    · rename_i h0; cases h; exact .hubRm h0.1 h0.2
    · cases h
  | readerFail =>
    simp only [act] at h
    split at h
    · rename_i h0; cases h; exact .rFail h0
    · cases h
  | close r =>
    simp only [act] at h
    split at h
    · rename_i h0; cases h; exact .cOnce r h0
    · split at h
      · rename_i h0; cases h; exact .cRm r h0
      · cases h
  | tick => simp only [act] at h; cases h; exact .tick
  | take =>
    simp only [act] at h
    split at h
    · rename_i h0
      split at h
      · rename_i e rest hb; cases h; exact .wTake h0.1 h0.2 hb
      · cases h
    · cases h
  | write =>
    simp only [act] at h
    split at h
    · cases h
    · rename_i hs
      split at h
      · cases h; exact .wWriteOne hs (.inl rfl)
      · rename_i k
        split at h
        · rename_i hl; cases h; exact .wWriteOne hs (.inr ⟨k, rfl, hl⟩)
        · rename_i hl; cases h; exact .wBatch rfl hs (by omega)
    · rename_i hs; cases h; exact .wWriteBatch hs
    · rename_i m hs
      split at h
      · rename_i hw
        split at h
        · rename_i e rest hb; cases h; exact .wTakeMore hs hw hb
        · cases h
      · cases h
  | writeFail =>
    simp only [act] at h
    split at h
    · rename_i h0; cases h; exact .wWriteFail h0.1 h0.2
    · cases h
  | done ok =>
    simp only [act] at h
    split at h
    · rename_i h0; cases h; exact .wDone ok h0.1 h0.2.1 h0.2.2
    · cases h
  | ping ok =>
    simp only [act] at h
    split at h
    · rename_i h0
      split at h
      · cases h; exact .wPing h0.1 h0.2.1 h0.2.2
      · cases h; exact .wPingFail h0.1 h0.2.1 h0.2.2
    · cases h


/-! ### long runs (for the counter-witness of the batching writer) -/

/-- the events of the witness runs: stored messages 0, 1, 2, … of mailbox 0 -/
def evN (i : Nat) : Ev := .stored ⟨0, i, 0⟩

theorem pushN_init (n : Nat) :
    (pushN n ({} : St)).buf = List.range n ∧ (pushN n ({} : St)).delivered = [] ∧ (pushN n ({} : St)).next = n ∧
    (pushN n ({} : St)).writer = .run := by
  induction n with
  | zero => simp [pushN]
  | succ n ih =>
    obtain ⟨h1, h2, h3, h4⟩ := ih
    simp [pushN, St.push, h1, h2, h3, h4, List.range_succ]

/-- the hub queues n events in a row -/
theorem reach_offerN {V : WsWriter} {F : Filter} {cap : Nat} (hF : ∀ i, F.accepts (evN i) = true) (n : Nat) {w : WSt}
    (h : WReach V F cap w) (hr : w.s.registered = true) (hb : w.s.hubBlocked = false) (hc : w.s.chClosed = false)
    (hl : w.s.buf.length + n ≤ cap) :
    ∃ w', WReach V F cap w' ∧ w'.s = pushN n w.s ∧ w'.stage = w.stage ∧ w'.hold = w.hold ∧ w'.wire = w.wire ∧
      w'.unwritten = w.unwritten ∧ w'.writeFailed = w.writeFailed := by
  induction n with
  | zero => exact ⟨w, h, rfl, rfl, rfl, rfl, rfl, rfl⟩
  | succ n ih =>
    obtain ⟨w1, r1, e1, e2, e3, e4, e5, e6⟩ := ih (by omega)
    have f := pushN_fields n w.s
    refine ⟨_, .step r1 (.nbSend (evN n) (hF n) (by rw [e1, f.1, hr]) (by rw [e1, f.2.1, hb]) (by rw [e1, f.2.2.1, hc])
      (by rw [e1, f.2.2.2.1]; omega)), ?_, e2, e3, e4, e5, e6⟩
    simp [e1, pushN]

/-- the batching writer performs the m receives it committed to -/
theorem reach_takeMore {V : WsWriter} {F : Filter} {cap : Nat} (m : Nat) {w : WSt} (h : WReach V F cap w)
    (hs : w.stage = .batch m) (hw : w.s.writer = .run) (hl : m ≤ w.s.buf.length) :
    ∃ w', WReach V F cap w' ∧ w'.stage = .batch 0 ∧ w'.hold = w.hold ++ w.s.buf.take m ∧
      w'.s.delivered = w.s.delivered ++ w.s.buf.take m ∧ w'.s.buf = w.s.buf.drop m ∧ w'.wire = w.wire ∧
      w'.unwritten = w.unwritten ∧ w'.s.registered = w.s.registered ∧ w'.s.writer = .run ∧
      w'.writeFailed = w.writeFailed := by
  induction m generalizing w with
  | zero => exact ⟨w, h, hs, by simp, by simp, by simp, rfl, rfl, rfl, hw, rfl⟩
  | succ m ih =>
    match hb : w.s.buf, hl with
    | [], hl => simp at hl
    | e :: rest, hl =>
      obtain ⟨w2, r2, g1, g2, g3, g4, g5, g6, g7, g8, g9⟩ :=
        ih (.step h (.wTakeMore hs hw hb)) rfl hw (by simpa using hl)
      exact ⟨w2, r2, g1, by simpa using g2, by simpa using g3, by simpa using g4, g5, g6, g7, g8, g9⟩

end Ibx.Lemmas.WsWire
