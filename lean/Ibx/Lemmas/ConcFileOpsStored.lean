import Ibx.Lemmas.ConcFileOps
/-
  Lemmas for Props/C16File.lean, part 4: the `stored` events.  `StoreManager.Deliver` emits `stored(id)` once after each
  AddMessage that answered with an id — whatever the lock scope and the interleaving, the `stored` events a client has
  emitted plus the one it still owes are exactly, in order, the ids its deliveries were acknowledged with.
-/
namespace Ibx.Lemmas.ConcFileOps
open Ibx Ibx.Model.FsSteps Ibx.Model.ConcFileOps
open Ibx.Spec.Store (Meta)
open Ibx.Model.FileStore (FEnt)

/-- the ids thread `t`'s deliveries were acknowledged with, in the order of the index loads -/
def ackBy (t : Nat) : List (Nat × COp × Res) → List Nat
  | [] => []
  | (u, _, .id i) :: l => if u = t then i :: ackBy t l else ackBy t l
  | (_, _, _) :: l => ackBy t l

def owedN : Next → List Nat
  | .ret st => st.toList
  | .copy id _ _ => [id]
  | .append id _ => [id]

/-- the `stored` event a thread still owes -/
def owed : PC → List Nat
  | .crit _ n | .free _ n => owedN n
  | .returned st => st.toList
  | _ => []

theorem ackBy_append (t : Nat) (l1 l2 : List (Nat × COp × Res)) : ackBy t (l1 ++ l2) = ackBy t l1 ++ ackBy t l2 := by
  induction l1 with
  | nil => rfl
  | cons x l ih =>
    obtain ⟨u, op, r⟩ := x
    cases r <;> simp [ackBy, ih]
    split <;> simp

theorem storedBy_append (t : Nat) (l1 l2 : List (Nat × Ev)) : storedBy t (l1 ++ l2) = storedBy t l1 ++ storedBy t l2 := by
  induction l1 with
  | nil => rfl
  | cons x l ih =>
    obtain ⟨u, e⟩ := x
    cases e <;> simp [storedBy, ih]
    split <;> simp

theorem storedBy_stored (t u : Nat) (st : Option Nat) :
    storedBy t (st.toList.map (fun i => (u, Ev.stored i))) = if u = t then st.toList else [] := by
  cases st <;> simp [storedBy]

/-- what a load under either scope promises: an answer `id i` exactly when a `stored i` is owed -/
theorem load_owed (c : Cfg) (d : Option MDir) (op : COp) (t : Nat) :
    ackBy t [(t, op, (load c d op).res)] = owedN (load c d op).next := by
  have hW : ∀ op, ackBy t [(t, op, (loadW c d op).res)] = owedN (loadW c d op).next := by
    intro op
    cases op <;> simp only [loadW] <;> repeat' split
    all_goals simp [ackBy, owedN]
  unfold load
  cases c.scope with
  | wholeOp => exact hW op
  | splitAroundCopy =>
    cases op with
    | add id hdr src =>
      simp only [loadS]
      split <;> simp [ackBy, owedN]
    | _ => exact hW _

/-- a read is never answered with an id -/
theorem load_read (c : Cfg) (d : Option MDir) (op : COp) (t : Nat) (h : op.isRead = true) :
    ackBy t [(t, op, (load c d op).res)] = [] := by
  have hW : ackBy t [(t, op, (loadW c d op).res)] = [] := by
    cases op <;> simp [COp.isRead] at h <;> simp only [loadW] <;> repeat' split
    all_goals simp [ackBy]
  unfold load
  cases c.scope with
  | wholeOp => exact hW
  | splitAroundCopy => cases op <;> simp [COp.isRead] at h <;> exact hW

def StoredInv (s : St) : Prop :=
  (∀ t, storedBy t s.events ++ owed (s.thr t).pc = ackBy t s.log) ∧ ∀ t op, (s.thr t).pc = .rlocked op → op.isRead = true

set_option hygiene false in
local macro "rd_frame" t:ident : tactic =>
  `(tactic| (by_cases e : u = $t
             · subst e; simp at hu
             · rw [setThr_other _ _ _ _ e] at hu; exact h u op' hu))

private theorem reads_step {c : Cfg} {s s' : St} (h : ∀ t op, (s.thr t).pc = .rlocked op → op.isRead = true) (st : Step c s s') :
    ∀ t op, (s'.thr t).pc = .rlocked op → op.isRead = true := by
  intro u op' hu
  cases st with
  | rlock t op rest ht hr hw =>
    by_cases e : u = t
    · subst e; simp at hu; subst hu; exact hr
    · rw [setThr_other _ _ _ _ e] at hu; exact h u op' hu
  | act t a as n todo ht =>
    by_cases e : u = t
    · subst e; simp at hu
    · rw [setThr_other _ _ _ _ e] at hu; exact h u op' (by simpa using hu)
  | freeAct t a as n todo ht =>
    by_cases e : u = t
    · subst e; simp at hu
    · rw [setThr_other _ _ _ _ e] at hu; exact h u op' (by simpa using hu)
  | lock t op rest ht hr hf => rd_frame t
  | load t op todo ht => rd_frame t
  | unlockRet t st0 todo ht => rd_frame t
  | unlockCopy t id src stale todo ht => rd_frame t
  | relock t id stale todo ht hf => rd_frame t
  | stored t st0 todo ht => rd_frame t
  | rload t op todo ht => rd_frame t
  | runlock t todo ht => rd_frame t

theorem stored_step {c : Cfg} {s s' : St} (h0 : StoredInv s) (st : Step c s s') : StoredInv s' := by
  refine ⟨?_, reads_step h0.2 st⟩
  have h := h0.1
  intro u
  have hu := h u
  cases st with
  | lock t op rest ht hr hf =>
    by_cases e : u = t
    · subst e; simpa [ht, owed] using hu
    · simpa [setThr_other _ _ _ _ e] using hu
  | load t op todo ht =>
    by_cases e : u = t
    · subst e
      simp only [setThr_same, setThr_events, setThr_log, owed, ackBy_append, ← load_owed c s.dir op u]
      simpa [ht, owed] using hu
    · simp only [setThr_other _ _ _ _ e, setThr_events, setThr_log, ackBy_append]
      have : ackBy u [(t, op, (load c s.dir op).res)] = [] := by
        cases (load c s.dir op).res <;> simp [ackBy, Ne.symm e]
      simpa [this] using hu
  | act t a as n todo ht =>
    have hev : storedBy u (applyAct s t a).events = storedBy u s.events := by
      cases a <;> simp [applyAct, storedBy_append, storedBy]
    by_cases e : u = t
    · subst e; simpa [ht, owed, hev] using hu
    · simpa [setThr_other _ _ _ _ e, hev] using hu
  | unlockRet t st0 todo ht =>
    by_cases e : u = t
    · subst e; simpa [ht, owed, owedN] using hu
    · simpa [setThr_other _ _ _ _ e] using hu
  | unlockCopy t id src stale todo ht =>
    by_cases e : u = t
    · subst e; simpa [ht, owed, owedN] using hu
    · simpa [setThr_other _ _ _ _ e] using hu
  | freeAct t a as n todo ht =>
    have hev : storedBy u (applyAct s t a).events = storedBy u s.events := by
      cases a <;> simp [applyAct, storedBy_append, storedBy]
    by_cases e : u = t
    · subst e; simpa [ht, owed, hev] using hu
    · simpa [setThr_other _ _ _ _ e, hev] using hu
  | relock t id stale todo ht hf =>
    by_cases e : u = t
    · subst e; simpa [ht, owed, owedN] using hu
    · simpa [setThr_other _ _ _ _ e] using hu
  | stored t st0 todo ht =>
    by_cases e : u = t
    · subst e
      simpa [ht, owed, storedBy_append, storedBy_stored] using hu
    · simpa [setThr_other _ _ _ _ e, storedBy_append, storedBy_stored, Ne.symm e] using hu
  | rlock t op rest ht hr hw =>
    by_cases e : u = t
    · subst e; simpa [ht, owed] using hu
    · simpa [setThr_other _ _ _ _ e] using hu
  | rload t op todo ht =>
    by_cases e : u = t
    · subst e
      simp only [setThr_same, setThr_events, setThr_log, owed, ackBy_append, load_read c s.dir op u (h0.2 u op (by simp [ht]))]
      simpa [ht, owed] using hu
    · simp only [setThr_other _ _ _ _ e, setThr_events, setThr_log, ackBy_append]
      have : ackBy u [(t, op, (load c s.dir op).res)] = [] := by
        cases (load c s.dir op).res <;> simp [ackBy, Ne.symm e]
      simpa [this] using hu
  | runlock t todo ht =>
    by_cases e : u = t
    · subst e; simpa [ht, owed] using hu
    · simpa [setThr_other _ _ _ _ e] using hu

theorem stored_reach {c : Cfg} {d0 : Option MDir} {s : St} (h : Reach c d0 s) : StoredInv s := by
  induction h with
  | init hi =>
    obtain ⟨_, _, _, he, hl, _, hp⟩ := hi
    exact ⟨fun t => by simp [he, hl, hp t, storedBy, owed, ackBy], fun t op ht => by simp [hp t] at ht⟩
  | step _ st ih => exact stored_step ih st

end Ibx.Lemmas.ConcFileOps
