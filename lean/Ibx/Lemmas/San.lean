import Ibx.Model.Css
import Ibx.Model.TextHtml
/- Helper lemmas for C18 (CSS state machine, escaping, newline replacer, tag stripping). -/
namespace Ibx.Lemmas.San
open Ibx Ibx.Model.Css

/-! ### CSS -/

def semi : Token := ⟨.char, [59]⟩

/-- a token that may occur inside a declaration after its property: not the terminating `;`,
    and not one of the two tokens that stop the loop -/
def BodyTok (t : Token) : Prop := isSemi t = false ∧ t.ty ≠ .eof ∧ t.ty ≠ .error

/-- the language of `sanitizeStyle`'s output, as tokens -/
inductive Clean : List Token → Prop
  | nil : Clean []
  | marker (ty : TT) (r : List Token) : ty ≠ .ident → ty ≠ .s → ty ≠ .eof → ty ≠ .error → Clean r →
      Clean (⟨.comment, marker ty⟩ :: r)
  | decl (id : Token) (body r : List Token) : id.ty = .ident → allowedIdent id.val = true →
      (∀ t ∈ body, BodyTok t) → Clean r → Clean (id :: (body ++ semi :: r))
  | last (id : Token) (body : List Token) : id.ty = .ident → allowedIdent id.val = true →
      (∀ t ∈ body, BodyTok t) → Clean (id :: body)

/-- what `stateValid` produces from the middle of a declaration -/
def Tail (o : List Token) : Prop :=
  (∀ t ∈ o, BodyTok t) ∨ ∃ body r, (∀ t ∈ body, BodyTok t) ∧ Clean r ∧ o = body ++ semi :: r

theorem isSemi_eq {t : Token} (h : isSemi t = true) : t = semi := by
  cases t with | mk ty v =>
  simp [isSemi] at h
  simp [semi, h.1, h.2]

theorem tail_cons {t : Token} {o : List Token} (hb : BodyTok t) (h : Tail o) : Tail (t :: o) := by
  rcases h with h | ⟨body, r, hb', hc, rfl⟩
  · left; intro x hx; simp at hx; rcases hx with rfl | hx; exact hb; exact h x hx
  · right; refine ⟨t :: body, r, ?_, hc, by simp⟩
    intro x hx; simp at hx; rcases hx with rfl | hx; exact hb; exact hb' x hx

theorem clean_of_tail {id : Token} {o : List Token} (h1 : id.ty = .ident) (h2 : allowedIdent id.val = true)
    (h : Tail o) : Clean (id :: o) := by
  rcases h with h | ⟨body, r, hb, hc, rfl⟩
  · exact Clean.last id o h1 h2 h
  · exact Clean.decl id body r h1 h2 hb hc

theorem emit_stop {st : St} {t : Token} {ts : List Token} (h : t.ty = .eof) : emit st (t :: ts) = some [] := by
  simp [emit, h]

theorem emit_err {st : St} {t : Token} {ts : List Token} (h : t.ty = .error) : emit st (t :: ts) = none := by
  simp [emit, h]

theorem emit_cons {st : St} {t : Token} {ts : List Token} (h1 : t.ty ≠ .eof) (h2 : t.ty ≠ .error) :
    emit st (t :: ts) = (emit (emitTok st t).2 ts).map ((emitTok st t).1 ++ ·) := by
  rw [emit]; simp only [h1, h2, if_false]
  cases emit (emitTok st t).2 ts <;> rfl

theorem emit_spec (ts : List Token) :
    (∀ o, emit .start ts = some o → Clean o) ∧ (∀ o, emit .eat ts = some o → Clean o) ∧
    (∀ o, emit .valid ts = some o → Tail o) := by
  induction ts with
  | nil =>
    refine ⟨?_, ?_, ?_⟩ <;> intro o h <;> simp [emit] at h <;> subst h
    · exact Clean.nil
    · exact Clean.nil
    · left; simp
  | cons t ts ih =>
    obtain ⟨ihs, ihe, ihv⟩ := ih
    by_cases h1 : t.ty = .eof
    · simp only [emit_stop h1, Option.some.injEq]
      refine ⟨?_, ?_, ?_⟩ <;> intro o h <;> subst h
      · exact Clean.nil
      · exact Clean.nil
      · left; simp
    by_cases h2 : t.ty = .error
    · simp [emit_err h2]
    simp only [emit_cons h1 h2, Option.map_eq_some_iff]
    refine ⟨?_, ?_, ?_⟩
    · rintro o ⟨o', he, rfl⟩
      by_cases hid : t.ty = .ident
      · by_cases hal : allowedIdent t.val = true
        · simp [emitTok, hid, hal] at he ⊢
          exact clean_of_tail hid hal (ihv o' he)
        · simp [emitTok, hid, hal] at he ⊢
          exact ihe o' he
      · by_cases hs : t.ty = .s
        · simp [emitTok, hs] at he ⊢
          exact ihs o' he
        · simp [emitTok, hid, hs] at he ⊢
          exact Clean.marker t.ty o' hid hs h1 h2 (ihe o' he)
    · rintro o ⟨o', he, rfl⟩
      by_cases hsemi : isSemi t = true
      · simp [emitTok, hsemi] at he ⊢
        exact ihs o' he
      · simp [emitTok, hsemi] at he ⊢
        exact ihe o' he
    · rintro o ⟨o', he, rfl⟩
      by_cases hsemi : isSemi t = true
      · simp [emitTok, hsemi] at he ⊢
        right
        exact ⟨[], o', by simp, ihs o' he, by simp [isSemi_eq hsemi]⟩
      · simp [emitTok, hsemi] at he ⊢
        exact tail_cons ⟨by simpa using hsemi, h1, h2⟩ (ihv o' he)

theorem step_emitTok (st : St) (t : Token) :
    (step st t).1 = vals (emitTok st t).1 ∧ (step st t).2 = (emitTok st t).2 := by
  cases st <;> simp only [step, emitTok] <;> (repeat' split) <;> simp [vals]

theorem vals_append (a b : List Token) : vals (a ++ b) = vals a ++ vals b := by simp [vals]

theorem run_emit (st : St) (ts : List Token) : run st ts = (emit st ts).map vals := by
  induction ts generalizing st with
  | nil => simp [run, emit, vals]
  | cons t ts ih =>
    unfold run emit
    split
    · simp [vals]
    · split
      · simp
      · rw [ih, (step_emitTok st t).1, (step_emitTok st t).2]
        cases emit (emitTok st t).2 ts <;> simp [vals_append]

theorem declsOK_body (body : List Token) (r : List Token) (hb : ∀ t ∈ body, BodyTok t) :
    declsOK true (body ++ semi :: r) = declsOK false r := by
  induction body with
  | nil => simp [declsOK, semi, isSemi]
  | cons t body ih =>
    have ht := hb t (by simp)
    simp only [List.cons_append, declsOK]
    simp [ht.1, ht.2.1, ht.2.2]
    exact ih (fun x hx => hb x (by simp [hx]))

theorem declsOK_body_last (body : List Token) (hb : ∀ t ∈ body, BodyTok t) :
    declsOK true body = true := by
  induction body with
  | nil => simp [declsOK]
  | cons t body ih =>
    have ht := hb t (by simp)
    simp only [declsOK]
    simp [ht.1, ht.2.1, ht.2.2]
    exact ih (fun x hx => hb x (by simp [hx]))

theorem clean_declsOK {o : List Token} (h : Clean o) : declsOK false o = true := by
  induction h with
  | nil => simp [declsOK]
  | marker ty r _ _ _ _ _ ih => simp [declsOK, ih]
  | decl id body r h1 h2 hb _ ih => simp [declsOK, h1, h2, declsOK_body body r hb, ih]
  | last id body h1 h2 hb => simp [declsOK, h1, h2, declsOK_body_last body hb]

end Ibx.Lemmas.San
