import Ibx.Lemmas.ConcMemAcct
/-
  Consequences of the accounting invariant: the split of `cur` into the registered and the popped-but-not-yet-
  subtracted messages, the state at quiescence (the concurrent analogue of C08.no_drift / size_bound), and the
  trivial case of a store without size enforcer (limit 0: the channels are nil, nothing is ever sent).
-/
namespace Ibx.Model.ConcMem

theorem sumSize_perm (size : Key → Nat) {l l' : List Key} (h : l.Perm l') : sumSize size l = sumSize size l' := by
  induction h with
  | nil => rfl
  | cons x _ ih => simp [ih]
  | swap x y l => simp only [sumSize_cons]; omega
  | trans _ _ ih1 ih2 => exact ih1.trans ih2

theorem sumSize_append (size : Key → Nat) (l l' : List Key) : sumSize size (l ++ l') = sumSize size l + sumSize size l' := by
  induction l with
  | nil => simp
  | cons x xs ih => simp only [List.cons_append, sumSize_cons, ih]; omega

/-- the counted messages that the eviction loop has already popped from `all` -/
def popped (s : St) : List Key := s.counted.filter (fun k => !s.all.contains k)

/-- `cur` = the bytes of the messages registered in `all` + the bytes of the popped, not yet subtracted ones -/
theorem Acct.split {c : Cfg} {s : St} (h : Acct c s) :
    s.cur = sumSize s.size s.all + sumSize s.size (popped s) := by
  have hp := List.filter_append_perm (fun k => s.all.contains k) s.counted
  have hnd : (s.counted.filter (fun k => s.all.contains k)).Nodup := h.cnd.sublist List.filter_sublist
  have ha : (s.counted.filter (fun k => s.all.contains k)).Perm s.all := by
    rw [List.perm_ext_iff_of_nodup hnd h.and]
    intro k
    simp only [List.mem_filter, List.contains_iff_mem]
    exact ⟨fun q => q.2, fun q => ⟨h.sub k q, q⟩⟩
  rw [h.sum, ← sumSize_perm s.size hp, sumSize_append, sumSize_perm s.size ha]; rfl

/-- where a popped message is: its eviction is in flight, or it has been deleted from its map by a client whose
    enforcerRemove is still pending -/
theorem Acct.popped_where {c : Cfg} {s : St} (h : Acct c s) (hP : PendInv s) (k : Key) (hk : k ∈ popped s) :
    evPre s k ∨ evPost s k true ∨ (¬ live s.abs k ∧ hasRem s k) := by
  simp only [popped, List.mem_filter, Bool.not_eq_true'] at hk
  have hna : k ∉ s.all := fun hm => by
    have := List.contains_iff_mem.mpr hm; rw [hk.2] at this; cases this
  rcases h.wher k hk.1 with q | q | q | q
  · exact absurd q hna
  · exact Or.inl q
  · exact Or.inr (Or.inl q)
  · refine Or.inr (Or.inr ⟨?_, q⟩)
    rcases q with ⟨t', z⟩ | ⟨t', z⟩
    · exact (hP.remT k t' z).1
    · exact (hP.remE k t' z).1

/-- no operation is past its critical section with enforcer calls outstanding, and the enforcer is in its
    `select` (in particular: every thread idle) -/
def Quiescent (s : St) : Prop := s.epc = .idle ∧ ∀ t, todoPC (s.thr t) = []

theorem quiescent_of_idle {s : St} (he : s.epc = .idle) (h : ∀ t, s.thr t = .idle) : Quiescent s :=
  ⟨he, fun t => by rw [h t]; rfl⟩

/-- at quiescence `all` enumerates exactly the messages in the maps, each once, `cur` is the sum of their
    sizes, and it does not exceed the limit -/
theorem Acct.quiescent {c : Cfg} {s : St} (h : Acct c s) (hq : Quiescent s) :
    (∀ k, k ∈ s.all ↔ live s.abs k) ∧ s.all.Nodup ∧ s.cur = sumSize s.size s.all ∧ s.cur ≤ (c.limit : Int) := by
  obtain ⟨he, ht⟩ := hq
  have nR : ∀ k, ¬ hasRem s k := by intro k hr; simp [hasRem, he, ht] at hr
  have nI : ∀ k, ¬ hasInc s k := by intro k hr; simp [hasInc, he, ht] at hr
  have nP : ∀ k, ¬ evPre s k := by intro k hr; simp [evPre, he] at hr
  have nQ : ∀ k f, ¬ evPost s k f := by intro k f hr; simp [evPost, he] at hr
  have hca : ∀ k, k ∈ s.counted → k ∈ s.all := by
    intro k hk
    rcases h.wher k hk with q | q | q | q
    · exact q
    · exact absurd q (nP k)
    · exact absurd q (nQ k _)
    · exact absurd q (nR k)
  have hperm : s.counted.Perm s.all := by
    rw [List.perm_ext_iff_of_nodup h.cnd h.and]; exact fun k => ⟨hca k, h.sub k⟩
  have hsum : s.cur = sumSize s.size s.all := by rw [h.sum]; exact sumSize_perm _ hperm
  refine ⟨fun k => ⟨fun hk => ?_, fun hk => ?_⟩, h.and, hsum, ?_⟩
  · rcases h.alive k (h.sub k hk) with q | q | q
    · exact q
    · exact absurd q (nR k)
    · exact absurd q (nQ k _)
  · rcases h.lv k hk with q | q | q
    · exact q
    · exact absurd q (nI k)
    · exact absurd q (nP k)
  · rcases h.q (Or.inl he) with q | q
    · exact q
    · rw [hsum, q]; simp

/-! ### no enforcer (limit 0) -/

structure EnfOff (s : St) : Prop where
  idle : s.epc = .idle
  all : s.all = []
  cur : s.cur = 0
  counted : s.counted = []
  todo : ∀ t x, x ∈ todoPC (s.thr t) → x = Instr.unlock

theorem enfOff_init (p) : EnfOff (init p) := ⟨rfl, rfl, rfl, rfl, by simp [init, todoPC]⟩

theorem enfOff_step {v c s s'} (hl : c.limit = 0) (st : Step v c s s') (h : EnfOff s) : EnfOff s' := by
  obtain ⟨h1, h2, h3, h4, h5⟩ := h
  have upd_todo : ∀ (t : Nat) (pc : PC), (∀ x, x ∈ todoPC pc → x = Instr.unlock) →
      ∀ t' x, x ∈ todoPC (upd s.thr t pc t') → x = Instr.unlock := by
    intro t pc hpc t' x hx
    by_cases e : t' = t
    · subst e; rw [upd_same] at hx; exact hpc x hx
    · rw [upd_other _ _ _ _ e] at hx; exact h5 t' x hx
  cases st with
  | start t o rest hp ht hpr => exact ⟨h1, h2, h3, h4, upd_todo t _ (by simp)⟩
  | lockS t o hp ht hl' => exact ⟨h1, h2, h3, h4, upd_todo t _ (by simp)⟩
  | unlockS t o hp ht => exact ⟨h1, h2, h3, h4, upd_todo t _ (by simp)⟩
  | lockB t o hp ht hl' => exact ⟨h1, h2, h3, h4, upd_todo t _ (by simp)⟩
  | crit t o hp ht => exact ⟨h1, h2, h3, h4, upd_todo t _ (by simp [todoOf, hl])⟩
  | unlockB t o todo r hp ht =>
    refine ⟨h1, h2, h3, h4, upd_todo t _ ?_⟩
    intro x hx; exact h5 t x (by rw [ht]; exact List.mem_cons_of_mem _ hx)
  | sendInc t o k todo r hp ht he => have := h5 t (.inc k) (by simp [ht]); cases this
  | sendRem t o k todo r hp ht he => have := h5 t (.rem k) (by simp [ht]); cases this
  | finish t o r hp ht => exact ⟨h1, h2, h3, h4, upd_todo t _ (by simp)⟩
  | incGone t k hp he hg => rw [h1] at he; cases he
  | incReg t k hp he hg => rw [h1] at he; cases he
  | loopDone t hp he hc => rw [h1] at he; cases he
  | loopEmpty t hp he hc ha => rw [h1] at he; cases he
  | loopEvict t k rest hp he hc ha => rw [h1] at he; cases he
  | evLockS t k hp he hl' => rw [h1] at he; cases he
  | evUnlockS t k hp he => rw [h1] at he; cases he
  | evLockB t k hp he hl' hr => rw [h1] at he; cases he
  | evCrit t k hp he => rw [h1] at he; cases he
  | evUnlockB t k f hp he => rw [h1] at he; cases he
  | remGone t k hp he hel hv => rw [h1] at he; cases he
  | remPanic t k hp he hel hv => rw [h1] at he; cases he
  | remUnlink t k hp he hel => rw [h1] at he; cases he
  | fin t hp he => rw [h1] at he; cases he


/-! ### the enforcer is busy only on behalf of a waiting client -/

def ServInv (s : St) : Prop := ∀ t, served s.epc = some t → ∃ o todo r, s.thr t = .wait o todo r

theorem servInv_init (p) : ServInv (init p) := by intro t h; simp [init] at h

theorem servInv_step {v c s s'} (st : Step v c s s') (h : ServInv s) : ServInv s' := by
  have keep : ∀ (t0 : Nat) (pc : PC), (∀ o todo r, s.thr t0 ≠ .wait o todo r) →
      ∀ t, served s.epc = some t → ∃ o todo r, upd s.thr t0 pc t = .wait o todo r := by
    intro t0 pc hne t ht
    obtain ⟨o, todo, r, hw⟩ := h t ht
    have e : t ≠ t0 := fun e => hne o todo r (e ▸ hw)
    exact ⟨o, todo, r, by simp [upd, e, hw]⟩
  cases st with
  | start t o rest hp ht hpr => exact keep t _ (by simp [ht])
  | lockS t o hp ht hl => exact keep t _ (by simp [ht])
  | unlockS t o hp ht => exact keep t _ (by simp [ht])
  | lockB t o hp ht hl => exact keep t _ (by simp [ht])
  | crit t o hp ht => exact keep t _ (by simp [ht])
  | unlockB t o todo r hp ht => exact keep t _ (by simp [ht])
  | finish t o r hp ht => exact keep t _ (by simp [ht])
  | sendInc t o k todo r hp ht he =>
    intro t' ht'; simp at ht'; subst ht'; exact ⟨o, todo, r, by simp⟩
  | sendRem t o k todo r hp ht he =>
    intro t' ht'; simp at ht'; subst ht'; exact ⟨o, todo, r, by simp⟩
  | fin t hp he => intro t' ht'; simp at ht'
  | evCrit t k hp he => intro t' ht'; exact h t' (by rw [he]; simpa using ht')
  | incGone t k hp he hg => intro t' ht'; exact h t' (by rw [he]; simpa using ht')
  | incReg t k hp he hg => intro t' ht'; exact h t' (by rw [he]; simpa using ht')
  | loopDone t hp he hc => intro t' ht'; exact h t' (by rw [he]; simpa using ht')
  | loopEmpty t hp he hc ha => intro t' ht'; exact h t' (by rw [he]; simpa using ht')
  | loopEvict t k rest hp he hc ha => intro t' ht'; exact h t' (by rw [he]; simpa using ht')
  | evLockS t k hp he hl => intro t' ht'; exact h t' (by rw [he]; simpa using ht')
  | evUnlockS t k hp he => intro t' ht'; exact h t' (by rw [he]; simpa using ht')
  | evLockB t k hp he hl hr => intro t' ht'; exact h t' (by rw [he]; simpa using ht')
  | evUnlockB t k f hp he => intro t' ht'; exact h t' (by rw [he]; simpa using ht')
  | remGone t k hp he hel hv => intro t' ht'; exact h t' (by rw [he]; simpa using ht')
  | remPanic t k hp he hel hv => intro t' ht'; exact h t' ht'
  | remUnlink t k hp he hel => intro t' ht'; exact h t' (by rw [he]; simpa using ht')

/-- when every client thread is idle the enforcer is in its `select` -/
theorem quiescent_of_final {s : St} (h : ServInv s) (hf : ∀ t, s.thr t = .idle) : Quiescent s := by
  refine quiescent_of_idle ?_ hf
  cases he : s.epc with
  | idle => rfl
  | _ =>
    exfalso
    have : ∃ t, served s.epc = some t := by rw [he]; exact ⟨_, rfl⟩
    obtain ⟨t, ht⟩ := this
    obtain ⟨o, todo, r, hw⟩ := h t ht
    rw [hf t] at hw; cases hw

end Ibx.Model.ConcMem
