import Ibx.Model.ParseIP
/-
  Helper lemmas for the net.ParseIP model, part 2: the shape of a successful run of the IPv6 loop.
  `Run n s ell iF eF` describes, constructor by constructor, the texts `s` on which `for i < 16 { … }`, entered with
  `n = (16 - i) / 2` groups to go and ellipsis `ell`, ends with the whole text consumed, `i = iF`, ellipsis `eF`.
-/
namespace Ibx.Lemmas.ParseIPShape
open Ibx Ibx.Bytes Ibx.Model.ParseIP

/-- one group: 1 to 4 hex digits -/
def Hex4 (h : Bytes) : Prop := h ≠ [] ∧ h.length ≤ 4 ∧ ∀ c ∈ h, isHexB c = true

theorem hexScan_inv {s : Bytes} {off acc o a : Nat} {r : Bytes} (h : hexScan s off acc = some (o, a, r)) :
    ∃ hx, s = hx ++ r ∧ (∀ c ∈ hx, isHexB c = true) ∧ o = off + hx.length ∧ (off ≤ 4 → o ≤ 4) ∧
      (∀ c, r.head? = some c → isHexB c = false) := by
  induction s generalizing off acc with
  | nil =>
    simp only [hexScan, Option.some.injEq, Prod.mk.injEq] at h
    obtain ⟨rfl, _, rfl⟩ := h
    exact ⟨[], rfl, by simp, by simp, fun h => h, by simp⟩
  | cons c t ih =>
    by_cases hc : isHexB c = true
    · simp only [hexScan, hc, if_true] at h
      split at h
      · cases h
      · split at h
        · cases h
        · obtain ⟨hx, h1, h2, h3, h4, h5⟩ := ih h
          refine ⟨c :: hx, by rw [h1]; rfl, ?_, by simp; omega, fun _ => h4 (by omega), h5⟩
          intro x hx'
          rcases List.mem_cons.mp hx' with rfl | hx'
          · exact hc
          · exact h2 x hx'
    · have hc' : isHexB c = false := by simpa using hc
      simp only [hexScan, hc', Bool.false_eq_true, if_false, Option.some.injEq, Prod.mk.injEq] at h
      obtain ⟨rfl, _, rfl⟩ := h
      exact ⟨[], rfl, by simp, by simp, fun h => h, by simp [hc']⟩

theorem sepStep_stop {rest : Bytes} {i : Nat} {ell e : Option Nat} (h : sepStep rest i ell = .stop e) :
    (rest = [] ∧ e = ell) ∨ (rest = [58, 58] ∧ ell = none ∧ e = some i) := by
  match rest with
  | [] => simp only [sepStep, Sep.stop.injEq] at h; exact .inl ⟨rfl, h.symm⟩
  | [c] =>
    simp only [sepStep] at h
    split at h <;> cases h
  | c :: c1 :: r2 =>
    simp only [sepStep] at h
    split at h
    · cases h
    · rename_i hc
      split at h
      · rename_i hc1
        split at h
        · cases h
        · rename_i he
          split at h
          · rename_i hr
            simp only [Sep.stop.injEq] at h
            right
            simp only [bne_iff_ne, ne_eq, Decidable.not_not] at hc
            simp only [beq_iff_eq] at hc1
            simp only [List.isEmpty_iff] at hr
            subst hc hc1 hr
            cases ell with
            | none => exact ⟨rfl, rfl, h.symm⟩
            | some _ => simp at he
          · cases h
      · cases h

theorem sepStep_next {rest : Bytes} {i : Nat} {ell e : Option Nat} {s' : Bytes}
    (h : sepStep rest i ell = .next s' e) :
    (rest = 58 :: s' ∧ s' ≠ [] ∧ s'.head? ≠ some 58 ∧ e = ell) ∨
    (rest = 58 :: 58 :: s' ∧ s' ≠ [] ∧ ell = none ∧ e = some i) := by
  match rest with
  | [] => simp only [sepStep] at h; cases h
  | [c] =>
    simp only [sepStep] at h
    split at h <;> cases h
  | c :: c1 :: r2 =>
    simp only [sepStep] at h
    split at h
    · cases h
    · rename_i hc
      simp only [bne_iff_ne, ne_eq, Decidable.not_not] at hc
      subst hc
      split at h
      · rename_i hc1
        simp only [beq_iff_eq] at hc1
        subst hc1
        split at h
        · cases h
        · rename_i he
          split at h
          · cases h
          · rename_i hr
            simp only [Sep.next.injEq] at h
            obtain ⟨rfl, rfl⟩ := h
            right
            refine ⟨rfl, by simpa using hr, ?_, rfl⟩
            cases ell with
            | none => rfl
            | some _ => simp at he
      · rename_i hc1
        simp only [Sep.next.injEq] at h
        obtain ⟨rfl, rfl⟩ := h
        left
        refine ⟨rfl, by simp, ?_, rfl⟩
        simp only [List.head?_cons, ne_eq, Option.some.injEq]
        simpa using hc1

/-- the value of `i` on entry to the iteration with `n` groups to go -/
def idx (n : Nat) : Nat := 16 - 2 * n

/-- successful runs of the loop that consume the whole text -/
inductive Run : Nat → Bytes → Option Nat → Nat → Option Nat → Prop
  /-- `i = 16`: the loop is not entered; nothing may be left -/
  | done (ell : Option Nat) : Run 0 [] ell 16 ell
  /-- a group, then the end of the string -/
  | last (n : Nat) (h : Bytes) (ell : Option Nat) : Hex4 h → Run (n + 1) h ell (idx (n + 1) + 2) ell
  /-- a group, then "::" at the very end -/
  | lastDC (n : Nat) (h : Bytes) : Hex4 h →
      Run (n + 1) (h ++ [58, 58]) none (idx (n + 1) + 2) (some (idx (n + 1) + 2))
  /-- an embedded IPv4 address: after "::" or in the last two fields, and only where four bytes still fit -/
  | v4 (n : Nat) (h t : Bytes) (ell : Option Nat) (f : List Nat) : Hex4 h →
      parseIPv4Fields (h ++ 46 :: t) = some f → (ell ≠ none ∨ idx (n + 1) = 12) → idx (n + 1) + 4 ≤ 16 →
      Run (n + 1) (h ++ 46 :: t) ell (idx (n + 1) + 4) ell
  /-- a group, ':' and more groups -/
  | colon (n : Nat) (h s' : Bytes) (ell : Option Nat) (iF : Nat) (eF : Option Nat) : Hex4 h → s' ≠ [] →
      s'.head? ≠ some 58 → Run n s' ell iF eF → Run (n + 1) (h ++ 58 :: s') ell iF eF
  /-- a group, "::" (the first one) and more groups -/
  | dcolon (n : Nat) (h s' : Bytes) (iF : Nat) (eF : Option Nat) : Hex4 h → s' ≠ [] →
      Run n s' (some (idx (n + 1) + 2)) iF eF → Run (n + 1) (h ++ 58 :: 58 :: s') none iF eF

/-- every successful run of `v6Loop` that leaves nothing unparsed is one of the shapes of `Run` -/
theorem v6Loop_run {n : Nat} {s : Bytes} {ip : List Nat} {ell : Option Nat} {o : V6Out}
    (h : v6Loop n s ip ell = some o) (hr : o.rest = []) : Run n s ell o.i o.ellipsis := by
  induction n generalizing s ip ell with
  | zero =>
    simp only [v6Loop, Option.some.injEq] at h
    subst h
    simp only at hr
    subst hr
    exact Run.done ell
  | succ n ih =>
    simp only [v6Loop] at h
    cases hs : hexScan s 0 0 with
    | none => rw [hs] at h; cases h
    | some t =>
      obtain ⟨off, acc, rest⟩ := t
      rw [hs] at h
      obtain ⟨hx, rfl, hhex, hoff, h4, hhead⟩ := hexScan_inv hs
      simp only at h
      split at h
      · cases h
      · rename_i hoff0
        have hH : Hex4 hx := by
          refine ⟨?_, ?_, hhex⟩
          · intro h0; subst h0; simp at hoff; subst hoff; simp at hoff0
          · have := h4 (by omega); omega
        split at h
        · rename_i hdot
          split at h
          · cases h
          · rename_i hcond
            split at h
            · cases h
            · rename_i hfit
              cases hp : parseIPv4Fields (hx ++ rest) with
              | none => rw [hp] at h; cases h
              | some f =>
                rw [hp] at h
                simp only [Option.some.injEq] at h
                subst h
                cases rest with
                | nil => simp at hdot
                | cons c t =>
                  simp only [List.head?_cons, beq_iff_eq, Option.some.injEq] at hdot
                  subst hdot
                  refine Run.v4 n hx t ell f hH hp ?_ (by simp only [idx]; omega)
                  cases ell with
                  | none => right; simpa [idx] using hcond
                  | some _ => left; simp
        · cases hsep : sepStep rest (16 - 2 * (n + 1) + 2) ell with
          | err => rw [hsep] at h; cases h
          | stop e =>
            rw [hsep] at h
            simp only [Option.some.injEq] at h
            subst h
            rcases sepStep_stop hsep with ⟨rfl, rfl⟩ | ⟨rfl, rfl, rfl⟩
            · rw [List.append_nil]; exact Run.last n hx e hH
            · exact Run.lastDC n hx hH
          | next s' e =>
            rw [hsep] at h
            rcases sepStep_next hsep with ⟨rfl, hne, hhd, rfl⟩ | ⟨rfl, hne, rfl, rfl⟩
            · exact Run.colon n hx s' e _ _ hH hne hhd (ih h)
            · exact Run.dcolon n hx s' _ _ hH hne (ih h)

/-! ### the converse: every shape of `Run` is a successful run of the loop -/

theorem hexValB_le {c : Nat} (h : isHexB c = true) : hexValB c ≤ 15 := by
  simp only [isHexB, isDigitB, Bool.or_eq_true, Bool.and_eq_true, decide_eq_true_eq] at h
  simp only [hexValB, isDigitB, Bool.and_eq_true, decide_eq_true_eq]
  split
  · omega
  · split <;> omega

theorem hexScan_app (h rest : Bytes) (off acc : Nat) (hh : ∀ c ∈ h, isHexB c = true) (hlen : off + h.length ≤ 4)
    (hacc : acc < 16 ^ off) (hrest : ∀ c, rest.head? = some c → isHexB c = false) :
    ∃ a, hexScan (h ++ rest) off acc = some (off + h.length, a, rest) := by
  induction h generalizing off acc with
  | nil =>
    refine ⟨acc, ?_⟩
    cases rest with
    | nil => rfl
    | cons c r =>
      have := hrest c rfl
      simp [hexScan, this]
  | cons c t ih =>
    have hc := hh c (by simp)
    have hv := hexValB_le hc
    simp only [List.length_cons] at hlen
    have hpow : 16 ^ (off + 1) ≤ 65536 := by
      have : 16 ^ (off + 1) ≤ 16 ^ 4 := Nat.pow_le_pow_right (by omega) (by omega)
      simpa using this
    have hacc' : acc * 16 + hexValB c < 16 ^ (off + 1) := by
      rw [Nat.pow_succ]
      generalize 16 ^ off = X at hacc
      omega
    obtain ⟨a, ha⟩ := ih (off + 1) (acc * 16 + hexValB c) (fun x hx => hh x (by simp [hx])) (by omega) hacc'
    refine ⟨a, ?_⟩
    simp only [List.cons_append, hexScan, hc, if_true]
    rw [if_neg (by omega), if_neg (by omega), ha, List.length_cons,
      show off + 1 + t.length = off + (t.length + 1) by omega]

theorem hexScan_hex4 {h : Bytes} (hh : Hex4 h) (rest : Bytes) (hrest : ∀ c, rest.head? = some c → isHexB c = false) :
    ∃ a, hexScan (h ++ rest) 0 0 = some (h.length, a, rest) := by
  obtain ⟨a, ha⟩ := hexScan_app h rest 0 0 hh.2.2 (by have := hh.2.1; omega) (by simp) hrest
  exact ⟨a, by simpa using ha⟩

theorem sepStep_colon {s' : Bytes} (hne : s' ≠ []) (hhd : s'.head? ≠ some 58) (i : Nat) (ell : Option Nat) :
    sepStep (58 :: s') i ell = .next s' ell := by
  cases s' with
  | nil => exact absurd rfl hne
  | cons c r =>
    have : (c == 58) = false := by simpa using hhd
    simp [sepStep, this]

theorem sepStep_dcolon {s' : Bytes} (hne : s' ≠ []) (i : Nat) :
    sepStep (58 :: 58 :: s') i none = .next s' (some i) := by
  cases s' with
  | nil => exact absurd rfl hne
  | cons c r => simp [sepStep]

theorem hex4_len_ne {h : Bytes} (hh : Hex4 h) : (h.length == 0) = false := by
  obtain ⟨hne, _, _⟩ := hh
  cases h with
  | nil => exact absurd rfl hne
  | cons _ _ => simp

/-- every shape of `Run` is accepted by the loop, with the recorded final `i` and ellipsis -/
theorem run_v6Loop {n : Nat} {s : Bytes} {ell eF : Option Nat} {iF : Nat} (h : Run n s ell iF eF)
    (ip : List Nat) : ∃ o, v6Loop n s ip ell = some o ∧ o.rest = [] ∧ o.i = iF ∧ o.ellipsis = eF := by
  induction h generalizing ip with
  | done ell => exact ⟨_, rfl, rfl, rfl, rfl⟩
  | last n h ell hh =>
    obtain ⟨a, ha⟩ := hexScan_hex4 hh [] (by simp)
    rw [List.append_nil] at ha
    refine ⟨⟨[], idx (n + 1) + 2, ip ++ [a / 256, a % 256], ell⟩, ?_, rfl, rfl, rfl⟩
    simp only [v6Loop, ha, hex4_len_ne hh, Bool.false_eq_true, if_false, List.head?_nil, sepStep]
    simp [idx]
  | lastDC n h hh =>
    obtain ⟨a, ha⟩ := hexScan_hex4 hh [58, 58] (by simp [isHexB, isDigitB])
    refine ⟨⟨[], idx (n + 1) + 2, ip ++ [a / 256, a % 256], some (idx (n + 1) + 2)⟩, ?_, rfl, rfl, rfl⟩
    simp only [v6Loop, ha, hex4_len_ne hh, Bool.false_eq_true, if_false, List.head?_cons]
    simp [sepStep, idx]
  | v4 n h t ell f hh hp hcond hfit =>
    obtain ⟨a, ha⟩ := hexScan_hex4 hh (46 :: t) (by simp [isHexB, isDigitB])
    refine ⟨⟨[], idx (n + 1) + 4, ip ++ f, ell⟩, ?_, rfl, rfl, rfl⟩
    simp only [v6Loop, ha, hex4_len_ne hh, Bool.false_eq_true, if_false, List.head?_cons, beq_self_eq_true,
      if_true, hp]
    have c1 : (ell.isNone && (16 - 2 * (n + 1)) != 12) = false := by
      rcases hcond with hc | hc
      · cases ell with
        | none => exact absurd rfl hc
        | some _ => rfl
      · simp only [idx] at hc
        simp [hc]
    have c2 : ¬ (16 - 2 * (n + 1) + 4 > 16) := by simp only [idx] at hfit; omega
    simp only [c1, Bool.false_eq_true, if_false, c2, idx]
  | colon n h s' ell iF eF hh hne hhd _ ih =>
    obtain ⟨a, ha⟩ := hexScan_hex4 hh (58 :: s') (by simp [isHexB, isDigitB])
    obtain ⟨o, ho, h1, h2, h3⟩ := ih (ip ++ [a / 256, a % 256])
    refine ⟨o, ?_, h1, h2, h3⟩
    simp only [v6Loop, ha, hex4_len_ne hh, Bool.false_eq_true, if_false, List.head?_cons,
      sepStep_colon hne hhd]
    simpa using ho
  | dcolon n h s' iF eF hh hne _ ih =>
    obtain ⟨a, ha⟩ := hexScan_hex4 hh (58 :: 58 :: s') (by simp [isHexB, isDigitB])
    obtain ⟨o, ho, h1, h2, h3⟩ := ih (ip ++ [a / 256, a % 256])
    refine ⟨o, ?_, h1, h2, h3⟩
    simp only [v6Loop, ha, hex4_len_ne hh, Bool.false_eq_true, if_false, List.head?_cons,
      sepStep_dcolon hne]
    simpa [idx] using ho

end Ibx.Lemmas.ParseIPShape
