import Ibx.Lemmas.ConcMem
/-
  Mutual exclusion in the interleaving model of the memory store, as stated lemmas.

  `LockInv` (Lemmas/ConcMem.lean) goes from the lock tables to the program points: whoever is entered in a lock
  table is at a point that will release it.  Here is the converse, `HoldInv`: whoever is at a program point
  inside a critical section is entered in the lock table — and a mailbox that has a writer has no reader.
  Together: the lock table entry of a mailbox IS the thread inside its write critical section, so there is at
  most one; readers exclude writers; the store mutex has at most one holder.
-/
namespace Ibx.Model.ConcMem

/-- what a thread still has to do after its critical section -/
def todoPC : PC → List Instr
  | .run _ todo _ => todo
  | .wait _ todo _ => todo
  | _ => []

theorem count_unlock_map_rem (l : List Key) : (l.map Instr.rem).count Instr.unlock = 0 := by
  induction l with
  | nil => rfl
  | cons k ks ih => simp [ih]

/-- every todo list computed by a critical section unlocks the mailbox exactly once -/
theorem todoOf_count (v : Variant) (c : Cfg) (o : Op) (r : Ret) (del : List Key) :
    (todoOf v c o r del).count Instr.unlock = 1 := by
  unfold todoOf
  split
  · simp
  · split
    · split <;> simp [List.count_append, count_unlock_map_rem]
    · split <;> simp [List.count_append, count_unlock_map_rem]
    · simp [count_unlock_map_rem]

/-- the enforcer is inside its removeMessage critical section on mailbox `b` -/
def enfIn (s : St) (b : Nat) : Prop :=
  ∃ t k, k.1 = b ∧ (s.epc = .evCrit t k ∨ ∃ f, s.epc = .evUnlockB t k f)

structure HoldInv (s : St) : Prop where
  one : ∀ t, (todoPC (s.thr t)).count Instr.unlock ≤ 1
  hw : ∀ t b, holding (s.thr t) = some (b, true) → s.wlock b = some (.cl t)
  hr : ∀ t b, holding (s.thr t) = some (b, false) → s.rlock b t = true
  he : ∀ b, enfIn s b → s.wlock b = some .enf
  hs : ∀ t o, s.thr t = .unlockS o → s.slock = some (.cl t)
  hse : ∀ t k, s.epc = .evUnlockS t k → s.slock = some .enf
  rw : ∀ b t, s.wlock b ≠ none → s.rlock b t = false

theorem holdInv_init (p) : HoldInv (init p) := by
  constructor <;> simp [init, holding, todoPC, enfIn]

@[simp] theorem todoPC_idle : todoPC .idle = [] := rfl
@[simp] theorem todoPC_lockS (o) : todoPC (.lockS o) = [] := rfl
@[simp] theorem todoPC_unlockS (o) : todoPC (.unlockS o) = [] := rfl
@[simp] theorem todoPC_lockB (o) : todoPC (.lockB o) = [] := rfl
@[simp] theorem todoPC_crit (o) : todoPC (.crit o) = [] := rfl
@[simp] theorem todoPC_run (o todo r) : todoPC (.run o todo r) = todo := rfl
@[simp] theorem todoPC_wait (o todo r) : todoPC (.wait o todo r) = todo := rfl
@[simp] theorem todoPC_resume (pc : PC) : todoPC (resume pc) = todoPC pc := by cases pc <;> rfl

theorem count_le_one_not_mem {todo : List Instr} (h : (Instr.unlock :: todo).count Instr.unlock ≤ 1) :
    Instr.unlock ∉ todo := by
  intro hm
  have := List.count_pos_iff.mpr hm
  simp at h
  omega


syntax "hdstep " term : tactic
macro_rules
  | `(tactic| hdstep $t) => `(tactic| (
    refine ⟨?_, ?_, ?_, ?_, ?_, ?_, ?_⟩
    · intro t'; have q := ‹∀ t, List.count _ _ ≤ 1› t'; by_cases e : t' = $t <;> simp_all [upd, critEff, evDelete, todoOf_count]
    · intro t' b hs; have q := ‹∀ t b, _ = some (b, true) → _› t' b; by_cases e : t' = $t <;> simp_all [upd, critEff, evDelete, unlock_mem_todoOf]
    · intro t' b hs; have q := ‹∀ t b, _ = some (b, false) → _› t' b; by_cases e : t' = $t <;> simp_all [upd, critEff, evDelete, unlock_mem_todoOf]
    · intro b hs; have q := ‹∀ b, enfIn _ b → _› b; simp_all [enfIn, critEff, evDelete]
    · intro t' o' hs; have q := ‹∀ t o, _ = PC.unlockS o → _› t' o'; by_cases e : t' = $t <;> simp_all [upd, critEff, evDelete]
    · intro t' k' hs; have q := ‹∀ t k, _ = EPC.evUnlockS t k → _› t' k'; simp_all [critEff, evDelete]
    · intro b t' hs; have q := ‹∀ b t, _ ≠ none → _› b t'; simp_all [critEff, evDelete]))

theorem holdInv_step {v c s s'} (st : Step v c s s') (h : HoldInv s) : HoldInv s' := by
  obtain ⟨h1, h2, h3, h4, h5, h6, h7⟩ := h
  cases st with
  | start t o rest hp ht hpr => hdstep t
  | lockS t o hp ht hl => hdstep t
  | unlockS t o hp ht =>
    have hsl := h5 t o ht
    refine ⟨?_, ?_, ?_, ?_, ?_, ?_, ?_⟩
    · intro t'; have q := h1 t'; by_cases e : t' = t <;> simp_all [upd]
    · intro t' b hs; have q := h2 t' b; by_cases e : t' = t <;> simp_all [upd]
    · intro t' b hs; have q := h3 t' b; by_cases e : t' = t <;> simp_all [upd]
    · intro b hs; exact h4 b hs
    · intro t' o' hs
      by_cases e : t' = t
      · subst e; simp [upd] at hs
      · have hs' : s.thr t' = .unlockS o' := by simpa [upd, e] using hs
        have := h5 t' o' hs'; rw [hsl] at this
        injection this with this; injection this with this; exact absurd this.symm e
    · intro t' k' hs; have := h6 t' k' hs; rw [hsl] at this; simp at this
    · exact h7
  | lockB t o hp ht hl =>
    obtain ⟨hl1, hl2⟩ := hl
    cases hw : o.isWrite
    · refine ⟨?_, ?_, ?_, ?_, ?_, ?_, ?_⟩
      · intro t'; have q := h1 t'; by_cases e : t' = t <;> simp_all [upd, acquire]
      · intro t' b hs; have q := h2 t' b; by_cases e : t' = t <;> simp_all [upd, acquire]
      · intro t' b hs; have q := h3 t' b
        by_cases e : t' = t
        · subst e; simp_all [upd, acquire]
        · by_cases eb : b = o.box <;> simp_all [upd, acquire]
      · intro b hs; have q := h4 b hs; simpa [acquire, hw] using q
      · intro t' o' hs; have q := h5 t' o'; by_cases e : t' = t <;> simp_all [upd, acquire]
      · intro t' k' hs; have q := h6 t' k'; simp_all [acquire]
      · intro b t' hs
        have hs' : s.wlock b ≠ none := by simpa [acquire, hw] using hs
        have q := h7 b t' hs'
        have eb : b ≠ o.box := fun e => hs' (e ▸ hl1)
        simp [acquire, hw, upd, eb, q]
    · have hl2' := hl2 hw
      refine ⟨?_, ?_, ?_, ?_, ?_, ?_, ?_⟩
      · intro t'; have q := h1 t'; by_cases e : t' = t <;> simp_all [upd, acquire]
      · intro t' b hs; have q := h2 t' b
        by_cases e : t' = t
        · subst e; simp_all [upd, acquire]
        · by_cases eb : b = o.box <;> simp_all [upd, acquire]
      · intro t' b hs; have q := h3 t' b; by_cases e : t' = t <;> simp_all [upd, acquire]
      · intro b hs; have q := h4 b hs
        by_cases eb : b = o.box <;> simp_all [upd, acquire]
      · intro t' o' hs; have q := h5 t' o'; by_cases e : t' = t <;> simp_all [upd, acquire]
      · intro t' k' hs; have q := h6 t' k'; simp_all [acquire]
      · intro b t' hs
        by_cases eb : b = o.box
        · subst eb; simpa [acquire, hw] using hl2' t'
        · have hs' : s.wlock b ≠ none := by simpa [acquire, hw, upd, eb] using hs
          simpa [acquire, hw] using h7 b t' hs'
  | crit t o hp ht => hdstep t
  | unlockB t o todo r hp ht =>
    have hnm : Instr.unlock ∉ todo := count_le_one_not_mem (by simpa [ht] using h1 t)
    have hh : holding (s.thr t) = some (o.box, o.isWrite) := by simp [ht]
    cases hw : o.isWrite
    · rw [hw] at hh
      refine ⟨?_, ?_, ?_, ?_, ?_, ?_, ?_⟩
      · intro t'; have q := h1 t'; by_cases e : t' = t <;> simp_all [upd, release]
      · intro t' b hs; have q := h2 t' b; by_cases e : t' = t <;> simp_all [upd, release]
      · intro t' b hs; have q := h3 t' b
        by_cases e : t' = t
        · subst e; simp_all [upd, release]
        · by_cases eb : b = o.box <;> simp_all [upd, release]
      · intro b hs; have q := h4 b hs; simpa [release, hw] using q
      · intro t' o' hs; have q := h5 t' o'; by_cases e : t' = t <;> simp_all [upd, release]
      · intro t' k' hs; have q := h6 t' k'; simp_all [release]
      · intro b t' hs
        have hs' : s.wlock b ≠ none := by simpa [release, hw] using hs
        have q := h7 b t' hs'
        by_cases eb : b = o.box
        · by_cases e : t' = t <;> simp_all [release, upd]
        · simp [release, hw, upd, eb, q]
    · rw [hw] at hh
      have hwl := h2 t o.box hh
      refine ⟨?_, ?_, ?_, ?_, ?_, ?_, ?_⟩
      · intro t'; have q := h1 t'; by_cases e : t' = t <;> simp_all [upd, release]
      · intro t' b hs; have q := h2 t' b
        by_cases e : t' = t
        · subst e; simp_all [upd, release]
        · by_cases eb : b = o.box
          · subst eb
            have hs' : holding (s.thr t') = some (o.box, true) := by simpa [upd, e] using hs
            have := h2 t' o.box hs'; rw [hwl] at this
            injection this with this; injection this with this; exact absurd this.symm e
          · simp_all [upd, release]
      · intro t' b hs; have q := h3 t' b; by_cases e : t' = t <;> simp_all [upd, release]
      · intro b hs; have q := h4 b hs
        by_cases eb : b = o.box
        · subst eb; rw [hwl] at q; simp at q
        · simpa [release, hw, upd, eb] using q
      · intro t' o' hs; have q := h5 t' o'; by_cases e : t' = t <;> simp_all [upd, release]
      · intro t' k' hs; have q := h6 t' k'; simp_all [release]
      · intro b t' hs
        by_cases eb : b = o.box
        · subst eb; simp [release, hw, upd] at hs
        · have hs' : s.wlock b ≠ none := by simpa [release, hw, upd, eb] using hs
          simpa [release, hw] using h7 b t' hs'
  | sendInc t o k todo r hp ht he => hdstep t
  | sendRem t o k todo r hp ht he => hdstep t
  | finish t o r hp ht => hdstep t
  | incGone t k hp he hg => hdstep t
  | incReg t k hp he hg => hdstep t
  | loopDone t hp he hc => hdstep t
  | loopEmpty t hp he hc ha => hdstep t
  | loopEvict t k rest hp he hc ha => hdstep t
  | evLockS t k hp he hl => hdstep t
  | evUnlockS t k hp he => hdstep t
  | evLockB t k hp he hl hr =>
    refine ⟨h1, ?_, h3, ?_, h5, ?_, ?_⟩
    · intro t' b hs
      have q := h2 t' b hs
      have eb : b ≠ k.1 := fun e => by rw [e, hl] at q; simp at q
      simpa [upd, eb] using q
    · intro b hs
      obtain ⟨t', k', hk, hq⟩ := hs
      have : k' = k := by
        rcases hq with hq | ⟨f, hq⟩
        · injection hq with _ e2; exact e2.symm
        · cases hq
      subst this; subst hk; simp [upd]
    · intro t' k' hs; cases hs
    · intro b t' hs
      by_cases eb : b = k.1
      · subst eb; exact hr t'
      · exact h7 b t' (by simpa [upd, eb] using hs)
  | evCrit t k hp he => hdstep t
  | evUnlockB t k f hp he =>
    have hwl := h4 k.1 ⟨t, k, rfl, Or.inr ⟨f, he⟩⟩
    refine ⟨h1, ?_, h3, ?_, h5, ?_, ?_⟩
    · intro t' b hs
      have q := h2 t' b hs
      have eb : b ≠ k.1 := fun e => by rw [e, hwl] at q; simp at q
      simpa [upd, eb] using q
    · intro b hs
      obtain ⟨t', k', hk, hq⟩ := hs
      rcases hq with hq | ⟨f', hq⟩ <;> cases hq
    · intro t' k' hs; cases hs
    · intro b t' hs
      by_cases eb : b = k.1
      · subst eb; simp [upd] at hs
      · exact h7 b t' (by simpa [upd, eb] using hs)
  | remGone t k hp he hel hv => hdstep t
  | remPanic t k hp he hel hv => hdstep t
  | remUnlink t k hp he hel => hdstep t
  | fin t hp he =>
    refine ⟨?_, ?_, ?_, ?_, ?_, ?_, h7⟩
    · intro t'; have q := h1 t'; by_cases e : t' = t
      · subst e; simpa [upd] using q
      · simpa [upd, e] using q
    · intro t' b hs; apply h2 t' b; by_cases e : t' = t
      · subst e; simpa [upd] using hs
      · simpa [upd, e] using hs
    · intro t' b hs; apply h3 t' b; by_cases e : t' = t
      · subst e; simpa [upd] using hs
      · simpa [upd, e] using hs
    · intro b hs
      obtain ⟨t', k', hk, hq⟩ := hs
      rcases hq with hq | ⟨f', hq⟩ <;> cases hq
    · intro t' o' hs; apply h5 t' o'; by_cases e : t' = t
      · subst e; simpa [upd] using hs
      · simpa [upd, e] using hs
    · intro t' k' hs; cases hs


/-! ### mutual exclusion -/

/-- `w` is inside a WRITE critical section of mailbox `b`: a client between its `mb.Lock()` and `mb.Unlock()`
    (about to run / having run the closure of withMailbox), or the enforcer inside removeMessage -/
def WriterIn (s : St) (b : Nat) : Who → Prop
  | .cl t => holding (s.thr t) = some (b, true)
  | .enf => enfIn s b

/-- client `t` is inside a READ critical section of mailbox `b` (GetMessage / GetMessages under RLock) -/
def ReaderIn (s : St) (b : Nat) (t : Nat) : Prop := holding (s.thr t) = some (b, false)

/-- `w` holds the store mutex (between `s.Lock()` and `s.Unlock()` in withMailbox / removeMessage) -/
def InStore (s : St) : Who → Prop
  | .cl t => ∃ o, s.thr t = .unlockS o
  | .enf => ∃ t k, s.epc = .evUnlockS t k

/-- the lock table entry of a mailbox is exactly the party inside its write critical section -/
theorem writerIn_iff {s : St} (hL : LockInv s) (hH : HoldInv s) (b : Nat) (w : Who) :
    WriterIn s b w ↔ s.wlock b = some w := by
  cases w with
  | cl t => exact ⟨hH.hw t b, hL.wl_cl b t⟩
  | enf =>
    refine ⟨hH.he b, fun h => ?_⟩
    obtain ⟨t, k, hk, hq⟩ := hL.wl_enf b h
    exact ⟨t, k, hk, hq⟩

theorem readerIn_iff {s : St} (hL : LockInv s) (hH : HoldInv s) (b t : Nat) :
    ReaderIn s b t ↔ s.rlock b t = true :=
  ⟨hH.hr t b, hL.rl_cl b t⟩

theorem inStore_iff {s : St} (hL : LockInv s) (hH : HoldInv s) (w : Who) : InStore s w ↔ s.slock = some w := by
  cases w with
  | cl t => exact ⟨fun ⟨o, ho⟩ => hH.hs t o ho, hL.sl_cl t⟩
  | enf => exact ⟨fun ⟨t, k, hk⟩ => hH.hse t k hk, hL.sl_enf⟩

end Ibx.Model.ConcMem
