import Ibx.Model.Retention
/-
  Helper lemmas for C12: store well-formedness (ids bounded by the mailbox counter, (mailbox, id) unique) is
  an invariant of every store operation; what an operation can do to the message list.
-/
namespace Ibx.Lemmas.Retention
open Ibx Ibx.Spec.Store Ibx.Model.Retention

def sameId (a b : Msg) : Prop := a.box = b.box ∧ a.id = b.id

/-- well-formed store: every live id was handed out by its mailbox's counter; (mailbox, id) identifies a message -/
structure WF (s : Store) : Prop where
  bounded : ∀ m ∈ s.msgs, m.id ≤ s.next m.box
  unique : s.msgs.Pairwise (fun a b => ¬ sameId a b)

theorem wf_empty : WF Spec.Store.empty := ⟨by simp [Spec.Store.empty], by simp [Spec.Store.empty]⟩

theorem isMsg_iff (b : Bytes) (i : Nat) (m : Msg) : isMsg b i m = true ↔ m.box = b ∧ m.id = i := by
  simp [isMsg]

theorem dropOldest_sublist (b : Bytes) (k : Nat) (l : List Msg) : (dropOldest b k l).1.Sublist l := by
  fun_induction dropOldest b k l <;> simp_all

theorem capEvict_sublist (cap : Nat) (b : Bytes) (l : List Msg) : (capEvict cap b l).1.Sublist l := by
  simp only [capEvict]
  split
  · exact dropOldest_sublist _ _ _
  · simp

theorem limitEvict_sublist (limit : Nat) (l : List Msg) : (limitEvict limit l).1.Sublist l := by
  fun_induction limitEvict limit l <;> simp_all

/-- the message list after an `add`: a sublist of the old list plus the new message -/
theorem add_sublist (c : Cfg) (s : Store) (b : Bytes) (hdr : Meta) (src : Bytes) :
    (step c s (.add b hdr src)).1.msgs.Sublist
      (s.msgs ++ [{ box := b, id := s.next b + 1, hdr := hdr, seen := false, source := src }]) := by
  simp only [step]
  exact (limitEvict_sublist _ _).trans (capEvict_sublist _ _ _)

theorem add_next (c : Cfg) (s : Store) (b : Bytes) (hdr : Meta) (src : Bytes) (x : Bytes) :
    (step c s (.add b hdr src)).1.next x = if x == b then s.next b + 1 else s.next x := by
  simp only [step]


theorem step_next_mono (c : Cfg) (s : Store) (op : Op) (x : Bytes) : s.next x ≤ (step c s op).1.next x := by
  cases op with
  | add b hdr src =>
    rw [add_next]; split
    · rename_i h
      have : x = b := by simpa using h
      subst this; omega
    · omega
  | get b i => simp only [step]; split <;> simp
  | latest b => simp only [step]; split <;> simp
  | list b => simp [step]
  | seen b i => simp only [step]; split <;> simp
  | remove b i => simp only [step]; split <;> simp
  | purge b => simp [step]
  | visit => simp [step]

/-- what any operation can do to the message list: every message afterwards is an old one (same mailbox, id and
    header — only `seen` may differ) or the one just added under the fresh id `next + 1` -/
theorem step_sub (c : Cfg) (s : Store) (op : Op) (x' : Msg) (h : x' ∈ (step c s op).1.msgs) :
    (∃ x ∈ s.msgs, x'.box = x.box ∧ x'.id = x.id ∧ x'.hdr = x.hdr) ∨
    (∃ b hdr src, op = .add b hdr src ∧ x'.box = b ∧ x'.id = s.next b + 1 ∧ x'.hdr = hdr) := by
  cases op with
  | add b hdr src =>
    have := (add_sublist c s b hdr src).subset h
    rcases List.mem_append.1 this with h1 | h1
    · exact .inl ⟨x', h1, rfl, rfl, rfl⟩
    · have hx : x' = { box := b, id := s.next b + 1, hdr := hdr, seen := false, source := src } := by simpa using h1
      subst hx
      exact .inr ⟨b, hdr, src, rfl, rfl, rfl, rfl⟩
  | get b i => left; simp only [step] at h; split at h <;> exact ⟨x', h, rfl, rfl, rfl⟩
  | latest b => left; simp only [step] at h; split at h <;> exact ⟨x', h, rfl, rfl, rfl⟩
  | list b => left; exact ⟨x', by simpa [step] using h, rfl, rfl, rfl⟩
  | seen b i =>
    left; simp only [step] at h; split at h
    · simp only [List.mem_map] at h
      obtain ⟨x, hx, rfl⟩ := h
      refine ⟨x, hx, ?_⟩
      split <;> simp
    · exact ⟨x', h, rfl, rfl, rfl⟩
  | remove b i =>
    left; simp only [step] at h; split at h
    · exact ⟨x', (List.mem_filter.1 h).1, rfl, rfl, rfl⟩
    · exact ⟨x', h, rfl, rfl, rfl⟩
  | purge b => left; simp only [step] at h; exact ⟨x', (List.mem_filter.1 h).1, rfl, rfl, rfl⟩
  | visit => left; exact ⟨x', by simpa [step] using h, rfl, rfl, rfl⟩

theorem wf_of_sublist {s s' : Store} (h : WF s) (hs : s'.msgs.Sublist s.msgs) (hn : s'.next = s.next) : WF s' :=
  ⟨fun m hm => by rw [hn]; exact h.bounded m (hs.subset hm), h.unique.sublist hs⟩

theorem step_wf (c : Cfg) (s : Store) (op : Op) (h : WF s) : WF (step c s op).1 := by
  cases op with
  | add b hdr src =>
    constructor
    · intro m hm
      rw [add_next]
      rcases List.mem_append.1 ((add_sublist c s b hdr src).subset hm) with h1 | h1
      · have := h.bounded m h1
        split <;> rename_i hb
        · have hmb : m.box = b := by simpa using hb
          rw [hmb] at this; omega
        · exact this
      · have hx : m = { box := b, id := s.next b + 1, hdr := hdr, seen := false, source := src } := by simpa using h1
        subst hx; simp
    · refine List.Pairwise.sublist (add_sublist c s b hdr src) ?_
      rw [List.pairwise_append]
      refine ⟨h.unique, by simp, ?_⟩
      intro a ha x hx
      have hx' : x = { box := b, id := s.next b + 1, hdr := hdr, seen := false, source := src } := by simpa using hx
      subst hx'
      intro hs
      have := h.bounded a ha
      simp only [sameId] at hs
      rw [hs.1] at this; omega
  | get b i => simp only [step]; split <;> exact h
  | latest b => simp only [step]; split <;> exact h
  | list b => simpa [step] using h
  | seen b i =>
    simp only [step]; split
    · constructor
      · intro m hm
        simp only [List.mem_map] at hm
        obtain ⟨x, hx, rfl⟩ := hm
        have := h.bounded x hx
        split <;> simpa using this
      · simp only [List.pairwise_map]
        refine h.unique.imp ?_
        intro a b' hab
        simp only [sameId] at *
        split <;> split <;> simpa using hab
    · exact h
  | remove b i =>
    simp only [step]; split
    · exact wf_of_sublist h List.filter_sublist rfl
    · exact h
  | purge b => simp only [step]; exact wf_of_sublist h List.filter_sublist rfl
  | visit => simpa [step] using h

theorem run_wf (c : Cfg) (s : Store) (ops : List Op) (h : WF s) : WF (run c s ops).1 := by
  induction ops generalizing s with
  | nil => simpa [run] using h
  | cons op ops ih => simp only [run]; exact ih _ (step_wf c s op h)

/-- every store reachable from the empty one is well-formed -/
theorem reachable_wf (c : Cfg) (ops : List Op) : WF (run c Spec.Store.empty ops).1 := run_wf c _ ops wf_empty


/-! ### one uninterrupted scan -/

theorem remove_msgs (c : Cfg) (s : Store) (b : Bytes) (i : Nat) :
    (step c s (.remove b i)).1.msgs = s.msgs.filter (fun m => !isMsg b i m) ∧
    (step c s (.remove b i)).1.next = s.next := by
  simp only [step]; split
  · simp
  · rename_i h
    refine ⟨?_, rfl⟩
    symm; rw [List.filter_eq_self]
    intro a ha
    have : s.msgs.any (isMsg b i) = false := by simpa using h
    rw [List.any_eq_false] at this
    simpa using this a ha

theorem remove_events (c : Cfg) (s : Store) (b : Bytes) (i : Nat) :
    (step c s (.remove b i)).2.2 = if s.msgs.any (isMsg b i) then [(b, i)] else [] := by
  simp only [step]; split <;> simp

/-- a sweep deletes exactly the messages whose (mailbox, id) is that of an expired entry of the snapshot -/
theorem sweep_msgs (c : Cfg) (cutoff : Int) (L : List Msg) (s : Store) :
    (sweep c cutoff L s).1.msgs = s.msgs.filter (fun m => !(L.any (fun p => expired cutoff p && isMsg p.box p.id m))) ∧
    (sweep c cutoff L s).1.next = s.next := by
  induction L generalizing s with
  | nil => simp [sweep]; exact (List.filter_eq_self.2 (fun _ _ => rfl)).symm
  | cons p L ih =>
    simp only [sweep]
    split
    · rename_i hp
      obtain ⟨h1, h2⟩ := ih (step c s (.remove p.box p.id)).1
      obtain ⟨r1, r2⟩ := remove_msgs c s p.box p.id
      refine ⟨?_, by simp only []; rw [h2, r2]⟩
      simp only []
      rw [h1, r1, List.filter_filter]
      apply List.filter_congr
      intro x _
      simp [hp, Bool.and_comm]
    · rename_i hp
      obtain ⟨h1, h2⟩ := ih s
      refine ⟨?_, h2⟩
      rw [h1]
      apply List.filter_congr
      intro x _
      simp [hp]

theorem unique_eq {l : List Msg} (hu : l.Pairwise (fun a b => ¬ sameId a b)) {p x : Msg}
    (hp : p ∈ l) (hx : x ∈ l) (hs : sameId p x) : p = x := by
  induction l with
  | nil => cases hp
  | cons a l ih =>
    rw [List.pairwise_cons] at hu
    rcases List.mem_cons.1 hp with rfl | hp' <;> rcases List.mem_cons.1 hx with rfl | hx'
    · rfl
    · exact absurd hs (hu.1 x hx')
    · exact absurd ⟨hs.1.symm, hs.2.symm⟩ (hu.1 p hp')
    · exact ih hu.2 hp' hx'

theorem listing_sublist (s : Store) (b : Bytes) : (listing s b).Sublist s.msgs := List.filter_sublist

/-- with unique ids, sweeping the snapshot of mailbox `b` deletes exactly the expired messages of `b` -/
theorem sweep_listing (c : Cfg) (cutoff : Int) (s : Store) (b : Bytes) (h : WF s) :
    (sweep c cutoff (listing s b) s).1.msgs = s.msgs.filter (fun m => !(inBox b m && expired cutoff m)) := by
  rw [(sweep_msgs c cutoff _ s).1]
  apply List.filter_congr
  intro x hx
  congr 1
  rw [Bool.eq_iff_iff]
  simp only [List.any_eq_true, Bool.and_eq_true, listing, List.mem_filter]
  constructor
  · rintro ⟨p, ⟨hp, hpb⟩, hpe, hpx⟩
    have hsame : sameId p x := by
      have := (isMsg_iff p.box p.id x).1 hpx
      exact ⟨this.1.symm, this.2.symm⟩
    have : p = x := unique_eq h.unique hp hx hsame
    subst this
    exact ⟨hpb, hpe⟩
  · rintro ⟨hb, he⟩
    exact ⟨x, ⟨hx, hb⟩, he, by simp [isMsg]⟩


theorem sweep_wf (c : Cfg) (cutoff : Int) (L : List Msg) (s : Store) (h : WF s) : WF (sweep c cutoff L s).1 :=
  wf_of_sublist h (by rw [(sweep_msgs c cutoff L s).1]; exact List.filter_sublist) (sweep_msgs c cutoff L s).2

/-- events of a sweep over a snapshot that is (still) a sub-list of the store: one per expired entry, in order -/
theorem sweep_events (c : Cfg) (cutoff : Int) (L : List Msg) (s : Store) (h : WF s) (hL : L.Sublist s.msgs) :
    (sweep c cutoff L s).2 = (L.filter (expired cutoff)).map evOf := by
  induction L generalizing s with
  | nil => simp [sweep]
  | cons p L ih =>
    have hp : p ∈ s.msgs := hL.subset (List.mem_cons_self)
    simp only [sweep]
    split
    · rename_i he
      have hwf := step_wf c s (.remove p.box p.id) h
      have hsub : L.Sublist (step c s (.remove p.box p.id)).1.msgs := by
        rw [(remove_msgs c s p.box p.id).1]
        have hpw : (p :: L).Pairwise (fun a b => ¬ sameId a b) := h.unique.sublist hL
        rw [List.pairwise_cons] at hpw
        have : L.filter (fun m => !isMsg p.box p.id m) = L := by
          rw [List.filter_eq_self]
          intro a ha
          have := hpw.1 a ha
          simp only [sameId] at this
          simp only [isMsg, Bool.not_eq_eq_eq_not, Bool.not_true, Bool.and_eq_false_imp, beq_iff_eq, beq_eq_false_iff_ne]
          intro h1 h2
          exact this ⟨h1.symm, h2.symm⟩
        rw [← this]
        exact ((List.sublist_cons_self p L).trans hL).filter _
      simp only []
      rw [ih _ hwf hsub, remove_events]
      have : s.msgs.any (isMsg p.box p.id) = true := List.any_eq_true.2 ⟨p, hp, by simp [isMsg]⟩
      simp [this, he, evOf]
    · rename_i he
      rw [ih s h ((List.sublist_cons_self p L).trans hL)]
      simp [he]

/-- one scan over the mailboxes `names`: exactly the expired messages of those mailboxes are deleted -/
theorem doScanOver_msgs (c : Cfg) (cutoff : Int) (names : List Bytes) (s : Store) (h : WF s) :
    (doScanOver c cutoff names s).1.msgs = s.msgs.filter (fun m => !(names.contains m.box && expired cutoff m)) ∧
    (doScanOver c cutoff names s).1.next = s.next ∧ WF (doScanOver c cutoff names s).1 := by
  induction names generalizing s with
  | nil => simp [doScanOver]; exact ⟨(List.filter_eq_self.2 (fun _ _ => rfl)).symm, h⟩
  | cons b bs ih =>
    simp only [doScanOver]
    have hw := sweep_wf c cutoff (listing s b) s h
    obtain ⟨h1, h2, h3⟩ := ih _ hw
    refine ⟨?_, by rw [h2, (sweep_msgs c cutoff _ s).2], h3⟩
    rw [h1, sweep_listing c cutoff s b h, List.filter_filter]
    apply List.filter_congr
    intro x _
    simp only [inBox, List.contains_cons]
    cases (x.box == b) <;> cases (bs.contains x.box) <;> cases (expired cutoff x) <;> rfl

theorem flatMap_congr' {α β : Type} {l : List α} {f g : α → List β} (h : ∀ a ∈ l, f a = g a) :
    l.flatMap f = l.flatMap g := by
  induction l with
  | nil => rfl
  | cons a l ih =>
    simp only [List.flatMap_cons]
    rw [h a List.mem_cons_self, ih (fun x hx => h x (List.mem_cons_of_mem _ hx))]

theorem doScanOver_events (c : Cfg) (cutoff : Int) (names : List Bytes) (s : Store) (h : WF s) (hn : names.Nodup) :
    (doScanOver c cutoff names s).2 =
      names.flatMap (fun b => ((listing s b).filter (expired cutoff)).map evOf) := by
  induction names generalizing s with
  | nil => simp [doScanOver]
  | cons b bs ih =>
    rw [List.nodup_cons] at hn
    simp only [doScanOver, List.flatMap_cons]
    have hw := sweep_wf c cutoff (listing s b) s h
    rw [ih _ hw hn.2, sweep_events c cutoff _ s h (listing_sublist s b)]
    congr 1
    apply flatMap_congr'
    intro b' hb'
    have hne : b' ≠ b := fun e => hn.1 (e ▸ hb')
    have hsl := sweep_listing c cutoff s b h
    simp only [listing] at hsl ⊢
    have hin : List.filter (inBox b') (List.filter (fun m => !(inBox b m && expired cutoff m)) s.msgs) =
        List.filter (inBox b') s.msgs := by
      rw [List.filter_filter]
      apply List.filter_congr
      intro x _
      simp only [inBox]
      by_cases hx : x.box = b'
      · simp [hx, hne]
      · simp [hx]
    rw [hsl, hin]

theorem nodup_eraseDups (l : List Bytes) : l.eraseDups.Nodup := by
  generalize hn : l.length = n
  induction n using Nat.strongRecOn generalizing l with
  | _ n ih =>
    cases l with
    | nil => simp
    | cons a as =>
      rw [List.eraseDups_cons, List.nodup_cons]
      refine ⟨?_, ih _ ?_ _ rfl⟩
      · intro hmem
        rw [List.mem_eraseDups, List.mem_filter] at hmem
        simpa using hmem.2
      · have := List.length_filter_le (fun b => !b == a) as
        simp only [List.length_cons] at hn
        omega

theorem mem_boxNames (l : List Msg) (m : Msg) (h : m ∈ l) : m.box ∈ boxNames l := by
  simp only [boxNames, List.mem_eraseDups, List.mem_map]
  exact ⟨m, h, rfl⟩


/-! ### the interleaved scan -/

theorem filter_isMsg_unique {l : List Msg} (hu : l.Pairwise (fun a b => ¬ sameId a b)) (b : Bytes) (i : Nat) :
    (l.any (isMsg b i) = true → ∃ x, l.filter (isMsg b i) = [x] ∧ x.box = b ∧ x.id = i) ∧
    (l.any (isMsg b i) = false → l.filter (isMsg b i) = []) := by
  induction l with
  | nil => simp
  | cons a l ih =>
    rw [List.pairwise_cons] at hu
    obtain ⟨ih1, ih2⟩ := ih hu.2
    by_cases ha : isMsg b i a = true
    · have hab := (isMsg_iff b i a).1 ha
      have hnone : l.any (isMsg b i) = false := by
        rw [List.any_eq_false]
        intro y hy hyb
        have := (isMsg_iff b i y).1 hyb
        exact hu.1 y hy ⟨hab.1.trans this.1.symm, hab.2.trans this.2.symm⟩
      refine ⟨fun _ => ⟨a, ?_, hab.1, hab.2⟩, fun h => ?_⟩
      · rw [List.filter_cons_of_pos ha, ih2 hnone]
      · simp [ha] at h
    · have ha' : isMsg b i a = false := by simpa using ha
      refine ⟨fun h => ?_, fun h => ?_⟩
      · rw [List.filter_cons_of_neg ha]
        apply ih1
        simpa [ha'] using h
      · rw [List.filter_cons_of_neg ha]
        apply ih2
        simpa [ha'] using h

/-- invariant of the interleaved system (store, scan in progress, ghost bookkeeping) -/
structure Inv (cutoff : Int) (st : St) : Prop where
  wf : WF st.store
  pending : ∀ pend todo, st.phase = .sweep pend todo → ∀ p ∈ pend,
    p.id ≤ st.store.next p.box ∧ ∀ x ∈ st.store.msgs, sameId p x → x.hdr = p.hdr
  removedExp : ∀ x ∈ st.removed, expired cutoff x = true
  events : st.events = st.removed.map evOf
  calls : st.calls = st.removed.length + st.misses

theorem inv_init (cutoff : Int) (s : Store) (names : List Bytes) (h : WF s) : Inv cutoff (init s names) :=
  ⟨h, by intro _ _ hp; simp [init] at hp, by simp [init], by simp [init], by simp [init]⟩

theorem inv_client (c : Cfg) (cutoff : Int) (st : St) (op : Op) (h : Inv cutoff st) :
    Inv cutoff { st with store := (step c st.store op).1 } := by
  refine ⟨step_wf c _ op h.wf, ?_, h.removedExp, h.events, h.calls⟩
  intro pend todo hph p hp
  obtain ⟨hb, hh⟩ := h.pending pend todo hph p hp
  refine ⟨Nat.le_trans hb (step_next_mono c _ op _), ?_⟩
  intro x' hx' hs
  rcases step_sub c st.store op x' hx' with ⟨x, hx, e1, e2, e3⟩ | ⟨b, hdr, src, _, e1, e2, _⟩
  · rw [e3]; exact hh x hx ⟨hs.1.trans e1, hs.2.trans e2⟩
  · exfalso
    have h1 : p.box = b := hs.1.trans e1
    have h2 : p.id = st.store.next b + 1 := hs.2.trans e2
    rw [h1] at hb; omega

theorem inv_scan (c : Cfg) (cutoff : Int) (tr coin : Bool) (st : St) (h : Inv cutoff st) :
    Inv cutoff (scanStep c cutoff tr coin st) := by
  unfold scanStep
  split
  · exact ⟨h.wf, by intro _ _ hp; simp at hp, h.removedExp, h.events, h.calls⟩
  · rename_i b todo hph
    refine ⟨h.wf, ?_, h.removedExp, h.events, h.calls⟩
    intro pend todo' hp p hpm
    simp only [Phase.sweep.injEq] at hp
    obtain ⟨rfl, rfl⟩ := hp
    have hps : p ∈ st.store.msgs := (listing_sublist _ _).subset hpm
    refine ⟨h.wf.bounded p hps, fun x hx hs => ?_⟩
    rw [unique_eq h.wf.unique hps hx hs]
  · exact ⟨h.wf, by intro _ _ hp; simp at hp, h.removedExp, h.events, h.calls⟩
  · rename_i m p todo hph
    split
    · rename_i hexp
      obtain ⟨hmb, hmh⟩ := h.pending (m :: p) todo hph m List.mem_cons_self
      obtain ⟨r1, r2⟩ := remove_msgs c st.store m.box m.id
      have hwf := step_wf c st.store (.remove m.box m.id) h.wf
      obtain ⟨f1, f2⟩ := filter_isMsg_unique h.wf.unique m.box m.id
      refine ⟨hwf, ?_, ?_, ?_, ?_⟩
      · intro pend todo' hp q hq
        simp only [Phase.sweep.injEq] at hp
        obtain ⟨rfl, rfl⟩ := hp
        obtain ⟨hb, hh⟩ := h.pending _ _ hph q (List.mem_cons_of_mem _ hq)
        refine ⟨by simp only []; rw [r2]; exact hb, fun x hx hs => hh x ?_ hs⟩
        simp only [] at hx; rw [r1] at hx
        exact (List.mem_filter.1 hx).1
      · intro x hx
        simp only [List.mem_append, List.mem_filter] at hx
        rcases hx with hx | ⟨hx, hxm⟩
        · exact h.removedExp x hx
        · have := (isMsg_iff _ _ x).1 hxm
          have hh := hmh x hx ⟨this.1.symm, this.2.symm⟩
          simp only [expired] at hexp ⊢
          rw [hh]; exact hexp
      · simp only [List.map_append]
        rw [h.events, remove_events]
        congr 1
        by_cases ha : st.store.msgs.any (isMsg m.box m.id) = true
        · obtain ⟨x, hx, hb, hi⟩ := f1 ha
          rw [ha, hx]; simp [evOf, hb, hi]
        · have ha' : st.store.msgs.any (isMsg m.box m.id) = false := by simpa using ha
          rw [ha', f2 ha']; simp
      · simp only [List.length_append]
        rw [h.calls]
        by_cases ha : st.store.msgs.any (isMsg m.box m.id) = true
        · obtain ⟨x, hx, _, _⟩ := f1 ha
          have : (step c st.store (.remove m.box m.id)).2.1 = .ok := by simp [step, ha]
          rw [hx, this]; simp; omega
        · have ha' : st.store.msgs.any (isMsg m.box m.id) = false := by simpa using ha
          have : (step c st.store (.remove m.box m.id)).2.1 = .notExist := by simp [step, ha']
          rw [f2 ha', this]; simp; omega
    · refine ⟨h.wf, ?_, h.removedExp, h.events, h.calls⟩
      intro pend todo' hp q hq
      simp only [Phase.sweep.injEq] at hp
      obtain ⟨rfl, rfl⟩ := hp
      exact h.pending _ _ hph q (List.mem_cons_of_mem _ hq)
  · split
    · exact ⟨h.wf, by intro _ _ hp; simp at hp, h.removedExp, h.events, h.calls⟩
    · exact ⟨h.wf, by intro _ _ hp; simp at hp, h.removedExp, h.events, h.calls⟩
  · exact h

theorem inv_act (c : Cfg) (cutoff : Int) (tr : Bool) (st : St) (a : Act) (h : Inv cutoff st) :
    Inv cutoff (act c cutoff tr st a) := by
  cases a with
  | client op => exact inv_client c cutoff st op h
  | cancel => exact ⟨h.wf, h.pending, h.removedExp, h.events, h.calls⟩
  | discover b =>
    refine ⟨h.wf, ?_, h.removedExp, h.events, h.calls⟩
    intro pend todo hp
    simp only [act] at hp
    cases hph : st.phase with
    | visit t => rw [hph] at hp; simp [addTodo] at hp
    | check t => rw [hph] at hp; simp [addTodo] at hp
    | done a => rw [hph] at hp; simp [addTodo] at hp
    | sweep pd t =>
      rw [hph] at hp
      simp only [addTodo, Phase.sweep.injEq] at hp
      obtain ⟨rfl, _⟩ := hp
      exact h.pending pd t hph
  | scan coin => exact inv_scan c cutoff tr coin st h

theorem inv_run (c : Cfg) (cutoff : Int) (tr : Bool) (st : St) (acts : List Act) (h : Inv cutoff st) :
    Inv cutoff (runActs c cutoff tr st acts) := by
  induction acts generalizing st with
  | nil => exact h
  | cons a acts ih => exact ih _ (inv_act c cutoff tr st a h)


/-- where the scan still has message `m0` ahead of it -/
def covers (cutoff : Int) (m0 : Msg) : Phase → Prop
  | .visit todo => m0.box ∈ todo
  | .check todo => m0.box ∈ todo
  | .sweep pend todo => m0.box ∈ todo ∨ ∃ p ∈ pend, sameId m0 p ∧ expired cutoff p = true
  | .done aborted => aborted = true

def present (m0 : Msg) (s : Store) : Prop := ∃ x ∈ s.msgs, sameId m0 x

/-- invariant about one message `m0` that was expired when the scan began -/
structure Tgt (cutoff : Int) (m0 : Msg) (st : St) : Prop where
  idb : m0.id ≤ st.store.next m0.box
  hdr : ∀ x ∈ st.store.msgs, sameId m0 x → x.hdr = m0.hdr
  prog : present m0 st.store → covers cutoff m0 st.phase

theorem tgt_client (c : Cfg) (cutoff : Int) (m0 : Msg) (st : St) (op : Op) (h : Tgt cutoff m0 st) :
    Tgt cutoff m0 { st with store := (step c st.store op).1 } := by
  have key : ∀ x' ∈ (step c st.store op).1.msgs, sameId m0 x' → ∃ x ∈ st.store.msgs, sameId m0 x ∧ x'.hdr = x.hdr := by
    intro x' hx' hs
    rcases step_sub c st.store op x' hx' with ⟨x, hx, e1, e2, e3⟩ | ⟨b, hdr, src, _, e1, e2, _⟩
    · exact ⟨x, hx, ⟨hs.1.trans e1, hs.2.trans e2⟩, e3⟩
    · exfalso
      have h1 : m0.box = b := hs.1.trans e1
      have h2 : m0.id = st.store.next b + 1 := hs.2.trans e2
      have := h.idb
      rw [h1] at this; omega
  refine ⟨Nat.le_trans h.idb (step_next_mono c _ op _), ?_, ?_⟩
  · intro x' hx' hs
    obtain ⟨x, hx, hsx, e⟩ := key x' hx' hs
    rw [e]; exact h.hdr x hx hsx
  · rintro ⟨x', hx', hs⟩
    obtain ⟨x, hx, hsx, _⟩ := key x' hx' hs
    exact h.prog ⟨x, hx, hsx⟩

theorem tgt_scan (c : Cfg) (cutoff : Int) (tr coin : Bool) (m0 : Msg) (st : St) (hexp : expired cutoff m0 = true)
    (h : Tgt cutoff m0 st) : Tgt cutoff m0 (scanStep c cutoff tr coin st) := by
  unfold scanStep
  split
  · rename_i hph
    refine ⟨h.idb, h.hdr, fun hp => ?_⟩
    have := h.prog hp
    rw [hph] at this
    simp [covers] at this
  · rename_i b todo hph
    refine ⟨h.idb, h.hdr, fun hp => ?_⟩
    have hc := h.prog hp
    rw [hph] at hc
    simp only [covers, List.mem_cons] at hc ⊢
    rcases hc with hb | ht
    · right
      obtain ⟨x, hx, hs⟩ := hp
      refine ⟨x, ?_, hs, ?_⟩
      · simp only [listing, List.mem_filter, inBox]
        exact ⟨hx, by rw [← hs.1, hb]; simp⟩
      · have := h.hdr x hx hs
        simp only [expired] at hexp ⊢
        rw [this]; exact hexp
    · exact .inl ht
  · rename_i todo hph
    refine ⟨h.idb, h.hdr, fun hp => ?_⟩
    have hc := h.prog hp
    rw [hph] at hc
    simpa [covers] using hc
  · rename_i m p todo hph
    split
    · obtain ⟨r1, r2⟩ := remove_msgs c st.store m.box m.id
      refine ⟨by simp only []; rw [r2]; exact h.idb, ?_, ?_⟩
      · intro x hx hs
        simp only [] at hx; rw [r1] at hx
        exact h.hdr x (List.mem_filter.1 hx).1 hs
      · rintro ⟨x, hx, hs⟩
        simp only [] at hx; rw [r1] at hx
        obtain ⟨hx1, hx2⟩ := List.mem_filter.1 hx
        have hc := h.prog ⟨x, hx1, hs⟩
        rw [hph] at hc
        simp only [covers, List.mem_cons] at hc ⊢
        rcases hc with ht | ⟨q, hq, hsq, heq⟩
        · exact .inl ht
        · rcases hq with rfl | hq
          · exfalso
            have : isMsg q.box q.id x = true := (isMsg_iff _ _ _).2 ⟨hs.1.symm.trans hsq.1, hs.2.symm.trans hsq.2⟩
            simp [this] at hx2
          · exact .inr ⟨q, hq, hsq, heq⟩
    · rename_i hne
      refine ⟨h.idb, h.hdr, fun hp => ?_⟩
      have hc := h.prog hp
      rw [hph] at hc
      simp only [covers, List.mem_cons] at hc ⊢
      rcases hc with ht | ⟨q, hq, hsq, heq⟩
      · exact .inl ht
      · rcases hq with rfl | hq
        · exact absurd heq hne
        · exact .inr ⟨q, hq, hsq, heq⟩
  · rename_i todo hph
    split
    · exact ⟨h.idb, h.hdr, fun _ => by simp [covers]⟩
    · refine ⟨h.idb, h.hdr, fun hp => ?_⟩
      have hc := h.prog hp
      rw [hph] at hc
      simpa [covers] using hc
  · exact h

theorem covers_addTodo (cutoff : Int) (m0 : Msg) (b : Bytes) (ph : Phase) (h : covers cutoff m0 ph) :
    covers cutoff m0 (addTodo b ph) := by
  cases ph with
  | visit t => simp only [addTodo, covers, List.mem_append] at *; exact .inl h
  | check t => simp only [addTodo, covers, List.mem_append] at *; exact .inl h
  | sweep p t =>
    simp only [addTodo, covers, List.mem_append] at *
    rcases h with h | h
    · exact .inl (.inl h)
    · exact .inr h
  | done a => exact h

theorem tgt_act (c : Cfg) (cutoff : Int) (tr : Bool) (m0 : Msg) (st : St) (a : Act) (hexp : expired cutoff m0 = true)
    (h : Tgt cutoff m0 st) : Tgt cutoff m0 (act c cutoff tr st a) := by
  cases a with
  | client op => exact tgt_client c cutoff m0 st op h
  | cancel => exact ⟨h.idb, h.hdr, h.prog⟩
  | discover b => exact ⟨h.idb, h.hdr, fun hp => covers_addTodo cutoff m0 b _ (h.prog hp)⟩
  | scan coin => exact tgt_scan c cutoff tr coin m0 st hexp h

theorem tgt_run (c : Cfg) (cutoff : Int) (tr : Bool) (m0 : Msg) (st : St) (acts : List Act) (hexp : expired cutoff m0 = true)
    (h : Tgt cutoff m0 st) : Tgt cutoff m0 (runActs c cutoff tr st acts) := by
  induction acts generalizing st with
  | nil => exact h
  | cons a acts ih => exact ih _ (tgt_act c cutoff tr m0 st a hexp h)

theorem tgt_init (cutoff : Int) (s : Store) (names : List Bytes) (m0 : Msg) (h : WF s) (hm : m0 ∈ s.msgs)
    (hb : m0.box ∈ names) : Tgt cutoff m0 (init s names) :=
  ⟨h.bounded m0 hm, fun x hx hs => by rw [unique_eq h.unique hm hx hs], fun _ => hb⟩

/-! ### cancellation -/

def snapBudget : Phase → Nat
  | .visit _ => 1
  | _ => 0

def callBudget : Phase → Nat
  | .sweep p _ => p.length
  | _ => 0

def inHand : Phase → Prop
  | .visit _ => False
  | _ => True

theorem cancel_step (c : Cfg) (cutoff : Int) (st : St) (a : Act) (hc : st.cancelled = true) :
    let st' := act c cutoff false st a
    st'.cancelled = true ∧ st'.snaps + snapBudget st'.phase ≤ st.snaps + snapBudget st.phase ∧
    (inHand st.phase → inHand st'.phase ∧ st'.snaps = st.snaps ∧ st'.calls + callBudget st'.phase ≤ st.calls + callBudget st.phase) := by
  cases a with
  | client op => simp [act, hc]
  | cancel => simp [act]
  | discover b =>
    simp only [act]
    cases hph : st.phase <;> simp [addTodo, snapBudget, callBudget, inHand, hc]
  | scan coin =>
    simp only [act]
    unfold scanStep
    split <;> rename_i hph
    · simp [hph, snapBudget, inHand, hc]
    · simp [hph, snapBudget, inHand, hc]
    · simp [hph, snapBudget, callBudget, inHand, hc]
    · split <;> simp [hph, snapBudget, callBudget, inHand, hc] <;> omega
    · simp [hph, hc, snapBudget, callBudget, inHand]
    · simp [hph, hc, snapBudget, callBudget, inHand]

theorem cancel_run (c : Cfg) (cutoff : Int) (st : St) (acts : List Act) (hc : st.cancelled = true) :
    let fin := runActs c cutoff false st acts
    fin.cancelled = true ∧ fin.snaps + snapBudget fin.phase ≤ st.snaps + snapBudget st.phase ∧
    (inHand st.phase → inHand fin.phase ∧ fin.snaps = st.snaps ∧ fin.calls + callBudget fin.phase ≤ st.calls + callBudget st.phase) := by
  induction acts generalizing st with
  | nil => simp [runActs, hc]
  | cons a acts ih =>
    obtain ⟨h1, h2, h3⟩ := cancel_step c cutoff st a hc
    obtain ⟨i1, i2, i3⟩ := ih (act c cutoff false st a) h1
    simp only [runActs, List.foldl_cons] at *
    refine ⟨i1, Nat.le_trans i2 h2, fun hh => ?_⟩
    obtain ⟨j1, j2, j3⟩ := h3 hh
    obtain ⟨k1, k2, k3⟩ := i3 j1
    exact ⟨k1, k2.trans j2, Nat.le_trans k3 j3⟩


/-! ### scanner steps alone = `doScanOver` -/

theorem runActs_append (c : Cfg) (k : Int) (tr : Bool) (st : St) (a b : List Act) :
    runActs c k tr st (a ++ b) = runActs c k tr (runActs c k tr st a) b := by
  simp [runActs, List.foldl_append]

/-- scanner steps alone, from inside a snapshot, do what `sweep` does and arrive at the next mailbox -/
theorem sweep_run (c : Cfg) (k : Int) (tr coin : Bool) (pend : List Msg) (todo : List Bytes) (st : St)
    (hph : st.phase = .sweep pend todo) (hc : st.cancelled = false) :
    let fin := runActs c k tr st (List.replicate (pend.length + 2) (.scan coin))
    fin.phase = .visit todo ∧ fin.store = (sweep c k pend st.store).1 ∧
    fin.events = st.events ++ (sweep c k pend st.store).2 ∧ fin.cancelled = false := by
  induction pend generalizing st with
  | nil =>
    simp [runActs, List.replicate, act, scanStep, hph, hc, sweep]
  | cons m p ih =>
    have hl : (m :: p).length + 2 = (p.length + 2) + 1 := by simp only [List.length_cons]
    rw [hl, List.replicate_succ]
    simp only [runActs, List.foldl_cons]
    by_cases he : expired k m = true
    · have h1 : (act c k tr st (.scan coin)).phase = .sweep p todo := by simp [act, scanStep, hph, he]
      have h2 : (act c k tr st (.scan coin)).cancelled = false := by simp [act, scanStep, hph, he, hc]
      obtain ⟨i1, i2, i3, i4⟩ := ih _ h1 h2
      simp only [runActs] at i1 i2 i3 i4
      refine ⟨i1, ?_, ?_, i4⟩
      · rw [i2]; simp [act, scanStep, hph, he, sweep]
      · rw [i3]; simp [act, scanStep, hph, he, sweep, List.append_assoc]
    · have h1 : (act c k tr st (.scan coin)).phase = .sweep p todo := by simp [act, scanStep, hph, he]
      have h2 : (act c k tr st (.scan coin)).cancelled = false := by simp [act, scanStep, hph, he, hc]
      obtain ⟨i1, i2, i3, i4⟩ := ih _ h1 h2
      simp only [runActs] at i1 i2 i3 i4
      refine ⟨i1, ?_, ?_, i4⟩
      · rw [i2]; simp [act, scanStep, hph, he, sweep]
      · rw [i3]; simp [act, scanStep, hph, he, sweep]

/-- number of scanner steps of one uninterrupted scan -/
def cost (c : Cfg) (k : Int) : List Bytes → Store → Nat
  | [], _ => 1
  | b :: bs, s => 1 + ((listing s b).length + 2) + cost c k bs (sweep c k (listing s b) s).1

theorem scan_run (c : Cfg) (k : Int) (tr coin : Bool) (names : List Bytes) (st : St)
    (hph : st.phase = .visit names) (hc : st.cancelled = false) :
    let fin := runActs c k tr st (List.replicate (cost c k names st.store) (.scan coin))
    fin.phase = .done false ∧ fin.store = (doScanOver c k names st.store).1 ∧
    fin.events = st.events ++ (doScanOver c k names st.store).2 := by
  induction names generalizing st with
  | nil => simp [cost, runActs, act, scanStep, hph, doScanOver]
  | cons b bs ih =>
    simp only [cost]
    rw [← List.replicate_append_replicate, ← List.replicate_append_replicate, runActs_append, runActs_append]
    have h1 : (runActs c k tr st (List.replicate 1 (.scan coin))).phase = .sweep (listing st.store b) bs := by
      simp [runActs, List.replicate, act, scanStep, hph]
    have h2 : (runActs c k tr st (List.replicate 1 (.scan coin))).cancelled = false := by
      simp [runActs, List.replicate, act, scanStep, hph, hc]
    have h3 : (runActs c k tr st (List.replicate 1 (.scan coin))).store = st.store := by
      simp [runActs, List.replicate, act, scanStep, hph]
    have h4 : (runActs c k tr st (List.replicate 1 (.scan coin))).events = st.events := by
      simp [runActs, List.replicate, act, scanStep, hph]
    obtain ⟨s1, s2, s3, s4⟩ := sweep_run c k tr coin _ bs _ h1 h2
    rw [h3] at s2 s3
    rw [h4] at s3
    obtain ⟨i1, i2, i3⟩ := ih _ s1 s4
    rw [s2] at i1 i2 i3
    rw [s3] at i3
    refine ⟨i1, ?_, ?_⟩
    · rw [i2]; simp [doScanOver]
    · rw [i3]; simp [doScanOver, List.append_assoc]


end Ibx.Lemmas.Retention
