import Ibx.Model.Hub
/-
  Lemmas.HubRing — the container/ring history refines "the last N dispatched, minus those deleted since".
-/
namespace Ibx.Lemmas.Hub
open Ibx.Spec.HubLog Ibx.Model.Hub

theorem snoc_induction {α : Type} {P : List α → Prop} (nil : P []) (snoc : ∀ l a, P l → P (l ++ [a])) :
    ∀ l, P l := by
  intro l
  have h : ∀ r : List α, P r.reverse := by
    intro r
    induction r with
    | nil => simpa using nil
    | cons a r ih => simpa using snoc _ a ih
  simpa using h l.reverse

/-- the ring component of `step` -/
def ringStep (r : List (Option Msg)) : Op → List (Option Msg)
  | .dispatch m => ringPut m r
  | .delete mb id => ringDelete mb id r
  | _ => r

theorem step_ring (h : Hub) (op : Op) : (step h op).ring = ringStep h.ring op := by
  cases op with
  | dispatch m =>
    simp only [step, ringStep]
    split
    · rename_i he
      have : h.ring = [] := by simpa using he
      simp [this, ringPut]
    · rfl
  | delete mb id =>
    simp only [step, ringStep]
    split
    · rename_i he
      have : h.ring = [] := by simpa using he
      simp [this, ringDelete]
    · rfl
  | add l => rfl
  | remove l => rfl

theorem run_ring (h : Hub) (ops : List Op) : (run h ops).ring = ops.foldl ringStep h.ring := by
  induction ops generalizing h with
  | nil => rfl
  | cons op ops ih => simp only [run, List.foldl_cons] at ih ⊢; rw [ih, step_ring]

theorem ringPut_length (m : Msg) (r : List (Option Msg)) : (ringPut m r).length = r.length := by
  cases r <;> simp [ringPut]

theorem clearFirst_length {mb id : Nat} {r r' : List (Option Msg)} (h : clearFirst mb id r = some r') :
    r'.length = r.length := by
  induction r generalizing r' with
  | nil => simp [clearFirst] at h
  | cons c rest ih =>
    simp only [clearFirst] at h
    split at h
    · cases h; simp
    · split at h
      · rename_i r2 h2; cases h; simp [ih h2]
      · cases h

theorem ringDelete_length (mb id : Nat) (r : List (Option Msg)) : (ringDelete mb id r).length = r.length := by
  cases r with
  | nil => rfl
  | cons c rest =>
    simp only [ringDelete]
    split
    · rename_i r2 h2; simp [clearFirst_length h2]
    · split <;> simp

theorem ringStep_length (r : List (Option Msg)) (op : Op) : (ringStep r op).length = r.length := by
  cases op <;> simp [ringStep, ringPut_length, ringDelete_length]

theorem run_ring_length (h : Hub) (ops : List Op) : (run h ops).ring.length = h.ring.length := by
  rw [run_ring]
  induction ops generalizing h with
  | nil => rfl
  | cons op ops ih =>
    have := ih { h with ring := ringStep h.ring op }
    simp only [List.foldl_cons] at this ⊢
    rw [this, ringStep_length]

/-! ### all slots ever written, with their deleted flag -/

def flag (e : Msg × List Op) : Option Msg := if e.2.any (deletes e.1) then none else some e.1
def allSlots (ops : List Op) : List (Option Msg) := (entries ops).map flag
def kill (mb id : Nat) (c : Option Msg) : Option Msg := if isKey mb id c then none else c

def extra : Op → List (Msg × List Op)
  | .dispatch m => [(m, [])]
  | _ => []

theorem entries_snoc (ops : List Op) (op : Op) :
    entries (ops ++ [op]) = (entries ops).map (fun e => (e.1, e.2 ++ [op])) ++ extra op := by
  induction ops with
  | nil => cases op <;> simp [entries, extra]
  | cons o ops ih => cases o <;> simp [entries, ih]

theorem allSlots_dispatch (ops : List Op) (m : Msg) :
    allSlots (ops ++ [.dispatch m]) = allSlots ops ++ [some m] := by
  simp [allSlots, entries_snoc, extra, flag, deletes, Function.comp_def]

theorem allSlots_delete (ops : List Op) (mb id : Nat) :
    allSlots (ops ++ [.delete mb id]) = (allSlots ops).map (kill mb id) := by
  simp only [allSlots, entries_snoc, extra, List.append_nil, List.map_map]
  apply List.map_congr_left
  intro e _
  simp only [Function.comp, flag, List.any_append, List.any_cons, List.any_nil, Bool.or_false, deletes, kill]
  by_cases h : e.2.any (deletes e.1) = true
  · simp [h, isKey]
  · simp [h, isKey]

theorem allSlots_add (ops : List Op) (l : Nat) : allSlots (ops ++ [.add l]) = allSlots ops := by
  simp [allSlots, entries_snoc, extra, flag, deletes, Function.comp_def]

theorem allSlots_remove (ops : List Op) (l : Nat) : allSlots (ops ++ [.remove l]) = allSlots ops := by
  simp [allSlots, entries_snoc, extra, flag, deletes, Function.comp_def]


/-! ### Delete on a window holding at most one matching cell -/

theorem map_kill_of_count_zero {mb id : Nat} {Y : List (Option Msg)} (h : Y.countP (isKey mb id) = 0) :
    Y.map (kill mb id) = Y := by
  induction Y with
  | nil => rfl
  | cons c Y ih =>
    rw [List.countP_cons] at h
    have hc : isKey mb id c = false := by
      cases hk : isKey mb id c
      · rfl
      · simp [hk] at h
    have h0 : Y.countP (isKey mb id) = 0 := by omega
    simp [kill, hc, ih h0]

theorem clearFirst_spec (mb id : Nat) (Y : List (Option Msg)) :
    (clearFirst mb id Y = none → Y.countP (isKey mb id) = 0) ∧
    (∀ Y', clearFirst mb id Y = some Y' →
      1 ≤ Y.countP (isKey mb id) ∧ (Y.countP (isKey mb id) ≤ 1 → Y' = Y.map (kill mb id))) := by
  induction Y with
  | nil => simp [clearFirst]
  | cons c Y ih =>
    simp only [clearFirst]
    by_cases hc : isKey mb id c = true
    · simp only [hc, if_true, List.countP_cons]
      refine ⟨(by intro h; cases h), ?_⟩
      intro Y' hY'
      cases hY'
      refine ⟨by omega, ?_⟩
      intro hle
      have h0 : Y.countP (isKey mb id) = 0 := by omega
      simp [kill, hc, map_kill_of_count_zero h0]
    · have hc' : isKey mb id c = false := by simpa using hc
      simp only [hc', Bool.false_eq_true, if_false, List.countP_cons]
      cases hcf : clearFirst mb id Y with
      | none =>
        refine ⟨fun _ => by simpa using ih.1 hcf, ?_⟩
        intro Y' hY'; cases hY'
      | some r =>
        refine ⟨(by intro h; cases h), ?_⟩
        intro Y' hY'
        cases hY'
        have h1 := ih.2 r hcf
        refine ⟨by omega, ?_⟩
        intro hle
        have := h1.2 (by omega)
        simp [kill, hc', this]

theorem ringDelete_eq_map_kill {mb id : Nat} {Y : List (Option Msg)} (h : Y.countP (isKey mb id) ≤ 1) :
    ringDelete mb id Y = Y.map (kill mb id) := by
  cases Y with
  | nil => rfl
  | cons c Y =>
    rw [List.countP_cons] at h
    have sp := clearFirst_spec mb id Y
    simp only [ringDelete]
    cases hcf : clearFirst mb id Y with
    | some r =>
      have h1 := sp.2 r hcf
      have h11 := h1.1
      have hc : isKey mb id c = false := by
        cases hk : isKey mb id c
        · rfl
        · have : (if isKey mb id c = true then 1 else 0) = 1 := by simp [hk]
          omega
      have := h1.2 (by simp [hc] at h; omega)
      simp [kill, hc, this]
    | none =>
      have h0 := sp.1 hcf
      by_cases hc : isKey mb id c = true
      · simp [kill, hc, map_kill_of_count_zero h0]
      · have hc' : isKey mb id c = false := by simpa using hc
        simp [kill, hc', map_kill_of_count_zero h0]

/-- `Value = m; Next()` on the window of the last N cells = the window of the last N after appending -/
theorem ringPut_lastN (m : Msg) (N : Nat) (X : List (Option Msg)) (hN : N ≤ X.length) :
    ringPut m (lastN N X) = lastN N (X ++ [some m]) := by
  unfold lastN
  by_cases h0 : N = 0
  · subst h0; simp [ringPut]
  · have hj : X.length - N < X.length := by omega
    rw [List.drop_eq_getElem_cons hj]
    simp only [ringPut, List.length_append, List.length_singleton]
    have : X.length + 1 - N = X.length - N + 1 := by omega
    rw [this, List.drop_append_of_le_length (by omega)]

theorem lastN_map {α β : Type} (f : α → β) (n : Nat) (l : List α) : lastN n (l.map f) = (lastN n l).map f := by
  simp [lastN, List.map_drop]

/-! ### uniqueness of keys bounds the matches -/

def keyOf (e : Msg × List Op) : Nat × Nat := (e.1.mailbox, e.1.id)

theorem countP_flag_le_one (E : List (Msg × List Op)) (hn : (E.map keyOf).Nodup) (mb id : Nat) :
    E.countP (fun e => isKey mb id (flag e)) ≤ 1 := by
  induction E with
  | nil => simp
  | cons e E ih =>
    rw [List.map_cons, List.nodup_cons] at hn
    rw [List.countP_cons]
    have := ih hn.2
    by_cases hp : isKey mb id (flag e) = true
    · have hk : keyOf e = (mb, id) := by
        unfold flag at hp
        split at hp
        · simp [isKey] at hp
        · simp [isKey] at hp; simp [keyOf, hp]
      have h0 : E.countP (fun e => isKey mb id (flag e)) = 0 := by
        rw [List.countP_eq_zero]
        intro e' he' hp'
        have hk' : keyOf e' = (mb, id) := by
          unfold flag at hp'
          split at hp'
          · simp [isKey] at hp'
          · simp [isKey] at hp'; simp [keyOf, hp']
        exact hn.1 (List.mem_map.mpr ⟨e', he', by rw [hk', hk]⟩)
      simp [hp, h0]
    · simp [hp]; omega

theorem uniqueKeys_prefix {ops : List Op} {op : Op} (h : UniqueKeys (ops ++ [op])) : UniqueKeys ops := by
  unfold UniqueKeys at h ⊢
  rw [entries_snoc, List.map_append, List.map_map] at h
  have h1 := (List.nodup_append.mp h).1
  simpa [Function.comp_def] using h1

theorem count_window_le_one {N : Nat} {ops : List Op} (hu : UniqueKeys ops) (mb id : Nat) :
    (lastN N (List.replicate N none ++ allSlots ops)).countP (isKey mb id) ≤ 1 := by
  have h1 : (lastN N (List.replicate N none ++ allSlots ops)).countP (isKey mb id)
      ≤ (List.replicate N none ++ allSlots ops).countP (isKey mb id) :=
    List.Sublist.countP_le (List.drop_sublist _ _)
  have h2 : (List.replicate N (none : Option Msg)).countP (isKey mb id) = 0 := by
    rw [List.countP_eq_zero]; intro c hc; rw [(List.mem_replicate.mp hc).2]; simp [isKey]
  have h3 : (allSlots ops).countP (isKey mb id) ≤ 1 := by
    unfold allSlots
    rw [List.countP_map]
    exact countP_flag_le_one _ hu mb id
  rw [List.countP_append] at h1
  omega

/-- the ring after `ops` = the last N cells of (N nil cells followed by every slot ever written) -/
theorem ring_refines (N : Nat) : ∀ ops : List Op, UniqueKeys ops →
    ops.foldl ringStep (List.replicate N none) = lastN N (List.replicate N none ++ allSlots ops) := by
  apply snoc_induction
  · intro _; simp [lastN, allSlots, entries]
  · intro ops op ih hu
    have hu' := uniqueKeys_prefix hu
    rw [List.foldl_append, List.foldl_cons, List.foldl_nil, ih hu']
    cases op with
    | dispatch m =>
      rw [allSlots_dispatch, ← List.append_assoc]
      exact ringPut_lastN m N _ (by simp)
    | delete mb id =>
      rw [allSlots_delete]
      simp only [ringStep]
      rw [ringDelete_eq_map_kill (count_window_le_one hu' mb id), ← lastN_map]
      congr 1
      rw [List.map_append]
      congr 1
      simp [kill, isKey]
    | add l => rw [allSlots_add]; rfl
    | remove l => rw [allSlots_remove]; rfl

theorem filterMap_flag (L : List (Msg × List Op)) :
    (L.map flag).filterMap id = (L.filter (fun e => !(e.2.any (deletes e.1)))).map (·.1) := by
  induction L with
  | nil => rfl
  | cons e L ih =>
    by_cases h : e.2.any (deletes e.1) = true
    · simp [flag, h] at ih ⊢; exact ih
    · simp [flag, h] at ih ⊢; exact ih

theorem ringDo_window (N : Nat) (A : List (Option Msg)) :
    ringDo (lastN N (List.replicate N none ++ A)) = ringDo (lastN N A) := by
  unfold ringDo lastN
  simp only [List.length_append, List.length_replicate]
  have : N + A.length - N = A.length := by omega
  rw [this, List.drop_append, List.filterMap_append]
  have h0 : (List.drop A.length (List.replicate N (none : Option Msg))).filterMap id = [] := by
    rw [List.filterMap_eq_nil_iff]
    intro c hc
    have := List.mem_of_mem_drop hc
    rw [(List.mem_replicate.mp this).2]; rfl
  rw [h0]; simp

/-- the history a new listener is played = the specification -/
theorem ringDo_run (N : Nat) (ls : Nat → Listener) (ops : List Op) (hu : UniqueKeys ops) :
    ringDo (run (init N ls) ops).ring = history N ops := by
  rw [run_ring]
  show ringDo (ops.foldl ringStep (List.replicate N none)) = _
  rw [ring_refines N ops hu, ringDo_window]
  unfold allSlots history ringDo
  rw [lastN_map, filterMap_flag]

end Ibx.Lemmas.Hub
