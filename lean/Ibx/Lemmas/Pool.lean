import Ibx.Model.Pool
/-
  The inductive invariant of the Lua state pool model and its preservation by every step.
-/
namespace Ibx.Lemmas.Pool
open Ibx.Model.Pool

structure Inv (st : St) : Prop where
  pool_nodup : st.pool.Nodup
  held_nodup : st.held.Nodup
  disjoint : ∀ s, s ∈ st.pool → s ∉ st.held
  pc_held : ∀ t s, (st.pc t).state = some s → s ∈ st.held
  excl : ∀ t u s, (st.pc t).state = some s → (st.pc u).state = some s → t = u
  pool_lt : ∀ s, s ∈ st.pool → s < st.next
  held_lt : ∀ s, s ∈ st.held → s < st.next
  closed_lt : ∀ s, st.closed s = true → s < st.next
  pool_open : ∀ s, s ∈ st.pool → st.closed s = false
  held_open : ∀ s, s ∈ st.held → st.closed s = false
  pool_depth : ∀ s, s ∈ st.pool → st.depth s = 0
  cleared_depth : ∀ t s, st.pc t = .cleared s → st.depth s = 0
  bound : st.pool.length + st.held.length ≤ st.peak

theorem inv_init : Inv init := by
  constructor <;> simp [init, Pc.state]

theorem upd_pc_state (f : Tid → Pc) (t u : Tid) (p : Pc) : (upd f t p u).state = if u = t then p.state else (f u).state := by
  unfold upd; split <;> rfl

theorem inv_get_new (st : St) (hi : Inv st) (t : Tid) (d : Nat) (_hidle : st.pc t = .idle) (hp : st.pool = []) :
    Inv (checkout { st with next := st.next + 1, depth := upd st.depth st.next d } t st.next) := by
  have hfresh : st.next ∉ st.held := fun h => Nat.lt_irrefl _ (hi.held_lt _ h)
  obtain ⟨h1, h2, h3, h4, h5, h6, h7, h8, h9, h10, h11, h12, h13⟩ := hi
  constructor <;> simp only [checkout, upd_pc_state] <;> grind [upd, Pc.state]

theorem inv_get_pop (st : St) (hi : Inv st) (t : Tid) (s : Sid) (rest : List Sid) (_hidle : st.pc t = .idle) (hp : st.pool = s :: rest) :
    Inv (checkout { st with pool := rest } t s) := by
  obtain ⟨h1, h2, h3, h4, h5, h6, h7, h8, h9, h10, h11, h12, h13⟩ := hi
  constructor <;> simp only [checkout, upd_pc_state] <;> grind [upd, Pc.state]

theorem inv_use (st : St) (hi : Inv st) (t : Tid) (s : Sid) (d : Nat) (hh : st.pc t = .holding s) :
    Inv { st with depth := upd st.depth s d } := by
  obtain ⟨h1, h2, h3, h4, h5, h6, h7, h8, h9, h10, h11, h12, h13⟩ := hi
  constructor <;> grind [upd, Pc.state]

theorem inv_drop (st : St) (hi : Inv st) (t : Tid) (s : Sid) (hh : (st.pc t).state = some s) :
    Inv (drop st t s) := by
  obtain ⟨h1, h2, h3, h4, h5, h6, h7, h8, h9, h10, h11, h12, h13⟩ := hi
  constructor <;> simp only [drop, upd_pc_state] <;> grind [upd, Pc.state, List.Nodup.erase, List.Nodup.mem_erase_iff, List.length_erase_of_mem]

theorem inv_put_clear (st : St) (hi : Inv st) (t : Tid) (s : Sid) (hh : st.pc t = .holding s) :
    Inv { st with depth := upd st.depth s 0, pc := upd st.pc t (.cleared s) } := by
  obtain ⟨h1, h2, h3, h4, h5, h6, h7, h8, h9, h10, h11, h12, h13⟩ := hi
  constructor <;> simp only [upd_pc_state] <;> grind [upd, Pc.state]

theorem inv_put_append (st : St) (hi : Inv st) (t : Tid) (s : Sid) (hh : st.pc t = .cleared s) :
    Inv { drop st t s with pool := s :: st.pool } := by
  obtain ⟨h1, h2, h3, h4, h5, h6, h7, h8, h9, h10, h11, h12, h13⟩ := hi
  constructor <;> simp only [drop, upd_pc_state] <;> grind [upd, Pc.state, List.Nodup.erase, List.Nodup.mem_erase_iff, List.length_erase_of_mem]

theorem inv_flush (st : St) (hi : Inv st) :
    Inv { st with pool := [], closed := fun s => st.closed s || st.pool.contains s } := by
  obtain ⟨h1, h2, h3, h4, h5, h6, h7, h8, h9, h10, h11, h12, h13⟩ := hi
  constructor <;> grind [Pc.state]

theorem inv_step (st st' : St) (op : Op) (hi : Inv st) (hs : step st op = some st') : Inv st' := by
  cases op with
  | get t d =>
    simp only [step] at hs
    split at hs
    · cases hs
    · next hidle =>
      have hidle' : st.pc t = .idle := by simpa using hidle
      split at hs
      · next hp => cases hs; exact inv_get_new st hi t d hidle' hp
      · next s rest hp => cases hs; exact inv_get_pop st hi t s rest hidle' hp
  | getFail t =>
    simp only [step] at hs
    split at hs
    · cases hs; exact hi
    · cases hs
  | use t d =>
    simp only [step] at hs
    split at hs
    · next s hh => cases hs; exact inv_use st hi t s d hh
    · cases hs
  | putClosed t =>
    simp only [step] at hs
    split at hs
    · next s hh =>
      split at hs
      · cases hs; exact inv_drop st hi t s (by simp [hh, Pc.state])
      · cases hs
    · cases hs
  | putClear t =>
    simp only [step] at hs
    split at hs
    · next s hh =>
      split at hs
      · cases hs
      · cases hs; exact inv_put_clear st hi t s hh
    · cases hs
  | putAppend t =>
    simp only [step] at hs
    split at hs
    · next s hh => cases hs; exact inv_put_append st hi t s hh
    · cases hs
  | leak t =>
    simp only [step] at hs
    split at hs
    · next s hh => cases hs; exact inv_drop st hi t s (by simp [hh, Pc.state])
    · cases hs
  | flush =>
    simp only [step] at hs
    cases hs; exact inv_flush st hi

theorem inv_reach (st : St) (h : Reach st) : Inv st := by
  induction h with
  | init => exact inv_init
  | step op _ hs ih => exact inv_step _ _ op ih hs

end Ibx.Lemmas.Pool
