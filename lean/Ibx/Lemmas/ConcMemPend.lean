import Ibx.Lemmas.ConcMemStepFacts
import Ibx.Lemmas.ConcMemMutex
/-
  The discipline of the enforcer rendezvous in the interleaving model of the memory store:
  every `enforcerRemove(m)` / `enforcerDeliver(m)` is issued exactly once per message.

  * the todo lists of the threads are duplicate free and pairwise disjoint (apart from `unlock`), and a
    request the enforcer is serving is in no todo list any more;
  * a pending `rem k` belongs to a message that is no longer in its map (it is issued by the critical section
    that deleted it, and a deleted id never comes back);
  * a pending `inc k` belongs to a message that is not registered yet (`el == nil`);
  * `el` / `gone` are only ever set for ids that have been assigned, never both.
-/
namespace Ibx.Model.ConcMem

structure PendInv (s : St) : Prop where
  box : BoxOK s.abs
  nd : ∀ t, (todoPC (s.thr t)).Nodup
  uq : ∀ x t1 t2, x ≠ Instr.unlock → x ∈ todoPC (s.thr t1) → x ∈ todoPC (s.thr t2) → t1 = t2
  sntR : ∀ k t t', s.epc = .rem t k → Instr.rem k ∉ todoPC (s.thr t')
  sntI : ∀ k t t', s.epc = .inc t k → Instr.inc k ∉ todoPC (s.thr t')
  remT : ∀ k t, Instr.rem k ∈ todoPC (s.thr t) → ¬ live s.abs k ∧ k.2 ≤ (s.boxes k.1).last
  remE : ∀ k t, s.epc = .rem t k → ¬ live s.abs k ∧ k.2 ≤ (s.boxes k.1).last
  incT : ∀ k t, Instr.inc k ∈ todoPC (s.thr t) → s.el k = false ∧ k.2 ≤ (s.boxes k.1).last
  incE : ∀ k t, s.epc = .inc t k → s.el k = false ∧ k.2 ≤ (s.boxes k.1).last
  elB : ∀ k, s.el k = true → k.2 ≤ (s.boxes k.1).last
  goneD : ∀ k, s.gone k = true → s.el k = false ∧ ¬ live s.abs k ∧ k.2 ≤ (s.boxes k.1).last

theorem pendInv_init (p) : PendInv (init p) := by
  refine ⟨boxOK_empty, ?_, ?_, ?_, ?_, ?_, ?_, ?_, ?_, ?_, ?_⟩ <;> simp [init, todoPC]

/-! ### the todo list computed by a critical section -/

theorem mem_todoOf {v : Variant} {c : Cfg} {o : Op} {r : Ret} {del : List Key} {x : Instr}
    (h : x ∈ todoOf v c o r del) :
    x = .unlock ∨ (∃ k ∈ del, x = .rem k) ∨ (∃ b sz i, o = .add b sz ∧ r = .id i ∧ x = .inc (b, i)) := by
  unfold todoOf at h
  split at h
  · simp at h; exact Or.inl h
  · split at h
    · rename_i b sz i
      split at h
      · simp only [List.mem_cons, List.mem_append, List.mem_map, List.not_mem_nil, or_false] at h
        rcases h with h | ⟨k, hk, rfl⟩ | h
        · exact Or.inl h
        · exact Or.inr (Or.inl ⟨k, hk, rfl⟩)
        · exact Or.inr (Or.inr ⟨b, sz, i, rfl, rfl, h⟩)
      · simp only [List.mem_cons, List.mem_map] at h
        rcases h with h | h | ⟨k, hk, rfl⟩
        · exact Or.inr (Or.inr ⟨b, sz, i, rfl, rfl, h⟩)
        · exact Or.inl h
        · exact Or.inr (Or.inl ⟨k, hk, rfl⟩)
    · split at h
      · simp only [List.mem_cons, List.mem_map] at h
        rcases h with h | ⟨k, hk, rfl⟩
        · exact Or.inl h
        · exact Or.inr (Or.inl ⟨k, hk, rfl⟩)
      · simp only [List.mem_append, List.mem_map, List.mem_singleton] at h
        rcases h with ⟨k, hk, rfl⟩ | h
        · exact Or.inr (Or.inl ⟨k, hk, rfl⟩)
        · exact Or.inl h
    · simp only [List.mem_cons, List.mem_map] at h
      rcases h with h | ⟨k, hk, rfl⟩
      · exact Or.inl h
      · exact Or.inr (Or.inl ⟨k, hk, rfl⟩)

theorem nodup_map_rem {del : List Key} (h : del.Nodup) : (del.map Instr.rem).Nodup := by
  induction del with
  | nil => simp
  | cons k ks ih =>
    rw [List.nodup_cons] at h
    simp only [List.map_cons, List.nodup_cons, List.mem_map, Instr.rem.injEq, exists_eq_right]
    exact ⟨h.1, ih h.2⟩

theorem todoOf_nodup (v : Variant) (c : Cfg) (o : Op) (r : Ret) {del : List Key} (h : del.Nodup) :
    (todoOf v c o r del).Nodup := by
  have hm := nodup_map_rem h
  unfold todoOf
  split
  · simp
  · split
    · split
      · simp only [List.nodup_cons, List.mem_append, List.mem_map, List.mem_singleton, reduceCtorEq, and_false,
          exists_false, or_self, not_false_eq_true, true_and]
        rw [List.nodup_append]
        refine ⟨hm, by simp, ?_⟩
        intro a ha b hb
        simp only [List.mem_map] at ha
        obtain ⟨k, _, rfl⟩ := ha
        simp at hb; simp [hb]
      · simp only [List.nodup_cons, List.mem_cons, List.mem_map, reduceCtorEq, and_false, exists_false, or_self,
          not_false_eq_true, true_and]
        exact hm
    · split
      · simp only [List.nodup_cons, List.mem_map, reduceCtorEq, and_false, exists_false, not_false_eq_true, true_and]
        exact hm
      · rw [List.nodup_append]
        refine ⟨hm, by simp, ?_⟩
        intro a ha b hb
        simp only [List.mem_map] at ha
        obtain ⟨k, _, rfl⟩ := ha
        simp at hb; simp [hb]
    · simp only [List.nodup_cons, List.mem_map, reduceCtorEq, and_false, exists_false, not_false_eq_true, true_and]
      exact hm


/-! ### steps that only consume todo entries -/

theorem live_congr {s s' : St} (hb : s'.boxes = s.boxes) (k : Key) : live s'.abs k ↔ live s.abs k := by
  simp [live, St.abs, hb]

/-- a step that leaves the maps, `el` and `gone` alone, pops at most the head of a todo list, and moves the
    enforcer's program counter only to a request that was that head -/
theorem PendInv.transfer {s s' : St} (h : PendInv s)
    (hb : s'.boxes = s.boxes) (hel : s'.el = s.el) (hg : s'.gone = s.gone)
    (htd : ∀ t, todoPC (s'.thr t) = todoPC (s.thr t) ∨ ∃ x, todoPC (s.thr t) = x :: todoPC (s'.thr t))
    (hr : ∀ k t, s'.epc = .rem t k → s.epc = .rem t k ∨ ∃ t0, todoPC (s.thr t0) = .rem k :: todoPC (s'.thr t0))
    (hi : ∀ k t, s'.epc = .inc t k → s.epc = .inc t k ∨ ∃ t0, todoPC (s.thr t0) = .inc k :: todoPC (s'.thr t0)) :
    PendInv s' := by
  have hsub : ∀ t x, x ∈ todoPC (s'.thr t) → x ∈ todoPC (s.thr t) := by
    intro t x hx
    rcases htd t with e | ⟨y, e⟩
    · rw [← e]; exact hx
    · rw [e]; exact List.mem_cons_of_mem _ hx
  have hbx : BoxOK s'.abs := by
    have := h.box; simpa [BoxOK, St.abs, hb] using this
  refine ⟨hbx, ?_, ?_, ?_, ?_, ?_, ?_, ?_, ?_, ?_, ?_⟩
  · intro t
    rcases htd t with e | ⟨y, e⟩
    · rw [e]; exact h.nd t
    · have := h.nd t; rw [e, List.nodup_cons] at this; exact this.2
  · intro x t1 t2 hx h1 h2; exact h.uq x t1 t2 hx (hsub _ _ h1) (hsub _ _ h2)
  · intro k t t' he hm
    rcases hr k t he with e | ⟨t0, e⟩
    · exact h.sntR k t t' e (hsub _ _ hm)
    · by_cases e0 : t' = t0
      · subst e0; have := h.nd t'; rw [e, List.nodup_cons] at this; exact this.1 hm
      · exact e0 (h.uq (.rem k) t' t0 (by simp) (hsub _ _ hm) (by rw [e]; simp))
  · intro k t t' he hm
    rcases hi k t he with e | ⟨t0, e⟩
    · exact h.sntI k t t' e (hsub _ _ hm)
    · by_cases e0 : t' = t0
      · subst e0; have := h.nd t'; rw [e, List.nodup_cons] at this; exact this.1 hm
      · exact e0 (h.uq (.inc k) t' t0 (by simp) (hsub _ _ hm) (by rw [e]; simp))
  · intro k t hm; rw [live_congr hb, hb]; exact h.remT k t (hsub _ _ hm)
  · intro k t he
    rw [live_congr hb, hb]
    rcases hr k t he with e | ⟨t0, e⟩
    · exact h.remE k t e
    · exact h.remT k t0 (by rw [e]; simp)
  · intro k t hm; rw [hel, hb]; exact h.incT k t (hsub _ _ hm)
  · intro k t he
    rw [hel, hb]
    rcases hi k t he with e | ⟨t0, e⟩
    · exact h.incE k t e
    · exact h.incT k t0 (by rw [e]; simp)
  · intro k hk; rw [hel] at hk; rw [hb]; exact h.elB k hk
  · intro k hk; rw [hg] at hk; rw [hel, live_congr hb, hb]; exact h.goneD k hk

/-- todo lists after replacing the program counter of thread `t` -/
theorem todo_upd_same {thr : Nat → PC} {t : Nat} {pc : PC} (e : todoPC pc = todoPC (thr t)) (t' : Nat) :
    todoPC (upd thr t pc t') = todoPC (thr t') := by
  by_cases h : t' = t
  · subst h; simp [e]
  · simp [upd, h]

theorem todo_upd_pop {thr : Nat → PC} {t : Nat} {pc : PC} {x : Instr} (e : todoPC (thr t) = x :: todoPC pc) (t' : Nat) :
    todoPC (upd thr t pc t') = todoPC (thr t') ∨ ∃ y, todoPC (thr t') = y :: todoPC (upd thr t pc t') := by
  by_cases h : t' = t
  · subst h; right; exact ⟨x, by simp [e]⟩
  · left; simp [upd, h]


/-! ### steps that change the maps -/

theorem StepFacts.dead {c : Cfg} {a : AS} {o : Op} (F : StepFacts c a o) {k : Key} (hd : ¬ live a k)
    (hb : k.2 ≤ (a.boxes k.1).last) :
    ¬ live (Atomic.step c a o).1 k ∧ k.2 ≤ ((Atomic.step c a o).1.boxes k.1).last := by
  refine ⟨fun hl => ?_, Nat.le_trans hb (F.last_mono k.1)⟩
  rcases F.born k hl with q | q
  · exact hd q
  · have := (F.new k q).2.1; omega

theorem pendInv_crit {v : Variant} {c : Cfg} {s : St} (t : Nat) (o : Op) (ht : s.thr t = .crit o) (h : PendInv s) :
    PendInv (critEff v c t o s) := by
  have F := step_facts c s.abs o h.box
  -- what is in the new todo list
  have hmem : ∀ x, x ∈ todoOf v c o (Atomic.step c s.abs o).2.1 (Atomic.step c s.abs o).2.2 →
      x = .unlock ∨ (∃ k ∈ (Atomic.step c s.abs o).2.2, x = .rem k) ∨ (∃ k, newKey s.abs o = some k ∧ x = .inc k) := by
    intro x hx
    rcases mem_todoOf hx with q | q | ⟨b, sz, i, rfl, hr, rfl⟩
    · exact Or.inl q
    · exact Or.inr (Or.inl q)
    · exact Or.inr (Or.inr ⟨(b, i), F.ret_id i hr, rfl⟩)
  -- keys deleted / created now were not pending before
  have frem : ∀ k ∈ (Atomic.step c s.abs o).2.2, ¬ (¬ live s.abs k ∧ k.2 ≤ (s.boxes k.1).last) := by
    intro k hk ⟨h1, h2⟩
    rcases (F.del k hk).2 with q | q
    · exact h1 q
    · have := (F.new k q).2.1; simp only [St.abs] at this; omega
  have fnew : ∀ k, newKey s.abs o = some k → ¬ (k.2 ≤ (s.boxes k.1).last) := by
    intro k hk h2; have := (F.new k hk).2.1; simp only [St.abs] at this; omega
  have hold : ∀ x t', x ≠ Instr.unlock →
      x ∈ todoOf v c o (Atomic.step c s.abs o).2.1 (Atomic.step c s.abs o).2.2 → x ∉ todoPC (s.thr t') := by
    intro x t' hx hm hm'
    rcases hmem x hm with q | ⟨k, hk, rfl⟩ | ⟨k, hk, rfl⟩
    · exact hx q
    · exact frem k hk (h.remT k t' hm')
    · exact fnew k hk (h.incT k t' hm').2
  have htd : ∀ t', t' ≠ t → todoPC ((critEff v c t o s).thr t') = todoPC (s.thr t') := by
    intro t' e; simp [critEff, upd, e]
  have htt : todoPC ((critEff v c t o s).thr t) = todoOf v c o (Atomic.step c s.abs o).2.1 (Atomic.step c s.abs o).2.2 := by
    simp [critEff, St.abs]
  refine ⟨F.ok, ?_, ?_, ?_, ?_, ?_, ?_, ?_, ?_, ?_, ?_⟩
  · intro t'
    by_cases e : t' = t
    · subst e; rw [htt]; exact todoOf_nodup v c o _ F.nodup
    · rw [htd t' e]; exact h.nd t'
  · intro x t1 t2 hx h1 h2
    by_cases e1 : t1 = t <;> by_cases e2 : t2 = t
    · rw [e1, e2]
    · subst e1; rw [htt] at h1; rw [htd t2 e2] at h2; exact absurd h2 (hold x t2 hx h1)
    · subst e2; rw [htt] at h2; rw [htd t1 e1] at h1; exact absurd h1 (hold x t1 hx h2)
    · rw [htd t1 e1] at h1; rw [htd t2 e2] at h2; exact h.uq x t1 t2 hx h1 h2
  · intro k t0 t' he hm
    have he' : s.epc = .rem t0 k := he
    by_cases e : t' = t
    · subst e; rw [htt] at hm
      rcases hmem _ hm with q | ⟨k', hk, q⟩ | ⟨k', hk, q⟩
      · cases q
      · injection q with q; subst q; exact frem k hk (h.remE k t0 he')
      · cases q
    · rw [htd t' e] at hm; exact h.sntR k t0 t' he' hm
  · intro k t0 t' he hm
    have he' : s.epc = .inc t0 k := he
    by_cases e : t' = t
    · subst e; rw [htt] at hm
      rcases hmem _ hm with q | ⟨k', hk, q⟩ | ⟨k', hk, q⟩
      · cases q
      · cases q
      · injection q with q; subst q; exact fnew k hk (h.incE k t0 he').2
    · rw [htd t' e] at hm; exact h.sntI k t0 t' he' hm
  · intro k t' hm
    by_cases e : t' = t
    · subst e; rw [htt] at hm
      rcases hmem _ hm with q | ⟨k', hk, q⟩ | ⟨k', hk, q⟩
      · cases q
      · injection q with q; subst q; exact ⟨(F.del k hk).1, F.bounded k hk⟩
      · cases q
    · rw [htd t' e] at hm
      obtain ⟨h1, h2⟩ := h.remT k t' hm
      exact F.dead h1 h2
  · intro k t0 he
    have he' : s.epc = .rem t0 k := he
    obtain ⟨h1, h2⟩ := h.remE k t0 he'
    exact F.dead h1 h2
  · intro k t' hm
    by_cases e : t' = t
    · subst e; rw [htt] at hm
      rcases hmem _ hm with q | ⟨k', hk, q⟩ | ⟨k', hk, q⟩
      · cases q
      · cases q
      · injection q with q; subst q
        refine ⟨?_, Nat.le_of_eq (F.new k hk).1⟩
        cases hel : s.el k with
        | false => exact hel
        | true => exact absurd (h.elB k hel) (fnew k hk)
    · rw [htd t' e] at hm
      obtain ⟨h1, h2⟩ := h.incT k t' hm
      exact ⟨h1, Nat.le_trans h2 (F.last_mono k.1)⟩
  · intro k t0 he
    have he' : s.epc = .inc t0 k := he
    obtain ⟨h1, h2⟩ := h.incE k t0 he'
    exact ⟨h1, Nat.le_trans h2 (F.last_mono k.1)⟩
  · intro k hk; exact Nat.le_trans (h.elB k hk) (F.last_mono k.1)
  · intro k hk
    obtain ⟨h1, h2, h3⟩ := h.goneD k hk
    exact ⟨h1, F.dead h2 h3⟩

theorem pendInv_evCrit {c : Cfg} {s : St} (k0 : Key) (e' : EPC) (he0 : ∀ t k, e' ≠ .rem t k) (he1 : ∀ t k, e' ≠ .inc t k)
    (h : PendInv s) : PendInv { evDelete s k0 with epc := e' } := by
  have F := step_facts c s.abs (.remove k0.1 k0.2) h.box
  have e := evDelete_is_remove c s k0
  have hab : (evDelete s k0).abs = (Atomic.step c s.abs (.remove k0.1 k0.2)).1 := by rw [e]
  refine ⟨?_, h.nd, h.uq, ?_, ?_, ?_, ?_, ?_, ?_, ?_, ?_⟩
  · show BoxOK (evDelete s k0).abs; rw [hab]; exact F.ok
  · intro k t t' he; exact absurd he (he0 t k)
  · intro k t t' he; exact absurd he (he1 t k)
  · intro k t hm
    obtain ⟨h1, h2⟩ := h.remT k t hm
    show ¬ live (evDelete s k0).abs k ∧ k.2 ≤ ((evDelete s k0).abs.boxes k.1).last
    rw [hab]; exact F.dead h1 h2
  · intro k t he; exact absurd he (he0 t k)
  · intro k t hm
    obtain ⟨h1, h2⟩ := h.incT k t hm
    refine ⟨h1, ?_⟩
    show k.2 ≤ ((evDelete s k0).abs.boxes k.1).last
    rw [hab]; exact Nat.le_trans h2 (F.last_mono k.1)
  · intro k t he; exact absurd he (he1 t k)
  · intro k hk
    show k.2 ≤ ((evDelete s k0).abs.boxes k.1).last
    rw [hab]; exact Nat.le_trans (h.elB k hk) (F.last_mono k.1)
  · intro k hk
    obtain ⟨h1, h2, h3⟩ := h.goneD k hk
    refine ⟨h1, ?_⟩
    show ¬ live (evDelete s k0).abs k ∧ k.2 ≤ ((evDelete s k0).abs.boxes k.1).last
    rw [hab]; exact F.dead h2 h3


/-! ### all steps -/

theorem pendInv_step {v c s s'} (st : Step v c s s') (h : PendInv s) : PendInv s' := by
  cases st with
  | start t o rest hp ht hpr =>
    exact h.transfer rfl rfl rfl (fun t' => Or.inl (todo_upd_same (by simp [ht]) t')) (fun _ _ he => Or.inl he)
      (fun _ _ he => Or.inl he)
  | lockS t o hp ht hl =>
    exact h.transfer rfl rfl rfl (fun t' => Or.inl (todo_upd_same (by simp [ht]) t')) (fun _ _ he => Or.inl he)
      (fun _ _ he => Or.inl he)
  | unlockS t o hp ht =>
    exact h.transfer rfl rfl rfl (fun t' => Or.inl (todo_upd_same (by simp [ht]) t')) (fun _ _ he => Or.inl he)
      (fun _ _ he => Or.inl he)
  | lockB t o hp ht hl =>
    exact h.transfer rfl rfl rfl (fun t' => Or.inl (todo_upd_same (by simp [ht]) t')) (fun _ _ he => Or.inl he)
      (fun _ _ he => Or.inl he)
  | crit t o hp ht => exact pendInv_crit t o ht h
  | unlockB t o todo r hp ht =>
    exact h.transfer rfl rfl rfl (fun t' => todo_upd_pop (x := .unlock) (by simp [ht]) t') (fun _ _ he => Or.inl he)
      (fun _ _ he => Or.inl he)
  | sendInc t o k todo r hp ht he =>
    refine h.transfer rfl rfl rfl (fun t' => todo_upd_pop (x := .inc k) (by simp [ht]) t') ?_ ?_
    · intro k' t' he'; cases he'
    · intro k' t' he'
      injection he' with _ e2; subst e2
      exact Or.inr ⟨t, by simp [ht]⟩
  | sendRem t o k todo r hp ht he =>
    refine h.transfer rfl rfl rfl (fun t' => todo_upd_pop (x := .rem k) (by simp [ht]) t') ?_ ?_
    · intro k' t' he'
      injection he' with _ e2; subst e2
      exact Or.inr ⟨t, by simp [ht]⟩
    · intro k' t' he'; cases he'
  | finish t o r hp ht =>
    exact h.transfer rfl rfl rfl (fun t' => Or.inl (todo_upd_same (by simp [ht]) t')) (fun _ _ he => Or.inl he)
      (fun _ _ he => Or.inl he)
  | incGone t k hp he hg =>
    exact h.transfer rfl rfl rfl (fun _ => Or.inl rfl) (fun _ _ he' => by cases he') (fun _ _ he' => by cases he')
  | incReg t k hp he hg =>
    refine ⟨h.box, h.nd, h.uq, ?_, ?_, h.remT, ?_, ?_, ?_, ?_, ?_⟩
    · intro k' t0 t' he'; cases he'
    · intro k' t0 t' he'; cases he'
    · intro k' t0 he'; cases he'
    · intro k' t' hm
      have q := h.incT k' t' hm
      by_cases e : k' = k
      · subst e; exact absurd hm (h.sntI k' t t' he)
      · exact ⟨by simpa [upd, e] using q.1, q.2⟩
    · intro k' t0 he'; cases he'
    · intro k' hk
      by_cases e : k' = k
      · subst e; exact (h.incE k' t he).2
      · exact h.elB k' (by simpa [upd, e] using hk)
    · intro k' hk
      have q := h.goneD k' hk
      by_cases e : k' = k
      · subst e; have hk' : s.gone k' = true := hk; rw [hg] at hk'; cases hk'
      · exact ⟨by simpa [upd, e] using q.1, q.2⟩
  | loopDone t hp he hc =>
    exact h.transfer rfl rfl rfl (fun _ => Or.inl rfl) (fun _ _ he' => by cases he') (fun _ _ he' => by cases he')
  | loopEmpty t hp he hc ha =>
    exact h.transfer rfl rfl rfl (fun _ => Or.inl rfl) (fun _ _ he' => by cases he') (fun _ _ he' => by cases he')
  | loopEvict t k rest hp he hc ha =>
    exact h.transfer rfl rfl rfl (fun _ => Or.inl rfl) (fun _ _ he' => by cases he') (fun _ _ he' => by cases he')
  | evLockS t k hp he hl =>
    exact h.transfer rfl rfl rfl (fun _ => Or.inl rfl) (fun _ _ he' => by cases he') (fun _ _ he' => by cases he')
  | evUnlockS t k hp he =>
    exact h.transfer rfl rfl rfl (fun _ => Or.inl rfl) (fun _ _ he' => by cases he') (fun _ _ he' => by cases he')
  | evLockB t k hp he hl hr =>
    exact h.transfer rfl rfl rfl (fun _ => Or.inl rfl) (fun _ _ he' => by cases he') (fun _ _ he' => by cases he')
  | evCrit t k hp he => exact pendInv_evCrit (c := c) k _ (by intros; simp) (by intros; simp) h
  | evUnlockB t k f hp he =>
    exact h.transfer rfl rfl rfl (fun _ => Or.inl rfl) (fun _ _ he' => by cases he') (fun _ _ he' => by cases he')
  | remGone t k hp he hel hv =>
    refine ⟨h.box, h.nd, h.uq, ?_, ?_, h.remT, ?_, h.incT, ?_, h.elB, ?_⟩
    · intro k' t0 t' he'; cases he'
    · intro k' t0 t' he'; cases he'
    · intro k' t0 he'; cases he'
    · intro k' t0 he'; cases he'
    · intro k' hk
      by_cases e : k' = k
      · subst e; exact ⟨hel, h.remE k' t he⟩
      · exact h.goneD k' (by simpa [upd, e] using hk)
  | remPanic t k hp he hel hv =>
    exact h.transfer rfl rfl rfl (fun _ => Or.inl rfl) (fun _ _ he' => Or.inl he') (fun _ _ he' => Or.inl he')
  | remUnlink t k hp he hel =>
    exact h.transfer rfl rfl rfl (fun _ => Or.inl rfl) (fun _ _ he' => by cases he') (fun _ _ he' => by cases he')
  | fin t hp he =>
    exact h.transfer rfl rfl rfl (fun t' => Or.inl (todo_upd_same (by simp) t')) (fun _ _ he' => by cases he')
      (fun _ _ he' => by cases he')

end Ibx.Model.ConcMem
