import Ibx.Model.ConcFileOps
/-
  Lemmas for Props/C16File.lean, part 1: with `AddMessage` holding the lock around the whole method (`wholeOp`)
  the mailbox lock gives mutual exclusion over ALL interleavings, and every reachable state is the sequential run of the
  operations in the order of their index loads plus what the one thread inside its critical section has still to do.
-/
namespace Ibx.Lemmas.ConcFileOps
open Ibx Ibx.Model.FsSteps Ibx.Model.ConcFileOps
open Ibx.Spec.Store (Meta)
open Ibx.Model.FileStore (FEnt)

/-! ### small facts -/

def holdsW : PC → Bool
  | .locked _ | .crit _ _ => true
  | _ => false

def holdsR : PC → Bool
  | .rlocked _ | .rdone => true
  | _ => false

def isCrit : PC → Bool
  | .crit _ _ => true
  | _ => false

def isFree : PC → Bool
  | .free _ _ => true
  | _ => false

@[simp] theorem setThr_same (s : St) (t : Nat) (x : Thr) : (setThr s t x).thr t = x := by simp [setThr]
theorem setThr_other (s : St) (t u : Nat) (x : Thr) (h : u ≠ t) : (setThr s t x).thr u = s.thr u := by simp [setThr, h]
@[simp] theorem setThr_dir (s : St) (t : Nat) (x : Thr) : (setThr s t x).dir = s.dir := rfl
@[simp] theorem setThr_writer (s : St) (t : Nat) (x : Thr) : (setThr s t x).writer = s.writer := rfl
@[simp] theorem setThr_readers (s : St) (t : Nat) (x : Thr) : (setThr s t x).readers = s.readers := rfl
@[simp] theorem setThr_events (s : St) (t : Nat) (x : Thr) : (setThr s t x).events = s.events := rfl
@[simp] theorem setThr_log (s : St) (t : Nat) (x : Thr) : (setThr s t x).log = s.log := rfl
@[simp] theorem setThr_failed (s : St) (t : Nat) (x : Thr) : (setThr s t x).failed = s.failed := rfl

theorem thr_setThr (s : St) (t u : Nat) (x : Thr) : (setThr s t x).thr u = if u = t then x else s.thr u := rfl

@[simp] theorem applyAct_writer (s : St) (t : Nat) (a : Act) : (applyAct s t a).writer = s.writer := by cases a <;> rfl
@[simp] theorem applyAct_readers (s : St) (t : Nat) (a : Act) : (applyAct s t a).readers = s.readers := by cases a <;> rfl
@[simp] theorem applyAct_log (s : St) (t : Nat) (a : Act) : (applyAct s t a).log = s.log := by cases a <;> rfl
@[simp] theorem applyAct_thr (s : St) (t : Nat) (a : Act) : (applyAct s t a).thr = s.thr := by cases a <;> rfl

theorem dels_append (l1 l2 : List (Nat × Ev)) : dels (l1 ++ l2) = dels l1 ++ dels l2 := by
  induction l1 with
  | nil => rfl
  | cons x l ih =>
    obtain ⟨u, e⟩ := x
    cases e <;> simp [dels, ih]

theorem dels_stored (t : Nat) (st : Option Nat) : dels (st.toList.map (fun i => (t, Ev.stored i))) = [] := by
  cases st <;> rfl

theorem cur_applyAct (s : St) (t : Nat) (a : Act) : cur (applyAct s t a) = runAct (cur s) a := by
  cases a with
  | fs st => rfl
  | emit id => simp [applyAct, cur, runAct, dels_append, dels]

theorem seqRun_append (c : Cfg) (q : Seq) (l1 l2 : List COp) : seqRun c q (l1 ++ l2) = seqRun c (seqRun c q l1) l2 := by
  simp [seqRun, List.foldl_append]

theorem seqRes_append (c : Cfg) : ∀ (l1 l2 : List COp) (q : Seq),
    seqRes c q (l1 ++ l2) = seqRes c q l1 ++ seqRes c (seqRun c q l1) l2
  | [], _, _ => rfl
  | op :: l1, l2, q => by
    simp only [List.cons_append, seqRes, seqRun, List.foldl_cons]
    rw [seqRes_append c l1 l2]; rfl

/-- reads change nothing -/
theorem loadW_read_acts (c : Cfg) (d : Option MDir) (op : COp) (h : op.isRead = true) : (loadW c d op).acts = [] := by
  cases op <;> simp [COp.isRead] at h
  · simp only [loadW]; split
    · rfl
    · split <;> rfl
  · simp only [loadW]; split <;> rfl

theorem seqStep_read (c : Cfg) (q : Seq) (op : COp) (h : op.isRead = true) : seqStep c q op = q := by
  simp [seqStep, loadW_read_acts c q.1 op h, runActs]

/-- everything but `add` is the same under both lock scopes -/
theorem loadS_of_not_add (c : Cfg) (d : Option MDir) (op : COp) (h : op.addId = []) : loadS c d op = loadW c d op := by
  cases op <;> first | rfl | simp [COp.addId] at h

theorem load_whole (c : Cfg) (h : c.scope = .wholeOp) (d : Option MDir) (op : COp) : load c d op = loadW c d op := by
  simp [load, h]

/-- under `wholeOp` an operation ends with Unlock and return -/
theorem loadW_next (c : Cfg) (d : Option MDir) (op : COp) : ∃ st, (loadW c d op).next = .ret st := by
  cases op <;> simp only [loadW] <;> repeat' split
  all_goals exact ⟨_, rfl⟩

/-! ### mutual exclusion -/

/-- the lock invariant: who is between Lock and Unlock is the registered writer, who is between RLock and RUnlock a
    registered reader, never a writer and a reader together; with the whole-method scope nobody touches the mailbox
    outside the lock and every critical section ends with the return -/
structure Mutex (s : St) : Prop where
  writer : ∀ t, holdsW (s.thr t).pc = true → s.writer = some t
  reader : ∀ t, holdsR (s.thr t).pc = true → t ∈ s.readers
  excl : s.writer ≠ none → s.readers = []
  noFree : ∀ t, isFree (s.thr t).pc = false
  ends : ∀ t acts n, (s.thr t).pc = .crit acts n → ∃ st, n = .ret st
  reads : ∀ t op, (s.thr t).pc = .rlocked op → op.isRead = true

theorem mutex_init {d0 : Option MDir} {s : St} (h : Init d0 s) : Mutex s := by
  obtain ⟨_, hw, hr, _, _, _, hp⟩ := h
  refine ⟨?_, ?_, ?_, ?_, ?_, ?_⟩
  · intro t ht; simp [hp t, holdsW] at ht
  · intro t ht; simp [hp t, holdsR] at ht
  · intro h; exact absurd hw h
  · intro t; simp [hp t, isFree]
  · intro t acts n ht; simp [hp t] at ht
  · intro t op ht; simp [hp t] at ht

/-- two threads inside (write) critical sections are the same thread; nobody reads meanwhile -/
theorem Mutex.unique {s : St} (m : Mutex s) {t u : Nat} (ht : holdsW (s.thr t).pc = true) (hu : holdsW (s.thr u).pc = true) : t = u := by
  have := m.writer t ht
  have := m.writer u hu
  simp_all

theorem Mutex.no_reader {s : St} (m : Mutex s) {t u : Nat} (ht : holdsW (s.thr t).pc = true) : holdsR (s.thr u).pc = false := by
  cases h : holdsR (s.thr u).pc with
  | false => rfl
  | true =>
    have h1 := m.writer t ht
    have h2 := m.reader u h
    have h3 := m.excl (by simp [h1])
    simp [h3] at h2

theorem mutex_step {c : Cfg} (hc : c.scope = .wholeOp) {s s' : St} (m : Mutex s) (st : Step c s s') : Mutex s' := by
  cases st with
  | lock t op rest ht hr hf =>
    obtain ⟨hw, hrd⟩ := hf
    refine ⟨?_, ?_, ?_, ?_, ?_, ?_⟩
    · intro u hu
      by_cases h : u = t
      · subst h; rfl
      · rw [setThr_other _ _ _ _ h] at hu
        have := m.writer u hu; simp [hw] at this
    · intro u hu
      by_cases h : u = t
      · subst h; simp [holdsR] at hu
      · rw [setThr_other _ _ _ _ h] at hu
        have := m.reader u hu; simp [hrd] at this
    · intro _; exact hrd
    · intro u
      by_cases h : u = t
      · subst h; simp [isFree]
      · rw [setThr_other _ _ _ _ h]; exact m.noFree u
    · intro u acts n hu
      by_cases h : u = t
      · subst h; simp at hu
      · rw [setThr_other _ _ _ _ h] at hu; exact m.ends u acts n hu
    · intro u op' hu
      by_cases h : u = t
      · subst h; simp at hu
      · rw [setThr_other _ _ _ _ h] at hu; exact m.reads u op' (by simpa using hu)
  | load t op todo ht =>
    have hwt : s.writer = some t := m.writer t (by simp [ht, holdsW])
    refine ⟨?_, ?_, ?_, ?_, ?_, ?_⟩
    · intro u hu
      by_cases h : u = t
      · subst h; exact hwt
      · rw [setThr_other _ _ _ _ h] at hu; exact m.writer u hu
    · intro u hu
      by_cases h : u = t
      · subst h; simp [holdsR] at hu
      · rw [setThr_other _ _ _ _ h] at hu; exact m.reader u hu
    · exact m.excl
    · intro u
      by_cases h : u = t
      · subst h; simp [isFree]
      · rw [setThr_other _ _ _ _ h]; exact m.noFree u
    · intro u acts n hu
      by_cases h : u = t
      · subst h
        simp only [setThr_same, PC.crit.injEq] at hu
        rw [load_whole c hc] at hu
        obtain ⟨x, hx⟩ := loadW_next c s.dir op
        exact ⟨x, by rw [← hu.2, hx]⟩
      · rw [setThr_other _ _ _ _ h] at hu; exact m.ends u acts n hu
    · intro u op' hu
      by_cases h : u = t
      · subst h; simp at hu
      · rw [setThr_other _ _ _ _ h] at hu; exact m.reads u op' (by simpa using hu)
  | act t a as n todo ht =>
    refine ⟨?_, ?_, ?_, ?_, ?_, ?_⟩
    · intro u hu
      by_cases h : u = t
      · subst h; simpa using m.writer u (by simp [ht, holdsW])
      · rw [setThr_other _ _ _ _ h] at hu; simpa using m.writer u (by simpa using hu)
    · intro u hu
      by_cases h : u = t
      · subst h; simp [holdsR] at hu
      · rw [setThr_other _ _ _ _ h] at hu; simpa using m.reader u (by simpa using hu)
    · simpa using m.excl
    · intro u
      by_cases h : u = t
      · subst h; simp [isFree]
      · rw [setThr_other _ _ _ _ h]; simpa using m.noFree u
    · intro u acts n' hu
      by_cases h : u = t
      · subst h
        simp only [setThr_same, PC.crit.injEq] at hu
        obtain ⟨x, hx⟩ := m.ends u (a :: as) n (by simp [ht])
        exact ⟨x, by rw [← hu.2, hx]⟩
      · rw [setThr_other _ _ _ _ h] at hu; exact m.ends u acts n' (by simpa using hu)
    · intro u op' hu
      by_cases h : u = t
      · subst h; simp at hu
      · rw [setThr_other _ _ _ _ h] at hu; exact m.reads u op' (by simpa using hu)
  | unlockRet t st0 todo ht =>
    have hwt : holdsW (s.thr t).pc = true := by simp [ht, holdsW]
    refine ⟨?_, ?_, ?_, ?_, ?_, ?_⟩
    · intro u hu
      by_cases h : u = t
      · subst h; simp [holdsW] at hu
      · rw [setThr_other _ _ _ _ h] at hu; exact absurd (m.unique hu hwt) h
    · intro u hu
      by_cases h : u = t
      · subst h; simp [holdsR] at hu
      · rw [setThr_other _ _ _ _ h] at hu; exact m.reader u hu
    · intro h; exact absurd rfl h
    · intro u
      by_cases h : u = t
      · subst h; simp [isFree]
      · rw [setThr_other _ _ _ _ h]; exact m.noFree u
    · intro u acts n hu
      by_cases h : u = t
      · subst h; simp at hu
      · rw [setThr_other _ _ _ _ h] at hu; exact m.ends u acts n hu
    · intro u op' hu
      by_cases h : u = t
      · subst h; simp at hu
      · rw [setThr_other _ _ _ _ h] at hu; exact m.reads u op' (by simpa using hu)
  | unlockCopy t id src stale todo ht =>
    obtain ⟨x, hx⟩ := m.ends t [] (.copy id src stale) (by simp [ht])
    cases hx
  | freeAct t a as n todo ht =>
    have := m.noFree t; simp [ht, isFree] at this
  | relock t id stale todo ht hf =>
    have := m.noFree t; simp [ht, isFree] at this
  | stored t st0 todo ht =>
    refine ⟨?_, ?_, ?_, ?_, ?_, ?_⟩
    · intro u hu
      by_cases h : u = t
      · subst h; simp [holdsW] at hu
      · rw [setThr_other _ _ _ _ h] at hu; exact m.writer u hu
    · intro u hu
      by_cases h : u = t
      · subst h; simp [holdsR] at hu
      · rw [setThr_other _ _ _ _ h] at hu; exact m.reader u hu
    · exact m.excl
    · intro u
      by_cases h : u = t
      · subst h; simp [isFree]
      · rw [setThr_other _ _ _ _ h]; exact m.noFree u
    · intro u acts n hu
      by_cases h : u = t
      · subst h; simp at hu
      · rw [setThr_other _ _ _ _ h] at hu; exact m.ends u acts n hu
    · intro u op' hu
      by_cases h : u = t
      · subst h; simp at hu
      · rw [setThr_other _ _ _ _ h] at hu; exact m.reads u op' (by simpa using hu)
  | rlock t op rest ht hr hw =>
    refine ⟨?_, ?_, ?_, ?_, ?_, ?_⟩
    · intro u hu
      by_cases h : u = t
      · subst h; simp [holdsW] at hu
      · rw [setThr_other _ _ _ _ h] at hu; exact m.writer u hu
    · intro u hu
      by_cases h : u = t
      · subst h; simp
      · rw [setThr_other _ _ _ _ h] at hu; simpa using Or.inr (m.reader u hu)
    · intro h; exact absurd hw h
    · intro u
      by_cases h : u = t
      · subst h; simp [isFree]
      · rw [setThr_other _ _ _ _ h]; exact m.noFree u
    · intro u acts n hu
      by_cases h : u = t
      · subst h; simp at hu
      · rw [setThr_other _ _ _ _ h] at hu; exact m.ends u acts n hu
    · intro u op' hu
      by_cases h : u = t
      · subst h; simp at hu; subst hu; exact hr
      · rw [setThr_other _ _ _ _ h] at hu; exact m.reads u op' (by simpa using hu)
  | rload t op todo ht =>
    refine ⟨?_, ?_, ?_, ?_, ?_, ?_⟩
    · intro u hu
      by_cases h : u = t
      · subst h; simp [holdsW] at hu
      · rw [setThr_other _ _ _ _ h] at hu; exact m.writer u hu
    · intro u hu
      by_cases h : u = t
      · subst h; exact m.reader u (by simp [ht, holdsR])
      · rw [setThr_other _ _ _ _ h] at hu; exact m.reader u hu
    · exact m.excl
    · intro u
      by_cases h : u = t
      · subst h; simp [isFree]
      · rw [setThr_other _ _ _ _ h]; exact m.noFree u
    · intro u acts n hu
      by_cases h : u = t
      · subst h; simp at hu
      · rw [setThr_other _ _ _ _ h] at hu; exact m.ends u acts n hu
    · intro u op' hu
      by_cases h : u = t
      · subst h; simp at hu
      · rw [setThr_other _ _ _ _ h] at hu; exact m.reads u op' (by simpa using hu)
  | runlock t todo ht =>
    refine ⟨?_, ?_, ?_, ?_, ?_, ?_⟩
    · intro u hu
      by_cases h : u = t
      · subst h; simp [holdsW] at hu
      · rw [setThr_other _ _ _ _ h] at hu; exact m.writer u hu
    · intro u hu
      by_cases h : u = t
      · subst h; simp [holdsR] at hu
      · rw [setThr_other _ _ _ _ h] at hu
        exact (List.mem_erase_of_ne h).2 (m.reader u hu)
    · intro h
      have := m.excl h
      simp [this]
    · intro u
      by_cases h : u = t
      · subst h; simp [isFree]
      · rw [setThr_other _ _ _ _ h]; exact m.noFree u
    · intro u acts n hu
      by_cases h : u = t
      · subst h; simp at hu
      · rw [setThr_other _ _ _ _ h] at hu; exact m.ends u acts n hu
    · intro u op' hu
      by_cases h : u = t
      · subst h; simp at hu
      · rw [setThr_other _ _ _ _ h] at hu; exact m.reads u op' (by simpa using hu)

theorem mutex_reach {c : Cfg} (hc : c.scope = .wholeOp) {d0 : Option MDir} {s : St} (h : Reach c d0 s) : Mutex s := by
  induction h with
  | init hi => exact mutex_init hi
  | step _ st ih => exact mutex_step hc ih st

/-! ### the simulation: the shared state is the sequential run of the log, up to the pending moves of the one writer -/

structure Sim (c : Cfg) (q0 : Seq) (s : St) : Prop where
  pending : ∀ t acts n, (s.thr t).pc = .crit acts n → runActs (cur s) acts = seqRun c q0 (logOps s)
  settled : (∀ t, isCrit (s.thr t).pc = false) → cur s = seqRun c q0 (logOps s)
  answers : logRes s = seqRes c q0 (logOps s)

theorem sim_init {c : Cfg} {d0 : Option MDir} {s : St} (h : Init d0 s) : Sim c (d0, []) s := by
  obtain ⟨hd, _, _, he, hl, _, hp⟩ := h
  refine ⟨?_, ?_, ?_⟩
  · intro t acts n ht; simp [hp t] at ht
  · intro _; simp [cur, hd, he, logOps, hl, seqRun, dels]
  · simp [logRes, logOps, hl, seqRes]

private theorem not_crit_of_other {s : St} (m : Mutex s) {t u : Nat} (ht : holdsW (s.thr t).pc = true) (h : u ≠ t) :
    isCrit (s.thr u).pc = false := by
  cases hcu : isCrit (s.thr u).pc with
  | false => rfl
  | true =>
    have : holdsW (s.thr u).pc = true := by
      cases hp : (s.thr u).pc <;> simp [hp, isCrit] at hcu <;> simp [holdsW]
    exact absurd (m.unique this ht) h

theorem sim_step {c : Cfg} (hc : c.scope = .wholeOp) {q0 : Seq} {s s' : St} (m : Mutex s) (sm : Sim c q0 s) (st : Step c s s') :
    Sim c q0 s' := by
  cases st with
  | lock t op rest ht hr hf =>
    refine ⟨?_, ?_, sm.answers⟩
    · intro u acts n hu
      by_cases h : u = t
      · subst h; simp at hu
      · rw [setThr_other _ _ _ _ h] at hu; exact sm.pending u acts n hu
    · intro hall
      refine sm.settled (fun u => ?_)
      by_cases h : u = t
      · subst h; simp [ht, isCrit]
      · have := hall u; rwa [setThr_other _ _ _ _ h] at this
  | load t op todo ht =>
    have hwt : holdsW (s.thr t).pc = true := by simp [ht, holdsW]
    have hset : cur s = seqRun c q0 (logOps s) := by
      refine sm.settled (fun u => ?_)
      by_cases h : u = t
      · subst h; simp [ht, isCrit]
      · exact not_crit_of_other m hwt h
    have hlog : logOps (setThr { s with log := s.log ++ [(t, op, (load c s.dir op).res)] } t
        ⟨todo, .crit (load c s.dir op).acts (load c s.dir op).next⟩) = logOps s ++ [op] := by simp [logOps]
    have hcur : cur (setThr { s with log := s.log ++ [(t, op, (load c s.dir op).res)] } t
        ⟨todo, .crit (load c s.dir op).acts (load c s.dir op).next⟩) = cur s := rfl
    have hd : s.dir = (seqRun c q0 (logOps s)).1 := by rw [← hset]; rfl
    refine ⟨?_, ?_, ?_⟩
    · intro u acts n hu
      by_cases h : u = t
      · subst h
        simp only [setThr_same, PC.crit.injEq] at hu
        rw [hlog, hcur, seqRun_append, ← hu.1, load_whole c hc, ← hset]
        simp [seqRun, seqStep, cur]
      · rw [setThr_other _ _ _ _ h] at hu
        have hu' : (s.thr u).pc = .crit acts n := hu
        have := not_crit_of_other m hwt h
        simp [hu', isCrit] at this
    · intro hall; have := hall t; simp [isCrit] at this
    · rw [hlog, seqRes_append, ← sm.answers]
      simp [logRes, seqRes, load_whole c hc, hd]
  | act t a as n todo ht =>
    have hwt : holdsW (s.thr t).pc = true := by simp [ht, holdsW]
    refine ⟨?_, ?_, ?_⟩
    · intro u acts n' hu
      by_cases h : u = t
      · subst h
        simp only [setThr_same, PC.crit.injEq] at hu
        have := sm.pending u (a :: as) n (by simp [ht])
        rw [← hu.1]
        have hc2 : cur (setThr (applyAct s u a) u ⟨todo, .crit as n⟩) = runAct (cur s) a := cur_applyAct s u a
        have hl2 : logOps (setThr (applyAct s u a) u ⟨todo, .crit as n⟩) = logOps s := by simp [logOps]
        rw [hc2, hl2, ← this]; rfl
      · rw [setThr_other _ _ _ _ h] at hu
        have hu' : (s.thr u).pc = .crit acts n' := by simpa using hu
        have := not_crit_of_other m hwt h
        simp [hu', isCrit] at this
    · intro hall; have := hall t; simp [isCrit] at this
    · simpa [logRes, logOps] using sm.answers
  | unlockRet t st0 todo ht =>
    have hwt : holdsW (s.thr t).pc = true := by simp [ht, holdsW]
    refine ⟨?_, ?_, sm.answers⟩
    · intro u acts n hu
      by_cases h : u = t
      · subst h; simp at hu
      · rw [setThr_other _ _ _ _ h] at hu
        have hu' : (s.thr u).pc = .crit acts n := hu
        have := not_crit_of_other m hwt h
        simp [hu', isCrit] at this
    · intro _
      have := sm.pending t [] (.ret st0) (by simp [ht])
      exact this
  | unlockCopy t id src stale todo ht =>
    obtain ⟨x, hx⟩ := m.ends t [] (.copy id src stale) (by simp [ht])
    cases hx
  | freeAct t a as n todo ht =>
    have := m.noFree t; simp [ht, isFree] at this
  | relock t id stale todo ht hf =>
    have := m.noFree t; simp [ht, isFree] at this
  | stored t st0 todo ht =>
    have hcur : cur (setThr { s with events := s.events ++ st0.toList.map (fun i => (t, Ev.stored i)) } t ⟨todo, .idle⟩) = cur s := by
      simp [cur, dels_append, dels_stored]
    refine ⟨?_, ?_, sm.answers⟩
    · intro u acts n hu
      by_cases h : u = t
      · subst h; simp at hu
      · rw [setThr_other _ _ _ _ h] at hu; rw [hcur]; exact sm.pending u acts n hu
    · intro hall
      rw [hcur]
      refine sm.settled (fun u => ?_)
      by_cases h : u = t
      · subst h; simp [ht, isCrit]
      · have := hall u; rwa [setThr_other _ _ _ _ h] at this
  | rlock t op rest ht hr hw =>
    refine ⟨?_, ?_, sm.answers⟩
    · intro u acts n hu
      by_cases h : u = t
      · subst h; simp at hu
      · rw [setThr_other _ _ _ _ h] at hu; exact sm.pending u acts n hu
    · intro hall
      refine sm.settled (fun u => ?_)
      by_cases h : u = t
      · subst h; simp [ht, isCrit]
      · have := hall u; rwa [setThr_other _ _ _ _ h] at this
  | rload t op todo ht =>
    have hrd : op.isRead = true := m.reads t op (by simp [ht])
    -- a reader is inside: nobody is in a write critical section
    have hnc : ∀ u, isCrit (s.thr u).pc = false := by
      intro u
      cases hcu : isCrit (s.thr u).pc with
      | false => rfl
      | true =>
        have hw : holdsW (s.thr u).pc = true := by
          cases hp : (s.thr u).pc <;> simp [hp, isCrit] at hcu <;> simp [holdsW]
        have := m.no_reader (u := t) hw
        simp [ht, holdsR] at this
    have hset := sm.settled hnc
    have hd : s.dir = (seqRun c q0 (logOps s)).1 := by rw [← hset]; rfl
    have hlog : logOps (setThr { s with log := s.log ++ [(t, op, (load c s.dir op).res)] } t ⟨todo, .rdone⟩) = logOps s ++ [op] := by
      simp [logOps]
    have hcur : cur (setThr { s with log := s.log ++ [(t, op, (load c s.dir op).res)] } t ⟨todo, .rdone⟩) = cur s := rfl
    have hsame : seqRun c q0 (logOps s ++ [op]) = seqRun c q0 (logOps s) := by
      rw [seqRun_append]; simp [seqRun, seqStep_read c _ op hrd]
    refine ⟨?_, ?_, ?_⟩
    · intro u acts n hu
      by_cases h : u = t
      · subst h; simp at hu
      · rw [setThr_other _ _ _ _ h] at hu
        have hu' : (s.thr u).pc = .crit acts n := hu
        have := hnc u; simp [hu', isCrit] at this
    · intro _; rw [hlog, hcur, hsame]; exact hset
    · rw [hlog, seqRes_append, ← sm.answers]
      simp [logRes, seqRes, load_whole c hc, hd]
  | runlock t todo ht =>
    refine ⟨?_, ?_, sm.answers⟩
    · intro u acts n hu
      by_cases h : u = t
      · subst h; simp at hu
      · rw [setThr_other _ _ _ _ h] at hu; exact sm.pending u acts n hu
    · intro hall
      refine sm.settled (fun u => ?_)
      by_cases h : u = t
      · subst h; simp [ht, isCrit]
      · have := hall u; rwa [setThr_other _ _ _ _ h] at this

theorem sim_reach {c : Cfg} (hc : c.scope = .wholeOp) {d0 : Option MDir} {s : St} (h : Reach c d0 s) : Sim c (d0, []) s := by
  induction h with
  | init hi => exact sim_init hi
  | step hr st ih => exact sim_step hc (mutex_reach hc hr) ih st

/-! ### the executable scheduler is the interleaving semantics -/

theorem stepFn_sound {c : Cfg} {s s' : St} {t : Nat} (h : stepFn c s t = some s') : Step c s s' := by
  unfold stepFn at h
  split at h
  · next op rest ht =>
    split at h
    · next hr =>
      split at h
      · next hw => cases h; exact Step.rlock t op rest ht hr hw
      · cases h
    · next hr =>
      split at h
      · next hf => cases h; exact Step.lock t op rest ht (by simpa using hr) hf
      · cases h
  · cases h
  · next todo op ht => cases h; exact Step.load t op todo ht
  · next todo a as n ht => cases h; exact Step.act t a as n todo ht
  · next todo st ht => cases h; exact Step.unlockRet t st todo ht
  · next todo id src stale ht => cases h; exact Step.unlockCopy t id src stale todo ht
  · cases h
  · next todo a as n ht => cases h; exact Step.freeAct t a as n todo ht
  · next todo id stale ht =>
    split at h
    · next hf => cases h; exact Step.relock t id stale todo ht hf
    · cases h
  · cases h
  · next todo st ht => cases h; exact Step.stored t st todo ht
  · next todo op ht => cases h; exact Step.rload t op todo ht
  · next todo ht => cases h; exact Step.runlock t todo ht

theorem stepFn_other {c : Cfg} {s s' : St} {t u : Nat} (h : stepFn c s t = some s') (hu : u ≠ t) : s'.thr u = s.thr u := by
  unfold stepFn at h
  split at h <;> (try split at h) <;> (try split at h) <;> (try cases h) <;> simp [setThr, hu]

theorem runSched_other {c : Cfg} {u : Nat} : ∀ (ts : List Nat) (s s' : St), runSched c s ts = some s' → (∀ t ∈ ts, t ≠ u) → s'.thr u = s.thr u
  | [], s, s', h, _ => by simp [runSched] at h; rw [h]
  | t :: ts, s, s', h, hu => by
    simp only [runSched] at h
    cases hst : stepFn c s t with
    | none => simp [hst] at h
    | some s1 =>
      simp only [hst] at h
      rw [runSched_other ts s1 s' h (fun x hx => hu x (by simp [hx]))]
      exact stepFn_other hst (Ne.symm (hu t (by simp)))

theorem reach_runSched {c : Cfg} {d0 : Option MDir} : ∀ (ts : List Nat) (s : St), Reach c d0 s → (runSched c s ts).isSome = true →
    Reach c d0 ((runSched c s ts).getD s)
  | [], s, h, _ => by simpa [runSched] using h
  | t :: ts, s, h, hs => by
    simp only [runSched] at hs ⊢
    cases hst : stepFn c s t with
    | none => simp [hst] at hs
    | some s1 =>
      simp only [hst] at hs ⊢
      have h1 : Reach c d0 s1 := Reach.step h (stepFn_sound hst)
      have := reach_runSched ts s1 h1 hs
      cases hr : runSched c s1 ts with
      | none => simp [hr] at hs
      | some s2 => simpa [hr] using this

/-- the state a schedule leads to from the start state of the given client programs (the start state itself when the
    schedule asks a thread to move that cannot) -/
def sched (c : Cfg) (d0 : Option MDir) (progs : List (List COp)) (ts : List Nat) : St :=
  (runSched c (start d0 progs) ts).getD (start d0 progs)

theorem init_start (d0 : Option MDir) (progs : List (List COp)) : Init d0 (start d0 progs) :=
  ⟨rfl, rfl, rfl, rfl, rfl, rfl, fun _ => rfl⟩

theorem reach_sched {c : Cfg} {d0 : Option MDir} {progs : List (List COp)} {ts : List Nat}
    (h : (runSched c (start d0 progs) ts).isSome = true) : Reach c d0 (sched c d0 progs ts) :=
  reach_runSched ts _ (Reach.init (init_start d0 progs)) h

theorem quiescent_sched {c : Cfg} {d0 : Option MDir} {progs : List (List COp)} {ts : List Nat}
    (h : (runSched c (start d0 progs) ts).isSome = true) (hd : ∀ u ∈ ts, ((sched c d0 progs ts).thr u).pc = .idle) :
    Quiescent (sched c d0 progs ts) := by
  intro u
  by_cases hu : u ∈ ts
  · exact hd u hu
  · cases hr : runSched c (start d0 progs) ts with
    | none => simp [hr] at h
    | some s' =>
      have := runSched_other (u := u) ts _ s' hr (fun t ht htu => hu (htu ▸ ht))
      simp only [sched, hr, Option.getD_some]
      rw [this]; rfl

end Ibx.Lemmas.ConcFileOps
