import Ibx.Spec.MailArgs
/-
  Proof machinery for the MAIL-argument recognisers (`Ibx.Model.MailArgs`) against their specification
  (`Ibx.Spec.MailArgs`).  The theorems that count are restated in `Ibx.Props.C06Args`.
-/
namespace Ibx.Lemmas.MailArgs
open Ibx Ibx.Bytes Ibx.Model.MailArgs Ibx.Spec.MailArgs

/-! ### the scan, seen structurally -/

/-- `scan` as a structural recursion over the text (the executable `scanRev` runs over the reversed text) -/
def scanR : Bytes → Scan
  | [] => {}
  | c :: suf => step c suf (scanR suf)

theorem scanRev_eq (rev suf : Bytes) : scanRev rev suf (scanR suf) = scanR (rev.reverse ++ suf) := by
  induction rev generalizing suf with
  | nil => rfl
  | cons c rev ih =>
    simp only [scanRev, List.reverse_cons, List.append_assoc, List.singleton_append]
    exact ih (c :: suf)

theorem scan_eq (body : Bytes) : scan body = scanR body := by
  have := scanRev_eq body.reverse []
  simpa [scan, scanR] using this

/-! ### the parameter tail -/

theorem isParam1_facts {c : Nat} (h : isParam1 c = true) : c ≠ 34 ∧ c ≠ 62 ∧ c ≠ 60 ∧ c < 128 := by
  simp only [isParam1, isWord, isDigitB, isAlphaB, isLowerB, isUpperB, Bool.or_eq_true, Bool.and_eq_true,
    decide_eq_true_eq, beq_iff_eq] at h
  omega

theorem paramToks_cons_iff (c : Nat) (suf : Bytes) :
    ParamToks (c :: suf) ↔
      (isParam1 c = true ∧ ParamToks suf) ∨ (c = 61 ∧ ∃ t, suf = 60 :: 62 :: t ∧ ParamToks t) ∨
      (c = 197 ∧ ∃ t, suf = 191 :: t ∧ ParamToks t) ∨ (c = 226 ∧ ∃ t, suf = 132 :: 170 :: t ∧ ParamToks t) := by
  constructor
  · intro h
    cases h with
    | one h1 h2 => exact .inl ⟨h1, h2⟩
    | angle h => exact .inr (.inl ⟨rfl, _, rfl, h⟩)
    | longS h => exact .inr (.inr (.inl ⟨rfl, _, rfl, h⟩))
    | kelvin h => exact .inr (.inr (.inr ⟨rfl, _, rfl, h⟩))
  · rintro (⟨h1, h2⟩ | ⟨rfl, t, rfl, h⟩ | ⟨rfl, t, rfl, h⟩ | ⟨rfl, t, rfl, h⟩)
    · exact .one h1 h2
    · exact .angle h
    · exact .longS h
    · exact .kelvin h

/-- the three `p` fields say whether the suffix / the suffix without its first byte / first two bytes is a token sequence -/
def PInv (suf : Bytes) (s : Scan) : Prop :=
  (s.p0 = true ↔ ParamToks suf) ∧ (s.p1 = true ↔ ParamToks (suf.drop 1)) ∧ (s.p2 = true ↔ ParamToks (suf.drop 2))

theorem paramToks_step (c : Nat) (suf : Bytes) (s : Scan) (h : PInv suf s) :
    paramToks c suf s = true ↔ ParamToks (c :: suf) := by
  obtain ⟨h0, h1, h2⟩ := h
  rw [paramToks_cons_iff]
  unfold paramToks
  match suf, h0, h1, h2 with
  | [], h0, h1, h2 => simp [h0]
  | [a], h0, h1, h2 =>
    simp only [List.drop_succ_cons, List.drop_zero] at h1
    simp only [Bool.or_eq_true, Bool.and_eq_true, beq_iff_eq, h0, h1, List.cons.injEq, Bool.false_eq_true, or_false]
    grind
  | a :: b :: t, h0, h1, h2 =>
    simp only [List.drop_succ_cons, List.drop_zero] at h1 h2
    simp only [Bool.or_eq_true, Bool.and_eq_true, beq_iff_eq, h0, h1, h2, List.cons.injEq]
    grind

theorem pinv (suf : Bytes) : PInv suf (scanR suf) := by
  induction suf with
  | nil => exact ⟨by simp [scanR, ParamToks.nil], by simp [scanR, ParamToks.nil], by simp [scanR, ParamToks.nil]⟩
  | cons c suf ih =>
    refine ⟨?_, ?_, ?_⟩
    · simpa [scanR, step] using paramToks_step c suf _ ih
    · simpa [scanR, step] using ih.1
    · simpa [scanR, step] using ih.2.1

/-! ### where group 1 ends -/

/-- the best decomposition of `S` leaves `n` bytes behind the closing '>' -/
def Best (S : Bytes) (n : Nat) : Prop :=
  ∃ g t, Valid S g t ∧ t.length = n ∧ ∀ g' t', Valid S g' t' → g'.length ≤ g.length

def NoValid (S : Bytes) : Prop := ∀ g t, ¬ Valid S g t

/-- what an `r` field says about the suffix it belongs to -/
def RSpec (S : Bytes) : Option Nat → Prop
  | some n => Best S n
  | none => NoValid S

theorem valid_cons (c : Nat) (suf g t : Bytes) :
    Valid (c :: suf) g t ↔
      (c = 62 ∧ g = [] ∧ t = suf ∧ ParamTail suf) ∨
      (c = 92 ∧ ∃ suf' g1, suf = 62 :: suf' ∧ g = 92 :: 62 :: g1 ∧ Valid suf' g1 t) ∨
      (c ≠ 62 ∧ ∃ g1, g = c :: g1 ∧ Valid suf g1 t) ∨
      (c = 34 ∧ ∃ q x rest g1, suf = q ++ 34 :: 64 :: x :: rest ∧ q ≠ [] ∧ 34 ∉ q ∧ x ≠ 62 ∧
        g = 34 :: (q ++ 34 :: 64 :: x :: g1) ∧ Valid rest g1 t) := by
  constructor
  · rintro ⟨heq, hg, ht⟩
    cases hg with
    | nil =>
      simp only [List.nil_append, List.cons.injEq] at heq
      exact .inl ⟨heq.1, rfl, heq.2.symm, heq.2 ▸ ht⟩
    | @esc g1 h =>
      simp only [List.cons_append, List.cons.injEq] at heq
      exact .inr (.inl ⟨heq.1, _, g1, heq.2, rfl, rfl, h, ht⟩)
    | @plain c' g1 hc h =>
      simp only [List.cons_append, List.cons.injEq] at heq
      obtain ⟨rfl, rfl⟩ := heq
      exact .inr (.inr (.inl ⟨hc, g1, rfl, rfl, h, ht⟩))
    | @quoted q x g1 hq hnq hx h =>
      simp only [List.cons_append, List.cons.injEq, List.append_assoc] at heq
      obtain ⟨rfl, rfl⟩ := heq
      exact .inr (.inr (.inr ⟨rfl, q, x, g1 ++ 62 :: t, g1, rfl, hq, hnq, hx, rfl, rfl, h, ht⟩))
  · rintro (⟨rfl, rfl, rfl, ht⟩ | ⟨rfl, suf', g1, rfl, rfl, heq, hg, ht⟩ | ⟨hc, g1, rfl, heq, hg, ht⟩ |
      ⟨rfl, q, x, rest, g1, rfl, hq, hnq, hx, rfl, heq, hg, ht⟩)
    · exact ⟨rfl, .nil, ht⟩
    · exact ⟨by simp [heq], .esc hg, ht⟩
    · exact ⟨by simp [heq], .plain hc hg, ht⟩
    · exact ⟨by simp [heq], .quoted hq hnq hx hg, ht⟩

theorem paramToks_no34 {t : Bytes} (h : ParamToks t) : 34 ∉ t := by
  induction h with
  | nil => simp
  | one h1 _ ih => have := (isParam1_facts h1).1; simp [ih]; omega
  | angle _ ih => simp [ih]
  | longS _ ih => simp [ih]
  | kelvin _ ih => simp [ih]

theorem paramTail_no34 {t : Bytes} (h : ParamTail t) : 34 ∉ t := by
  rcases h with rfl | ⟨t', rfl, _, h⟩
  · simp
  · simp [paramToks_no34 h]

theorem first_quote_unique {q q' a a' : Bytes} (h : q ++ 34 :: a = q' ++ 34 :: a') (hq : 34 ∉ q) (hq' : 34 ∉ q') :
    q = q' ∧ a = a' := by
  induction q generalizing q' with
  | nil =>
    cases q' with
    | nil => simpa using h
    | cons c q' => simp at h; simp [← h.1] at hq'
  | cons c q ih =>
    cases q' with
    | nil => simp at h; simp [h.1] at hq
    | cons c' q' =>
      simp only [List.cons_append, List.cons.injEq] at h
      simp only [List.mem_cons, not_or] at hq hq'
      obtain ⟨rfl, rfl⟩ := ih h.2 hq.2 hq'.2
      exact ⟨by rw [h.1], rfl⟩

theorem exists_first_quote {l : Bytes} (h : 34 ∈ l) : ∃ q a, l = q ++ 34 :: a ∧ 34 ∉ q := by
  induction l with
  | nil => simp at h
  | cons c l ih =>
    by_cases hc : c = 34
    · exact ⟨[], l, by simp [hc], by simp⟩
    · have : 34 ∈ l := by simpa [Ne.symm hc] using h
      obtain ⟨q, a, rfl, hq⟩ := ih this
      exact ⟨c :: q, a, rfl, by simp [hq, Ne.symm hc]⟩

/-- a token sequence that runs over a quote-free stretch `q` up to a '"' has a token boundary before that '"' -/
theorem addrToks_split {q y z : Bytes} (h : AddrToks (q ++ 34 :: y)) (hq : 34 ∉ q) (hz : AddrToks z) :
    AddrToks (q ++ z) := by
  generalize hw : q ++ 34 :: y = w at h
  induction h generalizing q with
  | nil => simp at hw
  | @esc g _ ih =>
    match q, hq, hw with
    | [], _, hw => simpa using hz
    | [a], _, hw => simp at hw
    | a :: b :: q'', hq', hw' =>
      simp only [List.cons_append, List.cons.injEq] at hw'
      obtain ⟨rfl, rfl, hw2⟩ := hw'
      simp only [List.mem_cons, not_or] at hq'
      exact .esc (ih hq'.2.2 hw2)
  | @plain c g hc _ ih =>
    match q, hq, hw with
    | [], _, hw => simpa using hz
    | a :: q', hq', hw' =>
      simp only [List.cons_append, List.cons.injEq] at hw'
      obtain ⟨rfl, hw2⟩ := hw'
      simp only [List.mem_cons, not_or] at hq'
      exact .plain hc (ih hq'.2 hw2)
  | quoted _ _ _ _ _ =>
    match q, hq, hw with
    | [], _, hw => simpa using hz
    | a :: q', hq, hw =>
      simp only [List.cons_append, List.cons.injEq] at hw
      simp [hw.1] at hq

/-- if the text behind a '"' can be read at all with that '"' as an ordinary byte, whatever can be read behind the quoted
    string `"q"@x` can also be read from behind the '"' (every '>' of `q` is then a quoted pair) -/
theorem valid_transport {suf g0 t0 q rest g1 t' : Bytes} {x : Nat} (h0 : Valid suf g0 t0)
    (hs : suf = q ++ 34 :: 64 :: x :: rest) (hq : 34 ∉ q) (hx : x ≠ 62) (h1 : Valid rest g1 t') :
    Valid suf (q ++ 34 :: 64 :: x :: g1) t' := by
  obtain ⟨he0, hg0, ht0⟩ := h0
  obtain ⟨he1, hg1, ht1⟩ := h1
  refine ⟨by rw [hs, he1]; simp, ?_, ht1⟩
  -- g0 = q ++ 34 :: y
  have hno := paramTail_no34 ht0
  rw [hs] at he0
  rcases List.append_eq_append_iff.1 he0 with ⟨a', ha, hb⟩ | ⟨c', hc, hd⟩
  · -- g0 = q ++ a'
    cases a' with
    | nil => simp at hb
    | cons a a'' =>
      simp only [List.cons_append, List.cons.injEq] at hb
      rw [ha, ← hb.1] at hg0
      exact addrToks_split hg0 hq (.plain (by decide) (.plain (by decide) (.plain hx hg1)))
  · -- q = g0 ++ c'
    cases c' with
    | nil => simp at hd
    | cons a c'' =>
      simp only [List.cons_append, List.cons.injEq] at hd
      exfalso
      apply hno
      rw [hd.2]
      simp

/-- what the `bq` field says: for the first '"' of the suffix, the choice behind `"@x` when that is there (x not '>') -/
def BQSpec (suf : Bytes) (b : Option Nat) : Prop :=
  (34 ∉ suf → b = none) ∧
  ∀ q after, suf = q ++ 34 :: after → 34 ∉ q →
    (∀ x rest, after = 64 :: x :: rest → x ≠ 62 → RSpec rest b) ∧
    ((¬ ∃ x rest, after = 64 :: x :: rest ∧ x ≠ 62) → b = none)

def RInv (suf : Bytes) (s : Scan) : Prop :=
  RSpec suf s.r0 ∧ RSpec (suf.drop 1) s.r1 ∧ RSpec (suf.drop 2) s.r2 ∧ BQSpec suf s.bq ∧ s.len = suf.length

theorem noValid_nil : NoValid [] := by
  intro g t h
  have := h.1
  simp at this

theorem tailOK_iff (suf : Bytes) (s : Scan) (hp : PInv suf s) : tailOK suf s = true ↔ ParamTail suf := by
  unfold tailOK ParamTail
  cases suf with
  | nil => simp
  | cons a rest =>
    have h1 := hp.2.1
    simp only [List.drop_succ_cons, List.drop_zero] at h1
    simp only [Bool.and_eq_true, beq_iff_eq, Bool.not_eq_eq_eq_not, Bool.not_true, List.isEmpty_eq_false_iff, h1,
      reduceCtorEq, List.cons.injEq, false_or]
    grind

theorem bqspec_step (c : Nat) (suf : Bytes) (s : Scan) (hr : RInv suf s) : BQSpec (c :: suf) (step c suf s).bq := by
  obtain ⟨_, _, h2, hb, _⟩ := hr
  by_cases hc : c = 34
  · subst hc
    have hbq : (step 34 suf s).bq = quoteCont suf s := by simp [step]
    rw [hbq]
    refine ⟨by simp, ?_⟩
    intro q after heq hq
    have hq0 : q = [] := by
      cases q with
      | nil => rfl
      | cons a q' => simp at heq; simp [heq.1] at hq
    subst hq0
    simp only [List.nil_append, List.cons.injEq, true_and] at heq
    subst heq
    constructor
    · rintro x rest rfl hx
      have : quoteCont (64 :: x :: rest) s = s.r2 := by simp [quoteCont, hx]
      rw [this]
      simpa using h2
    · intro hn
      rcases suf with _ | ⟨a, _ | ⟨x, t⟩⟩
      · rfl
      · rfl
      · by_cases hax : a = 64 ∧ x ≠ 62
        · exact absurd ⟨x, t, by rw [hax.1], hax.2⟩ hn
        · simp only [quoteCont, Bool.and_eq_true, beq_iff_eq, bne_iff_ne, ne_eq, ite_eq_right_iff]
          intro h
          exact absurd h hax
  · have hbq : (step c suf s).bq = s.bq := by simp [step, hc]
    rw [hbq]
    refine ⟨fun h => hb.1 (by simp at h; exact h.2), ?_⟩
    intro q after heq hq
    cases q with
    | nil => simp at heq; exact absurd heq.1 hc
    | cons a q' =>
      simp only [List.cons_append, List.cons.injEq] at heq
      simp only [List.mem_cons, not_or] at hq
      exact hb.2 q' after heq.2 hq.2

/-- a byte that can only be read as an ordinary byte of group 1 -/
theorem rspec_plain_only (c : Nat) (suf : Bytes) (r : Option Nat) (hc : c ≠ 62)
    (honly : ∀ g t, Valid (c :: suf) g t → ∃ g1, g = c :: g1 ∧ Valid suf g1 t) (h : RSpec suf r) :
    RSpec (c :: suf) r := by
  cases r with
  | none =>
    intro g t hv
    obtain ⟨g1, _, hv1⟩ := honly g t hv
    exact h g1 t hv1
  | some n =>
    obtain ⟨g0, t0, hv0, hl, hmax⟩ := h
    refine ⟨c :: g0, t0, (valid_cons c suf _ t0).2 (.inr (.inr (.inl ⟨hc, g0, rfl, hv0⟩))), hl, ?_⟩
    intro g' t' hv'
    obtain ⟨g1, rfl, hv1⟩ := honly g' t' hv'
    have := hmax g1 t' hv1
    simp; omega

/-- the engine's choice at one more byte in front: the four preferences of `step`, against the specification -/
theorem rspec_step (c : Nat) (suf : Bytes) (s : Scan) (hr : RInv suf s) (hp : PInv suf s) :
    RSpec (c :: suf) (step c suf s).r0 := by
  obtain ⟨h0, h1, h2, hb, hl⟩ := hr
  by_cases c62 : c = 62
  · -- the only reading of '>' at a token boundary: group 1 ends here
    subst c62
    have hr0 : (step 62 suf s).r0 = if tailOK suf s then some s.len else none := by simp [step]
    rw [hr0]
    by_cases ht : tailOK suf s = true
    · rw [if_pos ht]
      have ht' := (tailOK_iff suf s hp).1 ht
      refine ⟨[], suf, ⟨rfl, .nil, ht'⟩, hl.symm, ?_⟩
      intro g' t' hv
      rcases (valid_cons 62 suf g' t').1 hv with ⟨_, rfl, _, _⟩ | ⟨h, _⟩ | ⟨h, _⟩ | ⟨h, _⟩
      · simp
      all_goals simp at h
    · rw [if_neg ht]
      intro g t hv
      rcases (valid_cons 62 suf g t).1 hv with ⟨_, _, _, ht'⟩ | ⟨h, _⟩ | ⟨h, _⟩ | ⟨h, _⟩
      · exact ht ((tailOK_iff suf s hp).2 ht')
      all_goals simp at h
  · by_cases c92 : c = 92
    · subst c92
      by_cases hh : suf.head? = some 62
      · -- `\>`: the quoted pair first, the lone backslash (group 1 then ends at the '>') second
        obtain ⟨suf', rfl⟩ : ∃ suf', suf = 62 :: suf' := by
          cases suf with
          | nil => simp at hh
          | cons a suf' => simp at hh; exact ⟨suf', by rw [hh]⟩
        have hr0 : (step 92 (62 :: suf') s).r0 = s.r1.or s.r0 := by simp [step]
        rw [hr0]
        simp only [List.drop_succ_cons, List.drop_zero] at h1
        cases hr1 : s.r1 with
        | some n =>
          rw [hr1] at h1
          obtain ⟨g1, t, hv, hlen, hmax⟩ := h1
          simp only [Option.some_or]
          refine ⟨92 :: 62 :: g1, t,
            (valid_cons 92 _ _ t).2 (.inr (.inl ⟨rfl, suf', g1, rfl, rfl, hv⟩)), hlen, ?_⟩
          intro g' t' hv'
          rcases (valid_cons 92 _ g' t').1 hv' with ⟨h, _⟩ | ⟨_, suf'', g1', heq, rfl, hv''⟩ | ⟨_, g1', rfl, hv''⟩ |
            ⟨h, _⟩
          · simp at h
          · simp only [List.cons.injEq, true_and] at heq
            subst heq
            have := hmax g1' t' hv''
            simp; omega
          · rcases (valid_cons 62 _ g1' t').1 hv'' with ⟨_, rfl, _, _⟩ | ⟨h, _⟩ | ⟨h, _⟩ | ⟨h, _⟩
            · simp
            all_goals simp at h
          · simp at h
        | none =>
          rw [hr1] at h1
          simp only [Option.none_or]
          cases hr0' : s.r0 with
          | some n =>
            rw [hr0'] at h0
            obtain ⟨g0, t, hv, hlen, hmax⟩ := h0
            refine ⟨92 :: g0, t, (valid_cons 92 _ _ t).2 (.inr (.inr (.inl ⟨by decide, g0, rfl, hv⟩))), hlen, ?_⟩
            intro g' t' hv'
            rcases (valid_cons 92 _ g' t').1 hv' with ⟨h, _⟩ | ⟨_, suf'', g1', heq, rfl, hv''⟩ | ⟨_, g1', rfl, hv''⟩ |
              ⟨h, _⟩
            · simp at h
            · simp only [List.cons.injEq, true_and] at heq
              subst heq
              exact absurd hv'' (h1 g1' t')
            · have := hmax g1' t' hv''
              simp; omega
            · simp at h
          | none =>
            rw [hr0'] at h0
            intro g' t' hv'
            rcases (valid_cons 92 _ g' t').1 hv' with ⟨h, _⟩ | ⟨_, suf'', g1', heq, rfl, hv''⟩ | ⟨_, g1', rfl, hv''⟩ |
              ⟨h, _⟩
            · simp at h
            · simp only [List.cons.injEq, true_and] at heq
              subst heq
              exact h1 g1' t' hv''
            · exact h0 g1' t' hv''
            · simp at h
      · have hr0 : (step 92 suf s).r0 = s.r0 := by simp [step, hh]
        rw [hr0]
        refine rspec_plain_only 92 suf _ (by decide) ?_ h0
        intro g t hv
        rcases (valid_cons 92 suf g t).1 hv with ⟨h, _⟩ | ⟨_, suf'', g1', heq, _⟩ | ⟨_, g1', rfl, hv''⟩ | ⟨h, _⟩
        · simp at h
        · simp [heq] at hh
        · exact ⟨g1', rfl, hv''⟩
        · simp at h
    · by_cases c34 : c = 34
      · -- '"': an ordinary byte first, the quoted string second
        subst c34
        have hr0 : (step 34 suf s).r0 =
            s.r0.or (if !suf.isEmpty && suf.head? != some 34 then s.bq else none) := by simp [step]
        rw [hr0]
        cases hr0' : s.r0 with
        | some n =>
          rw [hr0'] at h0
          obtain ⟨g0, t0, hv0, hlen, hmax⟩ := h0
          simp only [Option.some_or]
          refine ⟨34 :: g0, t0, (valid_cons 34 _ _ t0).2 (.inr (.inr (.inl ⟨by decide, g0, rfl, hv0⟩))), hlen, ?_⟩
          intro g' t' hv'
          rcases (valid_cons 34 _ g' t').1 hv' with ⟨h, _⟩ | ⟨h, _⟩ | ⟨_, g1', rfl, hv''⟩ |
            ⟨_, q, x, rest, g1, hs, hq, hnq, hx, rfl, hv1⟩
          · simp at h
          · simp at h
          · have := hmax g1' t' hv''
            simp; omega
          · have := hmax _ t' (valid_transport hv0 hs hnq hx hv1)
            simp at this ⊢; omega
        | none =>
          rw [hr0'] at h0
          simp only [Option.none_or]
          by_cases hq1 : (!suf.isEmpty && suf.head? != some 34) = true
          · rw [if_pos hq1]
            cases hbq : s.bq with
            | some n =>
              -- the quoted string is there and something can be read behind it
              have h34 : 34 ∈ suf := by
                apply Classical.byContradiction
                intro hno
                have := hb.1 hno
                rw [hbq] at this
                simp at this
              obtain ⟨q, after, hs, hnq⟩ := exists_first_quote h34
              have hq : q ≠ [] := by
                rintro rfl
                simp [hs] at hq1
              have hshape : ∃ x rest, after = 64 :: x :: rest ∧ x ≠ 62 := by
                apply Classical.byContradiction
                intro hno
                have := (hb.2 q after hs hnq).2 hno
                rw [hbq] at this
                simp at this
              obtain ⟨x, rest, rfl, hx⟩ := hshape
              have hbest := (hb.2 q _ hs hnq).1 x rest rfl hx
              rw [hbq] at hbest
              obtain ⟨g1, t1, hv1, hlen, hmax⟩ := hbest
              refine ⟨34 :: (q ++ 34 :: 64 :: x :: g1), t1,
                (valid_cons 34 _ _ t1).2 (.inr (.inr (.inr ⟨rfl, q, x, rest, g1, hs, hq, hnq, hx, rfl, hv1⟩))), hlen, ?_⟩
              intro g' t' hv'
              rcases (valid_cons 34 _ g' t').1 hv' with ⟨h, _⟩ | ⟨h, _⟩ | ⟨_, g1', rfl, hv''⟩ |
                ⟨_, q', x', rest', g1', hs', hq', hnq', hx', rfl, hv1'⟩
              · simp at h
              · simp at h
              · exact absurd hv'' (h0 g1' t')
              · rw [hs] at hs'
                obtain ⟨rfl, hafter⟩ := first_quote_unique hs' hnq hnq'
                simp only [List.cons.injEq, true_and] at hafter
                obtain ⟨rfl, rfl⟩ := hafter
                have := hmax g1' t' hv1'
                simp; omega
            | none =>
              intro g' t' hv'
              rcases (valid_cons 34 _ g' t').1 hv' with ⟨h, _⟩ | ⟨h, _⟩ | ⟨_, g1', rfl, hv''⟩ |
                ⟨_, q', x', rest', g1', hs', hq', hnq', hx', rfl, hv1'⟩
              · simp at h
              · simp at h
              · exact h0 g1' t' hv''
              · have := (hb.2 q' _ hs' hnq').1 x' rest' rfl hx'
                rw [hbq] at this
                exact this g1' t' hv1'
          · rw [if_neg hq1]
            intro g' t' hv'
            rcases (valid_cons 34 _ g' t').1 hv' with ⟨h, _⟩ | ⟨h, _⟩ | ⟨_, g1', rfl, hv''⟩ |
              ⟨_, q', x', rest', g1', hs', hq', hnq', hx', rfl, hv1'⟩
            · simp at h
            · simp at h
            · exact h0 g1' t' hv''
            · apply hq1
              cases q' with
              | nil => exact absurd rfl hq'
              | cons a q'' =>
                simp only [List.mem_cons, not_or] at hnq'
                simp [hs', Ne.symm hnq'.1]
      · have hr0 : (step c suf s).r0 = s.r0 := by simp [step, c62, c92, c34]
        rw [hr0]
        refine rspec_plain_only c suf _ c62 ?_ h0
        intro g t hv
        rcases (valid_cons c suf g t).1 hv with ⟨h, _⟩ | ⟨h, _⟩ | ⟨_, g1', rfl, hv''⟩ | ⟨h, _⟩
        · exact absurd h c62
        · exact absurd h c92
        · exact ⟨g1', rfl, hv''⟩
        · exact absurd h c34

theorem rinv (suf : Bytes) : RInv suf (scanR suf) := by
  induction suf with
  | nil => exact ⟨noValid_nil, noValid_nil, noValid_nil, ⟨fun _ => rfl, by intro q after h; simp at h⟩, rfl⟩
  | cons c suf ih =>
    refine ⟨rspec_step c suf _ ih (pinv suf), ?_, ?_, bqspec_step c suf _ ih, ?_⟩
    · simpa [scanR, step] using ih.1
    · simpa [scanR, step] using ih.2.1
    · simp [scanR, step, ih.2.2.2.2]

/-- the scan against the specification: the choice for the whole text -/
theorem scan_spec (body : Bytes) : RSpec body (scan body).r0 := by
  rw [scan_eq]
  exact (rinv body).1

/-! ### `FROM:\s*<` and the whole expression -/

theorem from_bytes : ofAscii "from:" = [102, 114, 111, 109, 58] := by decide

theorem stripFrom_iff (a r : Bytes) : stripFrom a = some r ↔ ∃ pre, a = pre ++ r ∧ IsFrom pre := by
  unfold IsFrom
  rw [from_bytes]
  constructor
  · intro h
    match a, h with
    | f :: r' :: o :: m :: c :: rest, h =>
      simp only [stripFrom, Bool.and_eq_true, beq_iff_eq, Option.ite_none_right_eq_some, Option.some.injEq] at h
      obtain ⟨⟨⟨⟨⟨hf, hr⟩, ho⟩, hm⟩, hc⟩, rfl⟩ := h
      refine ⟨[f, r', o, m, c], rfl, ?_⟩
      show [lowerB f, lowerB r', lowerB o, lowerB m, lowerB c] = _
      rw [hf, hr, ho, hm, hc]
      rfl
  · rintro ⟨pre, rfl, hpre⟩
    rcases pre with _ | ⟨f, _ | ⟨r', _ | ⟨o, _ | ⟨m, _ | ⟨c, _ | ⟨x, t⟩⟩⟩⟩⟩⟩ <;>
      simp only [lower, List.map_cons, List.map_nil, List.cons.injEq, and_true, reduceCtorEq, and_false] at hpre
    obtain ⟨hf, hr, ho, hm, hc⟩ := hpre
    have : c = 58 := by
      unfold lowerB at hc
      split at hc <;> omega
    simp [stripFrom, hf, hr, ho, hm, this]

theorem mem_takeWhile_true {p : Nat → Bool} {l : Bytes} {c : Nat} (h : c ∈ l.takeWhile p) : p c = true := by
  induction l with
  | nil => simp at h
  | cons a l ih =>
    simp only [List.takeWhile_cons] at h
    split at h
    · simp only [List.mem_cons] at h
      rcases h with rfl | h
      · assumption
      · exact ih h
    · simp at h

/-- the text behind `FROM:\s*<` -/
def bodyOf (arg : Bytes) : Option Bytes :=
  match stripFrom arg with
  | none => none
  | some r =>
    match r.dropWhile isWs with
    | [] => none
    | lt :: body => if lt != 60 then none else some body

theorem dropWhile_ws (ws body : Bytes) (h : AllWs ws) : (ws ++ 60 :: body).dropWhile isWs = 60 :: body := by
  induction ws with
  | nil => simp [isWs]
  | cons c ws ih =>
    have hc : isWs c = true := h c (by simp)
    simp only [List.cons_append, List.dropWhile_cons, hc, if_true]
    exact ih (fun x hx => h x (by simp [hx]))

theorem bodyOf_iff (arg body : Bytes) :
    bodyOf arg = some body ↔ ∃ pre ws, arg = pre ++ ws ++ 60 :: body ∧ IsFrom pre ∧ AllWs ws := by
  constructor
  · intro h
    unfold bodyOf at h
    split at h
    · simp at h
    · rename_i r hr
      obtain ⟨pre, rfl, hpre⟩ := (stripFrom_iff _ _).1 hr
      split at h
      · simp at h
      · rename_i lt body' hd
        split at h
        · simp at h
        · rename_i hlt
          simp only [bne_iff_ne, ne_eq, Decidable.not_not] at hlt
          simp only [Option.some.injEq] at h
          subst h hlt
          refine ⟨pre, r.takeWhile isWs, ?_, hpre, ?_⟩
          · rw [List.append_assoc, ← hd, List.takeWhile_append_dropWhile]
          · intro c hc
            exact mem_takeWhile_true hc
  · rintro ⟨pre, ws, rfl, hpre, hws⟩
    have h1 : stripFrom (pre ++ ws ++ 60 :: body) = some (ws ++ 60 :: body) :=
      (stripFrom_iff _ _).2 ⟨pre, by simp, hpre⟩
    rw [bodyOf, h1]
    simp only [dropWhile_ws ws body hws]
    simp

theorem mailRe_eq (arg : Bytes) :
    mailRe arg = match bodyOf arg with
      | none => none
      | some body => match (scan body).r0 with
        | none => none
        | some t => some (body.take (body.length - t - 1), body.drop (body.length - t)) := by
  unfold mailRe bodyOf
  cases stripFrom arg with
  | none => rfl
  | some r =>
    simp only []
    cases List.dropWhile isWs r with
    | nil => rfl
    | cons lt body =>
      simp only []
      by_cases h : (lt != 60) = true
      · simp [h]
      · simp [h]
        rfl

theorem decomp_iff (arg addr params : Bytes) :
    Decomp arg addr params ↔ ∃ body, bodyOf arg = some body ∧ Valid body addr params := by
  constructor
  · rintro ⟨pre, ws, harg, hpre, hws, ha, hp⟩
    exact ⟨_, (bodyOf_iff _ _).2 ⟨pre, ws, harg, hpre, hws⟩, rfl, ha, hp⟩
  · rintro ⟨body, hb, rfl, ha, hp⟩
    obtain ⟨pre, ws, harg, hpre, hws⟩ := (bodyOf_iff _ _).1 hb
    exact ⟨pre, ws, harg, hpre, hws, ha, hp⟩

/-- THE theorem about `mailRe`: it reports exactly the decomposition with the longest address -/
theorem mailRe_iff (arg addr params : Bytes) : mailRe arg = some (addr, params) ↔ MailMatch arg addr params := by
  rw [mailRe_eq]
  constructor
  · intro h
    split at h
    · simp at h
    · rename_i body hb
      have hspec := scan_spec body
      split at h
      · simp at h
      · rename_i t ht
        rw [ht] at hspec
        obtain ⟨g, tl, hv, hlen, hmax⟩ := hspec
        have hbody := hv.1
        have h1 : body.take (body.length - t - 1) = g := by
          rw [hbody]
          simp only [List.length_append, List.length_cons, hlen]
          have : g.length + (t + 1) - t - 1 = g.length := by omega
          rw [this, List.take_left']
          rfl
        have h2 : body.drop (body.length - t) = tl := by
          rw [hbody]
          simp only [List.length_append, List.length_cons, hlen]
          have : g.length + (t + 1) - t = g.length + 1 := by omega
          rw [this, List.drop_append, List.drop_of_length_le (by omega)]
          simp
        simp only [Option.some.injEq, Prod.mk.injEq] at h
        rw [h1, h2] at h
        obtain ⟨rfl, rfl⟩ := h
        refine ⟨(decomp_iff _ _ _).2 ⟨body, hb, hv⟩, ?_⟩
        intro addr' params' hd
        obtain ⟨body', hb', hv'⟩ := (decomp_iff _ _ _).1 hd
        rw [hb] at hb'
        simp only [Option.some.injEq] at hb'
        subst hb'
        exact hmax _ _ hv'
  · rintro ⟨hd, hmaxd⟩
    obtain ⟨body, hb, hv⟩ := (decomp_iff _ _ _).1 hd
    rw [hb]
    simp only []
    have hspec := scan_spec body
    cases ht : (scan body).r0 with
    | none =>
      rw [ht] at hspec
      exact absurd hv (hspec _ _)
    | some t =>
      rw [ht] at hspec
      obtain ⟨g, tl, hvg, hlen, hmax⟩ := hspec
      have hle1 := hmax _ _ hv
      have hle2 := hmaxd g tl ((decomp_iff _ _ _).2 ⟨body, hb, hvg⟩)
      have heq : g ++ 62 :: tl = addr ++ 62 :: params := by rw [← hvg.1, ← hv.1]
      obtain ⟨rfl, htl⟩ := List.append_inj heq (by omega)
      simp only [List.cons.injEq, true_and] at htl
      subst htl
      have hbody := hvg.1
      simp only [Option.some.injEq, Prod.mk.injEq]
      constructor
      · rw [hbody]
        simp only [List.length_append, List.length_cons, hlen]
        have : g.length + (t + 1) - t - 1 = g.length := by omega
        rw [this, List.take_left']
        rfl
      · rw [hbody]
        simp only [List.length_append, List.length_cons, hlen]
        have : g.length + (t + 1) - t = g.length + 1 := by omega
        rw [this, List.drop_append, List.drop_of_length_le (by omega)]
        simp

theorem mailRe_none_iff (arg : Bytes) : mailRe arg = none ↔ ¬ ∃ addr params, Decomp arg addr params := by
  constructor
  · rintro h ⟨addr, params, hd⟩
    obtain ⟨body, hb, hv⟩ := (decomp_iff _ _ _).1 hd
    rw [mailRe_eq, hb] at h
    simp only [] at h
    have hspec := scan_spec body
    cases ht : (scan body).r0 with
    | none => rw [ht] at hspec; exact hspec _ _ hv
    | some t => rw [ht] at h; simp at h
  · intro h
    cases hm : mailRe arg with
    | none => rfl
    | some ap =>
      obtain ⟨addr, params⟩ := ap
      exact absurd ⟨addr, params, ((mailRe_iff _ _ _).1 hm).1⟩ h

theorem addrToks_of_no_gt {a : Bytes} (h : 62 ∉ a) : AddrToks a := by
  induction a with
  | nil => exact .nil
  | cons c a ih =>
    simp only [List.mem_cons, not_or] at h
    exact .plain (Ne.symm h.1) (ih h.2)

/-- a decomposition whose parameter part holds no '>' is the one the engine reports -/
theorem mailRe_of_decomp {arg addr params : Bytes} (hd : Decomp arg addr params) (hp : 62 ∉ params) :
    mailRe arg = some (addr, params) := by
  refine (mailRe_iff _ _ _).2 ⟨hd, ?_⟩
  intro addr' params' hd'
  obtain ⟨body, hb, hv⟩ := (decomp_iff _ _ _).1 hd
  obtain ⟨body', hb', hv'⟩ := (decomp_iff _ _ _).1 hd'
  rw [hb] at hb'
  simp only [Option.some.injEq] at hb'
  subst hb'
  have heq : addr ++ 62 :: params = addr' ++ 62 :: params' := by rw [← hv.1, ← hv'.1]
  rcases List.append_eq_append_iff.1 heq with ⟨x, hx, hy⟩ | ⟨y, hy, _⟩
  · cases x with
    | nil => simp [hx]
    | cons a x' =>
      simp only [List.cons_append, List.cons.injEq] at hy
      exfalso
      apply hp
      rw [hy.2]
      simp
  · simp [hy]

/-- a '>' inside group 1 that no later '"' closes over is the second byte of a quoted pair -/
theorem addrToks_gt_inside {a x : Bytes} (h : AddrToks (a ++ 62 :: x)) (hx : 34 ∉ x) : a.getLast? = some 92 := by
  generalize hw : a ++ 62 :: x = w at h
  induction h generalizing a with
  | nil => simp at hw
  | @esc g _ ih =>
    match a, hw with
    | [], hw => simp at hw
    | [b], hw => simp at hw; simp [hw.1]
    | b :: c :: a', hw =>
      simp only [List.cons_append, List.cons.injEq] at hw
      have := ih hw.2.2
      cases a' with
      | nil => simp at this
      | cons d a'' => simpa using this
  | @plain c g hc _ ih =>
    match a, hw with
    | [], hw => simp at hw; exact absurd hw.1.symm hc
    | b :: a', hw =>
      simp only [List.cons_append, List.cons.injEq] at hw
      have := ih hw.2
      cases a' with
      | nil => simp at this
      | cons d a'' => simpa using this
  | @quoted q y g hq hnq hy _ ih =>
    match a, hw with
    | [], hw => simp at hw
    | b :: a', hw =>
      simp only [List.cons_append, List.cons.injEq] at hw
      obtain ⟨_, hw⟩ := hw
      rcases List.append_eq_append_iff.1 hw with ⟨n, hq', hn⟩ | ⟨m, ha', hm⟩
      · -- q = a' ++ n, 62 :: x = n ++ 34 :: …
        cases n with
        | nil => simp at hn
        | cons e n' =>
          simp only [List.cons_append, List.cons.injEq] at hn
          exfalso; apply hx; rw [hn.2]; simp
      · -- a' = q ++ m
        rcases m with _ | ⟨m0, _ | ⟨m1, _ | ⟨m2, m'⟩⟩⟩
        · simp at hm
        · simp at hm
        · simp at hm; exact absurd hm.2.2.1 hy
        · simp only [List.cons_append, List.cons.injEq] at hm
          have := ih hm.2.2.2.symm
          subst ha'
          cases m' with
          | nil => simp at this
          | cons d m'' =>
            rw [show b :: (q ++ m0 :: m1 :: m2 :: d :: m'') = (b :: (q ++ [m0, m1, m2])) ++ (d :: m'') by simp]
            rw [List.getLast?_append]
            simpa using this

/-- a decomposition whose address does not end in a backslash is the one the engine reports -/
theorem mailRe_of_decomp_nobs {arg addr params : Bytes} (hd : Decomp arg addr params) (hb : addr.getLast? ≠ some 92) :
    mailRe arg = some (addr, params) := by
  refine (mailRe_iff _ _ _).2 ⟨hd, ?_⟩
  intro addr' params' hd'
  obtain ⟨body, hb1, hv⟩ := (decomp_iff _ _ _).1 hd
  obtain ⟨body', hb', hv'⟩ := (decomp_iff _ _ _).1 hd'
  rw [hb1] at hb'
  simp only [Option.some.injEq] at hb'
  subst hb'
  have heq : addr ++ 62 :: params = addr' ++ 62 :: params' := by rw [← hv.1, ← hv'.1]
  rcases List.append_eq_append_iff.1 heq with ⟨x, hx, hy⟩ | ⟨y, hy, _⟩
  · cases x with
    | nil => simp [hx]
    | cons a x' =>
      simp only [List.cons_append, List.cons.injEq] at hy
      obtain ⟨rfl, hp⟩ := hy
      exfalso
      apply hb
      have h34 : 34 ∉ x' := by
        have := paramTail_no34 hv.2.2
        rw [hp] at this
        intro h
        exact this (by simp [h])
      have htoks := hv'.2.1
      rw [hx] at htoks
      exact addrToks_gt_inside htoks h34
  · simp [hy]

/-! ### parseArgs -/

theorem pairsAcc_acc (l : Bytes) (k : Nat) (acc : List (Bytes × Bytes)) :
    pairsAcc l k acc = acc.reverse ++ pairsAcc l k [] := by
  induction l generalizing k acc with
  | nil => simp [pairsAcc]
  | cons c r ih =>
    cases k with
    | succ k => simp only [pairsAcc]; exact ih k acc
    | zero =>
      simp only [pairsAcc]
      split
      · rename_i k' v _
        rw [ih _ ((k', v) :: acc), ih _ [(k', v)]]
        simp
      · exact ih 0 acc

/-- the pairs found from a position on, `skip` bytes still covered by the previous match -/
def pairsS (l : Bytes) (skip : Nat) : List (Bytes × Bytes) := pairsAcc l skip []

theorem pairsS_nil (k : Nat) : pairsS [] k = [] := rfl
theorem pairsS_skip (c : Nat) (r : Bytes) (k : Nat) : pairsS (c :: r) (k + 1) = pairsS r k := rfl
theorem pairsS_zero (c : Nat) (r : Bytes) :
    pairsS (c :: r) 0 = match matchAt (c :: r) with
      | some (k, v) => (k, v) :: pairsS r (k.length + v.length + 1)
      | none => pairsS r 0 := by
  unfold pairsS
  simp only [pairsAcc]
  cases h : matchAt (c :: r) with
  | none => rfl
  | some kv =>
    obtain ⟨k, v⟩ := kv
    simp only []
    rw [pairsAcc_acc]
    simp

theorem pairsS_drop (x r : Bytes) : pairsS (x ++ r) x.length = pairsS r 0 := by
  induction x with
  | nil => rfl
  | cons c x ih => simpa [pairsS_skip] using ih

theorem takeWhile_stop {p : Nat → Bool} (a : Bytes) (b : Nat) (c : Bytes) (hb : p b = false) :
    (a ++ b :: c).takeWhile p = a.takeWhile p := by
  induction a with
  | nil => simp [List.takeWhile, hb]
  | cons x a ih =>
    simp only [List.cons_append, List.takeWhile_cons]
    split
    · rw [ih]
    · rfl

theorem dropWhile_stop {p : Nat → Bool} (a : Bytes) (b : Nat) (c : Bytes) (hb : p b = false) :
    (a ++ b :: c).dropWhile p = a.dropWhile p ++ b :: c := by
  induction a with
  | nil => simp [List.dropWhile, hb]
  | cons x a ih =>
    simp only [List.cons_append, List.dropWhile_cons]
    split
    · rw [ih]
    · rfl

theorem takeWhile_all {p : Nat → Bool} (a : Bytes) (h : ∀ c ∈ a, p c = true) : a.takeWhile p = a := by
  induction a with
  | nil => rfl
  | cons x a ih =>
    simp only [List.takeWhile_cons, h x (by simp), if_true]
    rw [ih (fun c hc => h c (by simp [hc]))]

theorem dropWhile_all {p : Nat → Bool} (a : Bytes) (h : ∀ c ∈ a, p c = true) : a.dropWhile p = [] := by
  induction a with
  | nil => rfl
  | cons x a ih =>
    simp only [List.dropWhile_cons, h x (by simp), if_true]
    exact ih (fun c hc => h c (by simp [hc]))

theorem head_dropWhile {p : Nat → Bool} (a : Bytes) : ∀ c, (a.dropWhile p).head? = some c → p c = false := by
  induction a with
  | nil => simp
  | cons x a ih =>
    intro c
    simp only [List.dropWhile_cons]
    split
    · exact ih c
    · rename_i hx
      simp only [List.head?_cons, Option.some.injEq]
      rintro rfl
      simpa using hx

theorem takeWhile_noAhead (v rest : Bytes) (hv : ∀ c ∈ v, isWord c = true) (hr : NoWordAhead rest) :
    (v ++ rest).takeWhile isWord = v := by
  cases rest with
  | nil => simpa using takeWhile_all v hv
  | cons b c =>
    rw [takeWhile_stop v b c (hr b rfl)]
    exact takeWhile_all v hv

theorem isWord_61 : isWord 61 = false := by decide
theorem isWord_60 : isWord 60 = false := by decide
theorem isWord_32 : isWord 32 = false := by decide

/-- `matchAt`, read forwards: the expression matches at the beginning with these two groups -/
theorem matchAt_some (l k v : Bytes) :
    matchAt l = some (k, v) ↔
      ∃ rest, l = 32 :: (k ++ 61 :: (v ++ rest)) ∧ Word1 k ∧ ((Word1 v ∧ NoWordAhead rest) ∨ v = [60, 62]) := by
  constructor
  · intro h
    cases l with
    | nil => simp [matchAt] at h
    | cons c r =>
      unfold matchAt at h
      by_cases hc : c = 32
      · subst hc
        simp only [bne_self_eq_false, Bool.false_eq_true, if_false] at h
        by_cases hk : (r.takeWhile isWord).isEmpty = true
        · simp [hk] at h
        · simp only [hk, Bool.false_eq_true, if_false] at h
          have hsplit := List.takeWhile_append_dropWhile (p := isWord) (l := r)
          cases hd : r.dropWhile isWord with
          | nil => simp [hd] at h
          | cons e r2 =>
            rw [hd] at h hsplit
            simp only [] at h
            by_cases he : e = 61
            · subst he
              simp only [bne_self_eq_false, Bool.false_eq_true, if_false] at h
              have hkw : Word1 (r.takeWhile isWord) :=
                ⟨by simpa using hk, fun c hc => mem_takeWhile_true hc⟩
              by_cases hv : (r2.takeWhile isWord).isEmpty = true
              · simp only [hv, Bool.not_true, Bool.false_eq_true, if_false] at h
                match r2, h with
                | a :: b :: t, h =>
                  simp only [Bool.and_eq_true, beq_iff_eq, Option.ite_none_right_eq_some, Option.some.injEq,
                    Prod.mk.injEq] at h
                  obtain ⟨⟨rfl, rfl⟩, rfl, rfl⟩ := h
                  exact ⟨t, by simp only [List.cons_append, List.nil_append]; rw [hsplit], hkw, .inr rfl⟩
              · simp only [hv, Bool.not_false, if_true, Option.some.injEq, Prod.mk.injEq] at h
                obtain ⟨rfl, rfl⟩ := h
                refine ⟨r2.dropWhile isWord, ?_, hkw, .inl ⟨⟨by simpa using hv, fun c hc => mem_takeWhile_true hc⟩, ?_⟩⟩
                · rw [List.takeWhile_append_dropWhile, hsplit]
                · exact head_dropWhile r2
            · simp [he] at h
      · simp [hc] at h
  · rintro ⟨rest, rfl, ⟨hk0, hk⟩, hv⟩
    have htk : (k ++ 61 :: (v ++ rest)).takeWhile isWord = k := by
      rw [takeWhile_stop k 61 _ isWord_61]; exact takeWhile_all k hk
    have hdk : (k ++ 61 :: (v ++ rest)).dropWhile isWord = 61 :: (v ++ rest) := by
      rw [dropWhile_stop k 61 _ isWord_61, dropWhile_all k hk]; rfl
    unfold matchAt
    simp only [bne_self_eq_false, Bool.false_eq_true, if_false, htk, hdk, List.isEmpty_eq_false_iff.2 hk0]
    rcases hv with ⟨⟨hv0, hvw⟩, hna⟩ | rfl
    · rw [takeWhile_noAhead v rest hvw hna]
      simp [List.isEmpty_eq_false_iff.2 hv0]
    · simp [isWord_60]

theorem pairAt_iff (l : Bytes) : PairAt l ↔ ∃ kv, matchAt l = some kv := by
  constructor
  · rintro ⟨k, v, rest, rfl, hk, hv⟩
    rcases hv with ⟨hv0, hvw⟩ | rfl
    · refine ⟨(k, v ++ rest.takeWhile isWord), (matchAt_some _ _ _).2 ⟨rest.dropWhile isWord, ?_, hk, .inl ⟨⟨?_, ?_⟩, ?_⟩⟩⟩
      · rw [List.append_assoc, List.takeWhile_append_dropWhile]
      · simp [hv0]
      · intro c hc
        rcases List.mem_append.1 hc with h | h
        · exact hvw c h
        · exact mem_takeWhile_true h
      · exact head_dropWhile rest
    · exact ⟨(k, [60, 62]), (matchAt_some _ _ _).2 ⟨rest, rfl, hk, .inr rfl⟩⟩
  · rintro ⟨⟨k, v⟩, h⟩
    obtain ⟨rest, rfl, hk, hv⟩ := (matchAt_some _ _ _).1 h
    exact ⟨k, v, rest, rfl, hk, hv.elim (fun h => .inl h.1) .inr⟩

theorem matchAt_none_iff (l : Bytes) : matchAt l = none ↔ ¬ PairAt l := by
  rw [pairAt_iff]
  cases matchAt l <;> simp

theorem pairIn_cons (c : Nat) (g : Bytes) : PairIn (c :: g) ↔ PairAt (c :: g) ∨ PairIn g := by
  constructor
  · rintro ⟨pre, post, heq, hp⟩
    cases pre with
    | nil => simp only [List.nil_append] at heq; exact .inl (heq ▸ hp)
    | cons a pre' =>
      simp only [List.cons_append, List.cons.injEq] at heq
      exact .inr ⟨pre', post, heq.2, hp⟩
  · rintro (h | ⟨pre, post, rfl, hp⟩)
    · exact ⟨[], _, rfl, h⟩
    · exact ⟨c :: pre, post, rfl, hp⟩

theorem not_pairAt_nil : ¬ PairAt [] := by
  rintro ⟨k, v, rest, h, _⟩
  simp at h

theorem not_pairIn_nil : ¬ PairIn [] := by
  rintro ⟨pre, post, h, hp⟩
  have : post = [] := by
    cases pre <;> simp at h
    exact h
  exact not_pairAt_nil (this ▸ hp)

theorem pairAt_append {l : Bytes} (x : Bytes) (h : PairAt l) : PairAt (l ++ x) := by
  obtain ⟨k, v, rest, rfl, hk, hv⟩ := h
  exact ⟨k, v, rest ++ x, by simp, hk, hv⟩

/-- a space behind the text does not change what matches at its beginning (the text is not empty) -/
theorem matchAt_before_space (c : Nat) (s' r' : Bytes) : matchAt (c :: s' ++ 32 :: r') = matchAt (c :: s') := by
  simp only [List.cons_append]
  unfold matchAt
  by_cases hc : c = 32
  · subst hc
    simp only [bne_self_eq_false, Bool.false_eq_true, if_false]
    rw [takeWhile_stop s' 32 r' isWord_32, dropWhile_stop s' 32 r' isWord_32]
    by_cases hk : (s'.takeWhile isWord).isEmpty = true
    · simp [hk]
    · simp only [hk, Bool.false_eq_true, if_false]
      cases hd : s'.dropWhile isWord with
      | nil => simp
      | cons e r2 =>
        simp only [List.cons_append]
        by_cases he : e = 61
        · subst he
          simp only [bne_self_eq_false, Bool.false_eq_true, if_false]
          rw [takeWhile_stop r2 32 r' isWord_32]
          by_cases hv : (r2.takeWhile isWord).isEmpty = true
          · simp only [hv, Bool.not_true, Bool.false_eq_true, if_false]
            rcases r2 with _ | ⟨a, _ | ⟨b, t⟩⟩
            · cases r' <;> simp
            · simp
            · simp
          · simp [hv]
        · simp [he]
  · simp [hc]

theorem pairsS_gap (g r : Bytes) (hg : ¬ PairIn g) (hr : r = [] ∨ ∃ r', r = 32 :: r') :
    pairsS (g ++ r) 0 = pairsS r 0 := by
  induction g with
  | nil => rfl
  | cons c g ih =>
    rw [pairIn_cons, not_or] at hg
    have hnone : matchAt (c :: g ++ r) = none := by
      rcases hr with rfl | ⟨r', rfl⟩
      · simpa using (matchAt_none_iff _).2 hg.1
      · rw [matchAt_before_space]; exact (matchAt_none_iff _).2 hg.1
    rw [List.cons_append, pairsS_zero, ← List.cons_append, hnone]
    exact ih hg.2

/-- the pairs the scan finds are a left-to-right decomposition of the text -/
theorem argsDecomp_pairsS (l : Bytes) : ArgsDecomp l (pairsS l 0) := by
  suffices h : ∀ n (l : Bytes), l.length ≤ n → ArgsDecomp l (pairsS l 0) from h _ l (Nat.le_refl _)
  intro n
  induction n with
  | zero =>
    intro l hl
    have : l = [] := List.eq_nil_of_length_eq_zero (by omega)
    subst this
    exact .done not_pairIn_nil
  | succ n ih =>
    intro l hl
    cases l with
    | nil => exact .done not_pairIn_nil
    | cons c r =>
      rw [pairsS_zero]
      cases hm : matchAt (c :: r) with
      | some kv =>
        obtain ⟨k, v⟩ := kv
        obtain ⟨rest, heq, hk, hv⟩ := (matchAt_some _ _ _).1 hm
        simp only [List.cons.injEq] at heq
        obtain ⟨rfl, rfl⟩ := heq
        have hdrop : pairsS (k ++ 61 :: (v ++ rest)) (k.length + v.length + 1) = pairsS rest 0 := by
          have := pairsS_drop (k ++ 61 :: v) rest
          simpa [Nat.add_assoc, Nat.add_comm, Nat.add_left_comm] using this
        simp only [hdrop]
        have hlen : rest.length ≤ n := by simp at hl; omega
        have := ArgsDecomp.pair (g := []) not_pairIn_nil hk hv (ih rest hlen)
        simpa using this
      | none =>
        simp only []
        have hr := ih r (by simp at hl; omega)
        have hna := (matchAt_none_iff _).1 hm
        generalize pairsS r 0 = ps at hr
        cases hr with
        | done hg => exact .done (by rw [pairIn_cons]; exact not_or.2 ⟨hna, hg⟩)
        | @pair g k v rest ps hg hk hv hrest =>
          have hg' : ¬ PairIn (c :: g) := by
            rw [pairIn_cons]
            refine not_or.2 ⟨fun h => hna ?_, hg⟩
            have := pairAt_append (32 :: (k ++ 61 :: (v ++ rest))) h
            simpa using this
          have := ArgsDecomp.pair hg' hk hv hrest
          simpa using this

/-- … and the only one -/
theorem pairsS_of_argsDecomp {l : Bytes} {ps : List (Bytes × Bytes)} (h : ArgsDecomp l ps) : pairsS l 0 = ps := by
  induction h with
  | done hg =>
    have := pairsS_gap _ [] hg (.inl rfl)
    simpa [pairsS_nil] using this
  | @pair g k v rest ps hg hk hv _ ih =>
    rw [pairsS_gap g _ hg (.inr ⟨_, rfl⟩), pairsS_zero, (matchAt_some _ _ _).2 ⟨rest, rfl, hk, hv⟩]
    simp only []
    have hdrop : pairsS (k ++ 61 :: (v ++ rest)) (k.length + v.length + 1) = pairsS rest 0 := by
      have := pairsS_drop (k ++ 61 :: v) rest
      simpa [Nat.add_assoc, Nat.add_comm, Nat.add_left_comm] using this
    rw [hdrop, ih]

theorem pairsOf_iff (l : Bytes) (ps : List (Bytes × Bytes)) : pairsOf l = ps ↔ ArgsDecomp l ps := by
  constructor
  · rintro rfl; exact argsDecomp_pairsS l
  · exact pairsS_of_argsDecomp

end Ibx.Lemmas.MailArgs
