import Ibx.Lemmas.ConcMemLin
import Ibx.Lemmas.MemRefine
/-
  The tie between the concurrent model's atomic machine (`ConcMem.Atomic.step`: what one critical section does
  to the shared maps, message contents abstracted to ids and sizes) and the sequential models of C07:
  every critical section IS the corresponding operation of `Model.Mem` (hence, by C07, of `Spec.Store`) on the
  abstraction of the shared state — with the byte limit switched off in the sequential model, because in the
  concurrent store the limit is enforced by the background goroutine whose evictions are separate
  linearisation points (`remove` operations of the client `Who.enf`).
-/
namespace Ibx.Model.ConcMem
open Ibx

/-- mailbox number of the concurrent model ↦ mailbox name of the sequential models (injective) -/
def nm (b : Nat) : Bytes := [b]

theorem nm_inj {a b : Nat} (h : nm a = nm b) : a = b := by simpa [nm] using h
theorem nm_ne {a b : Nat} (h : a ≠ b) : nm a ≠ nm b := fun e => h (nm_inj e)

/-- cap as configured; the byte limit is not part of a critical section -/
def specCfg (c : Cfg) : Spec.Store.Cfg := { cap := c.cap, limit := 0 }

/-- the sequential operation a critical section performs (a body of `sz` bytes, no metadata) -/
def specOp : Op → Spec.Store.Op
  | .add b sz => .add (nm b) default (List.replicate sz 0)
  | .get b i => .get (nm b) i
  | .list b => .list (nm b)
  | .seen b i => .seen (nm b) i
  | .remove b i => .remove (nm b) i
  | .purge b => .purge (nm b)

/-- what the concurrent model keeps of an answer: ids only -/
def retOf : Spec.Store.Out → Ret
  | .id i => .id i
  | .msg m => .found m.id
  | .msgs l => .ids (l.map (·.id))
  | .boxes _ => .ok
  | .ok => .ok
  | .notExist => .notExist

def evKey (k : Key) : Spec.Store.Ev := (nm k.1, k.2)

/-- one mailbox: same counters, same ids in the same order, flags and sizes as recorded -/
structure BoxSim (bx : Box) (mb : Mem.MBox) (seen : Nat → Bool) (size : Nat → Nat) : Prop where
  first : mb.first = bx.first
  last : mb.last = bx.last
  ids : mb.msgs.map (·.index) = bx.msgs
  seen : ∀ x ∈ mb.msgs, x.seen = seen x.index
  size : ∀ x ∈ mb.msgs, x.source.length = size x.index

/-- the abstraction relation: shared state of the concurrent model (+ the ghost size map) vs `Model.Mem` -/
structure Sim (a : AS) (size : Key → Nat) (m : Mem.Mem) : Prop where
  box : ∀ b, BoxSim (a.boxes b) (m.boxes (nm b)) (fun i => a.seen (b, i)) (fun i => size (b, i))
  fresh : ∀ b j, (a.boxes b).last < j → a.seen (b, j) = false

theorem sim_empty (size : Key → Nat) : Sim AS.empty size Mem.empty := by
  refine ⟨fun b => ⟨rfl, rfl, rfl, ?_, ?_⟩, fun _ _ _ => rfl⟩ <;> simp [Mem.empty, Mem.emptyBox]

open Ibx.Lemmas.MemRefine in
/-- replacing mailbox `b` on both sides -/
theorem Sim.setBox {a : AS} {size : Key → Nat} {m : Mem.Mem} (h : Sim a size m) (b : Nat) (bx : Box) (mb : Mem.MBox)
    (hb : BoxSim bx mb (fun i => a.seen (b, i)) (fun i => size (b, i)))
    (hf : ∀ j, bx.last < j → a.seen (b, j) = false) :
    Sim { a with boxes := upd a.boxes b bx } size (Mem.setBox m (nm b) mb) := by
  refine ⟨fun b' => ?_, fun b' j hj => ?_⟩
  · by_cases e : b' = b
    · subst e; simpa using hb
    · simpa [upd, e, setBox_boxes_other _ _ _ _ (nm_ne e)] using h.box b'
  · by_cases e : b' = b
    · subst e; exact hf j (by simpa using hj)
    · exact h.fresh b' j (by simpa [upd, e] using hj)

theorem Sim.touch {a : AS} {size : Key → Nat} {m : Mem.Mem} (h : Sim a size m) (b : Nat) :
    Sim a size (Mem.touch m (nm b)) := by
  have := h.setBox b (a.boxes b) (m.boxes (nm b)) (h.box b) (h.fresh b)
  have e : ({ a with boxes := upd a.boxes b (a.boxes b) } : AS) = a := by
    cases a with
    | mk boxes seen =>
      simp only [AS.mk.injEq, and_true]
      funext x; by_cases ex : x = b <;> simp [upd, ex]
  rw [e] at this; exact this

/-! ### the cap loop -/

theorem capLoop_sim (cap : Nat) : ∀ (fuel first : Nat) (msgs ev : List Mem.MMsg),
    capLoop cap fuel first (msgs.map (·.index)) (ev.map (·.index)) =
      ((Mem.capLoop cap fuel first msgs ev).1, (Mem.capLoop cap fuel first msgs ev).2.1.map (·.index),
       (Mem.capLoop cap fuel first msgs ev).2.2.map (·.index)) := by
  intro fuel
  induction fuel with
  | zero => intro first msgs ev; simp [capLoop, Mem.capLoop]
  | succ n ih =>
    intro first msgs ev
    simp only [capLoop, Mem.capLoop, List.length_map]
    split
    · cases hf : msgs.find? (·.index == first) with
      | some old =>
        have h1 := List.find?_some hf
        have h2 := List.mem_of_find?_eq_some hf
        have hi : old.index = first := by simpa using h1
        have hc : (msgs.map (·.index)).contains first = true := by
          simp only [List.contains_iff_mem, List.mem_map]; exact ⟨old, h2, hi⟩
        have hfl : (msgs.map (·.index)).filter (· != first) = (msgs.filter (·.index != first)).map (·.index) := by
          rw [List.filter_map]; rfl
        simp only [hc, if_true, hfl]
        have := ih (first + 1) (msgs.filter (·.index != first)) (old :: ev)
        simp only [List.map_cons, hi] at this
        exact this
      | none =>
        have hc : (msgs.map (·.index)).contains first = false := by
          rw [Bool.eq_false_iff]; intro hc
          simp only [List.contains_iff_mem, List.mem_map] at hc
          obtain ⟨x, hx, hxi⟩ := hc
          have := List.find?_eq_none.mp hf x hx
          simp [hxi] at this
        simp only [hc, Bool.false_eq_true, if_false]
        exact ih (first + 1) msgs ev
    · simp


/-! ### one critical section = one operation of `Model.Mem` (byte limit off) -/

open Ibx.Lemmas.MemRefine

theorem find_ids {bx : Box} {mb : Mem.MBox} {sn : Nat → Bool} {sz : Nat → Nat} (h : BoxSim bx mb sn sz) (i : Nat) :
    (∀ x, mb.msgs.find? (·.index == i) = some x → x.index = i ∧ x ∈ mb.msgs ∧ i ∈ bx.msgs) ∧
    (mb.msgs.find? (·.index == i) = none → i ∉ bx.msgs) := by
  constructor
  · intro x hf
    have h1 := List.find?_some hf
    have h2 := List.mem_of_find?_eq_some hf
    have hi : x.index = i := by simpa using h1
    refine ⟨hi, h2, ?_⟩
    rw [← h.ids]; simp only [List.mem_map]; exact ⟨x, h2, hi⟩
  · intro hf hc
    rw [← h.ids] at hc
    simp only [List.mem_map] at hc
    obtain ⟨x, hx, hxi⟩ := hc
    have := List.find?_eq_none.mp hf x hx
    simp [hxi] at this

theorem sim_get (c : Cfg) (a : AS) (size : Key → Nat) (m : Mem.Mem) (b i : Nat) (h : Sim a size m) :
    Sim (Atomic.step c a (.get b i)).1 size (Mem.step (specCfg c) m (.get (nm b) i)).1 ∧
    retOf (Mem.step (specCfg c) m (.get (nm b) i)).2.1 = (Atomic.step c a (.get b i)).2.1 ∧
    (Mem.step (specCfg c) m (.get (nm b) i)).2.2 = (Atomic.step c a (.get b i)).2.2.map evKey := by
  have hf := find_ids (h.box b) i
  simp only [Atomic.step, Mem.step]
  cases hx : (m.boxes (nm b)).msgs.find? (·.index == i) with
  | some x =>
    obtain ⟨h1, _, h3⟩ := hf.1 x hx
    simp [h3, retOf, h1]; exact h.touch b
  | none =>
    have h3 := hf.2 hx
    simp [h3, retOf]; exact h.touch b

theorem sim_list (c : Cfg) (a : AS) (size : Key → Nat) (m : Mem.Mem) (b : Nat) (h : Sim a size m) :
    Sim (Atomic.step c a (.list b)).1 size (Mem.step (specCfg c) m (.list (nm b))).1 ∧
    retOf (Mem.step (specCfg c) m (.list (nm b))).2.1 = (Atomic.step c a (.list b)).2.1 ∧
    (Mem.step (specCfg c) m (.list (nm b))).2.2 = (Atomic.step c a (.list b)).2.2.map evKey := by
  simp only [Atomic.step, Mem.step]
  refine ⟨h.touch b, ?_, by simp⟩
  simp only [retOf, List.map_map]
  rw [← (h.box b).ids]; rfl


theorem sim_seen (c : Cfg) (a : AS) (size : Key → Nat) (m : Mem.Mem) (b i : Nat) (h : Sim a size m)
    (hbi : BoxInv (m.boxes (nm b))) :
    Sim (Atomic.step c a (.seen b i)).1 size (Mem.step (specCfg c) m (.seen (nm b) i)).1 ∧
    retOf (Mem.step (specCfg c) m (.seen (nm b) i)).2.1 = (Atomic.step c a (.seen b i)).2.1 ∧
    (Mem.step (specCfg c) m (.seen (nm b) i)).2.2 = (Atomic.step c a (.seen b i)).2.2.map evKey := by
  have hb := h.box b
  simp only [Atomic.step, Mem.step]
  by_cases hm : i ∈ (a.boxes b).msgs
  · have hany : (m.boxes (nm b)).msgs.any (·.index == i) = true := by
      rw [← hb.ids] at hm
      simp only [List.mem_map] at hm
      obtain ⟨x, hx, hxi⟩ := hm
      simp only [List.any_eq_true]; exact ⟨x, hx, by simp [hxi]⟩
    have hle : i ≤ (a.boxes b).last := by
      rw [← hb.ids] at hm
      simp only [List.mem_map] at hm
      obtain ⟨x, hx, hxi⟩ := hm
      have := hbi.hi x hx; rw [hb.last] at this; omega
    simp only [hany, if_true, List.contains_iff_mem, hm, retOf, List.map_nil, and_true]
    -- the state: same boxes on the abstract side, flags updated
    refine ⟨fun b' => ?_, fun b' j hj => ?_⟩
    · by_cases e : b' = b
      · subst e
        simp only [setBox_boxes_same]
        refine ⟨hb.first, hb.last, ?_, ?_, ?_⟩
        · rw [← hb.ids, List.map_map]; apply List.map_congr_left; intro x _; simp only [Function.comp]; split <;> rfl
        · intro x hx
          simp only [List.mem_map] at hx
          obtain ⟨y, hy, rfl⟩ := hx
          by_cases ey : y.index = i
          · simp [ey, upd]
          · have : ((b', y.index) : Key) ≠ (b', i) := by simp [ey]
            simp [ey, upd, this, hb.seen y hy]
        · intro x hx
          simp only [List.mem_map] at hx
          obtain ⟨y, hy, rfl⟩ := hx
          have := hb.size y hy
          split <;> simpa using this
      · have hbb := h.box b'
        have hk : ∀ j, ((b', j) : Key) ≠ (b, i) := by intro j; simp [e]
        simp only [setBox_boxes_other _ _ _ _ (nm_ne e)]
        exact ⟨hbb.first, hbb.last, hbb.ids, fun x hx => by simp [upd, hk, hbb.seen x hx], hbb.size⟩
    · have hj' : (a.boxes b').last < j := hj
      have := h.fresh b' j hj'
      by_cases e : ((b', j) : Key) = (b, i)
      · simp only [Prod.mk.injEq] at e; obtain ⟨rfl, rfl⟩ := e; omega
      · simp [upd, e, this]
  · have hany : (m.boxes (nm b)).msgs.any (·.index == i) = false := by
      rw [Bool.eq_false_iff]; intro hc
      simp only [List.any_eq_true] at hc
      obtain ⟨x, hx, hxi⟩ := hc
      apply hm; rw [← hb.ids]; simp only [List.mem_map]; exact ⟨x, hx, by simpa using hxi⟩
    simp only [hany, List.contains_iff_mem, hm, retOf]
    exact ⟨h.touch b, by simp, by simp⟩

theorem sim_remove (c : Cfg) (a : AS) (size : Key → Nat) (m : Mem.Mem) (b i : Nat) (h : Sim a size m) :
    Sim (Atomic.step c a (.remove b i)).1 size (Mem.step (specCfg c) m (.remove (nm b) i)).1 ∧
    retOf (Mem.step (specCfg c) m (.remove (nm b) i)).2.1 = (Atomic.step c a (.remove b i)).2.1 ∧
    (Mem.step (specCfg c) m (.remove (nm b) i)).2.2 = (Atomic.step c a (.remove b i)).2.2.map evKey := by
  have hb := h.box b
  have hf := find_ids hb i
  simp only [Atomic.step, Mem.step]
  cases hx : (m.boxes (nm b)).msgs.find? (·.index == i) with
  | some x =>
    obtain ⟨h1, _, h3⟩ := hf.1 x hx
    rw [removeFromBox_some _ _ _ _ hx]
    simp only [List.contains_iff_mem, h3, if_true, retOf, List.map_cons, List.map_nil, evKey, and_true]
    show Sim _ size (Mem.setBox m (nm b) _)
    apply h.setBox b
    · refine ⟨hb.first, hb.last, ?_, fun y hy => hb.seen y (List.mem_filter.mp hy).1,
        fun y hy => hb.size y (List.mem_filter.mp hy).1⟩
      simp only
      rw [← hb.ids, List.filter_map]; rfl
    · exact h.fresh b
  | none =>
    have h3 := hf.2 hx
    rw [removeFromBox_none _ _ _ hx]
    simp only [List.contains_iff_mem, h3, if_false, retOf, List.map_nil, and_true]
    exact h.touch b

theorem sim_purge (c : Cfg) (a : AS) (size : Key → Nat) (m : Mem.Mem) (b : Nat) (h : Sim a size m) :
    Sim (Atomic.step c a (.purge b)).1 size (Mem.step (specCfg c) m (.purge (nm b))).1 ∧
    retOf (Mem.step (specCfg c) m (.purge (nm b))).2.1 = (Atomic.step c a (.purge b)).2.1 ∧
    (Mem.step (specCfg c) m (.purge (nm b))).2.2 = (Atomic.step c a (.purge b)).2.2.map evKey := by
  have hb := h.box b
  simp only [Atomic.step, Mem.step, specCfg, foldl_enfRemove_off, retOf, true_and]
  refine ⟨?_, ?_⟩
  · apply h.setBox b
    · exact ⟨hb.first, hb.last, rfl, by simp, by simp⟩
    · exact h.fresh b
  · rw [← hb.ids]; simp [evKey, Function.comp_def]


theorem sim_add (c : Cfg) (a : AS) (size : Key → Nat) (m : Mem.Mem) (b sz : Nat) (h : Sim a size m)
    (hbi : BoxInv (m.boxes (nm b))) :
    Sim (Atomic.step c a (.add b sz)).1 (upd size (b, (a.boxes b).last + 1) sz)
      (Mem.step (specCfg c) m (.add (nm b) default (List.replicate sz 0))).1 ∧
    retOf (Mem.step (specCfg c) m (.add (nm b) default (List.replicate sz 0))).2.1 = (Atomic.step c a (.add b sz)).2.1 ∧
    (Mem.step (specCfg c) m (.add (nm b) default (List.replicate sz 0))).2.2 =
      (Atomic.step c a (.add b sz)).2.2.map evKey := by
  have hb := h.box b
  rw [mem_step_add]
  simp only [specCfg, foldl_enfRemove_off, enfDeliver_off, List.append_nil]
  -- the cap phase on both sides
  let mb := m.boxes (nm b)
  let y := newMMsg mb default (List.replicate sz 0)
  have hy : y.index = (a.boxes b).last + 1 := by simp [y, newMMsg, mb, hb.last]
  have hcp : (if c.cap > 0 then capLoop c.cap ((a.boxes b).last + 1 + 1 - (a.boxes b).first) (a.boxes b).first
                ((a.boxes b).msgs ++ [(a.boxes b).last + 1]) []
              else ((a.boxes b).first, (a.boxes b).msgs ++ [(a.boxes b).last + 1], [])) =
      ((capPhase c.cap mb.first (mb.last + 1) (mb.msgs ++ [y])).1,
       (capPhase c.cap mb.first (mb.last + 1) (mb.msgs ++ [y])).2.1.map (·.index),
       (capPhase c.cap mb.first (mb.last + 1) (mb.msgs ++ [y])).2.2.map (·.index)) := by
    have e1 : (a.boxes b).msgs ++ [(a.boxes b).last + 1] = (mb.msgs ++ [y]).map (·.index) := by
      simp [mb, hb.ids, hy]
    unfold capPhase
    split
    · have := capLoop_sim c.cap (mb.last + 1 + 1 - mb.first) mb.first (mb.msgs ++ [y]) []
      simp only [List.map_nil] at this
      rw [e1, ← hb.first, ← hb.last]; exact this
    · rw [e1, ← hb.first]; rfl
  obtain ⟨_, hk1, _, _, _⟩ := capPhase_spec c.cap mb y (by simp [y, newMMsg]) hbi
  have hsub : ∀ x ∈ (capPhase c.cap mb.first (mb.last + 1) (mb.msgs ++ [y])).2.1, x ∈ mb.msgs ∨ x = y := by
    intro x hx
    rw [hk1] at hx
    simp only [List.mem_append, List.mem_singleton] at hx
    rcases hx with hx | hx
    · exact Or.inl (List.mem_of_mem_drop hx)
    · exact Or.inr hx
  simp only [Atomic.step, hcp, retOf]
  refine ⟨?_, by simp [hb.last], ?_⟩
  · refine ⟨fun b' => ?_, fun b' j hj => ?_⟩
    · by_cases e : b' = b
      · subst e
        simp only [setBox_boxes_same, upd_same]
        refine ⟨rfl, by simp [hb.last], rfl, ?_, ?_⟩
        · intro x hx
          rcases hsub x hx with hx | rfl
          · exact hb.seen x hx
          · rw [hy]; exact (h.fresh b' _ (by omega)).symm
        · intro x hx
          rcases hsub x hx with hx' | rfl
          · have hle := hbi.hi x hx'
            have : ((b', x.index) : Key) ≠ (b', (a.boxes b').last + 1) := by
              rw [hb.last] at hle; simp; omega
            simp only [upd, this, if_false]; exact hb.size x hx'
          · have hl : mb.last = (a.boxes b').last := hb.last
            simp [y, newMMsg, hl]
      · have hbb := h.box b'
        have hk : ∀ j, ((b', j) : Key) ≠ (b, (a.boxes b).last + 1) := by intro j; simp [e]
        simp only [setBox_boxes_other _ _ _ _ (nm_ne e), upd, e, if_false]
        exact ⟨hbb.first, hbb.last, hbb.ids, hbb.seen, fun x hx => by simp [hk, hbb.size x hx]⟩
    · by_cases e : b' = b
      · subst e
        simp only [upd_same] at hj
        exact h.fresh b' j (by omega)
      · simp only [upd, e, if_false] at hj
        exact h.fresh b' j hj
  · simp [evKey, Function.comp_def]; rfl


theorem newSize_nonadd (o : Op) (r : Ret) (size : Key → Nat) (h : ∀ b sz, o ≠ .add b sz) : newSize o r size = size := by
  cases o <;> cases r <;> simp_all [newSize]

/-- **the tie, one step**: the critical section of `o` on the shared state is the operation `specOp o` of the
    sequential memory-store model on the related state — related states after, the same answer (ids), the
    same messages deleted from the maps -/
theorem sim_step (c : Cfg) (a : AS) (size : Key → Nat) (m : Mem.Mem) (o : Op) (h : Sim a size m)
    (hbi : ∀ b, BoxInv (m.boxes (nm b))) :
    Sim (Atomic.step c a o).1 (newSize o (Atomic.step c a o).2.1 size) (Mem.step (specCfg c) m (specOp o)).1 ∧
    retOf (Mem.step (specCfg c) m (specOp o)).2.1 = (Atomic.step c a o).2.1 ∧
    (Mem.step (specCfg c) m (specOp o)).2.2 = (Atomic.step c a o).2.2.map evKey := by
  cases o with
  | add b sz =>
    have : newSize (.add b sz) (Atomic.step c a (.add b sz)).2.1 size = upd size (b, (a.boxes b).last + 1) sz := by
      simp [newSize, Atomic.step]
    rw [this]; exact sim_add c a size m b sz h (hbi b)
  | get b i => rw [newSize_nonadd _ _ _ (by simp)]; exact sim_get c a size m b i h
  | list b => rw [newSize_nonadd _ _ _ (by simp)]; exact sim_list c a size m b h
  | seen b i => rw [newSize_nonadd _ _ _ (by simp)]; exact sim_seen c a size m b i h (hbi b)
  | remove b i => rw [newSize_nonadd _ _ _ (by simp)]; exact sim_remove c a size m b i h
  | purge b => rw [newSize_nonadd _ _ _ (by simp)]; exact sim_purge c a size m b h

/-! ### whole executions -/

theorem runMem_append (c : Spec.Store.Cfg) (m : Mem.Mem) (ops : List Spec.Store.Op) (o : Spec.Store.Op) :
    runMem c m (ops ++ [o]) =
      ((Mem.step c (runMem c m ops).1 o).1, (runMem c m ops).2 ++ [(Mem.step c (runMem c m ops).1 o).2]) := by
  induction ops generalizing m with
  | nil => simp [runMem]
  | cons x xs ih => simp [runMem, ih]

/-- the sequential history a concurrent state has executed: its critical sections, in order -/
def St.specOps (s : St) : List Spec.Store.Op := s.lin.map (fun e => specOp e.2.1)

/-- the concurrent state is the abstraction of the sequential memory store after the linearisation order,
    answers and deletions included -/
structure TieInv (c : Cfg) (s : St) : Prop where
  sim : Sim s.abs s.size (runMem (specCfg c) Mem.empty s.specOps).1
  ans : (runMem (specCfg c) Mem.empty s.specOps).2.map (fun x => retOf x.1) = s.lin.map (·.2.2)
  del : ((runMem (specCfg c) Mem.empty s.specOps).2.map (·.2)).flatten = s.removed.map evKey

theorem tieInv_init (c : Cfg) (p) : TieInv c (init p) :=
  ⟨sim_empty _, rfl, rfl⟩

theorem tieInv_extend {c : Cfg} {s s' : St} (w : Who) (o : Op) (h : TieInv c s)
    (hl : s'.lin = s.lin ++ [(w, o, (Atomic.step c s.abs o).2.1)])
    (ha : s'.abs = (Atomic.step c s.abs o).1)
    (hs : s'.size = newSize o (Atomic.step c s.abs o).2.1 s.size)
    (hr : s'.removed = s.removed ++ (Atomic.step c s.abs o).2.2) : TieInv c s' := by
  have hR := (refines_run (specCfg c) s.specOps _ _ (R_empty (specCfg c))).1
  obtain ⟨k1, k2, k3⟩ := sim_step c s.abs s.size _ o h.sim (fun b => hR.boxInv (nm b))
  have e : s'.specOps = s.specOps ++ [specOp o] := by simp [St.specOps, hl]
  refine ⟨?_, ?_, ?_⟩
  · rw [e, runMem_append, ha, hs]; exact k1
  · rw [e, runMem_append, hl]; simp [h.ans, k2]
  · rw [e, runMem_append, hr]; simp [h.del, k3]

theorem tieInv_step {v c s s'} (st : Step v c s s') (h : TieInv c s) : TieInv c s' := by
  cases st with
  | crit t o hp ht => exact tieInv_extend (.cl t) o h rfl rfl rfl rfl
  | evCrit t k hp he =>
    have e := evDelete_is_remove c s k
    refine tieInv_extend .enf (.remove k.1 k.2) h ?_ ?_ ?_ ?_
    · rw [e]; rfl
    · rw [e]; rfl
    · rw [newSize_nonadd _ _ _ (by simp)]; rfl
    · rw [e]; simp only [evDelete]; split <;> simp
  | _ => exact ⟨h.sim, h.ans, h.del⟩

theorem retOf_outRel {o o' : Spec.Store.Out} (h : OutRel o o') : retOf o = retOf o' := by
  cases o <;> cases o' <;> simp_all [OutRel, retOf]

theorem ansAll_proj {l l' : List (Spec.Store.Out × List Spec.Store.Ev)} (h : AnsAll l l') :
    l.map (fun x => retOf x.1) = l'.map (fun x => retOf x.1) ∧ l.map (·.2) = l'.map (·.2) := by
  induction h with
  | nil => exact ⟨rfl, rfl⟩
  | cons hab _ ih =>
    obtain ⟨i1, i2⟩ := ih
    simp only [List.map_cons, i1, i2, retOf_outRel hab.1, hab.2, and_self]

end Ibx.Model.ConcMem
