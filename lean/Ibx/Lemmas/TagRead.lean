import Ibx.Model.TagRead
import Ibx.Lemmas.SanFilter
/- Helper lemmas: the tag reader (Model/TagRead.lean) on what the style filter writes (Model/StyleFilter.serTag). -/
namespace Ibx.Lemmas.TagRead
open Ibx Ibx.Model Ibx.Model.StyleFilter Ibx.Model.TagRead Ibx.Lemmas.SanFilter

/-- a byte that may occur in a tag name / attribute key the tokenizer reports: not white space, `/`, `>` -/
abbrev plain (c : Nat) : Prop := isWS c = false ∧ c ≠ 47 ∧ c ≠ 62

/-- a tag name as the tokenizer reports it: not empty, no white space, `/`, `>` -/
def NameOK (n : Bytes) : Prop := n ≠ [] ∧ ∀ c ∈ n, plain c

/-- an attribute key as the tokenizer reports it: not empty, no white space, `/`, `>`, and `=` at most as first byte -/
def KeyOK (k : Bytes) : Prop := k ≠ [] ∧ (∀ c ∈ k, plain c) ∧ ∀ c ∈ k.tail, c ≠ 61

theorem skipWS_plain {c : Nat} {r : Bytes} (h : isWS c = false) : skipWS (c :: r) = some (c :: r) := by
  simp [skipWS, h]

theorem readName_ws (n r : Bytes) (h : ∀ c ∈ n, plain c) : readName (n ++ 32 :: r) = some (n, r) := by
  induction n with
  | nil => simp [readName, isWS]
  | cons c n ih =>
    obtain ⟨h1, h2, h3⟩ := h c (by simp)
    have := ih (fun x hx => h x (by simp [hx]))
    simp [readName, h1, h2, h3, this]

theorem readName_stop (n r : Bytes) (d : Nat) (hd : d = 47 ∨ d = 62) (h : ∀ c ∈ n, plain c) :
    readName (n ++ d :: r) = some (n, d :: r) := by
  induction n with
  | nil => rcases hd with rfl | rfl <;> simp [readName, isWS]
  | cons c n ih =>
    obtain ⟨h1, h2, h3⟩ := h c (by simp)
    have := ih (fun x hx => h x (by simp [hx]))
    simp [readName, h1, h2, h3, this]

theorem readKey_false (k r : Bytes) (h : ∀ c ∈ k, plain c ∧ c ≠ 61) :
    readKey false (k ++ 61 :: r) = some (k, 61 :: r) := by
  induction k with
  | nil => simp [readKey]
  | cons c k ih =>
    obtain ⟨⟨h1, h2, h3⟩, h4⟩ := h c (by simp)
    have := ih (fun x hx => h x (by simp [hx]))
    simp [readKey, h1, h2, h3, h4, this]

theorem readKey_spec (k r : Bytes) (h : KeyOK k) : readKey true (k ++ 61 :: r) = some (k, 61 :: r) := by
  obtain ⟨hne, hp, ht⟩ := h
  cases k with
  | nil => exact absurd rfl hne
  | cons c k =>
    obtain ⟨h1, h2, h3⟩ := hp c (by simp)
    have := readKey_false k r (fun x hx => ⟨hp x (by simp [hx]), ht x (by simpa using hx)⟩)
    simp [readKey, h1, h2, h3, this]

theorem readUntil_spec (q : Nat) (b r : Bytes) (h : ∀ c ∈ b, c ≠ q) : readUntil q (b ++ q :: r) = some (b, r) := by
  induction b with
  | nil => simp [readUntil]
  | cons c b ih =>
    have hc := h c (by simp)
    have := ih (fun x hx => h x (by simp [hx]))
    simp [readUntil, hc, this]

/-- the value the filter wrote is read back as exactly the escaped bytes -/
theorem readVal_written (v r : Bytes) : readVal (61 :: 34 :: (escape v ++ 34 :: r)) = some (escape v, r) := by
  have hq : ∀ c ∈ escape v, c ≠ 34 := by
    intro c hc
    have := escape_no_break v c hc
    simp [isBreak] at this
    omega
  simp [readVal, skipWS, isWS, readUntil_spec 34 (escape v) r hq]

/-- the closing part of a written tag -/
def closing (sc : Bool) (rest : Bytes) : Bytes := (if sc then [47] else []) ++ 62 :: rest

/-- the input of the attribute loop (after skipWhiteSpace) when `attrs` remain to be read -/
def pending (sc : Bool) (rest : Bytes) : List Attr → Bytes
  | [] => closing sc rest
  | a :: as => a.1 ++ 61 :: 34 :: (escape a.2 ++ 34 :: (as.flatMap serAttr ++ closing sc rest))

theorem skipWS_pending (sc : Bool) (rest : Bytes) (attrs : List Attr) (hk : ∀ a ∈ attrs, KeyOK a.1) :
    skipWS (attrs.flatMap serAttr ++ closing sc rest) = some (pending sc rest attrs) := by
  cases attrs with
  | nil => cases sc <;> simp [closing, pending, skipWS, isWS]
  | cons a as =>
    obtain ⟨hne, hp, _⟩ := hk a (by simp)
    cases hk1 : a.1 with
    | nil => exact absurd hk1 hne
    | cons c k =>
      have hc : isWS c = false := (hp c (by simp [hk1])).1
      have h32 : isWS 32 = true := by decide
      simp [serAttr, pending, skipWS, hk1, hc, h32]

theorem readAttrs_written (sc : Bool) (rest : Bytes) (attrs : List Attr) (hk : ∀ a ∈ attrs, KeyOK a.1) :
    ∀ fuel, attrs.length + 2 ≤ fuel →
      readAttrs fuel (pending sc rest attrs) = some (attrs.map (fun a => (a.1, escape a.2)), rest) := by
  induction attrs with
  | nil =>
    intro fuel hf
    obtain ⟨f, rfl⟩ : ∃ f, fuel = f + 2 := ⟨fuel - 2, by simp at hf; omega⟩
    cases sc <;> simp [pending, closing, readAttrs, readKey, readVal, skipWS, isWS]
  | cons a as ih =>
    intro fuel hf
    obtain ⟨f, rfl⟩ : ∃ f, fuel = f + 1 := ⟨fuel - 1, by simp at hf; omega⟩
    have hka := hk a (by simp)
    obtain ⟨hne, hp, _⟩ := hka
    cases hk1 : a.1 with
    | nil => exact absurd hk1 hne
    | cons c k =>
      have hc62 : c ≠ 62 := (hp c (by simp [hk1])).2.2
      have hkey := readKey_spec a.1 (34 :: (escape a.2 ++ 34 :: (as.flatMap serAttr ++ closing sc rest))) (hk a (by simp))
      rw [hk1] at hkey
      have hval := readVal_written a.2 (as.flatMap serAttr ++ closing sc rest)
      have hws := skipWS_pending sc rest as (fun x hx => hk x (by simp [hx]))
      have hrec := ih (fun x hx => hk x (by simp [hx])) f (by simp at hf ⊢; omega)
      simp only [pending, hk1, List.cons_append, readAttrs, hc62, if_false]
      simp only [List.cons_append] at hkey
      rw [hkey]
      simp only [hval, hws, hrec, Option.map_some, List.map_cons, hk1]
      simp

theorem take_consumed (x rest : Bytes) : (x ++ rest).take ((x ++ rest).length - rest.length) = x := by
  simp

theorem endsSelfClosing_written (sc : Bool) (name : Bytes) (attrs : List Attr) (hn : NameOK name) :
    endsSelfClosing (name ++ attrs.flatMap serAttr ++ (if sc then [47] else []) ++ [62]) = sc := by
  unfold endsSelfClosing
  rw [List.dropLast_concat]
  cases sc with
  | true => simp
  | false =>
    simp only [Bool.false_eq_true, if_false, List.append_nil]
    -- the last byte before `>` is `"` (attributes) or the last byte of the name: never `/`
    rcases List.eq_nil_or_concat attrs with rfl | ⟨as, a, rfl⟩
    · obtain ⟨hne, hp⟩ := hn
      rcases List.eq_nil_or_concat name with rfl | ⟨n, c, rfl⟩
      · exact absurd rfl hne
      · have := (hp c (by simp)).2.1
        simp [this]
    · have h : name ++ (as ++ [a]).flatMap serAttr =
          (name ++ as.flatMap serAttr ++ 32 :: (a.1 ++ [61, 34] ++ escape a.2)) ++ [34] := by
        simp [serAttr, List.flatMap_append]
      rw [List.concat_eq_append, h, List.getLast?_concat]
      simp

theorem flatMap_serAttr_length (attrs : List Attr) : attrs.length ≤ (attrs.flatMap serAttr).length := by
  induction attrs with
  | nil => simp
  | cons a as ih =>
    have h1 : 1 ≤ (serAttr a).length := by simp [serAttr]
    rw [List.flatMap_cons, List.length_append, List.length_cons]
    omega

/-- what follows the name in a written tag, and how the reader gets from there to the attribute loop -/
theorem readName_written (sc : Bool) (name rest : Bytes) (attrs : List Attr) (hn : NameOK name)
    (hk : ∀ a ∈ attrs, KeyOK a.1) :
    ∃ r0, readName (name ++ (attrs.flatMap serAttr ++ closing sc rest)) = some (name, r0) ∧
      skipWS r0 = some (pending sc rest attrs) := by
  cases attrs with
  | nil =>
    refine ⟨closing sc rest, ?_, by simpa using skipWS_pending sc rest [] (by simp)⟩
    cases sc
    · simpa [closing] using readName_stop name rest 62 (Or.inr rfl) hn.2
    · simpa [closing] using readName_stop name (62 :: rest) 47 (Or.inl rfl) hn.2
  | cons a as =>
    refine ⟨pending sc rest (a :: as), ?_, ?_⟩
    · have := readName_ws name (pending sc rest (a :: as)) hn.2
      simpa [serAttr, pending] using this
    · obtain ⟨hne, hp, _⟩ := hk a (by simp)
      cases hk1 : a.1 with
      | nil => exact absurd hk1 hne
      | cons c k =>
        have hc : isWS c = false := (hp c (by simp [hk1])).1
        simp [pending, hk1, skipWS, hc]

/-- **the reader on a written tag** -/
theorem readTag_written (sc : Bool) (name rest : Bytes) (attrs : List Attr) (hn : NameOK name)
    (hk : ∀ a ∈ attrs, KeyOK a.1) :
    readTag ((name ++ attrs.flatMap serAttr ++ (if sc then [47] else []) ++ [62]) ++ rest) =
      some (name, attrs.map (fun a => (a.1, escape a.2)), sc, rest) := by
  have hb : (name ++ attrs.flatMap serAttr ++ (if sc then [47] else []) ++ [62]) ++ rest =
      name ++ (attrs.flatMap serAttr ++ closing sc rest) := by simp [closing]
  obtain ⟨r0, h1, h2⟩ := readName_written sc name rest attrs hn hk
  have hfuel : attrs.length + 2 ≤ (name ++ (attrs.flatMap serAttr ++ closing sc rest)).length := by
    have := flatMap_serAttr_length attrs
    have hnl : 1 ≤ name.length := by
      cases name with
      | nil => exact absurd rfl hn.1
      | cons c n => simp
    simp only [List.length_append, closing, List.length_cons]
    omega
  have h3 := readAttrs_written sc rest attrs hk _ hfuel
  have h4 := endsSelfClosing_written sc name attrs hn
  unfold readTag
  rw [hb, h1]
  simp only [h2, h3]
  rw [← hb, take_consumed, h4]

end Ibx.Lemmas.TagRead
