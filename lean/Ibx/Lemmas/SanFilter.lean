import Ibx.Model.StyleFilter
import Ibx.Lemmas.San
/- Helper lemmas for C18 (the style-tag filter of html.go): escaping, key comparison, loop structure. -/
namespace Ibx.Lemmas.SanFilter
open Ibx Ibx.Model Ibx.Model.GoLower Ibx.Model.StyleFilter

/-! ### x/net/html EscapeString -/

/-- a byte that could end / open something inside a double-quoted attribute value: `"` `'` `<` `>` CR -/
def isBreak (c : Nat) : Bool := c == 34 || c == 39 || c == 60 || c == 62 || c == 13

theorem escB_no_break (c : Nat) : ∀ x ∈ escB c, isBreak x = false := by
  unfold escB
  repeat' split
  all_goals simp [amp, apos, lt, gt, quot, cr, isBreak]
  all_goals omega

theorem escape_no_break (t : Bytes) : ∀ x ∈ escape t, isBreak x = false := by
  intro x hx
  simp only [escape, List.mem_flatMap] at hx
  obtain ⟨c, _, hc⟩ := hx
  exact escB_no_break c x hc

theorem escape_nil : escape [] = [] := rfl
theorem escape_cons (c : Nat) (t : Bytes) : escape (c :: t) = escB c ++ escape t := by simp [escape]
theorem escape_append (a b : Bytes) : escape (a ++ b) = escape a ++ escape b := by simp [escape]

theorem escape_eq_nil {t : Bytes} (h : escape t = []) : t = [] := by
  cases t with
  | nil => rfl
  | cons c t =>
    rw [escape_cons] at h
    have : escB c ≠ [] := by
      unfold escB
      repeat' split
      all_goals simp [amp, apos, lt, gt, quot, cr]
    simp [this] at h

theorem unescape6_escape (t : Bytes) : unescape6 (escape t) = t := by
  induction t with
  | nil => simp [escape, unescape6]
  | cons c t ih =>
    rw [escape_cons]
    unfold escB
    repeat' split
    all_goals simp_all [amp, apos, lt, gt, quot, cr, unescape6]

/-! ### reading a double-quoted value back -/

theorem readQuoted_spec (b rest : Bytes) (h : ∀ x ∈ b, x ≠ 34) :
    readQuoted (b ++ 34 :: rest) = some (b, rest) := by
  induction b with
  | nil => simp [readQuoted]
  | cons c b ih =>
    have hc : c ≠ 34 := h c (by simp)
    have := ih (fun x hx => h x (by simp [hx]))
    simp [readQuoted, hc, this]

/-! ### the key comparison -/

/-- a result of Go's lower-casing that contains neither `i` nor `k` comes from a pure-ASCII input
    (the only two non-ASCII runes that lower-case into ASCII give `i` and `k`) -/
theorem lowerAscii?_no_ik (k : Bytes) : ∀ l, lowerAscii? k = some l → (∀ c ∈ l, c ≠ 105 ∧ c ≠ 107) →
    (∀ c ∈ k, c < 128) ∧ l = Bytes.lower k := by
  fun_induction lowerAscii? k with
  | case1 => intro l h _; simp at h; subst h; simp
  | case2 r ih =>
    intro l h hl
    simp only [Option.map_eq_some_iff] at h
    obtain ⟨l', _, rfl⟩ := h
    exact absurd rfl (hl 105 (by simp)).1
  | case3 r ih =>
    intro l h hl
    simp only [Option.map_eq_some_iff] at h
    obtain ⟨l', _, rfl⟩ := h
    exact absurd rfl (hl 107 (by simp)).2
  | case4 c r _ _ hc ih =>
    intro l h hl
    simp only [Option.map_eq_some_iff] at h
    obtain ⟨l', h', rfl⟩ := h
    obtain ⟨h1, h2⟩ := ih l' h' (fun x hx => hl x (by simp [hx]))
    refine ⟨?_, by simp [h2]⟩
    intro x hx
    simp at hx
    rcases hx with rfl | hx
    · exact hc
    · exact h1 x hx
  | case5 c r _ _ hc => intro l h; simp at h

/-- **the key test accepts exactly the letter-case variants of `style`** (no non-ASCII key passes) -/
theorem isStyleKey_iff (k : Bytes) :
    isStyleKey k = true ↔ (∀ c ∈ k, c < 128) ∧ Bytes.lower k = styleKey := by
  constructor
  · intro h
    simp only [isStyleKey, beq_iff_eq] at h
    obtain ⟨h1, h2⟩ := lowerAscii?_no_ik k styleKey h (by decide)
    exact ⟨h1, h2.symm⟩
  · rintro ⟨h1, h2⟩
    simp [isStyleKey, lowerAscii?_ascii k h1, h2]

/-! ### the loop -/

section
variable (scan : Bytes → List Css.Token)

/-- the `eof` flag of the first ErrorToken of the stream (`none`: the list has none, which stands for io.EOF) -/
def firstError : List Tok → Option Bool
  | [] => none
  | .error eof _ :: _ => some eof
  | _ :: ts => firstError ts

theorem emit_eq_raw (t : Tok) (h : t.isError = false) : emit scan t = (outTok scan t).raw := by
  cases t with
  | startTag sc raw name attrs =>
    simp only [emit, outTok]
    split <;> simp [Tok.raw]
  | error eof raw => simp [Tok.isError] at h
  | _ => simp [emit, outTok, Tok.raw]

theorem filter_eq (ts : List Tok) :
    filter scan ts = if firstError ts = some false then none else some ((live ts).flatMap (emit scan)) := by
  induction ts with
  | nil => simp [filter, firstError, live]
  | cons t ts ih =>
    cases t with
    | error eof raw => cases eof <;> simp [filter, firstError, live, Tok.isError]
    | _ =>
      simp only [filter, firstError, ih, live, Tok.isError, List.takeWhile_cons, Bool.not_false, if_true]
      split <;> simp

theorem filter_cut (pre rest : List Tok) (eof : Bool) (raw : Bytes) :
    filter scan (pre ++ .error eof raw :: rest) = filter scan (pre ++ [.error eof raw]) := by
  induction pre with
  | nil => simp [filter]
  | cons t pre ih =>
    cases t with
    | error e r => simp [filter]
    | _ => simp only [List.cons_append, filter, ih]

theorem rewriteAttrs_cons (a : Attr) (as : List Attr) :
    rewriteAttrs scan (a :: as) = (rewriteAttr scan a).toList ++ rewriteAttrs scan as := by
  simp only [rewriteAttrs, List.filterMap_cons]
  cases rewriteAttr scan a <;> simp

theorem rewriteAttr_key {a b : Attr} (h : rewriteAttr scan a = some b) : b.1 = a.1 := by
  unfold rewriteAttr at h
  split at h
  · split at h
    · simp at h
    · simp at h; rw [← h]
  · simp at h; rw [h]

end
end Ibx.Lemmas.SanFilter
