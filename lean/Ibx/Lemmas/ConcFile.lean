import Ibx.Model.ConcFile
/- Invariants of the VisitMailboxes race model. -/
namespace Ibx.Model.ConcFile

theorem no_fail_step {keep s s'} (st : Step .tolerated keep s s') (h : s.vpc ≠ .failed) : s'.vpc ≠ .failed := by
  cases st <;> simp_all [onFail]

/-- the mailbox `m` is still ahead of the visitor -/
def Will (m : Mb) : VPC → Prop
  | .start => True
  | .l1 r1 => m.d1 ∈ r1
  | .l2 d1 r2 r1 => (m.d1 = d1 ∧ m.d2 ∈ r2) ∨ m.d1 ∈ r1
  | .l3 d1 d2 r3 r2 r1 => m ∈ r3 ∨ (m.d1 = d1 ∧ m.d2 ∈ r2) ∨ m.d1 ∈ r1
  | .done => False
  | .failed => True

structure Stable (m : Mb) (s : St) : Prop where
  i : m ∈ s.fs.idx
  b : m ∈ s.fs.mbs
  p2 : (m.d1, m.d2) ∈ s.fs.d2s
  p1 : m.d1 ∈ s.fs.d1s
  w : (m, true) ∈ s.reported ∨ Will m s.vpc

theorem stable_step {keep s s'} {m : Mb} (hk : keep m = true) (st : Step .tolerated keep s s') (h : Stable m s) :
    Stable m s' := by
  obtain ⟨hi, hb, h2, h1, hw⟩ := h
  cases st with
  | vRoot hv => exact ⟨hi, hb, h2, h1, by rcases hw with q | q; exact Or.inl q; exact Or.inr (by simpa [Will] using h1)⟩
  | vL1done hv => refine ⟨hi, hb, h2, h1, ?_⟩; rcases hw with q | q; exact Or.inl q; rw [hv] at q; simp [Will] at q
  | vL1ok a r hv ha =>
    refine ⟨hi, hb, h2, h1, ?_⟩
    rcases hw with q | q
    · exact Or.inl q
    · right; rw [hv] at q; simp only [Will, List.mem_cons] at q ⊢
      rcases q with q | q
      · left; refine ⟨q, ?_⟩
        simp only [List.mem_map, List.mem_filter]
        exact ⟨(m.d1, m.d2), ⟨h2, by simp [q]⟩, rfl⟩
      · exact Or.inr q
  | vL1enoent a r hv ha =>
    refine ⟨hi, hb, h2, h1, ?_⟩
    rcases hw with q | q
    · exact Or.inl q
    · right; rw [hv] at q; simp only [Will, List.mem_cons, onFail, if_true] at q ⊢
      rcases q with q | q
      · exact absurd (q ▸ h1) ha
      · exact q
  | vL2done d1 r1 hv =>
    refine ⟨hi, hb, h2, h1, ?_⟩
    rcases hw with q | q
    · exact Or.inl q
    · right; rw [hv] at q; simpa [Will] using q
  | vL2ok d1 b r2 r1 hv hb2 =>
    refine ⟨hi, hb, h2, h1, ?_⟩
    rcases hw with q | q
    · exact Or.inl q
    · right; rw [hv] at q; simp only [Will, List.mem_cons] at q ⊢
      rcases q with ⟨q1, q2 | q2⟩ | q
      · left; simp [List.mem_filter, hb, q1, q2]
      · exact Or.inr (Or.inl ⟨q1, q2⟩)
      · exact Or.inr (Or.inr q)
  | vL2enoent d1 b r2 r1 hv hb2 =>
    refine ⟨hi, hb, h2, h1, ?_⟩
    rcases hw with q | q
    · exact Or.inl q
    · right; rw [hv] at q; simp only [Will, List.mem_cons, onFail, if_true] at q ⊢
      rcases q with ⟨q1, q2 | q2⟩ | q
      · exact absurd (q1 ▸ q2 ▸ h2) hb2
      · exact Or.inl ⟨q1, q2⟩
      · exact Or.inr q
  | vL3done d1 d2 r2 r1 hv =>
    refine ⟨hi, hb, h2, h1, ?_⟩
    rcases hw with q | q
    · exact Or.inl q
    · right; rw [hv] at q; simpa [Will] using q
  | vRead d1 d2 m' r3 r2 r1 hv hl =>
    refine ⟨hi, hb, h2, h1, ?_⟩
    rcases hw with q | q
    · exact Or.inl (List.mem_append_left _ q)
    · rw [hv] at q; simp only [Will, List.mem_cons] at q
      rcases q with (q | q) | q
      · left; subst q; simp [hi]
      · exact Or.inr (by simp [Will, q])
      · exact Or.inr (by simp only [Will]; exact Or.inr q)
  | eLock d hd => exact ⟨hi, hb, h2, h1, hw⟩
  | eUnlock d hd => exact ⟨hi, hb, h2, h1, hw⟩
  | eMkD1 d hd hn => exact ⟨hi, hb, h2, List.mem_cons_of_mem _ h1, hw⟩
  | eMkD2 d b hd h1' hn => exact ⟨hi, hb, List.mem_cons_of_mem _ h2, h1, hw⟩
  | eMkMb m' hd hp hn => exact ⟨hi, List.mem_cons_of_mem _ hb, h2, h1, hw⟩
  | eWriteIdx m' hd hp hn => exact ⟨List.mem_cons_of_mem _ hi, hb, h2, h1, hw⟩
  | eRmIdx m' hd hk' =>
    have hne : m ≠ m' := fun e => by subst e; simp [hk] at hk'
    exact ⟨by simp [List.mem_filter, hi, hne], hb, h2, h1, hw⟩
  | eRmMb m' hd hk' =>
    have hne : m ≠ m' := fun e => by subst e; simp [hk] at hk'
    exact ⟨by simp [List.mem_filter, hi, hne], by simp [List.mem_filter, hb, hne], h2, h1, hw⟩
  | eRmD2 d b hd he =>
    have hne : (m.d1, m.d2) ≠ (d, b) := fun e => he m hb (by simpa using e)
    exact ⟨hi, hb, by simp [List.mem_filter, h2, hne], h1, hw⟩
  | eRmD1 d hd he =>
    have hne : m.d1 ≠ d := fun e => he _ h2 e
    exact ⟨hi, hb, h2, by simp [List.mem_filter, h1, hne], hw⟩

end Ibx.Model.ConcFile
