import Ibx.Lemmas.ConcMemPend
/-
  The enforcer's byte ACCOUNTING under concurrency (pkg/storage/mem/maxsize.go).

  `counted` (ghost) lists the messages whose size is currently included in `curSize`.  In every reachable state
      cur = Σ size over counted,
      all ⊆ counted, both duplicate free,
      a counted message that is not in `all` was popped by the eviction loop and either the eviction is still
      in flight (it will subtract) or the message had already been deleted from its map by a client whose
      enforcerRemove is still pending (that call will subtract — `all.Remove` of an unlinked element returns
      its value, so the `remove` case subtracts exactly once),
  and the messages in the maps are exactly those in `all`, apart from deliveries whose registration is still
  pending and removals whose enforcerRemove is still pending.  Needs the rendezvous discipline `PendInv`
  (each enforcerRemove / enforcerDeliver is issued exactly once per message).
-/
namespace Ibx.Model.ConcMem

def sumSize (size : Key → Nat) (l : List Key) : Int := (l.map (fun k => (size k : Int))).sum

@[simp] theorem sumSize_nil (size : Key → Nat) : sumSize size [] = 0 := rfl
@[simp] theorem sumSize_cons (size : Key → Nat) (k : Key) (l : List Key) :
    sumSize size (k :: l) = (size k : Int) + sumSize size l := by simp [sumSize]

theorem sumSize_erase (size : Key → Nat) (k : Key) : ∀ (l : List Key), k ∈ l →
    sumSize size (l.erase k) = sumSize size l - (size k : Int) := by
  intro l
  induction l with
  | nil => intro h; cases h
  | cons x xs ih =>
    intro h
    by_cases e : x = k
    · subst e; simp; omega
    · have hk : k ∈ xs := by
        rcases List.mem_cons.mp h with q | q
        · exact absurd q.symm e
        · exact q
      have : (x == k) = false := by simpa using e
      rw [List.erase_cons, this]
      simp only [Bool.false_eq_true, if_false, sumSize_cons, ih hk]; omega

theorem sumSize_upd (size : Key → Nat) (k : Key) (v : Nat) (l : List Key) (h : k ∉ l) :
    sumSize (upd size k v) l = sumSize size l := by
  induction l with
  | nil => rfl
  | cons x xs ih =>
    have hx : x ≠ k := fun e => h (e ▸ List.mem_cons_self)
    have hxs : k ∉ xs := fun e => h (List.mem_cons_of_mem _ e)
    simp [upd, hx, ih hxs]

theorem sumSize_nonneg (size : Key → Nat) (l : List Key) : 0 ≤ sumSize size l := by
  induction l with
  | nil => simp
  | cons x xs ih => simp only [sumSize_cons]; omega

/-- an enforcerRemove for `k` is still to be processed (queued in a todo list, or handed over) -/
def hasRem (s : St) (k : Key) : Prop := (∃ t, Instr.rem k ∈ todoPC (s.thr t)) ∨ ∃ t, s.epc = .rem t k
/-- the enforcerDeliver (registration) of `k` is still to be processed -/
def hasInc (s : St) (k : Key) : Prop := (∃ t, Instr.inc k ∈ todoPC (s.thr t)) ∨ ∃ t, s.epc = .inc t k
/-- the eviction loop has popped `k` from `all` and has not yet run removeMessage's critical section -/
def evPre (s : St) (k : Key) : Prop :=
  ∃ t, s.epc = .evLockS t k ∨ s.epc = .evUnlockS t k ∨ s.epc = .evLockB t k ∨ s.epc = .evCrit t k
/-- … has run it (`f` = the message was still there) and has not yet done the arithmetic -/
def evPost (s : St) (k : Key) (f : Bool) : Prop := ∃ t, s.epc = .evUnlockB t k f
/-- the enforcer is in its `select`, or handling a request outside the eviction loop -/
def outsideLoop (e : EPC) : Prop := e = .idle ∨ (∃ t, e = .fin t) ∨ (∃ t k, e = .inc t k) ∨ ∃ t k, e = .rem t k

structure Acct (c : Cfg) (s : St) : Prop where
  sum : s.cur = sumSize s.size s.counted
  cnd : s.counted.Nodup
  and : s.all.Nodup
  sub : ∀ k ∈ s.all, k ∈ s.counted
  cel : ∀ k ∈ s.counted, s.el k = true
  elc : ∀ k, s.el k = true → hasRem s k → k ∈ s.counted
  wher : ∀ k ∈ s.counted, k ∈ s.all ∨ evPre s k ∨ evPost s k true ∨ hasRem s k
  alive : ∀ k ∈ s.counted, live s.abs k ∨ hasRem s k ∨ evPost s k true
  evc : ∀ k, (evPre s k ∨ ∃ f, evPost s k f) → k ∈ s.counted ∧ k ∉ s.all
  postF : ∀ k, evPost s k false → hasRem s k
  postT : ∀ k, evPost s k true → ¬ live s.abs k ∧ ¬ hasRem s k
  d1 : ∀ k, hasInc s k → ¬ live s.abs k → s.gone k = false → hasRem s k
  lv : ∀ k, live s.abs k → k ∈ s.all ∨ hasInc s k ∨ evPre s k
  q : outsideLoop s.epc → s.cur ≤ (c.limit : Int) ∨ s.all = []

theorem acct_init (c : Cfg) (p) : Acct c (init p) := by
  refine ⟨rfl, by simp [init], by simp [init], by simp [init], by simp [init], ?_, by simp [init], by simp [init],
    ?_, ?_, ?_, ?_, ?_, ?_⟩
  · intro k _ h; simp [hasRem, init, todoPC] at h
  · intro k h; simp [evPre, evPost, init] at h
  · intro k h; simp [evPost, init] at h
  · intro k h; simp [evPost, init] at h
  · intro k h; simp [hasInc, init, todoPC] at h
  · intro k h; simp [live, St.abs, init, AS.empty] at h
  · intro _; left; simp [init]

/-- a step that leaves the enforcer's data and the maps alone; pending requests may be consumed if they were
    void (a registration of a message already gone, a removal of a message never registered) -/
theorem Acct.transfer' {c : Cfg} {s s' : St} (h : Acct c s) (hP : PendInv s)
    (h1 : s'.cur = s.cur) (h2 : s'.counted = s.counted) (h3 : s'.all = s.all) (h4 : s'.el = s.el)
    (h5 : ∀ k, s'.gone k = false → s.gone k = false) (h6 : s'.size = s.size) (h7 : s'.boxes = s.boxes)
    (hR1 : ∀ k, hasRem s' k → hasRem s k)
    (hR2 : ∀ k, hasRem s k → hasRem s' k ∨ (k ∉ s.counted ∧ s'.gone k = true))
    (hI1 : ∀ k, hasInc s' k → hasInc s k) (hI2 : ∀ k, live s.abs k → hasInc s k → hasInc s' k)
    (hpre : ∀ k, evPre s' k ↔ evPre s k) (hpost : ∀ k f, evPost s' k f ↔ evPost s k f)
    (hq : outsideLoop s'.epc → outsideLoop s.epc ∨ s.cur ≤ (c.limit : Int) ∨ s.all = []) : Acct c s' := by
  have hl : ∀ k, live s'.abs k ↔ live s.abs k := live_congr h7
  have hR3 : ∀ k, k ∈ s.counted → hasRem s k → hasRem s' k := by
    intro k hk hr
    rcases hR2 k hr with q | q
    · exact q
    · exact absurd hk q.1
  refine ⟨?_, ?_, ?_, ?_, ?_, ?_, ?_, ?_, ?_, ?_, ?_, ?_, ?_, ?_⟩
  · rw [h1, h2, h6]; exact h.sum
  · rw [h2]; exact h.cnd
  · rw [h3]; exact h.and
  · rw [h2, h3]; exact h.sub
  · rw [h2, h4]; exact h.cel
  · intro k hk hr; rw [h4] at hk; rw [h2]; exact h.elc k hk (hR1 k hr)
  · intro k hk
    rw [h2] at hk; rw [h3, hpre, hpost]
    rcases h.wher k hk with q | q | q | q
    · exact Or.inl q
    · exact Or.inr (Or.inl q)
    · exact Or.inr (Or.inr (Or.inl q))
    · exact Or.inr (Or.inr (Or.inr (hR3 k hk q)))
  · intro k hk
    rw [h2] at hk; rw [hl, hpost]
    rcases h.alive k hk with q | q | q
    · exact Or.inl q
    · exact Or.inr (Or.inl (hR3 k hk q))
    · exact Or.inr (Or.inr q)
  · intro k; rw [h2, h3, hpre]; simp only [hpost]; exact h.evc k
  · intro k hk
    rw [hpost] at hk
    exact hR3 k (h.evc k (Or.inr ⟨false, hk⟩)).1 (h.postF k hk)
  · intro k hk
    rw [hpost] at hk; rw [hl]
    exact ⟨(h.postT k hk).1, fun hr => (h.postT k hk).2 (hR1 k hr)⟩
  · intro k hi hd hg
    rw [hl] at hd
    rcases hR2 k (h.d1 k (hI1 k hi) hd (h5 k hg)) with q | q
    · exact q
    · rw [hg] at q; cases q.2
  · intro k hk
    rw [hl] at hk; rw [h3, hpre]
    rcases h.lv k hk with q | q | q
    · exact Or.inl q
    · exact Or.inr (Or.inl (hI2 k hk q))
    · exact Or.inr (Or.inr q)
  · intro ho
    rw [h1, h3]
    rcases hq ho with q | q
    · exact h.q q
    · exact q

/-- a step that leaves the enforcer's data and the maps alone and keeps what is pending -/
theorem Acct.transfer {c : Cfg} {s s' : St} (h : Acct c s) (hP : PendInv s)
    (h1 : s'.cur = s.cur) (h2 : s'.counted = s.counted) (h3 : s'.all = s.all) (h4 : s'.el = s.el)
    (h5 : s'.gone = s.gone) (h6 : s'.size = s.size) (h7 : s'.boxes = s.boxes)
    (hR : ∀ k, hasRem s' k ↔ hasRem s k) (hI : ∀ k, hasInc s' k ↔ hasInc s k)
    (hpre : ∀ k, evPre s' k ↔ evPre s k) (hpost : ∀ k f, evPost s' k f ↔ evPost s k f)
    (hq : outsideLoop s'.epc → outsideLoop s.epc ∨ s.cur ≤ (c.limit : Int) ∨ s.all = []) : Acct c s' :=
  h.transfer' hP h1 h2 h3 h4 (fun k hk => by rw [h5] at hk; exact hk) h6 h7 (fun k => (hR k).1)
    (fun k hr => Or.inl ((hR k).2 hr)) (fun k => (hI k).1) (fun k _ => (hI k).2) hpre hpost hq

theorem mem_upd_same {thr : Nat → PC} {t : Nat} {pc : PC} (e : todoPC pc = todoPC (thr t)) (x : Instr) (t' : Nat) :
    x ∈ todoPC (upd thr t pc t') ↔ x ∈ todoPC (thr t') := by rw [todo_upd_same e]

theorem mem_upd_pop {thr : Nat → PC} {t : Nat} {pc : PC} {y : Instr} (e : todoPC (thr t) = y :: todoPC pc) {x : Instr}
    (hx : x ≠ y) (t' : Nat) : x ∈ todoPC (upd thr t pc t') ↔ x ∈ todoPC (thr t') := by
  by_cases h : t' = t
  · subst h; simp [e, hx]
  · simp [upd, h]

theorem evPre_of_epc {s s' : St} (h : s'.epc = s.epc) (k : Key) : evPre s' k ↔ evPre s k := by simp [evPre, h]
theorem evPost_of_epc {s s' : St} (h : s'.epc = s.epc) (k : Key) (f : Bool) : evPost s' k f ↔ evPost s k f := by
  simp [evPost, h]

/-! ### the enforcer's own steps -/

theorem acct_loopEvict {c : Cfg} {s : St} (t : Nat) (k0 : Key) (rest : List Key) (he : s.epc = .loop t)
    (ha : s.all = k0 :: rest) (h : Acct c s) : Acct c { s with all := rest, epc := .evLockS t k0 } := by
  have hnd := h.and; rw [ha, List.nodup_cons] at hnd
  have hR : ∀ k, hasRem { s with all := rest, epc := .evLockS t k0 } k ↔ hasRem s k := by intro k; simp [hasRem, he]
  have hI : ∀ k, hasInc { s with all := rest, epc := .evLockS t k0 } k ↔ hasInc s k := by intro k; simp [hasInc, he]
  have hpre : ∀ k, evPre { s with all := rest, epc := .evLockS t k0 } k ↔ k = k0 := by
    intro k; simp [evPre]; exact eq_comm
  have hpre0 : ∀ k, ¬ evPre s k := by intro k; simp [evPre, he]
  have hpost : ∀ k f, ¬ evPost { s with all := rest, epc := .evLockS t k0 } k f := by intro k f; simp [evPost]
  have hpost0 : ∀ k f, ¬ evPost s k f := by intro k f; simp [evPost, he]
  refine ⟨h.sum, h.cnd, hnd.2, ?_, h.cel, ?_, ?_, ?_, ?_, ?_, ?_, ?_, ?_, ?_⟩
  · intro k hk; exact h.sub k (by rw [ha]; exact List.mem_cons_of_mem _ hk)
  · intro k hk hr; exact h.elc k hk ((hR k).1 hr)
  · intro k hk
    rcases h.wher k hk with q | q | q | q
    · rw [ha] at q
      rcases List.mem_cons.mp q with q | q
      · exact Or.inr (Or.inl ((hpre k).2 q))
      · exact Or.inl q
    · exact absurd q (hpre0 k)
    · exact absurd q (hpost0 k _)
    · exact Or.inr (Or.inr (Or.inr ((hR k).2 q)))
  · intro k hk
    rcases h.alive k hk with q | q | q
    · exact Or.inl q
    · exact Or.inr (Or.inl ((hR k).2 q))
    · exact absurd q (hpost0 k _)
  · intro k hk
    rcases hk with hk | ⟨f, hk⟩
    · rw [(hpre k).1 hk]
      exact ⟨h.sub k0 (by rw [ha]; exact List.mem_cons_self), hnd.1⟩
    · exact absurd hk (hpost k f)
  · intro k hk; exact absurd hk (hpost k _)
  · intro k hk; exact absurd hk (hpost k _)
  · intro k hi hd hg; exact (hR k).2 (h.d1 k ((hI k).1 hi) hd hg)
  · intro k hk
    rcases h.lv k hk with q | q | q
    · rw [ha] at q
      rcases List.mem_cons.mp q with q | q
      · exact Or.inr (Or.inr ((hpre k).2 q))
      · exact Or.inl q
    · exact Or.inr (Or.inl ((hI k).2 q))
    · exact absurd q (hpre0 k)
  · intro ho; simp [outsideLoop] at ho

theorem acct_incReg {c : Cfg} {s : St} (t : Nat) (k0 : Key) (he : s.epc = .inc t k0) (hg : s.gone k0 = false)
    (hP : PendInv s) (h : Acct c s) :
    Acct c { s with all := s.all ++ [k0], el := upd s.el k0 true, cur := s.cur + (s.size k0 : Int),
                    counted := k0 :: s.counted, epc := .loop t } := by
  have hel0 : s.el k0 = false := (hP.incE k0 t he).1
  have hnc : k0 ∉ s.counted := fun hc => by have := h.cel k0 hc; rw [hel0] at this; cases this
  have hna : k0 ∉ s.all := fun hc => hnc (h.sub k0 hc)
  have hnt : ∀ t', Instr.inc k0 ∉ todoPC (s.thr t') := fun t' => hP.sntI k0 t t' he
  have hR : ∀ k, hasRem { s with all := s.all ++ [k0], el := upd s.el k0 true, cur := s.cur + (s.size k0 : Int), counted := k0 :: s.counted, epc := .loop t } k ↔ hasRem s k := by intro k; simp [hasRem, he]
  have hI : ∀ k, hasInc { s with all := s.all ++ [k0], el := upd s.el k0 true, cur := s.cur + (s.size k0 : Int), counted := k0 :: s.counted, epc := .loop t } k ↔ ∃ t', Instr.inc k ∈ todoPC (s.thr t') := by
    intro k; simp [hasInc]
  have hpre0 : ∀ k, ¬ evPre s k := by intro k; simp [evPre, he]
  have hpost0 : ∀ k f, ¬ evPost s k f := by intro k f; simp [evPost, he]
  refine ⟨?_, ?_, ?_, ?_, ?_, ?_, ?_, ?_, ?_, ?_, ?_, ?_, ?_, ?_⟩
  · simp only [sumSize_cons]; have := h.sum; omega
  · exact List.nodup_cons.mpr ⟨hnc, h.cnd⟩
  · rw [List.nodup_append]
    refine ⟨h.and, by simp, ?_⟩
    intro a ha b hb; simp at hb; subst hb; exact fun e => hna (e ▸ ha)
  · intro k hk
    simp only [List.mem_append, List.mem_singleton] at hk
    rcases hk with hk | hk
    · exact List.mem_cons_of_mem _ (h.sub k hk)
    · subst hk; exact List.mem_cons_self
  · intro k hk
    by_cases e : k = k0
    · subst e; simp [upd]
    · have : k ∈ s.counted := by simpa [e] using hk
      simpa [upd, e] using h.cel k this
  · intro k hk hr
    by_cases e : k = k0
    · subst e; exact List.mem_cons_self
    · exact List.mem_cons_of_mem _ (h.elc k (by simpa [upd, e] using hk) ((hR k).1 hr))
  · intro k hk
    by_cases e : k = k0
    · subst e; left; simp
    · have hk' : k ∈ s.counted := by simpa [e] using hk
      rcases h.wher k hk' with q | q | q | q
      · left; exact List.mem_append_left _ q
      · exact absurd q (hpre0 k)
      · exact absurd q (hpost0 k _)
      · exact Or.inr (Or.inr (Or.inr ((hR k).2 q)))
  · intro k hk
    by_cases e : k = k0
    · subst e
      by_cases hlv : live s.abs k
      · exact Or.inl hlv
      · exact Or.inr (Or.inl ((hR k).2 (h.d1 k (Or.inr ⟨t, he⟩) hlv hg)))
    · have hk' : k ∈ s.counted := by simpa [e] using hk
      rcases h.alive k hk' with q | q | q
      · exact Or.inl q
      · exact Or.inr (Or.inl ((hR k).2 q))
      · exact absurd q (hpost0 k _)
  · intro k hk; simp [evPre, evPost] at hk
  · intro k hk; simp [evPost] at hk
  · intro k hk; simp [evPost] at hk
  · intro k hi hd hg'
    obtain ⟨t', ht'⟩ := (hI k).1 hi
    exact (hR k).2 (h.d1 k (Or.inl ⟨t', ht'⟩) hd hg')
  · intro k hk
    rcases h.lv k hk with q | q | q
    · left; exact List.mem_append_left _ q
    · rcases q with q | ⟨t', q⟩
      · exact Or.inr (Or.inl ((hI k).2 q))
      · rw [he] at q; injection q with _ e2; subst e2; left; simp
    · exact absurd q (hpre0 k)
  · intro ho; simp [outsideLoop] at ho

theorem acct_evUnlockB {c : Cfg} {s : St} (t : Nat) (k0 : Key) (f : Bool) (he : s.epc = .evUnlockB t k0 f)
    (w : Nat → Option Who) (h : Acct c s) :
    Acct c { s with wlock := w, cur := if f then s.cur - (s.size k0 : Int) else s.cur,
                    counted := if f then s.counted.erase k0 else s.counted, epc := .loop t } := by
  have hc0 := (h.evc k0 (Or.inr ⟨f, t, he⟩))
  have hpre0 : ∀ k, ¬ evPre s k := by intro k; simp [evPre, he]
  have hpost0 : ∀ k, evPost s k true → k = k0 ∧ f = true := by
    intro k hk; obtain ⟨t', hk⟩ := hk; rw [he] at hk; injection hk with _ e2 e3; exact ⟨e2.symm, e3⟩
  cases f with
  | false =>
    have hR : ∀ k, hasRem { s with wlock := w, cur := s.cur, counted := s.counted, epc := .loop t } k ↔ hasRem s k := by
      intro k; simp [hasRem, he]
    have hI : ∀ k, hasInc { s with wlock := w, cur := s.cur, counted := s.counted, epc := .loop t } k ↔ hasInc s k := by
      intro k; simp [hasInc, he]
    refine ⟨h.sum, h.cnd, h.and, h.sub, h.cel, ?_, ?_, ?_, ?_, ?_, ?_, ?_, ?_, ?_⟩
    · intro k hk hr; exact h.elc k hk ((hR k).1 hr)
    · intro k hk
      rcases h.wher k hk with q | q | q | q
      · exact Or.inl q
      · exact absurd q (hpre0 k)
      · have := (hpost0 k q).2; cases this
      · exact Or.inr (Or.inr (Or.inr ((hR k).2 q)))
    · intro k hk
      rcases h.alive k hk with q | q | q
      · exact Or.inl q
      · exact Or.inr (Or.inl ((hR k).2 q))
      · have := (hpost0 k q).2; cases this
    · intro k hk; simp [evPre, evPost] at hk
    · intro k hk; simp [evPost] at hk
    · intro k hk; simp [evPost] at hk
    · intro k hi hd hg; exact (hR k).2 (h.d1 k ((hI k).1 hi) hd hg)
    · intro k hk
      rcases h.lv k hk with q | q | q
      · exact Or.inl q
      · exact Or.inr (Or.inl ((hI k).2 q))
      · exact absurd q (hpre0 k)
    · intro ho; simp [outsideLoop] at ho
  | true =>
    have hpt := h.postT k0 ⟨t, he⟩
    have hR : ∀ k, hasRem { s with wlock := w, cur := s.cur - (s.size k0 : Int), counted := s.counted.erase k0, epc := .loop t } k ↔ hasRem s k := by
      intro k; simp [hasRem, he]
    have hI : ∀ k, hasInc { s with wlock := w, cur := s.cur - (s.size k0 : Int), counted := s.counted.erase k0, epc := .loop t } k ↔ hasInc s k := by
      intro k; simp [hasInc, he]
    have hme : ∀ k, k ∈ s.counted.erase k0 ↔ k ≠ k0 ∧ k ∈ s.counted := fun k => h.cnd.mem_erase_iff
    refine ⟨?_, h.cnd.erase k0, h.and, ?_, ?_, ?_, ?_, ?_, ?_, ?_, ?_, ?_, ?_, ?_⟩
    · simp only [if_true]; rw [sumSize_erase _ _ _ hc0.1]; have := h.sum; omega
    · intro k hk
      simp only [if_true]; rw [hme]
      exact ⟨fun e => hc0.2 (e ▸ hk), h.sub k hk⟩
    · intro k hk; simp only [if_true] at hk; exact h.cel k ((hme k).1 hk).2
    · intro k hk hr
      simp only [if_true]; rw [hme]
      have hr' := (hR k).1 hr
      exact ⟨fun e => hpt.2 (e ▸ hr'), h.elc k hk hr'⟩
    · intro k hk
      simp only [if_true] at hk
      obtain ⟨hne, hk'⟩ := (hme k).1 hk
      rcases h.wher k hk' with q | q | q | q
      · exact Or.inl q
      · exact absurd q (hpre0 k)
      · exact absurd (hpost0 k q).1 hne
      · exact Or.inr (Or.inr (Or.inr ((hR k).2 q)))
    · intro k hk
      simp only [if_true] at hk
      obtain ⟨hne, hk'⟩ := (hme k).1 hk
      rcases h.alive k hk' with q | q | q
      · exact Or.inl q
      · exact Or.inr (Or.inl ((hR k).2 q))
      · exact absurd (hpost0 k q).1 hne
    · intro k hk; simp [evPre, evPost] at hk
    · intro k hk; simp [evPost] at hk
    · intro k hk; simp [evPost] at hk
    · intro k hi hd hg; exact (hR k).2 (h.d1 k ((hI k).1 hi) hd hg)
    · intro k hk
      rcases h.lv k hk with q | q | q
      · exact Or.inl q
      · exact Or.inr (Or.inl ((hI k).2 q))
      · exact absurd q (hpre0 k)
    · intro ho; simp [outsideLoop] at ho

theorem acct_remUnlink {c : Cfg} {s : St} (t : Nat) (k0 : Key) (he : s.epc = .rem t k0) (hel : s.el k0 = true)
    (hP : PendInv s) (h : Acct c s) :
    Acct c { s with all := s.all.filter (· != k0), cur := s.cur - (s.size k0 : Int),
                    counted := s.counted.erase k0, epc := .fin t } := by
  have hc0 : k0 ∈ s.counted := h.elc k0 hel (Or.inr ⟨t, he⟩)
  have hnt : ∀ t', Instr.rem k0 ∉ todoPC (s.thr t') := fun t' => hP.sntR k0 t t' he
  have hdead : ¬ live s.abs k0 := (hP.remE k0 t he).1
  have hR : ∀ k, hasRem { s with all := s.all.filter (· != k0), cur := s.cur - (s.size k0 : Int), counted := s.counted.erase k0, epc := .fin t } k ↔ ∃ t', Instr.rem k ∈ todoPC (s.thr t') := by
    intro k; simp [hasRem]
  have hR2 : ∀ k, k ≠ k0 → hasRem s k → ∃ t', Instr.rem k ∈ todoPC (s.thr t') := by
    intro k hne hr
    rcases hr with hr | ⟨t', hr⟩
    · exact hr
    · rw [he] at hr; injection hr with _ e2; exact absurd e2.symm hne
  have hI : ∀ k, hasInc { s with all := s.all.filter (· != k0), cur := s.cur - (s.size k0 : Int), counted := s.counted.erase k0, epc := .fin t } k ↔ hasInc s k := by
    intro k; simp [hasInc, he]
  have hpre0 : ∀ k, ¬ evPre s k := by intro k; simp [evPre, he]
  have hpost0 : ∀ k f, ¬ evPost s k f := by intro k f; simp [evPost, he]
  have hme : ∀ k, k ∈ s.counted.erase k0 ↔ k ≠ k0 ∧ k ∈ s.counted := fun k => h.cnd.mem_erase_iff
  have hmf : ∀ k, k ∈ s.all.filter (· != k0) ↔ k ∈ s.all ∧ k ≠ k0 := by intro k; simp [List.mem_filter]
  refine ⟨?_, h.cnd.erase k0, h.and.sublist List.filter_sublist, ?_, ?_, ?_, ?_, ?_, ?_, ?_, ?_, ?_, ?_, ?_⟩
  · show s.cur - (s.size k0 : Int) = sumSize s.size (s.counted.erase k0)
    rw [sumSize_erase _ _ _ hc0]; have := h.sum; omega
  · intro k hk
    obtain ⟨h1, h2⟩ := (hmf k).1 hk
    exact (hme k).2 ⟨h2, h.sub k h1⟩
  · intro k hk; exact h.cel k ((hme k).1 hk).2
  · intro k hk hr
    obtain ⟨t', ht'⟩ := (hR k).1 hr
    have hne : k ≠ k0 := fun e => hnt t' (e ▸ ht')
    exact (hme k).2 ⟨hne, h.elc k hk (Or.inl ⟨t', ht'⟩)⟩
  · intro k hk
    obtain ⟨hne, hk'⟩ := (hme k).1 hk
    rcases h.wher k hk' with q | q | q | q
    · exact Or.inl ((hmf k).2 ⟨q, hne⟩)
    · exact absurd q (hpre0 k)
    · exact absurd q (hpost0 k _)
    · exact Or.inr (Or.inr (Or.inr ((hR k).2 (hR2 k hne q))))
  · intro k hk
    obtain ⟨hne, hk'⟩ := (hme k).1 hk
    rcases h.alive k hk' with q | q | q
    · exact Or.inl q
    · exact Or.inr (Or.inl ((hR k).2 (hR2 k hne q)))
    · exact absurd q (hpost0 k _)
  · intro k hk; simp [evPre, evPost] at hk
  · intro k hk; simp [evPost] at hk
  · intro k hk; simp [evPost] at hk
  · intro k hi hd hg
    have hi' := (hI k).1 hi
    have hne : k ≠ k0 := by
      intro e; subst e
      rcases hi' with ⟨t', q⟩ | ⟨t', q⟩
      · have := (hP.incT k t' q).1; rw [hel] at this; cases this
      · rw [he] at q; cases q
    exact (hR k).2 (hR2 k hne (h.d1 k hi' hd hg))
  · intro k hk
    have hne : k ≠ k0 := fun e => hdead (e ▸ hk)
    rcases h.lv k hk with q | q | q
    · exact Or.inl ((hmf k).2 ⟨q, hne⟩)
    · exact Or.inr (Or.inl ((hI k).2 q))
    · exact absurd q (hpre0 k)
  · intro _
    rcases h.q (Or.inr (Or.inr (Or.inr ⟨t, k0, he⟩))) with q | q
    · left; show s.cur - (s.size k0 : Int) ≤ _; omega
    · right; show s.all.filter (· != k0) = []; rw [q]; rfl

theorem live_evDelete (s : St) (k0 k : Key) : live (evDelete s k0).abs k ↔ live s.abs k ∧ k ≠ k0 := by
  obtain ⟨b0, i0⟩ := k0
  obtain ⟨b, i⟩ := k
  dsimp only [live, St.abs, evDelete]
  by_cases hf : evFound s (b0, i0) = true
  · rw [if_pos hf]
    by_cases eb : b = b0
    · subst eb; simp [List.mem_filter]
    · simp [upd, eb]
  · have : i0 ∉ (s.boxes b0).msgs := by simpa [evFound] using hf
    rw [if_neg hf]
    constructor
    · intro hm; exact ⟨hm, fun e => by simp only [Prod.mk.injEq] at e; obtain ⟨rfl, rfl⟩ := e; exact this hm⟩
    · exact fun hm => hm.1

theorem acct_evCrit {c : Cfg} {s : St} (t : Nat) (k0 : Key) (he : s.epc = .evCrit t k0) (hP : PendInv s)
    (h : Acct c s) : Acct c { evDelete s k0 with epc := .evUnlockB t k0 (evFound s k0) } := by
  have hlv := live_evDelete s k0
  have hfound : evFound s k0 = true ↔ live s.abs k0 := by simp [evFound, live, St.abs]
  have hc0 := h.evc k0 (Or.inl ⟨t, Or.inr (Or.inr (Or.inr he))⟩)
  have hel0 := h.cel k0 hc0.1
  have hR : ∀ k, hasRem { evDelete s k0 with epc := .evUnlockB t k0 (evFound s k0) } k ↔ hasRem s k := by
    intro k
    refine ⟨fun hr => ?_, fun hr => ?_⟩
    · rcases hr with q | ⟨t', q⟩
      · exact Or.inl q
      · cases q
    · rcases hr with q | ⟨t', q⟩
      · exact Or.inl q
      · rw [he] at q; cases q
  have hI : ∀ k, hasInc { evDelete s k0 with epc := .evUnlockB t k0 (evFound s k0) } k ↔ hasInc s k := by
    intro k
    refine ⟨fun hr => ?_, fun hr => ?_⟩
    · rcases hr with q | ⟨t', q⟩
      · exact Or.inl q
      · cases q
    · rcases hr with q | ⟨t', q⟩
      · exact Or.inl q
      · rw [he] at q; cases q
  have hpre0 : ∀ k, evPre s k → k = k0 := by
    intro k hk; obtain ⟨t', hk⟩ := hk; rw [he] at hk; simp at hk; exact hk.2.symm
  have hpost0 : ∀ k f, ¬ evPost s k f := by intro k f; simp [evPost, he]
  have hpre : ∀ k, ¬ evPre { evDelete s k0 with epc := .evUnlockB t k0 (evFound s k0) } k := by intro k; simp [evPre]
  have hpost : ∀ k f, evPost { evDelete s k0 with epc := .evUnlockB t k0 (evFound s k0) } k f ↔ k = k0 ∧ f = evFound s k0 := by
    intro k f; simp [evPost]; constructor <;> (intro q; exact ⟨q.1.symm, q.2.symm⟩)
  have hnI : ¬ hasInc s k0 := by
    intro hi
    rcases hi with ⟨t', q⟩ | ⟨t', q⟩
    · have := (hP.incT k0 t' q).1; rw [hel0] at this; cases this
    · rw [he] at q; cases q
  have hRd : ∀ k, hasRem s k → ¬ live s.abs k := by
    intro k hr
    rcases hr with ⟨t', q⟩ | ⟨t', q⟩
    · exact (hP.remT k t' q).1
    · exact (hP.remE k t' q).1
  refine ⟨h.sum, h.cnd, h.and, h.sub, h.cel, ?_, ?_, ?_, ?_, ?_, ?_, ?_, ?_, ?_⟩
  · intro k hk hr; exact h.elc k hk ((hR k).1 hr)
  · intro k hk
    have hk' : k ∈ s.counted := hk
    rcases h.wher k hk' with q | q | q | q
    · exact Or.inl q
    · have e := hpre0 k q; subst e
      by_cases hf : evFound s k = true
      · exact Or.inr (Or.inr (Or.inl ((hpost k true).2 ⟨rfl, hf.symm⟩)))
      · have hd : ¬ live s.abs k := fun hl => hf (hfound.2 hl)
        rcases h.alive k hk' with z | z | z
        · exact absurd z hd
        · exact Or.inr (Or.inr (Or.inr ((hR k).2 z)))
        · exact absurd z (hpost0 k _)
    · exact absurd q (hpost0 k _)
    · exact Or.inr (Or.inr (Or.inr ((hR k).2 q)))
  · intro k hk
    have hk' : k ∈ s.counted := hk
    by_cases e : k = k0
    · subst e
      by_cases hf : evFound s k = true
      · exact Or.inr (Or.inr ((hpost k true).2 ⟨rfl, hf.symm⟩))
      · have hd : ¬ live s.abs k := fun hl => hf (hfound.2 hl)
        rcases h.alive k hk' with z | z | z
        · exact absurd z hd
        · exact Or.inr (Or.inl ((hR k).2 z))
        · exact absurd z (hpost0 k _)
    · rcases h.alive k hk' with z | z | z
      · exact Or.inl ((hlv k).2 ⟨z, e⟩)
      · exact Or.inr (Or.inl ((hR k).2 z))
      · exact absurd z (hpost0 k _)
  · intro k hk
    rcases hk with hk | ⟨f, hk⟩
    · exact absurd hk (hpre k)
    · rw [((hpost k f).1 hk).1]; exact hc0
  · intro k hk
    obtain ⟨e, hf⟩ := (hpost k false).1 hk
    subst e
    have hd : ¬ live s.abs k := fun hl => by rw [hfound.2 hl] at hf; cases hf
    rcases h.alive k hc0.1 with z | z | z
    · exact absurd z hd
    · exact (hR k).2 z
    · exact absurd z (hpost0 k _)
  · intro k hk
    obtain ⟨e, hf⟩ := (hpost k true).1 hk
    subst e
    refine ⟨fun hl => ((hlv k).1 hl).2 rfl, fun hr => ?_⟩
    exact hRd k ((hR k).1 hr) (hfound.1 hf.symm)
  · intro k hi hd hg
    have hi' := (hI k).1 hi
    have hne : k ≠ k0 := fun e => hnI (e ▸ hi')
    have hd' : ¬ live s.abs k := fun hl => hd ((hlv k).2 ⟨hl, hne⟩)
    exact (hR k).2 (h.d1 k hi' hd' hg)
  · intro k hk
    obtain ⟨hl, hne⟩ := (hlv k).1 hk
    rcases h.lv k hl with q | q | q
    · exact Or.inl q
    · exact Or.inr (Or.inl ((hI k).2 q))
    · exact absurd (hpre0 k q) hne
  · intro ho; simp [outsideLoop] at ho

/-! ### a client's critical section -/

theorem rem_mem_todoOf {v : Variant} {c : Cfg} (hl : c.limit ≠ 0) (o : Op) (r : Ret) (del : List Key) (k : Key) :
    Instr.rem k ∈ todoOf v c o r del ↔ k ∈ del := by
  unfold todoOf
  simp only [hl, if_false]
  split
  · split <;> simp
  · split <;> simp
  · simp

theorem inc_mem_todoOf {v : Variant} {c : Cfg} (hl : c.limit ≠ 0) (o : Op) (r : Ret) (del : List Key) (k : Key) :
    Instr.inc k ∈ todoOf v c o r del ↔ ∃ b sz i, o = .add b sz ∧ r = .id i ∧ k = (b, i) := by
  unfold todoOf
  simp only [hl, if_false]
  split
  · rename_i b sz i
    split <;> simp
  · split <;> simp
  · rename_i hne
    simp only [List.mem_cons, reduceCtorEq, List.mem_map, and_false, exists_false, or_self, false_iff]
    rintro ⟨b, sz, i, rfl, rfl, _⟩
    exact hne b sz i rfl rfl

theorem newSize_sum (o : Op) (r : Ret) (size : Key → Nat) (l : List Key)
    (h : ∀ b sz i, o = .add b sz → r = .id i → (b, i) ∉ l) : sumSize (newSize o r size) l = sumSize size l := by
  cases o with
  | add b sz =>
    cases r with
    | id i => simp only [newSize]; exact sumSize_upd _ _ _ _ (h b sz i rfl rfl)
    | _ => rfl
  | _ => cases r <;> rfl

theorem acct_crit {v : Variant} {c : Cfg} {s : St} (hl : c.limit ≠ 0) (t : Nat) (o : Op) (ht : s.thr t = .crit o)
    (hP : PendInv s) (h : Acct c s) : Acct c (critEff v c t o s) := by
  have F := step_facts c s.abs o hP.box
  have hbnd : ∀ k ∈ s.counted, k.2 ≤ (s.boxes k.1).last := fun k hk => hP.elB k (h.cel k hk)
  have hnk : ∀ k, newKey s.abs o = some k → ¬ k.2 ≤ (s.boxes k.1).last := by
    intro k hk hb; have := (F.new k hk).2.1; simp only [St.abs] at this; omega
  have htt : todoPC ((critEff v c t o s).thr t) = todoOf v c o (Atomic.step c s.abs o).2.1 (Atomic.step c s.abs o).2.2 := by
    simp [critEff, St.abs]
  have htd : ∀ t', t' ≠ t → todoPC ((critEff v c t o s).thr t') = todoPC (s.thr t') := by
    intro t' e; simp [critEff, upd, e]
  have ht0 : todoPC (s.thr t) = [] := by simp [ht]
  have hR : ∀ k, hasRem (critEff v c t o s) k ↔ hasRem s k ∨ k ∈ (Atomic.step c s.abs o).2.2 := by
    intro k
    constructor
    · rintro (⟨t', q⟩ | ⟨t', q⟩)
      · by_cases e : t' = t
        · subst e; rw [htt, rem_mem_todoOf hl] at q; exact Or.inr q
        · rw [htd t' e] at q; exact Or.inl (Or.inl ⟨t', q⟩)
      · exact Or.inl (Or.inr ⟨t', q⟩)
    · rintro ((⟨t', q⟩ | ⟨t', q⟩) | q)
      · have e : t' ≠ t := fun e => by subst e; rw [ht0] at q; cases q
        exact Or.inl ⟨t', by rw [htd t' e]; exact q⟩
      · exact Or.inr ⟨t', q⟩
      · exact Or.inl ⟨t, by rw [htt, rem_mem_todoOf hl]; exact q⟩
  have hI : ∀ k, hasInc (critEff v c t o s) k ↔ hasInc s k ∨ newKey s.abs o = some k := by
    intro k
    constructor
    · rintro (⟨t', q⟩ | ⟨t', q⟩)
      · by_cases e : t' = t
        · subst e; rw [htt, inc_mem_todoOf hl] at q
          obtain ⟨b, sz, i, rfl, hr, rfl⟩ := q
          exact Or.inr (F.ret_id i hr)
        · rw [htd t' e] at q; exact Or.inl (Or.inl ⟨t', q⟩)
      · exact Or.inl (Or.inr ⟨t', q⟩)
    · rintro ((⟨t', q⟩ | ⟨t', q⟩) | q)
      · have e : t' ≠ t := fun e => by subst e; rw [ht0] at q; cases q
        exact Or.inl ⟨t', by rw [htd t' e]; exact q⟩
      · exact Or.inr ⟨t', q⟩
      · refine Or.inl ⟨t, ?_⟩
        rw [htt, inc_mem_todoOf hl]
        have hr := (F.new k q).2.2.2
        cases o with
        | add b sz => simp only [newKey, Option.some.injEq] at q; subst q; exact ⟨b, sz, _, rfl, hr, rfl⟩
        | _ => simp [newKey] at q
  have hRd : ∀ k, hasRem s k → ¬ live s.abs k ∧ k.2 ≤ (s.boxes k.1).last := by
    intro k hr
    rcases hr with ⟨t', q⟩ | ⟨t', q⟩
    · exact hP.remT k t' q
    · exact hP.remE k t' q
  have hIe : ∀ k, hasInc s k → s.el k = false := by
    intro k hr
    rcases hr with ⟨t', q⟩ | ⟨t', q⟩
    · exact (hP.incT k t' q).1
    · exact (hP.incE k t' q).1
  have hpre : ∀ k, evPre (critEff v c t o s) k ↔ evPre s k := fun k => Iff.rfl
  have hpost : ∀ k f, evPost (critEff v c t o s) k f ↔ evPost s k f := fun k f => Iff.rfl
  -- a registered live message is counted
  have hlc : ∀ k, s.el k = true → live s.abs k → k ∈ s.counted := by
    intro k hel hlv
    rcases h.lv k hlv with q | q | q
    · exact h.sub k q
    · have := hIe k q; rw [hel] at this; cases this
    · exact (h.evc k (Or.inl q)).1
  refine ⟨?_, h.cnd, h.and, h.sub, h.cel, ?_, ?_, ?_, h.evc, ?_, ?_, ?_, ?_, h.q⟩
  · show s.cur = sumSize (newSize o (Atomic.step c s.abs o).2.1 s.size) s.counted
    rw [newSize_sum]
    · exact h.sum
    · intro b sz i ho hr hm
      subst ho
      exact hnk (b, i) (F.ret_id i hr) (hbnd _ hm)
  · intro k hel hr
    have hel' : s.el k = true := hel
    rcases (hR k).1 hr with q | q
    · exact h.elc k hel' q
    · rcases (F.del k q).2 with z | z
      · exact hlc k hel' z
      · exact absurd (hP.elB k hel') (hnk k z)
  · intro k hk
    rcases h.wher k hk with q | q | q | q
    · exact Or.inl q
    · exact Or.inr (Or.inl q)
    · exact Or.inr (Or.inr (Or.inl q))
    · exact Or.inr (Or.inr (Or.inr ((hR k).2 (Or.inl q))))
  · intro k hk
    rcases h.alive k hk with q | q | q
    · rcases F.stays k q with z | z
      · exact Or.inl z
      · exact Or.inr (Or.inl ((hR k).2 (Or.inr z)))
    · exact Or.inr (Or.inl ((hR k).2 (Or.inl q)))
    · exact Or.inr (Or.inr q)
  · intro k hk; exact (hR k).2 (Or.inl (h.postF k hk))
  · intro k hk
    obtain ⟨h1, h2⟩ := h.postT k hk
    have hb := hbnd k (h.evc k (Or.inr ⟨true, hk⟩)).1
    refine ⟨(F.dead h1 hb).1, fun hr => ?_⟩
    rcases (hR k).1 hr with q | q
    · exact h2 q
    · rcases (F.del k q).2 with z | z
      · exact h1 z
      · exact hnk k z hb
  · intro k hi hd hg
    have hd' : ¬ live (Atomic.step c s.abs o).1 k := hd
    rcases (hI k).1 hi with q | q
    · by_cases hlv : live s.abs k
      · rcases F.stays k hlv with z | z
        · exact absurd z hd'
        · exact (hR k).2 (Or.inr z)
      · exact (hR k).2 (Or.inl (h.d1 k q hlv hg))
    · rcases (F.new k q).2.2.1 with z | z
      · exact absurd z hd'
      · exact (hR k).2 (Or.inr z)
  · intro k hk
    have hk' : live (Atomic.step c s.abs o).1 k := hk
    rcases F.born k hk' with q | q
    · rcases h.lv k q with z | z | z
      · exact Or.inl z
      · exact Or.inr (Or.inl ((hI k).2 (Or.inl z)))
      · exact Or.inr (Or.inr z)
    · exact Or.inr (Or.inl ((hI k).2 (Or.inr q)))

theorem acct_step {v c s s'} (hl : c.limit ≠ 0) (st : Step v c s s') (hP : PendInv s) (h : Acct c s) : Acct c s' := by
  cases st with
  | start t o rest hp ht hpr =>
    have e : todoPC (.lockS o) = todoPC (s.thr t) := by simp [ht]
    exact h.transfer hP rfl rfl rfl rfl rfl rfl rfl (fun k => by simp [hasRem, mem_upd_same e])
      (fun k => by simp [hasInc, mem_upd_same e]) (evPre_of_epc rfl) (evPost_of_epc rfl) Or.inl
  | lockS t o hp ht hl =>
    have e : todoPC (.unlockS o) = todoPC (s.thr t) := by simp [ht]
    exact h.transfer hP rfl rfl rfl rfl rfl rfl rfl (fun k => by simp [hasRem, mem_upd_same e])
      (fun k => by simp [hasInc, mem_upd_same e]) (evPre_of_epc rfl) (evPost_of_epc rfl) Or.inl
  | unlockS t o hp ht =>
    have e : todoPC (.lockB o) = todoPC (s.thr t) := by simp [ht]
    exact h.transfer hP rfl rfl rfl rfl rfl rfl rfl (fun k => by simp [hasRem, mem_upd_same e])
      (fun k => by simp [hasInc, mem_upd_same e]) (evPre_of_epc rfl) (evPost_of_epc rfl) Or.inl
  | lockB t o hp ht hl =>
    have e : todoPC (.crit o) = todoPC (s.thr t) := by simp [ht]
    exact h.transfer hP rfl rfl rfl rfl rfl rfl rfl (fun k => by simp [hasRem, acquire, mem_upd_same e])
      (fun k => by simp [hasInc, acquire, mem_upd_same e]) (evPre_of_epc rfl) (evPost_of_epc rfl) Or.inl
  | crit t o hp ht => exact acct_crit hl t o ht hP h
  | unlockB t o todo r hp ht =>
    have e : todoPC (s.thr t) = .unlock :: todoPC (.run o todo r) := by simp [ht]
    exact h.transfer hP rfl rfl rfl rfl rfl rfl rfl
      (fun k => by simp [hasRem, release, mem_upd_pop e (x := .rem k) (by simp)])
      (fun k => by simp [hasInc, release, mem_upd_pop e (x := .inc k) (by simp)])
      (evPre_of_epc rfl) (evPost_of_epc rfl) Or.inl
  | sendInc t o k todo r hp ht he =>
    have e : todoPC (s.thr t) = .inc k :: todoPC (.wait o todo r) := by simp [ht]
    refine h.transfer hP rfl rfl rfl rfl rfl rfl rfl
      (fun k' => by simp [hasRem, he, mem_upd_pop e (x := .rem k') (by simp)]) ?_
      (fun k' => by simp [evPre, he]) (fun k' f => by simp [evPost, he]) (fun _ => Or.inl (Or.inl he))
    intro k'
    by_cases ek : k' = k
    · subst ek
      simp only [hasInc, he]
      constructor
      · intro _; exact Or.inl ⟨t, by simp [e]⟩
      · intro _; exact Or.inr ⟨t, rfl⟩
    · have ek' : k ≠ k' := fun e => ek e.symm
      simp [hasInc, he, ek', mem_upd_pop e (x := .inc k') (by simp [ek])]
  | sendRem t o k todo r hp ht he =>
    have e : todoPC (s.thr t) = .rem k :: todoPC (.wait o todo r) := by simp [ht]
    refine h.transfer hP rfl rfl rfl rfl rfl rfl rfl ?_
      (fun k' => by simp [hasInc, he, mem_upd_pop e (x := .inc k') (by simp)])
      (fun k' => by simp [evPre, he]) (fun k' f => by simp [evPost, he]) (fun _ => Or.inl (Or.inl he))
    intro k'
    by_cases ek : k' = k
    · subst ek
      simp only [hasRem, he]
      constructor
      · intro _; exact Or.inl ⟨t, by simp [e]⟩
      · intro _; exact Or.inr ⟨t, rfl⟩
    · have ek' : k ≠ k' := fun e => ek e.symm
      simp [hasRem, he, ek', mem_upd_pop e (x := .rem k') (by simp [ek])]
  | finish t o r hp ht =>
    have e : todoPC .idle = todoPC (s.thr t) := by simp [ht]
    exact h.transfer hP rfl rfl rfl rfl rfl rfl rfl (fun k => by simp [hasRem, mem_upd_same e])
      (fun k => by simp [hasInc, mem_upd_same e]) (evPre_of_epc rfl) (evPost_of_epc rfl) Or.inl
  | incGone t k hp he hg =>
    refine h.transfer' hP rfl rfl rfl rfl (fun _ hk => hk) rfl rfl (fun k' => by simp [hasRem, he])
      (fun k' hr => Or.inl (by simpa [hasRem, he] using hr)) (fun k' => by simp [hasInc]; exact fun t' ht' => Or.inl ⟨t', ht'⟩) ?_
      (fun k' => by simp [evPre, he]) (fun k' f => by simp [evPost, he]) (fun _ => Or.inl (Or.inr (Or.inr (Or.inl ⟨t, k, he⟩))))
    intro k' hlv hi
    rcases hi with hi | ⟨t', hi⟩
    · exact Or.inl hi
    · rw [he] at hi; injection hi with _ e2; subst e2
      exact absurd hlv (hP.goneD k hg).2.1
  | incReg t k hp he hg => exact acct_incReg t k he hg hP h
  | loopDone t hp he hc =>
    exact h.transfer hP rfl rfl rfl rfl rfl rfl rfl (fun k => by simp [hasRem, he]) (fun k => by simp [hasInc, he])
      (fun k => by simp [evPre, he]) (fun k f => by simp [evPost, he]) (fun _ => Or.inr (Or.inl (by omega)))
  | loopEmpty t hp he hc ha =>
    exact h.transfer hP rfl rfl rfl rfl rfl rfl rfl (fun k => by simp [hasRem, he]) (fun k => by simp [hasInc, he])
      (fun k => by simp [evPre, he]) (fun k f => by simp [evPost, he]) (fun _ => Or.inr (Or.inr ha))
  | loopEvict t k rest hp he hc ha => exact acct_loopEvict t k rest he ha h
  | evLockS t k hp he hl =>
    exact h.transfer hP rfl rfl rfl rfl rfl rfl rfl (fun k => by simp [hasRem, he]) (fun k => by simp [hasInc, he])
      (fun k' => by simp [evPre, he]) (fun k f => by simp [evPost, he]) (fun ho => by simp [outsideLoop] at ho)
  | evUnlockS t k hp he =>
    exact h.transfer hP rfl rfl rfl rfl rfl rfl rfl (fun k => by simp [hasRem, he]) (fun k => by simp [hasInc, he])
      (fun k' => by simp [evPre, he]) (fun k f => by simp [evPost, he]) (fun ho => by simp [outsideLoop] at ho)
  | evLockB t k hp he hl hr =>
    exact h.transfer hP rfl rfl rfl rfl rfl rfl rfl (fun k => by simp [hasRem, he]) (fun k => by simp [hasInc, he])
      (fun k' => by simp [evPre, he]) (fun k f => by simp [evPost, he]) (fun ho => by simp [outsideLoop] at ho)
  | evCrit t k hp he => exact acct_evCrit t k he hP h
  | evUnlockB t k f hp he => exact acct_evUnlockB t k f he _ h
  | remGone t k hp he hel hv =>
    refine h.transfer' hP rfl rfl rfl rfl ?_ rfl rfl
      (fun k' => by simp [hasRem]; exact fun t' ht' => Or.inl ⟨t', ht'⟩) ?_
      (fun k' => by simp [hasInc, he]) (fun k' _ hi => by simpa [hasInc, he] using hi)
      (fun k' => by simp [evPre, he]) (fun k' f => by simp [evPost, he]) (fun _ => Or.inl (Or.inr (Or.inr (Or.inr ⟨t, k, he⟩))))
    · intro k' hk'
      by_cases e : k' = k
      · subst e; simp [upd] at hk'
      · simpa [upd, e] using hk'
    · intro k' hr
      rcases hr with hr | ⟨t', hr⟩
      · exact Or.inl (Or.inl hr)
      · rw [he] at hr; injection hr with _ e2; subst e2
        right
        refine ⟨fun hc => ?_, by simp [upd]⟩
        have := h.cel k hc; rw [hel] at this; cases this
  | remPanic t k hp he hel hv =>
    exact h.transfer hP rfl rfl rfl rfl rfl rfl rfl (fun _ => Iff.rfl) (fun _ => Iff.rfl) (fun _ => Iff.rfl)
      (fun _ _ => Iff.rfl) Or.inl
  | remUnlink t k hp he hel => exact acct_remUnlink t k he hel hP h
  | fin t hp he =>
    have e : todoPC (resume (s.thr t)) = todoPC (s.thr t) := by simp
    exact h.transfer hP rfl rfl rfl rfl rfl rfl rfl (fun k => by simp [hasRem, he, mem_upd_same e])
      (fun k => by simp [hasInc, he, mem_upd_same e]) (fun k => by simp [evPre, he]) (fun k f => by simp [evPost, he])
      (fun _ => Or.inl (Or.inr (Or.inl ⟨t, he⟩)))

end Ibx.Model.ConcMem
