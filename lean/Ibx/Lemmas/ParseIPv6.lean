import Ibx.Lemmas.ParseIPShape
import Ibx.Lemmas.ParseIPv4
/-
  Helper lemmas for the net.ParseIP model, part 4: what follows from the shape of a successful IPv6 run —
  the alphabet, at most one "::", the length bound — and the same facts for `parseIPv`.
-/
namespace Ibx.Lemmas.ParseIPv6
open Ibx Ibx.Bytes Ibx.Model.ParseIP Ibx.Lemmas.ParseIPShape Ibx.Lemmas.ParseIPv4

/-- bytes of a textual IP address: hex digits, '.', ':' -/
def isIpB (c : Nat) : Bool := isHexB c || c == 46 || c == 58

/-- number of positions at which "::" starts (":::" counts twice) -/
def dcCount : Bytes → Nat
  | [] => 0
  | c :: r => (if c == 58 && r.head? == some 58 then 1 else 0) + dcCount r

theorem hex_ne {c : Nat} (h : isHexB c = true) : c ≠ 58 ∧ c ≠ 46 ∧ c ≠ 37 := by
  simp only [isHexB, isDigitB, Bool.or_eq_true, Bool.and_eq_true, decide_eq_true_eq] at h; omega

theorem digit_hex {c : Nat} (h : isDigitB c = true) : isHexB c = true := by simp [isHexB, h]

theorem dcCount_none {s : Bytes} (h : ∀ c ∈ s, c ≠ 58) : dcCount s = 0 := by
  induction s with
  | nil => rfl
  | cons c r ih =>
    have hc : (c == 58) = false := by simpa using h c (by simp)
    simp only [dcCount, hc, Bool.false_and, Bool.false_eq_true, if_false, Nat.zero_add]
    exact ih (fun x hx => h x (by simp [hx]))

theorem dcCount_append {h : Bytes} (hh : ∀ c ∈ h, c ≠ 58) (r : Bytes) : dcCount (h ++ r) = dcCount r := by
  induction h with
  | nil => rfl
  | cons c t ih =>
    have hc : (c == 58) = false := by simpa using hh c (by simp)
    simp only [List.cons_append, dcCount, hc, Bool.false_and, Bool.false_eq_true, if_false, Nat.zero_add]
    exact ih (fun x hx => hh x (by simp [hx]))

theorem dcCount_colon {s : Bytes} (h : s.head? ≠ some 58) : dcCount (58 :: s) = dcCount s := by
  have : (s.head? == some 58) = false := by simpa using h
  simp [dcCount, this]

theorem dcCount_dcolon (s : Bytes) : dcCount (58 :: 58 :: s) = 1 + dcCount (58 :: s) := by
  rw [dcCount]; simp

theorem hex4_no58 {h : Bytes} (hh : Hex4 h) : ∀ c ∈ h, c ≠ 58 := fun c hc => (hex_ne (hh.2.2 c hc)).1

theorem hex4_head {h : Bytes} (hh : Hex4 h) (r : Bytes) : (h ++ r).head? ≠ some 58 := by
  obtain ⟨hne, _, hx⟩ := hh
  cases h with
  | nil => exact absurd rfl hne
  | cons c t =>
    simp only [List.cons_append, List.head?_cons, ne_eq, Option.some.injEq]
    exact (hex_ne (hx c (by simp))).1

/-- the text of a successful run consists of hex digits, periods and colons -/
theorem run_bytes {n : Nat} {s : Bytes} {ell eF : Option Nat} {iF : Nat} (h : Run n s ell iF eF) :
    ∀ c ∈ s, isIpB c = true := by
  induction h with
  | done => simp
  | last n h ell hh => intro c hc; simp [isIpB, hh.2.2 c hc]
  | lastDC n h hh =>
    intro c hc
    simp only [List.mem_append, List.mem_cons, List.not_mem_nil, or_false] at hc
    rcases hc with hc | rfl | rfl
    · simp [isIpB, hh.2.2 c hc]
    · rfl
    · rfl
  | v4 n h t ell f hh hp _ _ =>
    intro c hc
    rcases (parseIPv4Fields_bytes hp).2.1 c hc with hd | rfl
    · simp [isIpB, digit_hex hd]
    · rfl
  | colon n h s' ell iF eF hh _ _ _ ih =>
    intro c hc
    simp only [List.mem_append, List.mem_cons] at hc
    rcases hc with hc | rfl | hc
    · simp [isIpB, hh.2.2 c hc]
    · rfl
    · exact ih c hc
  | dcolon n h s' iF eF hh _ _ ih =>
    intro c hc
    simp only [List.mem_append, List.mem_cons] at hc
    rcases hc with hc | rfl | rfl | hc
    · simp [isIpB, hh.2.2 c hc]
    · rfl
    · rfl
    · exact ih c hc

/-- the text of a run never starts with a colon -/
theorem run_head {n : Nat} {s : Bytes} {ell eF : Option Nat} {iF : Nat} (h : Run n s ell iF eF) :
    s.head? ≠ some 58 := by
  cases h with
  | done => simp
  | last n h ell hh => have := hex4_head hh []; rwa [List.append_nil] at this
  | lastDC n h hh => exact hex4_head hh _
  | v4 n h t ell f hh => exact hex4_head hh _
  | colon n h s' ell iF eF hh => exact hex4_head hh _
  | dcolon n h s' iF eF hh => exact hex4_head hh _

/-- once "::" has been seen it stays recorded -/
theorem run_ell {n : Nat} {s : Bytes} {ell eF : Option Nat} {iF : Nat} (h : Run n s ell iF eF) :
    ell.isSome = true → eF = ell := by
  induction h with
  | done => intro _; rfl
  | last => intro _; rfl
  | lastDC => intro h; cases h
  | v4 => intro _; rfl
  | colon _ _ _ _ _ _ _ _ _ _ ih => exact ih
  | dcolon => intro h; cases h

/-- 1 when this run is the one that meets "::" -/
def meets (ell eF : Option Nat) : Nat := if ell.isNone && eF.isSome then 1 else 0

/-- "::" occurs exactly where the run records it: never after it was seen before, at most once otherwise -/
theorem run_dc {n : Nat} {s : Bytes} {ell eF : Option Nat} {iF : Nat} (h : Run n s ell iF eF) :
    dcCount s = meets ell eF := by
  induction h with
  | done ell => cases ell <;> rfl
  | last n h ell hh =>
    rw [dcCount_none (hex4_no58 hh)]
    cases ell <;> rfl
  | lastDC n h hh =>
    rw [dcCount_append (hex4_no58 hh)]; rfl
  | v4 n h t ell f hh hp _ _ =>
    rw [dcCount_none]
    · cases ell <;> rfl
    · intro c hc
      rcases (parseIPv4Fields_bytes hp).2.1 c hc with hd | rfl
      · exact (hex_ne (digit_hex hd)).1
      · decide
  | colon n h s' ell iF eF hh _ hhd _ ih =>
    rw [dcCount_append (hex4_no58 hh), dcCount_colon hhd, ih]
  | dcolon n h s' iF eF hh _ hr ih =>
    rw [dcCount_append (hex4_no58 hh), dcCount_dcolon, dcCount_colon (run_head hr), ih]
    have := run_ell hr rfl
    subst this
    rfl

/-- length of the text against the bytes it fills: five bytes of text per group ("ffff:"), one more for the
    second colon of "::", five more for an IPv4 tail ("255.255.255.255" against "ffff:ffff:") -/
theorem run_len {n : Nat} {s : Bytes} {ell eF : Option Nat} {iF : Nat} (h : Run n s ell iF eF) (hn : n ≤ 8) :
    iF ≤ 16 ∧ 2 * s.length + 5 * idx n ≤ 5 * iF + 10 + 2 * meets ell eF := by
  induction h with
  | done ell => simp only [idx, List.length_nil]; omega
  | last n h ell hh =>
    have := hh.2.1
    simp only [idx]; omega
  | lastDC n h hh =>
    have := hh.2.1
    simp only [idx, meets, List.length_append, List.length_cons, List.length_nil]
    simp only [Option.isNone_none, Option.isSome_some, Bool.and_self, if_true]
    omega
  | v4 n h t ell f hh hp _ hfit =>
    have := (parseIPv4Fields_bytes hp).1
    simp only [idx] at hfit ⊢; omega
  | colon n h s' ell iF eF hh _ _ _ ih =>
    have := hh.2.1
    have := ih (by omega)
    simp only [idx, List.length_append, List.length_cons] at this ⊢
    omega
  | dcolon n h s' iF eF hh _ hr ih =>
    have := hh.2.1
    have hi := ih (by omega)
    have he := run_ell hr rfl
    subst he
    simp only [idx, meets, List.length_append, List.length_cons, Option.isNone_some, Bool.false_and,
      Bool.false_eq_true, if_false, Option.isNone_none, Option.isSome_some, Bool.and_self, if_true] at hi ⊢
    omega

/-! ### from the loop to `net.ParseIP` -/

/-- the code after the loop accepts: fewer than 16 bytes filled and a "::" to expand, or all 16 and no "::" -/
def Finished (iF : Nat) (eF : Option Nat) : Prop := (iF < 16 ∧ eF.isSome = true) ∨ (iF = 16 ∧ eF = none)

theorem v6Finish_isSome (o : V6Out) (hi : o.i ≤ 16) :
    (v6Finish o).isSome = true ↔ o.rest = [] ∧ Finished o.i o.ellipsis := by
  unfold v6Finish Finished
  cases hr : o.rest with
  | cons _ _ => simp
  | nil =>
    simp only [List.isEmpty_nil, Bool.not_true, Bool.false_eq_true, if_false, true_and]
    by_cases h16 : o.i < 16
    · simp only [h16, if_true, true_and]
      cases o.ellipsis with
      | none => simp; omega
      | some e => simp
    · simp only [h16, if_false, false_and, false_or]
      cases o.ellipsis with
      | none => simp; omega
      | some e => simp

/-- loop and finish: the texts accepted after the optional leading "::" -/
theorem v6Body_isSome (s : Bytes) (ell : Option Nat) :
    (v6Body s ell).isSome = true ↔ ∃ iF eF, Run 8 s ell iF eF ∧ Finished iF eF := by
  unfold v6Body
  constructor
  · intro h
    cases hl : v6Loop 8 s [] ell with
    | none => rw [hl] at h; cases h
    | some o =>
      rw [hl] at h
      simp only at h
      have hrest : o.rest = [] := by
        unfold v6Finish at h
        cases hr : o.rest with
        | nil => rfl
        | cons _ _ => rw [hr] at h; simp at h
      have hrun := v6Loop_run hl hrest
      exact ⟨o.i, o.ellipsis, hrun, ((v6Finish_isSome o (run_len hrun (by omega)).1).mp h).2⟩
  · rintro ⟨iF, eF, hrun, hfin⟩
    obtain ⟨o, ho, h1, h2, h3⟩ := run_v6Loop hrun []
    rw [ho]
    simp only
    subst h2 h3
    exact (v6Finish_isSome o (run_len hrun (by omega)).1).mpr ⟨h1, hfin⟩

theorem stripDC_some {s s' : Bytes} : stripDC s = some s' ↔ s = 58 :: 58 :: s' := by
  match s with
  | [] => simp [stripDC]
  | [_] => simp [stripDC]
  | c0 :: c1 :: r =>
    simp only [stripDC]
    split
    · rename_i h
      simp only [Bool.and_eq_true, beq_iff_eq] at h
      obtain ⟨rfl, rfl⟩ := h
      simp
    · rename_i h
      simp only [Bool.and_eq_true, beq_iff_eq, not_and] at h
      simp only [reduceCtorEq, List.cons.injEq, false_iff, not_and]
      intro h0 h1 _
      exact h h0 h1

theorem stripDC_none_of_head {s : Bytes} (h : s.head? ≠ some 58) : stripDC s = none := by
  cases hs : stripDC s with
  | none => rfl
  | some s' => rw [stripDC_some.mp hs] at h; simp at h

/-- the IPv6 texts `net.ParseIP` accepts: "::" alone; "::" and a run that leaves room for it; or a run with "::"
    inside or at its end that leaves room, or a full run of eight groups (six and an IPv4 tail) without "::" -/
def V6Text (s : Bytes) : Prop :=
  s = [58, 58] ∨
  (∃ s' iF eF, s = 58 :: 58 :: s' ∧ s' ≠ [] ∧ Run 8 s' (some 0) iF eF ∧ iF < 16) ∨
  (∃ iF eF, Run 8 s none iF eF ∧ Finished iF eF)

/-- the dotted quads `net.ParseIP` accepts -/
def V4Text (s : Bytes) : Prop :=
  ∃ a b c d, s = a ++ 46 :: (b ++ 46 :: (c ++ 46 :: d)) ∧ octetB a = true ∧ octetB b = true ∧
    octetB c = true ∧ octetB d = true

theorem no_pct_split {s : Bytes} (h : ∀ c ∈ s, c ≠ 37) : s.takeWhile notPct = s ∧ s.dropWhile notPct = [] := by
  induction s with
  | nil => exact ⟨rfl, rfl⟩
  | cons c r ih =>
    have hc : notPct c = true := by simpa [notPct] using h c (by simp)
    obtain ⟨h1, h2⟩ := ih (fun x hx => h x (by simp [hx]))
    simp only [List.takeWhile_cons, List.dropWhile_cons, hc, if_true, h1, h2, and_self]

theorem dropWhile_nil_pct {s : Bytes} (h : s.dropWhile notPct = []) : 37 ∉ s := by
  induction s with
  | nil => simp
  | cons c r ih =>
    simp only [List.dropWhile_cons] at h
    split at h
    · rename_i hc
      intro hm
      rcases List.mem_cons.mp hm with rfl | hm
      · simp [notPct] at hc
      · exact ih h hm
    · cases h

/-- with a zone the address parses or not, but `net.ParseIP` sees a non-empty zone and answers nil -/
theorem parseIPv6_zone {s : Bytes} {a : Addr} (hpct : 37 ∈ s) (h : parseIPv6 s = some a) : a.zone ≠ [] := by
  have hz : s.dropWhile notPct ≠ [] := by
    intro h0
    exact dropWhile_nil_pct h0 hpct
  unfold parseIPv6 at h
  simp only at h
  split at h
  · cases h
  · rename_i hg
    have ht : (s.dropWhile notPct).tail ≠ [] := by
      intro h0
      apply hg
      simp [h0, hz]
    cases hs : stripDC (List.takeWhile notPct s) with
    | none =>
      rw [hs] at h
      simp only [Option.map_eq_some_iff] at h
      obtain ⟨_, _, rfl⟩ := h
      exact ht
    | some s' =>
      rw [hs] at h
      simp only at h
      split at h
      · simp only [Option.some.injEq] at h; subst h; exact ht
      · simp only [Option.map_eq_some_iff] at h
        obtain ⟨_, _, rfl⟩ := h
        exact ht

theorem parseIPv6_nopct {s : Bytes} (h : ∀ c ∈ s, c ≠ 37) :
    (∃ a, parseIPv6 s = some a ∧ a.zone = []) ↔ V6Text s := by
  obtain ⟨h1, h2⟩ := no_pct_split h
  unfold parseIPv6 V6Text
  simp only [h1, h2, List.isEmpty_nil, Bool.not_true, Bool.false_and, Bool.false_eq_true, if_false, List.tail_nil]
  cases hs : stripDC s with
  | some s' =>
    have hs' := stripDC_some.mp hs
    subst hs'
    simp only
    by_cases he : s' = []
    · subst he; simp
    · have he' : s'.isEmpty = false := by simpa using he
      simp only [he', Bool.false_eq_true, if_false, List.cons.injEq, true_and]
      constructor
      · rintro ⟨a, ha, _⟩
        have : (v6Body s' (some 0)).isSome = true := by
          cases hb : v6Body s' (some 0) with
          | none => rw [hb] at ha; cases ha
          | some _ => rfl
        obtain ⟨iF, eF, hrun, hfin⟩ := (v6Body_isSome s' (some 0)).mp this
        right; left
        refine ⟨s', iF, eF, rfl, he, hrun, ?_⟩
        have := run_ell hrun rfl
        subst this
        rcases hfin with ⟨hlt, _⟩ | ⟨_, hn⟩
        · exact hlt
        · cases hn
      · rintro (h0 | ⟨s'', iF, eF, rfl, _, hrun, hlt⟩ | ⟨iF, eF, hrun, _⟩)
        · exact absurd h0 he
        · have : (v6Body s' (some 0)).isSome = true := by
            refine (v6Body_isSome s' (some 0)).mpr ⟨iF, eF, hrun, .inl ⟨hlt, ?_⟩⟩
            rw [run_ell hrun rfl]; rfl
          cases hb : v6Body s' (some 0) with
          | none => rw [hb] at this; cases this
          | some b => exact ⟨⟨false, b, []⟩, rfl, rfl⟩
        · exact absurd rfl (run_head hrun)
  | none =>
    simp only
    constructor
    · rintro ⟨a, ha, _⟩
      have : (v6Body s none).isSome = true := by
        cases hb : v6Body s none with
        | none => rw [hb] at ha; cases ha
        | some _ => rfl
      exact .inr (.inr ((v6Body_isSome s none).mp this))
    · rintro (rfl | ⟨s', _, _, rfl, _, _, _⟩ | hrun)
      · simp [stripDC] at hs
      · simp [stripDC] at hs
      · have := (v6Body_isSome s none).mpr hrun
        cases hb : v6Body s none with
        | none => rw [hb] at this; cases this
        | some b => exact ⟨⟨false, b, []⟩, rfl, rfl⟩

end Ibx.Lemmas.ParseIPv6
