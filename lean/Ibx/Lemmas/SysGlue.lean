import Ibx.Model.Sys
import Ibx.Lemmas.SpecStore
import Ibx.Lemmas.SmtpLoop
import Ibx.Lemmas.SmtpStore
import Ibx.Props.C01
import Ibx.Lemmas.Retention
import Ibx.Lemmas.Pop3
import Ibx.Model.Pop3Send
/-
  Adapter lemmas for the L2 composition (Ibx/Props/Sys.lean).

  Part A: every operation of `Model.Sys` is a list of calls of the abstract store (`calls`): the system's store is
          the store after those calls, the `deleted` entries of its log are the events of those calls, the `stored`
          entries are the (mailbox, id) pairs the deliveries among them answered.  Hence every system history
          is a `Spec.Store` history and every per-store theorem (C07, C08, C16 …) applies to it.
  Part B: small list lemmas ("the last `cap` of a list"), listing after a batch of deliveries under a mailbox cap.
-/
namespace Ibx.Lemmas.SysGlue
open Ibx Ibx.Spec.Store Ibx.Model Ibx.Lemmas.SpecStore
open Ibx.Model.Sys hiding Cfg step run init

/-! ## Part A — operations as store calls -/

/-- the `deleted` entries of a log, in order -/
def delOf (log : List SysEv) : List Ev :=
  log.filterMap (fun ev => match ev with | .deleted b i => some (b, i) | _ => none)

/-- the `stored` entries of a log, in order -/
def stoOf (log : List SysEv) : List Ev :=
  log.filterMap (fun ev => match ev with | .stored b i => some (b, i) | _ => none)

@[simp] theorem delOf_nil : delOf [] = [] := rfl
@[simp] theorem stoOf_nil : stoOf [] = [] := rfl
@[simp] theorem delOf_append (a b : List SysEv) : delOf (a ++ b) = delOf a ++ delOf b := by simp [delOf]
@[simp] theorem stoOf_append (a b : List SysEv) : stoOf (a ++ b) = stoOf a ++ stoOf b := by simp [stoOf]
@[simp] theorem delOf_delEvs (l : List Ev) : delOf (delEvs l) = l := by
  induction l with
  | nil => rfl
  | cons e l ih => simp [delEvs, delOf] at ih ⊢; exact ih
@[simp] theorem stoOf_delEvs (l : List Ev) : stoOf (delEvs l) = [] := by
  induction l with
  | nil => rfl
  | cons e l ih => simp [delEvs, stoOf] at ih ⊢

theorem after_run (c : Cfg) (s : Store) (ops : List Op) : (Spec.Store.run c s ops).1 = after c s ops := rfl

theorem deleted_append (c : Cfg) (s : Store) (a b : List Op) :
    deleted c s (a ++ b) = deleted c s a ++ deleted c (after c s a) b := by
  induction a generalizing s with
  | nil => simp [deleted, after_nil]
  | cons op a ih => simp [deleted, after_cons, ih]

theorem addedH_append (c : Cfg) (s : Store) (a b : List Op) :
    addedH c s (a ++ b) = addedH c s a ++ addedH c (after c s a) b := by
  induction a generalizing s with
  | nil => simp [addedH, after_nil]
  | cons op a ih => simp [addedH, after_cons, ih]

theorem storeOp_store (c : Cfg) (st : State) (op : Op) : (storeOp c st op).store = (step c st.store op).1 := rfl

theorem storeOp_del (c : Cfg) (st : State) (op : Op) :
    delOf (storeOp c st op).log = delOf st.log ++ (step c st.store op).2.2 := by
  cases op <;> simp only [storeOp, delOf_append, delOf_delEvs] <;> simp [delOf]

theorem storeOp_sto (c : Cfg) (st : State) (op : Op) :
    stoOf (storeOp c st op).log = stoOf st.log ++ added st.store op := by
  cases op <;> simp only [storeOp, stoOf_append, stoOf_delEvs, added] <;> simp [stoOf]

theorem storeOps_cons (c : Cfg) (st : State) (op : Op) (ops : List Op) :
    storeOps c st (op :: ops) = storeOps c (storeOp c st op) ops := rfl

theorem storeOps_store (c : Cfg) (st : State) (ops : List Op) : (storeOps c st ops).store = after c st.store ops := by
  induction ops generalizing st with
  | nil => rfl
  | cons op ops ih => rw [storeOps_cons, ih, storeOp_store, after_cons]

theorem storeOps_del (c : Cfg) (st : State) (ops : List Op) :
    delOf (storeOps c st ops).log = delOf st.log ++ deleted c st.store ops := by
  induction ops generalizing st with
  | nil => simp [storeOps, deleted]
  | cons op ops ih => rw [storeOps_cons, ih, storeOp_del, storeOp_store]; simp [deleted]

theorem storeOps_sto (c : Cfg) (st : State) (ops : List Op) :
    stoOf (storeOps c st ops).log = stoOf st.log ++ addedH c st.store ops := by
  induction ops generalizing st with
  | nil => simp [storeOps, addedH]
  | cons op ops ih => rw [storeOps_cons, ih, storeOp_sto, storeOp_store]; simp [addedH]

/-! ### REST -/

/-- the store call a request makes (none when the handler answers without touching the store) -/
def restCalls (e : Rest.Env) (h : ClientUrl.Handler) (rq : Rest.Req) : List Op :=
  match Addr.extractMailbox e.ip e.naming rq.name with
  | none => []
  | some box =>
    match h with
    | .purgeV1 => [.purge box]
    | .seenV1 =>
      match rq.body with
      | .seenTrue => (match Rest.mutId rq.id with | some n => [.seen box n] | none => [])
      | _ => []
    | .deleteV1 => (match Rest.mutId rq.id with | some n => [.remove box n] | none => [])
    | _ => []

theorem mgrMarkSeen_calls (c : Cfg) (k : Rest.Contract) (s : Store) (box : Bytes) (id : Rest.IdArg) :
    (Rest.mgrMarkSeen k s box id).1 =
      after c s (match Rest.mutId id with | some n => [Op.seen box n] | none => []) ∧
    deleted c s (match Rest.mutId id with | some n => [Op.seen box n] | none => []) = [] := by
  unfold Rest.mgrMarkSeen
  cases Rest.mutId id with
  | none => exact ⟨rfl, rfl⟩
  | some n =>
    by_cases ha : s.msgs.any (isMsg box n) = true
    · simp [ha, after_cons, after_nil, deleted, step]
    · simp [ha, after_cons, after_nil, deleted, step]

theorem mgrRemove_calls (c : Cfg) (k : Rest.Contract) (s : Store) (box : Bytes) (id : Rest.IdArg) :
    (Rest.mgrRemove k s box id).1 =
      after c s (match Rest.mutId id with | some n => [Op.remove box n] | none => []) ∧
    deleted c s (match Rest.mutId id with | some n => [Op.remove box n] | none => []) =
      (match Rest.mutId id with
       | some n => if s.msgs.any (isMsg box n) then [(box, n)] else []
       | none => []) := by
  unfold Rest.mgrRemove
  cases Rest.mutId id with
  | none => exact ⟨rfl, rfl⟩
  | some n =>
    by_cases ha : s.msgs.any (isMsg box n) = true
    · simp [ha, after_cons, after_nil, deleted, step]
    · simp [ha, after_cons, after_nil, deleted, step]

theorem rest_is_calls (c : Cfg) (e : Rest.Env) (h : ClientUrl.Handler) (s : Store) (rq : Rest.Req) :
    (Rest.handle e h s rq).2 = after c s (restCalls e h rq) ∧
    restEvents e h s rq = deleted c s (restCalls e h rq) := by
  unfold Rest.handle restCalls restEvents
  cases hb : Addr.extractMailbox e.ip e.naming rq.name with
  | none => exact ⟨rfl, rfl⟩
  | some box =>
    cases h
    case purgeV1 => simp [after_cons, after_nil, step, Rest.mgrPurge, deleted]
    case wAttach => cases rq.num <;> exact ⟨rfl, rfl⟩
    case seenV1 =>
      cases rq.body
      case seenTrue =>
        obtain ⟨h1, h2⟩ := mgrMarkSeen_calls c e.contract s box rq.id
        refine ⟨?_, h2.symm⟩
        show _ = after c s (match Rest.mutId rq.id with | some n => [Op.seen box n] | none => [])
        rw [← h1]
        by_cases hh : (Rest.mgrMarkSeen e.contract s box rq.id).2 = true <;> simp [hh]
      all_goals exact ⟨rfl, rfl⟩
    case deleteV1 =>
      obtain ⟨h1, h2⟩ := mgrRemove_calls c e.contract s box rq.id
      refine ⟨?_, h2.symm⟩
      show _ = after c s (match Rest.mutId rq.id with | some n => [Op.remove box n] | none => [])
      rw [← h1]
      by_cases hh : (Rest.mgrRemove e.contract s box rq.id).2 = true <;> simp [hh]
    all_goals exact ⟨rfl, rfl⟩

/-! ### retention -/

/-- the RemoveMessage calls of the callback over one snapshot -/
def sweepCalls (cutoff : Int) (L : List Msg) : List Op :=
  (L.filter (Retention.expired cutoff)).map (fun m => Op.remove m.box m.id)

theorem sweep_is_calls (c : Cfg) (cutoff : Int) (L : List Msg) (s : Store) :
    Retention.sweep c cutoff L s = (after c s (sweepCalls cutoff L), deleted c s (sweepCalls cutoff L)) := by
  induction L generalizing s with
  | nil => rfl
  | cons m L ih =>
    unfold Retention.sweep
    by_cases hm : Retention.expired cutoff m = true
    · simp only [hm, if_true, ih]
      simp [sweepCalls, hm, after_cons, deleted]
    · simp only [hm]
      simp only [Bool.false_eq_true, if_false, ih]
      simp [sweepCalls, hm]

/-- the RemoveMessage calls of one scan over the mailboxes `names`, each listed when it is reached -/
def scanCallsOver (c : Cfg) (cutoff : Int) : List Bytes → Store → List Op
  | [], _ => []
  | b :: bs, s =>
    sweepCalls cutoff (listing s b) ++ scanCallsOver c cutoff bs (after c s (sweepCalls cutoff (listing s b)))

theorem doScanOver_is_calls (c : Cfg) (cutoff : Int) (names : List Bytes) (s : Store) :
    Retention.doScanOver c cutoff names s =
      (after c s (scanCallsOver c cutoff names s), deleted c s (scanCallsOver c cutoff names s)) := by
  induction names generalizing s with
  | nil => rfl
  | cons b bs ih =>
    simp only [Retention.doScanOver, scanCallsOver, sweep_is_calls, ih, after_append, deleted_append]

def scanCalls (c : Cfg) (cutoff : Int) (s : Store) : List Op := scanCallsOver c cutoff (boxNames s.msgs) s

theorem doScan_is_calls (c : Cfg) (cutoff : Int) (s : Store) :
    Retention.doScan c cutoff s = (after c s (scanCalls c cutoff s), deleted c s (scanCalls c cutoff s)) :=
  doScanOver_is_calls c cutoff _ s

theorem sweepCalls_nonadd (cutoff : Int) (L : List Msg) : ∀ op ∈ sweepCalls cutoff L, isAdd op = false := by
  intro op h
  simp only [sweepCalls, List.mem_map] at h
  obtain ⟨_, _, rfl⟩ := h
  rfl

theorem scanCallsOver_nonadd (c : Cfg) (cutoff : Int) (names : List Bytes) (s : Store) :
    ∀ op ∈ scanCallsOver c cutoff names s, isAdd op = false := by
  induction names generalizing s with
  | nil => simp [scanCallsOver]
  | cons b bs ih =>
    intro op h
    simp only [scanCallsOver, List.mem_append] at h
    rcases h with h | h
    · exact sweepCalls_nonadd _ _ op h
    · exact ih _ op h

/-! ### every operation -/

/-- the store calls one system operation makes in state `st` -/
def calls (k : Sys.Cfg) (st : State) : SOp → List Op
  | .smtp e budget clock inp => smtpCalls k e budget clock inp
  | .pop3 term lines => popCalls k.ids (popTrace k st.store term lines).final.user (popTrace k st.store term lines).removed
  | .rest h rq => restCalls (restEnv k) h rq
  | .scan cutoff => scanCalls k.store cutoff st.store
  | .store op => [op]

/-- **step_is_calls.**  One system operation = its store calls, run in order on the abstract store; the log gains
    exactly their `deleted` events and the (mailbox, id) pairs of their deliveries. -/
theorem step_is_calls (k : Sys.Cfg) (st : State) (op : SOp) :
    (Sys.step k st op).store = after k.store st.store (calls k st op) ∧
    delOf (Sys.step k st op).log = delOf st.log ++ deleted k.store st.store (calls k st op) ∧
    stoOf (Sys.step k st op).log = stoOf st.log ++ addedH k.store st.store (calls k st op) := by
  cases op with
  | smtp e budget clock inp => exact ⟨storeOps_store _ _ _, storeOps_del _ _ _, storeOps_sto _ _ _⟩
  | pop3 term lines => exact ⟨storeOps_store _ _ _, storeOps_del _ _ _, storeOps_sto _ _ _⟩
  | rest h rq =>
    obtain ⟨h1, h2⟩ := rest_is_calls k.store (restEnv k) h st.store rq
    refine ⟨h1, by simp [Sys.step, calls, h2], ?_⟩
    have hna : ∀ s, addedH k.store s (restCalls (restEnv k) h rq) = [] := by
      intro s
      unfold restCalls
      split
      · rfl
      · split
        · rfl
        · split
          · split <;> rfl
          · rfl
        · split <;> rfl
        · rfl
    simp [Sys.step, calls, hna]
  | scan cutoff =>
    have h := doScan_is_calls k.store cutoff st.store
    have hna : addedH k.store st.store (scanCalls k.store cutoff st.store) = [] := by
      have : ∀ (l : List Op) (s : Store), (∀ op ∈ l, isAdd op = false) → addedH k.store s l = [] := by
        intro l
        induction l with
        | nil => intro _ _; rfl
        | cons op l ih =>
          intro s hl
          have h1 : added s op = [] := by
            have := hl op List.mem_cons_self
            cases op <;> first | rfl | simp [isAdd] at this
          simp [addedH, h1, ih _ (fun o ho => hl o (List.mem_cons_of_mem _ ho))]
      exact this _ _ (scanCallsOver_nonadd _ _ _ _)
    simp only [Sys.step, calls, h, hna]
    simp
  | store op =>
    refine ⟨by simp [Sys.step, calls, storeOp_store, after_cons, after_nil], ?_, ?_⟩
    · simp [Sys.step, calls, storeOp_del, deleted]
    · simp [Sys.step, calls, storeOp_sto, addedH]

/-- the store calls of a whole system history -/
def callsH (k : Sys.Cfg) : State → List SOp → List Op
  | _, [] => []
  | st, op :: ops => calls k st op ++ callsH k (Sys.step k st op) ops

theorem run_cons (k : Sys.Cfg) (st : State) (op : SOp) (ops : List SOp) :
    Sys.run k st (op :: ops) = Sys.run k (Sys.step k st op) ops := rfl

theorem run_append (k : Sys.Cfg) (st : State) (a b : List SOp) :
    Sys.run k st (a ++ b) = Sys.run k (Sys.run k st a) b := by
  simp [Sys.run, List.foldl_append]

/-- **run_is_calls.**  Every system history is a history of the abstract store. -/
theorem run_is_calls (k : Sys.Cfg) (st : State) (ops : List SOp) :
    (Sys.run k st ops).store = after k.store st.store (callsH k st ops) ∧
    delOf (Sys.run k st ops).log = delOf st.log ++ deleted k.store st.store (callsH k st ops) ∧
    stoOf (Sys.run k st ops).log = stoOf st.log ++ addedH k.store st.store (callsH k st ops) := by
  induction ops generalizing st with
  | nil => simp [Sys.run, callsH, after_nil, deleted, addedH]
  | cons op ops ih =>
    obtain ⟨a1, a2, a3⟩ := step_is_calls k st op
    obtain ⟨b1, b2, b3⟩ := ih (Sys.step k st op)
    rw [run_cons]
    refine ⟨?_, ?_, ?_⟩
    · rw [b1, a1, callsH, after_append]
    · rw [b2, a2, a1, callsH, deleted_append, List.append_assoc]
    · rw [b3, a3, a1, callsH, addedH_append, List.append_assoc]

theorem run_reachable (k : Sys.Cfg) (ops : List SOp) : Reachable k.store (Sys.run k Sys.init ops).store :=
  ⟨callsH k Sys.init ops, (run_is_calls k Sys.init ops).1⟩

/-! ## Part B — a mailbox under its cap -/

/-- what a mailbox cap leaves of a listing: the last `cap` entries (everything when the cap is disabled) -/
def lastCap {α : Type} (cap : Nat) (l : List α) : List α := if cap > 0 then l.drop (l.length - cap) else l

theorem lastCap_zero {α : Type} (l : List α) : lastCap 0 l = l := rfl

theorem lastCap_map {α β : Type} (f : α → β) (cap : Nat) (l : List α) : (lastCap cap l).map f = lastCap cap (l.map f) := by
  unfold lastCap; split <;> simp

theorem lastCap_length {α : Type} (cap : Nat) (hc : cap > 0) (l : List α) : (lastCap cap l).length ≤ cap := by
  unfold lastCap; simp [hc]; omega

theorem lastCap_of_le {α : Type} (cap : Nat) (l : List α) (h : cap = 0 ∨ l.length ≤ cap) : lastCap cap l = l := by
  unfold lastCap
  split
  · rcases h with h | h
    · omega
    · have : l.length - cap = 0 := by omega
      rw [this, List.drop_zero]
  · rfl

theorem lastCap_suffix {α : Type} (cap : Nat) (l : List α) : lastCap cap l <:+ l := by
  unfold lastCap; split
  · exact List.drop_suffix _ _
  · exact List.suffix_refl _

/-- capping twice = capping once -/
theorem lastCap_append_lastCap {α : Type} (cap : Nat) (x y : List α) :
    lastCap cap (lastCap cap x ++ y) = lastCap cap (x ++ y) := by
  unfold lastCap
  split
  · rename_i hc
    have ha : x.length - cap ≤ x.length := Nat.sub_le _ _
    have e1 : (x ++ y).length - cap = (x.length - cap) + ((List.drop (x.length - cap) x ++ y).length - cap) := by
      simp only [List.length_append, List.length_drop]; omega
    rw [e1, ← List.drop_drop, List.drop_append_of_le_length ha]
  · rfl

/-- a delivery under a mailbox cap (no byte limit): the mailbox shows the last `cap` of (what it showed ++ the new
    message); no other mailbox changes -/
theorem listing_add_cap (c : Cfg) (hl : c.limit = 0) (s : Store) (b : Bytes) (hdr : Meta) (src : Bytes) (b' : Bytes) :
    listing (step c s (.add b hdr src)).1 b' =
      if b' = b then lastCap c.cap (listing s b ++ [newMsg s b hdr src]) else listing s b' := by
  by_cases hb : b' = b
  · subst hb
    simp only [if_true]
    unfold listing
    rw [Ibx.Lemmas.SmtpStore.step_add_msgs c hl, capEvict_kept_box]
    have hm : inBox b' ({ box := b', id := s.next b' + 1, hdr := hdr, seen := false, source := src } : Msg) = true := by
      simp [inBox]
    simp only [List.filter_append, List.filter_cons, hm, if_true, List.filter_nil, lastCap, newMsg]
  · simp only [hb, if_false]
    exact Ibx.Lemmas.SmtpStore.add_other_box c hl s b b' hdr src hb

open Ibx.Lemmas.SmtpStore in
/-- a batch of deliveries under a mailbox cap (no byte limit), seen through `view` (metadata, seen flag, source):
    every mailbox shows the last `cap` of (what it showed ++ the deliveries addressed to it, in order, unseen) -/
theorem addAll_cap_view (c : Cfg) (hl : c.limit = 0) (s : Store) (l : List (Bytes × Meta × Bytes)) (b : Bytes)
    (hs : c.cap = 0 ∨ (listing s b).length ≤ c.cap) :
    (listing (addAll c s l) b).map view =
      lastCap c.cap ((listing s b).map view ++ (l.filter (fun x => x.1 == b)).map (fun x => (x.2.1, false, x.2.2))) := by
  induction l generalizing s with
  | nil =>
    simp only [addAll, List.foldl_nil, List.filter_nil, List.map_nil, List.append_nil]
    rw [lastCap_of_le]
    simpa using hs
  | cons x l ih =>
    have hstep := listing_add_cap c hl s x.1 x.2.1 x.2.2 b
    have hs1 : c.cap = 0 ∨ (listing (step c s (.add x.1 x.2.1 x.2.2)).1 b).length ≤ c.cap := by
      rcases Nat.eq_zero_or_pos c.cap with h0 | hpos
      · exact .inl h0
      · right
        rw [hstep]
        split
        · exact lastCap_length _ hpos _
        · rcases hs with h | h
          · omega
          · exact h
    rw [addAll_cons, ih _ hs1, hstep]
    by_cases hb : b = x.1
    · subst hb
      have hx : (x.1 == x.1) = true := by simp
      simp only [if_true, List.filter_cons, hx, List.map_cons]
      rw [lastCap_map, List.map_append, lastCap_append_lastCap]
      simp [view, newMsg]
    · have hx : (x.1 == b) = false := by simp only [beq_eq_false_iff_ne, ne_eq]; exact fun e => hb e.symm
      simp only [hb, if_false, List.filter_cons, hx]
      simp

theorem after_adds (c : Cfg) (s : Store) (l : List (Bytes × Meta × Bytes)) :
    after c s (l.map addOf) = Ibx.Lemmas.SmtpStore.addAll c s l := by
  induction l generalizing s with
  | nil => rfl
  | cons x l ih => rw [List.map_cons, after_cons, ih]; rfl

/-! ## Part C — what a whole SMTP connection delivers -/

open Ibx.Model.Smtp Ibx.Lemmas.Smtp Ibx.Lemmas.SmtpLoop in
/-- the environment the property C01 quantifies over: no BeforeMessageStored extension redirects, the store takes
    every AddMessage -/
def Clean (e : Smtp.Env) : Prop := (∀ ib, e.hookStored ib = none) ∧ (∀ mb, e.storeFails mb = false)

open Ibx.Model.Smtp Ibx.Lemmas.Smtp Ibx.Lemmas.SmtpLoop in
/-- the copies one completed data phase must make: none when the block is over the limit or its headers do not
    parse, else one per accepted storable recipient of the envelope, in order -/
def phaseCopies (e : Smtp.Env) (ph : Phase) : List Stored :=
  if (ph.block.length : Int) > e.maxBytes then []
  else match e.hdr ph.block with
    | none => []
    | some h => (Ibx.Props.C01.storable e ph.sess).map (Ibx.Props.C01.copyFor e ph.sess h ph.block)

open Ibx.Model.Smtp Ibx.Lemmas.Smtp Ibx.Lemmas.SmtpLoop in
/-- everything a connection must deliver, in order -/
def delivered (e : Smtp.Env) (b : Option Nat) (w : Bytes) : List Stored :=
  (runPhases e b w).flatMap (phaseCopies e)

theorem copies_eq (evs : List Smtp.Ev) : copies evs = Ibx.Lemmas.SmtpLoop.storedOf evs := rfl

open Ibx.Model.Smtp Ibx.Lemmas.Smtp Ibx.Lemmas.SmtpLoop in
theorem phase_copies (e : Smtp.Env) (hc : Clean e) (b : Option Nat) (w : Bytes) (ph : Phase)
    (hph : ph ∈ runPhases e b w) : storedOf ph.evs = phaseCopies e ph := by
  obtain ⟨_, hevs, _⟩ := Ibx.Props.C03.phases_complete e b w ph hph
  rw [hevs, storedOf_reverse]
  unfold phaseCopies
  by_cases hsz : (ph.block.length : Int) > e.maxBytes
  · rw [if_pos hsz, Ibx.Props.C01.refused_oversize_stores_nothing e ph.sess ph.block [] hsz]
    rfl
  · rw [if_neg hsz]
    have hsz' : (ph.block.length : Int) ≤ e.maxBytes := by omega
    cases hh : e.hdr ph.block with
    | none =>
      rw [Ibx.Props.C01.refused_badheader_stores_nothing e ph.sess ph.block [] hsz' hh]
      rfl
    | some h =>
      rw [Ibx.Props.C01.handleData_exact e ph.sess ph.block [] h (hc.1 _) hc.2 hh hsz']
      simp only [List.append_nil, storedOf_reply, ← storedOf_reverse, List.reverse_reverse]
      induction (Ibx.Props.C01.storable e ph.sess) with
      | nil => rfl
      | cons r rs ih => simp [ih]

open Ibx.Model.Smtp Ibx.Lemmas.Smtp Ibx.Lemmas.SmtpLoop in
/-- the copies of a whole connection are exactly `delivered` -/
theorem smtp_copies_exact (e : Smtp.Env) (hc : Clean e) (b : Option Nat) (w : Bytes) :
    copies (Smtp.run e b w).1 = delivered e b w := by
  rw [copies_eq, run_stored]
  unfold delivered
  generalize hL : runPhases e b w = L
  have : ∀ ph ∈ L, ph ∈ runPhases e b w := by rw [hL]; exact fun _ h => h
  clear hL
  induction L with
  | nil => rfl
  | cons ph L ih =>
    simp only [List.flatMap_cons]
    rw [phase_copies e hc b w ph (this ph List.mem_cons_self), ih (fun p hp => this p (List.mem_cons_of_mem _ hp))]

theorem stampFrom_box (clock : Nat → Int) (k : Nat) (l : List Smtp.Stored) :
    (stampFrom clock k l).map (·.1) = l.map (·.mailbox) := by
  induction l generalizing k with
  | nil => rfl
  | cons x l ih => simp [stampFrom, ih]

theorem stampFrom_mem (clock : Nat → Int) (k : Nat) (l : List Smtp.Stored) :
    ∀ y ∈ stampFrom clock k l, ∃ x ∈ l, ∃ j, y = (x.mailbox, { x.hdr with date := clock j }, x.source) := by
  induction l generalizing k with
  | nil => simp [stampFrom]
  | cons x l ih =>
    intro y hy
    simp only [stampFrom, List.mem_cons] at hy
    rcases hy with rfl | hy
    · exact ⟨x, List.mem_cons_self, k, rfl⟩
    · obtain ⟨x', hx', j, rfl⟩ := ih _ y hy
      exact ⟨x', List.mem_cons_of_mem _ hx', j, rfl⟩

theorem mem_stampFrom (clock : Nat → Int) (k : Nat) (l : List Smtp.Stored) (x : Smtp.Stored) (hx : x ∈ l) :
    ∃ j, (x.mailbox, { x.hdr with date := clock j }, x.source) ∈ stampFrom clock k l := by
  induction l generalizing k with
  | nil => simp at hx
  | cons y l ih =>
    rcases List.mem_cons.1 hx with rfl | hx
    · exact ⟨k, by simp [stampFrom]⟩
    · obtain ⟨j, hj⟩ := ih (k + 1) hx
      exact ⟨j, by simp [stampFrom, hj]⟩

theorem stampFrom_length (clock : Nat → Int) (k : Nat) (l : List Smtp.Stored) :
    (stampFrom clock k l).length = l.length := by
  induction l generalizing k with
  | nil => rfl
  | cons x l ih => simp [stampFrom, ih]

/-! ## Part D — where a live message comes from -/

/-- what any store operation can do to the message list, content-wise: every message afterwards has the mailbox,
    source and metadata of an old one, or is the one just added -/
theorem step_src (c : Cfg) (s : Store) (op : Op) (x' : Msg) (h : x' ∈ (step c s op).1.msgs) :
    (∃ x ∈ s.msgs, x'.box = x.box ∧ x'.source = x.source ∧ x'.hdr = x.hdr) ∨
    (∃ b hdr src, op = .add b hdr src ∧ x'.box = b ∧ x'.source = src ∧ x'.hdr = hdr) := by
  cases op with
  | add b hdr src =>
    have := (Ibx.Lemmas.Retention.add_sublist c s b hdr src).subset h
    rcases List.mem_append.1 this with h1 | h1
    · exact .inl ⟨x', h1, rfl, rfl, rfl⟩
    · have hx : x' = { box := b, id := s.next b + 1, hdr := hdr, seen := false, source := src } := by simpa using h1
      subst hx
      exact .inr ⟨b, hdr, src, rfl, rfl, rfl, rfl⟩
  | get b i => left; simp only [step] at h; split at h <;> exact ⟨x', h, rfl, rfl, rfl⟩
  | latest b => left; simp only [step] at h; split at h <;> exact ⟨x', h, rfl, rfl, rfl⟩
  | list b => left; exact ⟨x', by simpa [step] using h, rfl, rfl, rfl⟩
  | seen b i =>
    left; simp only [step] at h; split at h
    · simp only [List.mem_map] at h
      obtain ⟨x, hx, rfl⟩ := h
      refine ⟨x, hx, ?_⟩
      split <;> simp
    · exact ⟨x', h, rfl, rfl, rfl⟩
  | remove b i =>
    left; simp only [step] at h; split at h
    · exact ⟨x', (List.mem_filter.1 h).1, rfl, rfl, rfl⟩
    · exact ⟨x', h, rfl, rfl, rfl⟩
  | purge b => left; simp only [step] at h; exact ⟨x', (List.mem_filter.1 h).1, rfl, rfl, rfl⟩
  | visit => left; exact ⟨x', by simpa [step] using h, rfl, rfl, rfl⟩

theorem after_src (c : Cfg) (s : Store) (ops : List Op) (x' : Msg) (h : x' ∈ (after c s ops).msgs) :
    (∃ x ∈ s.msgs, x'.box = x.box ∧ x'.source = x.source ∧ x'.hdr = x.hdr) ∨
    (∃ b hdr src, Op.add b hdr src ∈ ops ∧ x'.box = b ∧ x'.source = src ∧ x'.hdr = hdr) := by
  induction ops generalizing s with
  | nil => exact .inl ⟨x', h, rfl, rfl, rfl⟩
  | cons op ops ih =>
    rw [after_cons] at h
    rcases ih _ h with ⟨x, hx, e1, e2, e3⟩ | ⟨b, hdr, src, hm, e1, e2, e3⟩
    · rcases step_src c s op x hx with ⟨y, hy, f1, f2, f3⟩ | ⟨b, hdr, src, rfl, f1, f2, f3⟩
      · exact .inl ⟨y, hy, e1.trans f1, e2.trans f2, e3.trans f3⟩
      · exact .inr ⟨b, hdr, src, List.mem_cons_self, e1.trans f1, e2.trans f2, e3.trans f3⟩
    · exact .inr ⟨b, hdr, src, List.mem_cons_of_mem _ hm, e1, e2, e3⟩

/-- only an SMTP connection makes the store add anything (when no direct `add` is issued) -/
theorem calls_adds (k : Sys.Cfg) (st : State) (op : SOp) (hop : noDirectAdd op = true) (b : Bytes) (hdr : Meta)
    (src : Bytes) (h : Op.add b hdr src ∈ calls k st op) :
    ∃ e budget clock w, op = .smtp e budget clock w ∧ (b, hdr, src) ∈ smtpAdds k e budget clock w := by
  cases op with
  | smtp e budget clock w =>
    simp only [calls, smtpCalls, List.mem_map] at h
    obtain ⟨x, hx, he⟩ := h
    simp only [addOf, Op.add.injEq] at he
    obtain ⟨rfl, rfl, rfl⟩ := he
    exact ⟨e, budget, clock, w, rfl, hx⟩
  | pop3 term lines =>
    simp only [calls, popCalls, List.mem_filterMap] at h
    obtain ⟨id, _, he⟩ := h
    cases hd : k.ids.dec id <;> simp [hd] at he
  | rest hh rq =>
    exfalso
    simp only [calls, restCalls] at h
    split at h
    · simp at h
    · split at h
      · simp at h
      · split at h
        · split at h <;> simp at h
        · simp at h
      · split at h <;> simp at h
      · simp at h
  | scan cutoff =>
    have := scanCallsOver_nonadd k.store cutoff _ st.store _ h
    simp [isAdd] at this
  | store o =>
    simp only [calls, List.mem_singleton] at h
    subst h
    simp [noDirectAdd] at hop

/-- every live message of a system history without direct adds has the mailbox, source and metadata of a message
    that was there at the start, or of a delivery of one of the history's SMTP connections -/
theorem run_src (k : Sys.Cfg) (st : State) (ops : List SOp) (hops : ∀ op ∈ ops, noDirectAdd op = true) (m : Msg)
    (hm : m ∈ (Sys.run k st ops).store.msgs) :
    (∃ m0 ∈ st.store.msgs, m.box = m0.box ∧ m.source = m0.source ∧ m.hdr = m0.hdr) ∨
    (∃ e budget clock w, SOp.smtp e budget clock w ∈ ops ∧
      ∃ x ∈ smtpAdds k e budget clock w, m.box = x.1 ∧ m.source = x.2.2 ∧ m.hdr = x.2.1) := by
  induction ops generalizing st with
  | nil => exact .inl ⟨m, hm, rfl, rfl, rfl⟩
  | cons op ops ih =>
    rw [run_cons] at hm
    rcases ih (Sys.step k st op) (fun o ho => hops o (List.mem_cons_of_mem _ ho)) hm with
      ⟨m0, hm0, e1, e2, e3⟩ | ⟨e, budget, clock, w, hmem, hx⟩
    · rw [(step_is_calls k st op).1] at hm0
      rcases after_src k.store st.store _ m0 hm0 with ⟨y, hy, f1, f2, f3⟩ | ⟨b, hdr, src, hadd, f1, f2, f3⟩
      · exact .inl ⟨y, hy, e1.trans f1, e2.trans f2, e3.trans f3⟩
      · obtain ⟨e, budget, clock, w, rfl, hin⟩ := calls_adds k st op (hops op List.mem_cons_self) b hdr src hadd
        exact .inr ⟨e, budget, clock, w, List.mem_cons_self, (b, hdr, src), hin, e1.trans f1, e2.trans f2, e3.trans f3⟩
    · exact .inr ⟨e, budget, clock, w, List.mem_cons_of_mem _ hmem, hx⟩

/-! ## Part E — every recipient of an envelope was made by `NewRecipient` from the address the client wrote -/

open Ibx.Model.Smtp Ibx.Lemmas.Smtp Ibx.Lemmas.SmtpLoop in
def RcptsOk (e : Smtp.Env) (s : Sess) : Prop := ∀ r ∈ s.rcpts, Addr.newRecipient e.ip e.naming r.addr = some r

open Ibx.Model.Smtp Ibx.Lemmas.Smtp Ibx.Lemmas.SmtpLoop in
theorem rcptSyntax_newRecipient (e : Smtp.Env) (arg addr : Bytes) (r : Addr.Recipient)
    (h : rcptSyntax e arg = some (addr, r)) : Addr.newRecipient e.ip e.naming r.addr = some r := by
  have h2 := (Ibx.Props.C01.mailbox_is_named_by_address e arg addr r h).2
  unfold rcptSyntax at h
  split at h
  · simp at h
  · split at h
    · simp at h
    · rename_i r' hr
      simp only [Option.some.injEq, Prod.mk.injEq] at h
      obtain ⟨h1, rfl⟩ := h
      rw [h2, ← h1]; exact hr

open Ibx.Model.Smtp Ibx.Lemmas.Smtp Ibx.Lemmas.SmtpLoop in
theorem rcptsOk_step (e : Smtp.Env) (s : Sess) (line : Bytes) (s' : Sess) (evs : List Smtp.Ev)
    (hi : RcptsOk e s) (h : Step e s line s' evs) : RcptsOk e s' := by
  cases h
  case rcptOk arg addr r hp hs hsyn hl =>
    intro x hx
    simp only [send_rcpts, List.mem_append, List.mem_singleton] at hx
    rcases hx with hx | rfl
    · exact hi x hx
    · exact rcptSyntax_newRecipient e arg addr _ hsyn
  case rset => intro x hx; simp [reset] at hx
  all_goals (intro x hx; first | exact hi x hx | exact hi x (by simpa using hx))

open Ibx.Model.Smtp Ibx.Lemmas.Smtp Ibx.Lemmas.SmtpLoop in
theorem rcptsOk_reach (e : Smtp.Env) (s : Sess) (g : List Addr.Recipient) (s' : Sess) (g' : List Addr.Recipient)
    (hi : RcptsOk e s) (h : Reach e s g s' g') : RcptsOk e s' := by
  induction h with
  | refl => exact hi
  | line s1 g1 l _ _ _ _ ih => exact rcptsOk_step e s1 l _ _ ih (handleLine_step e s1 l)
  | data s1 g1 block _ _ _ ih => intro x hx; simp [reset] at hx

open Ibx.Model.Smtp Ibx.Lemmas.Smtp Ibx.Lemmas.SmtpLoop in
/-- in every completed data phase of every connection, each recipient of the envelope is `NewRecipient` of the
    address it carries (the address the client wrote in RCPT TO) -/
theorem phase_rcpts_ok (e : Smtp.Env) (b : Option Nat) (w : Bytes) (ph : Phase) (hph : ph ∈ runPhases e b w) :
    ∀ r ∈ ph.sess.rcpts, Addr.newRecipient e.ip e.naming r.addr = some r := by
  obtain ⟨s1, hr, _, _, hsess, _⟩ := phases_reach e _ _ _ _ ph hph
  have h0 : RcptsOk e (start e b) := by intro r hr; simp [start, init, initFor] at hr
  have := rcptsOk_reach e _ _ _ _ h0 hr
  rw [hsess]
  exact this

/-! ## Part F — the event log as the hub's operation queue -/

theorem storeOp_log (c : Cfg) (st : State) (op : Op) : ∃ l, (storeOp c st op).log = st.log ++ l :=
  ⟨_, by simp only [storeOp, List.append_assoc]; rfl⟩

theorem storeOps_log (c : Cfg) (st : State) (ops : List Op) : ∃ l, (storeOps c st ops).log = st.log ++ l := by
  induction ops generalizing st with
  | nil => exact ⟨[], by simp [storeOps]⟩
  | cons op ops ih =>
    obtain ⟨l1, h1⟩ := storeOp_log c st op
    obtain ⟨l2, h2⟩ := ih (storeOp c st op)
    exact ⟨l1 ++ l2, by rw [storeOps_cons, h2, h1, List.append_assoc]⟩

theorem step_log (k : Sys.Cfg) (st : State) (op : SOp) : ∃ l, (Sys.step k st op).log = st.log ++ l := by
  cases op with
  | smtp e budget clock inp => exact storeOps_log _ _ _
  | pop3 term lines => exact storeOps_log _ _ _
  | rest h rq => exact ⟨_, rfl⟩
  | scan cutoff => exact ⟨_, rfl⟩
  | store op => exact storeOp_log _ _ _

/-- the log only grows -/
theorem run_log (k : Sys.Cfg) (st : State) (ops : List SOp) : ∃ l, (Sys.run k st ops).log = st.log ++ l := by
  induction ops generalizing st with
  | nil => exact ⟨[], by simp [Sys.run]⟩
  | cons op ops ih =>
    obtain ⟨l1, h1⟩ := step_log k st op
    obtain ⟨l2, h2⟩ := ih (Sys.step k st op)
    exact ⟨l1 ++ l2, by rw [run_cons, h2, h1, List.append_assoc]⟩

/-- the pairs that entered a store during a history are pairwise distinct and above the counters at its start -/
theorem addedH_nodup (c : Cfg) (s : Store) (ops : List Op) :
    (addedH c s ops).Nodup ∧ ∀ e ∈ addedH c s ops, e.2 > s.next e.1 := by
  induction ops generalizing s with
  | nil => simp [addedH]
  | cons op ops ih =>
    obtain ⟨ih1, ih2⟩ := ih (step c s op).1
    have hmono : ∀ b, s.next b ≤ (step c s op).1.next b := fun b => step_next_mono c s op b
    have hgt : ∀ e ∈ addedH c (step c s op).1 ops, e.2 > s.next e.1 := by
      intro e he; have := ih2 e he; have := hmono e.1; omega
    cases op with
    | add b hdr src =>
      have hn : (step c s (.add b hdr src)).1.next b = s.next b + 1 := by rw [step_add]; simp
      simp only [addedH, added, List.singleton_append, List.nodup_cons, List.mem_cons]
      refine ⟨⟨?_, ih1⟩, ?_⟩
      · intro hin
        have := ih2 _ hin
        simp only [hn] at this
        omega
      · rintro e (rfl | he)
        · simp
        · exact hgt e he
    | _ => simpa [addedH, added] using And.intro ih1 hgt

theorem stoOf_nodup (k : Sys.Cfg) (ops : List SOp) : (stoOf (Sys.run k Sys.init ops).log).Nodup := by
  rw [(run_is_calls k Sys.init ops).2.2]
  simpa [Sys.init] using (addedH_nodup k.store Spec.Store.empty _).1

open Ibx.Spec.HubLog in
theorem entries_hubFeed (enc : Bytes → Nat) (log : List SysEv) :
    (entries (hubFeed enc log)).map (fun e => (e.1.mailbox, e.1.id)) = (stoOf log).map (fun e => (enc e.1, e.2)) := by
  induction log with
  | nil => rfl
  | cons ev log ih =>
    cases ev with
    | stored b i => simpa [hubFeed, hubOp, entries, stoOf] using ih
    | deleted b i => simpa [hubFeed, hubOp, entries, stoOf] using ih

open Ibx.Spec.HubLog in
/-- ids are never reused and `enc` separates the mailbox names that occur: the hub never sees a key twice -/
theorem uniqueKeys_hubFeed (enc : Bytes → Nat) (log : List SysEv) (hn : (stoOf log).Nodup)
    (henc : ∀ e1 ∈ stoOf log, ∀ e2 ∈ stoOf log, enc e1.1 = enc e2.1 → e1.1 = e2.1) :
    UniqueKeys (hubFeed enc log) := by
  unfold UniqueKeys
  rw [entries_hubFeed, List.nodup_iff_pairwise_ne, List.pairwise_map]
  rw [List.nodup_iff_pairwise_ne] at hn
  refine List.Pairwise.imp_of_mem ?_ hn
  intro a b ha hb hab heq
  simp only [Prod.mk.injEq] at heq
  exact hab (Prod.ext (henc a ha b hb heq.1) heq.2)

open Ibx.Spec.HubLog in
theorem mem_history (N : Nat) (ops : List Spec.HubLog.Op) (m : Spec.HubLog.Msg) (h : m ∈ history N ops) :
    ∃ rest, (m, rest) ∈ entries ops ∧ rest.any (deletes m) = false := by
  simp only [history, List.mem_map, List.mem_filter] at h
  obtain ⟨e, ⟨he, hf⟩, rfl⟩ := h
  exact ⟨e.2, List.mem_of_mem_drop he, by simpa using hf⟩

open Ibx.Spec.HubLog in
theorem entries_mid (o1 o2 : List Spec.HubLog.Op) (m : Spec.HubLog.Msg) :
    (m, o2) ∈ entries (o1 ++ .dispatch m :: o2) := by
  induction o1 with
  | nil => simp [entries]
  | cons op o1 ih =>
    cases op <;> simp [entries, ih]

theorem nodup_map_inj {α β : Type} (f : α → β) (l : List α) (h : (l.map f).Nodup) (x y : α) (hx : x ∈ l) (hy : y ∈ l)
    (hxy : f x = f y) : x = y := by
  induction l with
  | nil => simp at hx
  | cons a l ih =>
    simp only [List.map_cons, List.nodup_cons, List.mem_map, not_exists, not_and] at h
    rcases List.mem_cons.1 hx with rfl | hx' <;> rcases List.mem_cons.1 hy with rfl | hy'
    · rfl
    · exact absurd hxy.symm (h.1 y hy')
    · exact absurd hxy (h.1 x hx')
    · exact ih h.2 hx' hy'

/-! ## Part G — POP3 against the system's store -/

/-- the two models of `bufio.ScanLines` (session model / byte-level sender model) agree -/
theorem dropCR_finishLine (cur : Bytes) : Pop3.dropCR cur.reverse = Pop3Send.finishLine cur := by
  cases cur with
  | nil => rfl
  | cons c t =>
    by_cases hc : c = 13
    · subst hc; simp [Pop3.dropCR, Pop3Send.finishLine]
    · have : Pop3Send.finishLine (c :: t) = (c :: t).reverse := by
        unfold Pop3Send.finishLine
        split
        · rename_i h; simp at h; exact absurd h.1 hc
        · rfl
      rw [this]
      simp [Pop3.dropCR, hc]

theorem scanAux_scanLoop (src cur : Bytes) (acc : List Bytes) :
    Pop3.scanAux src cur acc = Pop3Send.scanLoop src cur acc := by
  induction src generalizing cur acc with
  | nil => simp [Pop3.scanAux, Pop3Send.scanLoop, dropCR_finishLine]
  | cons c rest ih =>
    by_cases hc : c = 10
    · subst hc; simp [Pop3.scanAux, Pop3Send.scanLoop, dropCR_finishLine, ih]
    · simp [Pop3.scanAux, Pop3Send.scanLoop, hc, ih]

theorem scanLines_agree (src : Bytes) : Pop3.scanLines src = Pop3Send.scanLines src := scanAux_scanLoop src [] []

theorem dotStuff_dotPrefix (l : Bytes) : Pop3.dotStuff l = Pop3Send.dotPrefix l := by
  cases l with
  | nil => rfl
  | cons c t =>
    by_cases hc : c = 46
    · subst hc; simp [Pop3.dotStuff, Pop3Send.dotPrefix]
    · have : Pop3Send.dotPrefix (c :: t) = c :: t := by
        unfold Pop3Send.dotPrefix
        split
        · rename_i h; simp at h; exact absurd h.1 hc
        · rfl
      rw [this]; simp [Pop3.dotStuff, hc]

/-- the bytes RETR puts on the wire after the status line (each reply line ++ CRLF, then ".") are `pop3Send` -/
theorem retr_wire (src : Bytes) :
    ((Pop3.retrLines src).map (· ++ [13, 10])).flatten ++ [46, 13, 10] = Pop3Send.pop3Send src := by
  unfold Pop3.retrLines Pop3Send.pop3Send
  rw [scanLines_agree, List.map_map]
  congr 2
  apply List.map_congr_left
  intro l _
  simp [Pop3Send.sendLine, dotStuff_dotPrefix]

open Ibx.Model.Pop3 Ibx.Lemmas.Pop3 in
/-- a session over a store that does not change: whatever is removed at the end is what was marked in a TRANSACTION
    state whose snapshot is the store's listing of the logged-in user -/
theorem run_const (σ : Bytes → List Pop3.Msg) (term : Term) (s : St) (hi : Ibx.Lemmas.Pop3.Inv s)
    (hs : s.phase = .trans → s.msgs = σ s.user) (evs : List Pop3.Ev) (hσ : ∀ ev ∈ evs, ev.store = σ) :
    (Pop3.run term s evs).removed = [] ∨
    ∃ sq : St, Ibx.Lemmas.Pop3.Inv sq ∧ sq.phase = .trans ∧ sq.msgs = σ sq.user ∧
      (Pop3.run term s evs).final = { sq with phase := .quit } ∧
      (Pop3.run term s evs).removed = markedIds sq := by
  induction evs generalizing s with
  | nil =>
    left
    unfold Pop3.run
    split
    · rfl
    · cases term <;> rfl
  | cons e evs ih =>
    by_cases hq : s.phase = .quit
    · left; rw [run_quit term s hq]
    · obtain ⟨s', r, rm, hstep, post⟩ := step_ok e.store s hi hq e.line
      have hi' := post_inv post
      have hσe : e.store = σ := hσ e List.mem_cons_self
      have hs' : s'.phase = .trans → s'.msgs = σ s'.user := by
        intro ht
        rcases post with ⟨_, _, _, hc⟩ | ⟨htr, _, hm, hu, hp⟩
        · rcases hc with ⟨hc, _⟩ | ⟨hc, _⟩ | ⟨_, hm, _⟩
          · rw [hc] at ht; cases ht
          · rw [hc] at ht; cases ht
          · rw [hm, hσe]
        · rw [hm, hu, hs htr]
      have hcase : rm = [] ∨ (s.phase = .trans ∧ s' = { s with phase := .quit } ∧ rm = markedIds s) := by
        rcases post with ⟨_, _, e0, _⟩ | ⟨ht, _, _, _, hp⟩
        · exact Or.inl e0
        · rcases hp with ⟨_, e0⟩ | ⟨e1, e2⟩
          · exact Or.inl e0
          · exact Or.inr ⟨ht, e1, e2⟩
      simp only [Pop3.run, if_neg hq, hstep]
      by_cases hso : e.sendOk = true
      · simp only [hso, if_true]
        rcases hcase with e0 | ⟨ht, e1, e2⟩
        · rcases ih s' hi' hs' (fun ev hev => hσ ev (List.mem_cons_of_mem _ hev)) with hl | ⟨sq, h1, h2, h3, h4, h5⟩
          · left; simp [e0, hl]
          · right; exact ⟨sq, h1, h2, h3, h4, by simp [e0, h5]⟩
        · right
          have hq' : s'.phase = .quit := by rw [e1]
          refine ⟨s, hi, ht, hs ht, ?_, ?_⟩
          · rw [run_quit term s' hq' evs, e1]
          · rw [run_quit term s' hq' evs]; simp [e2]
      · simp only [hso]
        rcases hcase with e0 | ⟨ht, e1, e2⟩
        · left; simpa using e0
        · right; exact ⟨s, hi, ht, hs ht, by simpa using e1, by simpa using e2⟩

/-- RemoveMessage(u, ·) for a list of ids: exactly the messages of `u` with those ids go -/
theorem after_removes (c : Cfg) (s : Store) (u : Bytes) (ids : List Nat) :
    (after c s (ids.map (Op.remove u))).msgs = s.msgs.filter (fun m => !(m.box == u && ids.contains m.id)) ∧
    (after c s (ids.map (Op.remove u))).next = s.next := by
  induction ids generalizing s with
  | nil =>
    refine ⟨?_, rfl⟩
    simp only [List.map_nil, after_nil, List.contains_nil, Bool.and_false, Bool.not_false]
    exact (List.filter_eq_self.2 (fun _ _ => rfl)).symm
  | cons i ids ih =>
    obtain ⟨h1, h2, _⟩ := step_remove_msgs c s u i
    rw [List.map_cons, after_cons, (ih _).1, (ih _).2, h1, h2, List.filter_filter]
    refine ⟨List.filter_congr ?_, rfl⟩
    intro m _
    by_cases hb : m.box = u <;> by_cases hi : m.id = i <;> simp [isMsg, hb, hi]
    all_goals (try (intro h; exact absurd h.symm hi))

/-- … and when the ids are distinct and live, exactly one `deleted` event each, in order -/
theorem removes_events (c : Cfg) (s : Store) (u : Bytes) (ids : List Nat) (hn : ids.Nodup)
    (hlive : ∀ i ∈ ids, s.msgs.any (isMsg u i) = true) :
    deleted c s (ids.map (Op.remove u)) = ids.map (fun i => (u, i)) := by
  induction ids generalizing s with
  | nil => rfl
  | cons i ids ih =>
    have hi := hlive i List.mem_cons_self
    obtain ⟨h1, _, _⟩ := step_remove_msgs c s u i
    have hev : (step c s (.remove u i)).2.2 = [(u, i)] := by simp [step, hi]
    rw [List.nodup_cons] at hn
    rw [List.map_cons, deleted, hev, ih _ hn.2]
    · rfl
    · intro j hj
      have hji : j ≠ i := fun e => hn.1 (e ▸ hj)
      have := hlive j (List.mem_cons_of_mem _ hj)
      rw [List.any_eq_true] at this ⊢
      obtain ⟨m, hm, hmj⟩ := this
      refine ⟨m, ?_, hmj⟩
      rw [h1, List.mem_filter]
      refine ⟨hm, ?_⟩
      simp only [isMsg, Bool.and_eq_true, beq_iff_eq] at hmj
      simp [isMsg, hmj.2, hji]

theorem storeOps_log_nonadd (c : Cfg) (st : State) (ops : List Op) (hna : ∀ op ∈ ops, isAdd op = false) :
    (storeOps c st ops).log = st.log ++ delEvs (deleted c st.store ops) := by
  induction ops generalizing st with
  | nil => simp [storeOps, deleted, delEvs]
  | cons op ops ih =>
    have h1 : (storeOp c st op).log = st.log ++ delEvs (step c st.store op).2.2 := by
      have := hna op List.mem_cons_self
      cases op
      case add => simp [isAdd] at this
      all_goals simp [storeOp]
    rw [storeOps_cons, ih _ (fun o ho => hna o (List.mem_cons_of_mem _ ho)), h1, storeOp_store]
    simp [deleted, delEvs, List.append_assoc]

open Ibx.Model.Pop3 Ibx.Lemmas.Pop3 in
/-- the ids marked for deletion are the ids of a sub-list of the snapshot -/
theorem marked_of_listing (ids : Ids) (l : List Spec.Store.Msg) (sq : St) (hi : Ibx.Lemmas.Pop3.Inv sq)
    (hm : sq.msgs = l.map (popMsg ids)) :
    ∃ gone : List Spec.Store.Msg, gone.Sublist l ∧ markedIds sq = gone.map (fun m => ids.str m.id) := by
  have h0 := sel_eq_zip_filter sq.retain false (fun m => m.id) sq.msgs 0 (by simp [hi.1])
  simp only [List.drop_zero] at h0
  have h1 : ((sq.msgs.zip sq.retain).filter (fun p => p.2 == false)).Sublist (sq.msgs.zip sq.retain) := List.filter_sublist
  have h2 := h1.map (fun p => p.1.id)
  have h3 : (sq.msgs.zip sq.retain).map (fun p => p.1.id) = sq.msgs.map (·.id) := by
    have : (sq.msgs.zip sq.retain).map (fun p => p.1.id) = ((sq.msgs.zip sq.retain).map Prod.fst).map (·.id) := by
      simp [List.map_map, Function.comp_def]
    rw [this, List.map_fst_zip (by simp [hi.1])]
  rw [h3, hm, List.map_map] at h2
  obtain ⟨gone, hg, he⟩ := List.sublist_map_iff.1 h2
  refine ⟨gone, hg, ?_⟩
  rw [markedIds, h0, hm, he]
  simp [Function.comp_def, popMsg]

end Ibx.Lemmas.SysGlue
