import Ibx.Lemmas.Smtp
import Ibx.Lemmas.SmtpIO
/-
  Lemmas about the command loop of the SMTP session model:
  * one equation per way an iteration can go (`loop_stop`, `loop_line`, `loop_data`, …);
  * the loop is total with fuel `> |input|` and does not depend on the surplus (`loop_fuel`, `loop_total`);
  * `phases` — the completed data phases of a session with the ghost envelope
    ("recipients whose RCPT was answered 250 since the last MAIL answered 250", computed from lines and
    replies only) — and its link to the events of `loop`;
  * `Reach` — the states the loop passes through;
  * prefix theorems: cutting the input, or a failing send, truncates the list of phases, never changes one.
-/
namespace Ibx.Lemmas.SmtpLoop
open Ibx Ibx.Bytes Ibx.Model Ibx.Model.Smtp Ibx.Lemmas.Smtp Ibx.Lemmas.SmtpIO

/-! ### one iteration -/

theorem loop_zero (e : Env) (s : Sess) (inp : Bytes) (acc : List Ev) :
    loop e 0 s inp acc = (acc.reverse, s, .outOfFuel) := rfl

theorem loop_stop_quit (e : Env) (fuel : Nat) (s : Sess) (inp : Bytes) (acc : List Ev) (h : s.st = .quit) :
    loop e (fuel + 1) s inp acc = (acc.reverse, s, .quit) := by
  simp [loop, h]

theorem loop_stop_sendErr (e : Env) (fuel : Nat) (s : Sess) (inp : Bytes) (acc : List Ev) (h : s.st ≠ .quit)
    (h2 : s.sendErr = true) : loop e (fuel + 1) s inp acc = (acc.reverse, s, .sendError) := by
  simp [loop, h, h2]

theorem loop_data_cut (e : Env) (fuel : Nat) (s : Sess) (inp : Bytes) (acc : List Ev) (h2 : s.sendErr = false)
    (h3 : s.st = .data) (hd : Dot.dotDecode inp = none) :
    loop e (fuel + 1) s inp acc = ((Ev.reply [354] :: acc).reverse, { send s 1 with st := .quit }, .dataCut) := by
  simp [loop, h2, h3, hd, say]

theorem loop_data (e : Env) (fuel : Nat) (s : Sess) (inp : Bytes) (acc : List Ev) (h2 : s.sendErr = false)
    (h3 : s.st = .data) (block rest : Bytes) (hd : Dot.dotDecode inp = some (block, rest)) :
    loop e (fuel + 1) s inp acc =
      loop e fuel (send (reset (send s 1)) 1) rest ((handleData e (send s 1) block []).2 ++ Ev.reply [354] :: acc) := by
  have : handleData e (send s 1) block (Ev.reply [354] :: acc) =
      (send (reset (send s 1)) 1, (handleData e (send s 1) block []).2 ++ Ev.reply [354] :: acc) := by
    rw [handleData_acc]; simp
  simp [loop, h2, h3, hd, say, this]

theorem loop_eof (e : Env) (fuel : Nat) (s : Sess) (acc : List Ev) (h1 : s.st ≠ .quit) (h2 : s.sendErr = false)
    (h3 : s.st ≠ .data) : loop e (fuel + 1) s [] acc = (acc.reverse, s, .eof) := by
  simp [loop, h1, h2, h3, readLine_nil]

theorem loop_line (e : Env) (fuel : Nat) (s : Sess) (inp : Bytes) (acc : List Ev) (h1 : s.st ≠ .quit)
    (h2 : s.sendErr = false) (h3 : s.st ≠ .data) (line rest : Bytes) (hl : Line.readLine inp = some (line, rest)) :
    loop e (fuel + 1) s inp acc =
      loop e fuel (handleLine e s line []).1 rest ((handleLine e s line []).2 ++ acc) := by
  have : handleLine e s line acc = ((handleLine e s line []).1, (handleLine e s line []).2 ++ acc) :=
    handleLine_acc ..
  simp [loop, h1, h2, h3, hl, this]

/-- how an iteration can go -/
inductive Iter (s : Sess) (inp : Bytes) : Prop
  | quit (h : s.st = .quit)
  | sendErr (h : s.st ≠ .quit) (h2 : s.sendErr = true)
  | dataCut (h2 : s.sendErr = false) (h3 : s.st = .data) (hd : Dot.dotDecode inp = none)
  | data (h2 : s.sendErr = false) (h3 : s.st = .data) (block rest : Bytes)
      (hd : Dot.dotDecode inp = some (block, rest))
  | eof (h1 : s.st ≠ .quit) (h2 : s.sendErr = false) (h3 : s.st ≠ .data) (hi : inp = [])
  | line (h1 : s.st ≠ .quit) (h2 : s.sendErr = false) (h3 : s.st ≠ .data) (line rest : Bytes)
      (hl : Line.readLine inp = some (line, rest))

theorem iter (s : Sess) (inp : Bytes) : Iter s inp := by
  by_cases h1 : s.st = .quit
  · exact .quit h1
  by_cases h2 : s.sendErr = true
  · exact .sendErr h1 h2
  have h2 : s.sendErr = false := by simpa using h2
  by_cases h3 : s.st = .data
  · cases hd : Dot.dotDecode inp with
    | none => exact .dataCut h2 h3 hd
    | some br => exact .data h2 h3 br.1 br.2 hd
  · cases hl : Line.readLine inp with
    | none => exact .eof h1 h2 h3 ((readLine_none_iff _).mp hl)
    | some lr => exact .line h1 h2 h3 lr.1 lr.2 hl

/-! ### accumulator, fuel, totality -/

theorem loop_acc (e : Env) (fuel : Nat) (s : Sess) (inp : Bytes) (acc : List Ev) :
    loop e fuel s inp acc =
      (acc.reverse ++ (loop e fuel s inp []).1, (loop e fuel s inp []).2.1, (loop e fuel s inp []).2.2) := by
  induction fuel generalizing s inp acc with
  | zero => simp [loop_zero]
  | succ fuel ih =>
    cases iter s inp with
    | quit h => simp [loop_stop_quit _ _ _ _ _ h]
    | sendErr h h2 => simp [loop_stop_sendErr _ _ _ _ _ h h2]
    | dataCut h2 h3 hd => simp [loop_data_cut _ _ _ _ _ h2 h3 hd]
    | data h2 h3 block rest hd =>
      rw [loop_data _ _ _ _ _ h2 h3 block rest hd, loop_data _ _ _ _ _ h2 h3 block rest hd, ih, ih (acc := _ ++ [_])]
      simp
    | eof h1 h2 h3 hi => subst hi; simp [loop_eof _ _ _ _ h1 h2 h3]
    | line h1 h2 h3 line rest hl =>
      rw [loop_line _ _ _ _ _ h1 h2 h3 line rest hl, loop_line _ _ _ _ _ h1 h2 h3 line rest hl, ih,
        ih (acc := _ ++ [])]
      simp

/-- any fuel above the input length gives the same run -/
theorem loop_fuel (e : Env) (f1 f2 : Nat) (s : Sess) (inp : Bytes) (acc : List Ev)
    (h1 : inp.length < f1) (h2 : inp.length < f2) : loop e f1 s inp acc = loop e f2 s inp acc := by
  induction f1 generalizing f2 s inp acc with
  | zero => omega
  | succ f1 ih =>
    cases f2 with
    | zero => omega
    | succ f2 =>
      cases iter s inp with
      | quit h => simp [loop_stop_quit _ _ _ _ _ h]
      | sendErr h h2 => simp [loop_stop_sendErr _ _ _ _ _ h h2]
      | dataCut h2 h3 hd => simp [loop_data_cut _ _ _ _ _ h2 h3 hd]
      | data hs h3 block rest hd =>
        rw [loop_data _ _ _ _ _ hs h3 block rest hd, loop_data _ _ _ _ _ hs h3 block rest hd]
        have := dotDecode_rest_lt _ _ _ hd
        exact ih _ _ _ _ (by omega) (by omega)
      | eof hq hs h3 hi => subst hi; simp [loop_eof _ _ _ _ hq hs h3]
      | line hq hs h3 line rest hl =>
        rw [loop_line _ _ _ _ _ hq hs h3 line rest hl, loop_line _ _ _ _ _ hq hs h3 line rest hl]
        have := readLine_rest_lt _ _ _ hl
        exact ih _ _ _ _ (by omega) (by omega)

/-- every iteration consumes input or terminates: fuel above the input length is never used up -/
theorem loop_total (e : Env) (fuel : Nat) (s : Sess) (inp : Bytes) (acc : List Ev) (h : inp.length < fuel) :
    (loop e fuel s inp acc).2.2 ≠ .outOfFuel := by
  induction fuel generalizing s inp acc with
  | zero => omega
  | succ fuel ih =>
    cases iter s inp with
    | quit h => simp [loop_stop_quit _ _ _ _ _ h]
    | sendErr h h2 => simp [loop_stop_sendErr _ _ _ _ _ h h2]
    | dataCut h2 h3 hd => simp [loop_data_cut _ _ _ _ _ h2 h3 hd]
    | data hs h3 block rest hd =>
      rw [loop_data _ _ _ _ _ hs h3 block rest hd]
      have := dotDecode_rest_lt _ _ _ hd
      exact ih _ _ _ (by omega)
    | eof h1 h2 h3 hi => subst hi; simp [loop_eof _ _ _ _ h1 h2 h3]
    | line hq hs h3 line rest hl =>
      rw [loop_line _ _ _ _ _ hq hs h3 line rest hl]
      have := readLine_rest_lt _ _ _ hl
      exact ih _ _ _ (by omega)

/-- the command loop itself never reports a failed handshake: that outcome belongs to `runWire` -/
theorem loop_not_tlsFail (e : Env) (fuel : Nat) (s : Sess) (inp : Bytes) (acc : List Ev) :
    (loop e fuel s inp acc).2.2 ≠ .tlsFail := by
  induction fuel generalizing s inp acc with
  | zero => simp [loop_zero]
  | succ fuel ih =>
    cases iter s inp with
    | quit h => simp [loop_stop_quit _ _ _ _ _ h]
    | sendErr h h2 => simp [loop_stop_sendErr _ _ _ _ _ h h2]
    | dataCut h2 h3 hd => simp [loop_data_cut _ _ _ _ _ h2 h3 hd]
    | data hs h3 block rest hd =>
      rw [loop_data _ _ _ _ _ hs h3 block rest hd]
      exact ih _ _ _
    | eof h1 h2 h3 hi => subst hi; simp [loop_eof _ _ _ _ h1 h2 h3]
    | line hq hs h3 line rest hl =>
      rw [loop_line _ _ _ _ _ hq hs h3 line rest hl]
      exact ih _ _ _

/-! ### completed data phases, with the ghost envelope -/

/-- the successfully stored copies among some events -/
def storedOf (evs : List Ev) : List Stored :=
  evs.filterMap (fun ev => match ev with | .stored x => some x | _ => none)

@[simp] theorem storedOf_nil : storedOf [] = [] := rfl
@[simp] theorem storedOf_append (a b : List Ev) : storedOf (a ++ b) = storedOf a ++ storedOf b := by
  simp [storedOf]
@[simp] theorem storedOf_reply (c : List Nat) (l : List Ev) : storedOf (.reply c :: l) = storedOf l := by
  simp [storedOf]
@[simp] theorem storedOf_hookReply (c : Nat) (m : Bytes) (l : List Ev) : storedOf (.hookReply c m :: l) = storedOf l := by
  simp [storedOf]
@[simp] theorem storedOf_failed (l : List Ev) : storedOf (.deliverFailed :: l) = storedOf l := by
  simp [storedOf]
@[simp] theorem storedOf_stored (x : Stored) (l : List Ev) : storedOf (.stored x :: l) = x :: storedOf l := by
  simp [storedOf]

theorem storedOf_reverse (l : List Ev) : storedOf l.reverse = (storedOf l).reverse := by
  simp [storedOf, List.filterMap_reverse]

theorem mem_storedOf (x : Stored) (evs : List Ev) : x ∈ storedOf evs ↔ Ev.stored x ∈ evs := by
  induction evs with
  | nil => simp
  | cons ev evs ih => cases ev <;> simp [ih]

/-- a command line never stores anything -/
theorem step_no_stored (e : Env) (s : Sess) (line : Bytes) (s' : Sess) (evs : List Ev) (h : Step e s line s' evs) :
    storedOf evs = [] := by
  cases h <;> simp

theorem handleLine_no_stored (e : Env) (s : Sess) (line : Bytes) : storedOf (handleLine e s line []).2 = [] :=
  step_no_stored _ _ _ _ _ (handleLine_step e s line)

/-- ghost envelope: updated from the command line and the reply it received, nothing else.
    `MAIL` answered 250 opens a new (empty) transaction; `RCPT` answered 250 appends the recipient it names. -/
def ghostStep (e : Env) (g : List Addr.Recipient) (line : Bytes) (evs : List Ev) : List Addr.Recipient :=
  match parseCmd line with
  | .cmd name arg =>
    if evs = [.reply [250]] then
      if name = ofAscii "MAIL" then []
      else if name = ofAscii "RCPT" then
        match rcptSyntax e arg with
        | some (_, r) => g ++ [r]
        | none => g
      else g
    else g
  | _ => g

/-- one completed data phase -/
structure Phase where
  /-- ghost envelope when the phase starts -/
  ghost : List Addr.Recipient
  /-- the session in which `handleData` ran (I/O fields forgotten) -/
  sess : Sess
  /-- the decoded block -/
  block : Bytes
  /-- what `handleData` emitted, oldest first -/
  evs : List Ev

/-- the completed data phases of the loop started in `s` on `inp`, in order -/
def phases (e : Env) : Nat → Sess → List Addr.Recipient → Bytes → List Phase
  | 0, _, _, _ => []
  | fuel + 1, s, g, inp =>
    if s.st == .quit then []
    else if s.sendErr then []
    else if s.st == .data then
      match Dot.dotDecode inp with
      | none => []
      | some (block, rest) =>
        { ghost := g, sess := erase s, block := block, evs := (handleData e (erase s) block []).2.reverse } ::
          phases e fuel (send (reset (send s 1)) 1) g rest
    else
      match Line.readLine inp with
      | none => []
      | some (line, rest) =>
        phases e fuel (handleLine e s line []).1 (ghostStep e g line (handleLine e s line []).2) rest

theorem phases_stop (e : Env) (fuel : Nat) (s : Sess) (g : List Addr.Recipient) (inp : Bytes)
    (h : s.st = .quit ∨ s.sendErr = true) : phases e fuel s g inp = [] := by
  cases fuel with
  | zero => rfl
  | succ fuel => rcases h with h | h <;> simp [phases, h]

theorem phases_data_cut (e : Env) (fuel : Nat) (s : Sess) (g : List Addr.Recipient) (inp : Bytes)
    (hd : Dot.dotDecode inp = none) (h3 : s.st = .data) : phases e fuel s g inp = [] := by
  cases fuel with
  | zero => rfl
  | succ fuel => simp [phases, h3, hd]

theorem phases_data (e : Env) (fuel : Nat) (s : Sess) (g : List Addr.Recipient) (inp : Bytes) (h2 : s.sendErr = false)
    (h3 : s.st = .data) (block rest : Bytes) (hd : Dot.dotDecode inp = some (block, rest)) :
    phases e (fuel + 1) s g inp =
      { ghost := g, sess := erase s, block := block, evs := (handleData e (erase s) block []).2.reverse } ::
        phases e fuel (send (reset (send s 1)) 1) g rest := by
  simp [phases, h2, h3, hd]

theorem phases_eof (e : Env) (fuel : Nat) (s : Sess) (g : List Addr.Recipient) (h3 : s.st ≠ .data) :
    phases e fuel s g [] = [] := by
  cases fuel with
  | zero => rfl
  | succ fuel => simp [phases, h3, readLine_nil]

theorem phases_line (e : Env) (fuel : Nat) (s : Sess) (g : List Addr.Recipient) (inp : Bytes) (h1 : s.st ≠ .quit)
    (h2 : s.sendErr = false) (h3 : s.st ≠ .data) (line rest : Bytes) (hl : Line.readLine inp = some (line, rest)) :
    phases e (fuel + 1) s g inp =
      phases e fuel (handleLine e s line []).1 (ghostStep e g line (handleLine e s line []).2) rest := by
  simp [phases, h1, h2, h3, hl]

/-- the events of a data phase, as the loop sees them -/
theorem handleData_send_erase (e : Env) (s : Sess) (block : Bytes) :
    (handleData e (send s 1) block []).2 = (handleData e (erase s) block []).2 := by
  have := handleData_erase e (send s 1) block []
  rw [erase_send] at this
  rw [this]

/-- the stored copies of a run are exactly those of its completed data phases, in order -/
theorem loop_stored (e : Env) (fuel : Nat) (s : Sess) (g : List Addr.Recipient) (inp : Bytes) (acc : List Ev) :
    storedOf (loop e fuel s inp acc).1 =
      storedOf acc.reverse ++ (phases e fuel s g inp).flatMap (fun ph => storedOf ph.evs) := by
  induction fuel generalizing s g inp acc with
  | zero => simp [loop_zero, phases]
  | succ fuel ih =>
    cases iter s inp with
    | quit h => simp [loop_stop_quit _ _ _ _ _ h, phases_stop _ _ _ _ _ (.inl h)]
    | sendErr h h2 => simp [loop_stop_sendErr _ _ _ _ _ h h2, phases_stop _ _ _ _ _ (.inr h2)]
    | dataCut h2 h3 hd => simp [loop_data_cut _ _ _ _ _ h2 h3 hd, phases_data_cut _ _ _ _ _ hd h3]
    | data h2 h3 block rest hd =>
      rw [loop_data _ _ _ _ _ h2 h3 block rest hd, phases_data _ _ _ _ _ h2 h3 block rest hd, ih (g := g),
        handleData_send_erase]
      simp
    | eof h1 h2 h3 hi => subst hi; simp [loop_eof _ _ _ _ h1 h2 h3, phases_eof _ _ _ _ h3]
    | line h1 h2 h3 line rest hl =>
      rw [loop_line _ _ _ _ _ h1 h2 h3 line rest hl, phases_line _ _ _ _ _ h1 h2 h3 line rest hl,
        ih (g := ghostStep e g line (handleLine e s line []).2)]
      simp [storedOf_reverse, handleLine_no_stored]

/-! ### the states the loop passes through -/

/-- `Reach e s g s' g'`: started at a loop head in state `s` with ghost `g`, the loop can be at a loop head in
    state `s'` with ghost `g'` (for some input) -/
inductive Reach (e : Env) (s : Sess) (g : List Addr.Recipient) : Sess → List Addr.Recipient → Prop
  | refl : Reach e s g s g
  | line (s1 : Sess) (g1 : List Addr.Recipient) (l : Bytes) (h : Reach e s g s1 g1) (h1 : s1.st ≠ .quit)
      (h2 : s1.sendErr = false) (h3 : s1.st ≠ .data) :
      Reach e s g (handleLine e s1 l []).1 (ghostStep e g1 l (handleLine e s1 l []).2)
  | data (s1 : Sess) (g1 : List Addr.Recipient) (block : Bytes) (h : Reach e s g s1 g1) (h2 : s1.sendErr = false)
      (h3 : s1.st = .data) : Reach e s g (handleData e (send s1 1) block []).1 g1

theorem Reach.trans {e : Env} {s : Sess} {g : List Addr.Recipient} {s1 : Sess} {g1 : List Addr.Recipient}
    {s2 : Sess} {g2 : List Addr.Recipient} (h : Reach e s g s1 g1) (h' : Reach e s1 g1 s2 g2) : Reach e s g s2 g2 := by
  induction h' with
  | refl => exact h
  | line s3 g3 l _ h1 h2 h3 ih => exact .line s3 g3 l ih h1 h2 h3
  | data s3 g3 block _ h2 h3 ih => exact .data s3 g3 block ih h2 h3

/-- every data phase of a run starts in a state the loop passes through -/
theorem phases_reach (e : Env) (fuel : Nat) (s : Sess) (g : List Addr.Recipient) (inp : Bytes) :
    ∀ ph ∈ phases e fuel s g inp, ∃ s1, Reach e s g s1 ph.ghost ∧ s1.st = .data ∧ s1.sendErr = false ∧
      ph.sess = erase s1 ∧ ph.evs = (handleData e (erase s1) ph.block []).2.reverse ∧
      ∃ suf rest, suf <:+ inp ∧ Dot.dotDecode suf = some (ph.block, rest) := by
  induction fuel generalizing s g inp with
  | zero => simp [phases]
  | succ fuel ih =>
    cases iter s inp with
    | quit h => simp [phases_stop _ _ _ _ _ (.inl h)]
    | sendErr h h2 => simp [phases_stop _ _ _ _ _ (.inr h2)]
    | dataCut h2 h3 hd => simp [phases_data_cut _ _ _ _ _ hd h3]
    | data h2 h3 block rest hd =>
      rw [phases_data _ _ _ _ _ h2 h3 block rest hd]
      intro ph hph
      rcases List.mem_cons.mp hph with rfl | hph
      · exact ⟨s, .refl, h3, h2, rfl, rfl, inp, rest, List.suffix_refl _, hd⟩
      · obtain ⟨s1, hr, hs1, hse, hsess, hevs, suf, r, hsuf, hdd⟩ := ih _ _ _ ph hph
        have h0 : Reach e s g (handleData e (send s 1) block []).1 g := .data s g block .refl h2 h3
        rw [handleData_fst] at h0
        obtain ⟨pre, _, hpre⟩ := dotDecode_split _ _ _ hd
        exact ⟨s1, h0.trans hr, hs1, hse, hsess, hevs, suf, r,
          hsuf.trans ⟨pre, hpre.symm⟩, hdd⟩
    | eof h1 h2 h3 hi => subst hi; simp [phases_eof _ _ _ _ h3]
    | line h1 h2 h3 line rest hl =>
      rw [phases_line _ _ _ _ _ h1 h2 h3 line rest hl]
      intro ph hph
      obtain ⟨s1, hr, hs1, hse, hsess, hevs, suf, r, hsuf, hdd⟩ := ih _ _ _ ph hph
      have h0 : Reach e s g (handleLine e s line []).1 (ghostStep e g line (handleLine e s line []).2) :=
        .line s g line .refl h1 h2 h3
      obtain ⟨pre, _, hpre⟩ := readLine_split _ _ _ hl
      exact ⟨s1, h0.trans hr, hs1, hse, hsess, hevs, suf, r, hsuf.trans ⟨pre, hpre.symm⟩, hdd⟩

/-- the state a run ends in is one the loop passes through (or the QUIT state a cut data phase forces) -/
theorem loop_final_reach (e : Env) (fuel : Nat) (s : Sess) (g : List Addr.Recipient) (inp : Bytes) (acc : List Ev) :
    ∃ s1 g1, Reach e s g s1 g1 ∧
      ((loop e fuel s inp acc).2.1 = s1 ∨ (loop e fuel s inp acc).2.1 = { send s1 1 with st := .quit }) := by
  induction fuel generalizing s g inp acc with
  | zero => exact ⟨s, g, .refl, .inl rfl⟩
  | succ fuel ih =>
    cases iter s inp with
    | quit h => exact ⟨s, g, .refl, .inl (by rw [loop_stop_quit _ _ _ _ _ h])⟩
    | sendErr h h2 => exact ⟨s, g, .refl, .inl (by rw [loop_stop_sendErr _ _ _ _ _ h h2])⟩
    | dataCut h2 h3 hd => exact ⟨s, g, .refl, .inr (by rw [loop_data_cut _ _ _ _ _ h2 h3 hd])⟩
    | data h2 h3 block rest hd =>
      rw [loop_data _ _ _ _ _ h2 h3 block rest hd]
      obtain ⟨s1, g1, hr, hf⟩ := ih (send (reset (send s 1)) 1) g rest
        ((handleData e (send s 1) block []).2 ++ Ev.reply [354] :: acc)
      have h0 : Reach e s g (handleData e (send s 1) block []).1 g := .data s g block .refl h2 h3
      rw [handleData_fst] at h0
      exact ⟨s1, g1, h0.trans hr, hf⟩
    | eof h1 h2 h3 hi => subst hi; exact ⟨s, g, .refl, .inl (by rw [loop_eof _ _ _ _ h1 h2 h3])⟩
    | line h1 h2 h3 line rest hl =>
      rw [loop_line _ _ _ _ _ h1 h2 h3 line rest hl]
      obtain ⟨s1, g1, hr, hf⟩ := ih (handleLine e s line []).1 (ghostStep e g line (handleLine e s line []).2) rest
        ((handleLine e s line []).2 ++ acc)
      exact ⟨s1, g1, (Reach.line s g line .refl h1 h2 h3).trans hr, hf⟩

/-! ### cutting the input, failing sends -/

/-- whatever the state, an input without a complete unit left completes no data phase -/
theorem phases_nil_input (e : Env) (fuel : Nat) (s : Sess) (g : List Addr.Recipient) : phases e fuel s g [] = [] := by
  cases fuel with
  | zero => rfl
  | succ fuel => simp [phases, readLine_nil, dotDecode_nil]

/-- a prefix of the input completes a prefix of the data phases — the same phases, with the same outcomes -/
theorem phases_prefix (e : Env) (f1 f2 : Nat) (s : Sess) (g : List Addr.Recipient) (p q : Bytes)
    (h1 : p.length < f1) (h2 : (p ++ q).length < f2) :
    phases e f1 s g p <+: phases e f2 s g (p ++ q) := by
  induction f1 generalizing f2 s g p with
  | zero => omega
  | succ f1 ih =>
    cases f2 with
    | zero => omega
    | succ f2 =>
      cases iter s p with
      | quit h => simp [phases_stop _ _ _ _ _ (.inl h)]
      | sendErr h h2 => simp [phases_stop _ _ _ _ _ (.inr h2)]
      | dataCut h2 h3 hd => simp [phases_data_cut _ _ _ _ _ hd h3]
      | data hs h3 block rest hd =>
        rw [phases_data _ _ _ _ _ hs h3 block rest hd,
          phases_data _ _ _ _ _ hs h3 block (rest ++ q) (dotDecode_append _ _ _ _ hd)]
        have := dotDecode_rest_lt _ _ _ hd
        have hlen : (rest ++ q).length < f2 := by simp at h2 ⊢; omega
        obtain ⟨t, ht⟩ := ih f2 _ g rest (by omega) hlen
        exact ⟨t, by rw [← ht]; simp⟩
      | eof hq hs h3 hi => subst hi; simp [phases_eof _ _ _ _ h3]
      | line hq hs h3 line rest hl =>
        rw [phases_line _ _ _ _ _ hq hs h3 line rest hl]
        by_cases hlf : 10 ∈ p
        · rw [phases_line _ _ _ _ _ hq hs h3 line (rest ++ q) (readLine_append_of_lf _ _ _ _ hl hlf)]
          have := readLine_rest_lt _ _ _ hl
          have hlen : (rest ++ q).length < f2 := by simp at h2 ⊢; omega
          exact ih f2 _ _ rest (by omega) hlen
        · have hp : p ≠ [] := by rintro rfl; simp [readLine_nil] at hl
          have := readLine_no_lf p hp hlf
          rw [this] at hl
          simp at hl
          obtain ⟨_, rfl⟩ := hl
          simp [phases_nil_input]

/-- the phases of a run with a send budget are a prefix of those of the run whose peer keeps reading -/
theorem phases_erase_prefix (e : Env) (fuel : Nat) (s : Sess) (g : List Addr.Recipient) (inp : Bytes) :
    phases e fuel s g inp <+: phases e fuel (erase s) g inp := by
  induction fuel generalizing s g inp with
  | zero => simp [phases]
  | succ fuel ih =>
    cases iter s inp with
    | quit h => simp [phases_stop _ _ _ _ _ (.inl h)]
    | sendErr h h2 => simp [phases_stop _ _ _ _ _ (.inr h2)]
    | dataCut h2 h3 hd => simp [phases_data_cut _ _ _ _ _ hd h3]
    | data hs h3 block rest hd =>
      rw [phases_data _ _ _ _ _ hs h3 block rest hd,
        phases_data e fuel (erase s) g inp rfl h3 block rest hd]
      obtain ⟨t, ht⟩ := ih (send (reset (send s 1)) 1) g rest
      refine ⟨t, ?_⟩
      have : erase (send (reset (send s 1)) 1) = send (reset (send (erase s) 1)) 1 := by
        simp; rfl
      rw [← this, ← ht]
      simp
    | eof hq hs h3 hi => subst hi; simp [phases_eof _ _ _ _ h3]
    | line hq hs h3 line rest hl =>
      rw [phases_line _ _ _ _ _ hq hs h3 line rest hl,
        phases_line e fuel (erase s) g inp hq rfl h3 line rest hl]
      have := handleLine_erase e s line []
      rw [this]
      exact ih _ _ _

theorem flatMap_prefix {α β : Type} (f : α → List β) (l1 l2 : List α) (h : l1 <+: l2) :
    l1.flatMap f <+: l2.flatMap f := by
  obtain ⟨t, rfl⟩ := h
  exact ⟨t.flatMap f, by simp⟩


/-! ### whole connections -/

/-- the session after the greeting was sent -/
def start (e : Env) (b : Option Nat) : Sess := send (initFor e b) 1

theorem run_eq (e : Env) (b : Option Nat) (w : Bytes) :
    run e b w = loop e (w.length + 2) (start e b) w [.reply [220]] := rfl

/-- the completed data phases of a whole connection -/
def runPhases (e : Env) (b : Option Nat) (w : Bytes) : List Phase := phases e (w.length + 2) (start e b) [] w

theorem run_stored (e : Env) (b : Option Nat) (w : Bytes) :
    storedOf (run e b w).1 = (runPhases e b w).flatMap (fun ph => storedOf ph.evs) := by
  rw [run_eq, loop_stored e _ _ [] w]
  simp [runPhases]

theorem erase_start (e : Env) (b : Option Nat) : erase (start e b) = start e none := by
  simp [start]; rfl

theorem start_st (e : Env) (b : Option Nat) : (start e b).st = .greet := by simp [start, init, initFor]

theorem start_tls (e : Env) (b : Option Nat) : (start e b).tls = e.forceTLS := by simp [start, init, initFor]

end Ibx.Lemmas.SmtpLoop
