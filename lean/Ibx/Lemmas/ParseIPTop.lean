import Ibx.Lemmas.ParseIPv6
import Ibx.Lemmas.ParseIPCase
/-
  Helper lemmas for the net.ParseIP model, part 5: `parseIP` itself — exactly which texts it accepts, and what
  follows for every accepted text.
-/
namespace Ibx.Lemmas.ParseIPTop
open Ibx Ibx.Bytes Ibx.Model.ParseIP Ibx.Lemmas.ParseIPShape Ibx.Lemmas.ParseIPv4 Ibx.Lemmas.ParseIPv6

theorem firstSep_hex_app {h : Bytes} (hh : ∀ c ∈ h, isHexB c = true) (r : Bytes) :
    firstSep (h ++ r) = firstSep r := by
  induction h with
  | nil => rfl
  | cons c t ih =>
    have hc := hex_ne (hh c (by simp))
    have : isSepB c = false := by
      simp only [isSepB, Bool.or_eq_false_iff, beq_eq_false_iff_ne]; omega
    simp only [List.cons_append, firstSep, this, Bool.false_eq_true, if_false]
    exact ih (fun x hx => hh x (by simp [hx]))

theorem v4Text_sep {s : Bytes} (h : V4Text s) : firstSep s = 46 := by
  obtain ⟨a, b, c, d, rfl, ha, _⟩ := h
  rw [firstSep_hex_app (fun x hx => digit_hex ((octetB_inv ha).2.1 x hx))]
  rfl

theorem v6Text_sep {s : Bytes} (h : V6Text s) : firstSep s = 58 := by
  rcases h with rfl | ⟨s', _, _, rfl, _⟩ | ⟨iF, eF, hrun, hfin⟩
  · rfl
  · rfl
  · cases hrun with
    | last n h ell hh =>
      exfalso
      rcases hfin with ⟨_, h2⟩ | ⟨h1, _⟩
      · cases h2
      · simp [idx] at h1
    | lastDC n h hh => rw [firstSep_hex_app hh.2.2]; rfl
    | v4 n h t ell f hh hp hcond =>
      exfalso
      rcases hcond with hc | hc
      · exact hc rfl
      · simp [idx] at hc
    | colon n h s' ell iF eF hh => rw [firstSep_hex_app hh.2.2]; rfl
    | dcolon n h s' iF eF hh => rw [firstSep_hex_app hh.2.2]; rfl

theorem v6Text_bytes {s : Bytes} (h : V6Text s) : ∀ c ∈ s, isIpB c = true := by
  rcases h with rfl | ⟨s', _, _, rfl, _, hrun, _⟩ | ⟨iF, eF, hrun, _⟩
  · decide
  · intro c hc
    simp only [List.mem_cons] at hc
    rcases hc with rfl | rfl | hc
    · rfl
    · rfl
    · exact run_bytes hrun c hc
  · exact run_bytes hrun

theorem v4Text_bytes {s : Bytes} (h : V4Text s) : s.length ≤ 15 ∧ ∀ c ∈ s, isDigitB c = true ∨ c = 46 := by
  obtain ⟨a, b, c, d, hs, ha, hb, hc, hd⟩ := h
  have := parseIPv4Fields_bytes ((parseIPv4Fields_iff s _).mpr ⟨a, b, c, d, hs, ha, hb, hc, hd, rfl⟩)
  exact ⟨this.1, this.2.1⟩

theorem isIpB_ne_pct {c : Nat} (h : isIpB c = true) : c ≠ 37 := by
  simp only [isIpB, Bool.or_eq_true, beq_iff_eq] at h
  rcases h with (h | h) | h
  · exact (hex_ne h).2.2
  · omega
  · omega

theorem parseIP_eq (s : Bytes) : parseIP s = true ↔ ∃ a, parseAddr s = some a ∧ a.zone = [] := by
  unfold parseIP parseIPv
  cases parseAddr s with
  | none => simp
  | some a =>
    cases hz : a.zone with
    | nil => simp [hz]
    | cons _ _ => simp [hz]

/-- `net.ParseIP` accepts exactly the dotted quads of `V4Text` and the IPv6 texts of `V6Text` -/
theorem parseIP_iff (s : Bytes) : parseIP s = true ↔ V4Text s ∨ V6Text s := by
  rw [parseIP_eq]
  constructor
  · rintro ⟨a, ha, hz⟩
    unfold parseAddr at ha
    simp only at ha
    split at ha
    · left
      cases hp : parseIPv4Fields s with
      | none => rw [hp] at ha; cases ha
      | some f =>
        obtain ⟨a, b, c, d, h1, h2, h3, h4, h5, _⟩ := (parseIPv4Fields_iff s f).mp hp
        exact ⟨a, b, c, d, h1, h2, h3, h4, h5⟩
    · split at ha
      · right
        by_cases hpct : 37 ∈ s
        · exact absurd hz (parseIPv6_zone hpct ha)
        · exact (parseIPv6_nopct (fun c hc h0 => hpct (h0 ▸ hc))).mp ⟨a, ha, hz⟩
      · cases ha
  · rintro (h | h)
    · have hsep := v4Text_sep h
      obtain ⟨a, b, c, d, h1, h2, h3, h4, h5⟩ := h
      have := (parseIPv4Fields_iff s _).mpr ⟨a, b, c, d, h1, h2, h3, h4, h5, rfl⟩
      refine ⟨⟨true, [decVal a, decVal b, decVal c, decVal d], []⟩, ?_, rfl⟩
      unfold parseAddr
      simp [hsep, this]
    · have hsep := v6Text_sep h
      have hb := v6Text_bytes h
      obtain ⟨a, ha, hz⟩ := (parseIPv6_nopct (fun c hc => isIpB_ne_pct (hb c hc))).mpr h
      refine ⟨a, ?_, hz⟩
      unfold parseAddr
      simp [hsep, ha]

/-- every byte of an accepted text is a hex digit, a period or a colon -/
theorem parseIP_bytes {s : Bytes} (h : parseIP s = true) : ∀ c ∈ s, isIpB c = true := by
  rcases (parseIP_iff s).mp h with h | h
  · intro c hc
    rcases (v4Text_bytes h).2 c hc with hd | rfl
    · simp [isIpB, digit_hex hd]
    · rfl
  · exact v6Text_bytes h

/-- "::" starts at most once in an accepted text (so neither ":::" nor two "::" parse) -/
theorem parseIP_dc {s : Bytes} (h : parseIP s = true) : dcCount s ≤ 1 := by
  rcases (parseIP_iff s).mp h with h | h
  · rw [dcCount_none]
    · omega
    · intro c hc
      rcases (v4Text_bytes h).2 c hc with hd | rfl
      · exact (hex_ne (digit_hex hd)).1
      · decide
  · rcases h with rfl | ⟨s', iF, eF, rfl, _, hrun, _⟩ | ⟨iF, eF, hrun, _⟩
    · decide
    · rw [dcCount_dcolon, dcCount_colon (run_head hrun), run_dc hrun]
      simp [meets]
    · rw [run_dc hrun]
      simp only [meets]
      split <;> omega

/-- an accepted text has at most 45 bytes ("ffff:ffff:ffff:ffff:ffff:ffff:255.255.255.255") and at least 2 ("::") -/
theorem parseIP_len {s : Bytes} (h : parseIP s = true) : 2 ≤ s.length ∧ s.length ≤ 45 := by
  rcases (parseIP_iff s).mp h with h | h
  · have := (v4Text_bytes h).1
    obtain ⟨a, b, c, d, rfl, _⟩ := h
    simp only [List.length_append, List.length_cons] at this ⊢
    omega
  · rcases h with rfl | ⟨s', iF, eF, rfl, _, hrun, hlt⟩ | ⟨iF, eF, hrun, hfin⟩
    · simp
    · have := (run_len hrun (by omega)).2
      have he := run_ell hrun rfl
      subst he
      simp only [idx, meets, Option.isNone_some, Bool.false_and, Bool.false_eq_true, if_false] at this
      simp only [List.length_cons]
      omega
    · have hl := run_len hrun (by omega)
      have hm : meets none eF ≤ 1 := by simp only [meets]; split <;> omega
      have h2 : 2 ≤ s.length := by
        cases hrun with
        | last n h ell hh =>
          exfalso
          rcases hfin with ⟨_, h2⟩ | ⟨h1, _⟩
          · cases h2
          · simp [idx] at h1
        | lastDC n h hh => simp only [List.length_append, List.length_cons, List.length_nil]; omega
        | v4 n h t ell f hh hp hcond =>
          exfalso
          rcases hcond with hc | hc
          · exact hc rfl
          · simp [idx] at hc
        | colon n h s' ell iF eF hh hne =>
          have : 1 ≤ s'.length := by cases s' with | nil => exact absurd rfl hne | cons _ _ => simp
          simp only [List.length_append, List.length_cons]; omega
        | dcolon n h s' iF eF hh => simp only [List.length_append, List.length_cons]; omega
      refine ⟨h2, ?_⟩
      simp only [idx] at hl
      rcases hfin with ⟨hlt, _⟩ | ⟨h16, hn⟩
      · omega
      · subst hn
        simp only [meets, Option.isNone_none, Option.isSome_none, Bool.and_false, Bool.false_eq_true, if_false] at hl
        omega

end Ibx.Lemmas.ParseIPTop
