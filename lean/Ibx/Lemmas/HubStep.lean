import Ibx.Lemmas.HubBcast
/-
  Lemmas.HubStep — per-listener view of `step` and `run`.
-/
namespace Ibx.Lemmas.Hub
open Ibx.Spec.HubLog Ibx.Model.Hub

/-- the hub invariant: the listener set has no duplicates, no listener panics -/
structure Good (h : Hub) : Prop where
  nodup : h.regs.Nodup
  noPanic : NoPanic h.ls

theorem playback_answer (ms : List Msg) (s : Listener) :
    (playback ms s).1.answer = s.answer ∧ (playback ms s).1.accepts = s.accepts := by
  induction ms generalizing s with
  | nil => exact ⟨rfl, rfl⟩
  | cons m ms ih =>
    simp only [playback]
    split
    · rename_i s' hs
      have h1 := call_answer s (.stored m); have h2 := call_accepts s (.stored m)
      rw [hs] at h1 h2; exact ⟨h1, h2⟩
    · rename_i r s' hnp hs
      have h1 := call_answer s (.stored m); have h2 := call_accepts s (.stored m)
      rw [hs] at h1 h2; rw [(ih s').1, (ih s').2]; exact ⟨h1, h2⟩

/-- a listener that always answers ok is played the whole history, filtered, and the playback completes -/
theorem playback_ok (ms : List Msg) (s : Listener) (hok : s.answer = fun _ => .ok) :
    (playback ms s).2 = false ∧
    (playback ms s).1.got = s.got ++ (ms.map Ev.stored).filter s.accepts := by
  induction ms generalizing s with
  | nil => simp [playback]
  | cons m ms ih =>
    have hc := call_ok (s := s) (e := .stored m) (by rw [hok])
    simp only [playback, hc]
    have := ih { s with calls := s.calls + 1, got := if s.accepts (.stored m) then s.got ++ [.stored m] else s.got } hok
    refine ⟨this.1, ?_⟩
    rw [this.2]
    by_cases ha : s.accepts (.stored m) = true <;> simp [ha]

theorem step_answer (h : Hub) (op : Op) (x : Nat) :
    ((step h op).ls x).answer = (h.ls x).answer ∧ ((step h op).ls x).accepts = (h.ls x).accepts := by
  cases op with
  | dispatch m =>
    simp only [step]; split
    · exact ⟨rfl, rfl⟩
    · exact bcast_answer _ _ _ _
  | delete mb id =>
    simp only [step]; split
    · exact ⟨rfl, rfl⟩
    · exact bcast_answer _ _ _ _
  | add l =>
    simp only [step, upd]
    split
    · rename_i hx; subst hx; exact playback_answer _ _
    · exact ⟨rfl, rfl⟩
  | remove l => exact ⟨rfl, rfl⟩

theorem good_step {h : Hub} (g : Good h) (op : Op) : Good (step h op) := by
  refine ⟨?_, fun l n => by rw [(step_answer h op l).1]; exact g.noPanic l n⟩
  cases op with
  | dispatch m =>
    simp only [step]; split
    · exact g.nodup
    · exact List.Pairwise.sublist (bcast_sublist _ _ _) g.nodup
  | delete mb id =>
    simp only [step]; split
    · exact g.nodup
    · exact List.Pairwise.sublist (bcast_sublist _ _ _) g.nodup
  | add l =>
    simp only [step]
    split
    · exact g.nodup
    · rename_i hc
      have hl : l ∉ h.regs := by
        have hc' : (playback (ringDo h.ring) (h.ls l)).snd = false ∧ ¬l ∈ h.regs := by simpa using hc
        exact hc'.2
      rw [List.nodup_append]
      refine ⟨g.nodup, by simp, ?_⟩
      intro a ha b hb hab
      simp at hb; subst hb; subst hab; exact hl ha
  | remove l => exact List.Pairwise.sublist List.filter_sublist g.nodup

theorem good_run {h : Hub} (g : Good h) (ops : List Op) : Good (run h ops) := by
  induction ops generalizing h with
  | nil => exact g
  | cons op ops ih => exact ih (good_step g op)

theorem good_init (N : Nat) (ls : Nat → Listener) (hn : NoPanic ls) : Good (init N ls) :=
  ⟨List.nodup_nil, hn⟩

theorem run_cons (h : Hub) (op : Op) (ops : List Op) : run h (op :: ops) = run (step h op) ops := rfl
theorem run_append (h : Hub) (a b : List Op) : run h (a ++ b) = run (run h a) b := by
  simp [run, List.foldl_append]

theorem ring_ne_nil_step {h : Hub} (op : Op) (hr : h.ring ≠ []) : (step h op).ring ≠ [] := by
  intro he
  have := ringStep_length h.ring op
  rw [← step_ring, he] at this
  exact hr (List.length_eq_zero_iff.mp this.symm)

/-- an operation that broadcasts `e`, seen by listener x -/
theorem step_event {h : Hub} (g : Good h) (hr : h.ring ≠ []) {op : Op} {e : Ev} (he : op.ev = some e) (x : Nat) :
    (step h op).ls x = (if x ∈ h.regs then ((h.ls x).call e).2 else h.ls x) ∧
    (x ∈ (step h op).regs ↔ x ∈ h.regs ∧ ((h.ls x).call e).1 = .ok) := by
  have hne : h.ring.isEmpty = false := by cases hh : h.ring with | nil => exact absurd hh hr | cons _ _ => rfl
  cases op with
  | dispatch m =>
    cases he
    simp only [step, hne]
    exact ⟨bcast_ls _ _ _ g.noPanic g.nodup x, bcast_regs _ _ _ g.noPanic g.nodup x⟩
  | delete mb id =>
    cases he
    simp only [step, hne]
    exact ⟨bcast_ls _ _ _ g.noPanic g.nodup x, bcast_regs _ _ _ g.noPanic g.nodup x⟩
  | add l => cases he
  | remove l => cases he

theorem ev_none_cases {op : Op} (h : op.ev = none) : (∃ l, op = .add l) ∨ (∃ l, op = .remove l) := by
  cases op with
  | dispatch m => cases h
  | delete mb id => cases h
  | add l => exact Or.inl ⟨l, rfl⟩
  | remove l => exact Or.inr ⟨l, rfl⟩

/-- once attached, a listener that never fails receives every later event passing its filter, in order,
    until it is removed (or re-added) -/
theorem attached_run (l : Nat) : ∀ (post : List Op) (h : Hub), Good h → h.ring ≠ [] → l ∈ h.regs →
    (h.ls l).answer = (fun _ => .ok) → (∀ op ∈ post, op ≠ .add l ∧ op ≠ .remove l) →
    ((run h post).ls l).got = (h.ls l).got ++ (events post).filter (h.ls l).accepts ∧ l ∈ (run h post).regs := by
  intro post
  induction post with
  | nil => intro h _ _ hl _ _; simp [run, events, hl]
  | cons op post ih =>
    intro h g hr hl hok hpost
    have hrest : ∀ op ∈ post, op ≠ .add l ∧ op ≠ .remove l := fun o ho => hpost o (List.mem_cons_of_mem _ ho)
    have hop := hpost op List.mem_cons_self
    have hans := step_answer h op l
    rw [run_cons]
    cases hev : op.ev with
    | some e =>
      have se := step_event g hr hev l
      have hc := call_ok (s := h.ls l) (e := e) (by rw [hok])
      have hl' : l ∈ (step h op).regs := se.2.mpr ⟨hl, by rw [hc]⟩
      have := ih (step h op) (good_step g op) (ring_ne_nil_step op hr) hl' (by rw [hans.1, hok]) hrest
      rw [this.1, hans.2]
      refine ⟨?_, this.2⟩
      rw [se.1, if_pos hl, hc]
      simp only [events, List.filterMap_cons, hev]
      by_cases ha : (h.ls l).accepts e = true <;> simp [ha]
    | none =>
      have hls : (step h op).ls l = h.ls l ∧ l ∈ (step h op).regs := by
        rcases ev_none_cases hev with ⟨x, rfl⟩ | ⟨x, rfl⟩
        · have hx : l ≠ x := fun hh => hop.1 (by rw [hh])
          refine ⟨by simp [step, upd, hx], ?_⟩
          simp only [step]; split
          · exact hl
          · exact List.mem_append_left _ hl
        · have hx : l ≠ x := fun hh => hop.2 (by rw [hh])
          exact ⟨rfl, by simp [step, hl, hx]⟩
      have := ih (step h op) (good_step g op) (ring_ne_nil_step op hr) hls.2 (by rw [hans.1, hok]) hrest
      rw [this.1, hls.1]
      refine ⟨?_, this.2⟩
      simp only [events, List.filterMap_cons, hev]

/-- a listener that is not registered and is not added is never called -/
theorem unattached_run (l : Nat) : ∀ (pre : List Op) (h : Hub), l ∉ h.regs → (∀ op ∈ pre, op ≠ .add l) →
    (run h pre).ls l = h.ls l ∧ l ∉ (run h pre).regs := by
  intro pre
  induction pre with
  | nil => intro h hl _; exact ⟨rfl, hl⟩
  | cons op pre ih =>
    intro h hl hpre
    have hop := hpre op List.mem_cons_self
    have hs : (step h op).ls l = h.ls l ∧ l ∉ (step h op).regs := by
      cases op with
      | dispatch m =>
        simp only [step]; split
        · exact ⟨rfl, hl⟩
        · exact ⟨bcast_notin _ _ _ _ hl, fun hh => hl ((bcast_sublist _ _ _).subset hh)⟩
      | delete mb id =>
        simp only [step]; split
        · exact ⟨rfl, hl⟩
        · exact ⟨bcast_notin _ _ _ _ hl, fun hh => hl ((bcast_sublist _ _ _).subset hh)⟩
      | add x =>
        have hx : l ≠ x := fun hh => hop (by rw [hh])
        refine ⟨by simp [step, upd, hx], ?_⟩
        simp only [step]; split
        · exact hl
        · simp [hl, hx]
      | remove x => exact ⟨rfl, fun hh => hl (List.mem_filter.mp hh).1⟩
    rw [run_cons]
    have := ih (step h op) hs.2 (fun o ho => hpre o (List.mem_cons_of_mem _ ho))
    exact ⟨this.1.trans hs.1, this.2⟩

end Ibx.Lemmas.Hub
