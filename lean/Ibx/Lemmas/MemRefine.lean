import Ibx.Model.Mem
import Ibx.Lemmas.SpecStore
/-
  The memory-store model `Model.Mem` (pkg/storage/mem/store.go + maxsize.go, sequential semantics)
  refines the abstract ordered-mailbox spec `Spec.Store`: simulation relation `R`, one lemma per
  operation, the cap loop = `dropOldest`, the enforcer loop = `limitEvict`.
-/
namespace Ibx.Lemmas.MemRefine
open Ibx Ibx.Spec.Store Ibx.Model.Mem Ibx.Lemmas.SpecStore

/-- the enforcer's view of a message -/
def ent (x : Msg) : Ent := { box := x.box, index := x.id, size := x.size }

/-- what ties one mailbox of the memory store to the spec -/
structure BoxRel (mb : MBox) (s : Store) (b : Bytes) : Prop where
  list : mb.msgs.map (toMsg b) = listing s b
  last : mb.last = s.next b
  lo : ∀ x ∈ mb.msgs, mb.first ≤ x.index
  first_le : mb.first ≤ mb.last + 1

/-- mailboxes and the set of mailbox names -/
structure RB (m : Mem) (s : Store) : Prop where
  box : ∀ b, BoxRel (m.boxes b) s b
  names_nodup : m.names.Nodup
  names : ∀ b, (m.boxes b).msgs ≠ [] → b ∈ m.names

/-- the enforcer's list and running total -/
structure EnfRel (limit : Nat) (all : List Ent) (cur : Nat) (l : List Msg) : Prop where
  on : limit > 0 → all = l.map ent ∧ cur = total l
  off : limit = 0 → all = [] ∧ cur = 0

/-- the simulation relation -/
structure R (c : Cfg) (m : Mem) (s : Store) : Prop where
  inv : Inv s
  rb : RB m s
  enf : EnfRel c.limit m.all m.cur s.msgs

/-- the box invariant the cap loop relies on -/
structure BoxInv (mb : MBox) : Prop where
  asc : (mb.msgs.map (·.index)).Pairwise (· < ·)
  lo : ∀ x ∈ mb.msgs, mb.first ≤ x.index
  hi : ∀ x ∈ mb.msgs, x.index ≤ mb.last
  first_le : mb.first ≤ mb.last + 1

/-! ### basics -/

@[simp] theorem toMsg_box (b : Bytes) (x : MMsg) : (toMsg b x).box = b := rfl
@[simp] theorem toMsg_id (b : Bytes) (x : MMsg) : (toMsg b x).id = x.index := rfl
@[simp] theorem toMsg_size (b : Bytes) (x : MMsg) : (toMsg b x).size = x.source.length := rfl
@[simp] theorem evOf_toMsg (b : Bytes) (x : MMsg) : evOf (toMsg b x) = (b, x.index) := rfl
@[simp] theorem inBox_toMsg (b : Bytes) (x : MMsg) : inBox b (toMsg b x) = true := by simp

theorem listing_asc {s : Store} (h : Inv s) (b : Bytes) :
    ((listing s b).map (·.id)).Pairwise (· < ·) := by
  rw [List.pairwise_map]
  have := h.asc.sublist (List.filter_sublist (p := inBox b))
  refine List.Pairwise.imp_of_mem ?_ this
  intro x y hx hy hxy
  simp [listing] at hx hy
  exact hxy (hx.2.trans hy.2.symm)

theorem BoxRel.ids {mb : MBox} {s : Store} {b : Bytes} (h : BoxRel mb s b) :
    mb.msgs.map (·.index) = (listing s b).map (·.id) := by
  rw [← h.list, List.map_map]; rfl

theorem BoxRel.boxInv {mb : MBox} {s : Store} {b : Bytes} (h : BoxRel mb s b) (hi : Inv s) : BoxInv mb := by
  refine ⟨?_, h.lo, ?_, h.first_le⟩
  · rw [h.ids]; exact listing_asc hi b
  · intro x hx
    have : toMsg b x ∈ listing s b := by rw [← h.list]; exact List.mem_map_of_mem hx
    simp [listing] at this
    have := (hi.bound _ this).2
    simp at this
    rw [h.last]; exact this

theorem R.boxInv {c : Cfg} {m : Mem} {s : Store} (h : R c m s) (b : Bytes) : BoxInv (m.boxes b) :=
  (h.rb.box b).boxInv h.inv

/-- a live message of the spec is in its mailbox of the memory store -/
theorem BoxRel.mem_of {mb : MBox} {s : Store} {b : Bytes} (h : BoxRel mb s b) {x : Msg}
    (hx : x ∈ s.msgs) (hb : x.box = b) : ∃ y ∈ mb.msgs, toMsg b y = x := by
  have : x ∈ listing s b := by simp [listing, hx, hb]
  rw [← h.list] at this
  simpa using this

theorem BoxRel.of_mem {mb : MBox} {s : Store} {b : Bytes} (h : BoxRel mb s b) {y : MMsg}
    (hy : y ∈ mb.msgs) : toMsg b y ∈ s.msgs := by
  have : toMsg b y ∈ listing s b := by rw [← h.list]; exact List.mem_map_of_mem hy
  simp [listing] at this
  exact this

/-! ### `setBox` -/

@[simp] theorem setBox_boxes_same (m : Mem) (b : Bytes) (mb : MBox) : (setBox m b mb).boxes b = mb := by
  simp [setBox]

theorem setBox_boxes_other (m : Mem) (b : Bytes) (mb : MBox) (b' : Bytes) (h : b' ≠ b) :
    (setBox m b mb).boxes b' = m.boxes b' := by
  simp [setBox, h]

@[simp] theorem setBox_all (m : Mem) (b : Bytes) (mb : MBox) : (setBox m b mb).all = m.all := rfl
@[simp] theorem setBox_cur (m : Mem) (b : Bytes) (mb : MBox) : (setBox m b mb).cur = m.cur := rfl

theorem setBox_names_nodup (m : Mem) (b : Bytes) (mb : MBox) (h : m.names.Nodup) :
    (setBox m b mb).names.Nodup := by
  simp only [setBox]
  split
  · exact h
  · rename_i hc
    rw [List.nodup_append]
    refine ⟨h, by simp, ?_⟩
    intro a ha x hx hax
    simp at hx hc; subst hx; subst hax
    exact hc ha

theorem setBox_names_mem (m : Mem) (b : Bytes) (mb : MBox) (b' : Bytes) :
    b' ∈ (setBox m b mb).names ↔ b' ∈ m.names ∨ b' = b := by
  simp only [setBox]
  split
  · rename_i hc; simp at hc
    constructor
    · exact Or.inl
    · rintro (h | rfl)
      · exact h
      · exact hc
  · simp

/-- replacing one mailbox: the new box is related, the other mailboxes' spec views are unchanged -/
theorem RB.update {m : Mem} {s : Store} (h : RB m s) (s' : Store) (b : Bytes) (mb' : MBox)
    (hb : BoxRel mb' s' b)
    (hother : ∀ b', b' ≠ b → listing s' b' = listing s b' ∧ s'.next b' = s.next b') :
    RB (setBox m b mb') s' := by
  refine ⟨?_, setBox_names_nodup m b mb' h.names_nodup, ?_⟩
  · intro b'
    by_cases hb' : b' = b
    · subst hb'; rw [setBox_boxes_same]; exact hb
    · rw [setBox_boxes_other m b mb' b' hb']
      have := h.box b'
      obtain ⟨h1, h2⟩ := hother b' hb'
      exact ⟨by rw [h1]; exact this.list, by rw [h2]; exact this.last, this.lo, this.first_le⟩
  · intro b' hne
    rw [setBox_names_mem]
    by_cases hb' : b' = b
    · exact Or.inr hb'
    · rw [setBox_boxes_other m b mb' b' hb'] at hne
      exact Or.inl (h.names b' hne)

theorem RB.touch {m : Mem} {s : Store} (h : RB m s) (b : Bytes) : RB (touch m b) s :=
  h.update s b (m.boxes b) (h.box b) (fun _ _ => ⟨rfl, rfl⟩)

/-- `RB` does not look at the enforcer fields -/
theorem RB.congr {m m' : Mem} {s : Store} (h : RB m s) (hb : m'.boxes = m.boxes) (hn : m'.names = m.names) :
    RB m' s :=
  ⟨fun b => by rw [hb]; exact h.box b, by rw [hn]; exact h.names_nodup,
   fun b hne => by rw [hn]; rw [hb] at hne; exact h.names b hne⟩

theorem R.touch {c : Cfg} {m : Mem} {s : Store} (h : R c m s) (b : Bytes) : R c (touch m b) s :=
  ⟨h.inv, h.rb.touch b, h.enf⟩

/-! ### reads: get / latest / list -/

theorem find_rel {mb : MBox} {s : Store} {b : Bytes} (h : BoxRel mb s b) (i : Nat) :
    s.msgs.find? (isMsg b i) = (mb.msgs.find? (·.index == i)).map (toMsg b) := by
  have h1 : (mb.msgs.find? (·.index == i)).map (toMsg b) =
      (mb.msgs.map (toMsg b)).find? (fun x => x.id == i) := by
    rw [List.find?_map]; rfl
  rw [h1, h.list, listing, List.find?_filter]
  congr 1
  funext a
  by_cases h1 : a.box = b <;> by_cases h2 : a.id = i <;> simp [isMsg, inBox, h1, h2]

theorem any_rel {mb : MBox} {s : Store} {b : Bytes} (h : BoxRel mb s b) (i : Nat) :
    s.msgs.any (isMsg b i) = mb.msgs.any (·.index == i) := by
  have h1 : mb.msgs.any (·.index == i) = (mb.msgs.map (toMsg b)).any (fun x => x.id == i) := by
    rw [List.any_map]; rfl
  rw [h1, h.list, listing, List.any_filter]
  rfl

theorem refines_get (c : Cfg) (m : Mem) (s : Store) (b : Bytes) (i : Nat) (h : R c m s) :
    R c (Model.Mem.step c m (.get b i)).1 (Spec.Store.step c s (.get b i)).1 ∧
    (Model.Mem.step c m (.get b i)).2 = (Spec.Store.step c s (.get b i)).2 := by
  simp only [Model.Mem.step, Spec.Store.step, find_rel (h.rb.box b) i]
  cases (m.boxes b).msgs.find? (·.index == i) with
  | none => exact ⟨h.touch b, rfl⟩
  | some y => exact ⟨h.touch b, rfl⟩

theorem refines_latest (c : Cfg) (m : Mem) (s : Store) (b : Bytes) (h : R c m s) :
    R c (Model.Mem.step c m (.latest b)).1 (Spec.Store.step c s (.latest b)).1 ∧
    (Model.Mem.step c m (.latest b)).2 = (Spec.Store.step c s (.latest b)).2 := by
  simp only [Model.Mem.step, Spec.Store.step, ← (h.rb.box b).list, List.getLast?_map]
  cases (m.boxes b).msgs.getLast? with
  | none => exact ⟨h.touch b, rfl⟩
  | some y => exact ⟨h.touch b, rfl⟩

theorem refines_list (c : Cfg) (m : Mem) (s : Store) (b : Bytes) (h : R c m s) :
    R c (Model.Mem.step c m (.list b)).1 (Spec.Store.step c s (.list b)).1 ∧
    (Model.Mem.step c m (.list b)).2 = (Spec.Store.step c s (.list b)).2 := by
  simp only [Model.Mem.step, Spec.Store.step, (h.rb.box b).list]
  exact ⟨h.touch b, trivial⟩

/-! ### filter-per-box algebra -/

theorem filter_inBox_map_mark (b : Bytes) (i : Nat) (b' : Bytes) (l : List Msg) :
    (l.map (mark b i)).filter (inBox b') = (l.filter (inBox b')).map (mark b i) := by
  rw [List.filter_map]
  congr 1
  apply List.filter_congr
  intro x _; simp

theorem filter_inBox_remove (b : Bytes) (i : Nat) (b' : Bytes) (l : List Msg) :
    (l.filter (fun m => !isMsg b i m)).filter (inBox b') =
      (l.filter (inBox b')).filter (fun m => !isMsg b i m) := by
  rw [List.filter_filter, List.filter_filter]
  apply List.filter_congr
  intro x _; exact Bool.and_comm _ _

theorem filter_remove_other (b : Bytes) (i : Nat) (b' : Bytes) (hb : b' ≠ b) (l : List Msg) :
    (l.filter (inBox b')).filter (fun m => !isMsg b i m) = l.filter (inBox b') := by
  rw [List.filter_eq_self]
  intro x hx
  simp at hx
  have : ¬ x.box = b := fun h => hb (hx.2.symm.trans h)
  simp [isMsg, this]

theorem map_mark_other (b : Bytes) (i : Nat) (l : List Msg) (h : ∀ x ∈ l, x.box ≠ b) :
    l.map (mark b i) = l := by
  have : ∀ x ∈ l, mark b i x = id x := by
    intro x hx
    apply mark_other
    have := h x hx
    simp [isMsg, this]
  rw [List.map_congr_left this, List.map_id]

theorem filter_isMsg_eq {l : List Msg} (hp : l.Pairwise (fun x y => x.box = y.box → x.id < y.id))
    {x : Msg} (hx : x ∈ l) : l.filter (isMsg x.box x.id) = [x] := by
  induction hp with
  | nil => simp at hx
  | @cons a t hd _ ih =>
    simp only [List.mem_cons] at hx
    rcases hx with rfl | hx
    · have hnil : t.filter (isMsg x.box x.id) = [] := by
        rw [List.filter_eq_nil_iff]
        intro y hy hyy
        simp at hyy
        have := hd y hy hyy.1.symm
        omega
      simp [hnil]
    · have : isMsg x.box x.id a = false := by
        cases hh : isMsg x.box x.id a with
        | false => rfl
        | true =>
          simp at hh
          have := hd x hx hh.1
          omega
      simp only [List.filter_cons, this, Bool.false_eq_true, ↓reduceIte]
      exact ih hx

theorem ent_mark (b : Bytes) (i : Nat) : ent ∘ mark b i = ent := by
  funext x; simp [ent]

/-! ### seen -/

theorem refines_seen (c : Cfg) (m : Mem) (s : Store) (b : Bytes) (i : Nat) (h : R c m s) :
    R c (Model.Mem.step c m (.seen b i)).1 (Spec.Store.step c s (.seen b i)).1 ∧
    (Model.Mem.step c m (.seen b i)).2 = (Spec.Store.step c s (.seen b i)).2 := by
  have hinv := inv_step c s (.seen b i) h.inv
  simp only [Model.Mem.step, Spec.Store.step, any_rel (h.rb.box b) i] at hinv ⊢
  split
  · rename_i hany
    simp only [hany, ↓reduceIte] at hinv
    refine ⟨?_, rfl⟩
    show R c _ { s with msgs := s.msgs.map (mark b i) }
    refine ⟨hinv, ?_, ?_⟩
    · apply h.rb.update
      · have hb := h.rb.box b
        refine ⟨?_, hb.last, ?_, hb.first_le⟩
        · simp only [listing, filter_inBox_map_mark]
          rw [← listing, ← hb.list, List.map_map, List.map_map]
          apply List.map_congr_left
          intro x _
          by_cases hx : x.index = i <;> simp [hx, mark, isMsg, toMsg]
        · intro x hx
          simp only [List.mem_map] at hx
          obtain ⟨y, hy, rfl⟩ := hx
          have := hb.lo y hy
          by_cases hy' : y.index = i <;> simpa [hy'] using this
      · intro b' hb'
        refine ⟨?_, rfl⟩
        simp only [listing, filter_inBox_map_mark]
        apply map_mark_other
        intro x hx; simp at hx
        exact fun hxb => hb' (hx.2.symm.trans hxb)
    · refine ⟨fun hl => ?_, fun hl => h.enf.off hl⟩
      have := h.enf.on hl
      simp only [setBox_all, setBox_cur, List.map_map, ent_mark, total_seen_map]
      exact this
  · exact ⟨h.touch b, rfl⟩

/-! ### remove -/

theorem removeFromBox_none (m : Mem) (b : Bytes) (i : Nat)
    (h : (m.boxes b).msgs.find? (·.index == i) = none) : removeFromBox m b i = (touch m b, none) := by
  simp [removeFromBox, h]

theorem removeFromBox_some (m : Mem) (b : Bytes) (i : Nat) (y : MMsg)
    (h : (m.boxes b).msgs.find? (·.index == i) = some y) :
    removeFromBox m b i =
      (setBox m b { m.boxes b with msgs := (m.boxes b).msgs.filter (·.index != i) }, some y) := by
  simp [removeFromBox, h]

theorem RB.remove {m : Mem} {s : Store} (h : RB m s) (b : Bytes) (i : Nat) :
    RB (setBox m b { m.boxes b with msgs := (m.boxes b).msgs.filter (·.index != i) })
       { s with msgs := s.msgs.filter (fun x => !isMsg b i x) } := by
  apply h.update
  · have hb := h.box b
    refine ⟨?_, hb.last, ?_, hb.first_le⟩
    · simp only [listing, filter_inBox_remove]
      rw [← listing, ← hb.list, List.filter_map]
      congr 1
      apply List.filter_congr
      intro x _
      simp [isMsg, toMsg, bne]
    · intro x hx
      exact hb.lo x (List.mem_filter.1 hx).1
  · intro b' hb'
    refine ⟨?_, rfl⟩
    simp only [listing, filter_inBox_remove]
    exact filter_remove_other b i b' hb' _

theorem ent_filter_remove (b : Bytes) (i : Nat) (l : List Msg) :
    (l.map ent).filter (fun e => !(e.box == b && e.index == i)) =
      (l.filter (fun x => !isMsg b i x)).map ent := by
  rw [List.filter_map]; rfl

theorem total_remove {s : Store} (hi : Inv s) {x : Msg} (hx : x ∈ s.msgs) :
    total (s.msgs.filter (fun m => !isMsg x.box x.id m)) = total s.msgs - x.size := by
  have := total_filter_add (isMsg x.box x.id) s.msgs
  rw [filter_isMsg_eq hi.asc hx] at this
  simp at this
  omega

theorem refines_remove (c : Cfg) (m : Mem) (s : Store) (b : Bytes) (i : Nat) (h : R c m s) :
    R c (Model.Mem.step c m (.remove b i)).1 (Spec.Store.step c s (.remove b i)).1 ∧
    (Model.Mem.step c m (.remove b i)).2 = (Spec.Store.step c s (.remove b i)).2 := by
  have hinv := inv_step c s (.remove b i) h.inv
  have hany := any_rel (h.rb.box b) i
  simp only [Model.Mem.step, Spec.Store.step] at hinv ⊢
  cases hf : (m.boxes b).msgs.find? (·.index == i) with
  | none =>
    have : s.msgs.any (isMsg b i) = false := by
      rw [hany]
      cases ha : (m.boxes b).msgs.any (·.index == i) with
      | false => rfl
      | true =>
        rw [List.any_eq_true] at ha
        obtain ⟨y, hy, hyi⟩ := ha
        exact absurd hyi (List.find?_eq_none.1 hf y hy)
    simp only [removeFromBox_none m b i hf, this, Bool.false_eq_true, ↓reduceIte]
    exact ⟨h.touch b, trivial⟩
  | some y =>
    have hy := List.mem_of_find?_eq_some hf
    have hyi : y.index = i := by simpa using List.find?_some hf
    have : s.msgs.any (isMsg b i) = true := by
      rw [hany, List.any_eq_true]; exact ⟨y, hy, by simp [hyi]⟩
    simp only [removeFromBox_some m b i y hf, this, ↓reduceIte] at hinv ⊢
    refine ⟨⟨hinv, ?_, ?_⟩, trivial⟩
    · unfold enfRemove; split
      · exact h.rb.remove b i
      · exact (h.rb.remove b i).congr rfl rfl
    · have hx : toMsg b y ∈ s.msgs := (h.rb.box b).of_mem hy
      refine ⟨fun hl => ?_, fun hl => ?_⟩
      · have hne : (c.limit == 0) = false := by simp; omega
        obtain ⟨h1, h2⟩ := h.enf.on hl
        simp only [enfRemove, hne, Bool.false_eq_true, ↓reduceIte, setBox_all, setBox_cur]
        rw [h1, h2, hyi, ent_filter_remove]
        refine ⟨rfl, ?_⟩
        have := total_remove h.inv hx
        simp only [toMsg_box, toMsg_id, toMsg_size, hyi] at this
        exact this.symm
      · have hne : (c.limit == 0) = true := by simp [hl]
        simp only [enfRemove, hne, ↓reduceIte, setBox_all, setBox_cur]
        exact h.enf.off hl

/-! ### a run of enforcer removals (purge, cap eviction) -/

theorem foldl_enfRemove_off (b : Bytes) (olds : List MMsg) (m : Mem) :
    olds.foldl (fun st old => enfRemove 0 st b old) m = m := by
  induction olds generalizing m with
  | nil => rfl
  | cons o rest ih => simp only [List.foldl_cons]; rw [show enfRemove 0 m b o = m from rfl]; exact ih m

theorem enfRemove_on (limit : Nat) (hne : (limit == 0) = false) (m : Mem) (b : Bytes) (o : MMsg) :
    enfRemove limit m b o =
      { m with all := m.all.filter (fun e => !(e.box == b && e.index == o.index)),
               cur := m.cur - o.source.length } := by
  simp [enfRemove, hne]

theorem foldl_enfRemove_on (limit : Nat) (hl : limit > 0) (b : Bytes) (olds : List MMsg) (m : Mem) :
    (olds.foldl (fun st old => enfRemove limit st b old) m).boxes = m.boxes ∧
    (olds.foldl (fun st old => enfRemove limit st b old) m).names = m.names ∧
    (olds.foldl (fun st old => enfRemove limit st b old) m).all =
      m.all.filter (fun e => !(e.box == b && olds.any (fun o => e.index == o.index))) ∧
    (olds.foldl (fun st old => enfRemove limit st b old) m).cur =
      m.cur - (olds.map (·.source.length)).sum := by
  have hne : (limit == 0) = false := by simp; omega
  induction olds generalizing m with
  | nil =>
    refine ⟨rfl, rfl, ?_, by simp⟩
    simp only [List.foldl_nil, List.any_nil, Bool.and_false, Bool.not_false]
    exact (List.filter_eq_self.2 (fun _ _ => rfl)).symm
  | cons o rest ih =>
    simp only [List.foldl_cons]
    obtain ⟨h1, h2, h3, h4⟩ := ih (enfRemove limit m b o)
    rw [enfRemove_on limit hne] at h1 h2 h3 h4 ⊢
    refine ⟨h1, h2, ?_, ?_⟩
    · rw [h3, List.filter_filter]
      apply List.filter_congr
      intro e _
      simp only [List.any_cons]
      generalize (rest.any fun o => e.index == o.index) = C
      generalize (e.box == b) = A
      generalize (e.index == o.index) = B
      cases A <;> cases B <;> cases C <;> rfl
    · rw [h4]; simp; omega

theorem sum_sizes (b : Bytes) (l : List MMsg) :
    (l.map (·.source.length)).sum = total (l.map (toMsg b)) := by
  simp [total, List.map_map, Function.comp_def, Msg.size, toMsg]

/-! ### purge -/

theorem refines_purge (c : Cfg) (m : Mem) (s : Store) (b : Bytes) (h : R c m s) :
    R c (Model.Mem.step c m (.purge b)).1 (Spec.Store.step c s (.purge b)).1 ∧
    (Model.Mem.step c m (.purge b)).2 = (Spec.Store.step c s (.purge b)).2 := by
  have hinv := inv_step c s (.purge b) h.inv
  simp only [Model.Mem.step, Spec.Store.step] at hinv ⊢
  have hb := h.rb.box b
  have hrb : RB (setBox m b { m.boxes b with msgs := [] })
      { s with msgs := s.msgs.filter (fun x => !inBox b x) } := by
    apply h.rb.update
    · refine ⟨?_, hb.last, by simp, hb.first_le⟩
      simp only [listing, List.filter_filter, List.map_nil]
      symm; rw [List.filter_eq_nil_iff]; intro x _; simp
    · intro b' hb'
      refine ⟨?_, rfl⟩
      simp only [listing, List.filter_filter]
      apply List.filter_congr
      intro x _
      by_cases hx : x.box = b' <;> simp [inBox, hx]
      exact fun hh => hb' hh
  refine ⟨⟨hinv, ?_, ?_⟩, ?_⟩
  · by_cases hl : c.limit = 0
    · rw [hl, foldl_enfRemove_off]; exact hrb
    · obtain ⟨h1, h2, _, _⟩ := foldl_enfRemove_on c.limit (by omega) b (m.boxes b).msgs
        (setBox m b { m.boxes b with msgs := [] })
      exact hrb.congr h1 h2
  · refine ⟨fun hl => ?_, fun hl => ?_⟩
    · obtain ⟨_, _, h3, h4⟩ := foldl_enfRemove_on c.limit hl b (m.boxes b).msgs
        (setBox m b { m.boxes b with msgs := [] })
      obtain ⟨e1, e2⟩ := h.enf.on hl
      rw [h3, h4]
      simp only [setBox_all, setBox_cur, e1, e2]
      constructor
      · rw [List.filter_map]
        congr 1
        apply List.filter_congr
        intro x hx
        simp only [Function.comp, ent]
        by_cases hxb : x.box = b
        · obtain ⟨y, hy, hyx⟩ := hb.mem_of hx hxb
          have : (m.boxes b).msgs.any (fun o => x.id == o.index) = true := by
            rw [List.any_eq_true]; exact ⟨y, hy, by simp [← hyx]⟩
          simp [hxb, this]
        · have h1 : (x.box == b) = false := by simp [hxb]
          simp [h1, inBox]
      · rw [sum_sizes b, hb.list]
        have := total_filter_add (inBox b) s.msgs
        simp only [listing]; omega
    · rw [hl, foldl_enfRemove_off]; exact h.enf.off hl
  · simp only [← hb.list, List.map_map]
    rfl

/-! ### visit -/

theorem nodup_eraseDups (l : List Bytes) : l.eraseDups.Nodup := by
  suffices ∀ n (l : List Bytes), l.length ≤ n → l.eraseDups.Nodup from this _ l (Nat.le_refl _)
  intro n
  induction n with
  | zero => intro l hl; cases l <;> simp_all
  | succ n ih =>
    intro l hl
    cases l with
    | nil => simp
    | cons a t =>
      rw [List.eraseDups_cons, List.nodup_cons]
      constructor
      · rw [List.mem_eraseDups]; simp
      · apply ih
        have := List.length_filter_le (fun b => !b == a) t
        simp at hl; omega

/-- outputs agree; for `visit` up to the order of the mailboxes (Go map order is arbitrary) -/
def OutRel : Out → Out → Prop
  | .boxes l, .boxes l' => l.Perm l'
  | o, o' => o = o'

theorem OutRel.of_eq {o o' : Out} (h : o = o') : OutRel o o' := by
  subst h; cases o <;> simp [OutRel]

theorem refines_visit (c : Cfg) (m : Mem) (s : Store) (h : R c m s) :
    R c (Model.Mem.step c m .visit).1 (Spec.Store.step c s .visit).1 ∧
    OutRel (Model.Mem.step c m .visit).2.1 (Spec.Store.step c s .visit).2.1 ∧
    (Model.Mem.step c m .visit).2.2 = (Spec.Store.step c s .visit).2.2 := by
  refine ⟨h, ?_, rfl⟩
  simp only [Model.Mem.step, Spec.Store.step, OutRel]
  have hmap : m.names.map (fun b => (m.boxes b).msgs.map (toMsg b)) = m.names.map (listing s) :=
    List.map_congr_left (fun b _ => (h.rb.box b).list)
  rw [hmap, List.filter_map]
  apply List.Perm.map
  unfold boxNames
  rw [List.perm_ext_iff_of_nodup (h.rb.names_nodup.sublist List.filter_sublist) (nodup_eraseDups _)]
  intro b
  simp only [List.mem_eraseDups, List.mem_filter, List.mem_map, Function.comp]
  constructor
  · rintro ⟨_, hne⟩
    cases hl : listing s b with
    | nil => simp [hl] at hne
    | cons x t =>
      have : x ∈ listing s b := by rw [hl]; simp
      simp [listing] at this
      exact ⟨x, this.1, this.2⟩
  · rintro ⟨x, hx, hxb⟩
    have hmem : x ∈ listing s b := by simp [listing, hx, hxb]
    have hne : listing s b ≠ [] := List.ne_nil_of_mem hmem
    constructor
    · apply h.rb.names b
      intro he
      apply hne
      rw [← (h.rb.box b).list, he]; rfl
    · cases hl : listing s b with
      | nil => exact absurd hl hne
      | cons _ _ => rfl

/-! ### the cap loop removes exactly the oldest `length - cap` messages -/

theorem capLoop_spec (cap last : Nat) :
    ∀ (fuel first : Nat) (msgs ev : List MMsg),
      first + fuel = last + 1 →
      (msgs.map (·.index)).Pairwise (· < ·) →
      (∀ x ∈ msgs, first ≤ x.index) → (∀ x ∈ msgs, x.index ≤ last) →
      (capLoop cap fuel first msgs ev).2.1 = msgs.drop (msgs.length - cap) ∧
      (capLoop cap fuel first msgs ev).2.2 = ev.reverse ++ msgs.take (msgs.length - cap) ∧
      (∀ x ∈ (capLoop cap fuel first msgs ev).2.1, (capLoop cap fuel first msgs ev).1 ≤ x.index) ∧
      (capLoop cap fuel first msgs ev).1 ≤ last + 1 := by
  intro fuel
  induction fuel with
  | zero =>
    intro first msgs ev hf _ hlo hhi
    cases msgs with
    | nil => simp [capLoop]; omega
    | cons x t =>
      have := hlo x (by simp); have := hhi x (by simp); omega
  | succ fuel ih =>
    intro first msgs ev hf hasc hlo hhi
    by_cases hlen : msgs.length > cap
    · cases msgs with
      | nil => simp at hlen
      | cons x rest =>
        rw [List.map_cons, List.pairwise_cons] at hasc
        have hgt : ∀ y ∈ rest, x.index < y.index := fun y hy =>
          hasc.1 y.index (List.mem_map_of_mem hy)
        have hk : (x :: rest).length - cap = (rest.length - cap) + 1 := by
          simp at hlen ⊢; omega
        by_cases hx : x.index = first
        · have hfind : (x :: rest).find? (·.index == first) = some x := by simp [hx]
          have hfilt : (x :: rest).filter (·.index != first) = rest := by
            simp only [List.filter_cons, hx, bne_self_eq_false, Bool.false_eq_true, ↓reduceIte]
            rw [List.filter_eq_self]
            intro y hy
            have := hgt y hy
            simp; omega
          have := ih (first + 1) rest (x :: ev) (by omega) hasc.2
            (fun y hy => by have := hgt y hy; omega)
            (fun y hy => hhi y (List.mem_cons_of_mem _ hy))
          simp only [capLoop, hlen, ↓reduceIte, hfind, hfilt]
          rw [hk, List.drop_succ_cons, List.take_succ_cons]
          simpa using this
        · have hfind : (x :: rest).find? (·.index == first) = none := by
            rw [List.find?_eq_none]
            intro y hy
            simp only [List.mem_cons] at hy
            rcases hy with rfl | hy
            · simpa using hx
            · have := hgt y hy; have := hlo x (by simp); simp; omega
          have := ih (first + 1) (x :: rest) ev (by omega)
            (by rw [List.map_cons, List.pairwise_cons]; exact hasc)
            (fun y hy => by
              simp only [List.mem_cons] at hy
              rcases hy with rfl | hy
              · have := hlo y (by simp); omega
              · have := hgt y hy; have := hlo x (by simp); omega)
            hhi
          simp only [capLoop, hlen, ↓reduceIte, hfind]
          exact this
    · have hk : msgs.length - cap = 0 := by omega
      simp only [capLoop, hlen, ↓reduceIte, hk, List.drop_zero, List.take_zero, List.append_nil]
      exact ⟨trivial, trivial, hlo, by omega⟩

/-! ### the enforcer loop is `limitEvict` -/

theorem filter_head_remove {x : Msg} {l : List Msg}
    (hp : (x :: l).Pairwise (fun x y => x.box = y.box → x.id < y.id)) :
    (x :: l).filter (fun m => !isMsg x.box x.id m) = l := by
  rw [List.pairwise_cons] at hp
  have : isMsg x.box x.id x = true := by simp
  simp only [List.filter_cons, this, Bool.not_true, Bool.false_eq_true, ↓reduceIte]
  rw [List.filter_eq_self]
  intro y hy
  cases hh : isMsg x.box x.id y with
  | false => rfl
  | true =>
    simp at hh
    have := hp.1 y hy hh.1.symm
    omega

theorem removeFromBox_hit {m : Mem} {s : Store} (h : RB m s) {x : Msg} (hx : x ∈ s.msgs) :
    ∃ y, (removeFromBox m x.box x.id).2 = some y ∧
      RB (removeFromBox m x.box x.id).1 { s with msgs := s.msgs.filter (fun z => !isMsg x.box x.id z) } ∧
      (removeFromBox m x.box x.id).1.all = m.all ∧ (removeFromBox m x.box x.id).1.cur = m.cur := by
  obtain ⟨y, hy, hyx⟩ := (h.box x.box).mem_of hx rfl
  have hyi : y.index = x.id := by rw [← hyx]; rfl
  cases hf : (m.boxes x.box).msgs.find? (·.index == x.id) with
  | none => exact absurd (by simp [hyi]) (List.find?_eq_none.1 hf y hy)
  | some y' =>
    rw [removeFromBox_some m x.box x.id y' hf]
    exact ⟨y', rfl, h.remove x.box x.id, rfl, rfl⟩

theorem enfLoop_pop (limit fuel : Nat) (m m2 : Mem) (ev : List Ev) (e : Ent) (rest : List Ent) (y : MMsg)
    (hc : m.cur > limit) (hall : m.all = e :: rest)
    (hrm : removeFromBox { m with all := rest } e.box e.index = (m2, some y)) :
    enfLoop limit (fuel + 1) m ev =
      enfLoop limit fuel { m2 with cur := m2.cur - e.size } ((e.box, e.index) :: ev) := by
  simp only [enfLoop, hc, ↓reduceIte, hall, hrm]

theorem enfLoop_stop (limit fuel : Nat) (m : Mem) (ev : List Ev) (hc : ¬ m.cur > limit) :
    enfLoop limit (fuel + 1) m ev = (m, ev.reverse) := by
  simp only [enfLoop, hc, ↓reduceIte]

theorem enfLoop_refines (c : Cfg) (hl : c.limit > 0) :
    ∀ (fuel : Nat) (m : Mem) (s : Store) (ev : List Ev),
      R c m s → fuel > s.msgs.length →
      R c (enfLoop c.limit fuel m ev).1 { s with msgs := (limitEvict c.limit s.msgs).1 } ∧
      (enfLoop c.limit fuel m ev).2 = ev.reverse ++ (limitEvict c.limit s.msgs).2.map evOf := by
  intro fuel
  induction fuel with
  | zero => intro m s ev _ hf; omega
  | succ fuel ih =>
    intro m s ev h hf
    obtain ⟨hall, hcur⟩ := h.enf.on hl
    obtain ⟨msgs, next⟩ := s
    cases msgs with
    | nil =>
      have hc : ¬ m.cur > c.limit := by rw [hcur]; simp
      rw [enfLoop_stop _ _ _ _ hc]
      simp only [limitEvict]
      exact ⟨h, by simp⟩
    | cons x l =>
      simp only [List.map_cons] at hall
      simp only at hcur
      by_cases hc : total (x :: l) > c.limit
      · have hc' : m.cur > c.limit := by rw [hcur]; exact hc
        have hrb1 : RB { m with all := l.map ent } ⟨x :: l, next⟩ := h.rb.congr rfl rfl
        obtain ⟨y, h2, hrb, ha, hcu⟩ := removeFromBox_hit hrb1 (x := x) (by simp)
        have htail := filter_head_remove h.inv.asc
        simp only [htail] at hrb
        generalize hrf : removeFromBox { m with all := l.map ent } x.box x.id = r at h2 hrb ha hcu
        obtain ⟨m2, o⟩ := r
        simp only at h2 hrb ha hcu
        subst h2
        rw [enfLoop_pop c.limit fuel m m2 ev (ent x) (l.map ent) y hc' hall hrf]
        have hR : R c { m2 with cur := m2.cur - (ent x).size } ⟨l, next⟩ := by
          refine ⟨h.inv.of_sublist l (by simp), hrb.congr rfl rfl, ?_⟩
          refine ⟨fun _ => ⟨ha, ?_⟩, fun h0 => by omega⟩
          simp only [hcu, hcur, total_cons, ent]; omega
        have := ih _ ⟨l, next⟩ (((ent x).box, (ent x).index) :: ev) hR (by simp at hf ⊢; omega)
        simp only [limitEvict, hl, hc, and_self, ↓reduceIte]
        refine ⟨this.1, ?_⟩
        rw [this.2]
        simp [evOf, ent]
      · have hc' : ¬ m.cur > c.limit := by rw [hcur]; exact hc
        rw [enfLoop_stop _ _ _ _ hc']
        simp only [limitEvict, hl, hc, and_false, ↓reduceIte]
        exact ⟨h, by simp⟩

/-! ### add -/

/-- the cap phase of AddMessage -/
def capPhase (cap : Nat) (first last : Nat) (msgs1 : List MMsg) : Nat × List MMsg × List MMsg :=
  if cap > 0 then capLoop cap (last + 1 - first) first msgs1 [] else (first, msgs1, [])

/-- the message AddMessage stores -/
def newMMsg (mb : MBox) (hdr : Meta) (src : Bytes) : MMsg :=
  { index := mb.last + 1, hdr := hdr, seen := false, source := src }

theorem mem_step_add (c : Cfg) (m : Mem) (b : Bytes) (hdr : Meta) (src : Bytes) :
    Model.Mem.step c m (.add b hdr src) =
      let mb := m.boxes b
      let y := newMMsg mb hdr src
      let cp := capPhase c.cap mb.first (mb.last + 1) (mb.msgs ++ [y])
      let m2 := cp.2.2.foldl (fun st old => enfRemove c.limit st b old)
        (setBox m b { first := cp.1, last := mb.last + 1, msgs := cp.2.1 })
      ((enfDeliver c.limit m2 b y).1, .id (mb.last + 1),
        cp.2.2.map (fun old => (b, old.index)) ++ (enfDeliver c.limit m2 b y).2) := rfl

theorem capPhase_spec (cap : Nat) (mb : MBox) (y : MMsg) (hy : y.index = mb.last + 1) (hbi : BoxInv mb) :
    let k := if cap > 0 then mb.msgs.length + 1 - cap else 0
    let cp := capPhase cap mb.first (mb.last + 1) (mb.msgs ++ [y])
    k ≤ mb.msgs.length ∧
    cp.2.1 = mb.msgs.drop k ++ [y] ∧ cp.2.2 = mb.msgs.take k ∧
    (∀ x ∈ cp.2.1, cp.1 ≤ x.index) ∧ cp.1 ≤ mb.last + 1 + 1 := by
  intro k cp
  have hk : k ≤ mb.msgs.length := by simp only [k]; split <;> omega
  refine ⟨hk, ?_⟩
  by_cases hc : cap > 0
  · have hlo : ∀ x ∈ mb.msgs ++ [y], mb.first ≤ x.index := by
      intro x hx
      simp only [List.mem_append, List.mem_singleton] at hx
      rcases hx with hx | rfl
      · exact hbi.lo x hx
      · have := hbi.first_le; omega
    have hhi : ∀ x ∈ mb.msgs ++ [y], x.index ≤ mb.last + 1 := by
      intro x hx
      simp only [List.mem_append, List.mem_singleton] at hx
      rcases hx with hx | rfl
      · have := hbi.hi x hx; omega
      · omega
    have hasc : ((mb.msgs ++ [y]).map (·.index)).Pairwise (· < ·) := by
      rw [List.map_append, List.pairwise_append]
      refine ⟨hbi.asc, by simp, ?_⟩
      intro a ha a' ha'
      simp only [List.mem_map] at ha
      obtain ⟨x, hx, rfl⟩ := ha
      simp at ha'; subst ha'
      have := hbi.hi x hx; omega
    have := capLoop_spec cap (mb.last + 1) (mb.last + 1 + 1 - mb.first) mb.first (mb.msgs ++ [y]) []
      (by have := hbi.first_le; omega) hasc hlo hhi
    have hcp : cp = capLoop cap (mb.last + 1 + 1 - mb.first) mb.first (mb.msgs ++ [y]) [] := by
      simp only [cp, capPhase, hc, ↓reduceIte]
    rw [← hcp] at this
    have hkk : (mb.msgs ++ [y]).length - cap = k := by simp [k, hc]
    rw [hkk, List.drop_append_of_le_length hk, List.take_append_of_le_length hk] at this
    simpa using this
  · have hk0 : k = 0 := by simp [k, hc]
    have hcp : cp = (mb.first, mb.msgs ++ [y], []) := by simp only [cp, capPhase, hc, ↓reduceIte]
    rw [hcp, hk0]
    refine ⟨by simp, by simp, ?_, by have := hbi.first_le; omega⟩
    intro x hx
    simp only [List.mem_append, List.mem_singleton] at hx
    rcases hx with hx | rfl
    · exact hbi.lo x hx
    · have := hbi.first_le; omega

theorem enfDeliver_off (m : Mem) (b : Bytes) (y : MMsg) : enfDeliver 0 m b y = (m, []) := rfl

theorem enfDeliver_on (limit : Nat) (hl : limit > 0) (m : Mem) (b : Bytes) (y : MMsg) :
    enfDeliver limit m b y =
      enfLoop limit (m.all.length + 1 + 1)
        { m with all := m.all ++ [{ box := b, index := y.index, size := y.source.length }],
                 cur := m.cur + y.source.length } [] := by
  have hne : (limit == 0) = false := by simp; omega
  simp [enfDeliver, hne]

theorem refines_add (c : Cfg) (m : Mem) (s : Store) (b : Bytes) (hdr : Meta) (src : Bytes) (h : R c m s) :
    R c (Model.Mem.step c m (.add b hdr src)).1 (Spec.Store.step c s (.add b hdr src)).1 ∧
    (Model.Mem.step c m (.add b hdr src)).2 = (Spec.Store.step c s (.add b hdr src)).2 := by
  have hb := h.rb.box b
  have hbi := h.boxInv b
  -- names for the pieces
  generalize hy : newMMsg (m.boxes b) hdr src = y
  have hyi : y.index = (m.boxes b).last + 1 := by rw [← hy]; rfl
  have hyx : toMsg b y = newMsg s b hdr src := by rw [← hy]; simp [toMsg, newMMsg, newMsg, hb.last]
  have hysz : y.source.length = (newMsg s b hdr src).size := by rw [← hyx]; rfl
  obtain ⟨hk, hkept, hevict, hlo', hfirst'⟩ := capPhase_spec c.cap (m.boxes b) y hyi hbi
  rw [mem_step_add, step_add]
  simp only [hy]
  generalize hcp : capPhase c.cap (m.boxes b).first ((m.boxes b).last + 1) ((m.boxes b).msgs ++ [y]) = cp
    at hkept hevict hlo' hfirst'
  obtain ⟨first', kept, evicted⟩ := cp
  simp only at hkept hevict hlo' hfirst' ⊢
  -- the spec side of the cap phase
  have hlen : (m.boxes b).msgs.length = (s.msgs.filter (inBox b)).length := by
    rw [← listing, ← hb.list, List.length_map]
  rw [capEvict_add c.cap b s.msgs (newMsg s b hdr src) (by simp [newMsg])]
  rw [← hlen]
  generalize hkdef : (if c.cap > 0 then (m.boxes b).msgs.length + 1 - c.cap else 0) = k
    at hk hkept hevict
  have hd2 : (dropOldest b k s.msgs).2 = evicted.map (toMsg b) := by
    rw [dropOldest_removed, ← listing, ← hb.list, hevict, List.map_take]
  have hd1b : (dropOldest b k s.msgs).1.filter (inBox b) = ((m.boxes b).msgs.drop k).map (toMsg b) := by
    rw [dropOldest_kept_box, ← listing, ← hb.list, List.map_drop]
  have hd1f := dropOldest_kept_filter b k s.msgs h.inv.asc
  have hperm := total_perm (dropOldest_perm b k s.msgs)
  have hd1o : ∀ b', b' ≠ b → (dropOldest b k s.msgs).1.filter (inBox b') = listing s b' := by
    intro b' hb'
    apply dropOldest_kept_other
    intro z hz; simp at hz; simp [inBox, hz]; exact hb'
  -- invariant of the intermediate spec state (cap applied, limit not yet)
  have hinv1 : Inv { msgs := (dropOldest b k s.msgs).1 ++ [newMsg s b hdr src],
                     next := fun x => if x == b then s.next b + 1 else s.next x } := by
    have := inv_add ⟨c.cap, 0⟩ s b hdr src h.inv
    rw [step_add] at this
    simp only [limitEvict_disabled] at this
    rw [capEvict_add c.cap b s.msgs (newMsg s b hdr src) (by simp [newMsg]), ← hlen, hkdef] at this
    exact this
  generalize dropOldest b k s.msgs = d0 at hd2 hd1b hd1f hperm hd1o hinv1
  obtain ⟨d1, d2⟩ := d0
  simp only at hd2 hd1b hd1f hperm hd1o hinv1 ⊢
  simp only [← hyx] at hinv1 ⊢
  have hevs : evicted.map (fun old => (b, old.index)) = d2.map evOf := by
    rw [hd2, List.map_map]; rfl
  have hnext : (m.boxes b).last + 1 = s.next b + 1 := by rw [hb.last]
  -- mailboxes after the cap phase
  have hrb1 : RB (setBox m b { first := first', last := (m.boxes b).last + 1, msgs := kept })
      { msgs := d1 ++ [toMsg b y], next := fun x => if (x == b) = true then s.next b + 1 else s.next x } := by
    apply h.rb.update
    · refine ⟨?_, by simp [hnext], hlo', hfirst'⟩
      simp only [listing, List.filter_append, hd1b, hkept, List.map_append, List.map_cons, List.map_nil]
      simp
    · intro b' hb'
      refine ⟨?_, by simp [hb']⟩
      have : inBox b' (toMsg b y) = false := by simp [inBox]; exact fun hh => hb' hh.symm
      simp only [listing, List.filter_append, hd1o b' hb', List.filter_cons, this]
      simp
  by_cases hl : c.limit = 0
  · rw [hl, foldl_enfRemove_off, enfDeliver_off, limitEvict_disabled]
    refine ⟨⟨hinv1, hrb1, ⟨fun h0 => by omega, fun _ => h.enf.off hl⟩⟩, ?_⟩
    simp [hevs, hnext]
  · have hl' : c.limit > 0 := by omega
    obtain ⟨f1, f2, f3, f4⟩ := foldl_enfRemove_on c.limit hl' b evicted
      (setBox m b { first := first', last := (m.boxes b).last + 1, msgs := kept })
    rw [enfDeliver_on c.limit hl']
    generalize List.foldl (fun st old => enfRemove c.limit st b old)
      (setBox m b { first := first', last := (m.boxes b).last + 1, msgs := kept }) evicted = m2
      at f1 f2 f3 f4
    obtain ⟨e1, e2⟩ := h.enf.on hl'
    simp only [setBox_all, setBox_cur, e1, e2] at f3 f4
    have hall2 : m2.all = d1.map ent := by
      rw [f3, hd1f, List.filter_map]
      congr 1
      apply List.filter_congr
      intro z _
      simp only [Function.comp, ent, hd2, List.any_map, inBox]
      rfl
    have hcur2 : m2.cur = total d1 := by
      rw [f4, sum_sizes b, ← hd2]
      simp only [total_append] at hperm
      omega
    have hR : R c { m2 with all := m2.all ++ [{ box := b, index := y.index, size := y.source.length }],
                            cur := m2.cur + y.source.length }
        { msgs := d1 ++ [toMsg b y], next := fun x => if (x == b) = true then s.next b + 1 else s.next x } := by
      refine ⟨hinv1, (hrb1.congr f1 f2).congr rfl rfl, ⟨fun _ => ⟨?_, ?_⟩, fun h0 => by omega⟩⟩
      · simp only [hall2, List.map_append, List.map_cons, List.map_nil]; rfl
      · simp only [hcur2, total_append, total_cons, total_nil, toMsg_size]; omega
    have := enfLoop_refines c hl' (m2.all.length + 1 + 1) _ _ [] hR
      (by simp only [hall2, List.length_map, List.length_append, List.length_cons, List.length_nil]; omega)
    refine ⟨this.1, ?_⟩
    rw [this.2]
    simp [hevs, hnext]

/-! ### all operations, all histories -/

theorem refines_step (c : Cfg) (m : Mem) (s : Store) (op : Op) (h : R c m s) :
    R c (Model.Mem.step c m op).1 (Spec.Store.step c s op).1 ∧
    OutRel (Model.Mem.step c m op).2.1 (Spec.Store.step c s op).2.1 ∧
    (Model.Mem.step c m op).2.2 = (Spec.Store.step c s op).2.2 := by
  have lift : ∀ {a b : Out × List Ev}, a = b → OutRel a.1 b.1 ∧ a.2 = b.2 :=
    fun hab => by subst hab; exact ⟨OutRel.of_eq rfl, rfl⟩
  cases op with
  | add b hdr src => exact ⟨(refines_add c m s b hdr src h).1, lift (refines_add c m s b hdr src h).2⟩
  | get b i => exact ⟨(refines_get c m s b i h).1, lift (refines_get c m s b i h).2⟩
  | latest b => exact ⟨(refines_latest c m s b h).1, lift (refines_latest c m s b h).2⟩
  | list b => exact ⟨(refines_list c m s b h).1, lift (refines_list c m s b h).2⟩
  | seen b i => exact ⟨(refines_seen c m s b i h).1, lift (refines_seen c m s b i h).2⟩
  | remove b i => exact ⟨(refines_remove c m s b i h).1, lift (refines_remove c m s b i h).2⟩
  | purge b => exact ⟨(refines_purge c m s b h).1, lift (refines_purge c m s b h).2⟩
  | visit => exact refines_visit c m s h

def isVisit : Op → Bool
  | .visit => true
  | _ => false

/-- every operation except `visit` answers exactly as the spec -/
theorem refines_step_exact (c : Cfg) (m : Mem) (s : Store) (op : Op) (h : R c m s) (hv : isVisit op = false) :
    (Model.Mem.step c m op).2 = (Spec.Store.step c s op).2 := by
  cases op with
  | add b hdr src => exact (refines_add c m s b hdr src h).2
  | get b i => exact (refines_get c m s b i h).2
  | latest b => exact (refines_latest c m s b h).2
  | list b => exact (refines_list c m s b h).2
  | seen b i => exact (refines_seen c m s b i h).2
  | remove b i => exact (refines_remove c m s b i h).2
  | purge b => exact (refines_purge c m s b h).2
  | visit => simp [isVisit] at hv

theorem R_empty (c : Cfg) : R c Model.Mem.empty Spec.Store.empty := by
  refine ⟨inv_empty, ⟨?_, by simp [Model.Mem.empty], ?_⟩, ⟨fun _ => ⟨rfl, rfl⟩, fun _ => ⟨rfl, rfl⟩⟩⟩
  · intro b
    exact ⟨rfl, rfl, by simp [Model.Mem.empty, emptyBox], by simp [Model.Mem.empty, emptyBox]⟩
  · intro b hne; exact absurd rfl hne

/-- run a history on the memory-store model -/
def runMem (c : Cfg) : Mem → List Op → Mem × List (Out × List Ev)
  | m, [] => (m, [])
  | m, op :: ops =>
    ((runMem c (Model.Mem.step c m op).1 ops).1,
     (Model.Mem.step c m op).2 :: (runMem c (Model.Mem.step c m op).1 ops).2)

/-- answers of two runs agree: outputs by `OutRel`, events exactly -/
def AnsRel (a b : Out × List Ev) : Prop := OutRel a.1 b.1 ∧ a.2 = b.2

/-- pointwise `AnsRel` on two answer lists of the same length -/
inductive AnsAll : List (Out × List Ev) → List (Out × List Ev) → Prop
  | nil : AnsAll [] []
  | cons {a b : Out × List Ev} {l l' : List (Out × List Ev)} : AnsRel a b → AnsAll l l' → AnsAll (a :: l) (b :: l')

theorem refines_run (c : Cfg) (ops : List Op) (m : Mem) (s : Store) (h : R c m s) :
    R c (runMem c m ops).1 (run c s ops).1 ∧ AnsAll (runMem c m ops).2 (run c s ops).2 := by
  induction ops generalizing m s with
  | nil => exact ⟨h, AnsAll.nil⟩
  | cons op ops ih =>
    obtain ⟨h1, h2, h3⟩ := refines_step c m s op h
    obtain ⟨i1, i2⟩ := ih _ _ h1
    simp only [runMem, run]
    exact ⟨i1, AnsAll.cons ⟨h2, h3⟩ i2⟩

end Ibx.Lemmas.MemRefine
