import Ibx.Lemmas.ScanMem
import Ibx.Lemmas.ConcMemAcct
/-
  What the retention scan removes, at lock granularity (Ibx/Model/ScanMem.lean).

  * store-level facts: a message that has left its map never comes back (`dead_step`: ids are handed out by the
    mailbox counter, which never goes down); the slice GetMessages returned holds ids the counter has issued (`LinB`);
  * `OpsInv`: every operation thread `t0` issues is a GetMessages or a RemoveMessage of a key in `calls`;
  * `ScanInv`: the control invariant — the pending list is part of a snapshot, every call was for an expired snapshot
    entry, and every expired snapshot entry is dead or still to be handled by the callback in hand.
-/
namespace Ibx.Model.ScanMem
open Ibx.Model.ConcMem

/-! ### store-level facts -/

/-- the message has been in its mailbox (its id was issued) and is not there any more -/
def Dead (m : ConcMem.St) (k : Key) : Prop := k.2 ∉ (m.boxes k.1).msgs ∧ k.2 ≤ (m.boxes k.1).last

theorem evDelete_last (s : ConcMem.St) (k : Key) (b : Nat) : ((evDelete s k).boxes b).last = (s.boxes b).last := by
  simp only [evDelete]
  split
  · by_cases e : b = k.1
    · subst e; simp
    · simp [upd, e]
  · rfl

/-- the mailbox counters never go down -/
theorem last_mono_step {v c s s'} (st : Step v c s s') (b : Nat) : (s.boxes b).last ≤ (s'.boxes b).last := by
  cases st with
  | crit t o hp ht =>
    have := step_last c s.abs o b
    simp only [St.abs] at this
    simp only [critEff, this]
    split <;> omega
  | evCrit t k hp he => rw [show ({ evDelete s k with epc := .evUnlockB t k (evFound s k) } : ConcMem.St).boxes
      = (evDelete s k).boxes from rfl, evDelete_last]; exact Nat.le_refl _
  | _ => exact Nat.le_refl _

/-- **a removed message never comes back**: no step of the store puts an id the counter has already passed into
    the map again -/
theorem dead_step {v c s s'} (st : Step v c s s') (hbox : BoxOK s.abs) (k : Key) (h : Dead s k) : Dead s' k := by
  refine ⟨?_, Nat.le_trans h.2 (last_mono_step st k.1)⟩
  cases st with
  | crit t o hp ht =>
    have F := step_facts c s.abs o hbox
    intro hm
    rcases F.born k hm with q | q
    · exact h.1 q
    · have := (F.new k q).2.1
      have h2 := h.2
      simp only [St.abs] at this
      omega
  | evCrit t k0 hp he =>
    intro hm
    have : live (evDelete s k0).abs k := hm
    exact h.1 ((live_evDelete s k0 k).mp this).1
  | _ => exact h.1

/-- what a step appends to the linearisation record -/
theorem step_lin {v c s s'} (st : Step v c s s') :
    (s'.lin = s.lin ∧ s'.boxes = s.boxes) ∨
    (∃ t o, s.thr t = .crit o ∧ s'.lin = s.lin ++ [(Who.cl t, o, (Atomic.step c s.abs o).2.1)] ∧
      s'.boxes = (Atomic.step c s.abs o).1.boxes) ∨
    (∃ (k : Key) (r : Ret), s'.lin = s.lin ++ [(Who.enf, Op.remove k.1 k.2, r)]) := by
  cases st with
  | crit t o hp ht => exact Or.inr (Or.inl ⟨t, o, ht, rfl, rfl⟩)
  | evCrit t k hp he => exact Or.inr (Or.inr ⟨k, _, rfl⟩)
  | _ => exact Or.inl ⟨rfl, rfl⟩

/-- every slice a GetMessages critical section returned holds only ids the counter of its mailbox has issued -/
def LinB (s : ConcMem.St) : Prop := ∀ w b r, (w, Op.list b, r) ∈ s.lin → ∀ i ∈ idsOf r, i ≤ (s.boxes b).last

theorem linB_step {v c s s'} (st : Step v c s s') (hbox : BoxOK s.abs) (h : LinB s) : LinB s' := by
  intro w b r hm i hi
  have mono := last_mono_step st b
  rcases step_lin st with ⟨q, _⟩ | ⟨t, o, _, q, _⟩ | ⟨k, r', q⟩
  · rw [q] at hm; exact Nat.le_trans (h w b r hm i hi) mono
  · rw [q] at hm
    rcases List.mem_append.mp hm with hm | hm
    · exact Nat.le_trans (h w b r hm i hi) mono
    · simp only [List.mem_singleton, Prod.mk.injEq] at hm
      obtain ⟨_, rfl, rfl⟩ := hm
      simp only [Atomic.step, idsOf, St.abs] at hi
      exact Nat.le_trans ((hbox b).2 i hi).2 mono
  · rw [q] at hm
    rcases List.mem_append.mp hm with hm | hm
    · exact Nat.le_trans (h w b r hm i hi) mono
    · simp at hm

theorem lastRet_mem_aux (t : Nat) (h : List (Nat × Op × Ret)) :
    ∀ (acc : Option (Op × Ret)) (x : Op × Ret),
      h.foldl (fun acc e => if e.1 = t then some e.2 else acc) acc = some x → acc = some x ∨ (t, x.1, x.2) ∈ h := by
  induction h with
  | nil => intro acc x hx; exact Or.inl hx
  | cons e es ih =>
    intro acc x hx
    simp only [List.foldl_cons] at hx
    rcases ih _ x hx with q | q
    · by_cases he : e.1 = t
      · simp only [he, if_true, Option.some.injEq] at q
        right; rw [← q, ← he]; simp
      · simp only [he, if_false] at q; exact Or.inl q
    · exact Or.inr (List.mem_cons_of_mem _ q)

theorem lastRet_mem {t : Nat} {h : List (Nat × Op × Ret)} {o : Op} {r : Ret} (hl : lastRet t h = some (o, r)) :
    (t, o, r) ∈ h := by
  rcases lastRet_mem_aux t h none (o, r) hl with q | q
  · cases q
  · exact q

/-- the store-level invariants used below, bundled -/
structure MemInv (s : ConcMem.St) : Prop where
  pend : PendInv s
  linB : LinB s
  ret : RetInv s
  ids : IdInv s
  del : DelInv s

theorem pendInv_prog {s : ConcMem.St} (t : Nat) (l : List Op) (h : PendInv s) :
    PendInv { s with prog := upd s.prog t l } :=
  ⟨h.box, h.nd, h.uq, h.sntR, h.sntI, h.remT, h.remE, h.incT, h.incE, h.elB, h.goneD⟩

theorem reach_memInv {v c e progs σ} (h : Reach v c e progs σ) : MemInv σ.mem := by
  refine mem_invariant (P := MemInv) ?_ ?_ ?_ h
  · intro p
    exact ⟨pendInv_init p, fun _ _ _ hm => by simp [ConcMem.init] at hm, ⟨by simp [ConcMem.init], by simp [ConcMem.init]⟩,
      fun _ => by simp [ConcMem.init], fun b i h1 h2 => by simp [ConcMem.init, AS.empty] at h2; omega⟩
  · intro s s' st q
    exact ⟨pendInv_step st q.pend, linB_step st q.pend.box q.linB, retInv_step st q.ret, idInv_step st q.ids,
      delInv_step st q.del⟩
  · intro s t l q
    exact ⟨pendInv_prog t l q.pend, q.linB, q.ret, q.ids, q.del⟩

/-! ### the operations the scanner issues -/

def allowed (calls : List Key) (o : Op) : Prop := (∃ b, o = .list b) ∨ ∃ k ∈ calls, o = .remove k.1 k.2

theorem allowed_mono {calls : List Key} {o : Op} (k : Key) (h : allowed calls o) : allowed (calls ++ [k]) o := by
  rcases h with h | ⟨k', hk, h⟩
  · exact Or.inl h
  · exact Or.inr ⟨k', List.mem_append_left _ hk, h⟩

structure OpsInv (e : Env) (σ : St) : Prop where
  prog : ∀ o ∈ σ.mem.prog e.t0, allowed σ.calls o
  thr : ∀ o, opOf (σ.mem.thr e.t0) = some o → allowed σ.calls o
  lin : ∀ o r, (Who.cl e.t0, o, r) ∈ σ.mem.lin → allowed σ.calls o

theorem opsInv_base {v c e} {σ : St} {m' : ConcMem.St} (st : Step v c σ.mem m') (h : OpsInv e σ) :
    OpsInv e { σ with mem := m' } := by
  refine ⟨?_, ?_, ?_⟩
  · intro o ho
    rcases step_local st e.t0 with ⟨_, b, _⟩ | ⟨o', rest, _, q2, _, q4, _⟩ | ⟨_, _, _, _, q3, _⟩
    · exact h.prog o (by rw [← b]; exact ho)
    · exact h.prog o (by rw [q2]; rw [q4] at ho; exact List.mem_cons_of_mem _ ho)
    · exact h.prog o (by rw [← q3]; exact ho)
  · intro o ho
    rcases step_local st e.t0 with ⟨a, _, _⟩ | ⟨o', rest, _, q2, q3, _, _⟩ | ⟨_, _, _, q2, _, _⟩
    · exact h.thr o (by rw [← a]; exact ho)
    · have ho' : opOf (m'.thr e.t0) = some o := ho
      rw [q3] at ho'; simp only [opOf, Option.some.injEq] at ho'; subst ho'
      exact h.prog _ (by rw [q2]; simp)
    · have ho' : opOf (m'.thr e.t0) = some o := ho
      rw [q2] at ho'; cases ho'
  · intro o r hm
    have hm' : (Who.cl e.t0, o, r) ∈ m'.lin := hm
    rcases step_lin st with ⟨q, _⟩ | ⟨t, o', ht, q, _⟩ | ⟨k, r', q⟩
    · exact h.lin o r (by rw [← q]; exact hm')
    · rw [q] at hm'
      rcases List.mem_append.mp hm' with hm' | hm'
      · exact h.lin o r hm'
      · simp only [List.mem_singleton, Prod.mk.injEq, Who.cl.injEq] at hm'
        obtain ⟨rfl, rfl, _⟩ := hm'
        exact h.thr _ (by rw [ht]; rfl)
    · rw [q] at hm'
      rcases List.mem_append.mp hm' with hm' | hm'
      · exact h.lin o r hm'
      · simp at hm'

theorem reach_opsInv {v c e progs σ} (h : Reach v c e progs σ) : OpsInv e σ := by
  induction h with
  | init => exact ⟨by simp [start, ConcMem.init], by simp [start, ConcMem.init, opOf], by simp [start, ConcMem.init]⟩
  | cancel _ ih => exact ⟨ih.prog, ih.thr, ih.lin⟩
  | @step σ0 σ1 hprev st ih =>
    cases st with
    | base st' _ => exact opsInv_base st' ih
    | visitNext b todo hph hr =>
      refine ⟨?_, ih.thr, ih.lin⟩
      intro o ho
      simp only [issue, upd_same, List.mem_singleton] at ho
      exact Or.inl ⟨b, ho⟩
    | sweepCall b i p todo hph hr hx =>
      refine ⟨?_, fun o ho => allowed_mono _ (ih.thr o ho), fun o r hm => allowed_mono _ (ih.lin o r hm)⟩
      intro o ho
      simp only [issue, upd_same, List.mem_singleton] at ho
      exact Or.inr ⟨(b, i), by simp, ho⟩
    | lockNames nm _ _ _ | unlockNames nm _ _ | visitEnd _ _ | gotList b todo r _ _ _ | sweepSkip b i p todo _ _ _
    | returned b i p todo _ _ | sweepEnd b todo _ _ | checkStop todo _ _ _ | checkGo todo _ _ _ =>
      exact ⟨ih.prog, ih.thr, ih.lin⟩

/-! ### the scanner's RemoveMessage before its critical section -/

def PreCrit (m : ConcMem.St) (t : Nat) (o : Op) : Prop :=
  (m.thr t = .idle ∧ m.prog t = [o]) ∨ m.thr t = .lockS o ∨ m.thr t = .unlockS o ∨ m.thr t = .lockB o ∨
  m.thr t = .crit o

theorem preCrit_step {v c s s'} (st : Step v c s s') (t : Nat) (o : Op) (h : PreCrit s t o) :
    PreCrit s' t o ∨ (s.thr t = .crit o ∧ s' = critEff v c t o s) := by
  unfold PreCrit at h ⊢
  cases st with
  | start t' o' rest hp ht hprog =>
    by_cases e : t = t'
    · subst e
      rcases h with ⟨_, h2⟩ | h | h | h | h
      · rw [hprog] at h2; simp only [List.cons.injEq] at h2; obtain ⟨rfl, rfl⟩ := h2
        left; right; left; simp
      all_goals (rw [ht] at h; cases h)
    · left; simpa [upd, e] using h
  | lockS t' o' hp ht hs =>
    by_cases e : t = t'
    · subst e; rw [ht] at h; simp at h; subst h; left; simp
    · left; simpa [upd, e] using h
  | unlockS t' o' hp ht =>
    by_cases e : t = t'
    · subst e; rw [ht] at h; simp at h; subst h; left; simp
    · left; simpa [upd, e] using h
  | lockB t' o' hp ht hc =>
    by_cases e : t = t'
    · subst e; rw [ht] at h; simp at h; subst h; left; simp
    · left; simpa [upd, e, acquire] using h
  | crit t' o' hp ht =>
    by_cases e : t = t'
    · subst e; rw [ht] at h; simp at h; subst h; right; exact ⟨ht, rfl⟩
    · left; simpa [critEff, upd, e] using h
  | unlockB t' o' todo r hp ht =>
    by_cases e : t = t'
    · subst e; rw [ht] at h; simp at h
    · left; simpa [upd, e, release] using h
  | sendInc t' o' k todo r hp ht he =>
    by_cases e : t = t'
    · subst e; rw [ht] at h; simp at h
    · left; simpa [upd, e] using h
  | sendRem t' o' k todo r hp ht he =>
    by_cases e : t = t'
    · subst e; rw [ht] at h; simp at h
    · left; simpa [upd, e] using h
  | finish t' o' r hp ht =>
    by_cases e : t = t'
    · subst e; rw [ht] at h; simp at h
    · left; simpa [upd, e] using h
  | fin t' hp he =>
    by_cases e : t = t'
    · subst e
      left
      have hres : resume (s.thr t) = s.thr t := by
        rcases h with ⟨h1, _⟩ | h1 | h1 | h1 | h1 <;> rw [h1] <;> rfl
      simpa [hres] using h
    · left; simpa [upd, e] using h
  | evCrit t' k hp he => left; simpa [evDelete] using h
  | _ => left; simpa using h

theorem remove_crit_dead (c : Cfg) (s : ConcMem.St) (b i : Nat) (hb : i ≤ (s.boxes b).last) :
    i ∉ ((Atomic.step c s.abs (.remove b i)).1.boxes b).msgs ∧
    i ≤ ((Atomic.step c s.abs (.remove b i)).1.boxes b).last := by
  by_cases hc : i ∈ (s.boxes b).msgs
  · simp [Atomic.step, St.abs, hc, List.mem_filter]; exact hb
  · simp [Atomic.step, St.abs, hc]; exact hb

/-! ### the control invariant -/

structure ScanInv (e : Env) (σ : St) : Prop where
  snapB : ∀ b l, (b, l) ∈ σ.snaps → ∀ i ∈ l, i ≤ (σ.mem.boxes b).last
  pend : ∀ b p todo, σ.phase = .sweep b p todo → ∃ l, (b, l) ∈ σ.snaps ∧ ∀ j ∈ p, j ∈ l
  pendR : ∀ b i p todo, σ.phase = .removing b i p todo → ∃ l, (b, l) ∈ σ.snaps ∧ i ∈ l ∧ ∀ j ∈ p, j ∈ l
  callsOK : ∀ k ∈ σ.calls, e.date k < e.cutoff ∧ ∃ l, (k.1, l) ∈ σ.snaps ∧ k.2 ∈ l
  rem : ∀ b i p todo, σ.phase = .removing b i p todo → PreCrit σ.mem e.t0 (.remove b i) ∨ Dead σ.mem (b, i)
  gone : ∀ b l, (b, l) ∈ σ.snaps → ∀ i ∈ l, e.date (b, i) < e.cutoff →
    Dead σ.mem (b, i) ∨ (∃ p todo, σ.phase = .sweep b p todo ∧ i ∈ p) ∨
    (∃ i' p todo, σ.phase = .removing b i' p todo ∧ (i ∈ p ∨ i' = i))

/-- outside the callback every expired snapshot entry is dead -/
theorem ScanInv.gone_dead {e : Env} {σ : St} (h : ScanInv e σ) (hs : ∀ b p todo, σ.phase ≠ .sweep b p todo)
    (hr : ∀ b i p todo, σ.phase ≠ .removing b i p todo) (b : Nat) (l : List Nat) (hm : (b, l) ∈ σ.snaps) (i : Nat)
    (hi : i ∈ l) (hx : e.date (b, i) < e.cutoff) : Dead σ.mem (b, i) := by
  rcases h.gone b l hm i hi hx with q | ⟨p, todo, q, _⟩ | ⟨i', p, todo, q, _⟩
  · exact q
  · exact absurd q (hs b p todo)
  · exact absurd q (hr b i' p todo)

theorem reach_scanInv {v c e progs σ} (h : Reach v c e progs σ) : ScanInv e σ := by
  induction h with
  | init =>
    refine ⟨?_, ?_, ?_, ?_, ?_, ?_⟩ <;> simp [start]
  | cancel _ ih => exact ⟨ih.snapB, ih.pend, ih.pendR, ih.callsOK, ih.rem, ih.gone⟩
  | @step σ0 σ1 hprev st ih =>
    have hM := reach_memInv hprev
    cases st with
    | base st' _ =>
      refine ⟨?_, ih.pend, ih.pendR, ih.callsOK, ?_, ?_⟩
      · intro b l hm i hi
        exact Nat.le_trans (ih.snapB b l hm i hi) (last_mono_step st' b)
      · intro b i p todo hph
        rcases ih.rem b i p todo hph with q | q
        · rcases preCrit_step st' e.t0 _ q with q' | ⟨_, q'⟩
          · exact Or.inl q'
          · right
            obtain ⟨l, hl, hi, _⟩ := ih.pendR b i p todo hph
            have hb := ih.snapB b l hl i hi
            have := remove_crit_dead c σ0.mem b i hb
            show i ∉ (_ : Box).msgs ∧ i ≤ (_ : Box).last
            rw [show ({ σ0 with mem := _ } : St).mem = _ from q']
            exact this
        · exact Or.inr (dead_step st' hM.pend.box _ q)
      · intro b l hm i hi hx
        rcases ih.gone b l hm i hi hx with q | q | q
        · exact Or.inl (dead_step st' hM.pend.box _ q)
        · exact Or.inr (Or.inl q)
        · exact Or.inr (Or.inr q)
    | lockNames nm hph _ _ =>
      have hd := ih.gone_dead (by simp [hph]) (by simp [hph])
      exact ⟨ih.snapB, by simp, by simp, ih.callsOK, by simp, fun b l hm i hi hx => Or.inl (hd b l hm i hi hx)⟩
    | unlockNames nm hph _ =>
      have hd := ih.gone_dead (by simp [hph]) (by simp [hph])
      exact ⟨ih.snapB, by simp, by simp, ih.callsOK, by simp, fun b l hm i hi hx => Or.inl (hd b l hm i hi hx)⟩
    | visitEnd hph _ =>
      have hd := ih.gone_dead (by simp [hph]) (by simp [hph])
      exact ⟨ih.snapB, by simp, by simp, ih.callsOK, by simp, fun b l hm i hi hx => Or.inl (hd b l hm i hi hx)⟩
    | visitNext b todo hph hr =>
      have hd := ih.gone_dead (by simp [hph]) (by simp [hph])
      exact ⟨ih.snapB, by simp, by simp, ih.callsOK, by simp, fun b l hm i hi hx => Or.inl (hd b l hm i hi hx)⟩
    | checkStop todo hph _ _ =>
      have hd := ih.gone_dead (by simp [hph]) (by simp [hph])
      exact ⟨ih.snapB, by simp, by simp, ih.callsOK, by simp, fun b l hm i hi hx => Or.inl (hd b l hm i hi hx)⟩
    | checkGo todo hph _ _ =>
      have hd := ih.gone_dead (by simp [hph]) (by simp [hph])
      exact ⟨ih.snapB, by simp, by simp, ih.callsOK, by simp, fun b l hm i hi hx => Or.inl (hd b l hm i hi hx)⟩
    | gotList b todo r hph hr hl =>
      have hd := ih.gone_dead (by simp [hph]) (by simp [hph])
      have hnew : ∀ i ∈ idsOf r, i ≤ (σ0.mem.boxes b).last := by
        have h1 := lastRet_mem hl
        have h2 := hM.ret.1 _ h1
        exact hM.linB _ b r h2
      refine ⟨?_, ?_, by simp, ?_, by simp, ?_⟩
      · intro b' l hm i hi
        rcases List.mem_append.mp hm with hm | hm
        · exact ih.snapB b' l hm i hi
        · simp only [List.mem_singleton, Prod.mk.injEq] at hm
          obtain ⟨rfl, rfl⟩ := hm
          exact hnew i hi
      · intro b' p todo' hp'
        simp only [Phase.sweep.injEq] at hp'
        obtain ⟨rfl, rfl, rfl⟩ := hp'
        exact ⟨idsOf r, by simp, fun j hj => hj⟩
      · intro k hk
        obtain ⟨h1, l, h2, h3⟩ := ih.callsOK k hk
        exact ⟨h1, l, List.mem_append_left _ h2, h3⟩
      · intro b' l hm i hi hx
        rcases List.mem_append.mp hm with hm | hm
        · exact Or.inl (hd b' l hm i hi hx)
        · simp only [List.mem_singleton, Prod.mk.injEq] at hm
          obtain ⟨rfl, rfl⟩ := hm
          exact Or.inr (Or.inl ⟨idsOf r, todo, rfl, hi⟩)
    | sweepSkip b i p todo hph _ hx =>
      refine ⟨ih.snapB, ?_, by simp, ih.callsOK, by simp, ?_⟩
      · intro b' p' todo' hp'
        simp only [Phase.sweep.injEq] at hp'
        obtain ⟨rfl, rfl, rfl⟩ := hp'
        obtain ⟨l, h1, h2⟩ := ih.pend b (i :: p) todo hph
        exact ⟨l, h1, fun j hj => h2 j (List.mem_cons_of_mem _ hj)⟩
      · intro b' l hm j hj hxj
        rcases ih.gone b' l hm j hj hxj with q | ⟨p', todo', q, hq⟩ | ⟨i', p', todo', q, _⟩
        · exact Or.inl q
        · rw [hph] at q
          simp only [Phase.sweep.injEq] at q
          obtain ⟨rfl, rfl, rfl⟩ := q
          rcases List.mem_cons.mp hq with rfl | hq
          · exact absurd hxj hx
          · exact Or.inr (Or.inl ⟨p, todo, rfl, hq⟩)
        · rw [hph] at q; cases q
    | sweepCall b i p todo hph hr hx =>
      obtain ⟨l0, hl0, hsub⟩ := ih.pend b (i :: p) todo hph
      refine ⟨ih.snapB, by simp, ?_, ?_, ?_, ?_⟩
      · intro b' i' p' todo' hp'
        simp only [Phase.removing.injEq] at hp'
        obtain ⟨rfl, rfl, rfl, rfl⟩ := hp'
        exact ⟨l0, hl0, hsub _ (by simp), fun j hj => hsub j (List.mem_cons_of_mem _ hj)⟩
      · intro k hk
        rcases List.mem_append.mp hk with hk | hk
        · exact ih.callsOK k hk
        · simp only [List.mem_singleton] at hk
          subst hk
          exact ⟨hx, l0, hl0, hsub _ (by simp)⟩
      · intro b' i' p' todo' hp'
        simp only [Phase.removing.injEq] at hp'
        obtain ⟨rfl, rfl, rfl, rfl⟩ := hp'
        exact Or.inl (Or.inl ⟨hr.2.1, by simp [issue]⟩)
      · intro b' l hm j hj hxj
        rcases ih.gone b' l hm j hj hxj with q | ⟨p', todo', q, hq⟩ | ⟨i', p', todo', q, _⟩
        · exact Or.inl q
        · rw [hph] at q
          simp only [Phase.sweep.injEq] at q
          obtain ⟨rfl, rfl, rfl⟩ := q
          rcases List.mem_cons.mp hq with rfl | hq
          · exact Or.inr (Or.inr ⟨j, p, todo, rfl, Or.inr rfl⟩)
          · exact Or.inr (Or.inr ⟨i, p, todo, rfl, Or.inl hq⟩)
        · rw [hph] at q; cases q
    | returned b i p todo hph hr =>
      have hdead : Dead σ0.mem (b, i) := by
        rcases ih.rem b i p todo hph with q | q
        · exfalso
          obtain ⟨_, h1, h2⟩ := hr
          rcases q with ⟨_, q⟩ | q | q | q | q
          · rw [h2] at q; cases q
          all_goals (rw [h1] at q; cases q)
        · exact q
      refine ⟨ih.snapB, ?_, by simp, ih.callsOK, by simp, ?_⟩
      · intro b' p' todo' hp'
        simp only [Phase.sweep.injEq] at hp'
        obtain ⟨rfl, rfl, rfl⟩ := hp'
        obtain ⟨l, h1, _, h3⟩ := ih.pendR b i p todo hph
        exact ⟨l, h1, h3⟩
      · intro b' l hm j hj hxj
        rcases ih.gone b' l hm j hj hxj with q | ⟨p', todo', q, _⟩ | ⟨i', p', todo', q, hq⟩
        · exact Or.inl q
        · rw [hph] at q; cases q
        · rw [hph] at q
          simp only [Phase.removing.injEq] at q
          obtain ⟨rfl, rfl, rfl, rfl⟩ := q
          rcases hq with hq | rfl
          · exact Or.inr (Or.inl ⟨p, todo, rfl, hq⟩)
          · exact Or.inl hdead
    | sweepEnd b todo hph _ =>
      refine ⟨ih.snapB, by simp, by simp, ih.callsOK, by simp, ?_⟩
      intro b' l hm j hj hxj
      rcases ih.gone b' l hm j hj hxj with q | ⟨p', todo', q, hq⟩ | ⟨i', p', todo', q, _⟩
      · exact Or.inl q
      · rw [hph] at q
        simp only [Phase.sweep.injEq] at q
        obtain ⟨rfl, rfl, rfl⟩ := q
        cases hq
      · rw [hph] at q; cases q

/-! ### cancellation: what is left to do once the context is cancelled -/

/-- mailbox snapshots a cancelled scan can still take (timer case of the select not ready) -/
def snapBudget : Phase → Nat
  | .init | .names _ => 1
  | .visit [] => 0
  | .visit (_ :: _) => 1
  | .listing _ _ => 1
  | _ => 0

/-- RemoveMessage calls left for the snapshot in hand -/
def callBudget : Phase → Nat
  | .sweep _ p _ => p.length
  | .removing _ _ p _ => p.length
  | _ => 0

/-- the scan has a mailbox in hand (it is inside the callback) or is past it -/
def inHand : Phase → Prop
  | .sweep _ _ _ | .removing _ _ _ _ | .check _ | .done _ => True
  | _ => False

theorem cancel_sstep {v c e σ σ'} (ht : e.timerReady = false) (st : SStep v c e σ σ') (hc : σ.cancelled = true) :
    σ'.snaps.length + snapBudget σ'.phase ≤ σ.snaps.length + snapBudget σ.phase ∧
    (inHand σ.phase → inHand σ'.phase ∧ σ'.snaps = σ.snaps ∧
      σ'.calls.length + callBudget σ'.phase ≤ σ.calls.length + callBudget σ.phase) := by
  cases st with
  | base st' _ => exact ⟨Nat.le_refl _, fun h => ⟨h, rfl, Nat.le_refl _⟩⟩
  | lockNames nm hph _ _ => simp [hph, snapBudget, inHand]
  | unlockNames nm hph _ => cases nm <;> simp [hph, snapBudget, inHand]
  | visitEnd hph _ => simp [hph, snapBudget, inHand]
  | visitNext b todo hph _ => simp [hph, snapBudget, inHand]
  | gotList b todo r hph _ _ => simp [hph, snapBudget, inHand]
  | sweepSkip b i p todo hph _ _ => simp [hph, snapBudget, inHand, callBudget]
  | sweepCall b i p todo hph _ _ => simp [hph, snapBudget, inHand, callBudget]; omega
  | returned b i p todo hph _ => simp [hph, snapBudget, inHand, callBudget]
  | sweepEnd b todo hph _ => simp [hph, snapBudget, inHand, callBudget]
  | checkStop todo hph _ _ => simp [hph, snapBudget, inHand, callBudget]
  | checkGo todo hph _ hg => rcases hg with hg | hg <;> simp_all

/-- phases from which a cancelled scan (timer not ready) can only end aborted -/
def abortsOnly : Phase → Prop
  | .sweep _ _ _ | .removing _ _ _ _ | .check _ | .done true => True
  | _ => False

theorem cancel_aborts {v c e σ σ'} (ht : e.timerReady = false) (st : SStep v c e σ σ') (hc : σ.cancelled = true)
    (h : abortsOnly σ.phase) : abortsOnly σ'.phase := by
  cases st with
  | base st' _ => exact h
  | checkGo todo hph _ hg => rcases hg with hg | hg <;> simp_all
  | lockNames nm hph _ _ | unlockNames nm hph _ | visitEnd hph _ | visitNext b todo hph _ =>
    rw [hph] at h; cases h
  | gotList b todo r hph _ _ => rw [hph] at h; cases h
  | sweepSkip b i p todo hph _ _ | sweepCall b i p todo hph _ _ | returned b i p todo hph _ | sweepEnd b todo hph _
  | checkStop todo hph _ _ => trivial

/-- an execution fragment: steps of the system and the environment cancelling -/
inductive Run (v : Variant) (c : Cfg) (e : Env) : St → St → Prop
  | refl (σ : St) : Run v c e σ σ
  | step {σ σ' σ'' : St} : Run v c e σ σ' → SStep v c e σ' σ'' → Run v c e σ σ''
  | cancel {σ σ' : St} : Run v c e σ σ' → Run v c e σ { σ' with cancelled := true }

theorem Steps.run {v c e σ σ'} (p : Steps v c e σ σ') : Run v c e σ σ' := by
  induction p with
  | refl => exact Run.refl _
  | step _ st ih => exact Run.step ih st

theorem Reach.run {v c e progs σ σ'} (h : Reach v c e progs σ) (p : Run v c e σ σ') : Reach v c e progs σ' := by
  induction p with
  | refl => exact h
  | step _ st ih => exact Reach.step ih st
  | cancel _ ih => exact Reach.cancel ih

/-- once cancelled (timer case not ready): at most `snapBudget` further snapshots; with a mailbox in hand none, at
    most the calls left for it, and the scan can only end aborted -/
theorem cancel_run {v c e σ σ'} (ht : e.timerReady = false) (p : Run v c e σ σ') (hc : σ.cancelled = true) :
    σ'.cancelled = true ∧
    σ'.snaps.length + snapBudget σ'.phase ≤ σ.snaps.length + snapBudget σ.phase ∧
    (inHand σ.phase → inHand σ'.phase ∧ σ'.snaps = σ.snaps ∧
      σ'.calls.length + callBudget σ'.phase ≤ σ.calls.length + callBudget σ.phase) ∧
    (abortsOnly σ.phase → abortsOnly σ'.phase) := by
  induction p with
  | refl => exact ⟨hc, Nat.le_refl _, fun h => ⟨h, rfl, Nat.le_refl _⟩, fun h => h⟩
  | cancel _ ih => exact ⟨rfl, ih.2.1, ih.2.2.1, ih.2.2.2⟩
  | step _ st ih =>
    obtain ⟨h1, h2, h3, h4⟩ := ih
    obtain ⟨g2, g3⟩ := cancel_sstep ht st h1
    refine ⟨by rw [st.cancelled, h1], by omega, fun hh => ?_, fun hh => cancel_aborts ht st h1 (h4 hh)⟩
    obtain ⟨a1, a2, a3⟩ := h3 hh
    obtain ⟨b1, b2, b3⟩ := g3 a1
    exact ⟨b1, by rw [b2, a2], by omega⟩

end Ibx.Model.ScanMem
