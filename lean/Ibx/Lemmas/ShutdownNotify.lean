import Ibx.Model.ShutdownNotify
/-
  Helper lemmas for Props/C19Accept.lean: the inductive invariants of the `Notify` interleaving model
  (Model/ShutdownNotify.lean) and the one-step progress lemma behind `shutdown_completes_after_accept_failure`.
-/
namespace Ibx.Lemmas.ShutdownNotify
open Ibx.Model.Shutdown Ibx.Model.ShutdownNotify
open Notify

/-- group A: the WaitGroup accounting of `Shutdown.Drain` survives the new steps -/
theorem invA (c : Cfg) {s : St} (h : Reach c s) :
    s.d.wg = Drain.expected c.drain s.d ∧ (s.d.acc = .added → c.drain.wgAdd.before = true)
    ∧ (s.d.closed = true → s.d.cancelled = true)
    ∧ ((s.start = .init ∨ s.start = .failSent ∨ s.start = .failed) → s.fat = .none ∧ s.d.acc = .exited)
    ∧ ((s.fat = .chose ∨ s.fat = .sent ∨ s.fat = .closedN) → s.d.acc = .idle)
    ∧ (s.fat = .done → s.d.acc = .exited) := by
  unfold Reach at h
  generalize hi : init c = i at h
  induction h with
  | refl =>
    subst hi; obtain ⟨⟨w, sc⟩, a, b, o⟩ := c
    cases w <;> cases sc <;> simp [init, pre, Drain.init, Drain.expected, Drain.WgAdd.before, Drain.WgAdd.inside]
  | step _ st ih =>
    obtain ⟨h1, h2, h3, h4, h5, h6⟩ := ih
    obtain ⟨⟨w, sc⟩, a, b, o⟩ := c
    obtain ⟨_, act⟩ := st
    cases act
    case sess ss =>
      cases ss <;> cases w <;> cases sc <;>
        simp_all [Drain.expected, Drain.WgAdd.before, Drain.WgAdd.inside] <;> omega
    all_goals
      cases w <;> cases sc <;>
        simp_all [Drain.expected, Drain.WgAdd.before, Drain.WgAdd.inside, closeN, serveDone] <;> first | omega | rfl

/-- connections the accept loop holds between `Accept` and `go` -/
def held : Drain.Acc → Nat
  | .gotConn => 1 | .added => 1 | _ => 0
@[simp] theorem held_idle : held .idle = 0 := rfl
@[simp] theorem held_gotConn : held .gotConn = 1 := rfl
@[simp] theorem held_added : held .added = 1 := rfl
@[simp] theorem held_exited : held .exited = 0 := rfl

theorem invConns (c : Cfg) {s : St} (h : Reach c s) :
    s.d.accepted = held s.d.acc + s.d.spawned + s.d.running + s.d.closing2 + s.d.closing1 + s.d.ended := by
  unfold Reach at h
  generalize hi : init c = i at h
  induction h with
  | refl => subst hi; simp [init, pre, Drain.init]
  | step p st ih =>
    subst hi
    obtain ⟨_, _, _, a4, a5, a6⟩ := invA c p
    obtain ⟨_, act⟩ := st
    cases act
    case sess ss => cases ss <;> (try split) <;> simp_all <;> omega
    case spawn hh => rcases hh with hh | ⟨hh, _⟩ <;> simp_all <;> omega
    all_goals simp_all [closeN, serveDone] <;> omega

/-! ghost weights: which program counters lie behind a send / a close of the Notify channel -/
def startSent : StartPc → Nat
  | .failSent => 1 | .failed => 1 | _ => 0
def startClosed : StartPc → Nat
  | .failed => 1 | _ => 0
def fatSent : Fat → Nat
  | .sent => 1 | .closedN => 1 | .done => 1 | _ => 0
def fatClosed : Fat → Nat
  | .closedN => 1 | .done => 1 | _ => 0
def mergerOwn : Merger → Nat
  | .holding .own => 1 | _ => 0
def cbufOwn : Option Tok → Nat
  | some .own => 1 | _ => 0
@[simp] theorem startSent_init : startSent .init = 0 := rfl
@[simp] theorem startSent_failSent : startSent .failSent = 1 := rfl
@[simp] theorem startSent_failed : startSent .failed = 1 := rfl
@[simp] theorem startSent_waiting : startSent .waiting = 0 := rfl
@[simp] theorem startSent_closedL : startSent .closedL = 0 := rfl
@[simp] theorem startSent_returned : startSent .returned = 0 := rfl
@[simp] theorem startClosed_init : startClosed .init = 0 := rfl
@[simp] theorem startClosed_failSent : startClosed .failSent = 0 := rfl
@[simp] theorem startClosed_failed : startClosed .failed = 1 := rfl
@[simp] theorem startClosed_waiting : startClosed .waiting = 0 := rfl
@[simp] theorem startClosed_closedL : startClosed .closedL = 0 := rfl
@[simp] theorem startClosed_returned : startClosed .returned = 0 := rfl
@[simp] theorem fatSent_none : fatSent .none = 0 := rfl
@[simp] theorem fatSent_chose : fatSent .chose = 0 := rfl
@[simp] theorem fatSent_sent : fatSent .sent = 1 := rfl
@[simp] theorem fatSent_closedN : fatSent .closedN = 1 := rfl
@[simp] theorem fatSent_done : fatSent .done = 1 := rfl
@[simp] theorem fatClosed_none : fatClosed .none = 0 := rfl
@[simp] theorem fatClosed_chose : fatClosed .chose = 0 := rfl
@[simp] theorem fatClosed_sent : fatClosed .sent = 0 := rfl
@[simp] theorem fatClosed_closedN : fatClosed .closedN = 1 := rfl
@[simp] theorem fatClosed_done : fatClosed .done = 1 := rfl
@[simp] theorem mergerOwn_waiting : mergerOwn .waiting = 0 := rfl
@[simp] theorem mergerOwn_done : mergerOwn .done = 0 := rfl
@[simp] theorem mergerOwn_own : mergerOwn (.holding .own) = 1 := rfl
@[simp] theorem mergerOwn_zero : mergerOwn (.holding .zero) = 0 := rfl
@[simp] theorem mergerOwn_other : mergerOwn (.holding .other) = 0 := rfl
@[simp] theorem cbufOwn_none : cbufOwn none = 0 := rfl
@[simp] theorem cbufOwn_own : cbufOwn (some .own) = 1 := rfl
@[simp] theorem cbufOwn_zero : cbufOwn (some .zero) = 0 := rfl
@[simp] theorem cbufOwn_other : cbufOwn (some .other) = 0 := rfl

theorem startClosed_pos {p : StartPc} (h : 0 < startClosed p) : p = .failed := by
  cases p <;> simp_all

/-- group B: who has sent on / closed the Notify channel (the present source: Start does not close it at shutdown) -/
theorem invB (c : Cfg) (hv : c.startClosesNotify = false) {s : St} (h : Reach c s) :
    s.panicked = false
    ∧ s.sends = startSent s.start + fatSent s.fat
    ∧ s.closes = startClosed s.start + fatClosed s.fat
    ∧ (s.nclosed = true ↔ 0 < s.closes) := by
  unfold Reach at h
  generalize hi : init c = i at h
  induction h with
  | refl => subst hi; simp [init]
  | @step t u p st ih =>
    subst hi
    obtain ⟨_, _, _, a4, a5, a6⟩ := invA c p
    obtain ⟨b1, b2, b3, b4⟩ := ih
    obtain ⟨_, act⟩ := st
    cases act
    case sess ss => simp_all
    case fatalSendClosed hf hn =>
      have : t.start = .failed := startClosed_pos (by simp_all)
      simp_all
    case fatalClose hf =>
      by_cases hn : t.nclosed = true
      · have : t.start = .failed := startClosed_pos (by simp_all)
        simp_all
      · simp_all [closeN]
    all_goals simp_all [closeN] <;> omega

theorem startSent_pos {p : StartPc} (h : 0 < startSent p) : p = .failSent ∨ p = .failed := by
  cases p <;> simp_all

theorem startClosed_le (p : StartPc) : startClosed p ≤ startSent p := by cases p <;> simp
theorem fatClosed_le (f : Fat) : fatClosed f ≤ fatSent f := by cases f <;> simp

/-- group C: the error's way to main (present source) -/
theorem invC (c : Cfg) (hv : c.startClosesNotify = false) {s : St} (h : Reach c s) :
    s.buf + mergerOwn s.merger + cbufOwn s.cbuf + s.delivered = s.sends
    ∧ (s.merger = .done → s.cbuf.isSome = true ∨ s.main ≠ .looping)
    ∧ (s.d.cancelled = true ↔ s.main ≠ .looping)
    ∧ ((s.start = .closedL ∨ s.start = .returned) → s.d.closed = true)
    ∧ (s.cbuf.isSome = true → s.merger = .done)
    ∧ (0 < s.delivered → s.merger = .done ∧ s.main ≠ .looping)
    ∧ s.merger ≠ .holding .zero ∧ s.cbuf ≠ some .zero := by
  unfold Reach at h
  generalize hi : init c = i at h
  induction h with
  | refl => subst hi; simp [init, pre, Drain.init]
  | @step t u p st ih =>
    subst hi
    obtain ⟨_, _, _, a4, a5, a6⟩ := invA c p
    obtain ⟨b1, b2, b3, b4⟩ := invB c hv p
    obtain ⟨c1, c2, c3, c4, c5, c6, c7, c8⟩ := ih
    obtain ⟨_, act⟩ := st
    cases act
    case sess d' ss => cases ss <;> (try split) <;> simp_all
    case mergeFwd tk hm hc => cases tk <;> simp_all
    case mergeRecvClosed =>
      have := startClosed_le t.start
      have := fatClosed_le t.fat
      simp_all; omega
    case mainRecv tk hm hc => cases tk <;> simp_all <;> omega
    all_goals simp_all [closeN, serveDone] <;> try omega

/-- **one step nearer** (present source).  Once the accept loop has entered its fatal path, in every reachable
    state in which main has not finished there is an enabled step that lowers `rank` — through the fatal path
    (send, close, return), the error's way to main (merger receive, merger forward, main receive = cancel),
    Start (listener.Close, return), the open sessions (each to its end and its `Done`s), and finally `Drain`. -/
theorem progress (c : Cfg) (hv : c.startClosesNotify = false) {s : St} (h : Reach c s)
    (hf : s.fat ≠ .none) (hm : s.main ≠ .finished) :
    ∃ s', Step c s s' ∧ rank s' < rank s ∧ (s'.main = .finished → s'.d.wg = 0 ∧ s'.start = .returned ∧ s'.fat = .done) := by
  obtain ⟨a1, a2, a3, a4, a5, a6⟩ := invA c h
  obtain ⟨b1, b2, b3, b4⟩ := invB c hv h
  obtain ⟨c1, c2, c3, c4, c5, c6, c7, c8⟩ := invC c hv h
  have hs : s.start = .waiting ∨ s.start = .closedL ∨ s.start = .returned := by
    cases hst : s.start <;> simp_all
  have hss : startSent s.start = 0 ∧ startClosed s.start = 0 := by
    rcases hs with hs | hs | hs <;> simp [hs]
  cases hfat : s.fat
  case none => exact absurd hfat hf
  case chose =>
    have hcl : s.closes = 0 := by simp_all
    have hn : s.nclosed = false := by
      cases hh : s.nclosed
      · rfl
      · have := b4.1 hh; omega
    have hb : s.buf = 0 := by simp_all
    exact ⟨_, ⟨b1, Act.fatalSend s hfat hn hb⟩, by simp [rank, fatW, pipeW, hfat], by simp_all⟩
  case sent =>
    exact ⟨_, ⟨b1, Act.fatalClose s hfat⟩, by simp [rank, fatW, pipeW, hfat, closeN], by simp_all [closeN]⟩
  case closedN =>
    exact ⟨_, ⟨b1, Act.fatalReturn s hfat⟩, by simp [rank, fatW, pipeW, hfat, serveDone, sessW], by simp_all⟩
  case done =>
    have hacc : s.d.acc = .exited := a6 hfat
    cases hmain : s.main
    case finished => exact absurd hmain hm
    case looping =>
      cases hcb : s.cbuf
      case some t =>
        exact ⟨_, ⟨b1, Act.mainRecv s t hmain hcb⟩, by simp [rank, pipeW, cbufW, mainW, hcb, hmain, sessW], by simp⟩
      case none =>
        cases hmg : s.merger
        case waiting =>
          have hd : s.delivered = 0 := by
            rcases Nat.eq_zero_or_pos s.delivered with h0 | h0
            · exact h0
            · exact absurd hmain (c6 h0).2
          have hb : 0 < s.buf := by simp_all
          exact ⟨_, ⟨b1, Act.mergeRecv s hmg hb⟩, by simp [rank, pipeW, mergerW, hmg], by simp_all⟩
        case holding t =>
          exact ⟨_, ⟨b1, Act.mergeFwd s t hmg hcb⟩, by simp [rank, pipeW, mergerW, cbufW, hmg, hcb], by simp_all⟩
        case done =>
          rcases c2 hmg with h1 | h1
          · simp [hcb] at h1
          · exact absurd hmain h1
    case draining =>
      have hcan : s.d.cancelled = true := c3.2 (by simp [hmain])
      rcases hs with hst | hst | hst
      · exact ⟨_, ⟨b1, Act.startCloseL s hst hcan⟩, by simp [rank, pipeW, startW, hst, sessW], by simp_all⟩
      · exact ⟨_, ⟨b1, Act.startReturn s hst hv⟩, by simp [rank, pipeW, startW, hst], by simp_all⟩
      · by_cases h1 : 0 < s.d.spawned
        · exact ⟨_, ⟨b1, Act.sess s _ (Drain.SessStep.enter s.d h1)⟩, by simp [rank, pipeW, sessW]; omega, by simp_all⟩
        by_cases h2 : 0 < s.d.running
        · refine ⟨_, ⟨b1, Act.sess s _ (Drain.SessStep.close s.d h2)⟩, ?_, ?_⟩
          · by_cases hb : c.drain.wgAdd = .both <;> simp [rank, pipeW, sessW, hb] <;> omega
          · by_cases hb : c.drain.wgAdd = .both <;> simp_all
        by_cases h3 : 0 < s.d.closing2
        · exact ⟨_, ⟨b1, Act.sess s _ (Drain.SessStep.done2 s.d h3)⟩, by simp [rank, pipeW, sessW]; omega, by simp_all⟩
        by_cases h4 : 0 < s.d.closing1
        · exact ⟨_, ⟨b1, Act.sess s _ (Drain.SessStep.done1 s.d h4)⟩, by simp [rank, pipeW, sessW]; omega, by simp_all⟩
        have hz : s.d.wg = 0 := by
          rw [a1]; unfold Drain.expected
          simp only [Nat.not_lt, Nat.le_zero_eq] at h1 h2 h3 h4
          simp [hacc, h1, h2, h3, h4]
        exact ⟨_, ⟨b1, Act.mainDrain s hmain hz⟩, by simp [rank, pipeW, mainW, hmain, sessW], by simp [hz, hst, hfat]⟩
end Ibx.Lemmas.ShutdownNotify
