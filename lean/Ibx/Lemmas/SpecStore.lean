import Ibx.Spec.Store
/-
  Lemmas about the abstract ordered-mailbox spec `Spec.Store`: algebra of `listing` / `total`,
  exact characterisations of `dropOldest`, `capEvict`, `limitEvict`, one lemma per `Op` constructor
  of `step`, the reachable-state invariant and the event accounting.
-/
namespace Ibx.Lemmas.SpecStore
open Ibx Ibx.Spec.Store

/-! ### histories -/

/-- state after a history -/
def after (c : Cfg) (s : Store) (ops : List Op) : Store := (run c s ops).1

/-- `s` is obtained from the empty store by some list of operations -/
def Reachable (c : Cfg) (s : Store) : Prop := ∃ ops, s = after c empty ops

theorem after_nil (c : Cfg) (s : Store) : after c s [] = s := rfl

theorem after_cons (c : Cfg) (s : Store) (op : Op) (ops : List Op) :
    after c s (op :: ops) = after c (step c s op).1 ops := by
  simp [after, run]

theorem after_append (c : Cfg) (s : Store) (ops₁ ops₂ : List Op) :
    after c s (ops₁ ++ ops₂) = after c (after c s ops₁) ops₂ := by
  induction ops₁ generalizing s with
  | nil => rfl
  | cons op ops ih => simp [after_cons, ih]

/-- induction principle: a predicate true of the start state and preserved by every step holds
    after every history -/
theorem after_induct (c : Cfg) (P : Store → Prop) (hstep : ∀ s op, P s → P (step c s op).1)
    (s : Store) (h0 : P s) (ops : List Op) : P (after c s ops) := by
  induction ops generalizing s with
  | nil => exact h0
  | cons op ops ih => rw [after_cons]; exact ih _ (hstep s op h0)

theorem reachable_empty (c : Cfg) : Reachable c empty := ⟨[], rfl⟩

theorem reachable_step (c : Cfg) (s : Store) (op : Op) (h : Reachable c s) :
    Reachable c (step c s op).1 := by
  obtain ⟨ops, rfl⟩ := h
  exact ⟨ops ++ [op], by rw [after_append, after_cons, after_nil]⟩

theorem reachable_induct (c : Cfg) (P : Store → Prop) (h0 : P empty)
    (hstep : ∀ s op, P s → P (step c s op).1) (s : Store) (h : Reachable c s) : P s := by
  obtain ⟨ops, rfl⟩ := h
  exact after_induct c P hstep empty h0 ops

/-! ### `inBox`, `isMsg`, `listing`, `total` -/

@[simp] theorem inBox_iff (b : Bytes) (m : Msg) : inBox b m = true ↔ m.box = b := by
  simp [inBox]

@[simp] theorem isMsg_iff (b : Bytes) (i : Nat) (m : Msg) : isMsg b i m = true ↔ m.box = b ∧ m.id = i := by
  simp [isMsg]

theorem isMsg_eq (b : Bytes) (i : Nat) (m : Msg) : isMsg b i m = (inBox b m && m.id == i) := rfl

@[simp] theorem total_nil : total [] = 0 := rfl
@[simp] theorem total_cons (m : Msg) (l : List Msg) : total (m :: l) = m.size + total l := by
  simp [total]
@[simp] theorem total_append (l₁ l₂ : List Msg) : total (l₁ ++ l₂) = total l₁ + total l₂ := by
  simp [total]

theorem total_perm {l₁ l₂ : List Msg} (h : l₁.Perm l₂) : total l₁ = total l₂ :=
  (h.map Msg.size).sum_nat

theorem total_filter_add (p : Msg → Bool) (l : List Msg) :
    total (l.filter p) + total (l.filter (fun x => !p x)) = total l := by
  rw [← total_append]; exact total_perm (List.filter_append_perm p l)

theorem total_sublist {l₁ l₂ : List Msg} (h : l₁.Sublist l₂) : total l₁ ≤ total l₂ := by
  induction h with
  | slnil => simp
  | cons a _ ih => simp; omega
  | cons_cons a _ ih => simp; omega

/-! ### `dropOldest` -/

theorem dropOldest_zero (b : Bytes) (l : List Msg) : dropOldest b 0 l = (l, []) := by
  cases l <;> rfl

/-- the removed messages are exactly the first `k` of mailbox `b`, in order -/
theorem dropOldest_removed (b : Bytes) (k : Nat) (l : List Msg) :
    (dropOldest b k l).2 = (l.filter (inBox b)).take k := by
  fun_induction dropOldest b k l with
  | case1 l => simp
  | case2 k => simp
  | case3 k m l h r d hrd ih => simp_all
  | case4 k m l h r d hrd ih => simp_all

/-- what remains of mailbox `b` is its listing minus the first `k` -/
theorem dropOldest_kept_box (b : Bytes) (k : Nat) (l : List Msg) :
    (dropOldest b k l).1.filter (inBox b) = (l.filter (inBox b)).drop k := by
  fun_induction dropOldest b k l with
  | case1 l => simp
  | case2 k => simp
  | case3 k m l h r d hrd ih => simp_all
  | case4 k m l h r d hrd ih => simp_all

/-- every message outside mailbox `b` is kept, in order -/
theorem dropOldest_kept_other (b : Bytes) (k : Nat) (l : List Msg) (p : Msg → Bool)
    (hp : ∀ m, p m = true → inBox b m = false) :
    (dropOldest b k l).1.filter p = l.filter p := by
  fun_induction dropOldest b k l with
  | case1 l => simp
  | case2 k => simp
  | case3 k m l h r d hrd ih =>
    have : p m = false := by
      cases hpm : p m with
      | false => rfl
      | true => have := hp m hpm; simp_all
    simp_all
  | case4 k m l h r d hrd ih =>
    simp only [hrd] at ih
    simp [List.filter_cons, ih]

theorem dropOldest_sublist (b : Bytes) (k : Nat) (l : List Msg) : (dropOldest b k l).1.Sublist l := by
  fun_induction dropOldest b k l with
  | case1 l => simp
  | case2 k => simp
  | case3 k m l h r d hrd ih => simp_all
  | case4 k m l h r d hrd ih => simp_all

theorem dropOldest_perm (b : Bytes) (k : Nat) (l : List Msg) :
    ((dropOldest b k l).2 ++ (dropOldest b k l).1).Perm l := by
  fun_induction dropOldest b k l with
  | case1 l => simp
  | case2 k => simp
  | case3 k m l h r d hrd ih => simp_all
  | case4 k m l h r d hrd ih =>
    simp only [hrd] at ih ⊢
    exact List.perm_middle.trans (List.Perm.cons m ih)

/-- appending a message does not change which are dropped, as long as the old list already has
    `k` messages of the mailbox -/
theorem dropOldest_append (b : Bytes) (k : Nat) (l : List Msg) (m : Msg)
    (hk : k ≤ (l.filter (inBox b)).length) :
    dropOldest b k (l ++ [m]) = ((dropOldest b k l).1 ++ [m], (dropOldest b k l).2) := by
  fun_induction dropOldest b k l with
  | case1 l => simp [dropOldest_zero]
  | case2 k hk0 => simp at hk; exact absurd hk hk0
  | case3 k x l h r d hrd ih =>
    simp [h] at hk
    simp [dropOldest, h, ih hk, hrd]
  | case4 k x l h r d hrd ih =>
    simp [h] at hk
    simp [dropOldest, h, ih hk, hrd]

/-- with strictly distinct ids inside the mailbox, the kept list is a `filter` by id -/
theorem dropOldest_kept_filter (b : Bytes) (k : Nat) (l : List Msg)
    (hnd : l.Pairwise (fun x y => x.box = y.box → x.id < y.id)) :
    (dropOldest b k l).1 =
      l.filter (fun x => !(inBox b x && (dropOldest b k l).2.any (fun y => x.id == y.id))) := by
  fun_induction dropOldest b k l with
  | case1 l => simp; exact (List.filter_eq_self.2 (fun _ _ => rfl)).symm
  | case2 k => simp
  | case3 k m l h r d hrd ih =>
    rw [List.pairwise_cons] at hnd
    simp only [hrd] at ih
    simp only [List.filter_cons, h, List.any_cons, beq_self_eq_true, Bool.true_or, Bool.and_self,
      Bool.not_true, Bool.false_eq_true, ↓reduceIte]
    rw [ih hnd.2]
    apply List.filter_congr
    intro x hx
    have := hnd.1 x hx
    simp at h
    by_cases hb : x.box = b
    · have hlt := this (h.trans hb.symm)
      have : (x.id == m.id) = false := by simp; omega
      simp [this]
    · have : inBox b x = false := by simp [inBox, hb]
      simp [this]
  | case4 k m l h r d hrd ih =>
    rw [List.pairwise_cons] at hnd
    simp only [hrd] at ih
    simp only [List.filter_cons, h, Bool.false_and, Bool.not_false, ↓reduceIte]
    rw [ih hnd.2]

/-! ### `capEvict` -/

theorem capEvict_sublist (cap : Nat) (b : Bytes) (l : List Msg) : (capEvict cap b l).1.Sublist l := by
  unfold capEvict; simp only; split
  · exact dropOldest_sublist _ _ _
  · simp

theorem capEvict_perm (cap : Nat) (b : Bytes) (l : List Msg) :
    ((capEvict cap b l).2 ++ (capEvict cap b l).1).Perm l := by
  unfold capEvict; simp only; split
  · exact dropOldest_perm _ _ _
  · simp

/-- the evicted are exactly the oldest `n - cap` messages of that mailbox (none when disabled) -/
theorem capEvict_removed (cap : Nat) (b : Bytes) (l : List Msg) :
    (capEvict cap b l).2 =
      if cap > 0 then (l.filter (inBox b)).take ((l.filter (inBox b)).length - cap) else [] := by
  unfold capEvict; simp only; split
  · rename_i h; simp [h.1, dropOldest_removed]
  · rename_i h
    split
    · rename_i h'
      have : (l.filter (inBox b)).length - cap = 0 := by omega
      simp [this]
    · rfl

theorem capEvict_kept_box (cap : Nat) (b : Bytes) (l : List Msg) :
    (capEvict cap b l).1.filter (inBox b) =
      if cap > 0 then (l.filter (inBox b)).drop ((l.filter (inBox b)).length - cap) else l.filter (inBox b) := by
  unfold capEvict; simp only; split
  · rename_i h; simp [h.1, dropOldest_kept_box]
  · rename_i h
    split
    · rename_i h'
      have : (l.filter (inBox b)).length - cap = 0 := by omega
      simp [this]
    · rfl

theorem capEvict_kept_other (cap : Nat) (b : Bytes) (l : List Msg) (p : Msg → Bool)
    (hp : ∀ m, p m = true → inBox b m = false) :
    (capEvict cap b l).1.filter p = l.filter p := by
  unfold capEvict; simp only; split
  · exact dropOldest_kept_other _ _ _ _ hp
  · rfl

theorem capEvict_eq_dropOldest (cap : Nat) (b : Bytes) (l : List Msg) :
    capEvict cap b l =
      dropOldest b (if cap > 0 then (l.filter (inBox b)).length - cap else 0) l := by
  unfold capEvict; simp only
  by_cases hc : cap > 0
  · simp only [hc, true_and, ↓reduceIte]
    split
    · rfl
    · rename_i h
      have : (l.filter (inBox b)).length - cap = 0 := by omega
      rw [this, dropOldest_zero]
  · simp [hc, dropOldest_zero]

/-- cap eviction at a delivery: the new message is never among the evicted -/
theorem capEvict_add (cap : Nat) (b : Bytes) (l : List Msg) (x : Msg) (hx : inBox b x = true) :
    capEvict cap b (l ++ [x]) =
      ((dropOldest b (if cap > 0 then (l.filter (inBox b)).length + 1 - cap else 0) l).1 ++ [x],
       (dropOldest b (if cap > 0 then (l.filter (inBox b)).length + 1 - cap else 0) l).2) := by
  rw [capEvict_eq_dropOldest]
  have hlen : ((l ++ [x]).filter (inBox b)).length = (l.filter (inBox b)).length + 1 := by
    simp [List.filter_append, hx]
  rw [hlen]
  apply dropOldest_append
  split <;> omega

/-! ### `limitEvict` -/

theorem limitEvict_append (limit : Nat) (l : List Msg) :
    (limitEvict limit l).2 ++ (limitEvict limit l).1 = l := by
  fun_induction limitEvict limit l with
  | case1 => rfl
  | case2 m l h r d hrd ih => simp_all
  | case3 m l h => simp

theorem limitEvict_bound (limit : Nat) (l : List Msg) (hl : limit > 0) :
    total (limitEvict limit l).1 ≤ limit := by
  fun_induction limitEvict limit l with
  | case1 => simp
  | case2 m l h r d hrd ih => simp_all
  | case3 m l h => simp only; omega

/-- minimality: putting the last evicted message back breaks the bound -/
theorem limitEvict_minimal (limit : Nat) (l : List Msg) (hd : (limitEvict limit l).2 ≠ []) :
    limit > 0 ∧ total ((limitEvict limit l).2.getLast hd :: (limitEvict limit l).1) > limit := by
  fun_induction limitEvict limit l with
  | case1 => simp at hd
  | case2 m l h r d hrd ih =>
    simp only [hrd] at ih
    refine ⟨h.1, ?_⟩
    by_cases hd' : d = []
    · subst hd'
      have := limitEvict_append limit l
      simp [hrd] at this
      subst this
      simpa using h.2
    · simp only [List.getLast_cons hd']
      exact (ih hd').2
  | case3 m l h => simp at hd

theorem limitEvict_disabled (l : List Msg) : limitEvict 0 l = (l, []) := by
  cases l <;> simp [limitEvict]

theorem limitEvict_fits (limit : Nat) (l : List Msg) (h : limit = 0 ∨ total l ≤ limit) :
    limitEvict limit l = (l, []) := by
  cases l with
  | nil => rfl
  | cons m l =>
    unfold limitEvict
    have : ¬ (limit > 0 ∧ total (m :: l) > limit) := by omega
    simp only [this, ↓reduceIte]

theorem limitEvict_sublist (limit : Nat) (l : List Msg) : (limitEvict limit l).1.Sublist l := by
  have h := limitEvict_append limit l
  generalize limitEvict limit l = p at h ⊢
  subst h
  exact List.sublist_append_right _ _

/-- a delivered message that fits is never evicted by the byte limit: it stays last -/
theorem limitEvict_keeps_last (limit : Nat) (l : List Msg) (m : Msg) (h : limit = 0 ∨ m.size ≤ limit) :
    ∃ r, (limitEvict limit (l ++ [m])).1 = r ++ [m] ∧ (limitEvict limit (l ++ [m])).2 ++ r = l := by
  induction l with
  | nil =>
    refine ⟨[], ?_⟩
    have : limitEvict limit [m] = ([m], []) := limitEvict_fits limit [m] (by simp; omega)
    simp [this]
  | cons x l ih =>
    obtain ⟨r, h1, h2⟩ := ih
    by_cases hc : limit > 0 ∧ total (x :: (l ++ [m])) > limit
    · refine ⟨r, ?_⟩
      simp only [List.cons_append, limitEvict, hc, and_self, ↓reduceIte, h1, true_and]
      simp [h2]
    · refine ⟨x :: l, ?_⟩
      simp only [List.cons_append, limitEvict, hc, ↓reduceIte]
      simp

/-! ### `step`, one lemma per operation -/

/-- the message `add` creates -/
def newMsg (s : Store) (b : Bytes) (hdr : Meta) (src : Bytes) : Msg :=
  { box := b, id := s.next b + 1, hdr := hdr, seen := false, source := src }

theorem step_add (c : Cfg) (s : Store) (b : Bytes) (hdr : Meta) (src : Bytes) :
    step c s (.add b hdr src) =
      ({ msgs := (limitEvict c.limit (capEvict c.cap b (s.msgs ++ [newMsg s b hdr src])).1).1,
         next := fun x => if x == b then s.next b + 1 else s.next x },
       .id (s.next b + 1),
       ((capEvict c.cap b (s.msgs ++ [newMsg s b hdr src])).2 ++
        (limitEvict c.limit (capEvict c.cap b (s.msgs ++ [newMsg s b hdr src])).1).2).map evOf) := rfl

theorem find_isMsg_none (s : Store) (b : Bytes) (i : Nat) :
    s.msgs.find? (isMsg b i) = none ↔ ¬ ∃ x ∈ s.msgs, x.box = b ∧ x.id = i := by
  simp [List.find?_eq_none]

theorem any_isMsg (s : Store) (b : Bytes) (i : Nat) :
    s.msgs.any (isMsg b i) = true ↔ ∃ x ∈ s.msgs, x.box = b ∧ x.id = i := by
  simp

theorem step_get_state (c : Cfg) (s : Store) (b : Bytes) (i : Nat) :
    (step c s (.get b i)).1 = s ∧ (step c s (.get b i)).2.2 = [] := by
  simp only [step]; split <;> simp

theorem step_latest_state (c : Cfg) (s : Store) (b : Bytes) :
    (step c s (.latest b)).1 = s ∧ (step c s (.latest b)).2.2 = [] := by
  simp only [step]; split <;> simp

/-- what `seen b i` does to one message -/
def mark (b : Bytes) (i : Nat) (m : Msg) : Msg := if isMsg b i m then { m with seen := true } else m

@[simp] theorem mark_box (b : Bytes) (i : Nat) (m : Msg) : (mark b i m).box = m.box := by
  unfold mark; split <;> rfl
@[simp] theorem mark_id (b : Bytes) (i : Nat) (m : Msg) : (mark b i m).id = m.id := by
  unfold mark; split <;> rfl
@[simp] theorem mark_hdr (b : Bytes) (i : Nat) (m : Msg) : (mark b i m).hdr = m.hdr := by
  unfold mark; split <;> rfl
@[simp] theorem mark_source (b : Bytes) (i : Nat) (m : Msg) : (mark b i m).source = m.source := by
  unfold mark; split <;> rfl
@[simp] theorem mark_size (b : Bytes) (i : Nat) (m : Msg) : (mark b i m).size = m.size := by
  simp [Msg.size]
@[simp] theorem mark_evOf (b : Bytes) (i : Nat) (m : Msg) : evOf (mark b i m) = evOf m := by
  simp [evOf]
@[simp] theorem mark_inBox (b : Bytes) (i : Nat) (b' : Bytes) (m : Msg) : inBox b' (mark b i m) = inBox b' m := by
  simp [inBox]
theorem mark_other (b : Bytes) (i : Nat) (m : Msg) (h : isMsg b i m = false) : mark b i m = m := by
  simp [mark, h]
theorem mark_hit (b : Bytes) (i : Nat) (m : Msg) (h : isMsg b i m = true) :
    mark b i m = { m with seen := true } := by
  simp only [mark, h, ↓reduceIte]

theorem step_seen_msgs (c : Cfg) (s : Store) (b : Bytes) (i : Nat) :
    (step c s (.seen b i)).1.msgs =
      s.msgs.map (mark b i) ∧
    (step c s (.seen b i)).1.next = s.next ∧ (step c s (.seen b i)).2.2 = [] := by
  simp only [step]; split
  · exact ⟨rfl, rfl, rfl⟩
  · rename_i h
    refine ⟨?_, rfl, rfl⟩
    simp only
    have hx : ∀ x ∈ s.msgs, mark b i x = id x := by
      intro x hx
      have : isMsg b i x = false := by
        cases hh : isMsg b i x with
        | false => rfl
        | true => exact absurd (List.any_eq_true.2 ⟨x, hx, hh⟩) h
      exact mark_other b i x this
    rw [List.map_congr_left hx, List.map_id]

theorem filter_not_isMsg_absent (l : List Msg) (b : Bytes) (i : Nat)
    (h : ¬ l.any (isMsg b i) = true) : l.filter (fun m => !isMsg b i m) = l := by
  rw [List.filter_eq_self]
  intro x hx
  cases hh : isMsg b i x with
  | false => rfl
  | true => exact absurd (List.any_eq_true.2 ⟨x, hx, hh⟩) h

theorem step_remove_msgs (c : Cfg) (s : Store) (b : Bytes) (i : Nat) :
    (step c s (.remove b i)).1.msgs = s.msgs.filter (fun m => !isMsg b i m) ∧
    (step c s (.remove b i)).1.next = s.next ∧
    (step c s (.remove b i)).2.2 = if s.msgs.any (isMsg b i) then [(b, i)] else [] := by
  simp only [step]; split
  · simp
  · rename_i h
    exact ⟨(filter_not_isMsg_absent _ _ _ h).symm, rfl, rfl⟩

theorem step_purge_eq (c : Cfg) (s : Store) (b : Bytes) :
    step c s (.purge b) =
      ({ s with msgs := s.msgs.filter (fun m => !inBox b m) }, .ok, (listing s b).map evOf) := rfl

theorem step_list_eq (c : Cfg) (s : Store) (b : Bytes) :
    step c s (.list b) = (s, .msgs (listing s b), []) := rfl

theorem step_visit_eq (c : Cfg) (s : Store) :
    step c s .visit = (s, .boxes ((boxNames s.msgs).map (listing s)), []) := rfl

/-- `next` of every mailbox never decreases -/
theorem step_next_mono (c : Cfg) (s : Store) (op : Op) (b : Bytes) :
    s.next b ≤ (step c s op).1.next b := by
  cases op with
  | add b' hdr src =>
    rw [step_add]; simp only
    split
    · rename_i h; simp at h; subst h; omega
    · exact Nat.le_refl _
  | get b' i => rw [(step_get_state c s b' i).1]; exact Nat.le_refl _
  | latest b' => rw [(step_latest_state c s b').1]; exact Nat.le_refl _
  | list b' => exact Nat.le_refl _
  | seen b' i => rw [(step_seen_msgs c s b' i).2.1]; exact Nat.le_refl _
  | remove b' i => rw [(step_remove_msgs c s b' i).2.1]; exact Nat.le_refl _
  | purge b' => exact Nat.le_refl _
  | visit => exact Nat.le_refl _

theorem after_next_mono (c : Cfg) (s : Store) (ops : List Op) (b : Bytes) :
    s.next b ≤ (after c s ops).next b := by
  induction ops generalizing s with
  | nil => exact Nat.le_refl _
  | cons op ops ih =>
    rw [after_cons]
    exact Nat.le_trans (step_next_mono c s op b) (ih _)

/-! ### the reachable-state invariant -/

/-- inside a mailbox ids strictly increase along arrival order, are positive and never exceed the
    mailbox's counter -/
structure Inv (s : Store) : Prop where
  asc : s.msgs.Pairwise (fun x y => x.box = y.box → x.id < y.id)
  bound : ∀ x ∈ s.msgs, 1 ≤ x.id ∧ x.id ≤ s.next x.box

theorem inv_empty : Inv empty := ⟨by simp [empty], by simp [empty]⟩

theorem Inv.of_sublist {s : Store} (h : Inv s) (l : List Msg) (hl : l.Sublist s.msgs) :
    Inv { s with msgs := l } :=
  ⟨h.asc.sublist hl, fun x hx => h.bound x (hl.subset hx)⟩

/-- the (mailbox, id) pairs of live messages are pairwise distinct -/
theorem Inv.nodup {s : Store} (h : Inv s) : (s.msgs.map evOf).Nodup := by
  rw [List.nodup_iff_pairwise_ne, List.pairwise_map]
  apply h.asc.imp
  intro x y hxy he
  simp [evOf] at he
  have := hxy he.1
  omega

/-- two live messages with the same mailbox and id are the same message -/
theorem Inv.unique {s : Store} (h : Inv s) {x y : Msg} (hx : x ∈ s.msgs) (hy : y ∈ s.msgs)
    (hb : x.box = y.box) (hi : x.id = y.id) : x = y := by
  have := h.asc
  generalize s.msgs = l at hx hy this
  induction this with
  | nil => simp at hx
  | cons hd _ ih =>
    rename_i a l'
    simp only [List.mem_cons] at hx hy
    rcases hx with rfl | hx <;> rcases hy with rfl | hy
    · rfl
    · have := hd y hy hb; omega
    · have := hd x hx hb.symm; omega
    · exact ih hx hy

theorem inv_add (c : Cfg) (s : Store) (b : Bytes) (hdr : Meta) (src : Bytes) (h : Inv s) :
    Inv (step c s (.add b hdr src)).1 := by
  rw [step_add]
  have hsub : (limitEvict c.limit (capEvict c.cap b (s.msgs ++ [newMsg s b hdr src])).1).1.Sublist
      (s.msgs ++ [newMsg s b hdr src]) :=
    (limitEvict_sublist _ _).trans (capEvict_sublist _ _ _)
  constructor
  · apply List.Pairwise.sublist hsub
    rw [List.pairwise_append]
    refine ⟨h.asc, by simp, ?_⟩
    intro x hx y hy hb
    simp at hy; subst hy
    have := (h.bound x hx).2
    simp [newMsg] at hb ⊢
    rw [hb] at this; omega
  · intro x hx
    have hx' := hsub.subset hx
    simp only [List.mem_append, List.mem_singleton] at hx'
    rcases hx' with hx' | rfl
    · have := h.bound x hx'
      refine ⟨this.1, ?_⟩
      simp only
      split
      · rename_i hb; simp at hb; rw [hb] at this; omega
      · exact this.2
    · simp [newMsg]

theorem inv_step (c : Cfg) (s : Store) (op : Op) (h : Inv s) : Inv (step c s op).1 := by
  cases op with
  | add b hdr src => exact inv_add c s b hdr src h
  | get b i => rw [(step_get_state c s b i).1]; exact h
  | latest b => rw [(step_latest_state c s b).1]; exact h
  | list b => exact h
  | seen b i =>
    obtain ⟨h1, h2, _⟩ := step_seen_msgs c s b i
    constructor
    · rw [h1, List.pairwise_map]
      apply h.asc.imp
      intro x y hxy
      simpa using hxy
    · rw [h1, h2]
      intro x hx
      simp only [List.mem_map] at hx
      obtain ⟨y, hy, rfl⟩ := hx
      simpa using h.bound y hy
  | remove b i =>
    obtain ⟨h1, h2, _⟩ := step_remove_msgs c s b i
    have := h.of_sublist _ (List.filter_sublist (l := s.msgs) (p := fun m => !isMsg b i m))
    constructor
    · rw [h1]; exact this.asc
    · rw [h1, h2]; exact this.bound
  | purge b => exact h.of_sublist _ List.filter_sublist
  | visit => exact h

theorem inv_reachable (c : Cfg) (s : Store) (h : Reachable c s) : Inv s :=
  reachable_induct c Inv inv_empty (fun s op => inv_step c s op) s h

theorem inv_after (c : Cfg) (s : Store) (ops : List Op) (h : Inv s) : Inv (after c s ops) :=
  after_induct c Inv (fun s op => inv_step c s op) s h ops

/-! ### listings -/

theorem filter_suffix (p : Msg → Bool) (d r l : List Msg) (h : d ++ r = l) :
    r.filter p = (l.filter p).drop (d.filter p).length := by
  subst h; simp

/-- after `add`, every mailbox lists what it listed before (plus the new message, for the target
    mailbox) minus an oldest prefix -/
theorem listing_add (c : Cfg) (s : Store) (b : Bytes) (hdr : Meta) (src : Bytes) (b' : Bytes) :
    ∃ k, listing (step c s (.add b hdr src)).1 b' =
      ((s.msgs ++ [newMsg s b hdr src]).filter (inBox b')).drop k := by
  rw [step_add]
  simp only [listing]
  rw [filter_suffix (inBox b') _ _ _ (limitEvict_append c.limit _)]
  by_cases hb : b' = b
  · subst hb
    rw [capEvict_kept_box]
    split
    · rw [List.drop_drop]; exact ⟨_, rfl⟩
    · exact ⟨_, rfl⟩
  · rw [capEvict_kept_other]
    · exact ⟨_, rfl⟩
    · intro m hm; simp at hm; simp [inBox, hm]; exact hb

theorem listing_add_other (s : Store) (b : Bytes) (hdr : Meta) (src : Bytes) (b' : Bytes) (hb : b' ≠ b) :
    (s.msgs ++ [newMsg s b hdr src]).filter (inBox b') = listing s b' := by
  have : inBox b' (newMsg s b hdr src) = false := by simp [inBox, newMsg]; exact fun h => hb h.symm
  simp [listing, List.filter_append, this]

theorem listing_add_same (s : Store) (b : Bytes) (hdr : Meta) (src : Bytes) :
    (s.msgs ++ [newMsg s b hdr src]).filter (inBox b) = listing s b ++ [newMsg s b hdr src] := by
  have : inBox b (newMsg s b hdr src) = true := by simp [newMsg]
  simp [listing, List.filter_append, this]

theorem listing_seen (c : Cfg) (s : Store) (b : Bytes) (i : Nat) (b' : Bytes) :
    listing (step c s (.seen b i)).1 b' =
      (listing s b').map (mark b i) := by
  simp only [listing, (step_seen_msgs c s b i).1, List.filter_map]
  congr 1
  apply List.filter_congr
  intro x _
  simp

theorem listing_remove (c : Cfg) (s : Store) (b : Bytes) (i : Nat) (b' : Bytes) :
    listing (step c s (.remove b i)).1 b' = (listing s b').filter (fun m => !isMsg b i m) := by
  simp only [listing, (step_remove_msgs c s b i).1, List.filter_filter]
  apply List.filter_congr
  intro x _
  exact Bool.and_comm _ _

theorem listing_purge (c : Cfg) (s : Store) (b : Bytes) (b' : Bytes) :
    listing (step c s (.purge b)).1 b' = if b' = b then [] else listing s b' := by
  simp only [step_purge_eq, listing, List.filter_filter]
  split
  · rename_i h; subst h
    rw [List.filter_eq_nil_iff]; intro x _; simp
  · rename_i h
    apply List.filter_congr
    intro x _
    by_cases hx : x.box = b' <;> simp [inBox, hx]
    intro hb; exact h hb

def isAdd : Op → Bool
  | .add _ _ _ => true
  | _ => false

/-- operations other than `add` never add to or reorder a listing -/
theorem listing_nonadd (c : Cfg) (s : Store) (op : Op) (hop : isAdd op = false) (b' : Bytes) :
    ((listing (step c s op).1 b').map evOf).Sublist ((listing s b').map evOf) := by
  cases op with
  | add b hdr src => simp [isAdd] at hop
  | get b i => rw [(step_get_state c s b i).1]; exact List.Sublist.refl _
  | latest b => rw [(step_latest_state c s b).1]; exact List.Sublist.refl _
  | list b => exact List.Sublist.refl _
  | seen b i =>
    rw [listing_seen, List.map_map]
    have : (evOf ∘ mark b i) = evOf := by funext m; simp
    rw [this]; exact List.Sublist.refl _
  | remove b i => rw [listing_remove]; exact (List.filter_sublist).map _
  | purge b =>
    rw [listing_purge]; split
    · exact List.nil_sublist _
    · exact List.Sublist.refl _
  | visit => exact List.Sublist.refl _

/-! ### bounds -/

theorem cap_step (c : Cfg) (s : Store) (op : Op) (hc : c.cap > 0)
    (h : ∀ b, (listing s b).length ≤ c.cap) (b' : Bytes) :
    (listing (step c s op).1 b').length ≤ c.cap := by
  by_cases hop : isAdd op = false
  · have := (listing_nonadd c s op hop b').length_le
    simp only [List.length_map] at this
    exact Nat.le_trans this (h b')
  · cases op with
    | add b hdr src =>
      by_cases hb : b' = b
      · subst hb
        rw [step_add]
        simp only [listing]
        rw [filter_suffix (inBox b') _ _ _ (limitEvict_append c.limit _), capEvict_kept_box]
        simp only [hc, ↓reduceIte, List.length_drop]
        omega
      · obtain ⟨k, hk⟩ := listing_add c s b hdr src b'
        rw [hk, listing_add_other s b hdr src b' hb, List.length_drop]
        have := h b'; omega
    | _ => simp [isAdd] at hop

theorem total_seen_map (b : Bytes) (i : Nat) (l : List Msg) :
    total (l.map (mark b i)) = total l := by
  induction l with
  | nil => rfl
  | cons x l ih => simp [ih]

theorem size_step (c : Cfg) (s : Store) (op : Op) (hl : c.limit > 0)
    (h : total s.msgs ≤ c.limit) : total (step c s op).1.msgs ≤ c.limit := by
  cases op with
  | add b hdr src => rw [step_add]; exact limitEvict_bound _ _ hl
  | get b i => rw [(step_get_state c s b i).1]; exact h
  | latest b => rw [(step_latest_state c s b).1]; exact h
  | list b => exact h
  | seen b i => rw [(step_seen_msgs c s b i).1, total_seen_map]; exact h
  | remove b i =>
    rw [(step_remove_msgs c s b i).1]
    exact Nat.le_trans (total_sublist List.filter_sublist) h
  | purge b => exact Nat.le_trans (total_sublist (List.filter_sublist (l := s.msgs))) h
  | visit => exact h

/-! ### event accounting -/

/-- the pair that enters the store with `op` -/
def added (s : Store) : Op → List Ev
  | .add b _ _ => [(b, s.next b + 1)]
  | _ => []

theorem filter_isMsg_single (l : List Msg) (b : Bytes) (i : Nat)
    (hp : l.Pairwise (fun x y => x.box = y.box → x.id < y.id)) (hex : l.any (isMsg b i) = true) :
    (l.filter (isMsg b i)).map evOf = [(b, i)] := by
  induction hp with
  | nil => simp at hex
  | @cons a t hd _ ih =>
    by_cases ha : isMsg b i a = true
    · have hnil : t.filter (isMsg b i) = [] := by
        rw [List.filter_eq_nil_iff]
        intro y hy hyy
        simp at ha hyy
        have := hd y hy (ha.1.trans hyy.1.symm)
        omega
      simp only [List.filter_cons, ha, hnil]
      simp at ha
      simp [evOf, ha]
    · have : t.any (isMsg b i) = true := by
        simp only [List.any_cons, Bool.or_eq_true] at hex
        rcases hex with h | h
        · exact absurd h ha
        · exact h
      simp only [List.filter_cons, ha]
      exact ih this

/-- every message that leaves the store produces exactly one deleted event carrying its mailbox
    and id, and nothing else does -/
theorem events_step (c : Cfg) (s : Store) (op : Op) (h : Inv s) :
    (s.msgs.map evOf ++ added s op).Perm ((step c s op).1.msgs.map evOf ++ (step c s op).2.2) := by
  cases op with
  | add b hdr src =>
    rw [step_add]
    simp only [added]
    generalize hce : capEvict c.cap b (s.msgs ++ [newMsg s b hdr src]) = ce
    have h1 := capEvict_perm c.cap b (s.msgs ++ [newMsg s b hdr src])
    rw [hce] at h1
    have h2 := limitEvict_append c.limit ce.1
    generalize limitEvict c.limit ce.1 = le at h2 ⊢
    have : (s.msgs ++ [newMsg s b hdr src]).Perm (le.1 ++ (ce.2 ++ le.2)) := by
      refine h1.symm.trans ?_
      rw [← h2]
      refine (List.perm_append_comm).trans ?_
      rw [List.append_assoc]
      refine (List.perm_append_comm).trans ?_
      rw [List.append_assoc]
    have := this.map evOf
    simpa [evOf, newMsg] using this
  | get b i => simp [(step_get_state c s b i), added]
  | latest b => simp [(step_latest_state c s b), added]
  | list b => simp [step_list_eq, added]
  | seen b i =>
    obtain ⟨h1, _, h3⟩ := step_seen_msgs c s b i
    rw [h1, h3, List.map_map]
    have : (evOf ∘ mark b i) = evOf := by funext m; simp
    simp [this, added]
  | remove b i =>
    obtain ⟨h1, _, h3⟩ := step_remove_msgs c s b i
    rw [h1, h3]
    simp only [added, List.append_nil]
    split
    · rename_i hany
      rw [← filter_isMsg_single s.msgs b i h.asc hany, ← List.map_append]
      apply List.Perm.map
      have := (List.filter_append_perm (fun m => !isMsg b i m) s.msgs).symm
      simpa using this
    · rename_i hany
      rw [filter_not_isMsg_absent _ _ _ hany]; simp
  | purge b =>
    rw [step_purge_eq]
    simp only [added, List.append_nil, listing, ← List.map_append]
    apply List.Perm.map
    exact ((List.filter_append_perm (inBox b) s.msgs).symm).trans List.perm_append_comm
  | visit => simp [step_visit_eq, added]

/-- all deleted events of a history, in order -/
def deleted (c : Cfg) : Store → List Op → List Ev
  | _, [] => []
  | s, op :: ops => (step c s op).2.2 ++ deleted c (step c s op).1 ops

theorem deleted_eq_run (c : Cfg) (s : Store) (ops : List Op) :
    deleted c s ops = ((run c s ops).2.map (·.2)).flatten := by
  induction ops generalizing s with
  | nil => rfl
  | cons op ops ih => simp [deleted, run, ih]

theorem added_fresh (s : Store) (op : Op) (h : Inv s) :
    ∀ e ∈ added s op, e ∉ s.msgs.map evOf ∧ e.2 = s.next e.1 + 1 := by
  intro e he
  cases op with
  | add b hdr src =>
    simp [added] at he; subst he
    refine ⟨?_, rfl⟩
    simp only [List.mem_map, not_exists, not_and]
    intro x hx hxe
    simp [evOf] at hxe
    have := (h.bound x hx).2
    rw [hxe.1, hxe.2] at this
    omega
  | _ => simp [added] at he

/-- every event of a history concerns a message live at its start or one created later -/
theorem deleted_origin (c : Cfg) (s : Store) (ops : List Op) (h : Inv s) :
    ∀ e ∈ deleted c s ops, e ∈ s.msgs.map evOf ∨ e.2 > s.next e.1 := by
  induction ops generalizing s with
  | nil => simp [deleted]
  | cons op ops ih =>
    intro e he
    have hp := events_step c s op h
    simp only [deleted, List.mem_append] at he
    have hmem : e ∈ (step c s op).1.msgs.map evOf ++ (step c s op).2.2 →
        e ∈ s.msgs.map evOf ∨ e.2 > s.next e.1 := by
      intro hm
      have := (hp.mem_iff (a := e)).2 hm
      rw [List.mem_append] at this
      rcases this with h1 | h1
      · exact Or.inl h1
      · have := (added_fresh s op h e h1).2; right; omega
    rcases he with he | he
    · exact hmem (List.mem_append_right _ he)
    · rcases ih _ (inv_step c s op h) e he with h1 | h1
      · exact hmem (List.mem_append_left _ h1)
      · right; have := step_next_mono c s op e.1; omega

/-- over any history no (mailbox, id) is announced deleted twice -/
theorem deleted_nodup (c : Cfg) (s : Store) (ops : List Op) (h : Inv s) :
    (deleted c s ops).Nodup := by
  induction ops generalizing s with
  | nil => simp [deleted]
  | cons op ops ih =>
    have hp := events_step c s op h
    have hinv' := inv_step c s op h
    have hnd : (s.msgs.map evOf ++ added s op).Nodup := by
      rw [List.nodup_append]
      refine ⟨h.nodup, ?_, ?_⟩
      · cases op <;> simp [added]
      · intro a ha b hb hab
        subst hab
        exact (added_fresh s op h a hb).1 ha
    have hnd' := hp.nodup_iff.1 hnd
    rw [List.nodup_append] at hnd'
    simp only [deleted]
    rw [List.nodup_append]
    refine ⟨hnd'.2.1, ih _ hinv', ?_⟩
    intro a ha b hb hab
    subst hab
    -- `a` was just announced: it is no longer live and its id is not above the counter
    have hnot : a ∉ (step c s op).1.msgs.map evOf := fun hm => hnd'.2.2 a hm a ha rfl
    have hle : a.2 ≤ (step c s op).1.next a.1 := by
      have hm := (hp.mem_iff (a := a)).2 (List.mem_append_right _ ha)
      rw [List.mem_append] at hm
      rcases hm with h1 | h1
      · simp only [List.mem_map] at h1
        obtain ⟨x, hx, rfl⟩ := h1
        have := (h.bound x hx).2
        have := step_next_mono c s op x.box
        simp [evOf]; omega
      · cases op with
        | add b' hdr src =>
          simp [added] at h1; subst h1
          rw [step_add]; simp
        | _ => simp [added] at h1
    rcases deleted_origin c _ ops hinv' a hb with h1 | h1
    · exact hnot h1
    · omega

/-- all pairs that entered the store during a history, in order -/
def addedH (c : Cfg) : Store → List Op → List Ev
  | _, [] => []
  | s, op :: ops => added s op ++ addedH c (step c s op).1 ops

/-- history form of `events_step`: what was live or came in = what is live or was announced deleted -/
theorem events_history (c : Cfg) (s : Store) (ops : List Op) (h : Inv s) :
    (s.msgs.map evOf ++ addedH c s ops).Perm ((after c s ops).msgs.map evOf ++ deleted c s ops) := by
  induction ops generalizing s with
  | nil => simp [addedH, deleted, after_nil]
  | cons op ops ih =>
    have h1 := events_step c s op h
    have h2 := ih _ (inv_step c s op h)
    simp only [addedH, deleted, after_cons]
    generalize (step c s op).2.2 = e at h1 ⊢
    generalize (after c (step c s op).1 ops).msgs.map evOf = fin at h2 ⊢
    generalize deleted c (step c s op).1 ops = dl at h2 ⊢
    generalize addedH c (step c s op).1 ops = ad at h2 ⊢
    generalize (step c s op).1.msgs.map evOf = mid at h1 h2
    rw [← List.append_assoc]
    refine (h1.append_right ad).trans ?_
    -- (mid ++ e) ++ ad ~ fin ++ (e ++ dl)
    have : (mid ++ e ++ ad).Perm (e ++ (mid ++ ad)) := by
      rw [List.append_assoc]
      refine List.perm_append_comm.trans ?_
      rw [List.append_assoc]
      exact List.Perm.append_left e List.perm_append_comm
    refine this.trans ?_
    refine (List.Perm.append_left e h2).trans ?_
    rw [← List.append_assoc, ← List.append_assoc]
    exact List.Perm.append_right dl List.perm_append_comm

/-! ### reading back -/

theorem find_isMsg_of_mem {l : List Msg} (hp : l.Pairwise (fun x y => x.box = y.box → x.id < y.id))
    {x : Msg} (hx : x ∈ l) : l.find? (isMsg x.box x.id) = some x := by
  induction hp with
  | nil => simp at hx
  | @cons a t hd _ ih =>
    simp only [List.mem_cons] at hx
    rcases hx with rfl | hx
    · simp
    · have : isMsg x.box x.id a = false := by
        cases hh : isMsg x.box x.id a with
        | false => rfl
        | true =>
          simp at hh
          have := hd x hx hh.1
          omega
      simp only [List.find?_cons, this]
      exact ih hx

/-- `get` of a live message returns exactly that message and changes nothing -/
theorem step_get_live (c : Cfg) (s : Store) (h : Inv s) {x : Msg} (hx : x ∈ s.msgs) :
    step c s (.get x.box x.id) = (s, .msg x, []) := by
  simp only [step, find_isMsg_of_mem h.asc hx]

theorem step_get_missing (c : Cfg) (s : Store) (b : Bytes) (i : Nat)
    (h : ¬ ∃ x ∈ s.msgs, x.box = b ∧ x.id = i) : step c s (.get b i) = (s, .notExist, []) := by
  simp only [step, (find_isMsg_none s b i).2 h]

theorem step_seen_missing (c : Cfg) (s : Store) (b : Bytes) (i : Nat)
    (h : ¬ ∃ x ∈ s.msgs, x.box = b ∧ x.id = i) : step c s (.seen b i) = (s, .notExist, []) := by
  have : ¬ s.msgs.any (isMsg b i) = true := fun ha => h ((any_isMsg s b i).1 ha)
  simp only [step, this, Bool.false_eq_true, ↓reduceIte]

theorem step_remove_missing (c : Cfg) (s : Store) (b : Bytes) (i : Nat)
    (h : ¬ ∃ x ∈ s.msgs, x.box = b ∧ x.id = i) : step c s (.remove b i) = (s, .notExist, []) := by
  have : ¬ s.msgs.any (isMsg b i) = true := fun ha => h ((any_isMsg s b i).1 ha)
  simp only [step, this, Bool.false_eq_true, ↓reduceIte]

/-- a delivered message that fits the byte limit is the last message of the store afterwards -/
theorem add_keeps_new (c : Cfg) (s : Store) (b : Bytes) (hdr : Meta) (src : Bytes)
    (h : c.limit = 0 ∨ src.length ≤ c.limit) :
    ∃ r, (step c s (.add b hdr src)).1.msgs = r ++ [newMsg s b hdr src] := by
  rw [step_add]
  simp only
  rw [capEvict_add c.cap b s.msgs (newMsg s b hdr src) (by simp [newMsg])]
  obtain ⟨r, hr, _⟩ := limitEvict_keeps_last c.limit
    (dropOldest b (if c.cap > 0 then (s.msgs.filter (inBox b)).length + 1 - c.cap else 0) s.msgs).1
    (newMsg s b hdr src) h
  exact ⟨r, hr⟩

/-- nothing is evicted when the mailbox is below its cap and the message fits into the limit -/
theorem add_no_eviction (c : Cfg) (s : Store) (b : Bytes) (hdr : Meta) (src : Bytes)
    (hcap : c.cap = 0 ∨ (listing s b).length < c.cap)
    (hlim : c.limit = 0 ∨ total s.msgs + src.length ≤ c.limit) :
    step c s (.add b hdr src) =
      ({ msgs := s.msgs ++ [newMsg s b hdr src],
         next := fun x => if x == b then s.next b + 1 else s.next x }, .id (s.next b + 1), []) := by
  rw [step_add]
  have hce : capEvict c.cap b (s.msgs ++ [newMsg s b hdr src]) = (s.msgs ++ [newMsg s b hdr src], []) := by
    unfold capEvict
    have hlen : ((s.msgs ++ [newMsg s b hdr src]).filter (inBox b)).length = (listing s b).length + 1 := by
      rw [listing_add_same]; simp
    simp only [hlen]
    have : ¬ (c.cap > 0 ∧ (listing s b).length + 1 > c.cap) := by omega
    simp only [this, ↓reduceIte]
  rw [hce]
  have hle : limitEvict c.limit (s.msgs ++ [newMsg s b hdr src]) = (s.msgs ++ [newMsg s b hdr src], []) := by
    apply limitEvict_fits
    simp only [total_append, total_cons, total_nil, newMsg, Msg.size]
    omega
  simp only [hle, List.append_nil, List.map_nil]

end Ibx.Lemmas.SpecStore
