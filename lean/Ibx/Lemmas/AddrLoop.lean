import Ibx.Lemmas.AddrName
/-
  Helper lemmas for C04, part 2: `parseLoop` on arbitrary input (quoting, escapes): one abstract
  step, length bounds, the position of the unquoted '@', and commutation with lower-casing.
-/
namespace Ibx.Lemmas.AddrLoop
open Ibx Ibx.Bytes Ibx.Model.Addr Ibx.Lemmas.AddrName

/-- one step of `parseLoop`, abstractly: either it stops at an unquoted '@', or it continues in a
    state whose buffer grew by at most the current byte -/
theorem parseLoop_step {c : Nat} {rest : Bytes} {st : PState} {l d : Bytes}
    (h : parseLoop (c :: rest) st = some (l, d)) :
    (c = 64 ∧ st.icq = false ∧ st.isq = false ∧ st.i ≤ 128 ∧ st.prev ≠ 46 ∧ l = st.buf.reverse ∧ d = rest) ∨
    (∃ st', parseLoop rest st' = some (l, d) ∧ st'.i = st.i + 1 ∧ st'.prev = c ∧
        (st'.buf = st.buf ∨ st'.buf = c :: st.buf)) := by
  rw [parseLoop] at h
  simp only [] at h
  repeat' split at h
  all_goals first
    | (simp at h; done)
    | (right; exact ⟨_, h, rfl, rfl, Or.inl rfl⟩)
    | (right; exact ⟨_, h, rfl, rfl, Or.inr rfl⟩)
    | (left; rename_i h64 hq hi hp
       simp only [Bool.or_eq_true, not_or, Bool.not_eq_true, beq_iff_eq] at h64 hq hp
       simp only [Option.some.injEq, Prod.mk.injEq] at h
       exact ⟨h64, hq.1, hq.2, by omega, hp, h.1.symm, h.2.symm⟩)

theorem parseLoop_nil {st : PState} {l d : Bytes} (h : parseLoop [] st = some (l, d)) :
    l = st.buf.reverse ∧ d = [] := by
  rw [parseLoop] at h
  split at h
  · simp at h
  · simp only [Option.some.injEq, Prod.mk.injEq] at h; exact ⟨h.1.symm, h.2.symm⟩

/-- local part and domain together are never longer than what the loop was given -/
theorem parseLoop_len {s : Bytes} {st : PState} {l d : Bytes} (h : parseLoop s st = some (l, d)) :
    l.length + d.length ≤ st.buf.length + s.length := by
  induction s generalizing st with
  | nil => obtain ⟨rfl, rfl⟩ := parseLoop_nil h; simp
  | cons c rest ih =>
    rcases parseLoop_step h with ⟨_, _, _, _, _, rfl, rfl⟩ | ⟨st', h', _, _, hb⟩
    · simp
    · have := ih h'
      rcases hb with hb | hb <;> rw [hb] at this <;> simp at this ⊢ <;> omega

/-- when a domain was split off: the local part is at most 128 bytes beyond the buffer the loop
    started with (the `i > 128` test), and the '@' itself was consumed -/
theorem parseLoop_at {s : Bytes} {st : PState} {l d : Bytes} (h : parseLoop s st = some (l, d))
    (hd : d ≠ []) :
    l.length + st.i ≤ st.buf.length + 128 ∧ l.length + d.length + 1 ≤ st.buf.length + s.length := by
  induction s generalizing st with
  | nil => exact absurd (parseLoop_nil h).2 hd
  | cons c rest ih =>
    rcases parseLoop_step h with ⟨_, _, _, hi, _, rfl, rfl⟩ | ⟨st', h', hi, _, hb⟩
    · simp; omega
    · have := ih h'
      rcases hb with hb | hb <;> rw [hb, hi] at this <;> simp at this ⊢ <;> omega

/-- the loop only ever appends to its buffer -/
theorem parseLoop_prefix {s : Bytes} {st : PState} {l d : Bytes} (h : parseLoop s st = some (l, d)) :
    ∃ e, l = st.buf.reverse ++ e := by
  induction s generalizing st with
  | nil => exact ⟨[], by simp [(parseLoop_nil h).1]⟩
  | cons c rest ih =>
    rcases parseLoop_step h with ⟨_, _, _, _, _, rfl, rfl⟩ | ⟨st', h', _, _, hb⟩
    · exact ⟨[], by simp⟩
    · obtain ⟨e, he⟩ := ih h'
      rcases hb with hb | hb
      · exact ⟨e, by rw [he, hb]⟩
      · exact ⟨c :: e, by rw [he, hb]; simp⟩

theorem lowerB_cases (c : Nat) :
    (lowerB c = c + 32 ∧ 65 ≤ c ∧ c ≤ 90) ∨ (lowerB c = c ∧ ¬ (65 ≤ c ∧ c ≤ 90)) := by
  unfold lowerB; split <;> simp_all

theorem lowerB_copy (c : Nat) : (isAlphaB (lowerB c) || isDigitB (lowerB c) || isSpecialB (lowerB c))
    = (isAlphaB c || isDigitB c || isSpecialB c) := by
  rw [Bool.eq_iff_iff]
  rcases lowerB_cases c with ⟨h, _, _⟩ | ⟨h, _⟩ <;> rw [h] <;> byte_cases <;> omega

/-- lower-casing does not create or destroy a non-letter byte -/
theorem lowerB_beq (c k : Nat) (hk : ¬ (65 ≤ k ∧ k ≤ 90) ∧ ¬ (97 ≤ k ∧ k ≤ 122)) :
    (lowerB c == k) = (c == k) := by
  rw [Bool.eq_iff_iff]
  rcases lowerB_cases c with ⟨h, _, _⟩ | ⟨h, _⟩ <;> rw [h] <;> simp only [beq_iff_eq] <;> omega

theorem lowerB_gt (c : Nat) : (lowerB c > 127) ↔ (c > 127) := by
  rcases lowerB_cases c with ⟨h, _, _⟩ | ⟨h, _⟩ <;> rw [h] <;> omega

def lower2 (p : Bytes × Bytes) : Bytes × Bytes := (lower p.1, lower p.2)

/-- `parseLoop` commutes with lower-casing (input, buffer and previous byte) -/
theorem parseLoop_lower (s : Bytes) (i : Nat) (buf : Bytes) (prev : Nat) (icq isq : Bool) :
    parseLoop (lower s) { i := i, buf := lower buf, prev := lowerB prev, icq := icq, isq := isq } =
      (parseLoop s { i := i, buf := buf, prev := prev, icq := icq, isq := isq }).map lower2 := by
  induction s generalizing i buf prev icq isq with
  | nil =>
    rw [lower_nil, parseLoop, parseLoop]
    split <;> simp [lower2, lower]
  | cons c rest ih =>
    rw [lower_cons, parseLoop, parseLoop]
    simp only [lowerB_copy, lowerB_beq c 46 (by omega), lowerB_beq c 92 (by omega),
      lowerB_beq c 34 (by omega), lowerB_beq c 64 (by omega), lowerB_beq prev 46 (by omega),
      lowerB_gt]
    repeat' split
    all_goals first
      | rfl
      | exact ih _ _ _ _ _
      | exact ih _ (c :: buf) _ _ _
      | (simp [lower2, lower])

theorem afterColon_lower (a : Bytes) : afterColon (lower a) = (afterColon a).map lower := by
  induction a with
  | nil => rfl
  | cons c r ih =>
    rw [lower_cons, afterColon, afterColon, lowerB_beq c 58 (by omega)]
    split <;> simp [ih]

theorem head?_lower (a : Bytes) (k : Nat) (hk : ¬ (65 ≤ k ∧ k ≤ 90) ∧ ¬ (97 ≤ k ∧ k ≤ 122)) :
    ((lower a).head? == some k) = (a.head? == some k) := by
  cases a with
  | nil => simp
  | cons c r => simpa using (lowerB_beq c k hk)

theorem isEmpty_lower (a : Bytes) : (lower a).isEmpty = a.isEmpty := by
  cases a <;> rfl

/-- route removal of `parseEmailAddress` -/
def stripRoute (a : Bytes) : Option Bytes :=
  if a.head? == some 64 then
    match afterColon a with
    | none => none
    | some r => if r.isEmpty then none else some r
  else some a

def initSt : PState := { i := 0, buf := [], prev := 46, icq := false, isq := false }

theorem parseEmailAddress_eq (a : Bytes) : parseEmailAddress a =
    if a.isEmpty then none else if a.length > 320 then none else
      match stripRoute a with
      | none => none
      | some b => if b.head? == some 46 then none else parseLoop b initSt := rfl

theorem stripRoute_lower (a : Bytes) : stripRoute (lower a) = (stripRoute a).map lower := by
  unfold stripRoute
  rw [head?_lower a 64 (by omega), afterColon_lower]
  split
  · cases afterColon a with
    | none => rfl
    | some r => simp only [Option.map_some, isEmpty_lower]; split <;> rfl
  · rfl

/-- `parseEmailAddress` commutes with lower-casing -/
theorem parseEmailAddress_lower (a : Bytes) :
    parseEmailAddress (lower a) = (parseEmailAddress a).map lower2 := by
  rw [parseEmailAddress_eq, parseEmailAddress_eq, isEmpty_lower, lower_length, stripRoute_lower]
  split
  · rfl
  · split
    · rfl
    · cases stripRoute a with
      | none => rfl
      | some b =>
        simp only [Option.map_some, head?_lower b 46 (by omega)]
        split
        · rfl
        · exact parseLoop_lower b 0 [] 46 false false

theorem afterColon_len {a r : Bytes} (h : afterColon a = some r) : r.length < a.length := by
  induction a with
  | nil => simp [afterColon] at h
  | cons c rest ih =>
    rw [afterColon] at h
    split at h
    · injection h with h; subst h; simp
    · have := ih h; simp; omega

theorem stripRoute_some {a b : Bytes} (h : stripRoute a = some b) :
    b.length ≤ a.length ∧ (a.head? ≠ some 64 → b = a) ∧ (a ≠ [] → b ≠ []) := by
  unfold stripRoute at h
  split at h
  · rename_i h64
    cases hac : afterColon a with
    | none => simp [hac] at h
    | some r =>
      simp only [hac] at h
      split at h
      · simp at h
      · rename_i hne
        injection h with h; subst h
        refine ⟨Nat.le_of_lt (afterColon_len hac), fun hn => absurd (by simpa using h64) hn, ?_⟩
        intro _ hr; subst hr; simp at hne
  · injection h with h; subst h; exact ⟨Nat.le_refl _, fun _ => rfl, id⟩

/-- inversion of `parseEmailAddress` -/
theorem pea_inv {a l d : Bytes} (h : parseEmailAddress a = some (l, d)) :
    a ≠ [] ∧ a.length ≤ 320 ∧ ∃ b, stripRoute a = some b ∧ b.head? ≠ some 46 ∧
      parseLoop b initSt = some (l, d) := by
  rw [parseEmailAddress_eq] at h
  split at h
  · simp at h
  · rename_i hne
    split at h
    · simp at h
    · rename_i hlen
      cases hs : stripRoute a with
      | none => simp [hs] at h
      | some b =>
        simp only [hs] at h
        split at h
        · simp at h
        · rename_i h46
          exact ⟨by simpa using hne, by omega, b, rfl, by simpa using h46, h⟩

/-- on an address without a route that does not start with a period, `parseEmailAddress` is the loop -/
theorem pea_direct {a : Bytes} (hne : a ≠ []) (hlen : a.length ≤ 320) (h64 : a.head? ≠ some 64)
    (h46 : a.head? ≠ some 46) : parseEmailAddress a = parseLoop a initSt := by
  have hs : stripRoute a = some a := by unfold stripRoute; simp [h64]
  have hl : ¬ (a.length > 320) := by omega
  rw [parseEmailAddress_eq, hs]
  simp [hne, hl, h46]

/-- lengths: local part and domain fit in the address; a split-off domain means the local part is
    at most 128 bytes and the '@' is accounted for -/
theorem pea_len {a l d : Bytes} (h : parseEmailAddress a = some (l, d)) :
    l.length + d.length ≤ a.length ∧ a.length ≤ 320 ∧
    (d ≠ [] → l.length ≤ 128 ∧ l.length + d.length + 1 ≤ a.length) := by
  obtain ⟨_, hlen, b, hs, _, hp⟩ := pea_inv h
  have hb := (stripRoute_some hs).1
  have h1 := parseLoop_len hp
  refine ⟨by simp [initSt] at h1; omega, hlen, fun hd => ?_⟩
  have h2 := parseLoop_at hp hd
  simp [initSt] at h2; omega

/-- an address `parseEmailAddress` accepts never starts with '[' -/
theorem pea_head {a l d : Bytes} (h : parseEmailAddress a = some (l, d)) : a.head? ≠ some 91 := by
  intro h91
  obtain ⟨_, _, b, hs, _, hp⟩ := pea_inv h
  have hb : b = a := (stripRoute_some hs).2.1 (by rw [h91]; simp)
  subst hb
  cases b with
  | nil => simp at h91
  | cons c r =>
    simp at h91; subst h91
    rw [parseLoop] at hp
    simp [initSt, isAlphaB, isLowerB, isUpperB, isDigitB, isSpecialB] at hp

end Ibx.Lemmas.AddrLoop
