import Ibx.Lemmas.SmtpLoop
/-
  A concrete environment and concrete dialogues for the non-vacuity examples of the SMTP properties
  (C01, C03, C05 session part, C06, C17).  Everything here reduces by `decide`.
-/
namespace Ibx.Lemmas.SmtpEx
open Ibx Ibx.Bytes Ibx.Model Ibx.Model.Smtp

def exPol : Policy.Cfg :=
  { defaultAccept := true, acceptDomains := [], rejectDomains := [ofAscii "bad.org"],
    defaultStore := true, storeDomains := [], discardDomains := [ofAscii "nostore.org"],
    rejectOrigin := [ofAscii "evil.org"] }

/-- trivial stand-ins for the parameters: MAIL arguments are `FROM:<>` plus optional parameters (null sender),
    a parameter string ` SIZE=<digits>` is one SIZE pair, every block has parsable headers, no hooks,
    the store never fails; at most 2 recipients, at most 20 bytes -/
def exEnv : Env :=
  { naming := .localN, pol := exPol, maxRcpt := 2, maxBytes := 20, domain := ofAscii "srv",
    remoteHost := ofAscii "1.2.3.4", tstamp := ofAscii "T", ip := fun _ => false,
    mailRe := fun arg => if arg.take 7 == ofAscii "FROM:<>" then some ([], arg.drop 7) else none,
    parseArgs := fun p => if p.take 6 == ofAscii " SIZE=" then some [(ofAscii "SIZE", p.drop 6)] else none,
    hdr := fun _ => some { sender := none, rcpts := none, subject := ofAscii "s" },
    hookMail := fun _ => none, hookRcpt := fun _ _ => none, hookStored := fun _ => none,
    storeFails := fun _ => false }

/-- a session in state MAIL with one accepted recipient -/
def exRcpt : Addr.Recipient :=
  { addr := ofAscii "u@x.org", localPart := ofAscii "u", domain := ofAscii "x.org", mailbox := ofAscii "u" }

def exMail : Sess :=
  { st := .mail, sender := some { addr := [], localPart := [], domain := [] }, rcpts := [exRcpt],
    remoteDomain := ofAscii "a", sendErr := false, budget := none }

def exReady : Sess :=
  { st := .ready, sender := none, rcpts := [], remoteDomain := ofAscii "a", sendErr := false, budget := none }

/-- one complete transaction -/
def dlg1 : Bytes := ofAscii "HELO a\r\nMAIL FROM:<>\r\nRCPT TO:<u@x.org>\r\nDATA\r\nhi\r\n.\r\n"

/-- two transactions, the first abandoned by RSET -/
def dlg2 : Bytes :=
  ofAscii "EHLO a\r\nMAIL FROM:<>\r\nRCPT TO:<v@x.org>\r\nRSET\r\nMAIL FROM:<>\r\nRCPT TO:<u@x.org>\r\nDATA\r\nhi\r\n.\r\nQUIT\r\n"

end Ibx.Lemmas.SmtpEx
