import Ibx.Model.FileIds
/-
  Lemmas.FileIds — helper lemmas about the id generator and the re-draw loop (Ibx/Model/FileIds.lean):
  unfolding of the fuel-free loop, closed form of the k-th candidate, distinctness of candidates within one counter
  cycle, the pigeonhole step.  The property theorems are in Ibx/Props/C07Ids.lean.
-/
namespace Ibx.Lemmas.FileIds
open Ibx Ibx.Model.FileIds

/-! ### the loop -/

theorem firstFree_pos {p : Nat → Bool} {k : Nat} (h : Halts p k) (hp : p k = true) :
    firstFree p k h = firstFree p (k + 1) (h.next hp) := by
  rw [firstFree]; simp [hp]

theorem firstFree_neg {p : Nat → Bool} {k : Nat} (h : Halts p k) (hp : p k = false) : firstFree p k h = k := by
  rw [firstFree]; simp [hp]

/-- the loop stops at the FIRST draw that is not taken -/
theorem firstFree_spec (p : Nat → Bool) (k : Nat) (h : Halts p k) :
    p (firstFree p k h) = false ∧ k ≤ firstFree p k h ∧ ∀ j, k ≤ j → j < firstFree p k h → p j = true := by
  obtain ⟨n, hk, hn⟩ := id h
  generalize hd : n - k = d
  induction d generalizing k with
  | zero =>
    have : k = n := by omega
    subst this
    rw [firstFree_neg h hn]
    exact ⟨hn, Nat.le_refl _, fun j a b => by omega⟩
  | succ d ih =>
    cases hp : p k with
    | true =>
      rw [firstFree_pos h hp]
      obtain ⟨a, b, c⟩ := ih (k + 1) (h.next hp) (by omega) (by omega)
      refine ⟨a, by omega, fun j hj hj' => ?_⟩
      rcases Nat.eq_or_lt_of_le hj with e | e
      · subst e; exact hp
      · exact c j e hj'
    | false =>
      rw [firstFree_neg h hp]
      exact ⟨hp, Nat.le_refl _, fun j a b => by omega⟩

theorem firstFree_le (p : Nat → Bool) (k : Nat) (h : Halts p k) (n : Nat) (hk : k ≤ n) (hn : p n = false) :
    firstFree p k h ≤ n := by
  obtain ⟨_, _, c⟩ := firstFree_spec p k h
  rcases Nat.lt_or_ge n (firstFree p k h) with hlt | hge
  · have := c n hk hlt; rw [hn] at this; cases this
  · exact hge

theorem firstFree_unique (p : Nat → Bool) (k : Nat) (h : Halts p k) (n : Nat) (hk : k ≤ n) (hn : p n = false)
    (hb : ∀ j, k ≤ j → j < n → p j = true) : firstFree p k h = n := by
  obtain ⟨a, b, _⟩ := firstFree_spec p k h
  have h1 := firstFree_le p k h n hk hn
  rcases Nat.eq_or_lt_of_le h1 with e | e
  · exact e
  · have := hb _ b e; rw [a] at this; cases this

theorem halts_of_free {p : Nat → Bool} {k n : Nat} (hk : k ≤ n) (hn : p n = false) : Halts p k := ⟨n, hk, hn⟩

theorem not_halts_of_all {p : Nat → Bool} (h : ∀ n, p n = true) (k : Nat) : ¬ Halts p k := by
  rintro ⟨n, _, hn⟩; rw [h n] at hn; cases hn

/-- the cut-off loop agrees with the fuel-free one whenever it answers -/
theorem newIdWithin_eq (srch : Search) (idx : List Id) (g : Gen) (env : Nat → Tick) :
    ∀ (fuel k : Nat) (d : Drawn), newIdWithin srch idx g env fuel k = some d →
      (∀ j, j < k → hasID srch idx (cand g env j) = true) →
      ∀ h, newId srch idx g env h = d := by
  intro fuel
  induction fuel with
  | zero => intro k d hd; cases hd
  | succ fuel ih =>
    intro k d hd hb h
    simp only [newIdWithin] at hd
    cases hp : hasID srch idx (cand g env k) with
    | true =>
      rw [hp] at hd
      simp only [if_true] at hd
      refine ih (k + 1) d hd (fun j hj => ?_) h
      rcases Nat.eq_or_lt_of_le (Nat.le_of_lt_succ hj) with e | e
      · subst e; exact hp
      · exact hb j e
    | false =>
      rw [hp] at hd
      simp only [Bool.false_eq_true, if_false, Option.some.injEq] at hd
      have : firstFree (fun k => hasID srch idx (cand g env k)) 0 h = k :=
        firstFree_unique _ 0 h k (Nat.zero_le _) hp (fun j _ hj => hb j hj)
      simp only [newId, this]
      exact hd

/-! ### hasID, linear -/

theorem hasIDLinear_iff (id : Id) (l : List Id) : hasIDLinear id l = true ↔ id ∈ l := by
  induction l with
  | nil => simp [hasIDLinear]
  | cons m rest ih =>
    simp only [hasIDLinear, List.mem_cons]
    by_cases hm : m = id
    · simp [hm]
    · simp only [hm, if_false, ih]
      constructor
      · exact .inr
      · rintro (e | e)
        · exact absurd e.symm hm
        · exact e

theorem hasIDLinear_false_iff (id : Id) (l : List Id) : hasIDLinear id l = false ↔ id ∉ l := by
  rw [← hasIDLinear_iff]; cases hasIDLinear id l <;> simp

/-! ### closed form of the candidates -/

/-- seconds the clock has advanced up to and including draw k -/
def advSum (env : Nat → Tick) : Nat → Nat
  | 0 => (env 0).adv
  | k + 1 => advSum env k + (env (k + 1)).adv

/-- counter values other goroutines consumed up to draw k -/
def skipSum (env : Nat → Tick) : Nat → Nat
  | 0 => (env 0).skip
  | k + 1 => skipSum env k + (env (k + 1)).skip

theorem drawN_closed (g : Gen) (env : Nat → Tick) (k : Nat) :
    drawN g env k =
      ({ sec := g.sec + advSum env k, ctr := (g.ctr + skipSum env k + k) % cycle },
       { sec := g.sec + advSum env k, ctr := (g.ctr + skipSum env k + k + 1) % cycle }) := by
  induction k with
  | zero => simp [drawN, draw, advSum, skipSum, cycle]
  | succ k ih =>
    simp only [drawN, ih, draw, advSum, skipSum, cycle]
    refine Prod.ext ?_ ?_ <;> simp only [Id.mk.injEq, Gen.mk.injEq] <;> refine ⟨by omega, by omega⟩

theorem cand_closed (g : Gen) (env : Nat → Tick) (k : Nat) :
    cand g env k = { sec := g.sec + advSum env k, ctr := (g.ctr + skipSum env k + k) % cycle } := by
  simp [cand, drawN_closed]

theorem cand_ctr_lt (g : Gen) (env : Nat → Tick) (k : Nat) : (cand g env k).ctr < cycle := by
  rw [cand_closed]; simp only [cycle]; omega

theorem advSum_mono (env : Nat → Tick) {i j : Nat} (h : i ≤ j) : advSum env i ≤ advSum env j := by
  induction j with
  | zero => have : i = 0 := by omega
            subst this; exact Nat.le_refl _
  | succ j ih =>
    rcases Nat.eq_or_lt_of_le h with e | e
    · subst e; exact Nat.le_refl _
    · have := ih (by omega); simp only [advSum]; omega

theorem skipSum_mono (env : Nat → Tick) {i j : Nat} (h : i ≤ j) : skipSum env i ≤ skipSum env j := by
  induction j with
  | zero => have : i = 0 := by omega
            subst this; exact Nat.le_refl _
  | succ j ih =>
    rcases Nat.eq_or_lt_of_le h with e | e
    · subst e; exact Nat.le_refl _
    · have := ih (by omega); simp only [skipSum]; omega

/-- the clock does not go backwards inside a loop -/
theorem cand_sec_mono (g : Gen) (env : Nat → Tick) {i j : Nat} (h : i ≤ j) : (cand g env i).sec ≤ (cand g env j).sec := by
  rw [cand_closed, cand_closed]; have := advSum_mono env h; simp only; omega

/-- counter positions passed between draw 0 and draw n of a loop: the n further draws and whatever other goroutines
    consumed in between -/
def span (env : Nat → Tick) (n : Nat) : Nat := skipSum env n - (env 0).skip + n

theorem skipSum_ge0 (env : Nat → Tick) (n : Nat) : (env 0).skip ≤ skipSum env n :=
  skipSum_mono env (Nat.zero_le n)

theorem span_mono (env : Nat → Tick) {i j : Nat} (h : i ≤ j) : span env i ≤ span env j := by
  have := skipSum_mono env h
  have := skipSum_ge0 env i
  simp only [span]; omega

/-- draws that lie within one counter cycle of each other are pairwise different ids -/
theorem cand_ne_of_span (g : Gen) (env : Nat → Tick) {i j n : Nat} (hij : i < j) (hjn : j ≤ n) (hs : span env n < cycle) :
    cand g env i ≠ cand g env j := by
  rw [cand_closed, cand_closed]
  intro e
  simp only [Id.mk.injEq] at e
  have h1 := skipSum_mono env (Nat.le_of_lt hij)
  have h2 := span_mono env hjn
  have h3 := skipSum_ge0 env i
  simp only [span, cycle] at *
  omega

/-! ### pigeonhole -/

theorem pigeon {α} [DecidableEq α] : ∀ (cs L : List α), cs.Nodup → (∀ c ∈ cs, c ∈ L) → cs.length ≤ L.length
  | [], _, _, _ => Nat.zero_le _
  | c :: cs, L, hnd, hsub => by
    rw [List.nodup_cons] at hnd
    have hc : c ∈ L := hsub c List.mem_cons_self
    have ih := pigeon cs (L.erase c) hnd.2 (fun x hx => by
      have hxL := hsub x (List.mem_cons_of_mem _ hx)
      have hne : x ≠ c := fun e => hnd.1 (e ▸ hx)
      exact (List.mem_erase_of_ne hne).2 hxL)
    rw [List.length_erase_of_mem hc] at ih
    have : 0 < L.length := List.length_pos_of_mem hc
    simp only [List.length_cons]; omega

theorem filter_length_mono {α} (p q : α → Bool) (l : List α) (h : ∀ x ∈ l, p x = true → q x = true) :
    (l.filter p).length ≤ (l.filter q).length := by
  induction l with
  | nil => simp
  | cons a l ih =>
    have ih' := ih (fun x hx => h x (List.mem_cons_of_mem _ hx))
    have ha := h a List.mem_cons_self
    simp only [List.filter_cons]
    cases hp : p a <;> cases hq : q a <;> simp_all <;> omega

/-- the candidates 0 … n as a list -/
def cands (g : Gen) (env : Nat → Tick) (n : Nat) : List Id := (List.range (n + 1)).map (cand g env)

theorem mem_cands (g : Gen) (env : Nat → Tick) (n : Nat) (x : Id) : x ∈ cands g env n ↔ ∃ j, j ≤ n ∧ cand g env j = x := by
  simp only [cands, List.mem_map, List.mem_range]
  constructor
  · rintro ⟨j, hj, e⟩; exact ⟨j, by omega, e⟩
  · rintro ⟨j, hj, e⟩; exact ⟨j, by omega, e⟩

theorem cands_nodup (g : Gen) (env : Nat → Tick) (n : Nat)
    (hd : ∀ i j, i < j → j ≤ n → cand g env i ≠ cand g env j) : (cands g env n).Nodup := by
  unfold cands
  rw [List.nodup_iff_pairwise_ne, List.pairwise_map]
  have hr : (List.range (n + 1)).Pairwise (· < ·) := List.pairwise_lt_range
  refine (List.Pairwise.and_mem.1 hr).imp ?_
  intro a b ⟨ha, hb, hab⟩
  exact hd a b hab (by have := List.mem_range.1 hb; omega)

/-- pigeonhole on the counter cycle: if draws 0 … n are pairwise different and fewer than n + 1 listed ids occur among
    them, one of these draws is not listed -/
theorem free_draw_exists (idx : List Id) (g : Gen) (env : Nat → Tick) (n : Nat)
    (hd : ∀ i j, i < j → j ≤ n → cand g env i ≠ cand g env j)
    (hl : (idx.filter (fun x => (cands g env n).contains x)).length ≤ n) :
    ∃ k, k ≤ n ∧ cand g env k ∉ idx := by
  apply Classical.byContradiction
  intro hno
  have hall : ∀ k, k ≤ n → cand g env k ∈ idx := by
    intro k hk
    apply Classical.byContradiction
    intro hk'
    exact hno ⟨k, hk, hk'⟩
  have hsub : ∀ c ∈ cands g env n, c ∈ idx.filter (fun x => (cands g env n).contains x) := by
    intro c hc
    rw [List.mem_filter]
    obtain ⟨j, hj, e⟩ := (mem_cands g env n c).1 hc
    exact ⟨e ▸ hall j hj, by simpa using hc⟩
  have := pigeon _ _ (cands_nodup g env n hd) hsub
  simp only [cands, List.length_map, List.length_range] at this hl
  omega

end Ibx.Lemmas.FileIds
