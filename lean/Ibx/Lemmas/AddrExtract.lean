import Ibx.Lemmas.AddrDom
/-
  Helper lemmas for C04, part 4: inversion / introduction of `extractMailbox` and `newRecipient`
  per naming mode, and the fixed-point facts for clean names.
-/
namespace Ibx.Lemmas.AddrExtract
open Ibx Ibx.Bytes Ibx.Model.Addr Ibx.Lemmas.AddrName Ibx.Lemmas.AddrLoop Ibx.Lemmas.AddrDom

theorem nameShape_inv {n : Bytes} (h : nameShapeOk n = true) :
    n ≠ [] ∧ n.head? ≠ some 46 ∧ n.getLast? ≠ some 46 ∧ hasDotDot n = false := by
  simp only [nameShapeOk, Bool.and_eq_true, Bool.not_eq_true', bne_iff_ne, ne_eq] at h
  exact ⟨fun hn => by simp [hn] at h, h.1.1.2, h.1.2, h.2⟩

theorem nameShape_dd {n : Bytes} (h : nameShapeOk n = true) : hasDotDot (46 :: n) = false := by
  obtain ⟨hne, hh, _, hd⟩ := nameShape_inv h
  cases n with
  | nil => exact absurd rfl hne
  | cons c r =>
    rw [hasDotDot_cons2, hd]
    have : c ≠ 46 := fun hc => hh (by simp [hc])
    simp [this]

theorem newRecipient_inv {ip : Bytes → Bool} {m : Naming} {a : Bytes} {r : Recipient}
    (h : newRecipient ip m a = some r) :
    ∃ l d, parseEmailAddress a = some (l, d) ∧ validateDomainPart ip d = true ∧
      r.localPart = l ∧ r.domain = d ∧ extractMailbox ip m a = some r.mailbox := by
  unfold newRecipient parseEmailAddressV at h
  cases hp : parseEmailAddress a with
  | none => simp [hp] at h
  | some ld =>
    obtain ⟨l, d⟩ := ld
    simp only [hp] at h
    split at h
    · simp at h
    · rename_i l' d' heq
      split at heq
      · rename_i hv
        injection heq with heq; injection heq with h1 h2; subst h1; subst h2
        cases he : extractMailbox ip m a with
        | none => simp [he] at h
        | some mb =>
          simp only [he] at h
          injection h with h; subst h
          exact ⟨l, d, rfl, hv, rfl, rfl, rfl⟩
      · simp at heq

/-- local naming: the name is `parseMailboxName` of the local part, of dot-atom shape -/
theorem extract_local_inv {ip : Bytes → Bool} {a n : Bytes} (h : extractMailbox ip .localN a = some n) :
    ∃ l d, parseEmailAddress a = some (l, d) ∧ parseMailboxName l = some n ∧ nameShapeOk n = true := by
  simp only [extractMailbox] at h
  cases hp : parseEmailAddress a with
  | none => rw [hp] at h; simp at h
  | some ld =>
    obtain ⟨l, d⟩ := ld
    rw [hp] at h; simp only at h
    cases hn : parseMailboxName l with
    | none => rw [hn] at h; simp at h
    | some n' =>
      rw [hn] at h; simp only at h
      split at h
      · simp at h
      · rename_i hs
        simp at h
        subst h; exact ⟨l, d, rfl, hn, by simpa using hs⟩

theorem extract_local_intro {ip : Bytes → Bool} {a l d n : Bytes} (hp : parseEmailAddress a = some (l, d))
    (hn : parseMailboxName l = some n) (hs : nameShapeOk n = true) :
    extractMailbox ip .localN a = some n := by
  simp [extractMailbox, hp, hn, hs]

/-- full naming -/
theorem extract_full_inv {ip : Bytes → Bool} {a mb : Bytes} (h : extractMailbox ip .fullN a = some mb) :
    ∃ l d n, parseEmailAddress a = some (l, d) ∧ parseMailboxName l = some n ∧ nameShapeOk n = true ∧
      ((d = [] ∧ mb = n) ∨
       (d ≠ [] ∧ validateDomainPart ip d = true ∧ mb = n ++ 64 :: canonicalDomain d)) := by
  simp only [extractMailbox] at h
  cases hp : parseEmailAddress a with
  | none => rw [hp] at h; simp at h
  | some ld =>
    obtain ⟨l, d⟩ := ld
    rw [hp] at h; simp only at h
    cases hn : parseMailboxName l with
    | none => rw [hn] at h; simp at h
    | some n' =>
      rw [hn] at h; simp only at h
      split at h
      · simp at h
      · rename_i hs
        split at h
        · rename_i hm; simp at hm
        · split at h
          · rename_i hd
            simp at h; subst h
            exact ⟨l, d, n', rfl, hn, by simpa using hs, Or.inl ⟨by simpa using hd, rfl⟩⟩
          · rename_i hd
            split at h
            · rename_i hv
              simp at h; subst h
              exact ⟨l, d, n', rfl, hn, by simpa using hs, Or.inr ⟨by simpa using hd, hv, by simp⟩⟩
            · simp at h

theorem extract_full_intro {ip : Bytes → Bool} {a l d n : Bytes} (hp : parseEmailAddress a = some (l, d))
    (hn : parseMailboxName l = some n) (hs : nameShapeOk n = true) (hd : d ≠ [])
    (hv : validateDomainPart ip d = true) :
    extractMailbox ip .fullN a = some (n ++ 64 :: canonicalDomain d) := by
  simp [extractMailbox, hp, hn, hs, hd, hv]

theorem extract_full_intro_nodomain {ip : Bytes → Bool} {a l n : Bytes}
    (hp : parseEmailAddress a = some (l, [])) (hn : parseMailboxName l = some n)
    (hs : nameShapeOk n = true) : extractMailbox ip .fullN a = some n := by
  simp [extractMailbox, hp, hn, hs]

/-- domain naming, on an address with a domain part: the name is the canonical domain -/
theorem extract_domain_at {ip : Bytes → Bool} {a l d mb : Bytes}
    (hp : parseEmailAddress a = some (l, d)) (hd : d ≠ [])
    (h : extractMailbox ip .domainN a = some mb) :
    mb = canonicalDomain d ∧ validateDomainPart ip d = true := by
  have h91 := pea_head hp
  have hbr : (!a.isEmpty && a.head? == some 91 && a.getLast? == some 93) = false := by
    have : (a.head? == some 91) = false := by simpa using h91
    simp [this]
  have hde : d.isEmpty = false := by cases d <;> simp_all
  simp only [extractMailbox, extractDomainMailbox, hbr, hp] at h
  split at h
  · simp at h
  · rename_i l0 d0 heq
    simp only [Bool.false_eq_true, if_false, Option.some.injEq, Prod.mk.injEq] at heq
    obtain ⟨rfl, rfl⟩ := heq
    rw [hde] at h
    simp only [Bool.false_eq_true, if_false] at h
    split at h
    · simp at h
    · split at h
      · rename_i hv
        injection h with h; exact ⟨h.symm, hv⟩
      · simp at h

theorem extract_domain_intro {ip : Bytes → Bool} {a l d : Bytes}
    (hp : parseEmailAddress a = some (l, d)) (hd : d ≠ [])
    (hl : l = [] ∨ ∃ n, parseMailboxName l = some n) (hv : validateDomainPart ip d = true) :
    extractMailbox ip .domainN a = some (canonicalDomain d) := by
  have h91 := pea_head hp
  have hbr : (!a.isEmpty && a.head? == some 91 && a.getLast? == some 93) = false := by
    have : (a.head? == some 91) = false := by simpa using h91
    simp [this]
  have hde : d.isEmpty = false := by cases d <;> simp_all
  simp only [extractMailbox, extractDomainMailbox, hbr, hp]
  rcases hl with rfl | ⟨n, hn⟩
  · simp [hv, hd]
  · cases l with
    | nil => simp [hv, hd]
    | cons c r => simp [hn, hv, hd]

/-- domain naming on a bare bracketed name (the REST / web lookup of an IP-literal mailbox) -/
theorem extract_domain_bracket {ip : Bytes → Bool} {x : Bytes} (hne : x ≠ [])
    (hh : x.head? = some 91) (hl : x.getLast? = some 93) (hv : validateDomainPart ip x = true) :
    extractMailbox ip .domainN x = some (canonicalDomain x) := by
  have hbr : (!x.isEmpty && x.head? == some 91 && x.getLast? == some 93) = true := by
    cases x <;> simp_all
  have hde : x.isEmpty = false := by cases x <;> simp_all
  simp only [extractMailbox, extractDomainMailbox, hbr]
  simp [hne, hv]

/-- domain naming on a bare name that parses as a local part with no domain -/
theorem extract_domain_bare {ip : Bytes → Bool} {x : Bytes}
    (hp : parseEmailAddress x = some (x, [])) (hn : parseMailboxName x = some x)
    (hv : validateDomainPart ip x = true) :
    extractMailbox ip .domainN x = some (canonicalDomain x) := by
  have h91 := pea_head hp
  have hbr : (!x.isEmpty && x.head? == some 91 && x.getLast? == some 93) = false := by
    have : (x.head? == some 91) = false := by simpa using h91
    simp [this]
  simp only [extractMailbox, extractDomainMailbox, hbr, hp]
  cases x with
  | nil => simp [parseMailboxName] at hn
  | cons c r => simp [hn, hv]

theorem head_of_dd {n : Bytes} (hd : hasDotDot (46 :: n) = false) : n.head? ≠ some 46 := by
  cases n with
  | nil => simp
  | cons c r =>
    rw [hasDotDot_cons2] at hd
    simp only [Bool.or_eq_false_iff, Bool.and_eq_false_iff, beq_eq_false_iff_ne] at hd
    intro h; simp at h; omega

theorem head_ne_64 {n : Bytes} (hc : ∀ c ∈ n, isNameB c = true) : n.head? ≠ some 64 := by
  cases n with
  | nil => simp
  | cons c r =>
    intro h; simp at h
    exact (isNameB_ne (hc c (by simp))).2.1 h

/-- a string over the name alphabet without leading period and without ".." parses as itself,
    with no domain -/
theorem clean_pea {n : Bytes} (hc : ∀ c ∈ n, isNameB c = true) (hd : hasDotDot (46 :: n) = false)
    (hne : n ≠ []) (hlen : n.length ≤ 320) : parseEmailAddress n = some (n, []) := by
  rw [pea_direct hne hlen (head_ne_64 hc) (head_of_dd hd)]
  have := parseLoop_plain_end n initSt (fun c h => isNameB_plain (hc c h)) hd rfl rfl
  simpa [initSt] using this

/-- a clean name followed by '@' and anything: the local part is the name, the rest the domain -/
theorem clean_pea_at {n d : Bytes} (hc : ∀ c ∈ n, isNameB c = true) (hs : nameShapeOk n = true)
    (hl : n.length ≤ 128) (hlen : n.length + 1 + d.length ≤ 320) :
    parseEmailAddress (n ++ 64 :: d) = some (n, d) := by
  obtain ⟨hne, _, hlast, _⟩ := nameShape_inv hs
  have hdd := nameShape_dd hs
  have hne' : n ++ 64 :: d ≠ [] := by simp
  have hh : (n ++ 64 :: d).head? = n.head? := by cases n <;> simp_all
  rw [pea_direct hne' (by simp; omega) (by rw [hh]; exact head_ne_64 hc)
    (by rw [hh]; exact head_of_dd hdd)]
  have hl' : (n.getLast?).getD initSt.prev ≠ 46 := by
    cases hg : n.getLast? with
    | none => simp [List.getLast?_eq_none_iff] at hg; exact absurd hg hne
    | some c => intro h; simp at h; exact hlast (by rw [hg, h])
  have := parseLoop_plain_at n d initSt (fun c h => isNameB_plain (hc c h)) hdd rfl rfl
    (by simp [initSt]; omega) hl'
  simpa [initSt] using this

/-- the mailbox name as a function of the cleaned local part and the domain -/
def nameOf (m : Naming) (n d : Bytes) : Bytes :=
  match m with
  | .localN => n
  | .fullN => n ++ 64 :: canonicalDomain d
  | .domainN => canonicalDomain d

/-- everything `NewRecipient` accepts: the address splits at an unquoted '@' into a local part and a
    valid non-empty domain; outside domain naming the local part cleans to a dot-atom `n`; the mailbox
    is `nameOf m n d` -/
theorem mailbox_shape {ip : Bytes → Bool} {m : Naming} {a : Bytes} {r : Recipient}
    (h : newRecipient ip m a = some r) :
    ∃ l d, parseEmailAddress a = some (l, d) ∧ d ≠ [] ∧ validateDomainPart ip d = true ∧
      r.localPart = l ∧ r.domain = d ∧
      ((m = .domainN ∧ r.mailbox = canonicalDomain d) ∨
       (m ≠ .domainN ∧ ∃ n, parseMailboxName l = some n ∧ nameShapeOk n = true ∧
          r.mailbox = nameOf m n d)) := by
  obtain ⟨l, d, hp, hv, hl, hdm, he⟩ := newRecipient_inv h
  have hd : d ≠ [] := (vdp_inv hv).1
  refine ⟨l, d, hp, hd, hv, hl, hdm, ?_⟩
  cases m with
  | domainN => exact Or.inl ⟨rfl, (extract_domain_at hp hd he).1⟩
  | localN =>
    obtain ⟨l', d', hp', hn, hs⟩ := extract_local_inv he
    rw [hp] at hp'; injection hp' with hp'; injection hp' with h1 h2; subst h1; subst h2
    exact Or.inr ⟨by simp, _, hn, hs, rfl⟩
  | fullN =>
    obtain ⟨l', d', n, hp', hn, hs, hc⟩ := extract_full_inv he
    rw [hp] at hp'; injection hp' with hp'; injection hp' with h1 h2; subst h1; subst h2
    rcases hc with ⟨hd0, _⟩ | ⟨_, _, hmb⟩
    · exact absurd hd0 hd
    · exact Or.inr ⟨by simp, n, hn, hs, hmb⟩

/-- the same for the read side (`ExtractMailbox` alone, no RCPT-time domain validation): on a string
    with a domain part, whatever name comes back has the shape `nameOf`; in full and domain naming the
    domain was validated -/
theorem extract_shape {ip : Bytes → Bool} {m : Naming} {x l d mb : Bytes}
    (hp : parseEmailAddress x = some (l, d)) (hd : d ≠ []) (he : extractMailbox ip m x = some mb) :
    (m = .domainN ∧ mb = canonicalDomain d ∧ validateDomainPart ip d = true) ∨
    (m ≠ .domainN ∧ ∃ n, parseMailboxName l = some n ∧ nameShapeOk n = true ∧ mb = nameOf m n d ∧
       (m = .fullN → validateDomainPart ip d = true)) := by
  cases m with
  | domainN => exact Or.inl ⟨rfl, extract_domain_at hp hd he⟩
  | localN =>
    obtain ⟨l', d', hp', hn, hs⟩ := extract_local_inv he
    rw [hp] at hp'; injection hp' with hp'; injection hp' with h1 h2; subst h1; subst h2
    exact Or.inr ⟨by simp, _, hn, hs, rfl, by simp⟩
  | fullN =>
    obtain ⟨l', d', n, hp', hn, hs, hc⟩ := extract_full_inv he
    rw [hp] at hp'; injection hp' with hp'; injection hp' with h1 h2; subst h1; subst h2
    rcases hc with ⟨hd0, _⟩ | ⟨_, hv, hmb⟩
    · exact absurd hd0 hd
    · exact Or.inr ⟨by simp, n, hn, hs, hmb, fun _ => hv⟩

end Ibx.Lemmas.AddrExtract
