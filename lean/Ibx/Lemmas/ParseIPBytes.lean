import Ibx.Lemmas.ParseIPv4
import Ibx.Lemmas.ParseIPShape
/-
  Helper lemmas for the net.ParseIP model, part 6: the value — `parseIPv` returns exactly 16 bytes.
-/
namespace Ibx.Lemmas.ParseIPBytes
open Ibx Ibx.Bytes Ibx.Model.ParseIP Ibx.Lemmas.ParseIPShape Ibx.Lemmas.ParseIPv4

theorem hexScan_acc {s : Bytes} {off acc o a : Nat} {r : Bytes} (h : hexScan s off acc = some (o, a, r))
    (hacc : acc ≤ 65535) : a ≤ 65535 := by
  induction s generalizing off acc with
  | nil =>
    simp only [hexScan, Option.some.injEq, Prod.mk.injEq] at h
    omega
  | cons c t ih =>
    simp only [hexScan] at h
    split at h
    · split at h
      · cases h
      · split at h
        · cases h
        · exact ih h (by omega)
    · simp only [Option.some.injEq, Prod.mk.injEq] at h
      omega

/-- bytes written, `i`, and the recorded ellipsis stay consistent through the loop -/
structure Good (i : Nat) (ip : List Nat) (ell : Option Nat) : Prop where
  len : ip.length = i
  le : i ≤ 16
  byte : ∀ x ∈ ip, x < 256
  ell : ∀ e, ell = some e → e ≤ i

theorem v6Loop_good {n : Nat} {s : Bytes} {ip : List Nat} {ell : Option Nat} {o : V6Out}
    (h : v6Loop n s ip ell = some o) (hn : n ≤ 8) (hg : Good (idx n) ip ell) : Good o.i o.ip o.ellipsis := by
  induction n generalizing s ip ell with
  | zero =>
    simp only [v6Loop, Option.some.injEq] at h
    subst h
    exact hg
  | succ n ih =>
    obtain ⟨g1, g2, g3, g4⟩ := hg
    simp only [idx] at g1 g2 g4
    simp only [v6Loop] at h
    cases hs : hexScan s 0 0 with
    | none => rw [hs] at h; cases h
    | some t =>
      obtain ⟨off, acc, rest⟩ := t
      rw [hs] at h
      have hacc := hexScan_acc hs (by omega)
      simp only at h
      split at h
      · cases h
      · split at h
        · split at h
          · cases h
          · split at h
            · cases h
            · rename_i hfit
              cases hp : parseIPv4Fields s with
              | none => rw [hp] at h; cases h
              | some f =>
                rw [hp] at h
                simp only [Option.some.injEq] at h
                subst h
                obtain ⟨_, _, hf4, hfv⟩ := parseIPv4Fields_bytes hp
                refine ⟨by simp [g1, hf4], by simp only; omega, ?_, fun e he => by have := g4 e he; simp only; omega⟩
                intro x hx
                rcases List.mem_append.mp hx with hx | hx
                · exact g3 x hx
                · have := hfv x hx; omega
        · have hip' : Good (16 - 2 * (n + 1) + 2) (ip ++ [acc / 256, acc % 256]) ell := by
            refine ⟨by simp [g1], by omega, ?_, fun e he => by have := g4 e he; omega⟩
            intro x hx
            simp only [List.mem_append, List.mem_cons, List.not_mem_nil, or_false] at hx
            rcases hx with hx | rfl | rfl
            · exact g3 x hx
            · omega
            · omega
          have hidx : 16 - 2 * (n + 1) + 2 = idx n := by simp only [idx]; omega
          cases hsep : sepStep rest (16 - 2 * (n + 1) + 2) ell with
          | err => rw [hsep] at h; cases h
          | stop e =>
            rw [hsep] at h
            simp only [Option.some.injEq] at h
            subst h
            rcases sepStep_stop hsep with ⟨_, rfl⟩ | ⟨_, _, rfl⟩
            · exact hip'
            · exact ⟨hip'.1, hip'.2, hip'.3, fun e he => by simp only [Option.some.injEq] at he; simp only; omega⟩
          | next s' e =>
            rw [hsep] at h
            rcases sepStep_next hsep with ⟨_, _, _, rfl⟩ | ⟨_, _, _, rfl⟩
            · exact ih h (by omega) (hidx ▸ hip')
            · refine ih h (by omega) (hidx ▸ ⟨hip'.1, hip'.2, hip'.3, ?_⟩)
              intro e he
              simp only [Option.some.injEq] at he
              omega

theorem v6Finish_bytes {o : V6Out} {b : List Nat} (hg : Good o.i o.ip o.ellipsis) (h : v6Finish o = some b) :
    b.length = 16 ∧ ∀ x ∈ b, x < 256 := by
  obtain ⟨g1, g2, g3, g4⟩ := hg
  unfold v6Finish at h
  split at h
  · cases h
  · split at h
    · cases he : o.ellipsis with
      | none => rw [he] at h; cases h
      | some e =>
        rw [he] at h
        simp only [Option.some.injEq] at h
        subst h
        have := g4 e he
        refine ⟨by simp [g1]; omega, ?_⟩
        intro x hx
        simp only [List.mem_append, List.mem_replicate] at hx
        rcases hx with (hx | ⟨_, rfl⟩) | hx
        · exact g3 x (List.mem_of_mem_take hx)
        · omega
        · exact g3 x (List.mem_of_mem_drop hx)
    · split at h
      · cases h
      · simp only [Option.some.injEq] at h
        subst h
        exact ⟨by omega, g3⟩

theorem v6Body_bytes {s : Bytes} {ell : Option Nat} {b : List Nat} (hell : ell = none ∨ ell = some 0)
    (h : v6Body s ell = some b) : b.length = 16 ∧ ∀ x ∈ b, x < 256 := by
  unfold v6Body at h
  cases hl : v6Loop 8 s [] ell with
  | none => rw [hl] at h; cases h
  | some o =>
    rw [hl] at h
    refine v6Finish_bytes (v6Loop_good hl (by omega) ⟨rfl, by simp [idx], by simp, ?_⟩) h
    intro e he
    rcases hell with rfl | rfl
    · cases he
    · simp only [Option.some.injEq] at he; omega

/-- `net.ParseIP` returns nil or exactly 16 bytes -/
theorem parseIPv_bytes {s : Bytes} {b : List Nat} (h : parseIPv s = some b) : b.length = 16 ∧ ∀ x ∈ b, x < 256 := by
  unfold parseIPv at h
  cases ha : parseAddr s with
  | none => rw [ha] at h; cases h
  | some a =>
    rw [ha] at h
    simp only at h
    split at h
    · cases h
    · simp only [Option.some.injEq] at h
      subst h
      unfold parseAddr at ha
      simp only at ha
      split at ha
      · cases hp : parseIPv4Fields s with
        | none => rw [hp] at ha; cases ha
        | some f =>
          rw [hp] at ha
          simp only [Option.map_some, Option.some.injEq] at ha
          subst ha
          obtain ⟨_, _, hf4, hfv⟩ := parseIPv4Fields_bytes hp
          refine ⟨by simp [as16, hf4], ?_⟩
          intro x hx
          simp only [as16, if_true, List.mem_append] at hx
          rcases hx with hx | hx
          · simp only [List.mem_cons, List.not_mem_nil, or_false] at hx
            omega
          · have := hfv x hx; omega
      · split at ha
        · unfold parseIPv6 at ha
          simp only at ha
          split at ha
          · cases ha
          · cases hs : stripDC (List.takeWhile notPct s) with
            | none =>
              rw [hs] at ha
              simp only [Option.map_eq_some_iff] at ha
              obtain ⟨b, hb, rfl⟩ := ha
              exact v6Body_bytes (.inl rfl) hb
            | some s' =>
              rw [hs] at ha
              simp only at ha
              split at ha
              · simp only [Option.some.injEq] at ha
                subst ha
                simp only [as16]
                exact ⟨by simp, by intro x hx; simp at hx; omega⟩
              · simp only [Option.map_eq_some_iff] at ha
                obtain ⟨b, hb, rfl⟩ := ha
                exact v6Body_bytes (.inr rfl) hb
        · cases ha

end Ibx.Lemmas.ParseIPBytes
