import Ibx.Spec.Store
namespace Ibx.Lemmas.SmtpStore
open Ibx Ibx.Spec.Store

/-- the store after adding the messages `l` (mailbox, meta, source) one after the other -/
def addAll (c : Cfg) (s : Store) (l : List (Bytes × Meta × Bytes)) : Store :=
  l.foldl (fun st x => (step c st (.add x.1 x.2.1 x.2.2)).1) s

/-- what a listing shows apart from the ids: (meta, seen, source) -/
def view (m : Msg) : Meta × Bool × Bytes := (m.hdr, m.seen, m.source)

theorem limitEvict_zero (l : List Msg) : limitEvict 0 l = (l, []) := by
  cases l <;> simp [limitEvict]

theorem capEvict_zero (b : Bytes) (l : List Msg) : capEvict 0 b l = (l, []) := by
  simp [capEvict]

theorem dropOldest_filter_other (b b' : Bytes) (hne : b' ≠ b) (k : Nat) (l : List Msg) :
    ((dropOldest b k l).1).filter (inBox b') = l.filter (inBox b') := by
  induction l generalizing k with
  | nil => cases k <;> simp [dropOldest]
  | cons m l ih =>
    cases k with
    | zero => simp [dropOldest]
    | succ k =>
      by_cases hm : inBox b m = true
      · have hm' : inBox b' m = false := by
          simp only [inBox, beq_iff_eq] at hm
          simp only [inBox, beq_eq_false_iff_ne, ne_eq]
          intro h; exact hne (h.symm.trans hm)
        simp only [dropOldest, hm, if_true]
        rw [ih k]
        simp [hm']
      · simp only [dropOldest, hm]
        simp only [Bool.false_eq_true, if_false, List.filter_cons]
        rw [ih (k + 1)]

theorem capEvict_filter_other (cap : Nat) (b b' : Bytes) (hne : b' ≠ b) (l : List Msg) :
    ((capEvict cap b l).1).filter (inBox b') = l.filter (inBox b') := by
  simp only [capEvict]
  split
  · exact dropOldest_filter_other b b' hne _ l
  · rfl

theorem step_add_msgs (c : Cfg) (hl : c.limit = 0) (s : Store) (b : Bytes) (h : Meta) (src : Bytes) :
    (step c s (.add b h src)).1.msgs =
      (capEvict c.cap b (s.msgs ++ [{ box := b, id := s.next b + 1, hdr := h, seen := false, source := src }])).1 := by
  simp [step, hl, limitEvict_zero]

/-- without cap and limit an add appends exactly one message -/
theorem add_noEvict_msgs (s : Store) (b : Bytes) (h : Meta) (src : Bytes) :
    (step ⟨0, 0⟩ s (.add b h src)).1.msgs = s.msgs ++ [{ box := b, id := s.next b + 1, hdr := h, seen := false, source := src }] := by
  rw [step_add_msgs _ rfl, capEvict_zero]

/-- with no store byte limit (any mailbox cap), an add to `b` leaves every OTHER mailbox's listing unchanged -/
theorem add_other_box (c : Cfg) (hl : c.limit = 0) (s : Store) (b b' : Bytes) (h : Meta) (src : Bytes) (hne : b' ≠ b) :
    listing (step c s (.add b h src)).1 b' = listing s b' := by
  unfold listing
  rw [step_add_msgs c hl, capEvict_filter_other _ _ _ hne, List.filter_append]
  have : inBox b' ({ box := b, id := s.next b + 1, hdr := h, seen := false, source := src } : Msg) = false := by
    simp only [inBox, beq_eq_false_iff_ne, ne_eq]
    intro e; exact hne e.symm
  simp [this]

theorem addAll_cons (c : Cfg) (s : Store) (x : Bytes × Meta × Bytes) (l : List (Bytes × Meta × Bytes)) :
    addAll c s (x :: l) = addAll c (step c s (.add x.1 x.2.1 x.2.2)).1 l := rfl

/-- without cap and limit: after adding `l`, mailbox `b` shows its old messages followed by exactly the added ones addressed to `b`, in order -/
theorem addAll_noEvict_listing (s : Store) (l : List (Bytes × Meta × Bytes)) (b : Bytes) :
    (listing (addAll ⟨0, 0⟩ s l) b).map view =
      (listing s b).map view ++ ((l.filter (fun x => x.1 == b)).map (fun x => (x.2.1, false, x.2.2))) := by
  induction l generalizing s with
  | nil => simp [addAll]
  | cons x l ih =>
    rw [addAll_cons, ih]
    have hstep : listing (step ⟨0, 0⟩ s (.add x.1 x.2.1 x.2.2)).1 b =
        listing s b ++ (if x.1 == b then [{ box := x.1, id := s.next x.1 + 1, hdr := x.2.1, seen := false, source := x.2.2 }] else []) := by
      unfold listing
      rw [add_noEvict_msgs, List.filter_append]
      by_cases hx : (x.1 == b) = true
      · simp [inBox, hx]
      · simp [inBox, hx]
    rw [hstep]
    by_cases hx : (x.1 == b) = true
    · simp [hx, view]
    · simp [hx]

/-- with no byte limit (any cap): mailboxes that receive nothing are unchanged -/
theorem addAll_other_box (c : Cfg) (hl : c.limit = 0) (s : Store) (l : List (Bytes × Meta × Bytes)) (b' : Bytes)
    (hb : ∀ x ∈ l, x.1 ≠ b') : listing (addAll c s l) b' = listing s b' := by
  induction l generalizing s with
  | nil => rfl
  | cons x l ih =>
    rw [addAll_cons, ih _ (fun y hy => hb y (List.mem_cons_of_mem _ hy))]
    exact add_other_box c hl s x.1 b' x.2.1 x.2.2 (fun e => hb x List.mem_cons_self e.symm)

end Ibx.Lemmas.SmtpStore
