import Ibx.Model.Pop3
/-
  Helper lemmas for C13 (POP3 session model): the selection loop, checked indexing, the argument checks,
  and what each command handler returns in a state satisfying the invariant.
-/
namespace Ibx.Lemmas.Pop3
open Ibx Ibx.Model.Pop3

/-! ### parseCmd never indexes out of range -/

theorem splitAux_ne_nil (l cur : Bytes) (acc : List Bytes) : splitAux l cur acc ≠ [] := by
  induction l generalizing cur acc with
  | nil => simp [splitAux]
  | cons c cs ih =>
    simp only [splitAux]
    split
    · exact ih _ _
    · exact ih _ _

theorem parseCmd_isSome (line : Bytes) : ∃ cmd args, parseCmd line = some (cmd, args) := by
  unfold parseCmd
  simp only
  split
  · exact ⟨_, _, rfl⟩
  · have := splitAux_ne_nil (trimRightCRLF line) [] []
    unfold splitSpaces
    cases h : splitAux (trimRightCRLF line) [] [] with
    | nil => exact absurd h this
    | cons w args => exact ⟨_, _, rfl⟩

/-! ### the selection loop `for i, msg := range msgs { if retain[i] == want {…} }` -/

/-- what the loop computes when no index is out of range -/
def sel {β : Type} (retain : List Bool) (want : Bool) (f : Nat → Msg → β) : List Msg → Nat → List β
  | [], _ => []
  | m :: ms, i =>
    if retain[i]? = some want then f i m :: sel retain want f ms (i + 1) else sel retain want f ms (i + 1)

theorem rangeSel_eq {β : Type} (retain : List Bool) (want : Bool) (f : Nat → Msg → β) (ms : List Msg) (i : Nat)
    (h : i + ms.length ≤ retain.length) : rangeSel retain want f ms i = some (sel retain want f ms i) := by
  induction ms generalizing i with
  | nil => simp [rangeSel, sel]
  | cons m ms ih =>
    have hi : i < retain.length := by simp at h; omega
    have h' : i + 1 + ms.length ≤ retain.length := by simp at h; omega
    simp only [rangeSel, sel, ih (i + 1) h', List.getElem?_eq_getElem hi]
    by_cases hw : retain[i] = want <;> simp [hw]

theorem sel_map {β γ : Type} (retain : List Bool) (want : Bool) (f : Nat → Msg → β) (g : β → γ) (ms : List Msg) (i : Nat) :
    sel retain want (fun i m => g (f i m)) ms i = (sel retain want f ms i).map g := by
  induction ms generalizing i with
  | nil => simp [sel]
  | cons m ms ih =>
    simp only [sel, ih]
    split <;> simp

theorem mem_sel {β : Type} (retain : List Bool) (want : Bool) (f : Nat → Msg → β) (ms : List Msg) (i : Nat) (x : β) :
    x ∈ sel retain want f ms i ↔ ∃ j m, ms[j]? = some m ∧ retain[i + j]? = some want ∧ x = f (i + j) m := by
  induction ms generalizing i with
  | nil => simp [sel]
  | cons m0 ms ih =>
    have key : (x ∈ sel retain want f ms (i + 1)) ↔
        ∃ j m, ms[j]? = some m ∧ retain[i + (j + 1)]? = some want ∧ x = f (i + (j + 1)) m := by
      rw [ih (i + 1)]
      constructor
      · rintro ⟨j, m, h1, h2, h3⟩
        refine ⟨j, m, h1, ?_, ?_⟩
        · have : i + (j + 1) = i + 1 + j := by omega
          rw [this]; exact h2
        · have : i + (j + 1) = i + 1 + j := by omega
          rw [this]; exact h3
      · rintro ⟨j, m, h1, h2, h3⟩
        refine ⟨j, m, h1, ?_, ?_⟩
        · have : i + 1 + j = i + (j + 1) := by omega
          rw [this]; exact h2
        · have : i + 1 + j = i + (j + 1) := by omega
          rw [this]; exact h3
    simp only [sel]
    constructor
    · intro hx
      split at hx
      · rename_i hr
        rcases List.mem_cons.mp hx with rfl | hx
        · exact ⟨0, m0, by simp, by simpa using hr, by simp⟩
        · obtain ⟨j, m, h1, h2, h3⟩ := key.mp hx
          exact ⟨j + 1, m, by simpa using h1, h2, h3⟩
      · obtain ⟨j, m, h1, h2, h3⟩ := key.mp hx
        exact ⟨j + 1, m, by simpa using h1, h2, h3⟩
    · rintro ⟨j, m, h1, h2, h3⟩
      cases j with
      | zero =>
        simp at h1 h2 h3
        subst h1
        rw [if_pos h2, h3]
        exact List.mem_cons_self
      | succ j =>
        have hx : x ∈ sel retain want f ms (i + 1) := key.mpr ⟨j, m, by simpa using h1, h2, h3⟩
        split
        · exact List.mem_cons_of_mem _ hx
        · exact hx

/-- the selected numbers are strictly increasing (so each message appears at most once, in snapshot order) -/
theorem sel_fst_sorted {β : Type} (retain : List Bool) (want : Bool) (g : Msg → β) (ms : List Msg) (i : Nat) :
    ((sel retain want (fun i m => (i + 1, g m)) ms i).map (·.1)).Pairwise (· < ·) := by
  induction ms generalizing i with
  | nil => simp [sel]
  | cons m ms ih =>
    simp only [sel]
    split
    · simp only [List.map_cons, List.pairwise_cons]
      refine ⟨?_, ih (i + 1)⟩
      intro n hn
      obtain ⟨⟨n', b⟩, hmem, rfl⟩ := List.mem_map.mp hn
      obtain ⟨j, m', _, _, h3⟩ := (mem_sel retain want _ ms (i + 1) _).mp hmem
      simp at h3
      simp [h3.1]; omega
    · exact ih (i + 1)

theorem sel_length_count {β : Type} (retain : List Bool) (f : Nat → Msg → β) (ms : List Msg) (i : Nat)
    (h : i + ms.length = retain.length) :
    (sel retain true f ms i).length = (retain.drop i).count true := by
  induction ms generalizing i with
  | nil =>
    have : retain.drop i = [] := List.drop_eq_nil_of_le (by simp at h; omega)
    simp [sel, this]
  | cons m ms ih =>
    have hi : i < retain.length := by simp at h; omega
    have h' : i + 1 + ms.length = retain.length := by simp at h; omega
    rw [List.drop_eq_getElem_cons hi]
    simp only [sel, List.getElem?_eq_getElem hi]
    by_cases hw : retain[i] = true
    · simp [hw, ih (i + 1) h']
    · have hf : retain[i] = false := by simpa using hw
      simp [hf, ih (i + 1) h']

/-- when the emitted value ignores the index, the loop is a filter over the zipped lists -/
theorem sel_eq_zip_filter {β : Type} (retain : List Bool) (want : Bool) (g : Msg → β) (ms : List Msg) (i : Nat)
    (h : i + ms.length ≤ retain.length) :
    sel retain want (fun _ m => g m) ms i =
      ((ms.zip (retain.drop i)).filter (fun p => p.2 == want)).map (fun p => g p.1) := by
  induction ms generalizing i with
  | nil => simp [sel]
  | cons m ms ih =>
    have hi : i < retain.length := by simp at h; omega
    have h' : i + 1 + ms.length ≤ retain.length := by simp at h; omega
    rw [List.drop_eq_getElem_cons hi]
    simp only [sel, List.getElem?_eq_getElem hi, List.zip_cons_cons, List.filter_cons, ih (i + 1) h']
    by_cases hw : retain[i] = want <;> simp [hw]

theorem sel_replicate {β : Type} (n : Nat) (f : Nat → Msg → β) (ms : List Msg) (i : Nat) (h : i + ms.length ≤ n)
    (x : β) : x ∈ sel (List.replicate n true) true f ms i ↔ ∃ j m, ms[j]? = some m ∧ x = f (i + j) m := by
  rw [mem_sel]
  constructor
  · rintro ⟨j, m, h1, _, h3⟩; exact ⟨j, m, h1, h3⟩
  · rintro ⟨j, m, h1, h3⟩
    refine ⟨j, m, h1, ?_, h3⟩
    have hj : j < ms.length := by
      have := List.getElem?_eq_some_iff.mp h1
      exact this.1
    simp [List.getElem?_replicate]; omega

/-! ### `retain[msgNum-1] = false; msgCount--` -/

theorem count_set_false (l : List Bool) (i : Nat) (h : l[i]? = some true) :
    (l.set i false).count true + 1 = l.count true := by
  induction l generalizing i with
  | nil => simp at h
  | cons a l ih =>
    cases i with
    | zero => simp at h; subst h; simp
    | succ i =>
      simp at h
      have := ih i h
      cases a <;> simp <;> omega

/-! ### checked indexing and the argument checks -/

theorem idx?_some {α : Type} (l : List α) (n : Int) (h1 : 1 ≤ n) (h2 : n ≤ (l.length : Int)) :
    ∃ x, idx? l n = some x ∧ l[(n - 1).toNat]? = some x := by
  unfold idx?
  have hlt : (n - 1).toNat < l.length := by omega
  rw [if_neg (by omega)]
  exact ⟨l[(n - 1).toNat], by simp, by simp⟩

theorem msgArg_range (s : St) (a : Bytes) (n : Int) (h : msgArg s a = some n) :
    1 ≤ n ∧ n ≤ (s.msgs.length : Int) := by
  unfold msgArg at h
  split at h
  · simp at h
  · split at h
    · simp at h
    · split at h
      · simp at h
      · simp at h; subst h; omega

/-! ### the invariant -/

/-- `retain` is as long as the snapshot and `msgCount` counts the unmarked messages -/
def Inv (s : St) : Prop :=
  s.retain.length = s.msgs.length ∧ s.msgCount = ((s.retain.count true : Nat) : Int)

theorem inv_init : Inv St.init := by simp [Inv, St.init]

theorem inv_retainAll (s : St) : Inv (retainAll s) := by
  simp [Inv, retainAll]

/-- the retained entries of a state: (message number, message) for every unmarked message, in order -/
def retained (s : St) : List (Nat × Msg) := sel s.retain true (fun i m => (i + 1, m)) s.msgs 0

/-- the ids `processDeletes` would remove now -/
def markedIds (s : St) : List Bytes := sel s.retain false (fun _ m => m.id) s.msgs 0

theorem retained_length (s : St) (h : Inv s) : ((retained s).length : Int) = s.msgCount := by
  have := sel_length_count s.retain (fun i m => (i + 1, m)) s.msgs 0 (by simp [h.1])
  simp [retained, this, h.2]

theorem mem_retained (s : St) (n : Nat) (m : Msg) :
    (n, m) ∈ retained s ↔ 1 ≤ n ∧ s.msgs[n - 1]? = some m ∧ s.retain[n - 1]? = some true := by
  unfold retained
  rw [mem_sel]
  constructor
  · rintro ⟨j, m', h1, h2, h3⟩
    simp at h3
    obtain ⟨rfl, rfl⟩ := h3
    simp at h2
    simp [h1, h2]
  · rintro ⟨h1, h2, h3⟩
    refine ⟨n - 1, m, h2, by simpa using h3, ?_⟩
    simp; omega

/-! ### what each TRANSACTION command returns under the invariant -/

theorem cmdStat_eq (s : St) (h : Inv s) :
    cmdStat s [] = .ok s (.okStat (retained s).length ((retained s).map (·.2.size)).sum) [] := by
  unfold cmdStat
  rw [if_neg (by simp), rangeSel_eq _ _ _ _ _ (by simp [h.1])]
  have := sel_map s.retain true (fun i m => (i + 1, m)) (fun (e : Nat × Msg) => e.2.size) s.msgs 0
  simp only at this
  simp only [this, retained, List.length_map]

theorem cmdList_nil (s : St) (h : Inv s) :
    cmdList s [] = .ok s (.okList s.msgCount ((retained s).map fun e => (e.1, e.2.size))) [] := by
  unfold cmdList
  rw [if_neg (by simp), if_neg (by simp), rangeSel_eq _ _ _ _ _ (by simp [h.1])]
  have := sel_map s.retain true (fun i m => (i + 1, m)) (fun (e : Nat × Msg) => (e.1, e.2.size)) s.msgs 0
  simp only at this
  simp only [this, retained]

theorem cmdUidl_nil (s : St) (h : Inv s) :
    cmdUidl s [] = .ok s (.okUidl s.msgCount ((retained s).map fun e => (e.1, e.2.id))) [] := by
  unfold cmdUidl
  rw [if_neg (by simp), if_neg (by simp), rangeSel_eq _ _ _ _ _ (by simp [h.1])]
  have := sel_map s.retain true (fun i m => (i + 1, m)) (fun (e : Nat × Msg) => (e.1, e.2.id)) s.msgs 0
  simp only at this
  simp only [this, retained]

/-- both lookups of a checked message number succeed -/
theorem lookups (s : St) (h : Inv s) (a : Bytes) (n : Int) (hn : msgArg s a = some n) :
    ∃ r m, idx? s.retain n = some r ∧ idx? s.msgs n = some m ∧
      s.retain[(n - 1).toNat]? = some r ∧ s.msgs[(n - 1).toNat]? = some m ∧ 1 ≤ n := by
  obtain ⟨h1, h2⟩ := msgArg_range s a n hn
  obtain ⟨r, hr, hr'⟩ := idx?_some s.retain n h1 (by rw [h.1]; exact h2)
  obtain ⟨m, hm, hm'⟩ := idx?_some s.msgs n h1 h2
  exact ⟨r, m, hr, hm, hr', hm', h1⟩

theorem cmdList_one (s : St) (h : Inv s) (a : Bytes) (n : Int) (hn : msgArg s a = some n) :
    ∃ r m, s.retain[(n - 1).toNat]? = some r ∧ s.msgs[(n - 1).toNat]? = some m ∧
      cmdList s [a] = .ok s (if r then .okListOne n m.size else .err) [] := by
  obtain ⟨r, m, hr, hm, hr', hm', _⟩ := lookups s h a n hn
  refine ⟨r, m, hr', hm', ?_⟩
  unfold cmdList
  simp only [List.length_singleton, Nat.lt_irrefl, if_false, if_true, hn, hr, hm]
  cases r <;> simp

theorem cmdUidl_one (s : St) (h : Inv s) (a : Bytes) (n : Int) (hn : msgArg s a = some n) :
    ∃ r m, s.retain[(n - 1).toNat]? = some r ∧ s.msgs[(n - 1).toNat]? = some m ∧
      cmdUidl s [a] = .ok s (if r then .okUidlOne n m.id else .err) [] := by
  obtain ⟨r, m, hr, hm, hr', hm', _⟩ := lookups s h a n hn
  refine ⟨r, m, hr', hm', ?_⟩
  unfold cmdUidl
  simp only [List.length_singleton, Nat.lt_irrefl, if_false, if_true, hn, hr, hm]
  cases r <;> simp

theorem cmdDele_one (s : St) (h : Inv s) (a : Bytes) (n : Int) (hn : msgArg s a = some n) :
    ∃ r, s.retain[(n - 1).toNat]? = some r ∧
      cmdDele s [a] = (if r then
        .ok { s with retain := s.retain.set (n - 1).toNat false, msgCount := s.msgCount - 1 } (.okDele n) []
        else .ok s .err []) := by
  obtain ⟨r, m, hr, _, hr', _, _⟩ := lookups s h a n hn
  refine ⟨r, hr', ?_⟩
  unfold cmdDele
  simp only [List.length_singleton, ne_eq, not_true_eq_false, if_false, hn, hr]
  cases r <;> simp

theorem cmdRetr_one (s : St) (h : Inv s) (a : Bytes) (n : Int) (hn : msgArg s a = some n) :
    ∃ m, s.msgs[(n - 1).toNat]? = some m ∧
      cmdRetr s [a] = .ok s (.okRetr m.size (retrLines m.src)) [] := by
  obtain ⟨_, m, _, hm, _, hm', _⟩ := lookups s h a n hn
  refine ⟨m, hm', ?_⟩
  unfold cmdRetr
  simp only [List.length_singleton, ne_eq, not_true_eq_false, if_false, hn, hm]

theorem cmdQuit_eq (s : St) (h : Inv s) :
    cmdQuit s = .ok { s with phase := .quit } .ok (markedIds s) := by
  unfold cmdQuit
  rw [rangeSel_eq _ _ _ _ _ (by simp [h.1])]
  rfl

/-! ### every handler answers (no panic), keeps the invariant and the snapshot -/

/-- the outcome is a reply (not a panic) whose new state satisfies `P` -/
def Good (P : St → Reply → List Bytes → Prop) : Outcome → Prop
  | .ok s r rm => P s r rm
  | _ => False

/-- what one TRANSACTION command may do to the state -/
def TransPost (s : St) (s' : St) (_ : Reply) (rm : List Bytes) : Prop :=
  Inv s' ∧ s'.msgs = s.msgs ∧ s'.user = s.user ∧
    ((s'.phase = s.phase ∧ rm = []) ∨ (s' = { s with phase := .quit } ∧ rm = markedIds s))

private theorem post_same' (s : St) (h : Inv s) (r : Reply) : TransPost s s r [] :=
  ⟨h, rfl, rfl, Or.inl ⟨rfl, rfl⟩⟩

private theorem post_same (s : St) (h : Inv s) (r : Reply) : Good (TransPost s) (.ok s r []) :=
  post_same' s h r

theorem cmdStat_good (s : St) (h : Inv s) (args : List Bytes) : Good (TransPost s) (cmdStat s args) := by
  unfold cmdStat
  split
  · exact post_same s h _
  · rw [rangeSel_eq _ _ _ _ _ (by simp [h.1])]; exact post_same s h _

theorem cmdList_good (s : St) (h : Inv s) (args : List Bytes) : Good (TransPost s) (cmdList s args) := by
  match args with
  | [] => rw [cmdList_nil s h]; exact post_same s h _
  | [a] =>
    cases hn : msgArg s a with
    | none => simp [cmdList, hn]; exact post_same s h _
    | some n =>
      obtain ⟨r, m, _, _, he⟩ := cmdList_one s h a n hn
      rw [he]; exact post_same s h _
  | _ :: _ :: _ => simp [cmdList]; exact post_same s h _

theorem cmdUidl_good (s : St) (h : Inv s) (args : List Bytes) : Good (TransPost s) (cmdUidl s args) := by
  match args with
  | [] => rw [cmdUidl_nil s h]; exact post_same s h _
  | [a] =>
    cases hn : msgArg s a with
    | none => simp [cmdUidl, hn]; exact post_same s h _
    | some n =>
      obtain ⟨r, m, _, _, he⟩ := cmdUidl_one s h a n hn
      rw [he]; exact post_same s h _
  | _ :: _ :: _ => simp [cmdUidl]; exact post_same s h _

theorem cmdDele_good (s : St) (h : Inv s) (args : List Bytes) : Good (TransPost s) (cmdDele s args) := by
  match args with
  | [] => simp [cmdDele]; exact post_same s h _
  | [a] =>
    cases hn : msgArg s a with
    | none => simp [cmdDele, hn]; exact post_same s h _
    | some n =>
      obtain ⟨r, hr, he⟩ := cmdDele_one s h a n hn
      rw [he]
      cases r with
      | false => exact post_same s h _
      | true =>
        have hc := count_set_false s.retain _ hr
        refine ⟨⟨by simp [h.1], ?_⟩, rfl, rfl, Or.inl ⟨rfl, rfl⟩⟩
        simp only [h.2]
        omega
  | _ :: _ :: _ => simp [cmdDele]; exact post_same s h _

theorem cmdRetr_good (s : St) (h : Inv s) (args : List Bytes) : Good (TransPost s) (cmdRetr s args) := by
  match args with
  | [] => simp [cmdRetr]; exact post_same s h _
  | [a] =>
    cases hn : msgArg s a with
    | none => simp [cmdRetr, hn]; exact post_same s h _
    | some n =>
      obtain ⟨m, _, he⟩ := cmdRetr_one s h a n hn
      rw [he]; exact post_same s h _
  | _ :: _ :: _ => simp [cmdRetr]; exact post_same s h _

theorem cmdTop_good (s : St) (h : Inv s) (args : List Bytes) : Good (TransPost s) (cmdTop s args) := by
  match args with
  | [] => simp [cmdTop]; exact post_same s h _
  | [_] => simp [cmdTop]; exact post_same s h _
  | [a, b] =>
    cases hn : msgArg s a with
    | none => simp [cmdTop, hn]; exact post_same s h _
    | some n =>
      obtain ⟨_, m, _, hm, _, _, _⟩ := lookups s h a n hn
      cases hk : parseInt32 b with
      | none => simp [cmdTop, hn, hk]; exact post_same s h _
      | some k =>
        by_cases hneg : k < 0
        · simp [cmdTop, hn, hk, hneg]; exact post_same s h _
        · simp [cmdTop, hn, hk, hneg, hm]; exact post_same s h _
  | _ :: _ :: _ :: _ => simp [cmdTop]; exact post_same s h _

theorem transH_good (s : St) (h : Inv s) (v : Verb) (args : List Bytes) : Good (TransPost s) (transH s v args) := by
  cases v <;> simp only [transH]
  case stat => exact cmdStat_good s h args
  case list => exact cmdList_good s h args
  case uidl => exact cmdUidl_good s h args
  case dele => exact cmdDele_good s h args
  case retr => exact cmdRetr_good s h args
  case top => exact cmdTop_good s h args
  case quit => rw [cmdQuit_eq s h]; exact ⟨h, rfl, rfl, Or.inr ⟨rfl, rfl⟩⟩
  case noop => exact post_same s h _
  case rset => exact ⟨inv_retainAll s, rfl, rfl, Or.inl ⟨rfl, rfl⟩⟩
  all_goals exact post_same s h _

/-- what one AUTHORIZATION command may do -/
def AuthPost (store : Bytes → List Msg) (s : St) (s' : St) (r : Reply) (rm : List Bytes) : Prop :=
  Inv s' ∧ rm = [] ∧
    ((s'.phase = .auth ∧ s'.msgs = s.msgs ∧ s'.retain = s.retain ∧ s'.msgCount = s.msgCount) ∨
     (s'.phase = .quit ∧ s' = { s with phase := .quit }) ∨
     (s'.phase = .trans ∧ s'.msgs = store s'.user ∧ s'.retain = List.replicate s'.msgs.length true ∧
        r = .okLogin (s'.msgs.length : Int)))

theorem authH_good (store : Bytes → List Msg) (s : St) (h : Inv s) (hp : s.phase = .auth) (v : Verb)
    (args : List Bytes) : Good (AuthPost store s) (authH store s v args) := by
  have same : ∀ r, Good (AuthPost store s) (.ok s r []) := fun r => ⟨h, rfl, Or.inl ⟨hp, rfl, rfl, rfl⟩⟩
  cases v <;> simp only [authH]
  case quit => exact ⟨h, rfl, Or.inr (Or.inl ⟨rfl, rfl⟩)⟩
  case stls =>
    split
    · exact same _
    · split
      · exact same _
      · exact ⟨h, rfl, Or.inl ⟨hp, rfl, rfl, rfl⟩⟩
  case user =>
    match args with
    | [] => rw [if_neg (by simp)]; exact same _
    | a :: _ => rw [if_pos (by simp)]; exact ⟨h, rfl, Or.inl ⟨hp, rfl, rfl, rfl⟩⟩
  case pass =>
    split
    · exact same _
    · refine ⟨inv_retainAll _, rfl, Or.inr (Or.inr ⟨rfl, ?_, ?_, ?_⟩)⟩ <;> simp [loadMailbox, retainAll]
  case apop =>
    split
    · exact same _
    · match args with
      | [] => simp at *
      | a :: _ =>
        refine ⟨inv_retainAll _, rfl, Or.inr (Or.inr ⟨rfl, ?_, ?_, ?_⟩)⟩ <;> simp [loadMailbox, retainAll]
  all_goals exact same _

/-- one loop iteration in a live state: always a reply, never a panic or the "unexpected state" exit -/
theorem step_good (store : Bytes → List Msg) (s : St) (h : Inv s) (hq : s.phase ≠ .quit) (line : Bytes) :
    Good (fun s' r rm => (s.phase = .auth ∧ AuthPost store s s' r rm) ∨ (s.phase = .trans ∧ TransPost s s' r rm))
      (step store s line) := by
  obtain ⟨cmd, args, hpc⟩ := parseCmd_isSome line
  have same : ∀ r, (s.phase = .auth ∧ AuthPost store s s r []) ∨ (s.phase = .trans ∧ TransPost s s r []) := by
    intro r
    cases hp : s.phase with
    | auth => exact Or.inl ⟨rfl, h, rfl, Or.inl ⟨hp, rfl, rfl, rfl⟩⟩
    | trans => exact Or.inr ⟨rfl, post_same' s h r⟩
    | quit => exact absurd hp hq
  unfold step
  simp only [hpc]
  split
  · exact same _
  · split
    · exact same _
    · cases hv : verbOf cmd with
      | none => exact same _
      | some v =>
        cases hp : s.phase with
        | auth =>
          have := authH_good store s h hp v args
          simp only
          cases ho : authH store s v args with
          | ok s' r rm => rw [ho] at this; exact Or.inl ⟨by simp, this⟩
          | panic => rw [ho] at this; exact this
          | badState => rw [ho] at this; exact this
        | trans =>
          have := transH_good s h v args
          simp only
          cases ho : transH s v args with
          | ok s' r rm => rw [ho] at this; exact Or.inr ⟨by simp, this⟩
          | panic => rw [ho] at this; exact this
          | badState => rw [ho] at this; exact this
        | quit => exact absurd hp hq

/-- the same as an existence statement -/
theorem step_ok (store : Bytes → List Msg) (s : St) (h : Inv s) (hq : s.phase ≠ .quit) (line : Bytes) :
    ∃ s' r rm, step store s line = .ok s' r rm ∧
      ((s.phase = .auth ∧ AuthPost store s s' r rm) ∨ (s.phase = .trans ∧ TransPost s s' r rm)) := by
  have := step_good store s h hq line
  cases ho : step store s line with
  | ok s' r rm => rw [ho] at this; exact ⟨s', r, rm, rfl, this⟩
  | panic => rw [ho] at this; exact this.elim
  | badState => rw [ho] at this; exact this.elim

theorem post_inv {store : Bytes → List Msg} {s s' : St} {r : Reply} {rm : List Bytes}
    (h : (s.phase = .auth ∧ AuthPost store s s' r rm) ∨ (s.phase = .trans ∧ TransPost s s' r rm)) : Inv s' := by
  rcases h with ⟨_, h⟩ | ⟨_, h⟩
  · exact h.1
  · exact h.1

/-- once logged in, a loop iteration does not look at the store -/
theorem step_ignores_store (st1 st2 : Bytes → List Msg) (s : St) (hp : s.phase ≠ .auth) (line : Bytes) :
    step st1 s line = step st2 s line := by
  unfold step
  cases hph : s.phase with
  | auth => exact absurd hph hp
  | trans => rfl
  | quit => rfl

theorem run_quit (term : Term) (s : St) (hq : s.phase = .quit) (evs : List Ev) :
    run term s evs = ⟨[], [], .quit, s⟩ := by
  cases evs <;> simp [run, hq]

end Ibx.Lemmas.Pop3
