import Ibx.Lemmas.ScanMemInv
/-
  From the start of VisitMailboxes to its end: a message that was in a visited mailbox when the scan read the
  mailbox names, and is older than the cutoff, is either gone already or still ahead of the scan — its mailbox is yet
  to be visited, its GetMessages has not reached its critical section yet or has returned a slice that contains it,
  it is in the pending list of the callback, or its RemoveMessage is in flight (`Cover`).  At the un-aborted end of
  the scan nothing is ahead any more: the message is gone.
-/
namespace Ibx.Model.ScanMem
open Ibx.Model.ConcMem

/-- the result an operation carries after its critical section -/
def resOf : PC → Option (Op × Ret)
  | .run o _ r | .wait o _ r => some (o, r)
  | _ => none

@[simp] theorem resOf_resume (pc : PC) : resOf (resume pc) = resOf pc := by cases pc <;> rfl

/-- a step keeps the result of an operation past its critical section until the operation completes -/
theorem step_res {v c s s'} (st : Step v c s s') (t : Nat) (o : Op) (r : Ret) (h : resOf (s.thr t) = some (o, r)) :
    resOf (s'.thr t) = some (o, r) ∨
    (s'.thr t = .idle ∧ s'.prog t = s.prog t ∧ s'.hist = s.hist ++ [(t, o, r)]) := by
  cases st with
  | finish t' o' r' hp ht =>
    by_cases e : t = t'
    · subst e; rw [ht] at h; simp only [resOf, Option.some.injEq, Prod.mk.injEq] at h
      obtain ⟨rfl, rfl⟩ := h
      right; exact ⟨by simp, rfl, rfl⟩
    · left; simpa [upd, e] using h
  | start t' o' rest hp ht hprog | lockS t' o' hp ht hs | unlockS t' o' hp ht | lockB t' o' hp ht hc
  | crit t' o' hp ht =>
    by_cases e : t = t'
    · subst e; rw [ht] at h; cases h
    · left; simpa [critEff, upd, e] using h
  | unlockB t' o' todo r' hp ht | sendInc t' o' k todo r' hp ht he | sendRem t' o' k todo r' hp ht he =>
    by_cases e : t = t'
    · subst e; rw [ht] at h; left; simpa [resOf] using h
    · left; simpa [upd, e] using h
  | fin t' hp he =>
    by_cases e : t = t'
    · subst e; left; simpa using h
    · left; simpa [upd, e] using h
  | evCrit t' k hp he => left; simpa [evDelete] using h
  | _ => left; simpa using h

/-- GetMessages(b) of thread `t` will still report message `i` if it is there: the call has not reached its critical
    section, or its result contains `i` -/
def ListPend (m : ConcMem.St) (t b i : Nat) : Prop :=
  PreCrit m t (.list b) ∨ (m.prog t = [] ∧ ∃ r, resOf (m.thr t) = some (.list b, r) ∧ i ∈ idsOf r) ∨
  (m.thr t = .idle ∧ m.prog t = [] ∧ ∃ r, lastRet t m.hist = some (.list b, r) ∧ i ∈ idsOf r)

theorem resOf_some_not_idle {pc : PC} {x : Op × Ret} (h : resOf pc = some x) : pc ≠ .idle := by
  intro e; rw [e] at h; cases h

theorem listPend_step {v c s s'} (st : Step v c s s') (t b i : Nat) (hb : i ≤ (s.boxes b).last)
    (ho : OpSt s t (.list b)) (h : ListPend s t b i) : ListPend s' t b i ∨ Dead s' (b, i) := by
  rcases h with h | ⟨h0, r, h1, h2⟩ | ⟨h1, h2, r, h3, h4⟩
  · rcases preCrit_step st t _ h with q | ⟨hc, q⟩
    · exact Or.inl (Or.inl q)
    · subst q
      have hp : s.prog t = [] := by
        rcases ho with ⟨a, _⟩ | ⟨a, _⟩ | ⟨_, a, _⟩
        · rw [hc] at a; cases a
        · exact a
        · rw [hc] at a; cases a
      by_cases hm : i ∈ (s.boxes b).msgs
      · left; right; left
        exact ⟨hp, .ids (s.boxes b).msgs, by simp [critEff, resOf, Atomic.step], by simpa [idsOf] using hm⟩
      · right
        exact ⟨by simpa [critEff, Atomic.step] using hm, by simpa [critEff, Atomic.step] using hb⟩
  · have hne := resOf_some_not_idle h1
    have hp' : s'.prog t = [] := by
      rcases step_local st t with ⟨_, a, _⟩ | ⟨_, _, a, _⟩ | ⟨_, _, _, _, a, _⟩
      · rw [a, h0]
      · exact absurd a hne
      · rw [a, h0]
    rcases step_res st t _ r h1 with q | ⟨q1, _, q3⟩
    · exact Or.inl (Or.inr (Or.inl ⟨hp', r, q, h2⟩))
    · left; right; right
      exact ⟨q1, hp', r, by rw [q3, lastRet_snoc]; simp, h2⟩
  · rcases step_local st t with ⟨a, b', d⟩ | ⟨_, _, _, q, _⟩ | ⟨_, _, q, _⟩
    · left; right; right
      exact ⟨opOf_none.mp (by rw [a, h1]; rfl), by rw [b', h2], r, by rw [d, h3], h4⟩
    · rw [h2] at q; cases q
    · rw [h1] at q; cases q


/-! ### the invariant -/

/-- what is still ahead of the scan for message `(b, i)` -/
def Cover (e : Env) (σ : St) (b i : Nat) : Prop :=
  match σ.phase with
  | .init => True
  | .names nm => b ∈ nm
  | .visit todo => b ∈ todo
  | .check todo => b ∈ todo
  | .listing b' todo => b ∈ todo ∨ (b' = b ∧ ListPend σ.mem e.t0 b i)
  | .sweep b' p todo => b ∈ todo ∨ (b' = b ∧ i ∈ p)
  | .removing b' i' p todo => b ∈ todo ∨ (b' = b ∧ (i ∈ p ∨ i' = i))
  | .done a => a = true

/-- `(b, i)` was in a mailbox the scan visits when VisitMailboxes read the names, and is older than the cutoff -/
def Target (e : Env) (σ : St) (b i : Nat) : Prop :=
  i ∈ (σ.boxes0 b).msgs ∧ b ∈ σ.names0 ∧ e.date (b, i) < e.cutoff ∧ σ.phase ≠ .init

def VisitInv (e : Env) (σ : St) : Prop :=
  ∀ b i, Target e σ b i → i ≤ (σ.mem.boxes b).last ∧ (Dead σ.mem (b, i) ∨ Cover e σ b i)

theorem reach_visitInv {v c e progs σ} (h : Reach v c e progs σ) : VisitInv e σ := by
  induction h with
  | init => intro b i ht; exact absurd rfl ht.2.2.2
  | cancel _ ih => exact ih
  | @step σ0 σ1 hprev st ih =>
    have hM := reach_memInv hprev
    have hT := reach_track hprev
    have hI := reach_scanInv hprev
    cases st with
    | base st' _ =>
      intro b i ht
      obtain ⟨hb, hc⟩ := ih b i ht
      refine ⟨Nat.le_trans hb (last_mono_step st' b), ?_⟩
      rcases hc with hd | hc
      · exact Or.inl (dead_step st' hM.pend.box _ hd)
      · cases hph : σ0.phase with
        | listing b' todo =>
          simp only [Cover, hph] at hc
          simp only [Track, hph] at hT
          rcases hc with hc | ⟨rfl, hc⟩
          · right; simp only [Cover]; exact Or.inl hc
          · rcases listPend_step st' e.t0 b' i hb hT hc with q | q
            · right; simp only [Cover]; exact Or.inr ⟨trivial, q⟩
            · exact Or.inl q
        | _ => right; simp only [Cover, hph] at hc ⊢ <;> exact hc
    | lockNames nm hph _ _ =>
      intro b i ht
      obtain ⟨h1, h2, _, _⟩ := ht
      exact ⟨((hM.pend.box b).2 i h1).2, Or.inr (by simpa [Cover] using h2)⟩
    | unlockNames nm hph _ =>
      intro b i ht
      obtain ⟨hb, hc⟩ := ih b i ⟨ht.1, ht.2.1, ht.2.2.1, by simp [hph]⟩
      refine ⟨hb, ?_⟩
      rcases hc with hd | hc
      · exact Or.inl hd
      · right; simp only [Cover, hph] at hc; simpa [Cover] using hc
    | visitEnd hph _ =>
      intro b i ht
      obtain ⟨hb, hc⟩ := ih b i ⟨ht.1, ht.2.1, ht.2.2.1, by simp [hph]⟩
      refine ⟨hb, ?_⟩
      rcases hc with hd | hc
      · exact Or.inl hd
      · simp [Cover, hph] at hc
    | visitNext b' todo hph hr =>
      intro b i ht
      obtain ⟨hb, hc⟩ := ih b i ⟨ht.1, ht.2.1, ht.2.2.1, by simp [hph]⟩
      refine ⟨hb, ?_⟩
      rcases hc with hd | hc
      · exact Or.inl hd
      · right
        simp only [Cover, hph, List.mem_cons] at hc
        simp only [Cover]
        rcases hc with rfl | hc
        · exact Or.inr ⟨rfl, Or.inl (Or.inl ⟨hr.2.1, by simp [issue]⟩)⟩
        · exact Or.inl hc
    | gotList b' todo r hph hr hl =>
      intro b i ht
      obtain ⟨hb, hc⟩ := ih b i ⟨ht.1, ht.2.1, ht.2.2.1, by simp [hph]⟩
      refine ⟨hb, ?_⟩
      rcases hc with hd | hc
      · exact Or.inl hd
      · right
        simp only [Cover, hph] at hc
        simp only [Cover]
        rcases hc with hc | ⟨rfl, hc⟩
        · exact Or.inl hc
        · right
          refine ⟨rfl, ?_⟩
          obtain ⟨_, h1, h2⟩ := hr
          rcases hc with hc | ⟨_, r', q, _⟩ | ⟨_, _, r', q, hi⟩
          · exfalso
            rcases hc with ⟨_, q⟩ | q | q | q | q
            · rw [h2] at q; cases q
            all_goals (rw [h1] at q; cases q)
          · rw [h1] at q; cases q
          · rw [hl] at q
            simp only [Option.some.injEq, Prod.mk.injEq, true_and] at q
            subst q; exact hi
    | sweepSkip b' i' p todo hph _ hx =>
      intro b i ht
      obtain ⟨hb, hc⟩ := ih b i ⟨ht.1, ht.2.1, ht.2.2.1, by simp [hph]⟩
      refine ⟨hb, ?_⟩
      rcases hc with hd | hc
      · exact Or.inl hd
      · right
        simp only [Cover, hph, List.mem_cons] at hc
        simp only [Cover]
        rcases hc with hc | ⟨rfl, rfl | hc⟩
        · exact Or.inl hc
        · exact absurd ht.2.2.1 hx
        · exact Or.inr ⟨rfl, hc⟩
    | sweepCall b' i' p todo hph hr hx =>
      intro b i ht
      obtain ⟨hb, hc⟩ := ih b i ⟨ht.1, ht.2.1, ht.2.2.1, by simp [hph]⟩
      refine ⟨hb, ?_⟩
      rcases hc with hd | hc
      · exact Or.inl hd
      · right
        simp only [Cover, hph, List.mem_cons] at hc
        simp only [Cover]
        rcases hc with hc | ⟨rfl, rfl | hc⟩
        · exact Or.inl hc
        · exact Or.inr ⟨rfl, Or.inr rfl⟩
        · exact Or.inr ⟨rfl, Or.inl hc⟩
    | returned b' i' p todo hph hr =>
      intro b i ht
      obtain ⟨hb, hc⟩ := ih b i ⟨ht.1, ht.2.1, ht.2.2.1, by simp [hph]⟩
      refine ⟨hb, ?_⟩
      rcases hc with hd | hc
      · exact Or.inl hd
      · simp only [Cover, hph] at hc
        rcases hc with hc | ⟨rfl, hc | rfl⟩
        · right; simp only [Cover]; exact Or.inl hc
        · right; simp only [Cover]; exact Or.inr ⟨trivial, hc⟩
        · left
          rcases hI.rem b' i' p todo hph with q | q
          · exfalso
            obtain ⟨_, h1, h2⟩ := hr
            rcases q with ⟨_, q⟩ | q | q | q | q
            · rw [h2] at q; cases q
            all_goals (rw [h1] at q; cases q)
          · exact q
    | sweepEnd b' todo hph _ =>
      intro b i ht
      obtain ⟨hb, hc⟩ := ih b i ⟨ht.1, ht.2.1, ht.2.2.1, by simp [hph]⟩
      refine ⟨hb, ?_⟩
      rcases hc with hd | hc
      · exact Or.inl hd
      · right
        simp only [Cover, hph] at hc
        simp only [Cover]
        rcases hc with hc | ⟨_, hc⟩
        · exact hc
        · cases hc
    | checkStop todo hph _ _ =>
      intro b i ht
      obtain ⟨hb, _⟩ := ih b i ⟨ht.1, ht.2.1, ht.2.2.1, by simp [hph]⟩
      exact ⟨hb, Or.inr (by simp [Cover])⟩
    | checkGo todo hph _ _ =>
      intro b i ht
      obtain ⟨hb, hc⟩ := ih b i ⟨ht.1, ht.2.1, ht.2.2.1, by simp [hph]⟩
      refine ⟨hb, ?_⟩
      rcases hc with hd | hc
      · exact Or.inl hd
      · right; simp only [Cover, hph] at hc; simpa [Cover] using hc

end Ibx.Model.ScanMem
