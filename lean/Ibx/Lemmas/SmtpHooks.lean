import Ibx.Model.Smtp
/-
  The SMTP session model sees the answers of the MAIL / RCPT hooks only up to `normAns` (a `defer` answer is the same as no
  answer): congruence of `run` under hook functions that agree up to `normAns`.
-/
namespace Ibx.Lemmas.SmtpHooks
open Ibx Ibx.Model Ibx.Model.Smtp

/-- what the session can see of a MAIL / RCPT hook answer: a defer is the same as no answer -/
def normAns : Option HookAns → Option HookAns
  | some a => if a.action == .defer then none else some a
  | none => none

def withHooks (e : Env) (hm : Bytes → Option HookAns) (hr : Option Bytes → List Bytes → Option HookAns) : Env :=
  { e with hookMail := hm, hookRcpt := hr }

variable (e : Env) (hm : Bytes → Option HookAns) (hr : Option Bytes → List Bytes → Option HookAns)

theorem mailFrom_congr (hmn : ∀ a, normAns (hm a) = normAns (e.hookMail a)) (s : Sess) (arg : Bytes) (acc : List Ev) :
    mailFrom (withHooks e hm hr) s arg acc = mailFrom e s arg acc := by
  unfold mailFrom withHooks
  simp only []
  cases hre : e.mailRe arg with
  | none => rfl
  | some p =>
    obtain ⟨addr, params⟩ := p
    simp only []
    have h := hmn addr
    cases h1 : hm addr with
    | none =>
      cases h2 : e.hookMail addr with
      | none => rfl
      | some b =>
        rw [h1, h2] at h
        have hb : b.action = .defer := by
          simp only [normAns] at h
          split at h
          · next hc => simpa using hc
          · cases h
        simp [hb]
    | some a =>
      cases h2 : e.hookMail addr with
      | none =>
        rw [h1, h2] at h
        have ha : a.action = .defer := by
          simp only [normAns] at h
          split at h
          · next hc => simpa using hc
          · cases h
        simp [ha]
      | some b =>
        rw [h1, h2] at h
        simp only [normAns] at h
        split at h <;> split at h
        · next ha hb =>
          have ha' : a.action = .defer := by simpa using ha
          have hb' : b.action = .defer := by simpa using hb
          simp [ha', hb']
        · cases h
        · cases h
        · cases h; rfl

theorem rcptTo_congr (hrn : ∀ f tos, normAns (hr f tos) = normAns (e.hookRcpt f tos)) (s : Sess) (arg : Bytes) (acc : List Ev) :
    rcptTo (withHooks e hm hr) s arg acc = rcptTo e s arg acc := by
  unfold rcptTo withHooks
  simp only []
  split
  · rfl
  · cases hnr : Addr.newRecipient e.ip e.naming (trimCut (fun c => c == 60 || c == 62 || c == 32) (List.drop 3 arg)) with
    | none => rfl
    | some r =>
      simp only []
      have h := hrn (s.sender.map (·.addr)) (s.rcpts.map (·.addr) ++ [trimCut (fun c => c == 60 || c == 62 || c == 32) (List.drop 3 arg)])
      cases h1 : hr (s.sender.map (·.addr)) (s.rcpts.map (·.addr) ++ [trimCut (fun c => c == 60 || c == 62 || c == 32) (List.drop 3 arg)]) with
      | none =>
        cases h2 : e.hookRcpt (s.sender.map (·.addr)) (s.rcpts.map (·.addr) ++ [trimCut (fun c => c == 60 || c == 62 || c == 32) (List.drop 3 arg)]) with
        | none => rfl
        | some b =>
          rw [h1, h2] at h
          have hb : b.action = .defer := by
            simp only [normAns] at h
            split at h
            · next hc => simpa using hc
            · cases h
          simp [hb]
      | some a =>
        cases h2 : e.hookRcpt (s.sender.map (·.addr)) (s.rcpts.map (·.addr) ++ [trimCut (fun c => c == 60 || c == 62 || c == 32) (List.drop 3 arg)]) with
        | none =>
          rw [h1, h2] at h
          have ha : a.action = .defer := by
            simp only [normAns] at h
            split at h
            · next hc => simpa using hc
            · cases h
          simp [ha]
        | some b =>
          rw [h1, h2] at h
          simp only [normAns] at h
          split at h <;> split at h
          · next ha hb =>
            have ha' : a.action = .defer := by simpa using ha
            have hb' : b.action = .defer := by simpa using hb
            simp [ha', hb']
          · cases h
          · cases h
          · cases h; rfl

theorem handleLine_congr (hmn : ∀ a, normAns (hm a) = normAns (e.hookMail a))
    (hrn : ∀ f tos, normAns (hr f tos) = normAns (e.hookRcpt f tos)) (s : Sess) (line : Bytes) (acc : List Ev) :
    handleLine (withHooks e hm hr) s line acc = handleLine e s line acc := by
  have h1 : ∀ t, ehloLines (withHooks e hm hr) t = ehloLines e t := fun _ => rfl
  have h2 : (withHooks e hm hr).tlsEnabled = e.tlsEnabled := rfl
  unfold handleLine handleCmd
  simp only [mailFrom_congr e hm hr hmn, rcptTo_congr e hm hr hrn, h1, h2]

theorem storeLoop_congr (s : Sess) (ib : Inbound) (date : Int) (data : Bytes) (mbs : List Bytes) (acc : List Ev) :
    storeLoop (withHooks e hm hr) s ib date data mbs acc = storeLoop e s ib date data mbs acc := by
  induction mbs generalizing acc with
  | nil => rfl
  | cons mb rest ih =>
    simp only [storeLoop]
    rw [ih]
    rfl

theorem handleData_congr (s : Sess) (block : Bytes) (acc : List Ev) :
    handleData (withHooks e hm hr) s block acc = handleData e s block acc := by
  unfold handleData deliver
  simp only [storeLoop_congr]
  rfl

theorem loop_congr (hmn : ∀ a, normAns (hm a) = normAns (e.hookMail a))
    (hrn : ∀ f tos, normAns (hr f tos) = normAns (e.hookRcpt f tos)) (fuel : Nat) (s : Sess) (inp : Bytes) (acc : List Ev) :
    loop (withHooks e hm hr) fuel s inp acc = loop e fuel s inp acc := by
  induction fuel generalizing s inp acc with
  | zero => rfl
  | succ n ih =>
    simp only [loop, handleData_congr, handleLine_congr e hm hr hmn hrn, ih]

/-- the session sees MAIL / RCPT hook answers only up to `normAns`: two hook functions that differ only by answering
    `defer` where the other does not answer give the same run -/
theorem run_congr (hmn : ∀ a, normAns (hm a) = normAns (e.hookMail a))
    (hrn : ∀ f tos, normAns (hr f tos) = normAns (e.hookRcpt f tos)) (budget : Option Nat) (inp : Bytes) :
    run (withHooks e hm hr) budget inp = run e budget inp := by
  have h1 : initFor (withHooks e hm hr) budget = initFor e budget := rfl
  unfold run
  simp only [loop_congr e hm hr hmn hrn, h1]

end Ibx.Lemmas.SmtpHooks
