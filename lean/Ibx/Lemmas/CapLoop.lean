import Ibx.Model.CapLoop
/-
  Helper lemmas for Props/C09Wedge.lean, part (a): the cap loop as a while loop.
-/
namespace Ibx.Lemmas.CapLoop
open Ibx Ibx.Spec.Store Ibx.Model.FsSteps Ibx.Model.FsFault Ibx.Model.CapLoop
open Ibx.Model.FileStore (FEnt)

/-! ### the iteration relation -/

theorem iter_det {cap : Nat} {body : LoopSt → Option LoopSt} {n : Nat} {s t t' : LoopSt}
    (h : Iter cap body n s t) (h' : Iter cap body n s t') : t = t' := by
  induction h with
  | zero s => cases h'; rfl
  | succ hc hb _ ih =>
    cases h' with
    | succ hc' hb' hi' =>
      rw [hb] at hb'
      cases hb'
      exact ih hi'

theorem iter_snoc {cap : Nat} {body : LoopSt → Option LoopSt} {n : Nat} {s t u : LoopSt}
    (h : Iter cap body n s t) (hc : cap ≤ t.mem.length) (hb : body t = some u) : Iter cap body (n + 1) s u := by
  induction h with
  | zero s => exact Iter.succ hc hb (Iter.zero u)
  | succ hc' hb' _ ih => exact Iter.succ hc' hb' (ih hc hb)

/-- a loop that has ended has ended: the number of iterations and the final state are determined by the start -/
theorem endsIn_unique {cap : Nat} {body : LoopSt → Option LoopSt} {s : LoopSt} {n m : Nat} {t t' : LoopSt}
    (h : EndsIn cap body s n t) (h' : EndsIn cap body s m t') : n = m ∧ t = t' := by
  obtain ⟨hi, he⟩ := h
  obtain ⟨hi', he'⟩ := h'
  induction hi generalizing m with
  | zero s =>
    cases hi' with
    | zero => exact ⟨rfl, rfl⟩
    | succ hc _ _ => exact absurd hc (by unfold Exits at he; omega)
  | succ hc hb _ ih =>
    cases hi' with
    | zero => exact absurd hc (by unfold Exits at he'; omega)
    | succ hc' hb' hi'' =>
      rw [hb] at hb'
      cases hb'
      obtain ⟨h1, h2⟩ := ih he hi''
      exact ⟨by omega, h2⟩

/-- while the loop is still going round after `n` iterations it has not ended within `n` iterations -/
theorem not_ended_before {cap : Nat} {body : LoopSt → Option LoopSt} {s t : LoopSt} {n : Nat}
    (h : Iter cap body n s t) (hc : cap ≤ t.mem.length) : ∀ m u, m ≤ n → ¬ EndsIn cap body s m u := by
  induction h with
  | zero s =>
    intro m u hm ⟨hi, he⟩
    have : m = 0 := by omega
    subst this
    cases hi
    unfold Exits at he
    omega
  | succ hc' hb _ ih =>
    intro m u hm ⟨hi, he⟩
    cases hi with
    | zero => unfold Exits at he; omega
    | succ hc'' hb'' hi'' =>
      rw [hb] at hb''
      cases hb''
      exact ih hc _ u (by omega) ⟨hi'', he⟩

/-- THE termination argument, for any body: if every iteration makes the list strictly shorter, the loop ends, and it goes round
    at most `len + 1 - cap` times -/
theorem shrinking_loop_ends {cap : Nat} {body : LoopSt → Option LoopSt}
    (hs : ∀ s, cap ≤ s.mem.length → ∃ s', body s = some s' ∧ s'.mem.length < s.mem.length) :
    ∀ (len : Nat) (s : LoopSt), s.mem.length = len → ∃ n t, EndsIn cap body s n t ∧ n ≤ len + 1 - cap := by
  intro len
  induction len using Nat.strongRecOn with
  | ind len ih =>
    intro s hl
    by_cases hc : cap ≤ s.mem.length
    · obtain ⟨s', hb, hlt⟩ := hs s hc
      obtain ⟨n, t, ⟨hi, he⟩, hn⟩ := ih s'.mem.length (by omega) s' rfl
      exact ⟨n + 1, t, ⟨Iter.succ hc hb hi, he⟩, by omega⟩
    · exact ⟨0, s, ⟨Iter.zero s, by unfold Exits; omega⟩, by omega⟩

/-! ### the source's body: FsFault's structural loop IS the while loop -/

section
variable (C : Codec) (F : Nat → Bool) (b : Bytes) (par : List FsStep)

theorem nEvict_eq {cap : Nat} (hcap : 0 < cap) : ∀ l : List FEnt, nEvict cap l = if cap ≤ l.length then l.length + 1 - cap else 0
  | [] => by simp [nEvict]; omega
  | e :: l => by
    have ih := nEvict_eq hcap l
    simp only [nEvict, List.length_cons, ge_iff_le]
    split <;> split at ih <;> omega

theorem evictRest_exits {cap : Nat} (hcap : 0 < cap) : ∀ l : List FEnt, (evictRest cap l).length < cap
  | [] => by simpa [evictRest] using hcap
  | e :: l => by
    simp only [evictRest, ge_iff_le]
    split
    · exact evictRest_exits hcap l
    · omega

/-- started anywhere, the while loop with the source's body goes round `nEvict cap l` times and is then where the structural
    recursion `evictF` / `evictRest` of FsFault says -/
theorem shrinks_iter (cap : Nat) : ∀ (l : List FEnt) (r : Run),
    Iter cap (bodyShrinks C F b par) (nEvict cap l) { mem := l, run := r }
      { mem := evictRest cap l, run := evictF C F b par cap r l }
  | [], r => by simpa [nEvict, evictRest, evictF] using Iter.zero _
  | e :: l, r => by
    by_cases hc : cap ≤ (e :: l).length
    · have ih := shrinks_iter cap l (removeFoundF C F b par l e.id r).1
      have h1 : nEvict cap (e :: l) = nEvict cap l + 1 := by simp only [nEvict, ge_iff_le, hc, ↓reduceIte]
      have h2 : evictRest cap (e :: l) = evictRest cap l := by simp only [evictRest, ge_iff_le, hc, ↓reduceIte]
      have h3 : evictF C F b par cap r (e :: l) = evictF C F b par cap (removeFoundF C F b par l e.id r).1 l := by
        simp only [evictF, ge_iff_le, hc, ↓reduceIte]
      rw [h1, h2, h3]
      exact Iter.succ (s := { mem := e :: l, run := r }) hc rfl ih
    · have h1 : nEvict cap (e :: l) = 0 := by simp only [nEvict, ge_iff_le, hc, ↓reduceIte]
      have h2 : evictRest cap (e :: l) = e :: l := by simp only [evictRest, ge_iff_le, hc, ↓reduceIte]
      have h3 : evictF C F b par cap r (e :: l) = r := by simp only [evictF, ge_iff_le, hc, ↓reduceIte]
      rw [h1, h2, h3]
      exact Iter.zero _

/-! ### the restoring body under a persistent refusal -/

/-- the first of a non-empty sequence of hooked calls is refused: the sequence stops there, nothing on disk has changed -/
theorem calls_first_refused (r : Run) (h : Hook) (p : Bytes) (L : List (Hook × Bytes)) (hf : F r.k = true) :
    calls F r ((h, p) :: L) = ({ r with k := r.k + 1, trace := r.trace ++ [h] }, false) := by
  simp [calls, call, hf]

theorem writeIndexAnyF_refused (l : List FEnt) (r : Run) (hf : F r.k = true) :
    ∃ h, writeIndexAnyF C F b par l r = ({ r with k := r.k + 1, trace := r.trace ++ [h] }, false) ∧
      (l ≠ [] → r.d.isSome = true → h = .createTmp) := by
  unfold writeIndexAnyF
  by_cases hl : l = []
  · refine ⟨.unlinkIndex, ?_, fun h => absurd hl h⟩
    simp only [hl, if_true, removeDirF]
    rw [calls_first_refused F r _ _ _ hf]
    simp
  · simp only [hl, if_false, writeIndexF, createDirH]
    cases hd : r.d with
    | none =>
      refine ⟨.mkdirall, ?_, fun _ hs => by simp at hs⟩
      simp only [Option.isNone_none, if_true, List.cons_append, List.nil_append]
      rw [calls_first_refused F r _ _ _ hf]
      simp [hd]
    | some x =>
      refine ⟨.createTmp, ?_, fun _ _ => rfl⟩
      simp only [Option.isNone_some, Bool.false_eq_true, if_false, List.nil_append]
      rw [calls_first_refused F r _ _ _ hf]
      simp [hd]

/-- one iteration of the restoring body while the file system refuses: the list is what it was, nothing was announced, nothing on
    disk changed, one more call was made (and refused) -/
theorem restores_step (s : LoopSt) (e : FEnt) (l : List FEnt) (hm : s.mem = e :: l) (hf : F s.run.k = true) :
    ∃ h, bodyRestores C F b par s = some { mem := s.mem, run := { s.run with k := s.run.k + 1, trace := s.run.trace ++ [h] } } ∧
      (l ≠ [] → s.run.d.isSome = true → h = .createTmp) := by
  obtain ⟨h, hw, hh⟩ := writeIndexAnyF_refused C F b par l s.run hf
  refine ⟨h, ?_, hh⟩
  simp [bodyRestores, hm, hw]

/-- `n` iterations later the restoring loop is where it started, `n` refused calls further on -/
theorem restores_spins {cap : Nat} (hcap : 0 < cap) : ∀ (n : Nat) (s : LoopSt), cap ≤ s.mem.length → PersistentFrom F s.run.k →
    ∃ t, Iter cap (bodyRestores C F b par) n s t ∧ t.mem = s.mem ∧ t.run.k = s.run.k + n ∧ t.run.d = s.run.d ∧
      t.run.events = s.run.events ∧ t.run.trace.length = s.run.trace.length + n ∧
      (2 ≤ cap → s.run.d.isSome = true → t.run.trace = s.run.trace ++ List.replicate n .createTmp)
  | 0, s, _, _ => ⟨s, Iter.zero s, rfl, rfl, rfl, rfl, rfl, fun _ _ => by simp⟩
  | n + 1, s, hc, hp => by
    obtain ⟨e, l, hm⟩ : ∃ e l, s.mem = e :: l := by
      cases h : s.mem with
      | nil => rw [h] at hc; simp at hc; omega
      | cons e l => exact ⟨e, l, rfl⟩
    obtain ⟨h, hb, hh⟩ := restores_step C F b par s e l hm (hp _ (Nat.le_refl _))
    obtain ⟨t, hi, h1, h2, h3, h4, h5, h6⟩ := restores_spins hcap n
      { mem := s.mem, run := { s.run with k := s.run.k + 1, trace := s.run.trace ++ [h] } } hc
      (fun k hk => hp k (by simp only at hk; omega))
    simp only at h1 h2 h3 h4 h5 h6
    refine ⟨t, Iter.succ hc hb hi, h1, by omega, h3, h4, ?_, ?_⟩
    · rw [h5]; simp; omega
    · intro h2c hd
      have hl : l ≠ [] := by
        intro hl; rw [hm, hl] at hc; simp at hc; omega
      rw [h6 h2c hd, hh hl hd]
      simp [List.replicate_succ]

/-! ### how many hooked calls an operation makes -/

theorem call_len (r : Run) (h : Hook) (p : Bytes) : (call F r h p).1.trace.length = r.trace.length + 1 := by
  simp [call]

theorem calls_len : ∀ (L : List (Hook × Bytes)) (r : Run), (calls F r L).1.trace.length ≤ r.trace.length + L.length
  | [], r => by simp [calls]
  | (h, p) :: L, r => by
    simp only [calls]
    split
    · have := calls_len L (call F r h p).1
      rw [call_len] at this
      simp only [List.length_cons]
      omega
    · rw [call_len]; simp

theorem createDirH_len (d : Option MDir) : (createDirH d).length ≤ 1 := by
  unfold createDirH; split <;> simp

theorem writeIndexF_len (l : List FEnt) (r : Run) : (writeIndexF C F b l r).1.trace.length ≤ r.trace.length + 5 := by
  unfold writeIndexF
  have h := calls_len F (createDirH r.d ++ [(.createTmp, []), (.flushTmp, C.enc (b, l)), (.closeTmp, []), (.rename, [])]) r
  have := createDirH_len r.d
  simp only [List.length_append, List.length_cons, List.length_nil] at h
  omega

theorem parentHooks_len (par : List FsStep) : (parentHooks par).length ≤ par.length := by
  unfold parentHooks
  exact List.length_filterMap_le _ _

theorem removeDirF_len (r : Run) : (removeDirF F par r).1.trace.length ≤ r.trace.length + 2 + par.length := by
  have h1 := calls_len F [(.unlinkIndex, []), (.removeAll, [])] r
  simp only [List.length_cons, List.length_nil] at h1
  have h2 := calls_len F (if r.d.isSome then parentHooks par else []) (calls F r [(.unlinkIndex, []), (.removeAll, [])]).1
  have h3 := parentHooks_len par
  have h4 : (if r.d.isSome then parentHooks par else []).length ≤ par.length := by split <;> simp [h3]
  by_cases ho : (calls F r [(.unlinkIndex, []), (.removeAll, [])]).2 = true
  · have : (removeDirF F par r).1 = (calls F (calls F r [(.unlinkIndex, []), (.removeAll, [])]).1
        (if r.d.isSome then parentHooks par else [])).1 := by simp [removeDirF, ho]
    rw [this]; omega
  · have : (removeDirF F par r).1 = (calls F r [(.unlinkIndex, []), (.removeAll, [])]).1 := by simp [removeDirF, ho]
    rw [this]; omega

theorem writeIndexAnyF_len (l : List FEnt) (r : Run) :
    (writeIndexAnyF C F b par l r).1.trace.length ≤ r.trace.length + 5 + par.length := by
  unfold writeIndexAnyF
  split
  · have := removeDirF_len F par r; omega
  · have := writeIndexF_len C F b l r; omega

theorem removeFoundF_len (l' : List FEnt) (id : Nat) (r : Run) :
    (removeFoundF C F b par l' id r).1.trace.length ≤ r.trace.length + 6 + par.length := by
  have h := writeIndexAnyF_len C F b par l' (emit r id)
  have he : (emit r id).trace = r.trace := rfl
  rw [he] at h
  by_cases ho : (writeIndexAnyF C F b par l' (emit r id)).2 = true
  · by_cases hl : l' = []
    · have : (removeFoundF C F b par l' id r).1 = (writeIndexAnyF C F b par l' (emit r id)).1 := by
        subst hl
        simp [removeFoundF, ho]
      rw [this]; omega
    · have : (removeFoundF C F b par l' id r).1 =
          (call F (writeIndexAnyF C F b par l' (emit r id)).1 (.unlinkRaw id) []).1 := by
        simp [removeFoundF, ho, hl]
      rw [this, call_len]; omega
  · have : (removeFoundF C F b par l' id r).1 = (writeIndexAnyF C F b par l' (emit r id)).1 := by
      simp [removeFoundF, ho]
    rw [this]; omega

theorem evictF_len (cap : Nat) : ∀ (l : List FEnt) (r : Run),
    (evictF C F b par cap r l).trace.length ≤ r.trace.length + nEvict cap l * (6 + par.length)
  | [], r => by simp [evictF]
  | e :: l, r => by
    simp only [evictF, nEvict]
    split
    · have h1 := evictF_len cap l (removeFoundF C F b par l e.id r).1
      have h2 := removeFoundF_len C F b par l e.id r
      rw [Nat.succ_mul]
      omega
    · omega

theorem silentUnlinkRaw_trace (r : Run) (id : Nat) : (silentUnlinkRaw r id).trace = r.trace := rfl

theorem addTail_len (l1 : List FEnt) (id : Nat) (hdr : Meta) (src : Bytes) (r1 : Run) :
    (addTail C F b l1 id hdr src r1).trace.length ≤ r1.trace.length + 10 := by
  unfold addTail
  have h2 := calls_len F (createDirH r1.d ++ [(.createRaw id, [])]) r1
  have hc := createDirH_len r1.d
  simp only [List.length_append, List.length_cons, List.length_nil] at h2
  simp only
  split
  · simp only [Out.of]; omega
  · have h3 := calls_len F [(.copyRaw id, src), (.flushRaw id, []), (.closeRaw id, [])]
      (calls F r1 (createDirH r1.d ++ [(.createRaw id, [])])).1
    simp only [List.length_cons, List.length_nil] at h3
    split
    · simp only [Out.of, silentUnlinkRaw_trace]; omega
    · have h4 := writeIndexF_len C F b (l1 ++ [newEnt id hdr src])
        (calls F (calls F r1 (createDirH r1.d ++ [(.createRaw id, [])])).1
          [(.copyRaw id, src), (.flushRaw id, []), (.closeRaw id, [])]).1
      split
      · simp only [Out.of, silentUnlinkRaw_trace]; omega
      · simp only [Out.of]; omega

end

theorem parentSteps_len (lay : Layout) (s : FS) (bx : Bytes) : (parentSteps lay s bx).length ≤ 2 := by
  unfold parentSteps
  simp only
  split
  · simp
  · split <;> simp

end Ibx.Lemmas.CapLoop
