import Ibx.Lemmas.HubStep
/-
  Lemmas.HubIso — non-interference: what one listener does (fail early, late, never) is invisible to
  every other listener.
-/
namespace Ibx.Lemmas.Hub
open Ibx.Spec.HubLog Ibx.Model.Hub

/-- two hubs that agree on everything except listener l -/
structure Rel (l : Nat) (h h' : Hub) : Prop where
  ring : h.ring = h'.ring
  ls : ∀ x, x ≠ l → h.ls x = h'.ls x
  regs : ∀ x, x ≠ l → (x ∈ h.regs ↔ x ∈ h'.regs)
  good : Good h
  good' : Good h'

theorem step_disabled {h : Hub} (hr : h.ring = []) {op : Op} {e : Ev} (he : op.ev = some e) : step h op = h := by
  cases op with
  | dispatch m => simp [step, hr]
  | delete mb id => simp [step, hr]
  | add l => cases he
  | remove l => cases he

theorem mem_add_regs (h : Hub) (y x : Nat) :
    x ∈ (step h (.add y)).regs ↔ x ∈ h.regs ∨ (x = y ∧ (playback (ringDo h.ring) (h.ls y)).2 = false) := by
  simp only [step]
  split
  · rename_i hc
    constructor
    · exact Or.inl
    · rintro (hx | ⟨hxy, hp⟩)
      · exact hx
      · subst hxy
        rw [hp] at hc
        simpa using hc
  · rename_i hc
    have hc' : (playback (ringDo h.ring) (h.ls y)).snd = false ∧ ¬y ∈ h.regs := by simpa using hc
    simp [hc'.1]

theorem rel_step {l : Nat} {h h' : Hub} (r : Rel l h h') (op : Op) : Rel l (step h op) (step h' op) := by
  refine ⟨by rw [step_ring, step_ring, r.ring], ?_, ?_, good_step r.good op, good_step r.good' op⟩
  · intro x hx
    cases hev : op.ev with
    | some e =>
      by_cases hr : h.ring = []
      · rw [step_disabled hr hev, step_disabled (r.ring ▸ hr) hev]; exact r.ls x hx
      · rw [(step_event r.good hr hev x).1, (step_event r.good' (r.ring ▸ hr) hev x).1, r.ls x hx]
        by_cases hm : x ∈ h.regs
        · rw [if_pos hm, if_pos ((r.regs x hx).mp hm)]
        · rw [if_neg hm, if_neg (fun hh => hm ((r.regs x hx).mpr hh))]
    | none =>
      rcases ev_none_cases hev with ⟨y, rfl⟩ | ⟨y, rfl⟩
      · simp only [step, upd]
        by_cases hxy : x = y
        · subst hxy; simp only [if_true]; rw [r.ring, r.ls x hx]
        · simp only [hxy, if_false]; exact r.ls x hx
      · exact r.ls x hx
  · intro x hx
    cases hev : op.ev with
    | some e =>
      by_cases hr : h.ring = []
      · rw [step_disabled hr hev, step_disabled (r.ring ▸ hr) hev]; exact r.regs x hx
      · rw [(step_event r.good hr hev x).2, (step_event r.good' (r.ring ▸ hr) hev x).2, r.ls x hx, r.regs x hx]
    | none =>
      rcases ev_none_cases hev with ⟨y, rfl⟩ | ⟨y, rfl⟩
      · rw [mem_add_regs, mem_add_regs, r.regs x hx, r.ring]
        by_cases hxy : x = y
        · subst hxy; rw [r.ls x hx]
        · simp [hxy]
      · simp only [step, List.mem_filter]; rw [r.regs x hx]

theorem rel_run {l : Nat} {h h' : Hub} (r : Rel l h h') (ops : List Op) : Rel l (run h ops) (run h' ops) := by
  induction ops generalizing h h' with
  | nil => exact r
  | cons op ops ih => exact ih (rel_step r op)

/-- with history length 0 the hub is switched off: nothing is ever delivered to anybody -/
theorem disabled_run (ops : List Op) (h : Hub) (hr : h.ring = []) (x : Nat) : (run h ops).ls x = h.ls x := by
  induction ops generalizing h with
  | nil => rfl
  | cons op ops ih =>
    rw [run_cons]
    have hr' : (step h op).ring = [] := by
      have := ringStep_length h.ring op
      rw [← step_ring, hr] at this
      exact List.length_eq_zero_iff.mp this
    rw [ih _ hr']
    cases hev : op.ev with
    | some e => rw [step_disabled hr hev]
    | none =>
      rcases ev_none_cases hev with ⟨y, rfl⟩ | ⟨y, rfl⟩
      · simp only [step, upd, hr, ringDo, List.filterMap_nil, playback]
        split
        · rename_i hxy; rw [hxy]
        · rfl
      · rfl

end Ibx.Lemmas.Hub
