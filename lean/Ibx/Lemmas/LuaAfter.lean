import Ibx.Model.LuaAfter
import Ibx.Lemmas.Pool
/-
  Lemmas about Model.LuaAfter:
    * the FRAME invariant of a handler that runs on detached address objects: the heap below the event's own objects is
      never written, every reference the handler can reach lies above it;
    * detachAddresses preserves what the metadata looks like;
    * reads do not change the state;
    * the pool steps of one listener invocation.
-/
namespace Ibx.Lemmas.LuaAfter
open Ibx Ibx.Model.LuaAfter

/-! ### dereferencing -/

theorem deref_append_left (h ext : Heap) (r : Ref) (hr : r < h.length) : deref (h ++ ext) r = deref h r := by
  simp [deref, List.getElem?_append_left hr]

theorem deref_append_length (h : Heap) (x : Addr) (ext : Heap) : deref (h ++ x :: ext) h.length = x := by
  simp [deref]

theorem deref_of_take (h' h0 : Heap) (ht : h'.take h0.length = h0) (r : Ref) (hr : r < h0.length) :
    deref h' r = deref h0 r := by
  have : h0[r]? = h'[r]? := by
    conv => lhs; rw [← ht]
    simp [hr]
  simp [deref, this]

theorem view_of_take (h' h0 : Heap) (ht : h'.take h0.length = h0) (m : Meta) (hw : WF h0 m) : view h' m = view h0 m := by
  obtain ⟨hf, hto⟩ := hw
  have h1 : m.frm.map (deref h') = m.frm.map (deref h0) := by
    cases hm : m.frm with
    | none => rfl
    | some r => simp [deref_of_take h' h0 ht r (hf r hm)]
  have h2 : m.to.map (fun o => o.map (deref h')) = m.to.map (fun o => o.map (deref h0)) := by
    apply List.map_congr_left
    intro o ho
    cases o with
    | none => rfl
    | some r => simp [deref_of_take h' h0 ht r (hto r ho)]
  simp [view, h1, h2]

/-! ### the frame invariant -/

def RefsGE (n : Nat) (m : Meta) : Prop :=
  (∀ r, m.frm = some r → n ≤ r) ∧ (∀ r, some r ∈ m.to → n ≤ r)

theorem refsGE_zero (n : Nat) : RefsGE n zeroMeta := by
  constructor <;> intro r h <;> simp [zeroMeta] at h

structure Frame (h0 : Heap) (st : St) : Prop where
  pre : st.heap.take h0.length = h0
  msg : RefsGE h0.length st.msg
  fresh : RefsGE h0.length st.fresh

theorem Frame.len {h0 : Heap} {st : St} (f : Frame h0 st) : h0.length ≤ st.heap.length := by
  have := congrArg List.length f.pre
  simp [List.length_take] at this
  omega

theorem Frame.meta {h0 : Heap} {st : St} (f : Frame h0 st) (t : Tgt) : RefsGE h0.length (st.meta t) := by
  cases t
  · exact f.msg
  · exact f.fresh

theorem frame_setMeta {h0 : Heap} {st : St} (f : Frame h0 st) (t : Tgt) (h : Heap) (m : Meta)
    (hp : h.take h0.length = h0) (hm : RefsGE h0.length m) : Frame h0 ({ st with heap := h }.setMeta t m) := by
  cases t
  · exact ⟨hp, hm, f.fresh⟩
  · exact ⟨hp, f.msg, hm⟩

theorem evalAddr_ref_ge {h0 : Heap} {st : St} (f : Frame h0 st) (a : AddrExpr) (r : Ref)
    (he : evalAddr st a = .ref r) : h0.length ≤ r := by
  cases a with
  | frm t =>
    simp only [evalAddr] at he
    split at he
    · cases he
    · next r' hr => cases he; exact (f.meta t).1 _ hr
  | to t i =>
    simp only [evalAddr] at he
    split at he
    · cases he
    · split at he
      · cases he
      · cases he
      · next r' hr =>
        cases he
        exact (f.meta t).2 _ (List.mem_of_getElem? hr)
  | new n x => simp [evalAddr] at he

theorem take_append_one {h0 h : Heap} (x : Addr) (hp : h.take h0.length = h0) : (h ++ [x]).take h0.length = h0 := by
  have hl : h0.length ≤ h.length := by
    have := congrArg List.length hp
    simp [List.length_take] at this
    omega
  rw [List.take_append_of_le_length hl, hp]

theorem storeAddr_frame {h0 : Heap} {st : St} (f : Frame h0 st) (h : Heap) (hp : h.take h0.length = h0) (a : AddrExpr)
    (h' : Heap) (p : Option Ref) (hs : storeAddr st h a = some (h', p)) :
    h'.take h0.length = h0 ∧ (∀ r, p = some r → h0.length ≤ r) := by
  have hl : h0.length ≤ h.length := by
    have := congrArg List.length hp
    simp [List.length_take] at this
    omega
  simp only [storeAddr] at hs
  split at hs
  · cases hs
  · cases hs; exact ⟨hp, by intro r hr; cases hr⟩
  · next r he => cases hs; exact ⟨hp, by intro r' hr'; cases hr'; exact evalAddr_ref_ge f a _ he⟩
  · cases hs; exact ⟨take_append_one _ hp, by intro r hr; cases hr; exact hl⟩

theorem storeItems_frame {h0 : Heap} {st : St} (f : Frame h0 st) (items : List Item) :
    ∀ (h : Heap), h.take h0.length = h0 →
      (storeItems st h items).1.take h0.length = h0 ∧ (∀ r, some r ∈ (storeItems st h items).2 → h0.length ≤ r) := by
  induction items with
  | nil => intro h hp; exact ⟨hp, by intro r hr; simp [storeItems] at hr⟩
  | cons it rest ih =>
    intro h hp
    cases it with
    | addr a =>
      simp only [storeItems]
      cases hs : storeAddr st h a with
      | none => exact ih h hp
      | some hp' =>
        obtain ⟨h1, p⟩ := hp'
        obtain ⟨hp1, hge⟩ := storeAddr_frame f h hp a h1 p hs
        obtain ⟨ih1, ih2⟩ := ih h1 hp1
        refine ⟨ih1, ?_⟩
        intro r hr
        simp only [List.mem_cons] at hr
        cases hr with
        | inl e => exact hge r e.symm
        | inr e => exact ih2 r e
    | int n => simpa [storeItems] using ih h hp
    | str s => simpa [storeItems] using ih h hp
    | bool b => simpa [storeItems] using ih h hp
    | self t => simpa [storeItems] using ih h hp
    | tbl => simpa [storeItems] using ih h hp

theorem refsGE_scalar {n : Nat} {m m' : Meta} (h : RefsGE n m) (hf : m'.frm = m.frm) (ht : m'.to = m.to) : RefsGE n m' := by
  unfold RefsGE at *
  rw [hf, ht]
  exact h

/-- one statement of a handler whose references all lie above `h0` leaves `h0` as it was -/
theorem step_frame (env : Env) {h0 : Heap} {st st' : St} (f : Frame h0 st) (op : Op) (hs : stepOp env st op = some st') :
    Frame h0 st' := by
  have hsame : ∀ o, Frame h0 { st with obs := o :: st.obs } := fun o => ⟨f.pre, f.msg, f.fresh⟩
  cases op with
  | get t fl =>
    simp only [stepOp, Option.map_eq_some_iff] at hs
    obtain ⟨o, _, rfl⟩ := hs
    exact hsame o
  | getAddr a fl =>
    simp only [stepOp, Option.map_eq_some_iff] at hs
    obtain ⟨o, _, rfl⟩ := hs
    exact hsame o
  | slot k =>
    simp only [stepOp, Option.map_eq_some_iff] at hs
    obtain ⟨o, _, rfl⟩ := hs
    exact hsame o
  | raise => simp [stepOp] at hs
  | ret => simp [stepOp] at hs
  | set t fl v =>
    have hm := f.meta t
    have hst : ({ st with heap := st.heap } : St) = st := rfl
    simp only [stepOp] at hs
    split at hs
    · simp only [Option.map_eq_some_iff] at hs
      obtain ⟨s, _, rfl⟩ := hs
      exact frame_setMeta f t st.heap _ f.pre (refsGE_scalar hm rfl rfl)
    · simp only [Option.map_eq_some_iff] at hs
      obtain ⟨s, _, rfl⟩ := hs
      exact frame_setMeta f t st.heap _ f.pre (refsGE_scalar hm rfl rfl)
    · simp only [Option.map_eq_some_iff] at hs
      obtain ⟨s, _, rfl⟩ := hs
      exact frame_setMeta f t st.heap _ f.pre (refsGE_scalar hm rfl rfl)
    · simp only [Option.map_eq_some_iff] at hs
      obtain ⟨s, _, rfl⟩ := hs
      exact frame_setMeta f t st.heap _ f.pre (refsGE_scalar hm rfl rfl)
    · simp only [Option.map_eq_some_iff] at hs
      obtain ⟨s, _, rfl⟩ := hs
      exact frame_setMeta f t st.heap _ f.pre (refsGE_scalar hm rfl rfl)
    · -- from
      split at hs
      · next a =>
        simp only [Option.map_eq_some_iff] at hs
        obtain ⟨⟨h1, p⟩, hsa, rfl⟩ := hs
        obtain ⟨hp1, hge⟩ := storeAddr_frame f st.heap f.pre a h1 p hsa
        exact frame_setMeta f t h1 _ hp1 ⟨fun r hr => hge r hr, hm.2⟩
      · cases hs
    · -- to
      split at hs
      · next items =>
        obtain ⟨hp1, hge⟩ := storeItems_frame f items st.heap f.pre
        cases hs
        exact frame_setMeta f t _ _ hp1 ⟨hm.1, hge⟩
      · cases hs
    · cases hs
  | setAddr a fl v =>
    simp only [stepOp] at hs
    split at hs
    · cases hs
    · next av hne =>
      split at hs
      · cases hs
      · next fld hfld =>
        split at hs
        · cases hs
        · next s hcs =>
          split at hs
          · next r he =>
            cases hs
            have hge := evalAddr_ref_ge f a r he
            exact ⟨by simp only []; rw [List.take_set_of_le hge]; exact f.pre, f.msg, f.fresh⟩
          · cases hs; exact f
          · cases hs

theorem run_frame (env : Env) {h0 : Heap} (p : Prog) : ∀ {st : St}, Frame h0 st → Frame h0 (run env st p).1 := by
  induction p with
  | nil => intro st f; simpa [run] using f
  | cons op rest ih =>
    intro st f
    by_cases hret : op = .ret
    · subst hret; simpa [run] using f
    · have hrun : run env st (op :: rest) = match stepOp env st op with
          | some st' => run env st' rest
          | none => (st, .error) := by
        cases op <;> first | rfl | exact absurd rfl hret
      rw [hrun]
      cases hs : stepOp env st op with
      | none => exact f
      | some st' => exact ih (step_frame env f op hs)

/-! ### detachAddresses -/

theorem detachTo_spec (l : List (Option Ref)) :
    ∀ (h : Heap), (∀ r, some r ∈ l → r < h.length) →
      (∃ ext, (detachTo h l).1 = h ++ ext) ∧
      (detachTo h l).2.map (fun o => o.map (deref (detachTo h l).1)) = l.map (fun o => o.map (deref h)) ∧
      (∀ r, some r ∈ (detachTo h l).2 → h.length ≤ r ∧ r < (detachTo h l).1.length) := by
  induction l with
  | nil => intro h _; exact ⟨⟨[], by simp [detachTo]⟩, by simp [detachTo], by intro r hr; simp [detachTo] at hr⟩
  | cons o rest ih =>
    intro h hw
    cases o with
    | none =>
      obtain ⟨⟨ext, he⟩, hv, hr⟩ := ih h (fun r hr => hw r (List.mem_cons_of_mem _ hr))
      refine ⟨⟨ext, by simpa [detachTo] using he⟩, by simpa [detachTo] using hv, ?_⟩
      intro r hr'
      simp only [detachTo, List.mem_cons] at hr'
      cases hr' with
      | inl e => cases e
      | inr e => exact hr r e
    | some r0 =>
      have hr0 : r0 < h.length := hw r0 (by simp)
      have hw' : ∀ r, some r ∈ rest → r < (h ++ [deref h r0]).length := by
        intro r hr
        have h9 : r < h.length := hw r (List.mem_cons_of_mem _ hr)
        rw [List.length_append]
        exact Nat.lt_of_lt_of_le h9 (Nat.le_add_right _ _)
      obtain ⟨⟨ext, he⟩, hv, hr⟩ := ih (h ++ [deref h r0]) hw'
      refine ⟨⟨deref h r0 :: ext, by simp only [detachTo]; rw [he]; simp⟩, ?_, ?_⟩
      · simp only [detachTo, List.map_cons, Option.map_some]
        congr 1
        · rw [he, List.append_assoc]
          simp [deref_append_length]
        · rw [hv]
          apply List.map_congr_left
          intro o ho
          cases o with
          | none => rfl
          | some r => simp [deref_append_left h _ r (hw r (List.mem_cons_of_mem _ ho))]
      · intro r hr'
        simp only [detachTo, List.mem_cons] at hr'
        cases hr' with
        | inl e =>
          cases e
          refine ⟨Nat.le_refl _, ?_⟩
          simp only [detachTo]
          rw [he]; simp
        | inr e =>
          have := hr r e
          simp at this
          exact ⟨by omega, this.2⟩

/-- after detachAddresses the listener's metadata LOOKS the same, the old heap is a prefix of the new one and every
    reference of the metadata points above it -/
theorem detach_spec (h : Heap) (m : Meta) (hw : WF h m) :
    view (detach h m).1 (detach h m).2 = view h m ∧ (detach h m).1.take h.length = h ∧ RefsGE h.length (detach h m).2 := by
  obtain ⟨hf, hto⟩ := hw
  cases hfm : m.frm with
  | none =>
    obtain ⟨⟨ext, he⟩, hv, hr⟩ := detachTo_spec m.to h hto
    have e1 : (detach h m).1 = (detachTo h m.to).1 := by simp [detach, hfm]
    have e2 : (detach h m).2 = { m with frm := none, to := (detachTo h m.to).2 } := by simp [detach, hfm]
    refine ⟨?_, ?_, ?_⟩
    · rw [e1, e2]; simp [view, hfm, hv]
    · rw [e1, he]; simp
    · rw [e2]; exact ⟨(by intro r hr9; cases hr9), fun r hr' => (hr r hr').1⟩
  | some r0 =>
    have hr0 := hf r0 hfm
    have hw' : ∀ r, some r ∈ m.to → r < (h ++ [deref h r0]).length := by
      intro r hr
      have h9 : r < h.length := hto r hr
      rw [List.length_append]
      exact Nat.lt_of_lt_of_le h9 (Nat.le_add_right _ _)
    obtain ⟨⟨ext, he⟩, hv, hr⟩ := detachTo_spec m.to (h ++ [deref h r0]) hw'
    have e1 : (detach h m).1 = (detachTo (h ++ [deref h r0]) m.to).1 := by simp [detach, hfm]
    have e2 : (detach h m).2 = { m with frm := some h.length, to := (detachTo (h ++ [deref h r0]) m.to).2 } := by
      simp [detach, hfm]
    refine ⟨?_, ?_, ?_⟩
    · rw [e1, e2]
      simp only [view, hfm, Option.map_some]
      have h1 : deref (detachTo (h ++ [deref h r0]) m.to).1 h.length = deref h r0 := by
        rw [he, List.append_assoc]; simp [deref_append_length]
      have h2 : m.to.map (fun o => o.map (deref (h ++ [deref h r0]))) = m.to.map (fun o => o.map (deref h)) := by
        apply List.map_congr_left
        intro o ho
        cases o with
        | none => rfl
        | some r => simp [deref_append_left h _ r (hto r ho)]
      rw [h1, hv, h2]
    · rw [e1, he, List.append_assoc]; simp
    · rw [e2]
      refine ⟨by intro r hr'; cases hr'; exact Nat.le_refl _, ?_⟩
      intro r hr'
      have := (hr r hr').1
      simp at this
      omega

/-! ### reads -/

/-- the observations of the leading read statements of a program when the two metadata objects look like `vm`, `vf`:
    up to the first statement that is not a read or that raises -/
def leadReads (env : Env) (vm vf : View) : Prog → List Obs
  | [] => []
  | op :: rest =>
    if op.isRead then
      match readView env vm vf op with
      | some o => o :: leadReads env vm vf rest
      | none => []
    else []

theorem stepOp_read (env : Env) (st : St) (op : Op) (hr : op.isRead = true) :
    stepOp env st op = (readView env (view st.heap st.msg) (view st.heap st.fresh) op).map (fun o => { st with obs := o :: st.obs }) := by
  cases op <;> simp [Op.isRead] at hr <;> rfl

theorem stepOp_obs (env : Env) (st st' : St) (op : Op) (hs : stepOp env st op = some st') :
    ∃ more, st'.obs = more ++ st.obs := by
  cases op with
  | get t fl => rw [stepOp_read env st _ rfl] at hs; simp only [Option.map_eq_some_iff] at hs; obtain ⟨o, _, rfl⟩ := hs; exact ⟨[o], rfl⟩
  | getAddr a fl => rw [stepOp_read env st _ rfl] at hs; simp only [Option.map_eq_some_iff] at hs; obtain ⟨o, _, rfl⟩ := hs; exact ⟨[o], rfl⟩
  | slot k => rw [stepOp_read env st _ rfl] at hs; simp only [Option.map_eq_some_iff] at hs; obtain ⟨o, _, rfl⟩ := hs; exact ⟨[o], rfl⟩
  | raise => simp [stepOp] at hs
  | ret => simp [stepOp] at hs
  | set t fl v =>
    refine ⟨[], ?_⟩
    simp only [stepOp] at hs
    cases t <;> (split at hs <;> first
      | (simp only [Option.map_eq_some_iff] at hs; obtain ⟨s, _, rfl⟩ := hs; rfl)
      | (split at hs <;> first
          | (simp only [Option.map_eq_some_iff] at hs; obtain ⟨⟨h1, p⟩, _, rfl⟩ := hs; rfl)
          | (cases hs; rfl)
          | cases hs)
      | cases hs)
  | setAddr a fl v =>
    refine ⟨[], ?_⟩
    simp only [stepOp] at hs
    split at hs
    · cases hs
    · split at hs
      · cases hs
      · split at hs
        · cases hs
        · split at hs
          · cases hs; rfl
          · cases hs; rfl
          · cases hs

theorem run_unfold (env : Env) (st : St) (op : Op) (rest : Prog) (hret : op ≠ .ret) :
    run env st (op :: rest) = match stepOp env st op with
      | some st' => run env st' rest
      | none => (st, .error) := by
  cases op <;> first | rfl | exact absurd rfl hret

theorem run_obs_suffix (env : Env) (p : Prog) : ∀ (st : St), ∃ more, (run env st p).1.obs = more ++ st.obs := by
  induction p with
  | nil => intro st; exact ⟨[], rfl⟩
  | cons op rest ih =>
    intro st
    by_cases hret : op = .ret
    · subst hret; exact ⟨[], rfl⟩
    · rw [run_unfold env st op rest hret]
      cases hs : stepOp env st op with
      | none => exact ⟨[], rfl⟩
      | some st' =>
        obtain ⟨m1, h1⟩ := stepOp_obs env st st' op hs
        obtain ⟨m2, h2⟩ := ih st'
        exact ⟨m2 ++ m1, by simp only []; rw [h2, h1, List.append_assoc]⟩

/-- the leading reads of a program are reported first, with the values the metadata has when the handler is entered -/
theorem run_lead (env : Env) (p : Prog) : ∀ (st : St),
    ∃ more, (run env st p).1.obs = more ++ (leadReads env (view st.heap st.msg) (view st.heap st.fresh) p).reverse ++ st.obs := by
  induction p with
  | nil => intro st; exact ⟨[], by simp [run, leadReads]⟩
  | cons op rest ih =>
    intro st
    by_cases hr : op.isRead = true
    · have hret : op ≠ .ret := by intro e; subst e; simp [Op.isRead] at hr
      rw [run_unfold env st op rest hret, stepOp_read env st op hr]
      simp only [leadReads, hr, if_true]
      cases hv : readView env (view st.heap st.msg) (view st.heap st.fresh) op with
      | none => exact ⟨[], by simp⟩
      | some o =>
        simp only [Option.map_some]
        obtain ⟨more, hm⟩ := ih { st with obs := o :: st.obs }
        exact ⟨more, by rw [hm]; simp⟩
    · have hr' : op.isRead = false := by simpa using hr
      obtain ⟨more, hm⟩ := run_obs_suffix env (op :: rest) st
      exact ⟨more, by rw [hm]; simp [leadReads, hr']⟩

/-- a program of reads only reports exactly its leading reads and changes nothing -/
theorem run_reads_only (env : Env) (p : Prog) (hp : p.all Op.isRead = true) : ∀ (st : St),
    (run env st p).1 = { st with obs := (leadReads env (view st.heap st.msg) (view st.heap st.fresh) p).reverse ++ st.obs } := by
  induction p with
  | nil => intro st; simp [run, leadReads]
  | cons op rest ih =>
    intro st
    simp only [List.all_cons, Bool.and_eq_true] at hp
    obtain ⟨hr, hrest⟩ := hp
    have hret : op ≠ .ret := by intro e; subst e; simp [Op.isRead] at hr
    rw [run_unfold env st op rest hret, stepOp_read env st op hr]
    simp only [leadReads, hr, if_true]
    cases hv : readView env (view st.heap st.msg) (view st.heap st.fresh) op with
    | none => simp
    | some o =>
      simp only [Option.map_some]
      rw [ih hrest]
      simp

/-! ### a handler that never assigns THROUGH an address object only allocates -/

theorem storeAddr_grows (st : St) (h : Heap) (a : AddrExpr) (h' : Heap) (p : Option Ref) (hs : storeAddr st h a = some (h', p)) :
    ∃ ext, h' = h ++ ext := by
  simp only [storeAddr] at hs
  split at hs
  · cases hs
  · cases hs; exact ⟨[], by simp⟩
  · cases hs; exact ⟨[], by simp⟩
  · cases hs; exact ⟨_, rfl⟩

theorem storeItems_grows (st : St) (items : List Item) : ∀ (h : Heap), ∃ ext, (storeItems st h items).1 = h ++ ext := by
  induction items with
  | nil => intro h; exact ⟨[], by simp [storeItems]⟩
  | cons it rest ih =>
    intro h
    cases it with
    | addr a =>
      simp only [storeItems]
      cases hsa : storeAddr st h a with
      | none => exact ih h
      | some q =>
        obtain ⟨h2, pp⟩ := q
        obtain ⟨e1, rfl⟩ := storeAddr_grows st h a h2 pp hsa
        obtain ⟨e2, he2⟩ := ih (h ++ e1)
        exact ⟨e1 ++ e2, by simp only []; rw [he2, List.append_assoc]⟩
    | int n => simpa [storeItems] using ih h
    | str s => simpa [storeItems] using ih h
    | bool b => simpa [storeItems] using ih h
    | self t => simpa [storeItems] using ih h
    | tbl => simpa [storeItems] using ih h

theorem step_grows (env : Env) (st st' : St) (op : Op) (hno : ∀ a f x, op ≠ .setAddr a f x) (hs : stepOp env st op = some st') :
    ∃ ext, st'.heap = st.heap ++ ext := by
  cases op with
  | get t fl => rw [stepOp_read env st _ rfl] at hs; simp only [Option.map_eq_some_iff] at hs; obtain ⟨o, _, rfl⟩ := hs; exact ⟨[], by simp⟩
  | getAddr a fl => rw [stepOp_read env st _ rfl] at hs; simp only [Option.map_eq_some_iff] at hs; obtain ⟨o, _, rfl⟩ := hs; exact ⟨[], by simp⟩
  | slot k => rw [stepOp_read env st _ rfl] at hs; simp only [Option.map_eq_some_iff] at hs; obtain ⟨o, _, rfl⟩ := hs; exact ⟨[], by simp⟩
  | raise => simp [stepOp] at hs
  | ret => simp [stepOp] at hs
  | setAddr a fl x => exact absurd rfl (hno a fl x)
  | set t fl x =>
    simp only [stepOp] at hs
    cases t <;> (split at hs <;> first
      | (simp only [Option.map_eq_some_iff] at hs; obtain ⟨s, _, rfl⟩ := hs; exact ⟨[], by simp [St.setMeta]⟩)
      | (split at hs <;> first
          | (simp only [Option.map_eq_some_iff] at hs
             obtain ⟨⟨h1, pp⟩, hsa, rfl⟩ := hs
             obtain ⟨ext, he⟩ := storeAddr_grows st st.heap _ h1 pp hsa
             exact ⟨ext, by simpa [St.setMeta] using he⟩)
          | (cases hs
             obtain ⟨ext, he⟩ := storeItems_grows st _ st.heap
             exact ⟨ext, by simpa [St.setMeta] using he⟩)
          | cases hs)
      | cases hs)

theorem run_grows (env : Env) (q : Prog) : ∀ (st : St), (∀ op ∈ q, ∀ a f x, op ≠ .setAddr a f x) →
    ∃ ext, (run env st q).1.heap = st.heap ++ ext := by
  induction q with
  | nil => intro st _; exact ⟨[], by simp [run]⟩
  | cons op rest ih =>
    intro st hq
    by_cases hret : op = .ret
    · subst hret; exact ⟨[], by simp [run]⟩
    · rw [run_unfold env st op rest hret]
      cases hs : stepOp env st op with
      | none => exact ⟨[], by simp⟩
      | some st' =>
        obtain ⟨e1, h1⟩ := step_grows env st st' op (hq op (by simp)) hs
        obtain ⟨e2, h2⟩ := ih st' (fun o ho => hq o (List.mem_cons_of_mem _ ho))
        exact ⟨e1 ++ e2, by simp only []; rw [h2, h1, List.append_assoc]⟩

/-! ### the pool steps of one invocation -/

open Ibx.Model in
/-- a listener invocation that acquired a state gives it back: from every reachable pool state in which the caller is
    idle the four steps get / use / putClear / putAppend are enabled, whatever the call left on the stack; afterwards
    the caller is idle again, nobody else's holdings changed and the state it used is on top of the pool -/
theorem pool_roundtrip (st : Pool.St) (hr : Pool.Reach st) (t : Pool.Tid) (hidle : st.pc t = .idle) (d0 d : Nat) :
    ∃ st', Pool.runOps st (poolSteps t .ok d0 d) = some st' ∧ Pool.Reach st' ∧ st'.pc t = .idle ∧ st'.held = st.held ∧
      (∀ u, u ≠ t → st'.pc u = st.pc u) ∧
      st'.pool = (match st.pool with | [] => [st.next] | s :: rest => s :: rest) ∧
      (∀ s ∈ st'.pool, st'.depth s = 0) := by
  -- first step
  obtain ⟨st1, s, h1, hpc1, hheld1, hpool1, hother1⟩ : ∃ st1 s, Pool.step st (.get t d0) = some st1 ∧ st1.pc t = .holding s ∧
      st1.held = s :: st.held ∧ (s :: st1.pool = match st.pool with | [] => [st.next] | s :: rest => s :: rest) ∧
      (∀ u, u ≠ t → st1.pc u = st.pc u) := by
    cases hp : st.pool with
    | nil =>
      refine ⟨Pool.checkout { st with next := st.next + 1, depth := Pool.upd st.depth st.next d0 } t st.next, st.next, ?_, ?_, ?_, ?_, ?_⟩
      · simp [Pool.step, hidle, hp]
      · simp [Pool.checkout]
      · simp [Pool.checkout]
      · simp [Pool.checkout, hp]
      · intro u hu; simp [Pool.checkout, Pool.upd, hu]
    | cons s rest =>
      refine ⟨Pool.checkout { st with pool := rest } t s, s, ?_, ?_, ?_, ?_, ?_⟩
      · simp [Pool.step, hidle, hp]
      · simp [Pool.checkout]
      · simp [Pool.checkout]
      · simp [Pool.checkout]
      · intro u hu; simp [Pool.checkout, Pool.upd, hu]
  have hr1 : Pool.Reach st1 := Pool.Reach.step _ hr h1
  have hopen : st1.closed s = false := (Ibx.Lemmas.Pool.inv_reach st1 hr1).held_open s (by rw [hheld1]; simp)
  -- use
  let st2 : Pool.St := { st1 with depth := Pool.upd st1.depth s d }
  have h2 : Pool.step st1 (.use t d) = some st2 := by simp [Pool.step, hpc1, st2]
  have hr2 : Pool.Reach st2 := Pool.Reach.step _ hr1 h2
  -- putClear
  let st3 : Pool.St := { st2 with depth := Pool.upd st2.depth s 0, pc := Pool.upd st2.pc t (.cleared s) }
  have h3 : Pool.step st2 (.putClear t) = some st3 := by
    have : st2.pc t = .holding s := hpc1
    have hc : st2.closed s = false := hopen
    simp [Pool.step, this, hc, st3]
  have hr3 : Pool.Reach st3 := Pool.Reach.step _ hr2 h3
  -- putAppend
  let st4 : Pool.St := { Pool.drop st3 t s with pool := s :: st3.pool }
  have h4 : Pool.step st3 (.putAppend t) = some st4 := by
    have : st3.pc t = .cleared s := by simp [st3]
    simp [Pool.step, this, st4]
  have hr4 : Pool.Reach st4 := Pool.Reach.step _ hr3 h4
  refine ⟨st4, ?_, hr4, ?_, ?_, ?_, ?_, ?_⟩
  · simp [poolSteps, Pool.runOps, h1, h2, h3, h4]
  · simp [st4, Pool.drop]
  · simp [st4, Pool.drop, st3, st2, hheld1]
  · intro u hu
    simp [st4, Pool.drop, st3, st2, Pool.upd, hu, hother1 u hu]
  · show s :: st1.pool = _
    exact hpool1
  · intro x hx
    exact (Ibx.Lemmas.Pool.inv_reach st4 hr4).pool_depth x hx

end Ibx.Lemmas.LuaAfter
