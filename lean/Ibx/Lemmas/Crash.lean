import Ibx.Model.FsSteps
/-
  Lemmas for C11: the per-directory reasoning.  Every store operation issues its primitives in ONE mailbox
  directory, so the proofs are about `runDir : Option MDir → List FsStep → Option MDir`; Props/C11.lean lifts
  them to the whole file system.
-/
namespace Ibx.Lemmas.Crash
open Ibx Ibx.Spec.Store Ibx.Model.FsSteps
open Ibx.Model.FileStore (FEnt)

/-! ### raw files -/

theorem rawGet_del_ne (l : List (Nat × Bytes)) (id i : Nat) (h : i ≠ id) : rawGet (rawDel l id) i = rawGet l i := by
  induction l with
  | nil => rfl
  | cons p l ih =>
    obtain ⟨j, c⟩ := p
    simp only [rawDel] at ih
    simp only [rawDel, List.filter_cons]
    split
    · simp only [rawGet]
      split
      · rfl
      · exact ih
    · rename_i hji
      have h1 : j = id := by simpa using hji
      have h2 : ¬ j = i := by omega
      simp only [rawGet, h2, if_false]
      exact ih

theorem rawGet_set_ne (l : List (Nat × Bytes)) (id i : Nat) (c : Bytes) (h : i ≠ id) : rawGet (rawSet l id c) i = rawGet l i := by
  have : id ≠ i := fun e => h e.symm
  simp [rawSet, rawGet, this, rawGet_del_ne l id i h]

theorem rawGet_set_same (l : List (Nat × Bytes)) (id : Nat) (c : Bytes) : rawGet (rawSet l id c) id = some c := by
  simp [rawSet, rawGet]

theorem rawDel_set (l : List (Nat × Bytes)) (id : Nat) (c : Bytes) : rawDel (rawSet l id c) id = rawDel l id := by
  simp [rawSet, rawDel, List.filter_filter]

theorem rawSet_set (l : List (Nat × Bytes)) (id : Nat) (c c' : Bytes) : rawSet (rawSet l id c) id c' = rawSet l id c' := by
  simp [rawSet, rawDel, List.filter_filter]

/-! ### the local invariant -/

/-- directory `d` of mailbox `b` lists exactly `l`, ids are unique, every listed entry has its complete raw -/
def Good (C : Codec) (b : Bytes) (l : List FEnt) : Option MDir → Prop
  | none => l = []
  | some d =>
    (d.index = none ∧ l = [] ∨ d.index = some (C.enc (b, l))) ∧ (l.map (·.id)).Nodup ∧
    ∀ e ∈ l, ∃ r, rawGet d.raws e.id = some r ∧ r.length = e.size

theorem good_listing {C : Codec} {b : Bytes} {l : List FEnt} {d : Option MDir} (h : Good C b l d) : dlisting C d = some l := by
  cases d with
  | none => simp [Good] at h; simp [dlisting, h]
  | some x =>
    obtain ⟨h1 | h1, _, _⟩ := h
    · simp [dlisting, h1.1, h1.2]
    · simp [dlisting, h1, C.dec_enc]

theorem good_view {C : Codec} {b : Bytes} {l : List FEnt} {d : Option MDir} (h : Good C b l d) : dview C d = some (viewOf d l) := by
  simp [dview, good_listing h]

theorem good_content {C : Codec} {b : Bytes} {l : List FEnt} {d : Option MDir} (h : Good C b l d) :
    ∀ e ∈ l, ∃ r, dcontent d e.id = some r ∧ r.length = e.size := by
  cases d with
  | none => simp [Good] at h; simp [h]
  | some x => exact h.2.2

theorem good_nodup {C : Codec} {b : Bytes} {l : List FEnt} {d : Option MDir} (h : Good C b l d) : (l.map (·.id)).Nodup := by
  cases d with
  | none => simp [Good] at h; simp [h]
  | some x => exact h.2.1

theorem good_some_of_ne {C : Codec} {b : Bytes} {l : List FEnt} {d : Option MDir} (h : Good C b l d) (hl : l ≠ []) : ∃ x, d = some x := by
  cases d with
  | none => exact absurd h hl
  | some x => exact ⟨x, rfl⟩

theorem good_empty_index {C : Codec} {b : Bytes} (x : MDir) (h : x.index = none) : Good C b [] (some x) := by
  simp [Good, h]

theorem viewOf_congr (d d' : Option MDir) (l : List FEnt) (h : ∀ e ∈ l, dcontent d' e.id = dcontent d e.id) : viewOf d' l = viewOf d l := by
  simp only [viewOf]
  apply List.map_congr_left
  intro e he
  rw [h e he]

/-! ### all prefixes of a step list -/

/-- every state along `L` from `d` satisfies `R`, and every system call succeeds -/
def Safe (R : Option MDir → Prop) : Option MDir → List FsStep → Prop
  | d, [] => R d
  | d, st :: L => R d ∧ okDir d st = true ∧ Safe R (applyDir d st) L

@[simp] theorem runDir_nil (d : Option MDir) : runDir d [] = d := rfl

theorem runDir_append (d : Option MDir) (L1 L2 : List FsStep) : runDir d (L1 ++ L2) = runDir (runDir d L1) L2 := by
  simp [runDir, List.foldl_append]

theorem safe_append {R : Option MDir → Prop} : ∀ (L1 : List FsStep) (d : Option MDir) (L2 : List FsStep),
    Safe R d L1 → Safe R (runDir d L1) L2 → Safe R d (L1 ++ L2)
  | [], _, _, _, h2 => h2
  | st :: L1, d, L2, h1, h2 => ⟨h1.1, h1.2.1, safe_append L1 (applyDir d st) L2 h1.2.2 h2⟩

theorem safe_mono {R R' : Option MDir → Prop} (hr : ∀ x, R x → R' x) : ∀ (L : List FsStep) (d : Option MDir), Safe R d L → Safe R' d L
  | [], _, h => hr _ h
  | _ :: L, _, h => ⟨hr _ h.1, h.2.1, safe_mono hr L _ h.2.2⟩

theorem safe_head {R : Option MDir → Prop} : ∀ (L : List FsStep) (d : Option MDir), Safe R d L → R d
  | [], _, h => h
  | _ :: _, _, h => h.1

theorem safe_final {R : Option MDir → Prop} : ∀ (L : List FsStep) (d : Option MDir), Safe R d L → R (runDir d L)
  | [], _, h => h
  | _ :: L, _, h => safe_final L _ h.2.2

theorem safe_prefix {R : Option MDir → Prop} : ∀ (L : List FsStep) (d : Option MDir) (k : Nat), Safe R d L → R (runDir d (L.take k))
  | [], _, k, h => by simpa [runDir, Safe] using h
  | _ :: _, _, 0, h => by simpa [runDir] using h.1
  | st :: L, d, k + 1, h => by
    have := safe_prefix L (applyDir d st) k h.2.2
    simpa [runDir] using this

theorem safe_ok {R : Option MDir → Prop} : ∀ (L : List FsStep) (d : Option MDir), Safe R d L → Safe (fun _ => True) d L :=
  fun L d h => safe_mono (fun _ _ => trivial) L d h

theorem safe_nil {R : Option MDir → Prop} {d : Option MDir} (h : R d) : Safe R d [] := h

/-- steps without effect that always succeed (close, rmdir of a parent) -/
theorem safe_par {R : Option MDir → Prop} : ∀ (par : List FsStep) (d : Option MDir), (∀ st ∈ par, ∃ lv, st = .rmdirParent lv) → R d →
    Safe R d par ∧ runDir d par = d
  | [], _, _, h => ⟨h, rfl⟩
  | st :: par, d, hp, h => by
    obtain ⟨lv, rfl⟩ := hp st (by simp)
    have ih := safe_par par d (fun s hs => hp s (by simp [hs])) h
    exact ⟨⟨h, rfl, by simpa [applyDir] using ih.1⟩, by simpa [runDir, applyDir] using ih.2⟩

/-! ### the blocks -/

/-- create index.gob.tmp, write it in any chunking, close, rename: before the rename only the tmp file differs -/
theorem tmp_block {R : Option MDir → Prop} (x : MDir) (chunks : List Bytes)
    (h1 : ∀ t, R (some { x with tmp := t })) (h2 : R (some { x with index := some chunks.flatten, tmp := none })) :
    Safe R (some x) ([.createTmp] ++ chunks.map .appendTmp ++ [.closeTmp, .renameTmp]) ∧
    runDir (some x) ([.createTmp] ++ chunks.map .appendTmp ++ [.closeTmp, .renameTmp]) = some { x with index := some chunks.flatten, tmp := none } := by
  have key : ∀ (cs : List Bytes) (acc : Bytes),
      Safe R (some { x with tmp := some acc }) (cs.map .appendTmp ++ [.closeTmp, .renameTmp]) ↔ R (some { x with index := some (acc ++ cs.flatten), tmp := none }) ∧ True := by
    intro cs
    induction cs with
    | nil => intro acc; simp [Safe, applyDir, okDir, onDir, h1]
    | cons c cs ih =>
      intro acc
      simp only [List.map_cons, List.cons_append, Safe, applyDir, okDir, onDir, Option.map_some, Option.isSome_some, true_and, h1]
      have := ih (acc ++ c)
      simp only [List.append_assoc] at this
      simpa [List.flatten_cons, List.append_assoc] using this
  have key2 : ∀ (cs : List Bytes) (acc : Bytes),
      runDir (some { x with tmp := some acc }) (cs.map .appendTmp ++ [.closeTmp, .renameTmp]) = some { x with index := some (acc ++ cs.flatten), tmp := none } := by
    intro cs
    induction cs with
    | nil => intro acc; simp [runDir, applyDir, onDir]
    | cons c cs ih =>
      intro acc
      have := ih (acc ++ c)
      simp only [runDir] at this
      simp [runDir, applyDir, onDir, this, List.append_assoc]
  constructor
  · have hx : R (some x) := by simpa using h1 x.tmp
    refine ⟨hx, rfl, ?_⟩
    have := (key chunks []).mpr ⟨by simpa using h2, trivial⟩
    simpa [applyDir, onDir, List.append_assoc] using this
  · have := key2 chunks []
    simpa [runDir, applyDir, onDir, List.append_assoc] using this

/-- create `<id>.raw`, write it in any chunking, close: only that file differs -/
theorem raw_block {R : Option MDir → Prop} (x : MDir) (id : Nat) (chunks : List Bytes)
    (h0 : R (some x)) (h1 : ∀ acc, R (some { x with raws := rawSet x.raws id acc })) :
    Safe R (some x) ([.createRaw id] ++ chunks.map (.appendRaw id) ++ [.closeRaw id]) ∧
    runDir (some x) ([.createRaw id] ++ chunks.map (.appendRaw id) ++ [.closeRaw id]) = some { x with raws := rawSet x.raws id chunks.flatten } := by
  have key : ∀ (cs : List Bytes) (acc : Bytes),
      Safe R (some { x with raws := rawSet x.raws id acc }) (cs.map (.appendRaw id) ++ [.closeRaw id]) ∧
      runDir (some { x with raws := rawSet x.raws id acc }) (cs.map (.appendRaw id) ++ [.closeRaw id]) = some { x with raws := rawSet x.raws id (acc ++ cs.flatten) } := by
    intro cs
    induction cs with
    | nil => intro acc; simp [Safe, runDir, applyDir, okDir, h1]
    | cons c cs ih =>
      intro acc
      have := ih (acc ++ c)
      simp only [List.map_cons, List.cons_append, Safe, runDir, List.foldl_cons, applyDir, okDir, onDir, Option.map_some,
        rawGet_set_same, Option.isSome_some, rawSet_set, h1, true_and]
      simp only [runDir] at this
      simpa [List.append_assoc] using this
  have := key chunks []
  constructor
  · refine ⟨h0, rfl, ?_⟩
    simpa [applyDir, onDir, List.append_assoc] using this.1
  · have h2 := this.2
    simp only [runDir] at h2
    simpa [runDir, applyDir, onDir, List.append_assoc] using h2

/-- directory `y` holds the name `e` -/
def has (y : MDir) : DirEnt → Prop
  | .index => y.index ≠ none
  | .tmp => y.tmp ≠ none
  | .raw id => ∃ p ∈ y.raws, p.1 = id

theorem has_entries (y : MDir) (e : DirEnt) (h : has y e) : e ∈ entries y := by
  cases e with
  | index => simp [has] at h; simp [entries, Option.isSome_iff_ne_none, h]
  | tmp => simp [has] at h; simp [entries, Option.isSome_iff_ne_none, h]
  | raw id =>
    obtain ⟨p, hp, rfl⟩ := h
    simp only [entries, List.mem_append, List.mem_map]
    exact Or.inr ⟨p, hp, rfl⟩

theorem has_rmEnt (y : MDir) (e e' : DirEnt) (h : has (rmEnt y e) e') : has y e' ∧ e' ≠ e := by
  cases e <;> cases e' <;> simp_all [has, rmEnt, rawDel]

theorem empty_of_no_has (y : MDir) (h : ∀ e, ¬ has y e) : y.index = none ∧ y.tmp = none ∧ y.raws = [] := by
  refine ⟨?_, ?_, ?_⟩
  · have := h .index; simpa [has] using this
  · have := h .tmp; simpa [has] using this
  · cases hr : y.raws with
    | nil => rfl
    | cons p l => exact absurd ⟨p, by simp [hr], rfl⟩ (h (.raw p.1))

theorem rmEntries_run : ∀ (ents : List DirEnt) (x : MDir),
    ∃ y, runDir (some x) (ents.map .rmEntry) = some y ∧ ∀ e', has y e' → has x e' ∧ e' ∉ ents
  | [], x => ⟨x, rfl, fun e' h => ⟨h, by simp⟩⟩
  | e :: ents, x => by
    obtain ⟨y, hy, hh⟩ := rmEntries_run ents (rmEnt x e)
    refine ⟨y, by simpa [runDir, applyDir, onDir] using hy, ?_⟩
    intro e' h'
    obtain ⟨h1, h2⟩ := hh e' h'
    obtain ⟨h3, h4⟩ := has_rmEnt x e e' h1
    exact ⟨h3, by simp [h4, h2]⟩

theorem rmEntries_safe {R : Option MDir → Prop} (h1 : ∀ y : MDir, y.index = none → R (some y)) :
    ∀ (ents : List DirEnt) (x : MDir), x.index = none → Safe R (some x) (ents.map .rmEntry)
  | [], x, hx => h1 x hx
  | e :: ents, x, hx => by
    refine ⟨h1 x hx, rfl, ?_⟩
    have : (rmEnt x e).index = none := by cases e <;> simp [rmEnt, hx]
    simpa [applyDir, onDir] using rmEntries_safe h1 ents (rmEnt x e) this

theorem run_appends (x : MDir) (id : Nat) : ∀ (cs : List Bytes) (acc : Bytes),
    runDir (some { x with raws := rawSet x.raws id acc }) (cs.map (.appendRaw id)) = some { x with raws := rawSet x.raws id (acc ++ cs.flatten) }
  | [], acc => by simp [runDir]
  | c :: cs, acc => by
    have := run_appends x id cs (acc ++ c)
    simp only [runDir] at this
    simp [runDir, applyDir, onDir, rawGet_set_same, rawSet_set, this, List.append_assoc]

/-- os.RemoveAll of a directory that has no index any more: it never gets one back, and once everything the
    directory held has been unlinked (in whatever order) the rmdir succeeds -/
theorem removeAll_block {R : Option MDir → Prop} (h1 : ∀ y : MDir, y.index = none → R (some y)) (h2 : R none)
    (ents : List DirEnt) (x : MDir) (hx : x.index = none) (hall : ∀ e ∈ entries x, e ∈ ents) :
    Safe R (some x) (ents.map .rmEntry ++ [.rmdir]) ∧ runDir (some x) (ents.map .rmEntry ++ [.rmdir]) = none := by
  obtain ⟨y, hy, hh⟩ := rmEntries_run ents x
  have hempty := empty_of_no_has y (fun e' h' => (hh e' h').2 (hall e' (has_entries x e' (hh e' h').1)))
  constructor
  · apply safe_append _ _ _ (rmEntries_safe h1 ents x hx)
    rw [hy]
    refine ⟨h1 y hempty.1, by simp [okDir, hempty], ?_⟩
    simpa [Safe, applyDir, hempty] using h2
  · rw [runDir_append, hy]
    simp [runDir, applyDir, hempty]

/-! ### list helpers -/

theorem eraseFirst_sublist (id : Nat) : ∀ l : List FEnt, (eraseFirst id l).Sublist l
  | [] => List.Sublist.slnil
  | e :: l => by
    simp only [eraseFirst]
    split
    · exact List.sublist_cons_self e l
    · exact (eraseFirst_sublist id l).cons_cons e

theorem not_mem_ids_eraseFirst (id : Nat) : ∀ l : List FEnt, (l.map (·.id)).Nodup → id ∉ (eraseFirst id l).map (·.id)
  | [], _ => by simp [eraseFirst]
  | e :: l, h => by
    simp only [List.map_cons, List.nodup_cons] at h
    simp only [eraseFirst]
    split
    · rename_i he; rw [← he]; exact h.1
    · rename_i he
      simp only [List.map_cons, List.mem_cons, not_or]
      exact ⟨fun x => he x.symm, not_mem_ids_eraseFirst id l h.2⟩

theorem exists_of_any (id : Nat) (l : List FEnt) (h : l.any (fun e => e.id = id) = true) : ∃ e ∈ l, e.id = id := by
  simpa using h

theorem viewOf_append (d : Option MDir) (l1 l2 : List FEnt) : viewOf d (l1 ++ l2) = viewOf d l1 ++ viewOf d l2 := by
  simp [viewOf]

theorem viewOf_fst (d : Option MDir) (l : List FEnt) : (viewOf d l).map (·.1) = l := by
  simp [viewOf, Function.comp_def]

theorem viewOf_drop (d : Option MDir) (l : List FEnt) (j : Nat) : viewOf d (l.drop j) = (viewOf d l).drop j := by
  simp [viewOf, List.map_drop]

theorem viewOf_eraseFirst (d : Option MDir) (id : Nat) : ∀ l : List FEnt, viewOf d (eraseFirst id l) = eraseFirstV id (viewOf d l)
  | [] => rfl
  | e :: l => by
    simp only [eraseFirst, viewOf, List.map_cons, eraseFirstV]
    split
    · rfl
    · have := viewOf_eraseFirst d id l
      simp only [viewOf] at this
      simp [this]

theorem viewOf_markFirst (d : Option MDir) (id : Nat) : ∀ l : List FEnt, viewOf d (markFirst id l) = markFirstV id (viewOf d l)
  | [] => rfl
  | e :: l => by
    simp only [markFirst, viewOf, List.map_cons, markFirstV]
    split
    · rfl
    · have := viewOf_markFirst d id l
      simp only [viewOf] at this
      simp [this]

theorem markFirst_ids (id : Nat) : ∀ l : List FEnt, (markFirst id l).map (·.id) = l.map (·.id)
  | [] => rfl
  | e :: l => by
    simp only [markFirst]
    split
    · rfl
    · simp [markFirst_ids id l]

theorem markFirst_mem (id : Nat) : ∀ (l : List FEnt) (e : FEnt), e ∈ markFirst id l → ∃ e' ∈ l, e'.id = e.id ∧ e'.size = e.size
  | [], _, h => by simp [markFirst] at h
  | a :: l, e, h => by
    simp only [markFirst] at h
    split at h
    · rcases List.mem_cons.mp h with rfl | h
      · exact ⟨a, by simp, rfl, rfl⟩
      · exact ⟨e, by simp [h], rfl, rfl⟩
    · rcases List.mem_cons.mp h with rfl | h
      · exact ⟨e, by simp, rfl, rfl⟩
      · obtain ⟨e', h1, h2⟩ := markFirst_mem id l e h
        exact ⟨e', by simp [h1], h2⟩

theorem evictRest_eq (cap : Nat) : ∀ l : List FEnt, evictRest cap l = l.drop (nEvict cap l)
  | [] => rfl
  | e :: l => by
    simp only [evictRest, nEvict]
    split
    · simp [evictRest_eq cap l]
    · rfl

theorem nEvict_le (cap : Nat) : ∀ l : List FEnt, nEvict cap l ≤ l.length
  | [] => by simp [nEvict]
  | e :: l => by
    simp only [nEvict]
    split
    · have := nEvict_le cap l; simp; omega
    · simp

/-- closed form: the cap loop evicts down to `cap - 1` entries -/
theorem nEvict_closed (cap : Nat) (hc : cap > 0) : ∀ l : List FEnt, nEvict cap l = l.length + 1 - cap
  | [] => by simp [nEvict]; omega
  | e :: l => by
    simp only [nEvict, List.length_cons]
    split
    · rw [nEvict_closed cap hc l]; omega
    · omega

/-! ### the operations, current code (`Variant.safe`) -/

section Ops
variable (C : Codec) (ch : Chooser) (par : List FsStep) (b : Bytes)

/-- along a program: the directory lists some `l` (with the local invariant) whose view is an allowed one -/
def Ok (A : View → Prop) (d : Option MDir) : Prop := ∃ l, Good C b l d ∧ A (viewOf d l)

theorem good_raws_change {l : List FEnt} {x : MDir} (raws' : List (Nat × Bytes)) (hg : Good C b l (some x))
    (h : ∀ e ∈ l, rawGet raws' e.id = rawGet x.raws e.id) :
    Good C b l (some { x with raws := raws' }) ∧ viewOf (some { x with raws := raws' }) l = viewOf (some x) l := by
  refine ⟨⟨hg.1, hg.2.1, fun e he => ?_⟩, viewOf_congr _ _ _ (fun e he => by simp [dcontent, h e he])⟩
  rw [h e he]; exact hg.2.2 e he

theorem write_index_safe (x : MDir) (l l' : List FEnt) (hg : Good C b l (some x))
    (hnd : (l'.map (·.id)).Nodup) (hraw : ∀ e ∈ l', ∃ r, rawGet x.raws e.id = some r ∧ r.length = e.size) :
    Safe (Ok C b (fun V => V = viewOf (some x) l ∨ V = viewOf (some x) l')) (some x) (writeIndexP C Variant.safe ch b (some x) l') ∧
    runDir (some x) (writeIndexP C Variant.safe ch b (some x) l') = some { x with index := some (C.enc (b, l')), tmp := none } ∧
    Good C b l' (some { x with index := some (C.enc (b, l')), tmp := none }) ∧
    viewOf (some { x with index := some (C.enc (b, l')), tmp := none }) l' = viewOf (some x) l' := by
  have hy : Good C b l' (some { x with index := some (C.enc (b, l')), tmp := none }) := ⟨Or.inr rfl, hnd, hraw⟩
  have hblk := tmp_block (R := Ok C b (fun V => V = viewOf (some x) l ∨ V = viewOf (some x) l')) x (ch.chunks (C.enc (b, l')))
    (fun t => ⟨l, ⟨hg.1, hg.2.1, hg.2.2⟩, Or.inl rfl⟩)
    (by rw [ch.chunks_flatten]; exact ⟨l', hy, Or.inr rfl⟩)
  rw [ch.chunks_flatten] at hblk
  have hp : writeIndexP C Variant.safe ch b (some x) l' = [.createTmp] ++ (ch.chunks (C.enc (b, l'))).map .appendTmp ++ [.closeTmp, .renameTmp] := by
    simp [writeIndexP, Variant.safe]
  rw [hp]
  exact ⟨hblk.1, hblk.2, hy, rfl⟩

theorem remove_dir_safe (d : Option MDir) (l : List FEnt) (hg : Good C b l d) (hpar : ∀ st ∈ par, ∃ lv, st = .rmdirParent lv) :
    Safe (Ok C b (fun V => V = viewOf d l ∨ V = [])) d (removeDirP Variant.safe ch par d) ∧
    runDir d (removeDirP Variant.safe ch par d) = none := by
  have hnone : Ok C b (fun V => V = viewOf d l ∨ V = []) none := ⟨[], rfl, Or.inr rfl⟩
  cases d with
  | none =>
    simp only [removeDirP, Variant.safe, applyDir, onDir, Option.map_none, removeAllP, Option.isSome_none, Bool.false_eq_true, if_false, List.append_nil]
    exact ⟨⟨hnone, rfl, hnone, rfl, hnone⟩, rfl⟩
  | some x =>
    have hidx : ∀ y : MDir, y.index = none → Ok C b (fun V => V = viewOf (some x) l ∨ V = []) (some y) :=
      fun y hy => ⟨[], good_empty_index y hy, Or.inr rfl⟩
    have hblk := removeAll_block hidx hnone (ch.order (entries { x with index := none })) { x with index := none } rfl
      (fun e he => (ch.order_perm _).mem_iff.mpr he)
    have hp := safe_par par none hpar hnone
    have h0 : Ok C b (fun V => V = viewOf (some x) l ∨ V = []) (some x) := ⟨l, hg, Or.inl rfl⟩
    simp only [removeDirP, Variant.safe, applyDir, onDir, Option.map_some, removeAllP, Option.isSome_some, if_true]
    constructor
    · apply safe_append
      · exact ⟨h0, rfl, by simpa [applyDir, onDir] using hblk.1⟩
      · have : runDir (some x) ([FsStep.unlinkIndex] ++ (List.map FsStep.rmEntry (ch.order (entries { x with index := none })) ++ [FsStep.rmdir])) = none := by
          simpa [runDir, applyDir, onDir] using hblk.2
        rw [this]; exact hp.1
    · rw [runDir_append]
      have : runDir (some x) ([FsStep.unlinkIndex] ++ (List.map FsStep.rmEntry (ch.order (entries { x with index := none })) ++ [FsStep.rmdir])) = none := by
        simpa [runDir, applyDir, onDir] using hblk.2
      rw [this]; exact hp.2

theorem remove_found_safe (d : Option MDir) (l : List FEnt) (id : Nat) (hg : Good C b l d) (hin : l.any (fun e => e.id = id) = true)
    (hpar : ∀ st ∈ par, ∃ lv, st = .rmdirParent lv) :
    Safe (Ok C b (fun V => V = viewOf d l ∨ V = viewOf d (eraseFirst id l))) d (removeFoundP C Variant.safe ch par b d (eraseFirst id l) id) ∧
    Good C b (eraseFirst id l) (runDir d (removeFoundP C Variant.safe ch par b d (eraseFirst id l) id)) ∧
    viewOf (runDir d (removeFoundP C Variant.safe ch par b d (eraseFirst id l) id)) (eraseFirst id l) = viewOf d (eraseFirst id l) := by
  by_cases hl' : eraseFirst id l = []
  · have h := remove_dir_safe C ch par b d l hg hpar
    simp only [removeFoundP, writeIndexAny, hl', if_true, List.append_nil]
    refine ⟨?_, ?_, ?_⟩
    · exact safe_mono (fun z hz => by simpa [viewOf] using hz) _ _ h.1
    · rw [h.2]; rfl
    · simp [viewOf]
  · obtain ⟨e0, he0, hid⟩ := exists_of_any id l hin
    have hlne : l ≠ [] := by intro h; simp [h] at he0
    obtain ⟨x, rfl⟩ := good_some_of_ne hg hlne
    have hsub := eraseFirst_sublist id l
    have hnd : ((eraseFirst id l).map (·.id)).Nodup := (hg.2.1).sublist (hsub.map _)
    have hraw : ∀ e ∈ eraseFirst id l, ∃ r, rawGet x.raws e.id = some r ∧ r.length = e.size := fun e he => hg.2.2 e (hsub.subset he)
    obtain ⟨hs, hr, hy, hv⟩ := write_index_safe C ch b x l (eraseFirst id l) hg hnd hraw
    have hnotin := not_mem_ids_eraseFirst id l hg.2.1
    have hne : ∀ e ∈ eraseFirst id l, e.id ≠ id := fun e he h => hnotin (by simp only [List.mem_map]; exact ⟨e, he, h⟩)
    obtain ⟨hz, hzv⟩ := good_raws_change C b (rawDel x.raws id) hy (fun e he => rawGet_del_ne _ _ _ (hne e he))
    simp only [removeFoundP, writeIndexAny, hl', if_false]
    refine ⟨?_, ?_, ?_⟩
    · apply safe_append _ _ _ hs
      rw [hr]
      refine ⟨⟨_, hy, Or.inr hv⟩, ?_, ⟨_, hz, Or.inr (by rw [← hv]; exact hzv)⟩⟩
      obtain ⟨r, hr1, _⟩ := hg.2.2 e0 he0
      simp [okDir, ← hid, hr1]
    · rw [runDir_append, hr]; simpa [runDir, applyDir, onDir] using hz
    · rw [runDir_append, hr]
      simp only [runDir, List.foldl_cons, List.foldl_nil, applyDir, onDir, Option.map_some]
      rw [← hv]; exact hzv

theorem evict_safe (cap : Nat) (hpar : ∀ st ∈ par, ∃ lv, st = .rmdirParent lv) :
    ∀ (l : List FEnt) (d : Option MDir), Good C b l d →
    Safe (Ok C b (fun V => ∃ j, j ≤ nEvict cap l ∧ V = (viewOf d l).drop j)) d (evictP C Variant.safe ch par cap b d l) ∧
    Good C b (evictRest cap l) (runDir d (evictP C Variant.safe ch par cap b d l)) ∧
    viewOf (runDir d (evictP C Variant.safe ch par cap b d l)) (evictRest cap l) = (viewOf d l).drop (nEvict cap l)
  | [], d, hg => ⟨⟨[], hg, 0, Nat.le_refl _, rfl⟩, hg, rfl⟩
  | e :: l, d, hg => by
    simp only [evictP, evictRest, nEvict]
    split
    · have herase : eraseFirst e.id (e :: l) = l := by simp [eraseFirst]
      have hrm := remove_found_safe C ch par b d (e :: l) e.id hg (by simp) hpar
      rw [herase] at hrm
      obtain ⟨hs, hg1, hv1⟩ := hrm
      obtain ⟨is, ig, iv⟩ := evict_safe cap hpar l _ hg1
      have hdrop : viewOf d l = (viewOf d (e :: l)).drop 1 := by simp [viewOf]
      refine ⟨?_, ?_, ?_⟩
      · apply safe_append
        · refine safe_mono (fun z hz => ?_) _ _ hs
          obtain ⟨l2, h1, h2⟩ := hz
          refine ⟨l2, h1, ?_⟩
          rcases h2 with h2 | h2
          · exact ⟨0, Nat.zero_le _, by simpa using h2⟩
          · exact ⟨1, by omega, by rw [h2, hdrop]⟩
        · refine safe_mono (fun z hz => ?_) _ _ is
          obtain ⟨l2, h1, j, hj, h2⟩ := hz
          refine ⟨l2, h1, j + 1, by omega, ?_⟩
          rw [h2, hv1, hdrop, List.drop_drop]
          congr 1; omega
      · rw [runDir_append]; exact ig
      · rw [runDir_append, iv, hv1, hdrop, List.drop_drop]
        congr 1; omega
    · exact ⟨⟨e :: l, hg, 0, Nat.le_refl _, rfl⟩, hg, rfl⟩

theorem write_raw_safe (d : Option MDir) (l : List FEnt) (id : Nat) (src : Bytes) (hg : Good C b l d) (hfresh : id ∉ l.map (·.id)) :
    ∃ x, Safe (Ok C b (fun V => V = viewOf d l)) d (writeRawP ch d id src) ∧
      runDir d (writeRawP ch d id src) = some { x with raws := rawSet x.raws id src } ∧
      Good C b l (some x) ∧ viewOf (some x) l = viewOf d l := by
  have hne : ∀ e ∈ l, e.id ≠ id := fun e he h => hfresh (by simp only [List.mem_map]; exact ⟨e, he, h⟩)
  have main : ∀ x : MDir, Good C b l (some x) →
      Safe (Ok C b (fun V => V = viewOf (some x) l)) (some x) ([.createRaw id] ++ (ch.chunks src).map (.appendRaw id) ++ [.closeRaw id]) ∧
      runDir (some x) ([.createRaw id] ++ (ch.chunks src).map (.appendRaw id) ++ [.closeRaw id]) = some { x with raws := rawSet x.raws id src } := by
    intro x hx
    have := raw_block (R := Ok C b (fun V => V = viewOf (some x) l)) x id (ch.chunks src) ⟨l, hx, rfl⟩
      (fun acc => by
        obtain ⟨h1, h2⟩ := good_raws_change C b (rawSet x.raws id acc) hx (fun e he => rawGet_set_ne _ _ _ _ (hne e he))
        exact ⟨l, h1, h2⟩)
    rw [ch.chunks_flatten] at this
    exact this
  cases d with
  | none =>
    have hl : l = [] := hg
    subst hl
    have hx : Good C b [] (some MDir.empty) := good_empty_index _ rfl
    obtain ⟨m1, m2⟩ := main MDir.empty hx
    refine ⟨MDir.empty, ?_, ?_, hx, rfl⟩
    · simp only [writeRawP, Option.isNone_none, if_true, List.cons_append, List.nil_append]
      refine ⟨⟨[], rfl, rfl⟩, rfl, ?_⟩
      simpa [applyDir, viewOf, List.append_assoc] using m1
    · simp only [writeRawP, Option.isNone_none, if_true, List.cons_append, List.nil_append]
      simpa [runDir, applyDir, List.append_assoc] using m2
  | some x =>
    obtain ⟨m1, m2⟩ := main x hg
    refine ⟨x, ?_, ?_, hg, rfl⟩
    · simpa [writeRawP] using m1
    · simpa [writeRawP] using m2

theorem add_safe (cap : Nat) (d : Option MDir) (l0 : List FEnt) (id : Nat) (hdr : Meta) (src : Bytes)
    (hg : Good C b l0 d) (hfresh : id ∉ l0.map (·.id)) (hpar : ∀ st ∈ par, ∃ lv, st = .rmdirParent lv) :
    let n := if cap > 0 then nEvict cap l0 else 0
    let Vn := (viewOf d l0).drop n ++ [(newEnt id hdr src, some src)]
    Safe (Ok C b (fun V => (∃ j, j ≤ n ∧ V = (viewOf d l0).drop j) ∨ V = Vn)) d (addP C Variant.safe ch par cap b d id hdr src) ∧
    Ok C b (fun V => V = Vn) (runDir d (addP C Variant.safe ch par cap b d id hdr src)) := by
  intro n Vn
  -- the cap loop
  have hev : ∃ (ev : List FsStep) (l1 : List FEnt), ev = (if cap > 0 then evictP C Variant.safe ch par cap b d l0 else []) ∧
      l1 = (if cap > 0 then evictRest cap l0 else l0) ∧
      Safe (Ok C b (fun V => ∃ j, j ≤ n ∧ V = (viewOf d l0).drop j)) d ev ∧ Good C b l1 (runDir d ev) ∧
      viewOf (runDir d ev) l1 = (viewOf d l0).drop n ∧ l1 = l0.drop n := by
    by_cases hc : cap > 0
    · obtain ⟨h1, h2, h3⟩ := evict_safe C ch par b cap hpar l0 d hg
      refine ⟨_, _, rfl, rfl, ?_, ?_, ?_, ?_⟩ <;> simp only [hc, if_true, n]
      · exact h1
      · exact h2
      · exact h3
      · exact evictRest_eq cap l0
    · refine ⟨_, _, rfl, rfl, ?_, ?_, ?_, ?_⟩ <;> simp only [hc, if_false, n]
      · exact ⟨l0, hg, 0, Nat.le_refl _, rfl⟩
      · exact hg
      · simp [runDir]
      · simp
  obtain ⟨ev, l1, hev, hl1, hs1, hg1, hv1, hl1d⟩ := hev
  have hfresh1 : id ∉ l1.map (·.id) := by
    intro h; apply hfresh
    rw [hl1d, List.map_drop] at h
    exact List.mem_of_mem_drop h
  -- the raw file
  obtain ⟨x, hs2, hr2, hgx, hvx⟩ := write_raw_safe C ch b (runDir d ev) l1 id src hg1 hfresh1
  -- the index
  let x2 : MDir := { x with raws := rawSet x.raws id src }
  have hne : ∀ e ∈ l1, e.id ≠ id := fun e he h => hfresh1 (by simp only [List.mem_map]; exact ⟨e, he, h⟩)
  obtain ⟨hg2, hv2⟩ := good_raws_change C b (rawSet x.raws id src) hgx (fun e he => rawGet_set_ne _ _ _ _ (hne e he))
  have hnd : ((l1 ++ [newEnt id hdr src]).map (·.id)).Nodup := by
    simp only [List.map_append, List.map_cons, List.map_nil]
    rw [List.nodup_append]
    refine ⟨good_nodup hg1, by simp, ?_⟩
    intro a ha b' hb
    simp only [List.mem_singleton] at hb
    subst hb
    intro h; subst h
    exact hfresh1 (by simpa [newEnt] using ha)
  have hraw : ∀ e ∈ l1 ++ [newEnt id hdr src], ∃ r, rawGet x2.raws e.id = some r ∧ r.length = e.size := by
    intro e he
    rcases List.mem_append.mp he with he | he
    · exact hg2.2.2 e he
    · simp only [List.mem_singleton] at he
      subst he
      exact ⟨src, by simp [x2, newEnt, rawGet_set_same], by simp [newEnt]⟩
  obtain ⟨hs3, hr3, hg3, hv3⟩ := write_index_safe C ch b x2 l1 (l1 ++ [newEnt id hdr src]) hg2 hnd hraw
  have hVn : viewOf (some x2) (l1 ++ [newEnt id hdr src]) = Vn := by
    rw [viewOf_append, hv2, hvx, hv1]
    simp [Vn, viewOf, dcontent, x2, newEnt, rawGet_set_same]
  have hprog : addP C Variant.safe ch par cap b d id hdr src = ev ++ writeRawP ch (runDir d ev) id src ++
      writeIndexP C Variant.safe ch b (some x2) (l1 ++ [newEnt id hdr src]) := by
    simp only [addP, good_listing hg]
    rw [← hev, ← hl1, hr2]
  rw [hprog]
  constructor
  · apply safe_append
    · apply safe_append
      · exact safe_mono (fun z hz => by obtain ⟨l2, h1, h2⟩ := hz; exact ⟨l2, h1, Or.inl h2⟩) _ _ hs1
      · refine safe_mono (fun z hz => ?_) _ _ hs2
        obtain ⟨l2, h1, h2⟩ := hz
        exact ⟨l2, h1, Or.inl ⟨n, Nat.le_refl _, by rw [h2, hv1]⟩⟩
    · rw [runDir_append, hr2]
      refine safe_mono (fun z hz => ?_) _ _ hs3
      obtain ⟨l2, h1, h2⟩ := hz
      refine ⟨l2, h1, ?_⟩
      rcases h2 with h2 | h2
      · exact Or.inl ⟨n, Nat.le_refl _, by rw [h2, hv2, hvx, hv1]⟩
      · exact Or.inr (by rw [h2, hVn])
  · rw [runDir_append, runDir_append, hr2, hr3]
    exact ⟨_, hg3, by rw [hv3, hVn]⟩

theorem find_viewOf (d : Option MDir) (l : List FEnt) (id : Nat) :
    (viewOf d l).find? (fun p => p.1.id = id) = (l.find? (fun e => e.id = id)).map (fun e => (e, dcontent d e.id)) := by
  induction l with
  | nil => rfl
  | cons e l ih =>
    simp only [viewOf, List.map_cons, List.find?_cons] at ih ⊢
    by_cases h : e.id = id <;> simp [h, ih]

theorem any_viewOf (d : Option MDir) (l : List FEnt) (id : Nat) :
    (viewOf d l).any (fun p => p.1.id = id) = l.any (fun e => e.id = id) := by
  simp [viewOf, List.any_map, Function.comp_def]

theorem seen_safe (d : Option MDir) (l0 : List FEnt) (id : Nat) (hg : Good C b l0 d) :
    Safe (Ok C b (fun V => V ∈ unitViews 0 (viewOf d l0) (.seen b id))) d (seenP C Variant.safe ch b d id) ∧
    Ok C b (fun V => (unitViews 0 (viewOf d l0) (.seen b id)).getLast? = some V) (runDir d (seenP C Variant.safe ch b d id)) := by
  simp only [seenP, good_listing hg, unitViews, find_viewOf]
  cases hf : l0.find? (fun e => e.id = id) with
  | none => simp only [Option.map_none]; exact ⟨⟨l0, hg, by simp⟩, ⟨l0, hg, by simp [runDir]⟩⟩
  | some e =>
    simp only [Option.map_some]
    by_cases hs : e.seen = true
    · simp only [hs, if_true]; exact ⟨⟨l0, hg, by simp⟩, ⟨l0, hg, by simp [runDir]⟩⟩
    · simp only [hs, Bool.false_eq_true, if_false]
      have hlne : l0 ≠ [] := by intro h; simp [h] at hf
      obtain ⟨x, rfl⟩ := good_some_of_ne hg hlne
      have hnd : ((markFirst id l0).map (·.id)).Nodup := by rw [markFirst_ids]; exact hg.2.1
      have hraw : ∀ e ∈ markFirst id l0, ∃ r, rawGet x.raws e.id = some r ∧ r.length = e.size := by
        intro e he
        obtain ⟨e', h1, h2, h3⟩ := markFirst_mem id l0 e he
        rw [← h2, ← h3]; exact hg.2.2 e' h1
      obtain ⟨h1, h2, h3, h4⟩ := write_index_safe C ch b x l0 (markFirst id l0) hg hnd hraw
      constructor
      · refine safe_mono (fun z hz => ?_) _ _ h1
        obtain ⟨l2, g2, v2⟩ := hz
        refine ⟨l2, g2, ?_⟩
        rcases v2 with v2 | v2
        · simp [v2]
        · simp [v2, viewOf_markFirst]
      · rw [h2]; exact ⟨_, h3, by simp [h4, viewOf_markFirst]⟩

theorem remove_safe (d : Option MDir) (l0 : List FEnt) (id : Nat) (hg : Good C b l0 d) (hpar : ∀ st ∈ par, ∃ lv, st = .rmdirParent lv) :
    Safe (Ok C b (fun V => V ∈ unitViews 0 (viewOf d l0) (.remove b id))) d (removeP C Variant.safe ch par b d id) ∧
    Ok C b (fun V => (unitViews 0 (viewOf d l0) (.remove b id)).getLast? = some V) (runDir d (removeP C Variant.safe ch par b d id)) := by
  simp only [removeP, good_listing hg, unitViews, any_viewOf]
  by_cases hin : l0.any (fun e => e.id = id) = true
  · simp only [hin, if_true]
    obtain ⟨h1, h2, h3⟩ := remove_found_safe C ch par b d l0 id hg hin hpar
    constructor
    · refine safe_mono (fun z hz => ?_) _ _ h1
      obtain ⟨l2, g2, v2⟩ := hz
      refine ⟨l2, g2, ?_⟩
      rcases v2 with v2 | v2
      · simp [v2]
      · simp [v2, viewOf_eraseFirst]
    · exact ⟨_, h2, by simp [h3, viewOf_eraseFirst]⟩
  · simp only [hin, Bool.false_eq_true, if_false]
    exact ⟨⟨l0, hg, by simp⟩, ⟨l0, hg, by simp [runDir]⟩⟩

theorem purge_safe (d : Option MDir) (l0 : List FEnt) (hg : Good C b l0 d) (hpar : ∀ st ∈ par, ∃ lv, st = .rmdirParent lv) :
    Safe (Ok C b (fun V => V ∈ unitViews 0 (viewOf d l0) (.purge b))) d (purgeP C Variant.safe ch par d) ∧
    Ok C b (fun V => (unitViews 0 (viewOf d l0) (.purge b)).getLast? = some V) (runDir d (purgeP C Variant.safe ch par d)) := by
  simp only [purgeP, good_listing hg, unitViews]
  obtain ⟨h1, h2⟩ := remove_dir_safe C ch par b d l0 hg hpar
  constructor
  · refine safe_mono (fun z hz => ?_) _ _ h1
    obtain ⟨l2, g2, v2⟩ := hz
    exact ⟨l2, g2, by rcases v2 with v2 | v2 <;> simp [v2]⟩
  · rw [h2]; exact ⟨[], rfl, by simp [viewOf]⟩

/-- all operations: every state along the program is Good with one of the operation's unit views, every system call
    succeeds, and the final state has the last unit view -/
theorem prog_safe (cap : Nat) (d : Option MDir) (l0 : List FEnt) (op : Ibx.Model.FsSteps.Op) (hb : op.box = b) (hg : Good C b l0 d)
    (hfresh : ∀ id hdr src, op = .add b id hdr src → id ∉ l0.map (·.id)) (hpar : ∀ st ∈ par, ∃ lv, st = .rmdirParent lv) :
    Safe (Ok C b (fun V => V ∈ unitViews cap (viewOf d l0) op)) d (progD C Variant.safe ch par cap d op) ∧
    Ok C b (fun V => (unitViews cap (viewOf d l0) op).getLast? = some V) (runDir d (progD C Variant.safe ch par cap d op)) := by
  cases op with
  | add b' id hdr src =>
    simp only [Op.box] at hb; subst hb
    obtain ⟨h1, h2⟩ := add_safe C ch par b' cap d l0 id hdr src hg (hfresh id hdr src rfl) hpar
    simp only [progD, unitViews, viewOf_fst]
    constructor
    · refine safe_mono (fun z hz => ?_) _ _ h1
      obtain ⟨l2, g2, v2⟩ := hz
      refine ⟨l2, g2, ?_⟩
      rcases v2 with ⟨j, hj, v2⟩ | v2
      · simp only [List.mem_append, List.mem_map, List.mem_range]
        exact Or.inl ⟨j, by omega, v2.symm⟩
      · simp [v2]
    · obtain ⟨l2, g2, v2⟩ := h2
      exact ⟨l2, g2, by simp [v2]⟩
  | seen b' id =>
    simp only [Op.box] at hb; subst hb
    simpa [progD, unitViews] using seen_safe C ch b' d l0 id hg
  | remove b' id =>
    simp only [Op.box] at hb; subst hb
    simpa [progD, unitViews] using remove_safe C ch par b' d l0 id hg hpar
  | purge b' =>
    simp only [Op.box] at hb; subst hb
    simpa [progD, unitViews] using purge_safe C ch par b' d l0 hg hpar

end Ops

end Ibx.Lemmas.Crash
