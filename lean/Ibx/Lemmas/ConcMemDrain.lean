import Ibx.Lemmas.ConcMemTerm
/-
  Draining the memory store: from every state that satisfies the lock invariants of the code's variant, the
  operations IN FLIGHT can always be brought to completion — by steps of the threads that are in flight and of the
  enforcer alone, without any thread beginning a new operation.

  * `progress_nstep`: while some thread is inside an operation (or the enforcer is serving a request) a step that
    is not the beginning of an operation is enabled (the argument of `progress`, keeping track of the step taken);
  * `nstep_decreases`: every such step strictly decreases a lexicographic measure
        ( Σ stages before the critical section,  Σ lengths of the todo lists,  Σ active threads + enforcer measure );
  * `drain`: hence a finite sequence of such steps ends in a state where every thread is idle and the enforcer is
    back in its `select`.
-/
namespace Ibx.Model.ConcMem

/-- a step that does not begin a new operation (`Step.start` is the only step that changes a program) -/
def NStep (v : Variant) (c : Cfg) (s s' : St) : Prop := Step v c s s' ∧ s'.prog = s.prog

inductive NSteps (v : Variant) (c : Cfg) : St → St → Prop
  | refl (s : St) : NSteps v c s s
  | head {s s' s'' : St} : NStep v c s s' → NSteps v c s' s'' → NSteps v c s s''

theorem NSteps.prog {v c s s'} (h : NSteps v c s s') : s'.prog = s.prog := by
  induction h with
  | refl => rfl
  | head st _ ih => rw [ih, st.2]

/-- every thread idle, the enforcer in its `select` -/
def Quiet (s : St) : Prop := (∀ t, s.thr t = .idle) ∧ s.epc = .idle

/-! ### progress without `start` -/

theorem holder_nstep {v c} {s : St} (hp : s.panic = false) (t : Nat) (bw : Nat × Bool)
    (hS : shapeOK (s.thr t)) (hh : holding (s.thr t) = some bw) : ∃ s', NStep v c s s' := by
  cases hpc : s.thr t with
  | crit o => exact ⟨_, Step.crit t o hp hpc, rfl⟩
  | run o todo r =>
    rw [hpc] at hh hS
    cases todo with
    | nil => simp at hh
    | cons x rest =>
      cases x with
      | unlock => exact ⟨_, Step.unlockB t o rest r hp hpc, rfl⟩
      | inc k => simp [shapeOK] at hS; simp [hS] at hh
      | rem k => simp [shapeOK] at hS; simp [hS] at hh
  | wait o todo r => rw [hpc] at hh hS; simp [shapeOK] at hS; simp [hS] at hh
  | idle => rw [hpc] at hh; simp at hh
  | lockS o => rw [hpc] at hh; simp at hh
  | unlockS o => rw [hpc] at hh; simp at hh
  | lockB o => rw [hpc] at hh; simp at hh

theorem slock_free_or_nstep {v c} {s : St} (hp : s.panic = false) (hL : LockInv s) :
    s.slock = none ∨ ∃ s', NStep v c s s' := by
  cases hs : s.slock with
  | none => exact Or.inl rfl
  | some w =>
    right
    cases w with
    | cl t => obtain ⟨o, ho⟩ := hL.sl_cl t hs; exact ⟨_, Step.unlockS t o hp ho, rfl⟩
    | enf => obtain ⟨t, k, he⟩ := hL.sl_enf hs; exact ⟨_, Step.evUnlockS t k hp he, rfl⟩

theorem box_free_or_nstep {v c} {s : St} (hp : s.panic = false) (hL : LockInv s) (hS : ∀ t, shapeOK (s.thr t))
    (b : Nat) : (s.wlock b = none ∧ ∀ t, s.rlock b t = false) ∨ ∃ s', NStep v c s s' := by
  cases hw : s.wlock b with
  | some w =>
    right
    cases w with
    | cl t => exact holder_nstep hp t _ (hS t) (hL.wl_cl b t hw)
    | enf =>
      obtain ⟨t, k, _, he | ⟨f, he⟩⟩ := hL.wl_enf b hw
      · exact ⟨_, Step.evCrit t k hp he, rfl⟩
      · exact ⟨_, Step.evUnlockB t k f hp he, rfl⟩
  | none =>
    by_cases hr : ∀ t, s.rlock b t = false
    · exact Or.inl ⟨rfl, hr⟩
    · right
      have ⟨t, ht⟩ : ∃ t, s.rlock b t = true := by
        apply Classical.byContradiction
        intro hn; apply hr; intro t
        cases h : s.rlock b t
        · rfl
        · exact absurd ⟨t, h⟩ hn
      exact holder_nstep hp t _ (hS t) (hL.rl_cl b t ht)

/-- while an operation is in flight, or the enforcer is serving a request, a step other than the beginning of an
    operation is enabled (code's call site; either `remove` variant) -/
theorem progress_nstep {v c} {s : St} (hp : s.panic = false) (hL : LockInv s) (hS : ∀ t, shapeOK (s.thr t))
    (hb : ¬ Quiet s) : ∃ s', NStep v c s s' := by
  cases he : s.epc with
  | idle =>
    have ⟨t, ht⟩ : ∃ t, s.thr t ≠ .idle := by
      apply Classical.byContradiction
      intro hn; apply hb
      refine ⟨fun t => ?_, he⟩
      apply Classical.byContradiction
      intro h; exact hn ⟨t, h⟩
    cases hpc : s.thr t with
    | idle => exact absurd hpc ht
    | lockS o =>
      rcases slock_free_or_nstep (v := v) (c := c) hp hL with h | h
      · exact ⟨_, Step.lockS t o hp hpc h, rfl⟩
      · exact h
    | unlockS o => exact ⟨_, Step.unlockS t o hp hpc, rfl⟩
    | lockB o =>
      rcases box_free_or_nstep (v := v) (c := c) hp hL hS o.box with h | h
      · exact ⟨_, Step.lockB t o hp hpc ⟨h.1, fun _ => h.2⟩, rfl⟩
      · exact h
    | crit o => exact ⟨_, Step.crit t o hp hpc, rfl⟩
    | run o todo r =>
      cases todo with
      | nil => exact ⟨_, Step.finish t o r hp hpc, rfl⟩
      | cons x rest =>
        cases x with
        | unlock => exact ⟨_, Step.unlockB t o rest r hp hpc, rfl⟩
        | inc k => exact ⟨_, Step.sendInc t o k rest r hp hpc he, rfl⟩
        | rem k => exact ⟨_, Step.sendRem t o k rest r hp hpc he, rfl⟩
    | wait o todo r =>
      have := hL.wt t o todo r hpc
      rw [he] at this; simp at this
  | inc t k =>
    cases hg : s.gone k
    · exact ⟨_, Step.incReg t k hp he hg, rfl⟩
    · exact ⟨_, Step.incGone t k hp he hg, rfl⟩
  | loop t =>
    by_cases hc : s.cur > (c.limit : Int)
    · cases ha : s.all with
      | nil => exact ⟨_, Step.loopEmpty t hp he hc ha, rfl⟩
      | cons k rest => exact ⟨_, Step.loopEvict t k rest hp he hc ha, rfl⟩
    · exact ⟨_, Step.loopDone t hp he hc, rfl⟩
  | evLockS t k =>
    rcases slock_free_or_nstep (v := v) (c := c) hp hL with h | h
    · exact ⟨_, Step.evLockS t k hp he h, rfl⟩
    · exact h
  | evUnlockS t k => exact ⟨_, Step.evUnlockS t k hp he, rfl⟩
  | evLockB t k =>
    rcases box_free_or_nstep (v := v) (c := c) hp hL hS k.1 with h | h
    · exact ⟨_, Step.evLockB t k hp he h.1 h.2, rfl⟩
    · exact h
  | evCrit t k => exact ⟨_, Step.evCrit t k hp he, rfl⟩
  | evUnlockB t k f => exact ⟨_, Step.evUnlockB t k f hp he, rfl⟩
  | rem t k =>
    cases hel : s.el k
    · cases hv : v.remove
      · exact ⟨_, Step.remPanic t k hp he hel hv, rfl⟩
      · exact ⟨_, Step.remGone t k hp he hel hv, rfl⟩
    · exact ⟨_, Step.remUnlink t k hp he hel, rfl⟩
  | fin t => exact ⟨_, Step.fin t hp he, rfl⟩

/-! ### the measure -/

/-- stages of `withMailbox` still to go before the critical section has run -/
def preW : PC → Nat
  | .lockS _ => 4 | .unlockS _ => 3 | .lockB _ => 2 | .crit _ => 1 | _ => 0
/-- instructions left after the critical section -/
def todoW : PC → Nat
  | .run _ todo _ => todo.length | .wait _ todo _ => todo.length | _ => 0
def actW : PC → Nat
  | .idle => 0 | _ => 1

def sumL (f : PC → Nat) (l : List Nat) (thr : Nat → PC) : Nat := (l.map (fun t => f (thr t))).sum

theorem sumL_upd_le (f : PC → Nat) (l : List Nat) (thr : Nat → PC) (t : Nat) (pc : PC) (h : f pc ≤ f (thr t)) :
    sumL f l (upd thr t pc) ≤ sumL f l thr := by
  induction l with
  | nil => simp [sumL]
  | cons x xs ih =>
    simp only [sumL, List.map_cons, List.sum_cons] at ih ⊢
    by_cases e : x = t
    · subst e; simp only [upd_same]; omega
    · rw [upd_other _ _ _ _ e]; omega

theorem sumL_upd_eq (f : PC → Nat) (l : List Nat) (thr : Nat → PC) (t : Nat) (pc : PC) (h : f pc = f (thr t)) :
    sumL f l (upd thr t pc) = sumL f l thr := by
  induction l with
  | nil => simp [sumL]
  | cons x xs ih =>
    simp only [sumL, List.map_cons, List.sum_cons] at ih ⊢
    by_cases e : x = t
    · subst e; simp only [upd_same]; omega
    · rw [upd_other _ _ _ _ e]; omega

theorem sumL_upd_lt (f : PC → Nat) (l : List Nat) (thr : Nat → PC) (t : Nat) (pc : PC) (hm : t ∈ l)
    (h : f pc < f (thr t)) : sumL f l (upd thr t pc) < sumL f l thr := by
  induction l with
  | nil => cases hm
  | cons x xs ih =>
    have hle := sumL_upd_le f xs thr t pc (Nat.le_of_lt h)
    simp only [sumL, List.map_cons, List.sum_cons] at ih hle ⊢
    by_cases e : x = t
    · subst e; simp only [upd_same]; omega
    · rw [upd_other _ _ _ _ e]
      have : t ∈ xs := by
        rcases List.mem_cons.mp hm with q | q
        · exact absurd q.symm e
        · exact q
      have := ih this; omega

def mu (l : List Nat) (s : St) : Nat × Nat × Nat :=
  (sumL preW l s.thr, sumL todoW l s.thr, sumL actW l s.thr + emeasure s)

@[instance_reducible] def muRel : WellFoundedRelation (Nat × Nat × Nat) := Prod.lex Nat.lt_wfRel (Prod.lex Nat.lt_wfRel Nat.lt_wfRel)

theorem lex3 {a a' b b' d d' : Nat} (h : a' < a ∨ (a' = a ∧ (b' < b ∨ (b' = b ∧ d' < d)))) :
    muRel.rel (a', b', d') (a, b, d) := by
  rcases h with h | ⟨rfl, h | ⟨rfl, h⟩⟩
  · exact Prod.Lex.left _ _ h
  · exact Prod.Lex.right _ (Prod.Lex.left _ _ h)
  · exact Prod.Lex.right _ (Prod.Lex.right _ h)

@[simp] theorem preW_resume (pc : PC) : preW (resume pc) = preW pc := by cases pc <;> rfl
@[simp] theorem todoW_resume (pc : PC) : todoW (resume pc) = todoW pc := by cases pc <;> rfl
@[simp] theorem actW_resume (pc : PC) : actW (resume pc) = actW pc := by cases pc <;> rfl

/-- a move of thread `t` that lowers its stage or shortens its todo list -/
theorem mu_thread {l : List Nat} {s s' : St} {t : Nat} {pc : PC} (hthr : s'.thr = upd s.thr t pc) (hl : t ∈ l)
    (h : preW pc < preW (s.thr t) ∨ (preW pc = preW (s.thr t) ∧ todoW pc < todoW (s.thr t))) :
    muRel.rel (mu l s') (mu l s) := by
  apply lex3
  simp only [hthr]
  rcases h with h | ⟨h1, h2⟩
  · exact Or.inl (sumL_upd_lt _ _ _ _ _ hl h)
  · exact Or.inr ⟨sumL_upd_eq _ _ _ _ _ h1, Or.inl (sumL_upd_lt _ _ _ _ _ hl h2)⟩

/-- a move of the enforcer (the served thread may be resumed) -/
theorem mu_enf {l : List Nat} {s s' : St} {t : Nat} (hthr : s'.thr = s.thr ∨ s'.thr = upd s.thr t (resume (s.thr t)))
    (h : emeasure s' < emeasure s) : muRel.rel (mu l s') (mu l s) := by
  apply lex3
  rcases hthr with q | q
  · exact Or.inr ⟨by rw [q], Or.inr ⟨by rw [q], by rw [q]; omega⟩⟩
  · simp only [q]
    refine Or.inr ⟨sumL_upd_eq _ _ _ _ _ (by simp), Or.inr ⟨sumL_upd_eq _ _ _ _ _ (by simp), ?_⟩⟩
    have := sumL_upd_eq actW l s.thr t (resume (s.thr t)) (by simp)
    omega

/-- every step that is not the beginning of an operation strictly decreases the measure (taken over any list `l`
    that contains the threads that are not idle) -/
theorem nstep_decreases {v c s s'} (hr : v.remove = .goneFlag) (l : List Nat) (hl : ∀ t, s.thr t ≠ .idle → t ∈ l)
    (st : NStep v c s s') :
    muRel.rel (mu l s') (mu l s) := by
  obtain ⟨st, hpr⟩ := st
  cases st with
  | start t o rest hp ht hprog =>
    exfalso
    have := congrFun hpr t
    simp [hprog] at this
  | lockS t o hp ht hs => exact mu_thread (t := t) rfl (hl t (by simp [ht])) (Or.inl (by simp [ht, preW]))
  | unlockS t o hp ht => exact mu_thread (t := t) rfl (hl t (by simp [ht])) (Or.inl (by simp [ht, preW]))
  | lockB t o hp ht hc => exact mu_thread (t := t) rfl (hl t (by simp [ht])) (Or.inl (by simp [ht, preW]))
  | crit t o hp ht => exact mu_thread (t := t) rfl (hl t (by simp [ht])) (Or.inl (by simp [ht, preW]))
  | unlockB t o todo r hp ht =>
    exact mu_thread (t := t) rfl (hl t (by simp [ht])) (Or.inr (by simp [ht, preW, todoW]))
  | sendInc t o k todo r hp ht he =>
    exact mu_thread (t := t) rfl (hl t (by simp [ht])) (Or.inr (by simp [ht, preW, todoW]))
  | sendRem t o k todo r hp ht he =>
    exact mu_thread (t := t) rfl (hl t (by simp [ht])) (Or.inr (by simp [ht, preW, todoW]))
  | finish t o r hp ht =>
    apply lex3
    refine Or.inr ⟨sumL_upd_eq _ _ _ _ _ (by simp [ht, preW]), Or.inr ⟨sumL_upd_eq _ _ _ _ _ (by simp [ht, todoW]), ?_⟩⟩
    have := sumL_upd_lt actW l s.thr t .idle (hl t (by simp [ht])) (by simp [ht, actW])
    have e : emeasure { s with thr := upd s.thr t .idle, hist := s.hist ++ [(t, o, r)] } = emeasure s := rfl
    simp only [e]; omega
  | incGone t k hp he hg => exact mu_enf (t := t) (Or.inl rfl) (by simp [emeasure, he])
  | incReg t k hp he hg => exact mu_enf (t := t) (Or.inl rfl) (by simp [emeasure, he]; omega)
  | loopDone t hp he hc => exact mu_enf (t := t) (Or.inl rfl) (by simp [emeasure, he])
  | loopEmpty t hp he hc ha => exact mu_enf (t := t) (Or.inl rfl) (by simp [emeasure, he])
  | loopEvict t k rest hp he hc ha => exact mu_enf (t := t) (Or.inl rfl) (by simp [emeasure, he, ha]; omega)
  | evLockS t k hp he hs => exact mu_enf (t := t) (Or.inl rfl) (by simp [emeasure, he])
  | evUnlockS t k hp he => exact mu_enf (t := t) (Or.inl rfl) (by simp [emeasure, he])
  | evLockB t k hp he hw hr => exact mu_enf (t := t) (Or.inl rfl) (by simp [emeasure, he])
  | evCrit t k hp he => exact mu_enf (t := t) (Or.inl rfl) (by simp [emeasure, he, evDelete])
  | evUnlockB t k f hp he => exact mu_enf (t := t) (Or.inl rfl) (by simp [emeasure, he])
  | remGone t k hp he hel hv => exact mu_enf (t := t) (Or.inl rfl) (by simp [emeasure, he])
  | remPanic t k hp he hel hv => rw [hr] at hv; cases hv
  | remUnlink t k hp he hel => exact mu_enf (t := t) (Or.inl rfl) (by simp [emeasure, he])
  | fin t hp he => exact mu_enf (t := t) (Or.inr rfl) (by simp [emeasure, he])

/-- a step that does not begin an operation leaves idle threads idle -/
theorem nstep_idle {v c s s'} (st : NStep v c s s') (t : Nat) (h : s.thr t = .idle) : s'.thr t = .idle := by
  obtain ⟨st, hpr⟩ := st
  cases st with
  | start t' o rest hp ht hprog =>
    exfalso
    have := congrFun hpr t'
    simp [hprog] at this
  | lockS t' o hp ht hs | unlockS t' o hp ht | lockB t' o hp ht hc | crit t' o hp ht | unlockB t' o todo r hp ht
  | sendInc t' o k todo r hp ht he | sendRem t' o k todo r hp ht he | finish t' o r hp ht =>
    have e : t ≠ t' := fun e => by subst e; simp [h] at ht
    simp [critEff, upd, e, h]
  | fin t' hp he =>
    by_cases e : t = t'
    · subst e; simp [h, resume]
    · simp [upd, e, h]
  | evCrit t' k hp he => simpa [evDelete] using h
  | _ => simpa using h

/-- the facts about a state that the drain argument needs; all are invariants of the code's variant -/
structure Sound (s : St) : Prop where
  np : s.panic = false
  lock : LockInv s
  shape : ∀ t, shapeOK (s.thr t)

theorem sound_init (p) : Sound (init p) := ⟨rfl, lockInv_init p, fun _ => trivial⟩

theorem sound_step {v c s s'} (hv : v.site = .outsideLock) (hr : v.remove = .goneFlag) (st : Step v c s s')
    (h : Sound s) : Sound s' := by
  refine ⟨?_, lockInv_step st h.lock, shape_step hv st h.shape⟩
  have hp := h.np
  cases st <;> simp_all [critEff, evDelete, acquire, release]

/-- **drain.**  From a sound state the operations in flight can be completed: a finite sequence of steps, none of
    which begins a new operation, ends with every thread idle and the enforcer in its `select`. -/
theorem drain {v c} (hv : v.site = .outsideLock) (hr : v.remove = .goneFlag) (l : List Nat) (s : St) (h : Sound s)
    (hl : ∀ t, s.thr t ≠ .idle → t ∈ l) : ∃ s', NSteps v c s s' ∧ Quiet s' ∧ Sound s' := by
  generalize hm : mu l s = m
  induction m using muRel.wf.induction generalizing s with
  | _ m ih =>
    by_cases hq : Quiet s
    · exact ⟨s, NSteps.refl s, hq, h⟩
    · obtain ⟨s1, st⟩ := progress_nstep (v := v) (c := c) h.np h.lock h.shape hq
      have hl1 : ∀ t, s1.thr t ≠ .idle → t ∈ l := by
        intro t ht
        apply hl t
        intro hi; exact ht (nstep_idle st t hi)
      have hd := nstep_decreases hr l hl st
      rw [hm] at hd
      obtain ⟨s', p, q, w⟩ := ih (mu l s1) hd s1 (sound_step hv hr st.1 h) hl1 rfl
      exact ⟨s', NSteps.head st p, q, w⟩

/-- in a quiet sound state no lock is held -/
theorem quiet_locks_free {s : St} (h : Sound s) (hq : Quiet s) :
    s.slock = none ∧ ∀ b, s.wlock b = none ∧ ∀ t, s.rlock b t = false := by
  obtain ⟨hq1, hq2⟩ := hq
  refine ⟨?_, fun b => ⟨?_, fun t => ?_⟩⟩
  · cases hs : s.slock with
    | none => rfl
    | some w =>
      cases w with
      | cl t => obtain ⟨o, ho⟩ := h.lock.sl_cl t hs; rw [hq1 t] at ho; cases ho
      | enf => obtain ⟨t, k, he⟩ := h.lock.sl_enf hs; rw [hq2] at he; cases he
  · cases hw : s.wlock b with
    | none => rfl
    | some w =>
      cases w with
      | cl t => have := h.lock.wl_cl b t hw; rw [hq1 t] at this; simp at this
      | enf =>
        obtain ⟨t, k, _, he | ⟨f, he⟩⟩ := h.lock.wl_enf b hw
        · rw [hq2] at he; cases he
        · rw [hq2] at he; cases he
  · cases hr : s.rlock b t with
    | false => rfl
    | true => have := h.lock.rl_cl b t hr; rw [hq1 t] at this; simp at this

end Ibx.Model.ConcMem
