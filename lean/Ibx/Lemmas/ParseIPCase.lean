import Ibx.Model.ParseIP
/-
  Helper lemmas for the net.ParseIP model, part 1: letter case.  Every function of the model commutes with
  byte-wise ASCII lower-casing.
-/
namespace Ibx.Lemmas.ParseIPCase
open Ibx Ibx.Bytes Ibx.Model.ParseIP

theorem lowerB_cases (c : Nat) : (lowerB c = c + 32 ∧ 65 ≤ c ∧ c ≤ 90) ∨ (lowerB c = c ∧ ¬(65 ≤ c ∧ c ≤ 90)) := by
  unfold lowerB
  by_cases h : 65 ≤ c ∧ c ≤ 90
  · left; rw [if_pos h]; exact ⟨rfl, h⟩
  · right; rw [if_neg h]; exact ⟨rfl, h⟩

theorem lowerB_eq_of_lt {c : Nat} (h : c < 65) : lowerB c = c := by
  rcases lowerB_cases c with ⟨_, _, _⟩ | ⟨h1, _⟩
  · omega
  · exact h1

theorem lowerB_eq_iff {c k : Nat} (hk : k < 65) : lowerB c = k ↔ c = k := by
  rcases lowerB_cases c with ⟨h1, _, _⟩ | ⟨h1, _⟩ <;> rw [h1] <;> omega

theorem isDigitB_lowerB (c : Nat) : isDigitB (lowerB c) = isDigitB c := by
  rw [Bool.eq_iff_iff]
  rcases lowerB_cases c with ⟨h1, _, _⟩ | ⟨h1, _⟩ <;> rw [h1] <;>
    simp only [isDigitB, Bool.and_eq_true, decide_eq_true_eq] <;> omega

theorem lowerB_digit {c : Nat} (h : isDigitB c = true) : lowerB c = c := by
  simp only [isDigitB, Bool.and_eq_true, decide_eq_true_eq] at h
  exact lowerB_eq_of_lt (by omega)

theorem beq_lowerB {c k : Nat} (hk : k < 65) : (lowerB c == k) = (c == k) := by
  rw [Bool.eq_iff_iff]; simp only [beq_iff_eq]; exact lowerB_eq_iff hk

theorem isHexB_lowerB (c : Nat) : isHexB (lowerB c) = isHexB c := by
  rw [Bool.eq_iff_iff]
  rcases lowerB_cases c with ⟨h1, _, _⟩ | ⟨h1, _⟩ <;> rw [h1] <;>
    simp only [isHexB, isDigitB, Bool.or_eq_true, Bool.and_eq_true, decide_eq_true_eq] <;> omega

theorem hexValB_lowerB {c : Nat} (h : isHexB c = true) : hexValB (lowerB c) = hexValB c := by
  simp only [isHexB, isDigitB, Bool.or_eq_true, Bool.and_eq_true, decide_eq_true_eq] at h
  rcases lowerB_cases c with ⟨h1, h2, h3⟩ | ⟨h1, _⟩ <;> rw [h1]
  have a1 : isDigitB (c + 32) = false := by simp [isDigitB]; omega
  have a2 : isDigitB c = false := by simp [isDigitB]; omega
  have a3 : (decide (97 ≤ c + 32) && decide (c + 32 ≤ 102)) = true := by simp; omega
  have a4 : (decide (97 ≤ c) && decide (c ≤ 102)) = false := by simp; omega
  simp only [hexValB, a1, a2, a3, a4, if_true]
  simp only [Bool.false_eq_true, if_false]
  omega

theorem isEmpty_lower (s : Bytes) : (lower s).isEmpty = s.isEmpty := by cases s <;> rfl

theorem head?_lower (s : Bytes) : (lower s).head? = s.head?.map lowerB := by cases s <;> rfl

theorem head?_lower_eq {s : Bytes} {k : Nat} (hk : k < 65) : ((lower s).head? == some k) = (s.head? == some k) := by
  cases s with
  | nil => rfl
  | cons c r =>
    simp only [lower_cons, List.head?_cons]
    rw [Bool.eq_iff_iff]; simp only [beq_iff_eq, Option.some.injEq]; exact lowerB_eq_iff hk

/-- `parseIPv4Fields` only ever continues past digits and periods, which lower-casing leaves alone -/
theorem v4Loop_lower (s : Bytes) (st : V4St) : v4Loop (lower s) st = v4Loop s st := by
  induction s generalizing st with
  | nil => rfl
  | cons c r ih =>
    rw [lower_cons]
    by_cases hd : isDigitB c = true
    · rw [lowerB_digit hd]
      simp only [v4Loop, hd, if_true, ih]
    · have hd' : isDigitB (lowerB c) = false := by rw [isDigitB_lowerB]; simpa using hd
      have hd'' : isDigitB c = false := by simpa using hd
      by_cases h46 : c = 46
      · subst h46
        simp only [v4Loop, show lowerB 46 = 46 from rfl, isEmpty_lower, ih]
      · have h46' : (lowerB c == 46) = false := by rw [beq_lowerB (by omega)]; simpa using h46
        have h46'' : (c == 46) = false := by simpa using h46
        simp [v4Loop, hd', hd'', h46', h46'']

theorem parseIPv4Fields_lower (s : Bytes) : parseIPv4Fields (lower s) = parseIPv4Fields s :=
  v4Loop_lower s {}

/-- the group scan reads the same number of digits and the same value; what follows is lower-cased -/
theorem hexScan_lower (s : Bytes) (off acc : Nat) :
    hexScan (lower s) off acc = (hexScan s off acc).map (fun t => (t.1, t.2.1, lower t.2.2)) := by
  induction s generalizing off acc with
  | nil => rfl
  | cons c r ih =>
    rw [lower_cons]
    by_cases hh : isHexB c = true
    · have hh' : isHexB (lowerB c) = true := by rw [isHexB_lowerB]; exact hh
      simp only [hexScan, hh, hh', if_true, hexValB_lowerB hh, ih]
      split
      · rfl
      · split <;> rfl
    · have hh1 : isHexB c = false := by simpa using hh
      have hh' : isHexB (lowerB c) = false := by rw [isHexB_lowerB]; exact hh1
      simp [hexScan, hh1, hh']

def sepLower : Sep → Sep
  | .err => .err
  | .stop e => .stop e
  | .next s e => .next (lower s) e

theorem sepStep_lower (rest : Bytes) (i : Nat) (ell : Option Nat) :
    sepStep (lower rest) i ell = sepLower (sepStep rest i ell) := by
  match rest with
  | [] => rfl
  | [c] =>
    simp only [lower_cons, lower_nil, sepStep, bne, beq_lowerB (show 58 < 65 by omega)]
    split <;> rfl
  | c :: c1 :: r2 =>
    simp only [lower_cons, sepStep, bne, beq_lowerB (show 58 < 65 by omega), isEmpty_lower]
    split
    · rfl
    · split
      · split
        · rfl
        · split <;> rfl
      · rfl

def outLower (o : V6Out) : V6Out := { o with rest := lower o.rest }

theorem v6Loop_lower (n : Nat) (s : Bytes) (ip : List Nat) (ell : Option Nat) :
    v6Loop n (lower s) ip ell = (v6Loop n s ip ell).map outLower := by
  induction n generalizing s ip ell with
  | zero => rfl
  | succ n ih =>
    simp only [v6Loop, hexScan_lower, parseIPv4Fields_lower]
    cases hs : hexScan s 0 0 with
    | none => rfl
    | some t =>
      obtain ⟨off, acc, rest⟩ := t
      simp only [Option.map_some, head?_lower_eq (show 46 < 65 by omega), sepStep_lower]
      split
      · rfl
      · split
        · split
          · rfl
          · split
            · rfl
            · cases parseIPv4Fields s <;> rfl
        · cases hsep : sepStep rest (16 - 2 * (n + 1) + 2) ell with
          | err => rfl
          | stop e => rfl
          | next s' e => simp only [sepLower, ih]

theorem v6Finish_lower (o : V6Out) : v6Finish (outLower o) = v6Finish o := by
  unfold v6Finish outLower
  simp only [isEmpty_lower]

theorem v6Body_lower (s : Bytes) (ell : Option Nat) : v6Body (lower s) ell = v6Body s ell := by
  simp only [v6Body, v6Loop_lower]
  cases v6Loop 8 s [] ell with
  | none => rfl
  | some o => exact v6Finish_lower o

theorem stripDC_lower (s : Bytes) : stripDC (lower s) = (stripDC s).map lower := by
  match s with
  | [] => rfl
  | [_] => rfl
  | c0 :: c1 :: r =>
    simp only [lower_cons, stripDC, beq_lowerB (show 58 < 65 by omega)]
    split <;> rfl

theorem notPct_lowerB (c : Nat) : notPct (lowerB c) = notPct c := by
  simp only [notPct, bne, beq_lowerB (show 37 < 65 by omega)]

theorem takeWhile_lower (s : Bytes) : (lower s).takeWhile notPct = lower (s.takeWhile notPct) := by
  induction s with
  | nil => rfl
  | cons c r ih =>
    simp only [lower_cons, List.takeWhile_cons, notPct_lowerB]
    split
    · rw [ih]; rfl
    · rfl

theorem dropWhile_lower (s : Bytes) : (lower s).dropWhile notPct = lower (s.dropWhile notPct) := by
  induction s with
  | nil => rfl
  | cons c r ih =>
    simp only [lower_cons, List.dropWhile_cons, notPct_lowerB]
    split
    · rw [ih]
    · rfl

theorem tail_lower (s : Bytes) : (lower s).tail = lower s.tail := by cases s <;> rfl

def addrLower (a : Addr) : Addr := { a with zone := lower a.zone }

theorem parseIPv6_lower (s : Bytes) : parseIPv6 (lower s) = (parseIPv6 s).map addrLower := by
  simp only [parseIPv6, takeWhile_lower, dropWhile_lower, tail_lower, isEmpty_lower, stripDC_lower]
  split
  · rfl
  · cases stripDC (List.takeWhile notPct s) with
    | none =>
      simp only [Option.map_none, v6Body_lower]
      cases v6Body (List.takeWhile notPct s) none <;> rfl
    | some s' =>
      simp only [Option.map_some, isEmpty_lower, v6Body_lower]
      split
      · rfl
      · cases v6Body s' (some 0) <;> rfl

theorem isSepB_lowerB (c : Nat) : isSepB (lowerB c) = isSepB c := by
  simp only [isSepB, beq_lowerB (show 46 < 65 by omega), beq_lowerB (show 58 < 65 by omega),
    beq_lowerB (show 37 < 65 by omega)]

theorem isSepB_lt {c : Nat} (h : isSepB c = true) : c < 65 := by
  simp only [isSepB, Bool.or_eq_true, beq_iff_eq] at h; omega

theorem firstSep_lower (s : Bytes) : firstSep (lower s) = firstSep s := by
  induction s with
  | nil => rfl
  | cons c r ih =>
    simp only [lower_cons, firstSep, isSepB_lowerB]
    split
    · rename_i h; exact lowerB_eq_of_lt (isSepB_lt h)
    · exact ih

theorem parseAddr_lower (s : Bytes) : parseAddr (lower s) = (parseAddr s).map addrLower := by
  simp only [parseAddr, firstSep_lower, parseIPv4Fields_lower, parseIPv6_lower]
  split
  · cases parseIPv4Fields s <;> rfl
  · split <;> rfl

/-- `net.ParseIP` returns the same 16 bytes (or nil) for a string and for its lower-casing -/
theorem parseIPv_lower (s : Bytes) : parseIPv (lower s) = parseIPv s := by
  simp only [parseIPv, parseAddr_lower]
  cases parseAddr s with
  | none => rfl
  | some a => simp only [Option.map_some, addrLower, isEmpty_lower, as16]

end Ibx.Lemmas.ParseIPCase
