import Ibx.Lemmas.ConcFileOpsSeq
/-
  Lemmas for Props/C16File.lean, part 3: under the whole-method lock scope, from a well-formed mailbox and with fresh ids, no
  system call of any operation of any interleaving fails (the model lets a failing call leave the directory unchanged and
  go on, where the code would take an error path: the theorem says that this never happens, so nothing is hidden there).
-/
namespace Ibx.Lemmas.ConcFileOps
open Ibx Ibx.Model.FsSteps Ibx.Model.ConcFileOps Ibx.Lemmas.Crash
open Ibx.Spec.Store (Meta)
open Ibx.Model.FileStore (FEnt)

/-- while the ids of the serialisation are fresh: no call has failed, and none of the calls the thread inside its critical
    section has still to make will fail -/
def Calls (l0 : List FEnt) (s : St) : Prop :=
  FreshIds l0 (logOps s) →
    s.failed = 0 ∧ ∀ t acts n, (s.thr t).pc = .crit acts n → Safe (fun _ => True) s.dir (fsOf acts)

theorem freshIds_prefix {l0 : List FEnt} {ops : List COp} {op : COp} (h : FreshIds l0 (ops ++ [op])) : FreshIds l0 ops := by
  unfold FreshIds at h ⊢
  rw [addIds_append, ← List.append_assoc] at h
  exact (List.nodup_append.1 h).1

theorem calls_frame {l0 : List FEnt} {s s' : St} (hd : s'.dir = s.dir) (hf : s'.failed = s.failed)
    (hl : FreshIds l0 (logOps s') → FreshIds l0 (logOps s))
    (hc : ∀ t acts n, (s'.thr t).pc = .crit acts n → (s.thr t).pc = .crit acts n) (h : Calls l0 s) : Calls l0 s' := by
  intro hfr
  obtain ⟨h1, h2⟩ := h (hl hfr)
  exact ⟨by rw [hf, h1], fun t acts n ht => by rw [hd]; exact h2 t acts n (hc t acts n ht)⟩

/-- the thread that moved is not in `crit` afterwards, the others are where they were -/
local macro "crit_frame" t:ident : tactic =>
  `(tactic| (intro u acts n hu; by_cases huu : u = $t
             · subst huu; simp at hu
             · rw [setThr_other _ _ _ _ huu] at hu; exact hu))

theorem calls_step {c : Cfg} (hc : c.scope = .wholeOp) (hpar : ∀ st ∈ c.par, ∃ lv, st = .rmdirParent lv) {d0 : Option MDir} {l0 : List FEnt}
    (hg : Good c.C c.b l0 d0) {s s' : St} (m : Mutex s) (sm : Sim c (d0, []) s) (cl : Calls l0 s) (st : Step c s s') : Calls l0 s' := by
  cases st with
  | lock t op rest ht hr hf =>
    exact calls_frame (s := s) rfl rfl id (by crit_frame t) cl
  | load t op todo ht =>
    intro hfr
    have hlog : logOps (setThr { s with log := s.log ++ [(t, op, (load c s.dir op).res)] } t
        ⟨todo, .crit (load c s.dir op).acts (load c s.dir op).next⟩) = logOps s ++ [op] := by simp [logOps]
    rw [hlog] at hfr
    obtain ⟨h1, h2⟩ := cl (freshIds_prefix hfr)
    have hwt : holdsW (s.thr t).pc = true := by simp [ht, holdsW]
    have hnc : ∀ u, isCrit (s.thr u).pc = false := by
      intro u
      by_cases hu : u = t
      · subst hu; simp [ht, isCrit]
      · cases hcu : isCrit (s.thr u).pc with
        | false => rfl
        | true =>
          have : holdsW (s.thr u).pc = true := by
            cases hp : (s.thr u).pc <;> simp [hp, isCrit] at hcu <;> simp [holdsW]
          exact absurd (m.unique this hwt) hu
    have hset := sm.settled hnc
    obtain ⟨l, hgl, hp, _⟩ := seqRun_good c hpar (logOps s) d0 [] l0 hg (by simpa [FreshIds] using freshIds_prefix hfr)
    rw [← hset] at hgl hp
    have hfresh : ∀ i ∈ op.addId, i ∉ l.map (·.id) := by
      intro i hi hin
      have hmem : i ∈ l0.map (·.id) ++ addIds (logOps s) := by
        have := (hp.mem_iff (a := i)).2 (List.mem_append_left _ hin)
        simpa using this
      unfold FreshIds at hfr
      rw [addIds_append, ← List.append_assoc] at hfr
      exact (List.nodup_append.1 hfr).2.2 i hmem i (by simpa [addIds] using hi) rfl
    obtain ⟨_, _, hsafe, _⟩ := seqStep_good c hpar s.dir (dels s.events) l op hgl hfresh
    refine ⟨h1, fun u acts n hu => ?_⟩
    by_cases huu : u = t
    · subst huu
      simp only [setThr_same, PC.crit.injEq] at hu
      rw [← hu.1, load_whole c hc]
      exact hsafe
    · rw [setThr_other _ _ _ _ huu] at hu
      have hu' : (s.thr u).pc = .crit acts n := hu
      have := hnc u; simp [hu', isCrit] at this
  | act t a as n todo ht =>
    intro hfr
    have hfr' : FreshIds l0 (logOps s) := by simpa [logOps] using hfr
    obtain ⟨h1, h2⟩ := cl hfr'
    have hs := h2 t (a :: as) n (by simp [ht])
    have hwt : holdsW (s.thr t).pc = true := by simp [ht, holdsW]
    cases a with
    | fs x =>
      simp only [fsOf, Safe] at hs
      refine ⟨by simp [applyAct, hs.2.1, h1], fun u acts n' hu => ?_⟩
      by_cases huu : u = t
      · subst huu
        simp only [setThr_same, PC.crit.injEq] at hu
        rw [← hu.1]; exact hs.2.2
      · rw [setThr_other _ _ _ _ huu] at hu
        have hu' : (s.thr u).pc = .crit acts n' := by simpa using hu
        have : holdsW (s.thr u).pc = true := by simp [hu', holdsW]
        exact absurd (m.unique this hwt) huu
    | emit i =>
      simp only [fsOf] at hs
      refine ⟨by simp [applyAct, h1], fun u acts n' hu => ?_⟩
      by_cases huu : u = t
      · subst huu
        simp only [setThr_same, PC.crit.injEq] at hu
        rw [← hu.1]; exact hs
      · rw [setThr_other _ _ _ _ huu] at hu
        have hu' : (s.thr u).pc = .crit acts n' := by simpa using hu
        have : holdsW (s.thr u).pc = true := by simp [hu', holdsW]
        exact absurd (m.unique this hwt) huu
  | unlockRet t st0 todo ht =>
    exact calls_frame (s := s) rfl rfl id (by crit_frame t) cl
  | unlockCopy t id src stale todo ht =>
    obtain ⟨x, hx⟩ := m.ends t [] (.copy id src stale) (by simp [ht])
    cases hx
  | freeAct t a as n todo ht =>
    have := m.noFree t; simp [ht, isFree] at this
  | relock t id stale todo ht hf =>
    have := m.noFree t; simp [ht, isFree] at this
  | stored t st0 todo ht =>
    exact calls_frame (s := s) rfl rfl id (by crit_frame t) cl
  | rlock t op rest ht hr hw =>
    exact calls_frame (s := s) rfl rfl id (by crit_frame t) cl
  | rload t op todo ht =>
    refine calls_frame (s := s) rfl rfl (fun hfr => ?_) (by crit_frame t) cl
    have hlog : logOps (setThr { s with log := s.log ++ [(t, op, (load c s.dir op).res)] } t ⟨todo, .rdone⟩) = logOps s ++ [op] := by
      simp [logOps]
    rw [hlog] at hfr
    exact freshIds_prefix hfr
  | runlock t todo ht =>
    exact calls_frame (s := s) rfl rfl id (by crit_frame t) cl

theorem calls_reach {c : Cfg} (hc : c.scope = .wholeOp) (hpar : ∀ st ∈ c.par, ∃ lv, st = .rmdirParent lv) {d0 : Option MDir} {l0 : List FEnt}
    (hg : Good c.C c.b l0 d0) {s : St} (h : Reach c d0 s) : Calls l0 s := by
  induction h with
  | init hi =>
    intro _
    obtain ⟨_, _, _, _, _, hf, hp⟩ := hi
    exact ⟨hf, fun t acts n ht => by simp [hp t] at ht⟩
  | step hr st ih => exact calls_step hc hpar hg (mutex_reach hc hr) (sim_reach hc hr) ih st

end Ibx.Lemmas.ConcFileOps
