import Ibx.Spec.Store
import Ibx.Model.FileStore
/-
  Lemmas.FileRefine — the file-store model (Ibx/Model/FileStore.lean) refines the ordered-mailbox spec
  (Ibx/Spec/Store.lean, run with the byte limit disabled: the file store has none).

  RF f s, the simulation relation, says for every mailbox b
    * the index of b read back through `toMsg` is exactly the spec's listing of b (ids, order, metadata, seen, content),
    * the id generator state agrees,
    * the file-system well-formedness the code maintains: every index entry has its raw file with
      `size = content length`, entry ids pairwise distinct and ≤ next, every raw file's id ≤ next,
      `index = some []` never occurs, an existing directory is in `names`, `names` has no duplicates.
  Orphans are ALLOWED by RF (a `.raw` without an index entry, a directory without index): they change no view.
-/
namespace Ibx.Lemmas.FileRefine
open Ibx Ibx.Spec.Store
open Ibx.Model.FileStore (FS FEnt Dir readIndex rawOf toMsg writeIndex setDir unlinkRaw removeEnt capLoop reopen)

abbrev fstep := Ibx.Model.FileStore.step
abbrev sstep := Ibx.Spec.Store.step

/-! ### pure list facts -/

theorem pairwise_id_unique {α} {g : α → Nat} {l : List α} (h : l.Pairwise (fun x y => g x ≠ g y)) {a b : α}
    (ha : a ∈ l) (hb : b ∈ l) (e : g a = g b) : a = b := by
  induction l with
  | nil => cases ha
  | cons x l ih =>
    rw [List.pairwise_cons] at h
    rcases List.mem_cons.1 ha with rfl | ha' <;> rcases List.mem_cons.1 hb with rfl | hb'
    · rfl
    · exact absurd e (h.1 b hb')
    · exact absurd e.symm (h.1 a ha')
    · exact ih h.2 ha' hb'

/-- with distinct keys, filtering out the head's key removes exactly the head -/
theorem filter_ne_head {α} {g : α → Nat} {x : α} {l : List α} (h : (x :: l).Pairwise (fun a b => g a ≠ g b)) :
    (x :: l).filter (fun a => g a != g x) = l := by
  rw [List.pairwise_cons] at h
  have : l.filter (fun a => g a != g x) = l := by
    rw [List.filter_eq_self]; intro a ha; simpa using fun e => h.1 a ha e.symm
  simp [this]

theorem nodup_perm_of_mem_iff {α} [DecidableEq α] : ∀ {l₁ l₂ : List α}, l₁.Nodup → l₂.Nodup → (∀ a, a ∈ l₁ ↔ a ∈ l₂) → l₁.Perm l₂
  | [], l₂, _, _, h => by
    cases l₂ with
    | nil => exact List.Perm.refl _
    | cons b l => exact absurd ((h b).2 (List.mem_cons_self)) (by simp)
  | a :: l₁, l₂, h1, h2, h => by
    have ha : a ∈ l₂ := (h a).1 List.mem_cons_self
    rw [List.nodup_cons] at h1
    have ih := nodup_perm_of_mem_iff (l₁ := l₁) (l₂ := l₂.erase a) h1.2 (h2.erase a) (by
      intro x
      rw [h2.mem_erase_iff]
      constructor
      · intro hx; exact ⟨fun e => h1.1 (e ▸ hx), (h x).1 (List.mem_cons_of_mem _ hx)⟩
      · rintro ⟨hne, hx⟩
        rcases List.mem_cons.1 ((h x).2 hx) with e | hx'
        · exact absurd e hne
        · exact hx')
    exact (List.Perm.cons a ih).trans (List.perm_cons_erase ha).symm

theorem mem_eraseDups {α} [BEq α] [LawfulBEq α] : ∀ (l : List α) (a : α), a ∈ l.eraseDups ↔ a ∈ l := by
  intro l
  induction h : l.length using Nat.strongRecOn generalizing l with
  | _ n ih =>
    intro a
    cases l with
    | nil => simp
    | cons x l =>
      rw [List.eraseDups_cons, List.mem_cons, List.mem_cons]
      have hl : (l.filter fun b => !b == x).length < n := by
        subst h; exact Nat.lt_succ_of_le (List.length_filter_le _ _)
      rw [ih _ hl _ rfl, List.mem_filter]
      constructor
      · rintro (e | ⟨hm, _⟩)
        · exact .inl e
        · exact .inr hm
      · rintro (e | hm)
        · exact .inl e
        · by_cases hx : a = x
          · exact .inl hx
          · exact .inr ⟨hm, by simpa using hx⟩

theorem nodup_eraseDups {α} [BEq α] [LawfulBEq α] : ∀ (l : List α), l.eraseDups.Nodup := by
  intro l
  induction h : l.length using Nat.strongRecOn generalizing l with
  | _ n ih =>
    cases l with
    | nil => simp
    | cons x l =>
      rw [List.eraseDups_cons, List.nodup_cons]
      have hl : (l.filter fun b => !b == x).length < n := by
        subst h; exact Nat.lt_succ_of_le (List.length_filter_le _ _)
      refine ⟨?_, ih _ hl _ rfl⟩
      rw [mem_eraseDups, List.mem_filter]
      simp

/-! ### spec-side facts -/

theorem limitEvict_zero (l : List Msg) : limitEvict 0 l = (l, []) := by
  cases l <;> simp [limitEvict]

theorem dropOldest_zero (b : Bytes) (l : List Msg) : dropOldest b 0 l = (l, []) := by
  cases l <;> simp [dropOldest]

/-- the evicted messages are the oldest `k` of the mailbox … -/
theorem dropOldest_snd (b : Bytes) (k : Nat) (l : List Msg) :
    (dropOldest b k l).2 = (l.filter (inBox b)).take k := by
  fun_induction dropOldest b k l <;> simp_all

/-- … the mailbox keeps the rest, in order … -/
theorem dropOldest_fst_box (b : Bytes) (k : Nat) (l : List Msg) :
    (dropOldest b k l).1.filter (inBox b) = (l.filter (inBox b)).drop k := by
  fun_induction dropOldest b k l <;> simp_all

/-- … and no other mailbox is touched -/
theorem dropOldest_fst_other (b b' : Bytes) (hb : b' ≠ b) (k : Nat) (l : List Msg) :
    (dropOldest b k l).1.filter (inBox b') = l.filter (inBox b') := by
  fun_induction dropOldest b k l
  · rfl
  · rfl
  · rename_i k m l hm r d hr ih
    simp only [hr] at ih
    have : inBox b' m = false := by
      simp only [inBox, beq_iff_eq] at hm ⊢
      simpa [hm] using fun e => hb e.symm
    simp [this, ih]
  · rename_i k m l hm r d hr ih
    simp only [hr] at ih
    simp [List.filter_cons, ih]

/-! ### the file system, one directory at a time -/

/-- entries of a directory's index (no directory / no index file: empty) -/
def ents : Option Dir → List FEnt
  | some d => d.index.getD []
  | none => []

/-- content of `<i>.raw` in a directory -/
def rawIn : Option Dir → Nat → Option Bytes
  | some d, i => (d.raws.find? (·.1 == i)).map (·.2)
  | none, _ => none

def mkMsg (b : Bytes) (d : Option Dir) (e : FEnt) : Msg :=
  { box := b, id := e.id, hdr := e.hdr, seen := e.seen, source := (rawIn d e.id).getD [] }

theorem readIndex_eq (f : FS) (b : Bytes) : readIndex f b = ents (f.dirs b) := by
  unfold readIndex ents; cases f.dirs b <;> rfl

theorem rawOf_eq (f : FS) (b : Bytes) (i : Nat) : rawOf f b i = rawIn (f.dirs b) i := by
  unfold rawOf rawIn; cases f.dirs b <;> rfl

theorem toMsg_eq (f : FS) (b : Bytes) : toMsg f b = mkMsg b (f.dirs b) := by
  funext e; simp [toMsg, mkMsg, rawOf_eq]

/-- well-formedness of one mailbox directory relative to the generator state `n` -/
structure DirOK (d : Option Dir) (n : Nat) : Prop where
  /-- an index file is never written empty (the directory is removed instead) -/
  noEmptyIdx : ∀ x, d = some x → x.index ≠ some []
  /-- every index entry has its raw file, and the recorded size is the content length -/
  rawOk : ∀ e ∈ ents d, ∃ src, rawIn d e.id = some src ∧ e.size = src.length
  /-- entry ids are pairwise distinct -/
  distinct : (ents d).Pairwise (fun x y => x.id ≠ y.id)
  /-- entry ids have been handed out by the generator -/
  idsLe : ∀ e ∈ ents d, e.id ≤ n
  /-- so have the ids of all raw files, orphans included -/
  rawLe : ∀ x, d = some x → ∀ p ∈ x.raws, p.1 ≤ n

/-- The simulation relation between a file system and an abstract store. -/
structure RF (f : FS) (s : Store) : Prop where
  /-- reading the index back gives exactly the spec's listing (ids, order, metadata, seen flag, content) -/
  view : ∀ b, (readIndex f b).map (toMsg f b) = listing s b
  /-- generator state agrees -/
  next : ∀ b, f.next b = s.next b
  /-- per-directory well-formedness -/
  ok : ∀ b, DirOK (f.dirs b) (f.next b)
  /-- a directory exists only for a name the visit walk knows -/
  named : ∀ b, f.dirs b ≠ none → b ∈ f.names
  /-- the walk lists each directory once -/
  nodup : f.names.Nodup

theorem RF_empty : RF Ibx.Model.FileStore.empty Ibx.Spec.Store.empty := by
  refine ⟨fun b => rfl, fun b => rfl, fun b => ⟨?_, ?_, ?_, ?_, ?_⟩, ?_, ?_⟩ <;>
    simp [Ibx.Model.FileStore.empty, ents]

/-- RF sees the abstract store only through its listings and generator -/
theorem RF_congr {f : FS} {s s' : Store} (h : RF f s) (hl : ∀ b, listing s' b = listing s b)
    (hn : ∀ b, s'.next b = s.next b) : RF f s' :=
  ⟨fun b => (h.view b).trans (hl b).symm, fun b => (h.next b).trans (hn b).symm, h.ok, h.named, h.nodup⟩

/-! ### setDir -/

@[simp] theorem setDir_dirs_self (f : FS) (b : Bytes) (d : Option Dir) : (setDir f b d).dirs b = d := by
  simp [setDir]

theorem setDir_dirs_ne (f : FS) {b x : Bytes} (d : Option Dir) (h : x ≠ b) : (setDir f b d).dirs x = f.dirs x := by
  simp [setDir, h]

@[simp] theorem setDir_next (f : FS) (b : Bytes) (d : Option Dir) : (setDir f b d).next = f.next := rfl

theorem setDir_names_self (f : FS) (b : Bytes) (d : Option Dir) : b ∈ (setDir f b d).names := by
  simp only [setDir]
  split
  · rename_i h; simpa using h
  · simp

theorem setDir_names_mono (f : FS) (b : Bytes) (d : Option Dir) {x : Bytes} (h : x ∈ f.names) : x ∈ (setDir f b d).names := by
  simp only [setDir]
  split
  · exact h
  · exact List.mem_append_left _ h

theorem setDir_names_nodup (f : FS) (b : Bytes) (d : Option Dir) (h : f.names.Nodup) : (setDir f b d).names.Nodup := by
  simp only [setDir]
  split
  · exact h
  · rename_i hc
    have hb : b ∉ f.names := by simpa using hc
    rw [List.nodup_append]
    refine ⟨h, by simp, ?_⟩
    intro a ha c hc'
    simp only [List.mem_singleton] at hc'
    subst hc'
    intro e; exact hb (e ▸ ha)

/-- The frame rule: an update confined to mailbox `b` re-establishes RF from facts about `b` alone. -/
theorem RF_frame {f f' : FS} {s s' : Store} (b : Bytes) (h : RF f s)
    (hd : ∀ x, x ≠ b → f'.dirs x = f.dirs x)
    (hn : ∀ x, x ≠ b → f'.next x = f.next x)
    (hl : ∀ x, x ≠ b → listing s' x = listing s x)
    (hsn : ∀ x, x ≠ b → s'.next x = s.next x)
    (hsub : ∀ x, x ∈ f.names → x ∈ f'.names)
    (hnd : f'.names.Nodup)
    (bview : (ents (f'.dirs b)).map (mkMsg b (f'.dirs b)) = listing s' b)
    (bnext : f'.next b = s'.next b)
    (bok : DirOK (f'.dirs b) (f'.next b))
    (bnamed : f'.dirs b ≠ none → b ∈ f'.names) : RF f' s' := by
  refine ⟨fun x => ?_, fun x => ?_, fun x => ?_, fun x => ?_, hnd⟩
  · by_cases hx : x = b
    · subst hx; rw [readIndex_eq, toMsg_eq]; exact bview
    · rw [readIndex_eq, toMsg_eq, hd x hx, hl x hx, ← h.view x, readIndex_eq, toMsg_eq]
  · by_cases hx : x = b
    · subst hx; exact bnext
    · rw [hn x hx, hsn x hx]; exact h.next x
  · by_cases hx : x = b
    · subst hx; exact bok
    · rw [hd x hx, hn x hx]; exact h.ok x
  · by_cases hx : x = b
    · subst hx; exact bnamed
    · rw [hd x hx]; exact fun hne => hsub x (h.named x hne)

theorem RF_setDir {f : FS} {s s' : Store} (b : Bytes) (D : Option Dir) (h : RF f s)
    (hl : ∀ x, x ≠ b → listing s' x = listing s x) (hsn : ∀ x, s'.next x = s.next x)
    (bview : (ents D).map (mkMsg b D) = listing s' b) (bok : DirOK D (f.next b)) : RF (setDir f b D) s' := by
  refine RF_frame b h (fun x hx => setDir_dirs_ne f D hx) (fun x _ => rfl) hl (fun x _ => hsn x)
    (fun x hx => setDir_names_mono f b D hx) (setDir_names_nodup f b D h.nodup) ?_ ?_ ?_ (fun _ => setDir_names_self f b D)
  · simpa using bview
  · simpa [hsn b] using h.next b
  · simpa using bok

/-! ### what the spec's operations do to one listing -/

theorem filter_inBox_filter (x : Bytes) (p q : Msg → Bool) (l : List Msg) (h : ∀ m, inBox x m = true → p m = q m) :
    (l.filter p).filter (inBox x) = (l.filter (inBox x)).filter q := by
  rw [List.filter_filter, List.filter_filter]
  apply List.filter_congr
  intro m _
  cases hm : inBox x m
  · simp
  · simp [h m hm]

theorem inBox_ne {b x : Bytes} (hx : x ≠ b) {m : Msg} (hm : inBox x m = true) : inBox b m = false := by
  simp only [inBox, beq_iff_eq] at hm
  simp only [inBox, beq_eq_false_iff_ne, hm]
  exact hx

theorem isMsg_eq (b : Bytes) (i : Nat) (m : Msg) : isMsg b i m = (inBox b m && m.id == i) := rfl

/-- `remove` : other mailboxes -/
theorem listing_remove_other {b x : Bytes} (hx : x ≠ b) (i : Nat) (l : List Msg) :
    (l.filter (fun m => !isMsg b i m)).filter (inBox x) = l.filter (inBox x) := by
  rw [filter_inBox_filter x _ (fun _ => true)]
  · simp
  · intro m hm; simp [isMsg_eq, inBox_ne hx hm]

/-- `remove` : the mailbox itself -/
theorem listing_remove_self (b : Bytes) (i : Nat) (l : List Msg) :
    (l.filter (fun m => !isMsg b i m)).filter (inBox b) = (l.filter (inBox b)).filter (fun m => m.id != i) := by
  apply filter_inBox_filter
  intro m hm; simp [isMsg_eq, hm, bne]

theorem listing_purge_other {b x : Bytes} (hx : x ≠ b) (l : List Msg) :
    (l.filter (fun m => !inBox b m)).filter (inBox x) = l.filter (inBox x) := by
  rw [filter_inBox_filter x _ (fun _ => true)]
  · simp
  · intro m hm; simp [inBox_ne hx hm]

theorem listing_purge_self (b : Bytes) (l : List Msg) :
    (l.filter (fun m => !inBox b m)).filter (inBox b) = [] := by
  rw [List.filter_filter, List.filter_eq_nil_iff]
  intro m _; cases inBox b m <;> simp

/-- a map that keeps the mailbox name commutes with listing -/
theorem listing_map (x : Bytes) (g : Msg → Msg) (hg : ∀ m, (g m).box = m.box) (l : List Msg) :
    (l.map g).filter (inBox x) = (l.filter (inBox x)).map g := by
  rw [List.filter_map]
  congr 1
  apply List.filter_congr
  intro m _; simp [inBox, hg m]

def markSeen (b : Bytes) (i : Nat) (m : Msg) : Msg := if isMsg b i m then { m with seen := true } else m

theorem markSeen_box (b : Bytes) (i : Nat) (m : Msg) : (markSeen b i m).box = m.box := by
  unfold markSeen; split <;> rfl

theorem listing_seen_other {b x : Bytes} (hx : x ≠ b) (i : Nat) (l : List Msg) :
    (l.map (markSeen b i)).filter (inBox x) = l.filter (inBox x) := by
  rw [listing_map x _ (markSeen_box b i)]
  have : ∀ m ∈ l.filter (inBox x), markSeen b i m = id m := by
    intro m hm
    have := (List.mem_filter.1 hm).2
    simp [markSeen, isMsg_eq, inBox_ne hx this]
  exact (List.map_congr_left this).trans (List.map_id _)

theorem any_eq_find {α} (p : α → Bool) (l : List α) : l.any p = (l.find? p).isSome := by
  induction l with
  | nil => rfl
  | cons a l ih => cases h : p a <;> simp [h, ih]

theorem spec_find (s : Store) (b : Bytes) (i : Nat) :
    s.msgs.find? (isMsg b i) = (listing s b).find? (fun m => m.id == i) := by
  unfold listing; rw [List.find?_filter]; congr 1; funext a; by_cases h : a.id = i <;> simp [isMsg_eq, h]

theorem file_find {f : FS} {s : Store} (h : RF f s) (b : Bytes) (i : Nat) :
    s.msgs.find? (isMsg b i) = ((readIndex f b).find? (·.id == i)).map (toMsg f b) := by
  rw [spec_find, ← h.view b, List.find?_map]; rfl

/-! ### refinement, one operation at a time -/

/-- outputs agree: equal, or (mailbox walk) the same mailboxes in a different order -/
def OutEq (o₁ o₂ : Out) : Prop := o₁ = o₂ ∨ ∃ l₁ l₂, o₁ = .boxes l₁ ∧ o₂ = .boxes l₂ ∧ l₁.Perm l₂

/-- one step of the file model against one step of the spec (byte limit disabled) -/
def StepRefines (c : Cfg) (f : FS) (s : Store) (op : Op) : Prop :=
  OutEq (fstep c f op).2.1 (sstep { c with limit := 0 } s op).2.1 ∧
  (fstep c f op).2.2 = (sstep { c with limit := 0 } s op).2.2 ∧
  RF (fstep c f op).1 (sstep { c with limit := 0 } s op).1

theorem refines_get (c : Cfg) {f : FS} {s : Store} (h : RF f s) (b : Bytes) (i : Nat) : StepRefines c f s (.get b i) := by
  have e := file_find h b i
  unfold StepRefines
  simp only [fstep, sstep, Model.FileStore.step, Spec.Store.step]
  rw [e]
  cases (readIndex f b).find? (·.id == i) <;> exact ⟨.inl rfl, rfl, h⟩

theorem refines_latest (c : Cfg) {f : FS} {s : Store} (h : RF f s) (b : Bytes) : StepRefines c f s (.latest b) := by
  have e : (listing s b).getLast? = ((readIndex f b).getLast?).map (toMsg f b) := by
    rw [← h.view b, List.getLast?_map]
  unfold StepRefines
  simp only [fstep, sstep, Model.FileStore.step, Spec.Store.step]
  rw [e]
  cases (readIndex f b).getLast? <;> exact ⟨.inl rfl, rfl, h⟩

theorem refines_list (c : Cfg) {f : FS} {s : Store} (h : RF f s) (b : Bytes) : StepRefines c f s (.list b) := by
  unfold StepRefines
  simp only [fstep, sstep, Model.FileStore.step, Spec.Store.step]
  exact ⟨.inl (by rw [h.view b]), by first | rfl | trivial, h⟩

theorem ents_ne_nil {D : Option Dir} (h : ents D ≠ []) : ∃ d, D = some d ∧ d.index = some (ents D) := by
  cases D with
  | none => exact absurd rfl h
  | some d =>
    refine ⟨d, rfl, ?_⟩
    cases hi : d.index with
    | none => simp [ents, hi] at h
    | some l => simp [ents, hi]

theorem writeIndex_eq (f : FS) (b : Bytes) (l : List FEnt) :
    writeIndex f b l = setDir f b (if l.isEmpty then none else some { (f.dirs b).getD { index := none, raws := [] } with index := some l }) := by
  unfold writeIndex; split <;> simp [*]

theorem DirOK_some_iff (d : Dir) (n : Nat) : DirOK (some d) n ↔
    d.index ≠ some [] ∧
    (∀ e ∈ d.index.getD [], ∃ src, (d.raws.find? (·.1 == e.id)).map (·.2) = some src ∧ e.size = src.length) ∧
    (d.index.getD []).Pairwise (fun x y => x.id ≠ y.id) ∧
    (∀ e ∈ d.index.getD [], e.id ≤ n) ∧ (∀ p ∈ d.raws, p.1 ≤ n) := by
  constructor
  · intro h
    exact ⟨h.noEmptyIdx d rfl, h.rawOk, h.distinct, h.idsLe, h.rawLe d rfl⟩
  · rintro ⟨h1, h2, h3, h4, h5⟩
    exact ⟨fun x hx => by cases hx; exact h1, h2, h3, h4, fun x hx => by cases hx; exact h5⟩

theorem DirOK_none (n : Nat) : DirOK none n := by
  constructor <;> simp [ents]

theorem refines_seen (c : Cfg) {f : FS} {s : Store} (h : RF f s) (b : Bytes) (i : Nat) : StepRefines c f s (.seen b i) := by
  have e := file_find h b i
  have ea : s.msgs.any (isMsg b i) = ((readIndex f b).find? (·.id == i)).isSome := by
    rw [any_eq_find, e]; cases (readIndex f b).find? (·.id == i) <;> rfl
  unfold StepRefines
  simp only [fstep, sstep, Model.FileStore.step, Spec.Store.step]
  rw [ea]
  cases hf : (readIndex f b).find? (·.id == i) with
  | none => exact ⟨.inl rfl, rfl, h⟩
  | some e0 =>
    have hmem : e0 ∈ readIndex f b := List.mem_of_find?_eq_some hf
    have hid : e0.id = i := by simpa using List.find?_some hf
    simp only [Option.isSome_some, if_true]
    cases hs : e0.seen with
    | true =>
      simp only [if_true]
      refine ⟨.inl rfl, trivial, ?_⟩
      refine RF_congr h (fun x => ?_) (fun _ => rfl)
      show (s.msgs.map (markSeen b i)).filter (inBox x) = _
      by_cases hx : x = b
      · subst hx
        rw [listing_map _ _ (markSeen_box x i)]
        have : ∀ m ∈ s.msgs.filter (inBox x), markSeen x i m = id m := by
          intro m hm
          change m ∈ listing s x at hm
          rw [← h.view x] at hm
          obtain ⟨e1, he1, rfl⟩ := List.mem_map.1 hm
          unfold markSeen
          split
          · rename_i hmsg
            have hid1 : e1.id = i := by simpa [isMsg_eq, toMsg, inBox] using hmsg
            have hd := (h.ok x).distinct
            rw [← readIndex_eq] at hd
            have : e1 = e0 := pairwise_id_unique (g := FEnt.id) hd he1 hmem (hid1.trans hid.symm)
            subst this
            simp [toMsg, hs]
          · rfl
        exact (List.map_congr_left this).trans (List.map_id _)
      · exact listing_seen_other hx i s.msgs
    | false =>
      simp only [Bool.false_eq_true, if_false]
      refine ⟨.inl rfl, trivial, ?_⟩
      have hne : readIndex f b ≠ [] := List.ne_nil_of_mem hmem
      have hv := h.view b
      have hok := h.ok b
      rw [readIndex_eq] at hne hv
      rw [toMsg_eq] at hv
      obtain ⟨d, hd, hidx⟩ := ents_ne_nil hne
      rw [writeIndex_eq, readIndex_eq]
      rw [hd] at hne hv hok hidx ⊢
      have hemp : (List.map (fun x : FEnt => if (x.id == i) = true then { id := x.id, hdr := x.hdr, seen := true, size := x.size } else x)
          (ents (some d))).isEmpty = false := by
        cases hc : ents (some d) with
        | nil => exact absurd hc hne
        | cons _ _ => rfl
      rw [hemp]
      simp only [Bool.false_eq_true, if_false, Option.getD_some]
      refine RF_setDir b _ h (fun x hx => listing_seen_other hx i s.msgs) (fun _ => rfl) ?_ ?_
      · show _ = (s.msgs.map (markSeen b i)).filter (inBox b)
        rw [listing_map _ _ (markSeen_box b i)]
        change _ = (listing s b).map _
        rw [← hv]
        simp only [ents, Option.getD_some, List.map_map]
        apply List.map_congr_left
        intro e1 _
        simp only [Function.comp, mkMsg, markSeen, isMsg_eq, inBox, rawIn, beq_self_eq_true, Bool.true_and]
        split <;> rfl
      · rw [DirOK_some_iff] at hok ⊢
        obtain ⟨h1, h2, h3, h4, h5⟩ := hok
        refine ⟨?_, ?_, ?_, ?_, h5⟩
        · simpa [ents] using hne
        · simp only [Option.getD_some, List.mem_map]
          rintro e1 ⟨e2, he2, rfl⟩
          have := h2 e2 he2
          split <;> exact this
        · simp only [Option.getD_some, List.pairwise_map]
          refine h3.imp ?_
          intro x y hxy
          split <;> split <;> exact hxy
        · simp only [Option.getD_some, List.mem_map]
          rintro e1 ⟨e2, he2, rfl⟩
          have := h4 e2 he2
          split <;> exact this


theorem setDir_setDir (f : FS) (b : Bytes) (d1 d2 : Option Dir) : setDir (setDir f b d1) b d2 = setDir f b d2 := by
  have hn : (setDir f b d1).names.contains b = true := by simpa using setDir_names_self f b d1
  have e1 : (setDir (setDir f b d1) b d2).names = (setDir f b d1).names := by
    show (if (setDir f b d1).names.contains b then _ else _) = _
    rw [hn]; rfl
  have e2 : (setDir f b d2).names = (setDir f b d1).names := rfl
  have e3 : (setDir (setDir f b d1) b d2).dirs = (setDir f b d2).dirs := by
    funext x
    by_cases hx : x = b
    · subst hx; simp
    · rw [setDir_dirs_ne _ _ hx, setDir_dirs_ne _ _ hx, setDir_dirs_ne _ _ hx]
  have e4 : (setDir (setDir f b d1) b d2).next = (setDir f b d2).next := rfl
  cases h1 : setDir (setDir f b d1) b d2
  cases h2 : setDir f b d2
  simp_all

theorem find?_filter_of_imp {α} (p q : α → Bool) (l : List α) (h : ∀ a, q a = true → p a = true) :
    (l.filter p).find? q = l.find? q := by
  induction l with
  | nil => rfl
  | cons a l ih =>
    cases hp : p a
    · have : q a = false := by cases hq : q a; rfl; exact absurd (h a hq) (by simp [hp])
      simp [hp, this, ih]
    · simp [hp, List.find?_cons, ih]

theorem any_ids {f : FS} {s : Store} (h : RF f s) (b : Bytes) (i : Nat) :
    s.msgs.any (isMsg b i) = (readIndex f b).any (·.id == i) := by
  rw [any_eq_find, any_eq_find, file_find h]
  cases (readIndex f b).find? (·.id == i) <;> rfl

/-- the state `removeEnt` produces when the id is present -/
def afterRemove (f : FS) (b : Bytes) (i : Nat) : FS :=
  if ((readIndex f b).filter (·.id != i)).isEmpty then writeIndex f b ((readIndex f b).filter (·.id != i))
  else unlinkRaw (writeIndex f b ((readIndex f b).filter (·.id != i))) b i

theorem removeEnt_eq (f : FS) (b : Bytes) (i : Nat) :
    removeEnt f b (readIndex f b) i =
      if (readIndex f b).any (·.id == i) then some (afterRemove f b i, (readIndex f b).filter (·.id != i)) else none := rfl

def specRemove (s : Store) (b : Bytes) (i : Nat) : Store := { s with msgs := s.msgs.filter (fun m => !isMsg b i m) }

theorem afterRemove_RF {f : FS} {s : Store} (h : RF f s) (b : Bytes) (i : Nat)
    (hany : (readIndex f b).any (·.id == i) = true) :
    RF (afterRemove f b i) (specRemove s b i) ∧
    readIndex (afterRemove f b i) b = (readIndex f b).filter (·.id != i) ∧
    (afterRemove f b i).next = f.next := by
  have hne : readIndex f b ≠ [] := by
    intro e; rw [e] at hany; simp at hany
  have hv := h.view b
  have hok := h.ok b
  rw [readIndex_eq] at hne hv
  rw [toMsg_eq] at hv
  obtain ⟨d, hd, hidx⟩ := ents_ne_nil hne
  have hspec : listing (specRemove s b i) b = ((ents (f.dirs b)).filter (·.id != i)).map (mkMsg b (f.dirs b)) := by
    show (s.msgs.filter _).filter (inBox b) = _
    rw [listing_remove_self]
    change (listing s b).filter _ = _
    rw [← hv, List.filter_map]; rfl
  unfold afterRemove
  rw [readIndex_eq, writeIndex_eq]
  rw [hd] at hne hv hok hidx hspec ⊢
  cases hl : ((ents (some d)).filter (·.id != i)).isEmpty with
  | true =>
    simp only [if_true]
    have hnil : (ents (some d)).filter (·.id != i) = [] := by simpa using hl
    refine ⟨RF_setDir b none h (fun x hx => listing_remove_other hx i s.msgs) (fun _ => rfl) ?_ (DirOK_none _), ?_, rfl⟩
    · rw [hspec, hnil]; rfl
    · rw [readIndex_eq, setDir_dirs_self, hnil]; rfl
  | false =>
    simp only [Bool.false_eq_true, if_false, Option.getD_some]
    have hnn : (ents (some d)).filter (·.id != i) ≠ [] := by
      intro e; rw [e] at hl; simp at hl
    unfold unlinkRaw
    simp only [setDir_dirs_self, setDir_setDir]
    refine ⟨RF_setDir b _ h (fun x hx => listing_remove_other hx i s.msgs) (fun _ => rfl) ?_ ?_, ?_, rfl⟩
    · rw [hspec]
      simp only [ents, Option.getD_some]
      apply List.map_congr_left
      intro e1 he1
      have hne1 : e1.id ≠ i := by simpa using (List.mem_filter.1 he1).2
      simp only [mkMsg, rawIn]
      rw [find?_filter_of_imp]
      intro a ha
      have : a.1 = e1.id := by simpa using ha
      simpa [this] using hne1
    · rw [DirOK_some_iff] at hok ⊢
      obtain ⟨h1, h2, h3, h4, h5⟩ := hok
      refine ⟨by simpa [ents] using hnn, ?_, ?_, ?_, ?_⟩
      · simp only [Option.getD_some]
        intro e1 he1
        have hne1 : e1.id ≠ i := by simpa using (List.mem_filter.1 he1).2
        rw [find?_filter_of_imp]
        · exact h2 e1 (List.mem_filter.1 he1).1
        · intro a ha
          have : a.1 = e1.id := by simpa using ha
          simpa [this] using hne1
      · exact h3.filter _
      · intro e1 he1; exact h4 e1 (List.mem_filter.1 he1).1
      · intro p hp; exact h5 p (List.mem_filter.1 hp).1
    · rw [readIndex_eq, setDir_dirs_self]; simp [ents]

theorem refines_remove (c : Cfg) {f : FS} {s : Store} (h : RF f s) (b : Bytes) (i : Nat) : StepRefines c f s (.remove b i) := by
  unfold StepRefines
  simp only [fstep, sstep, Model.FileStore.step, Spec.Store.step]
  rw [removeEnt_eq, any_ids h]
  cases hany : (readIndex f b).any (·.id == i) with
  | false => exact ⟨.inl rfl, by first | rfl | trivial, h⟩
  | true => exact ⟨.inl rfl, by first | rfl | trivial, (afterRemove_RF h b i hany).1⟩


theorem refines_purge (c : Cfg) {f : FS} {s : Store} (h : RF f s) (b : Bytes) : StepRefines c f s (.purge b) := by
  unfold StepRefines
  simp only [fstep, sstep, Model.FileStore.step, Spec.Store.step]
  refine ⟨.inl rfl, ?_, ?_⟩
  · rw [← h.view b, List.map_map]; rfl
  · refine RF_setDir b none h (fun x hx => listing_purge_other hx s.msgs) (fun _ => rfl) ?_ (DirOK_none _)
    show _ = (s.msgs.filter _).filter (inBox b)
    rw [listing_purge_self]; rfl

/-! ### delivery: the tail of `add` (no eviction) -/

def newMsg (s : Store) (b : Bytes) (hdr : Meta) (src : Bytes) : Msg :=
  { box := b, id := s.next b + 1, hdr := hdr, seen := false, source := src }

def bump (nx : Bytes → Nat) (b : Bytes) : Bytes → Nat := fun x => if x == b then nx b + 1 else nx x

def addTail (f1 : FS) (b : Bytes) (hdr : Meta) (src : Bytes) (l1 : List FEnt) : FS :=
  writeIndex
    (setDir { f1 with next := bump f1.next b } b
      (some { (f1.dirs b).getD { index := none, raws := [] } with
              raws := ((f1.dirs b).getD { index := none, raws := [] }).raws ++ [(f1.next b + 1, src)] }))
    b (l1 ++ [{ id := f1.next b + 1, hdr := hdr, seen := false, size := src.length }])

theorem snoc_isEmpty {α} (l : List α) (a : α) : (l ++ [a]).isEmpty = false := by cases l <;> rfl

theorem getD_facts {D : Option Dir} {n : Nat} (h : DirOK D n) :
    DirOK (some (D.getD { index := none, raws := [] })) n ∧
    ents D = (D.getD { index := none, raws := [] }).index.getD [] ∧
    ∀ j, rawIn D j = ((D.getD { index := none, raws := [] }).raws.find? (·.1 == j)).map (·.2) := by
  cases D with
  | none => exact ⟨by rw [DirOK_some_iff]; simp, rfl, fun _ => rfl⟩
  | some d => exact ⟨h, rfl, fun _ => rfl⟩

theorem addTail_RF {f1 : FS} {s1 : Store} (h : RF f1 s1) (b : Bytes) (hdr : Meta) (src : Bytes) :
    RF (addTail f1 b hdr src (readIndex f1 b))
       { msgs := s1.msgs ++ [newMsg s1 b hdr src], next := bump s1.next b } := by
  have hv := h.view b
  rw [readIndex_eq, toMsg_eq] at hv
  obtain ⟨hok, hents, hraw⟩ := getD_facts (h.ok b)
  generalize hdd : (f1.dirs b).getD { index := none, raws := [] } = d at hok hents hraw
  rw [DirOK_some_iff] at hok
  obtain ⟨h1, h2, h3, h4, h5⟩ := hok
  have hnx : f1.next b = s1.next b := h.next b
  have hfresh : d.raws.find? (·.1 == f1.next b + 1) = none := by
    rw [List.find?_eq_none]
    intro p hp hc
    have := h5 p hp
    have : p.1 = f1.next b + 1 := by simpa using hc
    omega
  unfold addTail
  rw [writeIndex_eq, setDir_setDir, readIndex_eq, hdd]
  simp only [snoc_isEmpty, Bool.false_eq_true, if_false, setDir_dirs_self, Option.getD_some]
  refine RF_frame b h (fun x hx => setDir_dirs_ne _ _ hx) ?_ ?_ ?_ (fun x hx => setDir_names_mono _ b _ hx)
    (setDir_names_nodup _ b _ h.nodup) ?_ ?_ ?_ (fun _ => setDir_names_self _ b _)
  · intro x hx; simp [bump, hx]
  · intro x hx
    show (s1.msgs ++ [newMsg s1 b hdr src]).filter (inBox x) = _
    have : inBox x (newMsg s1 b hdr src) = false := by
      simp only [inBox, newMsg, beq_eq_false_iff_ne]; exact fun e => hx e.symm
    simp [List.filter_append, this, listing]
  · intro x hx; simp [bump, hx]
  · simp only [setDir_dirs_self]
    show _ = (s1.msgs ++ [newMsg s1 b hdr src]).filter (inBox b)
    have : inBox b (newMsg s1 b hdr src) = true := by simp [inBox, newMsg]
    rw [List.filter_append, List.filter_cons, this]
    change _ = listing s1 b ++ _
    rw [← hv, hents]
    simp only [ents, Option.getD_some, List.map_append, List.map_cons, List.map_nil, if_true, List.filter_nil]
    congr 1
    · apply List.map_congr_left
      intro e he
      obtain ⟨sr, hsr, _⟩ := h2 e he
      simp only [mkMsg]
      rw [hraw]
      simp only [rawIn, List.find?_append]
      cases hq : d.raws.find? (·.1 == e.id) with
      | none => rw [hq] at hsr; cases hsr
      | some p => rfl
    · simp [mkMsg, rawIn, List.find?_append, hfresh, newMsg, ← hnx]
  · simp [bump, hnx]
  · simp only [setDir_dirs_self, setDir_next, bump, beq_self_eq_true, if_true]
    rw [DirOK_some_iff]
    simp only [Option.getD_some]
    rw [hents]
    refine ⟨by simp, ?_, ?_, ?_, ?_⟩
    · intro e he
      rcases List.mem_append.1 he with he | he
      · obtain ⟨sr, hsr, hsz⟩ := h2 e he
        refine ⟨sr, ?_, hsz⟩
        rw [List.find?_append]
        cases hq : d.raws.find? (·.1 == e.id) with
        | none => rw [hq] at hsr; cases hsr
        | some p => rw [hq] at hsr; exact hsr
      · have : e = { id := f1.next b + 1, hdr := hdr, seen := false, size := src.length } := by simpa using he
        subst this
        exact ⟨src, by simp [List.find?_append, hfresh], rfl⟩
    · rw [List.pairwise_append]
      refine ⟨h3, by simp, ?_⟩
      intro x hx y hy
      have : y = { id := f1.next b + 1, hdr := hdr, seen := false, size := src.length } := by simpa using hy
      subst this
      have := h4 x hx
      show x.id ≠ f1.next b + 1
      omega
    · intro e he
      rcases List.mem_append.1 he with he | he
      · have := h4 e he; omega
      · have : e = { id := f1.next b + 1, hdr := hdr, seen := false, size := src.length } := by simpa using he
        subst this; exact Nat.le_refl _
    · intro p hp
      rcases List.mem_append.1 hp with hp | hp
      · have := h5 p hp; omega
      · have : p = (f1.next b + 1, src) := by simpa using hp
        subst this; exact Nat.le_refl _


/-! ### delivery: the cap loop -/

/-- the spec store after evicting the oldest `k` messages of mailbox `b` -/
def dropBox (s : Store) (b : Bytes) (k : Nat) : Store := { s with msgs := (dropOldest b k s.msgs).1 }

theorem dropBox_zero (s : Store) (b : Bytes) : dropBox s b 0 = s := by
  simp [dropBox, dropOldest_zero]

/-- how many messages the cap loop removes from a mailbox holding `n` -/
def evictCount (cap n : Nat) : Nat := if cap > 0 ∧ n ≥ cap then n + 1 - cap else 0

theorem listing_specRemove_head {f : FS} {s : Store} (h : RF f s) (b : Bytes) (e : FEnt) (rest : List FEnt)
    (hl : readIndex f b = e :: rest) : listing (specRemove s b e.id) b = (listing s b).drop 1 := by
  show (s.msgs.filter _).filter (inBox b) = _
  rw [listing_remove_self]
  change (listing s b).filter _ = _
  have hd := (h.ok b).distinct
  rw [← readIndex_eq, hl] at hd
  rw [← h.view b, hl, List.map_cons]
  have hp : (toMsg f b e :: rest.map (toMsg f b)).Pairwise (fun x y => Msg.id x ≠ Msg.id y) := by
    rw [← List.map_cons, List.pairwise_map]; exact hd
  exact filter_ne_head (g := Msg.id) hp

theorem capLoop_RF (cap : Nat) (hcap : cap > 0) (b : Bytes) : ∀ (fuel : Nat) (f : FS) (s : Store) (l : List FEnt) (ev : List Ev),
    RF f s → l = readIndex f b → l.length < fuel →
    RF (capLoop cap b fuel f l ev).1 (dropBox s b (evictCount cap l.length)) ∧
    (capLoop cap b fuel f l ev).2.1 = readIndex (capLoop cap b fuel f l ev).1 b ∧
    (capLoop cap b fuel f l ev).2.2 = ev.reverse ++ (dropOldest b (evictCount cap l.length) s.msgs).2.map evOf ∧
    (capLoop cap b fuel f l ev).1.next = f.next ∧
    (capLoop cap b fuel f l ev).2.1 = l.drop (evictCount cap l.length) := by
  intro fuel
  induction fuel with
  | zero => intro f s l ev _ _ hlt; omega
  | succ fuel ih =>
    intro f s l ev h hl hlt
    unfold capLoop
    by_cases hge : l.length ≥ cap
    · simp only [hge, if_true]
      cases l with
      | nil => simp at hge; omega
      | cons e rest =>
        simp only
        have hany : (readIndex f b).any (·.id == e.id) = true := by rw [← hl]; simp
        have hrm : removeEnt f b (e :: rest) e.id = some (afterRemove f b e.id, (readIndex f b).filter (·.id != e.id)) := by
          rw [hl, removeEnt_eq, hany]; rfl
        obtain ⟨hrf, hri, hnx⟩ := afterRemove_RF h b e.id hany
        have hd := (h.ok b).distinct
        rw [← readIndex_eq, ← hl] at hd
        have hrest : (readIndex f b).filter (·.id != e.id) = rest := by
          rw [← hl]; exact filter_ne_head (g := FEnt.id) hd
        rw [hrm, hrest]
        simp only
        rw [hrest] at hri
        obtain ⟨i1, i2, i3, i4, i5⟩ := ih (afterRemove f b e.id) (specRemove s b e.id) rest ((b, e.id) :: ev) hrf hri.symm
          (by simp only [List.length_cons] at hlt; omega)
        have hk : evictCount cap (e :: rest).length = evictCount cap rest.length + 1 := by
          simp only [evictCount, List.length_cons] at hge ⊢
          split <;> split <;> omega
        have hL : listing s b = toMsg f b e :: rest.map (toMsg f b) := by rw [← h.view b, ← hl]; rfl
        have hL1 := listing_specRemove_head h b e rest hl.symm
        refine ⟨?_, i2, ?_, i4.trans hnx, by rw [i5, hk, List.drop_succ_cons]⟩
        · refine RF_congr i1 (fun x => ?_) (fun _ => rfl)
          show (dropOldest b _ s.msgs).1.filter (inBox x) = (dropOldest b _ (specRemove s b e.id).msgs).1.filter (inBox x)
          by_cases hx : x = b
          · subst hx
            rw [dropOldest_fst_box, dropOldest_fst_box, hk]
            change (listing s x).drop _ = (listing (specRemove s x e.id) x).drop _
            rw [hL1, List.drop_drop, Nat.add_comm]
          · rw [dropOldest_fst_other b x hx, dropOldest_fst_other b x hx]
            exact (listing_remove_other hx e.id s.msgs).symm
        · rw [i3, dropOldest_snd, dropOldest_snd, hk]
          change _ ++ ((listing (specRemove s b e.id) b).take _).map evOf = _ ++ ((listing s b).take _).map evOf
          rw [hL1, hL]
          simp [evOf, toMsg]
    · simp only [hge, if_false]
      have hk : evictCount cap l.length = 0 := by
        simp only [evictCount]; split <;> omega
      rw [hk, dropOldest_zero, dropBox_zero]
      exact ⟨h, hl, by simp, by first | rfl | trivial, by simp⟩

/-- KEY LEMMA (spec side): evicting the oldest `n + 1 - cap` of the mailbox BEFORE appending the new message
    (the file store's order) is what the spec's add-then-`capEvict` does; with `cap = 1` that empties the mailbox. -/
theorem capEvict_append (cap : Nat) (b : Bytes) (l : List Msg) (m : Msg) (hm : inBox b m = true) :
    (capEvict cap b (l ++ [m])).2 = (dropOldest b (evictCount cap (l.filter (inBox b)).length) l).2 ∧
    ∀ x, (capEvict cap b (l ++ [m])).1.filter (inBox x) =
         ((dropOldest b (evictCount cap (l.filter (inBox b)).length) l).1 ++ [m]).filter (inBox x) := by
  have hn : ((l ++ [m]).filter (inBox b)).length = (l.filter (inBox b)).length + 1 := by
    simp [List.filter_append, hm]
  unfold capEvict evictCount
  simp only [hn]
  by_cases hc : cap > 0 ∧ (l.filter (inBox b)).length ≥ cap
  · have hc' : cap > 0 ∧ (l.filter (inBox b)).length + 1 > cap := ⟨hc.1, by omega⟩
    simp only [hc, hc', and_self, if_true]
    have hle : (l.filter (inBox b)).length + 1 - cap ≤ (l.filter (inBox b)).length := by omega
    refine ⟨?_, fun x => ?_⟩
    · rw [dropOldest_snd, dropOldest_snd, List.filter_append, List.take_append_of_le_length hle]
    · by_cases hx : x = b
      · subst hx
        rw [dropOldest_fst_box, List.filter_append, List.filter_append, dropOldest_fst_box,
          List.drop_append_of_le_length hle]
      · rw [dropOldest_fst_other b x hx, List.filter_append, List.filter_append, dropOldest_fst_other b x hx]
  · have hc' : ¬ (cap > 0 ∧ (l.filter (inBox b)).length + 1 > cap) := by omega
    simp only [hc, hc', if_false]
    exact ⟨by simp [dropOldest_zero], fun x => by simp [dropOldest_zero]⟩

theorem fstep_add_eq (c : Cfg) (f : FS) (b : Bytes) (hdr : Meta) (src : Bytes) :
    fstep c f (.add b hdr src) =
      (addTail (if c.cap > 0 then capLoop c.cap b ((readIndex f b).length + 1) f (readIndex f b) [] else (f, readIndex f b, [])).1 b hdr src
          (if c.cap > 0 then capLoop c.cap b ((readIndex f b).length + 1) f (readIndex f b) [] else (f, readIndex f b, [])).2.1,
        .id ((if c.cap > 0 then capLoop c.cap b ((readIndex f b).length + 1) f (readIndex f b) [] else (f, readIndex f b, [])).1.next b + 1),
        (if c.cap > 0 then capLoop c.cap b ((readIndex f b).length + 1) f (readIndex f b) [] else (f, readIndex f b, [])).2.2) := rfl

theorem sstep_add_eq (c : Cfg) (s : Store) (b : Bytes) (hdr : Meta) (src : Bytes) :
    sstep { c with limit := 0 } s (.add b hdr src) =
      ({ msgs := (capEvict c.cap b (s.msgs ++ [newMsg s b hdr src])).1, next := bump s.next b },
        .id (s.next b + 1), (capEvict c.cap b (s.msgs ++ [newMsg s b hdr src])).2.map evOf) := by
  simp [sstep, Spec.Store.step, limitEvict_zero, newMsg]
  funext x; simp [bump]

theorem refines_add (c : Cfg) {f : FS} {s : Store} (h : RF f s) (b : Bytes) (hdr : Meta) (src : Bytes) :
    StepRefines c f s (.add b hdr src) := by
  unfold StepRefines
  rw [fstep_add_eq, sstep_add_eq]
  have hm : inBox b (newMsg s b hdr src) = true := by simp [inBox, newMsg]
  obtain ⟨ce2, ce1⟩ := capEvict_append c.cap b s.msgs (newMsg s b hdr src) hm
  have hlen : (s.msgs.filter (inBox b)).length = (readIndex f b).length := by
    change (listing s b).length = _
    rw [← h.view b, List.length_map]
  rw [hlen] at ce2 ce1
  by_cases hc : c.cap > 0
  · simp only [hc, if_true]
    obtain ⟨i1, i2, i3, i4, _⟩ := capLoop_RF c.cap hc b ((readIndex f b).length + 1) f s (readIndex f b) [] h rfl (Nat.lt_succ_self _)
    refine ⟨.inl (by rw [i4, h.next b]), ?_, ?_⟩
    · rw [i3, ce2]; rfl
    · rw [i2]
      have := addTail_RF i1 b hdr src
      refine RF_congr this (fun x => ?_) (fun _ => rfl)
      exact ce1 x
  · simp only [hc, if_false]
    have hk : evictCount c.cap (readIndex f b).length = 0 := by
      simp only [evictCount]; split <;> omega
    rw [hk, dropOldest_zero] at ce1 ce2
    refine ⟨.inl (by rw [h.next b]), ?_, ?_⟩
    · rw [ce2]; rfl
    · exact RF_congr (addTail_RF h b hdr src) (fun x => ce1 x) (fun _ => rfl)


/-! ### the mailbox walk -/

theorem listing_ne_nil_iff (s : Store) (b : Bytes) : listing s b ≠ [] ↔ b ∈ boxNames s.msgs := by
  unfold boxNames listing
  rw [mem_eraseDups, List.mem_map, ne_eq, List.filter_eq_nil_iff]
  constructor
  · intro hne
    apply Classical.byContradiction
    intro hno
    apply hne
    intro m hm hb
    exact hno ⟨m, hm, by simpa [inBox] using hb⟩
  · rintro ⟨m, hm, rfl⟩ hall
    exact hall m hm (by simp [inBox])

theorem refines_visit (c : Cfg) {f : FS} {s : Store} (h : RF f s) : StepRefines c f s .visit := by
  unfold StepRefines
  simp only [fstep, sstep, Model.FileStore.step, Spec.Store.step]
  refine ⟨.inr ⟨_, _, rfl, rfl, ?_⟩, by first | rfl | trivial, h⟩
  have hfun : (fun b => (readIndex f b).map (toMsg f b)) = listing s := funext h.view
  rw [hfun, List.filter_map]
  apply List.Perm.map
  apply nodup_perm_of_mem_iff (h.nodup.sublist List.filter_sublist) (nodup_eraseDups _)
  intro b
  rw [List.mem_filter]
  change _ ↔ b ∈ boxNames s.msgs
  rw [← listing_ne_nil_iff]
  constructor
  · rintro ⟨_, hb⟩ e
    simp [e] at hb
  · intro hne
    refine ⟨h.named b ?_, ?_⟩
    · intro hd
      apply hne
      rw [← h.view b, readIndex_eq, hd]; rfl
    · cases hl : listing s b with
      | nil => exact absurd hl hne
      | cons _ _ => simp [hl]

/-- **file_refines_step**: every operation of the file model is matched by the spec (byte limit off):
    same answer (the mailbox walk up to the order of mailboxes; mailboxes that are empty are not reported),
    same `deleted` events in the same order, and the simulation relation is re-established. -/
theorem file_refines_step (c : Cfg) {f : FS} {s : Store} (h : RF f s) (op : Op) : StepRefines c f s op := by
  cases op with
  | add b hdr src => exact refines_add c h b hdr src
  | get b i => exact refines_get c h b i
  | latest b => exact refines_latest c h b
  | list b => exact refines_list c h b
  | seen b i => exact refines_seen c h b i
  | remove b i => exact refines_remove c h b i
  | purge b => exact refines_purge c h b
  | visit => exact refines_visit c h


/-! ### histories -/

/-- run a history on the file model; collects outputs and events per operation -/
def frun (c : Cfg) : FS → List Op → FS × List (Out × List Ev)
  | f, [] => (f, [])
  | f, op :: ops => ((frun c (fstep c f op).1 ops).1, ((fstep c f op).2.1, (fstep c f op).2.2) :: (frun c (fstep c f op).1 ops).2)

theorem srun_cons (c : Cfg) (s : Store) (op : Op) (ops : List Op) :
    Spec.Store.run c s (op :: ops) =
      ((Spec.Store.run c (sstep c s op).1 ops).1, ((sstep c s op).2.1, (sstep c s op).2.2) :: (Spec.Store.run c (sstep c s op).1 ops).2) := rfl

/-- answer lists agree position by position (answers by `OutEq`, events exactly) -/
def OutsEq : List (Out × List Ev) → List (Out × List Ev) → Prop
  | [], [] => True
  | a :: r₁, b :: r₂ => OutEq a.1 b.1 ∧ a.2 = b.2 ∧ OutsEq r₁ r₂
  | _, _ => False

theorem OutEq.refl (o : Out) : OutEq o o := .inl rfl

theorem OutEq.symm {o₁ o₂ : Out} (h : OutEq o₁ o₂) : OutEq o₂ o₁ := by
  rcases h with h | ⟨l₁, l₂, h1, h2, hp⟩
  · exact .inl h.symm
  · exact .inr ⟨l₂, l₁, h2, h1, hp.symm⟩

theorem OutEq.trans {o₁ o₂ o₃ : Out} (h : OutEq o₁ o₂) (h' : OutEq o₂ o₃) : OutEq o₁ o₃ := by
  rcases h with h | ⟨l₁, l₂, h1, h2, hp⟩
  · subst h; exact h'
  · rcases h' with h' | ⟨l₂', l₃, h3, h4, hp'⟩
    · subst h'; exact .inr ⟨l₁, l₂, h1, h2, hp⟩
    · rw [h2] at h3
      cases h3
      exact .inr ⟨l₁, l₃, h1, h4, hp.trans hp'⟩

/-- an answer that is not a mailbox walk is matched exactly -/
theorem OutEq.eq_of_not_boxes {o₁ o₂ : Out} (h : OutEq o₁ o₂) (hn : ∀ l, o₂ ≠ .boxes l) : o₁ = o₂ := by
  rcases h with h | ⟨_, l₂, _, h2, _⟩
  · exact h
  · exact absurd h2 (hn l₂)

theorem OutsEq.symm : ∀ {r₁ r₂ : List (Out × List Ev)}, OutsEq r₁ r₂ → OutsEq r₂ r₁
  | [], [], _ => trivial
  | _ :: _, _ :: _, ⟨h1, h2, h3⟩ => ⟨h1.symm, h2.symm, OutsEq.symm h3⟩
  | [], _ :: _, h => h.elim
  | _ :: _, [], h => h.elim

theorem OutsEq.trans : ∀ {r₁ r₂ r₃ : List (Out × List Ev)}, OutsEq r₁ r₂ → OutsEq r₂ r₃ → OutsEq r₁ r₃
  | [], [], [], _, _ => trivial
  | _ :: _, _ :: _, _ :: _, ⟨h1, h2, h3⟩, ⟨g1, g2, g3⟩ => ⟨h1.trans g1, h2.trans g2, OutsEq.trans h3 g3⟩
  | [], _ :: _, _, h, _ => h.elim
  | _ :: _, [], _, h, _ => h.elim
  | [], [], _ :: _, _, h => h.elim
  | _ :: _, _ :: _, [], _, h => h.elim

/-- **file_refines_run**: by induction over the history -/
theorem file_refines_run (c : Cfg) : ∀ (ops : List Op) {f : FS} {s : Store}, RF f s →
    OutsEq (frun c f ops).2 (Spec.Store.run { c with limit := 0 } s ops).2 ∧
    RF (frun c f ops).1 (Spec.Store.run { c with limit := 0 } s ops).1
  | [], _, _, h => ⟨trivial, h⟩
  | op :: ops, f, s, h => by
    obtain ⟨h1, h2, h3⟩ := file_refines_step c h op
    obtain ⟨i1, i2⟩ := file_refines_run c ops h3
    rw [srun_cons]
    exact ⟨⟨h1, h2, i1⟩, i2⟩

/-! ### orphans -/

/-- a stray `<i>.raw` (crash between writing the body and the index, or between the index rewrite and the unlink) -/
def addOrphanRaw (f : FS) (b : Bytes) (i : Nat) (src : Bytes) : FS :=
  match f.dirs b with
  | some d => setDir f b (some { d with raws := d.raws ++ [(i, src)] })
  | none => f

/-- an existing mailbox directory without an index file -/
def addOrphanDir (f : FS) (b : Bytes) : FS :=
  match f.dirs b with
  | none => setDir f b (some { index := none, raws := [] })
  | some _ => f

theorem orphan_raw_RF {f : FS} {s : Store} (h : RF f s) (b : Bytes) (i : Nat) (src : Bytes) (hi : i ≤ f.next b) :
    RF (addOrphanRaw f b i src) s := by
  unfold addOrphanRaw
  cases hd : f.dirs b with
  | none => exact h
  | some d =>
    have hv := h.view b
    have hok := h.ok b
    rw [readIndex_eq, toMsg_eq, hd] at hv
    rw [hd, DirOK_some_iff] at hok
    obtain ⟨h1, h2, h3, h4, h5⟩ := hok
    refine RF_setDir b _ h (fun _ _ => rfl) (fun _ => rfl) ?_ ?_
    · rw [← hv]
      simp only [ents]
      apply List.map_congr_left
      intro e he
      obtain ⟨sr, hsr, _⟩ := h2 e he
      simp only [mkMsg, rawIn, List.find?_append]
      cases hq : d.raws.find? (·.1 == e.id) with
      | none => rw [hq] at hsr; cases hsr
      | some p => rfl
    · rw [DirOK_some_iff]
      refine ⟨h1, ?_, h3, h4, ?_⟩
      · intro e he
        obtain ⟨sr, hsr, hsz⟩ := h2 e he
        refine ⟨sr, ?_, hsz⟩
        simp only [List.find?_append]
        cases hq : d.raws.find? (·.1 == e.id) with
        | none => rw [hq] at hsr; cases hsr
        | some p => rw [hq] at hsr; exact hsr
      · intro p hp
        rcases List.mem_append.1 hp with hp | hp
        · exact h5 p hp
        · have : p = (i, src) := by simpa using hp
          subst this; exact hi

theorem orphan_dir_RF {f : FS} {s : Store} (h : RF f s) (b : Bytes) : RF (addOrphanDir f b) s := by
  unfold addOrphanDir
  cases hd : f.dirs b with
  | some d => exact h
  | none =>
    have hv := h.view b
    rw [readIndex_eq, toMsg_eq, hd] at hv
    refine RF_setDir b _ h (fun _ _ => rfl) (fun _ => rfl) ?_ ?_
    · rw [← hv]; rfl
    · rw [DirOK_some_iff]; simp

/-! ### what is gone stays gone -/

/-- id `i` of mailbox `b` has been handed out and is not in the mailbox any more -/
def SGone (b : Bytes) (i : Nat) (s : Store) : Prop := i ≤ s.next b ∧ ∀ m ∈ s.msgs, isMsg b i m = false

theorem dropOldest_fst_mem (b : Bytes) (k : Nat) (l : List Msg) (m : Msg) : m ∈ (dropOldest b k l).1 → m ∈ l := by
  fun_induction dropOldest b k l <;> simp_all
  all_goals grind


theorem capEvict_fst_mem (cap : Nat) (b : Bytes) (l : List Msg) (m : Msg) : m ∈ (capEvict cap b l).1 → m ∈ l := by
  unfold capEvict
  simp only
  split
  · exact dropOldest_fst_mem b _ l m
  · exact id

theorem SGone_step (c : Cfg) (b : Bytes) (i : Nat) {s : Store} (h : SGone b i s) (op : Op) :
    SGone b i (sstep { c with limit := 0 } s op).1 := by
  obtain ⟨hle, hno⟩ := h
  cases op with
  | add b' hdr src =>
    rw [sstep_add_eq]
    refine ⟨?_, ?_⟩
    · simp only [bump]
      split
      · rename_i hb
        have : b = b' := by simpa using hb
        subst this; omega
      · omega
    · intro m hm
      rcases List.mem_append.1 (capEvict_fst_mem _ _ _ _ hm) with hm | hm
      · exact hno m hm
      · have : m = newMsg s b' hdr src := by simpa using hm
        subst this
        simp only [isMsg, newMsg]
        by_cases hb : b' = b
        · subst hb
          have : (s.next b' + 1 == i) = false := by simp; omega
          simp [this]
        · simp [hb]
  | get b' j => simp only [sstep, Spec.Store.step]; split <;> exact ⟨hle, hno⟩
  | latest b' => simp only [sstep, Spec.Store.step]; split <;> exact ⟨hle, hno⟩
  | list b' => exact ⟨hle, hno⟩
  | seen b' j =>
    simp only [sstep, Spec.Store.step]
    split
    · refine ⟨hle, ?_⟩
      intro m hm
      obtain ⟨m0, hm0, rfl⟩ := List.mem_map.1 hm
      have := hno m0 hm0
      split <;> simpa [isMsg] using this
    · exact ⟨hle, hno⟩
  | remove b' j =>
    simp only [sstep, Spec.Store.step]
    split
    · exact ⟨hle, fun m hm => hno m (List.mem_filter.1 hm).1⟩
    · exact ⟨hle, hno⟩
  | purge b' => exact ⟨hle, fun m hm => hno m (List.mem_filter.1 hm).1⟩
  | visit => exact ⟨hle, hno⟩

theorem SGone_run (c : Cfg) (b : Bytes) (i : Nat) : ∀ (ops : List Op) {s : Store}, SGone b i s →
    SGone b i (Spec.Store.run { c with limit := 0 } s ops).1
  | [], _, h => h
  | op :: ops, s, h => by rw [srun_cons]; exact SGone_run c b i ops (SGone_step c b i h op)

/-- the file-side reading of "gone" -/
def FGone (b : Bytes) (i : Nat) (f : FS) : Prop := i ≤ f.next b ∧ ∀ e ∈ readIndex f b, e.id ≠ i

theorem gone_iff {f : FS} {s : Store} (h : RF f s) (b : Bytes) (i : Nat) : FGone b i f ↔ SGone b i s := by
  unfold FGone SGone
  rw [h.next b]
  have key : (∀ e ∈ readIndex f b, e.id ≠ i) ↔ ∀ m ∈ s.msgs, isMsg b i m = false := by
    have e1 := any_ids h b i
    constructor
    · intro hf m hm
      cases hq : isMsg b i m with
      | false => rfl
      | true =>
        have : s.msgs.any (isMsg b i) = true := List.any_eq_true.2 ⟨m, hm, hq⟩
        rw [e1, List.any_eq_true] at this
        obtain ⟨e, he, hid⟩ := this
        exact absurd (by simpa using hid) (hf e he)
    · intro hs e he hid
      have : (readIndex f b).any (·.id == i) = true := List.any_eq_true.2 ⟨e, he, by simpa using hid⟩
      rw [← e1, List.any_eq_true] at this
      obtain ⟨m, hm, hq⟩ := this
      rw [hs m hm] at hq; cases hq
  rw [key]

/-- a `get` of a gone id says so -/
theorem FGone_get (c : Cfg) {f : FS} {b : Bytes} {i : Nat} (h : FGone b i f) : (fstep c f (.get b i)).2.1 = .notExist := by
  have : (readIndex f b).find? (·.id == i) = none := by
    rw [List.find?_eq_none]; intro e he; simpa using h.2 e he
  simp only [fstep, Model.FileStore.step, this]


/-! ### every announced deletion is a real one -/

theorem RF_listing_distinct {f : FS} {s : Store} (h : RF f s) (b : Bytes) :
    (listing s b).Pairwise (fun x y => x.id ≠ y.id) := by
  rw [← h.view b, List.pairwise_map]
  have := (h.ok b).distinct
  rw [← readIndex_eq] at this
  exact this

theorem RF_listing_le {f : FS} {s : Store} (h : RF f s) (b : Bytes) : ∀ m ∈ listing s b, m.box = b ∧ m.id ≤ s.next b := by
  intro m hm
  refine ⟨by simpa [inBox] using (List.mem_filter.1 hm).2, ?_⟩
  rw [← h.view b] at hm
  obtain ⟨e, he, rfl⟩ := List.mem_map.1 hm
  rw [← h.next b]
  rw [readIndex_eq] at he
  exact (h.ok b).idsLe e he

theorem isMsg_mem_listing {s : Store} {b : Bytes} {i : Nat} {m : Msg} (hm : m ∈ s.msgs) (hq : isMsg b i m = true) :
    m ∈ listing s b ∧ m.id = i := by
  rw [isMsg_eq, Bool.and_eq_true] at hq
  exact ⟨List.mem_filter.2 ⟨hm, hq.1⟩, by simpa using hq.2⟩

theorem event_gone (c : Cfg) {f : FS} {s : Store} (h : RF f s) (op : Op) (b : Bytes) (i : Nat)
    (hev : (b, i) ∈ (sstep { c with limit := 0 } s op).2.2) : SGone b i (sstep { c with limit := 0 } s op).1 := by
  cases op with
  | add b' hdr src =>
    rw [sstep_add_eq] at hev ⊢
    have hm' : inBox b' (newMsg s b' hdr src) = true := by simp [inBox, newMsg]
    obtain ⟨ce2, ce1⟩ := capEvict_append c.cap b' s.msgs (newMsg s b' hdr src) hm'
    generalize evictCount c.cap (s.msgs.filter (inBox b')).length = k at ce1 ce2
    simp only at hev
    rw [ce2, dropOldest_snd] at hev
    obtain ⟨m, hm, hme⟩ := List.mem_map.1 hev
    change m ∈ (listing s b').take k at hm
    obtain ⟨hbox, hle⟩ := RF_listing_le h b' m (List.mem_of_mem_take hm)
    have hb : b' = b := by simp only [evOf, Prod.mk.injEq] at hme; rw [← hbox]; exact hme.1
    have hi : m.id = i := by simp only [evOf, Prod.mk.injEq] at hme; exact hme.2
    subst hb hi
    refine ⟨by simp [bump]; omega, ?_⟩
    intro m1 hm1
    cases hq : isMsg b' m.id m1 with
    | false => rfl
    | true =>
      exfalso
      obtain ⟨hin, hid⟩ := isMsg_mem_listing (s := { msgs := (capEvict c.cap b' (s.msgs ++ [newMsg s b' hdr src])).1, next := bump s.next b' }) hm1 hq
      change m1 ∈ List.filter (inBox b') _ at hin
      rw [ce1 b', List.filter_append, dropOldest_fst_box] at hin
      rcases List.mem_append.1 hin with hin | hin
      · have hd := RF_listing_distinct h b'
        unfold listing at hd
        rw [← List.take_append_drop k (s.msgs.filter (inBox b')), List.pairwise_append] at hd
        exact hd.2.2 m hm m1 hin hid.symm
      · have : m1 = newMsg s b' hdr src := by
          have := (List.mem_filter.1 hin).1
          simpa using this
        subst this
        simp only [newMsg] at hid
        omega
  | get b' j => simp only [sstep, Spec.Store.step] at hev; split at hev <;> cases hev
  | latest b' => simp only [sstep, Spec.Store.step] at hev; split at hev <;> cases hev
  | list b' => cases hev
  | seen b' j => simp only [sstep, Spec.Store.step] at hev; split at hev <;> cases hev
  | remove b' j =>
    simp only [sstep, Spec.Store.step] at hev ⊢
    split at hev
    · rename_i hany
      simp only [hany, if_true]
      have : b = b' ∧ i = j := by simpa using hev
      obtain ⟨rfl, rfl⟩ := this
      obtain ⟨m, hm, hq⟩ := List.any_eq_true.1 hany
      obtain ⟨hin, hid⟩ := isMsg_mem_listing hm hq
      refine ⟨hid ▸ (RF_listing_le h b m hin).2, ?_⟩
      intro m1 hm1
      have := (List.mem_filter.1 hm1).2
      simpa using this
    · cases hev
  | purge b' =>
    simp only [sstep, Spec.Store.step] at hev ⊢
    obtain ⟨m, hm, hme⟩ := List.mem_map.1 hev
    obtain ⟨hbox, hle⟩ := RF_listing_le h b' m hm
    have hb : b' = b := by simp only [evOf, Prod.mk.injEq] at hme; rw [← hbox]; exact hme.1
    have hi : m.id = i := by simp only [evOf, Prod.mk.injEq] at hme; exact hme.2
    subst hb hi
    refine ⟨hle, ?_⟩
    intro m1 hm1
    have := (List.mem_filter.1 hm1).2
    rw [isMsg_eq]
    cases hb : inBox b' m1 with
    | false => rfl
    | true => simp [hb] at this
  | visit => cases hev

/-! ### the cap keeps working; what was written reads back -/

/-- after a delivery the mailbox holds at most `cap` messages (whatever it held before) and the new one is last -/
theorem add_listing (c : Cfg) (s : Store) (b : Bytes) (hdr : Meta) (src : Bytes) :
    listing (sstep { c with limit := 0 } s (.add b hdr src)).1 b =
      (listing s b).drop (evictCount c.cap (listing s b).length) ++ [newMsg s b hdr src] := by
  rw [sstep_add_eq]
  have hm : inBox b (newMsg s b hdr src) = true := by simp [inBox, newMsg]
  show List.filter (inBox b) _ = _
  rw [(capEvict_append c.cap b s.msgs _ hm).2 b, List.filter_append, dropOldest_fst_box]
  simp [hm, listing]

theorem evictCount_bound (cap n : Nat) (h : cap > 0) : n - evictCount cap n + 1 ≤ cap := by
  unfold evictCount; split <;> omega

/-! ### the id generator only moves forward -/

theorem capLoop_next (cap : Nat) (b : Bytes) : ∀ (fuel : Nat) (f : FS) (l : List FEnt) (ev : List Ev),
    (capLoop cap b fuel f l ev).1.next = f.next := by
  intro fuel
  induction fuel with
  | zero => intro f l ev; rfl
  | succ fuel ih =>
    intro f l ev
    unfold capLoop
    split
    · split
      · rfl
      · rename_i e rest
        split
        · rename_i s1 l1 hrm
          rw [ih]
          simp only [removeEnt] at hrm
          split at hrm
          · cases hrm
            split
            · rw [writeIndex_eq]; rfl
            · unfold unlinkRaw; split <;> rw [writeIndex_eq] <;> rfl
          · cases hrm
        · rfl
    · rfl


theorem writeIndex_next (f : FS) (b : Bytes) (l : List FEnt) : (writeIndex f b l).next = f.next := by
  rw [writeIndex_eq]; rfl

theorem unlinkRaw_next (f : FS) (b : Bytes) (i : Nat) : (unlinkRaw f b i).next = f.next := by
  unfold unlinkRaw; split <;> rfl

theorem afterRemove_next (f : FS) (b : Bytes) (i : Nat) : (afterRemove f b i).next = f.next := by
  unfold afterRemove; split
  · exact writeIndex_next _ _ _
  · rw [unlinkRaw_next, writeIndex_next]

theorem addTail_next (f1 : FS) (b : Bytes) (hdr : Meta) (src : Bytes) (l : List FEnt) :
    (addTail f1 b hdr src l).next = bump f1.next b := by
  unfold addTail; rw [writeIndex_next]; rfl

/-- a delivery returns the generator's next id for the mailbox and advances the generator; nothing else moves it -/
theorem fstep_add_id (c : Cfg) (f : FS) (b : Bytes) (hdr : Meta) (src : Bytes) :
    (fstep c f (.add b hdr src)).2.1 = .id (f.next b + 1) ∧ (fstep c f (.add b hdr src)).1.next = bump f.next b := by
  rw [fstep_add_eq]
  by_cases hc : c.cap > 0
  · simp [hc, addTail_next, capLoop_next]
  · simp [hc, addTail_next]

theorem fstep_next_mono (c : Cfg) (f : FS) (op : Op) (b : Bytes) : f.next b ≤ (fstep c f op).1.next b := by
  cases op with
  | add b' hdr src =>
    rw [(fstep_add_id c f b' hdr src).2]
    simp only [bump]; split
    · rename_i hb
      have : b = b' := by simpa using hb
      subst this; omega
    · exact Nat.le_refl _
  | get b' j => simp only [fstep, Model.FileStore.step]; split <;> exact Nat.le_refl _
  | latest b' => simp only [fstep, Model.FileStore.step]; split <;> exact Nat.le_refl _
  | list b' => exact Nat.le_refl _
  | seen b' j =>
    simp only [fstep, Model.FileStore.step]
    split
    · split
      · exact Nat.le_refl _
      · rw [writeIndex_next]; exact Nat.le_refl _
    · exact Nat.le_refl _
  | remove b' j =>
    simp only [fstep, Model.FileStore.step]
    rw [removeEnt_eq]
    split
    · rename_i h1
      split at h1
      · cases h1; rw [afterRemove_next]; exact Nat.le_refl _
      · cases h1
    · exact Nat.le_refl _
  | purge b' => exact Nat.le_refl _
  | visit => exact Nat.le_refl _

end Ibx.Lemmas.FileRefine
