import Ibx.Model.WsListener
/-
  Lemmas.WsListener — the inductive invariant of the fixed close protocol, and helpers to build long
  runs of the original one.
-/
namespace Ibx.Lemmas.WsListener
open Ibx.Model.WsListener

/-- the inductive invariant of the fixed protocol -/
structure FixedInv (cap : Nat) (s : St) : Prop where
  notBlocked : s.hubBlocked = false
  chOpen : s.chClosed = false
  noPanic : s.hubPanics = 0
  noClosePanic : s.closePanic = false
  once : s.doneCloses = if s.done then 1 else 0
  noLoss : s.lost = []
  queue : s.delivered ++ s.buf = s.sent
  bounded : s.buf.length ≤ cap
  consecutive : s.sent = List.range (s.delivered.length + s.buf.length)
  complete : s.registered = true → s.delivered.length + s.buf.length = s.next
  noCloseCh : s.reader ≠ .closeCh ∧ s.writer ≠ .closeCh
  closing : (s.reader = .closeRm ∨ s.reader = .exited ∨ s.writer = .closeRm ∨ s.writer = .exited) → s.done = true
  closed : (s.reader = .exited ∨ s.writer = .exited) → s.registered = false ∨ 0 < s.rmQueued

theorem fixedInv_init (cap : Nat) : FixedInv cap {} := by
  constructor
  case notBlocked => rfl
  case chOpen => rfl
  case noPanic => rfl
  case noClosePanic => rfl
  case once => rfl
  case noLoss => rfl
  case queue => rfl
  case bounded => exact Nat.zero_le _
  case consecutive => rfl
  case complete => intro _; rfl
  case noCloseCh => exact ⟨by decide, by decide⟩
  case closing => intro h; rcases h with h | h | h | h <;> cases h
  case closed => intro h; rcases h with h | h <;> cases h

theorem fixedInv_step {cap : Nat} {s s' : St} (h : FixedInv cap s) (st : Step .fixed cap s s') : FixedInv cap s' := by
  obtain ⟨h1, h2, h3, h4, h5, h6, h7, h8, h9, h10, h11, h12, h13⟩ := h
  cases st with
  | hubSend hp => cases hp
  | hubPark hp => cases hp
  | hubResume hb => simp [h1] at hb
  | hubSendPanic _ hc => simp [h2] at hc
  | nbSend _ hr _ _ hl =>
    have hn := h10 hr
    have hlen : s.delivered.length + (s.buf.length + 1) = (s.delivered.length + s.buf.length) + 1 := by omega
    exact { notBlocked := h1, chOpen := h2, noPanic := h3, noClosePanic := h4, once := h5, noLoss := h6,
            queue := by simp only [St.push]; rw [← List.append_assoc, h7],
            bounded := by simp only [St.push, List.length_append, List.length_singleton]; omega,
            consecutive := by
              simp only [St.push, List.length_append, List.length_singleton]
              rw [hlen, List.range_succ, ← h9, hn],
            complete := by intro _; simp only [St.push, List.length_append, List.length_singleton]; omega,
            noCloseCh := h11, closing := h12, closed := h13 }
  | nbClosed _ hr _ hd => constructor <;> simp_all
  | nbSlow _ hr _ _ hd hl => constructor <;> simp_all
  | hubRm _ hq => constructor <;> simp_all <;> omega
  | wRecv hw hb =>
    rename_i e rest
    have hlen : s.delivered.length + 1 + rest.length = s.delivered.length + s.buf.length := by simp [hb]; omega
    exact { notBlocked := h1, chOpen := h2, noPanic := h3, noClosePanic := h4, once := h5, noLoss := h6,
            queue := by simp only [List.append_assoc, List.singleton_append, ← hb]; exact h7,
            bounded := by have := h8; simp [hb] at this; simp; omega,
            consecutive := by simp only [List.length_append, List.length_singleton]; rw [hlen]; exact h9,
            complete := by intro hr; simp only [List.length_append, List.length_singleton]; rw [hlen]; exact h10 hr,
            noCloseCh := h11, closing := h12, closed := h13 }
  | wSeesClosed _ _ hc => simp [h2] at hc
  | wSeesDone _ hw hd => constructor <;> simp_all
  | wFail hw => constructor <;> simp_all
  | rFail hr => constructor <;> simp_all
  | cSwallow r hp => cases hp
  | cAlready r hp => cases hp
  | cDefault r hp => cases hp
  | cCloseCh r hp => cases r <;> simp_all [St.pc]
  | cOnce r _ hp => cases r <;> constructor <;> simp_all [St.pc, St.setPc] <;> omega
  | cRm r hp => cases r <;> constructor <;> simp_all [St.pc, St.setPc, Proto.fixed] <;> omega

theorem fixed_inv {cap : Nat} {s : St} (h : Reach .fixed cap s) : FixedInv cap s := by
  induction h with
  | init => exact fixedInv_init cap
  | step _ st ih => exact fixedInv_step ih st

def pushN : Nat → St → St
  | 0, s => s
  | k + 1, s => (pushN k s).push

theorem pushN_fields (k : Nat) (s : St) :
    (pushN k s).registered = s.registered ∧ (pushN k s).hubBlocked = s.hubBlocked ∧
    (pushN k s).chClosed = s.chClosed ∧ (pushN k s).buf.length = s.buf.length + k ∧
    (pushN k s).reader = s.reader ∧ (pushN k s).writer = s.writer ∧ (pushN k s).rmQueued = s.rmQueued ∧
    (pushN k s).lost = s.lost := by
  induction k with
  | zero => simp [pushN]
  | succ k ih => simp [pushN, St.push, ih]; omega

theorem reach_pushN {cap : Nat} {s : St} (k : Nat) (h : Reach .orig cap s) (hr : s.registered = true)
    (hb : s.hubBlocked = false) (hc : s.chClosed = false) (hl : s.buf.length + k ≤ cap) :
    Reach .orig cap (pushN k s) := by
  induction k with
  | zero => exact h
  | succ k ih =>
    have f := pushN_fields k s
    exact .step (ih (by omega)) (.hubSend rfl (by rw [f.1, hr]) (by rw [f.2.1, hb]) (by rw [f.2.2.1, hc])
      (by rw [f.2.2.2.1]; omega))

/-- the state after both Close() calls each swallowed one buffered event -/
def swallowed : St :=
  { next := 2, sent := [0, 1], lost := [0, 1], reader := .exited, writer := .exited }

theorem reach_swallowed {cap : Nat} (hc : 2 ≤ cap) : Reach .orig cap swallowed := by
  have r0 : Reach .orig cap {} := .init
  have r1 := Reach.step r0 (.hubSend rfl rfl rfl rfl (by simp; omega))
  have r2 := Reach.step r1 (.hubSend rfl rfl rfl rfl (by simp [St.push]; omega))
  have r3 := Reach.step r2 (.rFail rfl)
  have r4 := Reach.step r3 (.cSwallow (e := 0) (rest := [1]) true rfl rfl rfl)
  have r5 := Reach.step r4 (.wFail rfl)
  have r6 := Reach.step r5 (.cSwallow (e := 1) (rest := []) false rfl rfl rfl)
  exact r6

end Ibx.Lemmas.WsListener
