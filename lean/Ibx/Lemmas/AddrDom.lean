import Ibx.Lemmas.AddrLoop
import Ibx.Lemmas.Addr
/-
  Helper lemmas for C04, part 3: `ValidateDomainPart` and `canonicalDomain`:
  the label loop ignores letter case, validated label domains are plain text over the name
  alphabet once lower-cased, `canonicalDomain` is idempotent and keeps a domain valid.
-/
namespace Ibx.Lemmas.AddrDom
open Ibx Ibx.Bytes Ibx.Model.Addr Ibx.Lemmas.AddrName Ibx.Lemmas.AddrLoop Ibx.Lemmas.Addr

theorem isDomAN_lowerB (c : Nat) : isDomAN (lowerB c) = isDomAN c := by
  rw [Bool.eq_iff_iff]
  rcases lowerB_cases c with ⟨h, _, _⟩ | ⟨h, _⟩ <;> rw [h] <;> byte_cases <;> omega

/-- the label loop of `ValidateDomainPart` is insensitive to letter case -/
theorem domLoop_lower (l : Bytes) (p p' ll : Nat) (an : Bool)
    (h46 : (p' == 46) = (p == 46)) (h45 : (p' == 45) = (p == 45)) :
    domLoop (lower l) { prev := p', labelLen := ll, hasAN := an } =
      domLoop l { prev := p, labelLen := ll, hasAN := an } := by
  induction l generalizing p p' ll an with
  | nil => rfl
  | cons c rest ih =>
    rw [lower_cons, domLoop, domLoop]
    simp only [isDomAN_lowerB, lowerB_beq c 45 (by omega), lowerB_beq c 46 (by omega), h46, h45]
    have e46 := lowerB_beq c 46 (by omega)
    have e45 := lowerB_beq c 45 (by omega)
    repeat' split
    all_goals first
      | rfl
      | exact ih _ _ _ _ e46 e45

def isBracketed (d : Bytes) : Bool := d.length ≥ 4 && d.head? == some 91 && d.getLast? == some 93

/-- the string `ValidateDomainPart` hands to `net.ParseIP` -/
def ipArg (d : Bytes) : Bytes :=
  if ipv6Tag.isPrefixOf (d.drop 1) then ((d.drop 1).dropLast).drop 5 else (d.drop 1).dropLast

def dotEnd (d : Bytes) : Bytes := if d.getLast? != some 46 then d ++ [46] else d

def initD : DState := { prev := 46, labelLen := 0, hasAN := false }

theorem vdp_eq (ip : Bytes → Bool) (d : Bytes) : validateDomainPart ip d =
    if d.length == 0 then false else if d.length > 255 then false
    else if isBracketed d then ip (ipArg d) else domLoop (dotEnd d) initD := rfl

theorem getLast?_lower (a : Bytes) (k : Nat) (hk : ¬ (65 ≤ k ∧ k ≤ 90) ∧ ¬ (97 ≤ k ∧ k ≤ 122)) :
    ((lower a).getLast? == some k) = (a.getLast? == some k) := by
  unfold lower
  rw [List.getLast?_map]
  cases a.getLast? with
  | none => simp
  | some c => simpa using lowerB_beq c k hk

theorem isBracketed_lower (d : Bytes) : isBracketed (lower d) = isBracketed d := by
  unfold isBracketed
  rw [lower_length, head?_lower d 91 (by omega), getLast?_lower d 93 (by omega)]

theorem dotEnd_lower (d : Bytes) : dotEnd (lower d) = lower (dotEnd d) := by
  unfold dotEnd
  have h : ((lower d).getLast? != some 46) = (d.getLast? != some 46) := by
    simp only [bne, getLast?_lower d 46 (by omega)]
  rw [h]; split <;> simp [lowerB]

theorem domLoop_lower_init (d : Bytes) : domLoop (lower d) initD = domLoop d initD :=
  domLoop_lower d 46 46 0 false rfl rfl

/-- the tag test and the argument of `net.ParseIP`, on the lower-cased domain -/
theorem ipArg_lower (d : Bytes) : lower (ipArg d) =
    if ipv6Tag.isPrefixOf (d.drop 1) then (((lower d).drop 1).dropLast).drop 5
    else ((lower d).drop 1).dropLast := by
  unfold ipArg lower
  split <;> simp [List.map_drop, List.map_dropLast]

/-- `ValidateDomainPart` gives the same answer on two spellings of a domain that differ only in
    letter case, provided an IP literal carries the tag in both or in neither, and `ParseIP`
    ignores case -/
theorem vdp_case (ip : Bytes → Bool) (hip : ∀ s, ip (lower s) = ip s) (x d : Bytes)
    (hl : lower x = lower d)
    (ht : isBracketed d = true → ipv6Tag.isPrefixOf (x.drop 1) = ipv6Tag.isPrefixOf (d.drop 1)) :
    validateDomainPart ip x = validateDomainPart ip d := by
  have hlen : x.length = d.length := by rw [← lower_length x, hl, lower_length]
  have hbr : isBracketed x = isBracketed d := by rw [← isBracketed_lower x, hl, isBracketed_lower]
  rw [vdp_eq, vdp_eq, hlen, hbr]
  split
  · rfl
  · split
    · rfl
    · split
      · rename_i hb
        rw [← hip (ipArg x), ← hip (ipArg d), ipArg_lower, ipArg_lower, hl, ht hb]
      · rw [← domLoop_lower_init (dotEnd x), ← domLoop_lower_init (dotEnd d), ← dotEnd_lower,
          ← dotEnd_lower, hl]

theorem lowerB_ne_73 (c : Nat) : (73 == lowerB c) = false := by
  rcases lowerB_cases c with ⟨h, _, _⟩ | ⟨h, _⟩ <;> rw [h] <;> simp <;> omega

/-- a lower-cased string never starts with the (mixed-case) tag -/
theorem tag_not_prefix_lower (x : Bytes) : ipv6Tag.isPrefixOf (lower x) = false := by
  cases x with
  | nil => rfl
  | cons c r => simp [ipv6Tag, List.isPrefixOf, lowerB_ne_73]

theorem open_not_prefix_lower (x : Bytes) : ipv6Open.isPrefixOf (lower x) = false := by
  cases x with
  | nil => rfl
  | cons c r =>
    have := tag_not_prefix_lower r
    simp only [ipv6Open, lower_cons, List.isPrefixOf, this, Bool.and_false]

theorem open_prefix_cons (c : Nat) (r : Bytes) :
    ipv6Open.isPrefixOf (c :: r) = (c == 91 && ipv6Tag.isPrefixOf r) := by
  simp only [ipv6Open, List.isPrefixOf]
  rw [Bool.beq_comm]

theorem cd_cases (d : Bytes) :
    (∃ t, d = ipv6Open ++ t ∧ canonicalDomain d = ipv6Open ++ lower t) ∨
    (ipv6Open.isPrefixOf d = false ∧ canonicalDomain d = lower d) := by
  unfold canonicalDomain
  cases h : ipv6Open.isPrefixOf d with
  | false => right; simp
  | true =>
    left
    obtain ⟨t, ht⟩ := List.isPrefixOf_iff_prefix.mp h
    refine ⟨t, ht.symm, ?_⟩
    subst ht
    simp [ipv6Open, ipv6Tag]

theorem cd_lower (d : Bytes) : lower (canonicalDomain d) = lower d := by
  rcases cd_cases d with ⟨t, rfl, h⟩ | ⟨_, h⟩ <;> rw [h] <;> simp

theorem cd_length (d : Bytes) : (canonicalDomain d).length = d.length := by
  rw [← lower_length, cd_lower, lower_length]

theorem cd_ne_nil {d : Bytes} (h : d ≠ []) : canonicalDomain d ≠ [] := by
  intro hc
  have := cd_length d
  rw [hc] at this
  exact h (List.eq_nil_of_length_eq_zero this.symm)

/-- `canonicalDomain` is idempotent -/
theorem cd_idem (d : Bytes) : canonicalDomain (canonicalDomain d) = canonicalDomain d := by
  rcases cd_cases d with ⟨t, rfl, h⟩ | ⟨_, h⟩
  · rw [h]
    rcases cd_cases (ipv6Open ++ lower t) with ⟨t', ht', h'⟩ | ⟨hf, _⟩
    · have : t' = lower t := (List.append_cancel_left ht').symm
      rw [h', this, lower_idem]
    · have : ipv6Open.isPrefixOf (ipv6Open ++ lower t) = true :=
        List.isPrefixOf_iff_prefix.mpr ⟨_, rfl⟩
      rw [this] at hf; cases hf
  · rw [h]
    rcases cd_cases (lower d) with ⟨t', ht', _⟩ | ⟨_, h'⟩
    · have := open_not_prefix_lower d
      rw [ht'] at this
      have h2 : ipv6Open.isPrefixOf (ipv6Open ++ t') = true :=
        List.isPrefixOf_iff_prefix.mpr ⟨_, rfl⟩
      rw [h2] at this; cases this
    · rw [h', lower_idem]

/-- `canonicalDomain` keeps (or drops) the tag exactly as the input has it, for a domain starting
    with '[' -/
theorem cd_tag (d : Bytes) (hb : d.head? = some 91) :
    ipv6Tag.isPrefixOf ((canonicalDomain d).drop 1) = ipv6Tag.isPrefixOf (d.drop 1) := by
  rcases cd_cases d with ⟨t, rfl, h⟩ | ⟨hf, h⟩
  · rw [h]; simp [ipv6Open, ipv6Tag, List.isPrefixOf]
  · rw [h]
    cases d with
    | nil => simp at hb
    | cons c r =>
      simp only [List.head?_cons, Option.some.injEq] at hb
      subst hb
      rw [open_prefix_cons] at hf
      simp only [beq_self_eq_true, Bool.true_and] at hf
      simp only [lower_cons, List.drop_succ_cons, List.drop_zero, hf]
      exact tag_not_prefix_lower r

/-- a validated domain stays valid under `canonicalDomain` (given a case-insensitive `ParseIP`) -/
theorem vdp_cd (ip : Bytes → Bool) (hip : ∀ s, ip (lower s) = ip s) (d : Bytes) :
    validateDomainPart ip (canonicalDomain d) = validateDomainPart ip d := by
  apply vdp_case ip hip _ _ (cd_lower d)
  intro hb
  apply cd_tag
  simp only [isBracketed, Bool.and_eq_true, beq_iff_eq] at hb
  exact hb.1.2

theorem domLoop_step {c : Nat} {rest : Bytes} {st : DState} (h : domLoop (c :: rest) st = true) :
    ¬ (st.prev = 46 ∧ c = 46) ∧ ∃ st', st'.prev = c ∧ domLoop rest st' = true := by
  rw [domLoop] at h
  by_cases hA : isDomAN c = true
  · rw [if_pos hA] at h
    refine ⟨fun hc => ?_, _, rfl, h⟩
    rw [hc.2] at hA; simp [isDomAN, isAlphaB, isLowerB, isUpperB, isDigitB] at hA
  · rw [if_neg hA] at h
    by_cases h45 : (c == 45) = true
    · rw [if_pos h45] at h
      split at h
      · simp at h
      · refine ⟨fun hc => ?_, _, rfl, h⟩
        rw [hc.2] at h45; simp at h45
    · rw [if_neg h45] at h
      by_cases h46 : (c == 46) = true
      · rw [if_pos h46] at h
        split at h
        · simp at h
        · rename_i hp
          split at h
          · simp at h
          · split at h
            · simp at h
            · exact ⟨fun hc => hp (by simp [hc.1]), _, rfl, h⟩
      · rw [if_neg h46] at h; simp at h

/-- the label loop rejects two consecutive periods (and a leading one) -/
theorem domLoop_nodd {l : Bytes} {st : DState} (h : domLoop l st = true) :
    hasDotDot (st.prev :: l) = false := by
  induction l generalizing st with
  | nil => simp
  | cons c rest ih =>
    obtain ⟨h1, st', hp, h2⟩ := domLoop_step h
    have := ih h2
    rw [hp] at this
    rw [hasDotDot_cons2, this]
    simp only [Bool.or_false, Bool.and_eq_false_iff, beq_eq_false_iff_ne]
    omega

/-- inversion of `ValidateDomainPart` -/
theorem vdp_inv {ip : Bytes → Bool} {d : Bytes} (h : validateDomainPart ip d = true) :
    d ≠ [] ∧ d.length ≤ 255 ∧
    ((isBracketed d = true ∧ ip (ipArg d) = true) ∨
     (isBracketed d = false ∧ domLoop (dotEnd d) initD = true)) := by
  rw [vdp_eq] at h
  split at h
  · simp at h
  · rename_i h0
    split at h
    · simp at h
    · rename_i h255
      refine ⟨fun hn => h0 (by simp [hn]), by omega, ?_⟩
      split at h
      · rename_i hb; exact Or.inl ⟨hb, h⟩
      · rename_i hb; exact Or.inr ⟨by simpa using hb, h⟩

theorem hasDotDot_prefix (x y : Bytes) (h : hasDotDot (x ++ y) = false) : hasDotDot x = false := by
  induction x with
  | nil => rfl
  | cons a r ih =>
    cases r with
    | nil => simp
    | cons b r' =>
      rw [List.cons_append, List.cons_append, hasDotDot_cons2] at h
      rw [hasDotDot_cons2]
      simp only [Bool.or_eq_false_iff] at h ⊢
      exact ⟨h.1, ih h.2⟩

theorem hasDotDot_lower (x : Bytes) : hasDotDot (lower x) = hasDotDot x := by
  induction x with
  | nil => rfl
  | cons a r ih =>
    cases r with
    | nil => simp
    | cons b r' =>
      rw [lower_cons, lower_cons, hasDotDot_cons2, hasDotDot_cons2, ← lower_cons, ih,
        lowerB_beq a 46 (by omega), lowerB_beq b 46 (by omega)]

/-- a domain the label loop accepted: only label bytes, no leading period, no ".." -/
theorem label_props {d : Bytes} (h : domLoop (dotEnd d) initD = true) :
    (∀ c ∈ d, isDomByte c = true) ∧ hasDotDot (46 :: d) = false := by
  have hb := domLoop_bytes _ _ h
  have hd : hasDotDot (46 :: dotEnd d) = false := domLoop_nodd h
  unfold dotEnd at hb hd
  split at hb
  · rename_i hc
    rw [if_pos hc] at hd
    exact ⟨fun c hc => hb c (by simp [hc]), hasDotDot_prefix (46 :: d) [46] hd⟩
  · rename_i hc
    rw [if_neg hc] at hd
    exact ⟨hb, hd⟩

/-- a label byte, lower-cased, is in the output alphabet of `parseMailboxName` -/
theorem isDomByte_name {c : Nat} (h : isDomByte c = true) : isNameB (lowerB c) = true := by
  rcases lowerB_cases c with ⟨hl, _, _⟩ | ⟨hl, _⟩ <;> rw [hl] <;>
    simp only [isDomByte] at h <;> byte_cases <;> omega

theorem isBracketed_cd (d : Bytes) : isBracketed (canonicalDomain d) = isBracketed d := by
  rw [← isBracketed_lower, cd_lower, isBracketed_lower]

end Ibx.Lemmas.AddrDom
