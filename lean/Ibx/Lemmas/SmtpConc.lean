import Ibx.Model.SmtpConc
import Ibx.Lemmas.SmtpLoop
import Ibx.Lemmas.SpecStore
import Ibx.Lemmas.SmtpStore
/-
  Lemmas about Model.SmtpConc:
  * `loop_iter`, `loop_alone`: `Model.Smtp.loop` is the iteration of `iter` — `alone` computes what `run` computes;
  * one-event lemmas of the composed program (`exec1_thread_other`, `exec1_thread_self`, `exec1_store`);
  * `lastN`: the newest `k` elements of a list, and the listing of a capped mailbox after a sequence of adds.
-/
namespace Ibx.Lemmas.SmtpConc
open Ibx Ibx.Bytes Ibx.Model Ibx.Model.Smtp Ibx.Model.SmtpConc Ibx.Model.Shutdown
open Ibx.Lemmas.Smtp Ibx.Lemmas.SmtpLoop Ibx.Lemmas.SmtpIO Ibx.Lemmas.SpecStore Ibx.Lemmas.SmtpStore
open Ibx.Spec.Store

/-! ### `iter` is the body of `loop` -/

theorem loop_iter (e : Smtp.Env) (fuel : Nat) (s : Smtp.Sess) (inp : Bytes) (acc : List Smtp.Ev) :
    loop e (fuel + 1) s inp acc =
      match (iter e s inp).over with
      | some en => (acc.reverse ++ (iter e s inp).evs, (iter e s inp).sess, en)
      | none => loop e fuel (iter e s inp).sess (iter e s inp).rest ((iter e s inp).evs.reverse ++ acc) := by
  cases SmtpLoop.iter s inp with
  | quit h => simp [loop_stop_quit _ _ _ _ _ h, SmtpConc.iter, h]
  | sendErr h h2 => simp [loop_stop_sendErr _ _ _ _ _ h h2, SmtpConc.iter, h, h2]
  | dataCut h2 h3 hd => simp [loop_data_cut _ _ _ _ _ h2 h3 hd, SmtpConc.iter, h2, h3, hd]
  | data h2 h3 block rest hd =>
    rw [loop_data _ _ _ _ _ h2 h3 block rest hd]
    simp [SmtpConc.iter, h2, h3, hd]
  | eof h1 h2 h3 hi =>
    subst hi
    simp [loop_eof _ _ _ _ h1 h2 h3, SmtpConc.iter, h1, h2, h3, readLine_nil]
  | line h1 h2 h3 line rest hl =>
    rw [loop_line _ _ _ _ _ h1 h2 h3 line rest hl]
    simp [SmtpConc.iter, h1, h2, h3, hl]

theorem tick_over (e : Smtp.Env) (c : Client) (h : c.over.isSome = true) : tick e c = (c, []) := by
  simp [tick, h]

theorem tick_live (e : Smtp.Env) (c : Client) (h : c.over = none) :
    tick e c = ({ sess := (iter e c.sess c.pending).sess, pending := (iter e c.sess c.pending).rest,
                  over := (iter e c.sess c.pending).over }, (iter e c.sess c.pending).evs) := by
  simp [tick, h]

theorem alone_over (e : Smtp.Env) (n : Nat) (c : Client) (h : c.over.isSome = true) : alone e n c = (c, []) := by
  induction n with
  | zero => rfl
  | succ n ih => simp [alone, tick_over e c h, ih]

theorem alone_succ (e : Smtp.Env) (n : Nat) (c : Client) :
    alone e (n + 1) c = ((alone e n (tick e c).1).1, (tick e c).2 ++ (alone e n (tick e c).1).2) := rfl

/-- `n` iterations computed by `alone`, then `m` more by `loop` = `loop` with fuel `n + m` -/
theorem loop_alone (e : Smtp.Env) (n m : Nat) (s : Smtp.Sess) (inp : Bytes) (acc : List Smtp.Ev) :
    loop e (n + m) s inp acc =
      match (alone e n { sess := s, pending := inp }).1.over with
      | some en => (acc.reverse ++ (alone e n { sess := s, pending := inp }).2,
                    (alone e n { sess := s, pending := inp }).1.sess, en)
      | none => loop e m (alone e n { sess := s, pending := inp }).1.sess
                  (alone e n { sess := s, pending := inp }).1.pending
                  ((alone e n { sess := s, pending := inp }).2.reverse ++ acc) := by
  induction n generalizing s inp acc with
  | zero => simp [alone]
  | succ n ih =>
    have hn : n + 1 + m = (n + m) + 1 := by omega
    rw [hn, loop_iter, alone_succ, tick_live e _ rfl]
    cases ho : (iter e s inp).over with
    | some en =>
      simp only []
      rw [alone_over e n _ (by simp)]
      simp
    | none =>
      simp only []
      rw [ih]
      cases ho2 : (alone e n { sess := (iter e s inp).sess, pending := (iter e s inp).rest }).1.over with
      | some en => simp [List.append_assoc]
      | none => simp [List.append_assoc]

/-! ### one event of the composed program -/

section Events
variable (e : SmtpConc.Env)

theorem exec1_cancel_threads (w : World) : (Sess.exec1 (prog e) w .cancel).threads = w.threads := rfl
theorem exec1_cancel_store (w : World) : (Sess.exec1 (prog e) w .cancel).store = w.store := rfl
theorem exec1_closeL_threads (w : World) : (Sess.exec1 (prog e) w .closeL).threads = w.threads := by
  simp only [Sess.exec1]; split <;> rfl
theorem exec1_closeL_store (w : World) : (Sess.exec1 (prog e) w .closeL).store = w.store := by
  simp only [Sess.exec1]; split <;> rfl

theorem exec1_sess_none (w : World) (i : Nat) (h : w.threads[i]? = none) :
    Sess.exec1 (prog e) w (.sess i) = w := by
  simp [Sess.exec1, Sess.sessStep, h]

theorem exec1_sess_idle (w : World) (i : Nat) (t : Thread) (h : w.threads[i]? = some t) (hi : t.input = []) :
    Sess.exec1 (prog e) w (.sess i) = w := by
  simp [Sess.exec1, Sess.sessStep, h, hi]

theorem exec1_sess_live (w : World) (i : Nat) (t : Thread) (x : In) (rest : List In) (h : w.threads[i]? = some t)
    (hi : t.input = x :: rest) :
    Sess.exec1 (prog e) w (.sess i) =
      { w with store := (clientStep e t.st w.store x).2.1,
               threads := w.threads.set i { st := (clientStep e t.st w.store x).1, input := rest,
                                            replies := t.replies ++ (clientStep e t.st w.store x).2.2 } } := by
  simp [Sess.exec1, Sess.sessStep, h, hi, prog]

/-- an event of another client (or a shutdown event) does not touch thread `i` -/
theorem exec1_thread_other (w : World) (ev : Sess.Ev) (i : Nat) (h : ev ≠ .sess i) :
    (Sess.exec1 (prog e) w ev).threads[i]? = w.threads[i]? := by
  cases ev with
  | cancel => rfl
  | closeL => rw [exec1_closeL_threads]
  | sess j =>
    have hji : j ≠ i := fun hh => h (by rw [hh])
    cases hj : w.threads[j]? with
    | none => rw [exec1_sess_none e w j hj]
    | some t =>
      cases hin : t.input with
      | nil => rw [exec1_sess_idle e w j t hj hin]
      | cons x rest =>
        rw [exec1_sess_live e w j t x rest hj hin]
        simp [List.getElem?_set_ne hji]

theorem exec1_thread_self (w : World) (i : Nat) (t : Thread) (x : In) (rest : List In) (h : w.threads[i]? = some t)
    (hi : t.input = x :: rest) :
    (Sess.exec1 (prog e) w (.sess i)).threads[i]? =
      some { st := (clientStep e t.st w.store x).1, input := rest,
             replies := t.replies ++ (clientStep e t.st w.store x).2.2 } := by
  rw [exec1_sess_live e w i t x rest h hi]
  have hlt : i < w.threads.length := by
    rcases Nat.lt_or_ge i w.threads.length with hl | hl
    · exact hl
    · rw [List.getElem?_eq_none hl] at h; cases h
  simp [List.getElem?_set_self hlt]

end Events

/-! ### what a unit does, seen from the client and from the store -/

theorem clientStep_local (e : SmtpConc.Env) (c : Client) (s : Store) (x : In) :
    (clientStep e c s x).1 = (localStep e.smtp c x).1 ∧ evsOf (clientStep e c s x).2.2 = (localStep e.smtp c x).2 := by
  cases x with
  | tick => simp [clientStep, localStep, evsOf, List.filterMap_map, Function.comp_def]
  | call op => simp [clientStep, localStep, evsOf]

theorem evsOf_append (a b : List SmtpConc.Out) : evsOf (a ++ b) = evsOf a ++ evsOf b := by simp [evsOf]

theorem applyCopies_after (c : Cfg) (s : Store) (l : List Smtp.Stored) :
    applyCopies c s l = after c s (l.map addOf) := by
  induction l generalizing s with
  | nil => rfl
  | cons x l ih => simp only [applyCopies, List.foldl_cons, List.map_cons, after_cons]; exact ih _

theorem clientStep_store (e : SmtpConc.Env) (c : Client) (s : Store) (x : In) :
    (clientStep e c s x).2.1 = after e.store s (unitOps e.smtp c x) := by
  cases x with
  | tick => simp [clientStep, unitOps, applyCopies_after]
  | call op => simp [clientStep, unitOps, after_cons, after_nil]

/-- the store after one event is the store before with that event's calls applied, in order -/
theorem exec1_store (e : SmtpConc.Env) (w : World) (ev : Sess.Ev) :
    (Sess.exec1 (prog e) w ev).store = after e.store w.store ((opsAt e w ev).map (·.2)) := by
  cases ev with
  | cancel => simp [opsAt, exec1_cancel_store, after_nil]
  | closeL => simp [opsAt, exec1_closeL_store, after_nil]
  | sess i =>
    cases hi : w.threads[i]? with
    | none => simp [exec1_sess_none e w i hi, opsAt, hi, after_nil]
    | some t =>
      cases hin : t.input with
      | nil => simp [exec1_sess_idle e w i t hi hin, opsAt, hi, hin, after_nil]
      | cons x rest =>
        rw [exec1_sess_live e w i t x rest hi hin]
        simp [opsAt, hi, hin, List.map_map, Function.comp_def, clientStep_store]

/-! ### the newest `k` of a list; capped mailboxes -/

/-- the newest `k` elements (everything when `k = 0`: the cap is disabled) -/
def lastN {α : Type} (k : Nat) (l : List α) : List α := if k > 0 then l.drop (l.length - k) else l

theorem lastN_map {α β : Type} (f : α → β) (k : Nat) (l : List α) : (lastN k l).map f = lastN k (l.map f) := by
  simp [lastN]; split <;> simp [List.map_drop]

theorem lastN_length_le {α : Type} (k : Nat) (hk : k > 0) (l : List α) : (lastN k l).length ≤ k := by
  simp [lastN, hk]; omega

theorem lastN_append_lastN {α : Type} (k : Nat) (l r : List α) : lastN k (lastN k l ++ r) = lastN k (l ++ r) := by
  unfold lastN
  by_cases hk : k > 0
  · simp only [hk, ↓reduceIte, List.length_append, List.length_drop]
    by_cases hl : l.length ≤ k
    · have : l.length - k = 0 := by omega
      simp [this]
    · have h1 : l.length - (l.length - k) + r.length - k = r.length := by omega
      have h2 : l.length + r.length - k = (l.length - k) + r.length := by omega
      have h3 : (l ++ r).drop ((l.length - k) + r.length) = ((l ++ r).drop (l.length - k)).drop r.length := by
        rw [List.drop_drop]
      have h4 : (l ++ r).drop (l.length - k) = l.drop (l.length - k) ++ r :=
        List.drop_append_of_le_length (by omega)
      rw [h1, h2, h3, h4]
  · simp [hk]

/-- without a byte limit, an add shows in its own mailbox as "append, then keep the newest `cap`" -/
theorem listing_add_cap (c : Cfg) (hl : c.limit = 0) (s : Store) (b : Bytes) (h : Meta) (src : Bytes) :
    listing (step c s (.add b h src)).1 b = lastN c.cap (listing s b ++ [newMsg s b h src]) := by
  unfold listing
  rw [step_add_msgs c hl]
  have hx : (s.msgs ++ [newMsg s b h src]).filter (inBox b) = s.msgs.filter (inBox b) ++ [newMsg s b h src] := by
    simp [List.filter_append, newMsg, inBox]
  have := capEvict_kept_box c.cap b (s.msgs ++ [newMsg s b h src])
  rw [hx] at this
  simpa [lastN, newMsg] using this

/-- without a byte limit (any cap): after adding `l`, mailbox `b` shows the newest `cap` of its old messages followed
    by the added ones addressed to `b`, in order of arrival -/
theorem addAll_cap_listing (c : Cfg) (hl : c.limit = 0) (s : Store) (l : List (Bytes × Meta × Bytes)) (b : Bytes)
    (hs : c.cap = 0 ∨ (listing s b).length ≤ c.cap) :
    (listing (addAll c s l) b).map view =
      lastN c.cap ((listing s b).map view ++ ((l.filter (fun x => x.1 == b)).map (fun x => (x.2.1, false, x.2.2)))) := by
  induction l generalizing s with
  | nil =>
    have : lastN c.cap (listing s b) = listing s b := by
      unfold lastN
      rcases hs with h | h
      · simp [h]
      · split
        · have : (listing s b).length - c.cap = 0 := by omega
          simp [this]
        · rfl
    simp only [addAll, List.foldl_nil, List.filter_nil, List.map_nil, List.append_nil]
    rw [← lastN_map, this]
  | cons x l ih =>
    rw [addAll_cons]
    by_cases hx : (x.1 == b) = true
    · have hb : x.1 = b := by simpa using hx
      have h1 : listing (step c s (.add x.1 x.2.1 x.2.2)).1 b = lastN c.cap (listing s b ++ [newMsg s b x.2.1 x.2.2]) := by
        rw [hb]; exact listing_add_cap c hl s b x.2.1 x.2.2
      have hs1 : c.cap = 0 ∨ (listing (step c s (.add x.1 x.2.1 x.2.2)).1 b).length ≤ c.cap := by
        by_cases hc : c.cap = 0
        · exact .inl hc
        · exact .inr (by rw [h1]; exact lastN_length_le _ (by omega) _)
      rw [ih _ hs1, h1, lastN_map, lastN_append_lastN]
      simp [hx, view, newMsg]
    · have hb : b ≠ x.1 := by intro h; apply hx; simp [h]
      have h1 : listing (step c s (.add x.1 x.2.1 x.2.2)).1 b = listing s b := add_other_box c hl s x.1 b x.2.1 x.2.2 hb
      rw [ih _ (by rw [h1]; exact hs), h1]
      simp [hx]


/-! ### the copies of one data block, once applied, are in their mailboxes -/

theorem applyCopies_cons (c : Cfg) (s : Store) (x : Smtp.Stored) (l : List Smtp.Stored) :
    applyCopies c s (x :: l) = applyCopies c (step c s (addOf x)).1 l := rfl

/-- without a byte limit, copies for other mailboxes leave a mailbox's listing alone -/
theorem applyCopies_other (c : Cfg) (hl : c.limit = 0) (l : List Smtp.Stored) (b : Bytes)
    (hb : ∀ x ∈ l, x.mailbox ≠ b) (s : Store) : listing (applyCopies c s l) b = listing s b := by
  induction l generalizing s with
  | nil => rfl
  | cons x l ih =>
    rw [applyCopies_cons, ih (fun y hy => hb y (List.mem_cons_of_mem _ hy))]
    exact add_other_box c hl s x.mailbox b x.hdr x.source (fun h => hb x List.mem_cons_self h.symm)

/-- without a byte limit and for ANY mailbox cap: after the AddMessage calls of one data block every copy is in its
    mailbox — when copies for the same mailbox are identical (as those of one message are), a copy evicted by the cap
    was evicted by an identical later one -/
theorem applyCopies_holds (c : Cfg) (hl : c.limit = 0) (l : List Smtp.Stored)
    (hsame : ∀ x ∈ l, ∀ y ∈ l, x.mailbox = y.mailbox → x = y) (s : Store) :
    ∀ x ∈ l, ∃ m ∈ listing (applyCopies c s l) x.mailbox, m.hdr = x.hdr ∧ m.source = x.source := by
  induction l generalizing s with
  | nil => intro x hx; cases hx
  | cons y l ih =>
    have hsame' : ∀ x ∈ l, ∀ z ∈ l, x.mailbox = z.mailbox → x = z :=
      fun x hx z hz => hsame x (List.mem_cons_of_mem _ hx) z (List.mem_cons_of_mem _ hz)
    have hlater : ∀ x ∈ l, ∃ m ∈ listing (applyCopies c s (y :: l)) x.mailbox, m.hdr = x.hdr ∧ m.source = x.source := by
      intro x hx; rw [applyCopies_cons]; exact ih hsame' _ x hx
    intro x hx
    rcases List.mem_cons.mp hx with rfl | hx
    · by_cases hex : ∃ z ∈ l, z.mailbox = x.mailbox
      · obtain ⟨z, hz, hzb⟩ := hex
        have : z = x := hsame z (List.mem_cons_of_mem _ hz) x List.mem_cons_self hzb
        subst this
        exact hlater z hz
      · rw [applyCopies_cons, applyCopies_other c hl l x.mailbox (fun z hz hzb => hex ⟨z, hz, hzb⟩)]
        obtain ⟨r, hr⟩ := add_keeps_new c s x.mailbox x.hdr x.source (.inl hl)
        refine ⟨newMsg s x.mailbox x.hdr x.source, ?_, rfl, rfl⟩
        simp only [listing, addOf, hr, List.filter_append, List.mem_append]
        right
        simp [newMsg, inBox]
    · exact hlater x hx

end Ibx.Lemmas.SmtpConc
