import Ibx.Lemmas.SmtpEx
/-
  Lemmas about the way the SMTP command loop ends (for C03End): what the final state looks like for each
  outcome of `loop`, and what `runEnd` adds to `run`.
-/
namespace Ibx.Lemmas.SmtpEnd
open Ibx Ibx.Bytes Ibx.Model Ibx.Model.Smtp
open Ibx.Lemmas.Smtp Ibx.Lemmas.SmtpLoop Ibx.Lemmas.SmtpIO

/-- the final state and the last event, by outcome -/
def EndShape (r : List Ev × Sess × End) : Prop :=
  (r.2.2 = .eof → r.2.1.st ≠ .quit ∧ r.2.1.st ≠ .data ∧ r.2.1.sendErr = false) ∧
  (r.2.2 = .dataCut → r.2.1.st = .quit ∧ ∃ pre, r.1 = pre ++ [.reply [354]]) ∧
  (r.2.2 = .quit → r.2.1.st = .quit) ∧
  (r.2.2 = .sendError → r.2.1.st ≠ .quit ∧ r.2.1.sendErr = true)

theorem loop_end_shape (e : Env) (fuel : Nat) (s : Sess) (inp : Bytes) (acc : List Ev) :
    EndShape (loop e fuel s inp acc) := by
  induction fuel generalizing s inp acc with
  | zero => simp [loop_zero, EndShape]
  | succ fuel ih =>
    cases iter s inp with
    | quit h => simp [loop_stop_quit _ _ _ _ _ h, EndShape, h]
    | sendErr h h2 => simp [loop_stop_sendErr _ _ _ _ _ h h2, EndShape, h, h2]
    | dataCut h2 h3 hd =>
      rw [loop_data_cut _ _ _ _ _ h2 h3 hd]
      refine ⟨by simp, ?_, by simp, by simp⟩
      intro _
      exact ⟨rfl, acc.reverse, by simp⟩
    | data h2 h3 block rest hd =>
      rw [loop_data _ _ _ _ _ h2 h3 block rest hd]
      exact ih ..
    | eof h1 h2 h3 hi =>
      subst hi
      rw [loop_eof _ _ _ _ h1 h2 h3]
      simp [EndShape, h1, h2, h3]
    | line h1 h2 h3 line rest hl =>
      rw [loop_line _ _ _ _ _ h1 h2 h3 line rest hl]
      exact ih ..

theorem run_end_shape (e : Env) (b : Option Nat) (w : Bytes) : EndShape (run e b w) := by
  rw [run_eq]; exact loop_end_shape ..

/-- the four outcomes of a whole connection -/
theorem run_outcomes (e : Env) (b : Option Nat) (w : Bytes) :
    (run e b w).2.2 = .eof ∨ (run e b w).2.2 = .quit ∨ (run e b w).2.2 = .sendError ∨ (run e b w).2.2 = .dataCut := by
  have := loop_total e (w.length + 2) (start e b) w [.reply [220]] (by omega)
  have h2 := loop_not_tlsFail e (w.length + 2) (start e b) w [.reply [220]]
  rw [← run_eq] at this h2
  cases h : (run e b w).2.2 <;> simp_all

end Ibx.Lemmas.SmtpEnd
